(* Cdt/SegSpec.v -- the independent set-of-segments model of a CDT's constraint edges (property C04).
   A state is the set of elementary constraint segments, as unordered pairs of exact positions.  Each public
   operation has a transition; the flagged edges of the implementation must equal the model's set after every step.
   Definitions only. *)
From Coq Require Import ZArith List Bool.
From SpadeV Require Import Geom.Pred.
Import ListNotations.
Local Open Scope Z_scope.

Definition seg := (pnt * pnt)%type.
Definition seg_eqb (a b : seg) : bool :=
  (pnt_eqb (fst a) (fst b) && pnt_eqb (snd a) (snd b)) || (pnt_eqb (fst a) (snd b) && pnt_eqb (snd a) (fst b)).
Definition seg_mem (s : seg) (l : list seg) : bool := existsb (seg_eqb s) l.
Definition segs_same (a b : list seg) : bool := forallb (fun s => seg_mem s b) a && forallb (fun s => seg_mem s a) b.
Definition seg_add (s : seg) (l : list seg) : list seg := if seg_mem s l then l else s :: l.

(* a new vertex p in the relative interior of a stored segment replaces it by its two halves *)
Definition split_at (r : list seg) (p : pnt) : list seg :=
  flat_map (fun s => if strictly_between (fst s) (snd s) p then [(fst s, p); (p, snd s)] else [s]) r.

(* removing a vertex deletes the segments ending in it *)
Definition remove_vertex (r : list seg) (p : pnt) : list seg :=
  filter (fun s => negb (pnt_eqb (fst s) p || pnt_eqb (snd s) p)) r.

Definition remove_seg (r : list seg) (s : seg) : list seg := filter (fun x => negb (seg_eqb x s)) r.

(* does the open segment ab cross the interior of a stored segment? *)
Definition blocked (r : list seg) (a b : pnt) : bool :=
  existsb (fun s => proper_cross a b (fst s) (snd s)) r.

(* insertion sort of the vertices lying on the closed segment ab by their parameter along ab *)
Fixpoint insert_by (a b : pnt) (p : pnt) (l : list pnt) : list pnt :=
  match l with
  | [] => [p]
  | q :: t => if dot a b p <=? dot a b q then p :: l else q :: insert_by a b p t
  end.
Definition on_ab_sorted (verts : list pnt) (a b : pnt) : list pnt :=
  fold_right (insert_by a b) [] (filter (on_segment a b) verts).
Fixpoint consecutive (l : list pnt) : list seg :=
  match l with
  | p :: ((q :: _) as t) => (p, q) :: consecutive t
  | _ => []
  end.

(* adding the constraint a-b over the vertex set verts: refused when blocked (or degenerate), else the pairs of
   consecutive vertices on [a,b] are added *)
Definition add_constraint (verts : list pnt) (r : list seg) (a b : pnt) : list seg :=
  if pnt_eqb a b || blocked r a b then r
  else fold_right seg_add r (consecutive (on_ab_sorted verts a b)).

(* pairwise non-crossing of a segment set *)
Definition noncrossing (r : list seg) : bool :=
  forallb (fun s => forallb (fun t => negb (proper_cross (fst s) (snd s) (fst t) (snd t))) r) r.
