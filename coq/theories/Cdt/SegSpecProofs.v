(* Cdt/SegSpecProofs.v -- invariants of the set-of-segments model of constraint edges (property C04)
   and the list lemmas behind the bulk-load checks (C10).  No axioms. *)
From Coq Require Import ZArith List Bool Lia Arith.
From SpadeV Require Import Geom.Pred Geom.Lemmas Cdt.SegSpec Vmap.Model Vmap.Proofs Check.Run.
Import ListNotations.
Local Open Scope Z_scope.

(* ================================================================== *)
(* 0. pure integer sign lemmas                                         *)
(* ================================================================== *)

Lemma sign_pos_factor : forall N m x y : Z,
  0 < N -> 0 < m -> N * x = m * y -> (0 < x -> 0 < y) /\ (x < 0 -> y < 0).
Proof.
  intros N m x y HN Hm E. split; intros Hx.
  - assert (H : 0 < N * x) by (apply Z.mul_pos_pos; lia).
    destruct (Z_lt_le_dec 0 y) as [Hy|Hy]; [exact Hy|].
    assert (m * y <= 0) by (apply Z.mul_nonneg_nonpos; lia). lia.
  - assert (H : N * x < 0) by (apply Z.mul_pos_neg; lia).
    destruct (Z_lt_le_dec y 0) as [Hy|Hy]; [exact Hy|].
    assert (0 <= m * y) by (apply Z.mul_nonneg_nonneg; lia). lia.
Qed.

Lemma sign_transfer : forall N m x y x' y' : Z,
  0 < N -> N * x = m * y -> N * x' = m * y' ->
  (0 < x /\ x' < 0) \/ (x < 0 /\ 0 < x') ->
  (0 < y /\ y' < 0) \/ (y < 0 /\ 0 < y').
Proof.
  intros N m x y x' y' HN E1 E2 H.
  destruct (Z.lt_trichotomy m 0) as [Hm|[Hm|Hm]].
  - assert (F1 : N * x = (- m) * (- y)) by (rewrite E1; ring).
    assert (F2 : N * x' = (- m) * (- y')) by (rewrite E2; ring).
    assert (Hm' : 0 < - m) by lia.
    destruct (sign_pos_factor N (- m) x (- y) HN Hm' F1) as [P1 Q1].
    destruct (sign_pos_factor N (- m) x' (- y') HN Hm' F2) as [P2 Q2].
    destruct H as [[Hx Hx']|[Hx Hx']].
    + specialize (P1 Hx). specialize (Q2 Hx'). lia.
    + specialize (Q1 Hx). specialize (P2 Hx'). lia.
  - subst m. exfalso.
    assert (Hz : N * x = 0) by lia.
    apply Z.mul_eq_0 in Hz. lia.
  - destruct (sign_pos_factor N m x y HN Hm E1) as [P1 Q1].
    destruct (sign_pos_factor N m x' y' HN Hm E2) as [P2 Q2].
    destruct H as [[Hx Hx']|[Hx Hx']].
    + specialize (P1 Hx). specialize (Q2 Hx'). lia.
    + specialize (Q1 Hx). specialize (P2 Hx'). lia.
Qed.

Lemma convex_sign : forall N kp kq A B P Q : Z,
  0 < N -> 0 <= kp <= N -> 0 <= kq <= N ->
  N * P = (N - kp) * A + kp * B ->
  N * Q = (N - kq) * A + kq * B ->
  (0 < P /\ Q < 0) \/ (P < 0 /\ 0 < Q) ->
  (0 < A /\ B < 0) \/ (A < 0 /\ 0 < B).
Proof.
  intros N kp kq A B P Q HN Hp Hq EP EQ H.
  assert (SP1 : 0 < P -> 0 < N * P) by (intros; apply Z.mul_pos_pos; lia).
  assert (SP2 : P < 0 -> N * P < 0) by (intros; apply Z.mul_pos_neg; lia).
  assert (SQ1 : 0 < Q -> 0 < N * Q) by (intros; apply Z.mul_pos_pos; lia).
  assert (SQ2 : Q < 0 -> N * Q < 0) by (intros; apply Z.mul_pos_neg; lia).
  assert (Contra : (0 <= N * P /\ 0 <= N * Q) \/ (N * P <= 0 /\ N * Q <= 0) -> False).
  { intros C. destruct H as [[G1 G2]|[G1 G2]].
    - specialize (SP1 G1). specialize (SQ2 G2). lia.
    - specialize (SP2 G1). specialize (SQ1 G2). lia. }
  destruct (Z_le_gt_dec 0 A) as [HA|HA]; destruct (Z_le_gt_dec 0 B) as [HB|HB].
  - exfalso. apply Contra. left.
    assert (T1 : 0 <= (N - kp) * A) by (apply Z.mul_nonneg_nonneg; lia).
    assert (T2 : 0 <= kp * B) by (apply Z.mul_nonneg_nonneg; lia).
    assert (T3 : 0 <= (N - kq) * A) by (apply Z.mul_nonneg_nonneg; lia).
    assert (T4 : 0 <= kq * B) by (apply Z.mul_nonneg_nonneg; lia).
    lia.
  - destruct (Z.eq_dec A 0) as [HA0|HA0]; [|left; lia].
    exfalso. apply Contra. right. subst A.
    assert (T2 : kp * B <= 0) by (apply Z.mul_nonneg_nonpos; lia).
    assert (T4 : kq * B <= 0) by (apply Z.mul_nonneg_nonpos; lia).
    lia.
  - destruct (Z.eq_dec B 0) as [HB0|HB0]; [|right; lia].
    exfalso. apply Contra. right. subst B.
    assert (T1 : (N - kp) * A <= 0) by (apply Z.mul_nonneg_nonpos; lia).
    assert (T3 : (N - kq) * A <= 0) by (apply Z.mul_nonneg_nonpos; lia).
    lia.
  - exfalso. apply Contra. right.
    assert (T1 : (N - kp) * A <= 0) by (apply Z.mul_nonneg_nonpos; lia).
    assert (T2 : kp * B <= 0) by (apply Z.mul_nonneg_nonpos; lia).
    assert (T3 : (N - kq) * A <= 0) by (apply Z.mul_nonneg_nonpos; lia).
    assert (T4 : kq * B <= 0) by (apply Z.mul_nonneg_nonpos; lia).
    lia.
Qed.

(* ================================================================== *)
(* 1. geometry: a sub-segment cannot properly cross what the whole     *)
(*    segment does not                                                 *)
(* ================================================================== *)

(* orientation w.r.t. a sub-segment pq of the line ab, in terms of the parameters dot a b _ *)
Lemma orient_sub_id : forall a b p q c : pnt,
  dist2 a b * orient p q c =
  (dot a b q - dot a b p) * (orient a b c - orient a b p)
  + (orient a b q - orient a b p) * (dot a b p - dot a b c).
Proof. geom_ring. Qed.

(* orient c d _ is affine along the line ab *)
Lemma orient_affine_id : forall a b c d p : pnt,
  dist2 a b * orient c d p =
  (dist2 a b - dot a b p) * orient c d a + dot a b p * orient c d b
  + orient a b p * ((fst d - fst c) * (fst b - fst a) + (snd d - snd c) * (snd b - snd a)).
Proof. geom_ring. Qed.

(* position of a point in terms of its parameter and its orientation *)
Lemma param_x : forall a b p : pnt,
  dist2 a b * (fst p - fst a) = dot a b p * (fst b - fst a) - orient a b p * (snd b - snd a).
Proof. geom_ring. Qed.
Lemma param_y : forall a b p : pnt,
  dist2 a b * (snd p - snd a) = dot a b p * (snd b - snd a) + orient a b p * (fst b - fst a).
Proof. geom_ring. Qed.

Lemma dot_self_l : forall a b : pnt, dot a b a = 0.
Proof. geom_ring. Qed.
Lemma dot_self_r : forall a b : pnt, dot a b b = dist2 a b.
Proof. geom_ring. Qed.

Lemma on_segment_l : forall a b : pnt, on_segment a b a = true.
Proof.
  intros a b. apply on_segment_spec. destruct (orient_degenerate a b a) as [_ [H _]].
  rewrite H, dot_self_l. pose proof (dist2_nonneg a b). lia.
Qed.
Lemma on_segment_r : forall a b : pnt, on_segment a b b = true.
Proof.
  intros a b. apply on_segment_spec. destruct (orient_degenerate a b a) as [_ [_ H]].
  rewrite H, dot_self_r. pose proof (dist2_nonneg a b). lia.
Qed.

(* on a non-degenerate segment the parameter determines the point *)
Lemma param_zero_is_a : forall a b p : pnt,
  a <> b -> orient a b p = 0 -> dot a b p = 0 -> p = a.
Proof.
  intros a b p Hab Ho Hk.
  pose proof (dist2_pos a b Hab) as HN.
  pose proof (param_x a b p) as Ex. pose proof (param_y a b p) as Ey.
  rewrite Ho, Hk in Ex, Ey.
  destruct p as [px py], a as [ax ay]. cbn [fst snd] in *.
  assert (px - ax = 0) by nia. assert (py - ay = 0) by nia.
  f_equal; lia.
Qed.

Lemma param_full_is_b : forall a b p : pnt,
  a <> b -> orient a b p = 0 -> dot a b p = dist2 a b -> p = b.
Proof.
  intros a b p Hab Ho Hk.
  pose proof (dist2_pos a b Hab) as HN.
  pose proof (param_x a b p) as Ex. pose proof (param_y a b p) as Ey.
  rewrite Ho, Hk in Ex, Ey.
  destruct p as [px py], a as [ax ay], b as [bx by_]. cbn [fst snd] in *.
  assert (px - ax = bx - ax) by nia. assert (py - ay = by_ - ay) by nia.
  f_equal; lia.
Qed.

Lemma strictly_between_nondeg : forall a b p : pnt, strictly_between a b p = true -> a <> b.
Proof.
  intros a b p H E. apply strictly_between_spec in H.
  apply dist2_zero_iff in E. lia.
Qed.

(* the main geometric lemma: p, q on the closed non-degenerate segment ab; if pq properly crosses cd
   then so does ab *)
Lemma sub_cross : forall a b p q c d : pnt,
  a <> b -> on_segment a b p = true -> on_segment a b q = true ->
  proper_cross p q c d = true -> proper_cross a b c d = true.
Proof.
  intros a b p q c d Hab Hp Hq Hx.
  apply on_segment_spec in Hp. apply on_segment_spec in Hq.
  destruct Hp as [Op Kp]. destruct Hq as [Oq Kq].
  pose proof (dist2_pos a b Hab) as HN.
  apply proper_cross_spec in Hx. apply proper_cross_spec.
  destruct Hx as [H1 H2].
  pose proof (orient_sub_id a b p q c) as E1.
  pose proof (orient_sub_id a b p q d) as E2.
  pose proof (orient_affine_id a b c d p) as E3.
  pose proof (orient_affine_id a b c d q) as E4.
  rewrite Op, Oq in E1, E2. rewrite Op in E3. rewrite Oq in E4.
  split.
  - apply (sign_transfer (dist2 a b) (dot a b q - dot a b p)
             (orient p q c) (orient a b c) (orient p q d) (orient a b d)).
    + exact HN.
    + rewrite E1. ring.
    + rewrite E2. ring.
    + exact H1.
  - apply (convex_sign (dist2 a b) (dot a b p) (dot a b q)
             (orient c d a) (orient c d b) (orient c d p) (orient c d q)).
    + exact HN.
    + exact Kp.
    + exact Kq.
    + rewrite E3. ring.
    + rewrite E4. ring.
    + exact H2.
Qed.

(* the special case announced in the task: half of a segment *)
Lemma half_cross : forall a b p c d : pnt,
  strictly_between a b p = true -> proper_cross a p c d = true -> proper_cross a b c d = true.
Proof.
  intros a b p c d Hp Hx.
  apply (sub_cross a b a p c d).
  - eapply strictly_between_nondeg; exact Hp.
  - apply on_segment_l.
  - apply strictly_between_on_segment; exact Hp.
  - exact Hx.
Qed.

Lemma half_cross' : forall a b p c d : pnt,
  strictly_between a b p = true -> proper_cross p b c d = true -> proper_cross a b c d = true.
Proof.
  intros a b p c d Hp Hx.
  apply (sub_cross a b p b c d).
  - eapply strictly_between_nondeg; exact Hp.
  - apply strictly_between_on_segment; exact Hp.
  - apply on_segment_r.
  - exact Hx.
Qed.

Lemma proper_cross_self : forall a b : pnt, proper_cross a b a b = false.
Proof.
  intros a b. destruct (proper_cross a b a b) eqn:E; [|reflexivity].
  apply proper_cross_spec in E. destruct (orient_degenerate a b a) as [_ [H _]].
  rewrite H in E. lia.
Qed.

(* ================================================================== *)
(* 2. seg_eqb, seg_mem, segs_same                                      *)
(* ================================================================== *)

Lemma seg_eqb_spec : forall s t : seg,
  seg_eqb s t = true <-> (fst s = fst t /\ snd s = snd t) \/ (fst s = snd t /\ snd s = fst t).
Proof.
  intros s t. unfold seg_eqb. rewrite orb_true_iff, !andb_true_iff, !pnt_eqb_spec. tauto.
Qed.

Lemma seg_eqb_refl : forall s, seg_eqb s s = true.
Proof. intros s. apply seg_eqb_spec. left. split; reflexivity. Qed.

Lemma seg_eqb_sym : forall s t, seg_eqb s t = true -> seg_eqb t s = true.
Proof.
  intros s t H. apply seg_eqb_spec in H. apply seg_eqb_spec.
  destruct H as [[H1 H2]|[H1 H2]]; [left|right]; split; congruence.
Qed.

Lemma seg_eqb_sym_eq : forall s t, seg_eqb s t = seg_eqb t s.
Proof.
  intros s t. destruct (seg_eqb s t) eqn:E1; destruct (seg_eqb t s) eqn:E2; try reflexivity.
  - apply seg_eqb_sym in E1. congruence.
  - apply seg_eqb_sym in E2. congruence.
Qed.

Lemma seg_eqb_trans : forall s t u, seg_eqb s t = true -> seg_eqb t u = true -> seg_eqb s u = true.
Proof.
  intros s t u H1 H2. apply seg_eqb_spec in H1. apply seg_eqb_spec in H2. apply seg_eqb_spec.
  destruct H1 as [[A1 A2]|[A1 A2]]; destruct H2 as [[B1 B2]|[B1 B2]].
  - left; split; congruence.
  - right; split; congruence.
  - right; split; congruence.
  - left; split; congruence.
Qed.

Lemma seg_eqb_swap : forall a b : pnt, seg_eqb (a, b) (b, a) = true.
Proof. intros a b. apply seg_eqb_spec. right. split; reflexivity. Qed.

(* seg_eqb is exactly equality of unordered pairs *)
Lemma seg_eqb_unordered : forall a b c d : pnt,
  seg_eqb (a, b) (c, d) = true <-> (a = c /\ b = d) \/ (a = d /\ b = c).
Proof. intros a b c d. rewrite seg_eqb_spec. cbn [fst snd]. tauto. Qed.

Theorem seg_eqb_equivalence :
  (forall s, seg_eqb s s = true) /\
  (forall s t, seg_eqb s t = true -> seg_eqb t s = true) /\
  (forall s t u, seg_eqb s t = true -> seg_eqb t u = true -> seg_eqb s u = true) /\
  (forall a b, seg_eqb (a, b) (b, a) = true).
Proof.
  split; [exact seg_eqb_refl|]. split; [exact seg_eqb_sym|]. split; [exact seg_eqb_trans|exact seg_eqb_swap].
Qed.

Lemma seg_mem_spec : forall s l, seg_mem s l = true <-> exists t, In t l /\ seg_eqb s t = true.
Proof. intros s l. unfold seg_mem. apply existsb_exists. Qed.

Lemma seg_mem_cons : forall s t l, seg_mem s (t :: l) = seg_eqb s t || seg_mem s l.
Proof. reflexivity. Qed.

Lemma seg_mem_in : forall s l, In s l -> seg_mem s l = true.
Proof. intros s l H. apply seg_mem_spec. exists s. split; [exact H|apply seg_eqb_refl]. Qed.

Lemma seg_mem_eqb : forall s t l, seg_eqb s t = true -> seg_mem t l = true -> seg_mem s l = true.
Proof.
  intros s t l E H. apply seg_mem_spec in H. destruct H as [u [Hu Eu]].
  apply seg_mem_spec. exists u. split; [exact Hu|]. eapply seg_eqb_trans; eassumption.
Qed.

Theorem segs_same_spec : forall x y,
  segs_same x y = true <-> (forall s, seg_mem s x = true <-> seg_mem s y = true).
Proof.
  intros x y. unfold segs_same. rewrite andb_true_iff, !forallb_forall. split.
  - intros [Hxy Hyx] s. split; intros H; apply seg_mem_spec in H; destruct H as [t [Ht Et]].
    + apply (seg_mem_eqb s t y Et). apply Hxy. exact Ht.
    + apply (seg_mem_eqb s t x Et). apply Hyx. exact Ht.
  - intros H. split; intros s Hs.
    + apply H. apply seg_mem_in. exact Hs.
    + apply H. apply seg_mem_in. exact Hs.
Qed.

Lemma seg_add_in : forall s t l, In s (seg_add t l) -> s = t \/ In s l.
Proof.
  intros s t l. unfold seg_add. destruct (seg_mem t l).
  - intros H. right. exact H.
  - intros [H|H]; [left; symmetry; exact H|right; exact H].
Qed.

Lemma seg_add_mem : forall s t l,
  seg_mem s (seg_add t l) = true <-> seg_eqb s t = true \/ seg_mem s l = true.
Proof.
  intros s t l. unfold seg_add. destruct (seg_mem t l) eqn:M.
  - split.
    + intros H. right. exact H.
    + intros [H|H]; [|exact H]. eapply seg_mem_eqb; eassumption.
  - rewrite seg_mem_cons, orb_true_iff. reflexivity.
Qed.

Lemma fold_seg_add_in : forall s pcs r, In s (fold_right seg_add r pcs) -> In s pcs \/ In s r.
Proof.
  intros s pcs r. induction pcs as [|t pcs IH]; cbn [fold_right].
  - intros H. right. exact H.
  - intros H. apply seg_add_in in H. destruct H as [H|H].
    + left. left. symmetry. exact H.
    + destruct (IH H) as [H'|H']; [left; right; exact H'|right; exact H'].
Qed.

Lemma fold_seg_add_mem : forall s pcs r,
  seg_mem s (fold_right seg_add r pcs) = true <-> seg_mem s pcs = true \/ seg_mem s r = true.
Proof.
  intros s pcs r. induction pcs as [|t pcs IH]; cbn [fold_right].
  - split; [intros H; right; exact H|intros [H|H]; [discriminate|exact H]].
  - rewrite seg_add_mem, IH, seg_mem_cons, orb_true_iff. tauto.
Qed.

(* ================================================================== *)
(* 3. NonCrossing and the four transitions                             *)
(* ================================================================== *)

Definition NonCrossing (r : list seg) : Prop :=
  forall s t, In s r -> In t r -> proper_cross (fst s) (snd s) (fst t) (snd t) = false.

Theorem noncrossing_spec : forall r, noncrossing r = true <-> NonCrossing r.
Proof.
  intros r. unfold noncrossing, NonCrossing. rewrite forallb_forall. split.
  - intros H s t Hs Ht. specialize (H s Hs). rewrite forallb_forall in H. specialize (H t Ht).
    apply negb_true_iff in H. exact H.
  - intros H s Hs. apply forallb_forall. intros t Ht. apply negb_true_iff. apply H; assumption.
Qed.

Lemma NonCrossing_nil : NonCrossing [].
Proof. intros s t Hs. contradiction. Qed.

(* t is s itself or a piece of the (non-degenerate) segment s *)
Definition SubSeg (s t : seg) : Prop :=
  t = s \/
  (fst s <> snd s /\ on_segment (fst s) (snd s) (fst t) = true /\ on_segment (fst s) (snd s) (snd t) = true).

Lemma subseg_cross_l : forall s t c d,
  SubSeg s t -> proper_cross (fst t) (snd t) c d = true -> proper_cross (fst s) (snd s) c d = true.
Proof.
  intros s t c d [E|[Hne [H1 H2]]] Hx.
  - subst t. exact Hx.
  - exact (sub_cross (fst s) (snd s) (fst t) (snd t) c d Hne H1 H2 Hx).
Qed.

Lemma subseg_noncross : forall s1 s2 t1 t2,
  SubSeg s1 t1 -> SubSeg s2 t2 ->
  proper_cross (fst s1) (snd s1) (fst s2) (snd s2) = false ->
  proper_cross (fst t1) (snd t1) (fst t2) (snd t2) = false.
Proof.
  intros s1 s2 t1 t2 S1 S2 H.
  destruct (proper_cross (fst t1) (snd t1) (fst t2) (snd t2)) eqn:E; [|reflexivity].
  apply (subseg_cross_l s1 t1 _ _ S1) in E.
  rewrite proper_cross_sym in E.
  apply (subseg_cross_l s2 t2 _ _ S2) in E.
  rewrite proper_cross_sym in E. congruence.
Qed.

(* refinement: every segment of r' is a piece of some segment of r *)
Lemma NonCrossing_refine : forall r r',
  (forall t, In t r' -> exists s, In s r /\ SubSeg s t) -> NonCrossing r -> NonCrossing r'.
Proof.
  intros r r' Href H t1 t2 H1 H2.
  destruct (Href t1 H1) as [s1 [I1 S1]]. destruct (Href t2 H2) as [s2 [I2 S2]].
  apply (subseg_noncross s1 s2 t1 t2 S1 S2). apply H; assumption.
Qed.

Lemma NonCrossing_incl : forall r r', (forall t, In t r' -> In t r) -> NonCrossing r -> NonCrossing r'.
Proof.
  intros r r' Hincl. apply NonCrossing_refine. intros t Ht. exists t. split; [apply Hincl; exact Ht|left; reflexivity].
Qed.

Lemma split_at_parent : forall r p t, In t (split_at r p) -> exists s, In s r /\ SubSeg s t.
Proof.
  intros r p t H. unfold split_at in H. apply in_flat_map in H. destruct H as [s [Hs Ht]].
  exists s. split; [exact Hs|].
  destruct (strictly_between (fst s) (snd s) p) eqn:B.
  - right. pose proof (strictly_between_nondeg _ _ _ B) as Hne.
    pose proof (strictly_between_on_segment _ _ _ B) as Hon.
    destruct Ht as [Ht|[Ht|Ht]]; [subst t|subst t|contradiction]; cbn [fst snd].
    + split; [exact Hne|]. split; [apply on_segment_l|exact Hon].
    + split; [exact Hne|]. split; [exact Hon|apply on_segment_r].
  - left. destruct Ht as [Ht|Ht]; [symmetry; exact Ht|contradiction].
Qed.

Theorem split_at_noncrossing : forall r p, NonCrossing r -> NonCrossing (split_at r p).
Proof. intros r p. apply NonCrossing_refine. apply split_at_parent. Qed.

Theorem remove_vertex_noncrossing : forall r p, NonCrossing r -> NonCrossing (remove_vertex r p).
Proof.
  intros r p. apply NonCrossing_incl. intros t Ht. unfold remove_vertex in Ht.
  apply filter_In in Ht. apply Ht.
Qed.

Theorem remove_seg_noncrossing : forall r s, NonCrossing r -> NonCrossing (remove_seg r s).
Proof.
  intros r s. apply NonCrossing_incl. intros t Ht. unfold remove_seg in Ht.
  apply filter_In in Ht. apply Ht.
Qed.

Lemma blocked_false : forall r a b, blocked r a b = false ->
  forall s, In s r -> proper_cross a b (fst s) (snd s) = false.
Proof.
  intros r a b H s Hs. destruct (proper_cross a b (fst s) (snd s)) eqn:E; [|reflexivity].
  assert (X : blocked r a b = true).
  { unfold blocked. apply existsb_exists. exists s. split; assumption. }
  congruence.
Qed.

Lemma NonCrossing_cons_unblocked : forall r a b,
  NonCrossing r -> blocked r a b = false -> NonCrossing ((a, b) :: r).
Proof.
  intros r a b H Hb s t [Hs|Hs] [Ht|Ht].
  - subst s t. cbn [fst snd]. apply proper_cross_self.
  - subst s. cbn [fst snd]. apply (blocked_false r a b Hb t Ht).
  - subst t. cbn [fst snd]. rewrite proper_cross_sym. apply (blocked_false r a b Hb s Hs).
  - apply H; assumption.
Qed.

(* ---- the sorted list of vertices on [a,b] and its consecutive pairs ---- *)

Lemma consecutive_cons2 : forall p q l, consecutive (p :: q :: l) = (p, q) :: consecutive (q :: l).
Proof. reflexivity. Qed.

Lemma consecutive_in : forall L s, In s (consecutive L) -> In (fst s) L /\ In (snd s) L.
Proof.
  induction L as [|p L IH]; intros s H.
  - contradiction.
  - destruct L as [|q L'].
    + contradiction.
    + rewrite consecutive_cons2 in H. destruct H as [H|H].
      * subst s. cbn [fst snd]. split; [left; reflexivity|right; left; reflexivity].
      * destruct (IH s H) as [H1 H2]. split; right; assumption.
Qed.

Lemma insert_by_in : forall a b p l x, In x (insert_by a b p l) <-> x = p \/ In x l.
Proof.
  intros a b p l x. induction l as [|q t IH]; cbn [insert_by].
  - cbn [In]. split; [intros [H|H]; [left; symmetry; exact H|contradiction]|intros [H|H]; [left; symmetry; exact H|contradiction]].
  - destruct (dot a b p <=? dot a b q).
    + cbn [In]. split; [intros [H|H]; [left; symmetry; exact H|right; exact H]|intros [H|H]; [left; symmetry; exact H|right; exact H]].
    + cbn [In]. rewrite IH. tauto.
Qed.

Lemma sort_in : forall a b l x, In x (fold_right (insert_by a b) [] l) <-> In x l.
Proof.
  intros a b l x. induction l as [|p t IH]; cbn [fold_right].
  - tauto.
  - rewrite insert_by_in, IH. cbn [In]. split; intros [H|H]; auto.
Qed.

Lemma on_ab_sorted_in : forall verts a b x,
  In x (on_ab_sorted verts a b) <-> In x verts /\ on_segment a b x = true.
Proof. intros verts a b x. unfold on_ab_sorted. rewrite sort_in. apply filter_In. Qed.

Inductive SortedBy (f : pnt -> Z) : list pnt -> Prop :=
| sb_nil : SortedBy f []
| sb_cons x l : (forall y, In y l -> f x <= f y) -> SortedBy f l -> SortedBy f (x :: l).

Lemma insert_by_sorted : forall a b p l, SortedBy (dot a b) l -> SortedBy (dot a b) (insert_by a b p l).
Proof.
  intros a b p l H. induction H as [|q t Hq Ht IH]; cbn [insert_by].
  - constructor; [intros y Hy; contradiction|constructor].
  - destruct (dot a b p <=? dot a b q) eqn:E.
    + apply Z.leb_le in E. constructor.
      * intros y [Hy|Hy]; [subst y; exact E|]. specialize (Hq y Hy). lia.
      * constructor; assumption.
    + apply Z.leb_gt in E. constructor.
      * intros y Hy. apply insert_by_in in Hy. destruct Hy as [Hy|Hy]; [subst y; lia|apply Hq; exact Hy].
      * exact IH.
Qed.

Lemma on_ab_sorted_sorted : forall verts a b, SortedBy (dot a b) (on_ab_sorted verts a b).
Proof.
  intros verts a b. unfold on_ab_sorted. induction (filter (on_segment a b) verts) as [|p t IH]; cbn [fold_right].
  - constructor.
  - apply insert_by_sorted. exact IH.
Qed.

Lemma sorted_last_max : forall f L d y, SortedBy f L -> In y L -> f y <= f (last L d).
Proof.
  intros f L d y H. revert y. induction H as [|x l Hx Hl IH]; intros y Hy.
  - contradiction.
  - destruct l as [|z l'].
    + destruct Hy as [Hy|Hy]; [subst y; cbn [last]; lia|contradiction].
    + change (last (x :: z :: l') d) with (last (z :: l') d).
      destruct Hy as [Hy|Hy].
      * subst y. specialize (Hx z (or_introl eq_refl)). specialize (IH z (or_introl eq_refl)). lia.
      * apply IH. exact Hy.
Qed.

Lemma last_in : forall (L : list pnt) d, L <> [] -> In (last L d) L.
Proof.
  induction L as [|x l IH]; intros d Hne.
  - congruence.
  - destruct l as [|z l'].
    + left. reflexivity.
    + change (last (x :: z :: l') d) with (last (z :: l') d). right. apply IH. discriminate.
Qed.

Lemma sorted_consecutive_le : forall f L s, SortedBy f L -> In s (consecutive L) -> f (fst s) <= f (snd s).
Proof.
  intros f L s H. induction H as [|x l Hx Hl IH]; intros Hs.
  - contradiction.
  - destruct l as [|z l'].
    + contradiction.
    + rewrite consecutive_cons2 in Hs. destruct Hs as [Hs|Hs].
      * subst s. cbn [fst snd]. apply Hx. left. reflexivity.
      * apply IH. exact Hs.
Qed.

(* a chain of segments from one point to another *)
Inductive Chain : pnt -> list seg -> pnt -> Prop :=
| chain_nil p : Chain p [] p
| chain_cons p q l z : Chain q l z -> Chain p ((p, q) :: l) z.

Lemma consecutive_chain : forall L x d, Chain x (consecutive (x :: L)) (last (x :: L) d).
Proof.
  induction L as [|y L IH]; intros x d.
  - cbn [consecutive last]. constructor.
  - rewrite consecutive_cons2. change (last (x :: y :: L) d) with (last (y :: L) d).
    constructor. apply IH.
Qed.

(* every segment of the result of an accepted addition has a parent in (a,b) :: r *)
Lemma add_constraint_parent : forall verts r a b t,
  a <> b -> In t (fold_right seg_add r (consecutive (on_ab_sorted verts a b))) ->
  exists s, In s ((a, b) :: r) /\ SubSeg s t.
Proof.
  intros verts r a b t Hab Ht. apply fold_seg_add_in in Ht. destruct Ht as [Ht|Ht].
  - exists (a, b). split; [left; reflexivity|]. right. cbn [fst snd].
    apply consecutive_in in Ht. destruct Ht as [H1 H2].
    apply on_ab_sorted_in in H1. apply on_ab_sorted_in in H2.
    split; [exact Hab|]. split; [apply H1|apply H2].
  - exists t. split; [right; exact Ht|left; reflexivity].
Qed.

Theorem add_constraint_noncrossing : forall verts r a b,
  NonCrossing r -> NonCrossing (add_constraint verts r a b).
Proof.
  intros verts r a b H. unfold add_constraint.
  destruct (pnt_eqb a b) eqn:Eab; cbn [orb]; [exact H|].
  destruct (blocked r a b) eqn:Eb; [exact H|].
  apply pnt_eqb_neq in Eab.
  apply (NonCrossing_refine ((a, b) :: r)).
  - intros t Ht. eapply add_constraint_parent; eassumption.
  - apply NonCrossing_cons_unblocked; assumption.
Qed.

Theorem add_constraint_refused : forall verts r a b,
  blocked r a b = true -> add_constraint verts r a b = r.
Proof.
  intros verts r a b H. unfold add_constraint. rewrite H. rewrite orb_true_r. reflexivity.
Qed.

Lemma add_constraint_degenerate : forall verts r a, add_constraint verts r a a = r.
Proof. intros verts r a. unfold add_constraint. rewrite pnt_eqb_refl. reflexivity. Qed.

(* membership in the state after an accepted addition *)
Theorem add_constraint_mem : forall verts r a b s,
  blocked r a b = false -> a <> b ->
  (seg_mem s (add_constraint verts r a b) = true <->
   seg_mem s (consecutive (on_ab_sorted verts a b)) = true \/ seg_mem s r = true).
Proof.
  intros verts r a b s Hb Hab. unfold add_constraint. rewrite Hb.
  apply pnt_eqb_neq in Hab. rewrite Hab. cbn [orb]. apply fold_seg_add_mem.
Qed.

(* no hypothesis on duplicates in verts is needed *)
Theorem add_constraint_covers : forall verts r a b,
  blocked r a b = false -> a <> b -> In a verts -> In b verts ->
  let L := on_ab_sorted verts a b in
  (exists L', L = a :: L') /\
  last L a = b /\
  consecutive L <> [] /\
  Chain a (consecutive L) b /\
  (forall s, In s (consecutive L) ->
     on_segment a b (fst s) = true /\ on_segment a b (snd s) = true /\
     dot a b (fst s) <= dot a b (snd s)) /\
  (forall s, In s (consecutive L) -> seg_mem s (add_constraint verts r a b) = true).
Proof.
  intros verts r a b Hb Hab Ha Hbv L.
  pose proof (on_ab_sorted_sorted verts a b) as HS. fold L in HS.
  assert (HaL : In a L) by (apply on_ab_sorted_in; split; [exact Ha|apply on_segment_l]).
  assert (HbL : In b L) by (apply on_ab_sorted_in; split; [exact Hbv|apply on_segment_r]).
  assert (Hon : forall x, In x L -> on_segment a b x = true).
  { intros x Hx. apply on_ab_sorted_in in Hx. apply Hx. }
  (* head = a *)
  assert (Hhead : exists L', L = a :: L').
  { destruct L as [|x L'] eqn:EL; [contradiction|].
    exists L'. f_equal.
    assert (Hxon : on_segment a b x = true) by (apply Hon; left; reflexivity).
    apply on_segment_spec in Hxon. destruct Hxon as [Ox Kx].
    inversion HS as [|x' l' Hmin Hrest]; subst.
    assert (Hle : dot a b x <= dot a b a).
    { destruct HaL as [E|E]; [subst x; lia|apply Hmin; exact E]. }
    rewrite dot_self_l in Hle.
    apply (param_zero_is_a a b x Hab Ox). lia. }
  (* last = b *)
  assert (Hlast : last L a = b).
  { assert (Hne : L <> []) by (intros E; rewrite E in HaL; contradiction).
    pose proof (last_in L a Hne) as Hin.
    pose proof (Hon _ Hin) as Hlon. apply on_segment_spec in Hlon. destruct Hlon as [Ol Kl].
    pose proof (sorted_last_max (dot a b) L a b HS HbL) as Hge. rewrite dot_self_r in Hge.
    apply (param_full_is_b a b (last L a) Hab Ol). lia. }
  split; [exact Hhead|]. split; [exact Hlast|].
  destruct Hhead as [L' EL].
  split.
  { rewrite EL. destruct L' as [|y L''].
    - exfalso. rewrite EL in Hlast. cbn [last] in Hlast. contradiction.
    - rewrite consecutive_cons2. discriminate. }
  split.
  { assert (HC : Chain a (consecutive L) (last L a)) by (rewrite EL; apply consecutive_chain).
    rewrite Hlast in HC. exact HC. }
  split.
  - intros s Hs. pose proof (consecutive_in L s Hs) as [H1 H2].
    split; [apply Hon; exact H1|]. split; [apply Hon; exact H2|].
    apply (sorted_consecutive_le (dot a b) L s HS Hs).
  - intros s Hs. apply (add_constraint_mem verts r a b s Hb Hab). left.
    apply seg_mem_in. exact Hs.
Qed.

(* Remark: non-degeneracy of the stored segments (fst s <> snd s) is NOT needed for any result above, and it is
   not an invariant of add_constraint when verts lists a position twice: *)
Example degenerate_piece_with_duplicate_verts :
  add_constraint [(0, 0); (0, 0); (1, 0)] [] (0, 0) (1, 0) = [((0, 0), (0, 0)); ((0, 0), (1, 0))].
Proof. reflexivity. Qed.

(* ---- the fold over arbitrary histories ---- *)

Inductive sop :=
| SIns (p : pnt) | SRemV (p : pnt) | SRemS (s : seg) | SAdd (verts : list pnt) (a b : pnt).

Definition sstep (r : list seg) (o : sop) : list seg :=
  match o with
  | SIns p => split_at r p
  | SRemV p => remove_vertex r p
  | SRemS s => remove_seg r s
  | SAdd vs a b => add_constraint vs r a b
  end.

Lemma sstep_noncrossing : forall r o, NonCrossing r -> NonCrossing (sstep r o).
Proof.
  intros r [p|p|s|vs a b] H; cbn [sstep].
  - apply split_at_noncrossing; exact H.
  - apply remove_vertex_noncrossing; exact H.
  - apply remove_seg_noncrossing; exact H.
  - apply add_constraint_noncrossing; exact H.
Qed.

Lemma noncrossing_fold : forall ops r, NonCrossing r -> NonCrossing (fold_left sstep ops r).
Proof.
  induction ops as [|o ops IH]; intros r H; cbn [fold_left].
  - exact H.
  - apply IH. apply sstep_noncrossing. exact H.
Qed.

Theorem noncrossing_reachable : forall ops, NonCrossing (fold_left sstep ops []).
Proof. intros ops. apply noncrossing_fold. apply NonCrossing_nil. Qed.

Corollary noncrossing_reachable_bool : forall ops, noncrossing (fold_left sstep ops []) = true.
Proof. intros ops. apply noncrossing_spec. apply noncrossing_reachable. Qed.

(* ================================================================== *)
(* 4. Part B: list lemmas for the bulk-load checks                     *)
(* ================================================================== *)

Inductive Subseq {A} : list A -> list A -> Prop :=
| sub_nil l : Subseq [] l
| sub_skip a x l : Subseq a l -> Subseq a (x :: l)
| sub_take a x l : Subseq a l -> Subseq (x :: a) (x :: l).

Lemma Subseq_tail : forall A (y : A) a l, Subseq (y :: a) l -> Subseq a l.
Proof.
  intros A y a l H. remember (y :: a) as ya eqn:E. revert y a E.
  induction H as [l|a0 x l H IH|a0 x l H IH]; intros y a E.
  - discriminate.
  - apply sub_skip. eapply IH. exact E.
  - injection E as -> ->. apply sub_skip. exact H.
Qed.

Lemma is_subseq_nil : forall b, is_subseq [] b = true.
Proof. intros [|y b]; reflexivity. Qed.

Lemma is_subseq_cons : forall x a y b,
  is_subseq (x :: a) (y :: b) = if key_eqb x y then is_subseq a b else is_subseq (x :: a) b.
Proof. reflexivity. Qed.

Theorem is_subseq_spec : forall a b, is_subseq a b = true <-> Subseq a b.
Proof.
  intros a b. revert a. induction b as [|y b IH]; intros a.
  - destruct a as [|x a].
    + split; [intros _; constructor|reflexivity].
    + split; [discriminate|intros H; inversion H].
  - destruct a as [|x a].
    + split; [intros _; constructor|reflexivity].
    + rewrite is_subseq_cons. destruct (key_eqb x y) eqn:E.
      * apply key_eqb_eq in E. subst y. rewrite IH. split.
        -- intros H. apply sub_take. exact H.
        -- intros H. inversion H as [|a0 x0 l0 H0|a0 x0 l0 H0]; subst.
           ++ eapply Subseq_tail. exact H0.
           ++ exact H0.
      * rewrite IH. split.
        -- intros H. apply sub_skip. exact H.
        -- intros H. inversion H as [|a0 x0 l0 H0|a0 x0 l0 H0]; subst.
           ++ exact H0.
           ++ rewrite key_eqb_refl in E. discriminate.
Qed.

Lemma existsb_key_in : forall (k : key) l, existsb (key_eqb k) l = true <-> In k l.
Proof.
  intros k l. rewrite existsb_exists. split.
  - intros [x [Hx E]]. apply key_eqb_eq in E. subst x. exact Hx.
  - intros H. exists k. split; [exact H|apply key_eqb_refl].
Qed.

Theorem nodup_keys_spec : forall l, nodup_keys l = true <-> NoDup l.
Proof.
  induction l as [|k t IH]; cbn [nodup_keys].
  - split; [intros _; constructor|reflexivity].
  - rewrite andb_true_iff, negb_true_iff, IH. split.
    + intros [H1 H2]. constructor; [|exact H2].
      intros Hin. apply existsb_key_in in Hin. congruence.
    + intros H. inversion H as [|k' t' Hn Hd]; subst. split; [|exact Hd].
      destruct (existsb (key_eqb k) t) eqn:E; [|reflexivity].
      apply existsb_key_in in E. contradiction.
Qed.

Theorem same_key_set_spec : forall a b, same_key_set a b = true <-> (forall k, In k a <-> In k b).
Proof.
  intros a b. unfold same_key_set. rewrite andb_true_iff, !forallb_forall. split.
  - intros [H1 H2] k. split; intros H.
    + apply existsb_key_in. apply H1. exact H.
    + apply existsb_key_in. apply H2. exact H.
  - intros H. split; intros k Hk; apply existsb_key_in; apply H; exact Hk.
Qed.

Lemma upair_eqb_spec : forall p q : nat * nat,
  upair_eqb p q = true <-> (fst p = fst q /\ snd p = snd q) \/ (fst p = snd q /\ snd p = fst q).
Proof.
  intros p q. unfold upair_eqb. rewrite orb_true_iff, !andb_true_iff, !Nat.eqb_eq. tauto.
Qed.

Lemma upair_eqb_refl : forall p, upair_eqb p p = true.
Proof. intros p. apply upair_eqb_spec. left. split; reflexivity. Qed.

Lemma upair_eqb_sym : forall p q, upair_eqb p q = true -> upair_eqb q p = true.
Proof.
  intros p q H. apply upair_eqb_spec in H. apply upair_eqb_spec.
  destruct H as [[H1 H2]|[H1 H2]]; [left|right]; split; congruence.
Qed.

Lemma upair_eqb_trans : forall p q u, upair_eqb p q = true -> upair_eqb q u = true -> upair_eqb p u = true.
Proof.
  intros p q u H1 H2. apply upair_eqb_spec in H1. apply upair_eqb_spec in H2. apply upair_eqb_spec.
  destruct H1 as [[A1 A2]|[A1 A2]]; destruct H2 as [[B1 B2]|[B1 B2]].
  - left; split; congruence.
  - right; split; congruence.
  - right; split; congruence.
  - left; split; congruence.
Qed.

Lemma pairs_subset_spec : forall a b,
  pairs_subset a b = true <-> (forall x, In x a -> exists q, In q b /\ upair_eqb x q = true).
Proof.
  intros a b. unfold pairs_subset. rewrite forallb_forall. split.
  - intros H x Hx. apply existsb_exists. apply H. exact Hx.
  - intros H x Hx. apply existsb_exists. apply H. exact Hx.
Qed.

Theorem pairs_same_spec : forall a b,
  pairs_same a b = true <->
  (forall p, (exists q, In q a /\ upair_eqb p q = true) <-> (exists q, In q b /\ upair_eqb p q = true)).
Proof.
  intros a b. unfold pairs_same. rewrite andb_true_iff, !pairs_subset_spec. split.
  - intros [H1 H2] p. split; intros [q [Hq E]].
    + destruct (H1 q Hq) as [q' [Hq' E']]. exists q'. split; [exact Hq'|]. eapply upair_eqb_trans; eassumption.
    + destruct (H2 q Hq) as [q' [Hq' E']]. exists q'. split; [exact Hq'|]. eapply upair_eqb_trans; eassumption.
  - intros H. split; intros x Hx.
    + apply H. exists x. split; [exact Hx|apply upair_eqb_refl].
    + apply H. exists x. split; [exact Hx|apply upair_eqb_refl].
Qed.

Print Assumptions noncrossing_reachable.
Print Assumptions add_constraint_noncrossing.
Print Assumptions add_constraint_refused.
Print Assumptions is_subseq_spec.
Print Assumptions add_constraint_covers.
Print Assumptions segs_same_spec.
Print Assumptions pairs_same_spec.
