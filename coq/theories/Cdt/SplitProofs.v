(* Cdt/SplitProofs.v -- reflection theorems for the decisions of Check/Run.v on add_constraint_and_split (C13):
   covered / constraints_covered / constraints_kept (Refine/Outer.v), prefix_unchanged, the chain clause and the whole T_split
   verdict decide exactly the declarative statements of Cdt/SplitProp.v.  The fuel of the depth-first search is proved
   sufficient (a simple walk has at most nV vertices). *)
From Coq Require Import ZArith List Bool Arith Lia.
From SpadeV Require Import Num.Decode Geom.Pred Obs.State Obs.Spec Obs.SpecProp Obs.SpecProofs Obs.Query Obs.QueryProp
  Obs.QueryProofs Refine.Outer Check.Codes Check.Run Cdt.SplitProp.
Import ListNotations.

(* ------------------------------------------------------------------ generic list lemmas *)
Lemma list_eqb_spec : forall (A : Type) (eq : A -> A -> bool) (d : A) (a b : list A),
  list_eqb eq a b = true <->
  length a = length b /\ forall i, i < length a -> eq (nth i a d) (nth i b d) = true.
Proof.
  intros A eq d a. induction a as [| x a IH]; intros b.
  - destruct b as [| y b]; cbn [list_eqb length].
    + split; [intros _; split; [reflexivity | intros i Hi; lia] | reflexivity].
    + split; [discriminate | intros [H _]; discriminate H].
  - destruct b as [| y b]; cbn [list_eqb length].
    + split; [discriminate | intros [H _]; discriminate H].
    + rewrite andb_true_iff, IH. split.
      * intros [Hxy [Hl Hn]]. split; [lia |]. intros i Hi. destruct i as [| i]; cbn [nth]; [exact Hxy |].
        apply Hn. lia.
      * intros [Hl Hn]. split; [apply (Hn 0); lia |]. split; [lia |]. intros i Hi. apply (Hn (S i)). lia.
Qed.

Lemma nth_firstn : forall (A : Type) (d : A) (l : list A) n i, i < n -> nth i (firstn n l) d = nth i l d.
Proof.
  intros A d l. induction l as [| x l IH]; intros n i Hi.
  - rewrite firstn_nil. reflexivity.
  - destruct n as [| n]; [lia |]. destruct i as [| i]; cbn [firstn nth]; [reflexivity |]. apply IH. lia.
Qed.

Lemma NoDup_below_length : forall (l : list nat) n, NoDup l -> (forall x, In x l -> x < n) -> length l <= n.
Proof.
  intros l n Hnd Hr. rewrite <- (seq_length n 0). apply NoDup_incl_length; [exact Hnd |].
  intros x Hx. apply in_seq. specialize (Hr x Hx). lia.
Qed.

Lemma NoDup_app_r : forall (A : Type) (l1 l2 : list A), NoDup (l1 ++ l2) -> NoDup l2.
Proof.
  intros A l1. induction l1 as [| x l1 IH]; intros l2 H; [exact H |].
  cbn [app] in H. inversion H; subst. apply IH. assumption.
Qed.

(* ------------------------------------------------------------------ prefix_unchanged *)
Theorem prefix_unchanged_spec : forall p n, prefix_unchanged p n = true <-> PrefixUnchanged p n.
Proof.
  intros p n. unfold prefix_unchanged, PrefixUnchanged.
  rewrite andb_true_iff, Nat.leb_le, (list_eqb_spec _ _ dflt_v). fold (nV p). split.
  - intros [Hle [_ Hn]]. split; [exact Hle |]. intros i Hi. specialize (Hn i Hi).
    rewrite nth_firstn in Hn by exact Hi. rewrite !andb_true_iff, !Z.eqb_eq in Hn. tauto.
  - intros [Hle Hn]. split; [exact Hle |]. split.
    + rewrite firstn_length. fold (nV n). unfold nV in *. lia.
    + intros i Hi. rewrite nth_firstn by exact Hi. rewrite !andb_true_iff, !Z.eqb_eq.
      specialize (Hn i Hi). tauto.
Qed.

(* ------------------------------------------------------------------ the chain clause *)
Lemma chain_conn_spec : forall n vb l cur, chain_conn n vb cur l = true <-> ChainFromTo n cur vb l.
Proof.
  intros n vb l. induction l as [| e t IH]; intros cur.
  - cbn [chain_conn]. unfold ChainFromTo. rewrite Nat.eqb_eq. split.
    + intros H. split; [intros e [] |]. split; [| exact H]. intros i Hi. cbn [length] in Hi. lia.
    + intros [_ [_ H]]. exact H.
  - change (chain_conn n vb cur (e :: t))
      with ((e <? nH n) && (org n e =? cur) && flag n e && chain_conn n vb (dest n e) t).
    rewrite !andb_true_iff, Nat.ltb_lt, Nat.eqb_eq, IH. unfold ChainFromTo. split.
    + intros [[[He Ho] Hf] [Hall [Hadj Hend]]]. split; [| split].
      * intros e' [E | Hin]; [subst e'; tauto | apply Hall; exact Hin].
      * intros i Hi. destruct i as [| i].
        -- destruct t as [| e1 t']; [cbn [length] in Hi; lia |]. cbn [nth]. apply Hend.
        -- cbn [nth]. apply Hadj. cbn [length] in Hi. lia.
      * split; [exact Ho |]. destruct t as [| e1 t'].
        -- cbn [last]. exact Hend.
        -- destruct Hend as [_ Hend]. exact Hend.
    + intros [Hall [Hadj [Ho Hend]]].
      destruct (Hall e (or_introl eq_refl)) as [He Hf].
      split; [tauto |]. split; [| split].
      * intros e' Hin. apply Hall. right. exact Hin.
      * intros i Hi. apply (Hadj (S i)). cbn [length]. lia.
      * destruct t as [| e1 t'].
        -- cbn [last] in Hend. exact Hend.
        -- split; [| exact Hend]. apply (Hadj 0). cbn [length]. lia.
Qed.

(* a chain is a walk along constraint edges: the vertices it visits *)
Lemma ChainFromTo_cons : forall s va vb e t,
  ChainFromTo s va vb (e :: t) <-> e < nH s /\ org s e = va /\ flag s e = true /\ ChainFromTo s (dest s e) vb t.
Proof.
  intros s va vb e t. rewrite <- !chain_conn_spec.
  change (chain_conn s vb va (e :: t))
    with ((e <? nH s) && (org s e =? va) && flag s e && chain_conn s vb (dest s e) t).
  rewrite !andb_true_iff, Nat.ltb_lt, Nat.eqb_eq. tauto.
Qed.

(* ------------------------------------------------------------------ coverage: the search decides the existence of a walk *)
Section CoverProofs.
Variable s : obs.
Variable pts : list pnt.
Variable old_nv : nat.
Variable allowed : list nat.
Notation Walk := (Walk s pts old_nv allowed).
Notation Admissible := (Admissible pts old_nv allowed).

Lemma flagged_out_spec : forall u w, In w (flagged_out s u) <-> FlaggedStep s u w.
Proof.
  intros u w. unfold flagged_out, FlaggedStep. rewrite in_map_iff. split.
  - intros [e [Hd He]]. apply filter_In in He. destruct He as [Hin Hb]. apply in_seq in Hin.
    rewrite andb_true_iff, Nat.eqb_eq in Hb. exists e. repeat split; [lia | tauto | exact Hd | tauto].
  - intros [e [He [Ho [Hd Hf]]]]. exists e. split; [exact Hd |]. apply filter_In. split; [apply in_seq; lia |].
    rewrite andb_true_iff, Nat.eqb_eq. split; assumption.
Qed.

Lemma admissible_spec : forall a b t w,
  (w =? t) || (old_nv <=? w) || memb w allowed || strictly_between a b (pos pts w) = true <-> Admissible a b t w.
Proof.
  intros a b t w. unfold SplitProp.Admissible.
  rewrite !orb_true_iff, Nat.eqb_eq, Nat.leb_le, memb_spec, StrictlyBetween_spec. tauto.
Qed.

(* the search with fuel: a simple walk of bounded length avoiding the visited vertices *)
Lemma cover_dfs_spec : forall fuel a b t vis u,
  cover_dfs s pts old_nv allowed fuel a b t vis u = true <->
  exists l, Walk a b t u l /\ NoDup l /\ (forall x, In x l -> ~ In x vis) /\ length l < fuel.
Proof.
  induction fuel as [| k IH]; intros a b t vis u.
  - cbn [cover_dfs]. split; [discriminate |]. intros [l [_ [_ [_ H]]]]. lia.
  - cbn [cover_dfs]. rewrite orb_true_iff, Nat.eqb_eq, existsb_exists. split.
    + intros [E | [w [Hw Hb]]].
      * subst u. exists []. split; [constructor |]. split; [constructor |]. split; [intros x [] | cbn [length]; lia].
      * rewrite !andb_true_iff, negb_true_iff, admissible_spec, IH in Hb.
        destruct Hb as [[Hnv Had] [l [Hwalk [Hnd [Hdis Hlen]]]]].
        exists (w :: l). split; [| split; [| split]].
        -- constructor; [apply flagged_out_spec; exact Hw | exact Had | exact Hwalk].
        -- constructor; [| exact Hnd]. intros Hin. apply (Hdis w Hin). left. reflexivity.
        -- intros x [E | Hin].
           ++ subst x. intros Hin. apply memb_spec in Hin. congruence.
           ++ intros Hv. apply (Hdis x Hin). right. exact Hv.
        -- cbn [length]. lia.
    + intros [l [Hwalk [Hnd [Hdis Hlen]]]]. inversion Hwalk as [| u' w l' Hstep Had Hrest]; subst.
      * left. reflexivity.
      * right. exists w. split; [apply flagged_out_spec; exact Hstep |].
        rewrite !andb_true_iff, negb_true_iff, admissible_spec, IH. split; [split; [| exact Had] |].
        -- destruct (memb w vis) eqn:E; [| reflexivity]. apply memb_spec in E.
           exfalso. apply (Hdis w); [left; reflexivity | exact E].
        -- inversion Hnd as [| w' l'' Hnin Hnd']; subst. exists l'. split; [exact Hrest |]. split; [exact Hnd' |]. split.
           ++ intros x Hin [E | Hv]; [subst x; contradiction |]. apply (Hdis x); [right; exact Hin | exact Hv].
           ++ cbn [length] in Hlen. lia.
Qed.

(* the tail of a walk is a walk *)
Lemma Walk_suffix : forall a b t l1 x y l2, Walk a b t x (l1 ++ y :: l2) -> Walk a b t y l2.
Proof.
  intros a b t l1. induction l1 as [| z l1 IH]; intros x y l2 H.
  - cbn [app] in H. inversion H; subst. assumption.
  - cbn [app] in H. inversion H; subst. eapply IH. eassumption.
Qed.

(* loop removal: a walk can be shortened to a simple walk that does not return to its start *)
Lemma Walk_simple : forall a b t u l, Walk a b t u l ->
  exists l', Walk a b t u l' /\ NoDup l' /\ ~ In u l' /\ incl l' l.
Proof.
  intros a b t u l H. induction H as [| u w l Hstep Had Hrest IH].
  - exists []. split; [constructor |]. split; [constructor |]. split; [intros [] | intros x []].
  - destruct IH as [l' [Hw [Hnd [Hnin Hincl]]]].
    destruct (Nat.eq_dec u w) as [E | NE].
    + subst w. exists l'. split; [exact Hw |]. split; [exact Hnd |]. split; [exact Hnin |].
      intros x Hx. right. apply Hincl. exact Hx.
    + destruct (in_dec Nat.eq_dec u l') as [Hin | Hnu].
      * apply in_split in Hin. destruct Hin as [l1 [l2 El]]. subst l'.
        exists l2. split; [eapply Walk_suffix; exact Hw |].
        apply NoDup_remove in Hnd. destruct Hnd as [Hnd Hnu].
        split; [apply NoDup_app_r in Hnd; exact Hnd |]. split.
        -- intros Hin. apply Hnu. apply in_or_app. right. exact Hin.
        -- intros x Hx. right. apply Hincl. apply in_or_app. right. right. exact Hx.
      * exists (w :: l'). split; [constructor; assumption |]. split; [constructor; assumption |]. split.
        -- intros [E | Hin]; [apply NE; symmetry; exact E | contradiction].
        -- intros x [E | Hx]; [left; exact E | right; apply Hincl; exact Hx].
Qed.

(* every listed vertex of a walk is the head of a half-edge *)
Lemma Walk_dest : forall a b t u l, Walk a b t u l -> forall x, In x l -> exists e, e < nH s /\ dest s e = x.
Proof.
  intros a b t u l H. induction H as [| u w l Hstep Had Hrest IH]; intros x Hx.
  - destruct Hx.
  - destruct Hx as [E | Hx]; [| apply IH; exact Hx]. subst x.
    destruct Hstep as [e [He [_ [Hd _]]]]. exists e. split; assumption.
Qed.

(* fuel sufficiency: under the range hypothesis nV s + 1 units of fuel find every walk *)
Theorem covered_spec : DestInRange s -> forall u v,
  covered s pts old_nv allowed u v = true <-> Covered s pts old_nv allowed u v.
Proof.
  intros Hr u v. unfold covered, Covered. rewrite cover_dfs_spec. split.
  - intros [l [Hw _]]. exists l. exact Hw.
  - intros [l Hw]. destruct (Walk_simple _ _ _ _ _ Hw) as [l' [Hw' [Hnd [Hnu _]]]].
    exists l'. split; [exact Hw' |]. split; [exact Hnd |]. split.
    + intros x Hx [E | []]. subst x. contradiction.
    + assert (length l' <= nV s); [| lia]. apply NoDup_below_length; [exact Hnd |].
      intros x Hx. destruct (Walk_dest _ _ _ _ _ Hw' x Hx) as [e [He Hd]]. subst x. apply Hr. exact He.
Qed.

(* a covering walk found by the checker can always be taken simple, off its start, within the vertex range *)
Corollary Covered_simple : forall u v, Covered s pts old_nv allowed u v ->
  exists l, Walk (pos pts u) (pos pts v) v u l /\ NoDup l /\ ~ In u l.
Proof.
  intros u v [l Hw]. destruct (Walk_simple _ _ _ _ _ Hw) as [l' [Hw' [Hnd [Hnu _]]]]. exists l'. tauto.
Qed.

(* walks compose with constraint chains: a returned chain is a walk when its inner vertices are admissible *)
Lemma Walk_last : forall a b t u l, Walk a b t u l -> forall d, last (u :: l) d = t.
Proof.
  intros a b t u l H. induction H as [| u w l Hstep Had Hrest IH]; intros d; [reflexivity |].
  change (last (u :: w :: l) d) with (last (w :: l) d). apply IH.
Qed.
(* ---- symmetry: a covering walk can be reversed (twins of constraint edges are constraint edges) ---- *)
Lemma rev_involutive : forall e, rev (rev e) = e.
Proof.
  intros e. unfold rev. destruct (Nat.even e) eqn:Ev.
  - rewrite Nat.even_succ, <- Nat.negb_even, Ev. reflexivity.
  - destruct e as [| e]; [discriminate Ev |]. cbn [Nat.pred]. rewrite Nat.even_succ, <- Nat.negb_even in Ev.
    apply negb_false_iff in Ev. rewrite Ev. reflexivity.
Qed.

Lemma div2_rev : forall e, Nat.div2 (rev e) = Nat.div2 e.
Proof.
  intros e. unfold rev. destruct (Nat.even e) eqn:Ev.
  - apply Nat.even_spec in Ev. destruct Ev as [m Em]. subst e. rewrite Nat.div2_succ_double, Nat.div2_double. reflexivity.
  - assert (Ho : Nat.odd e = true) by (rewrite <- Nat.negb_even, Ev; reflexivity).
    apply Nat.odd_spec in Ho. destruct Ho as [m Em]. subst e. rewrite Nat.add_1_r. cbn [Nat.pred].
    rewrite Nat.div2_succ_double, Nat.div2_double. reflexivity.
Qed.

Lemma rev_lt : TwinsInRange s -> forall e, e < nH s -> rev e < nH s.
Proof.
  intros [m Hm] e He. unfold rev. destruct (Nat.even e) eqn:Ev.
  - apply Nat.even_spec in Ev. destruct Ev as [k Ek]. lia.
  - lia.
Qed.

Lemma FlaggedStep_sym : TwinsInRange s -> forall u w, FlaggedStep s u w -> FlaggedStep s w u.
Proof.
  intros Ht u w [e [He [Ho [Hd Hf]]]]. exists (rev e). split; [apply rev_lt; assumption |]. split; [exact Hd |]. split.
  - unfold dest. rewrite rev_involutive. exact Ho.
  - unfold flag in *. rewrite div2_rev. exact Hf.
Qed.

Lemma StrictlyBetween_sym : forall a b c, StrictlyBetween a b c -> StrictlyBetween b a c.
Proof.
  intros [ax ay] [bx by_] [cx cy]. unfold StrictlyBetween, orient, dot, dist2. cbn [fst snd]. intros [Ho [H1 H2]].
  split; [| split]; nia.
Qed.

Lemma last_default : forall (l : list nat) d d', l <> [] -> last l d = last l d'.
Proof.
  induction l as [| x l IH]; intros d d' Hne; [contradiction |].
  destruct l as [| y l]; [reflexivity |]. change (last (y :: l) d = last (y :: l) d'). apply IH. discriminate.
Qed.

Lemma Walk_Path : forall a b t u l, Walk a b t u l -> Path s (Admissible a b t) u l.
Proof. intros a b t u l H. induction H; constructor; assumption. Qed.

Lemma Path_Walk : forall a b t u l, Path s (Admissible a b t) u l -> last (u :: l) u = t -> Walk a b t u l.
Proof.
  intros a b t u l H. induction H as [u | u w l Hstep Hp Hrest IH]; intros Hl.
  - cbn [last] in Hl. subst t. constructor.
  - constructor; [exact Hstep | exact Hp |]. apply IH.
    change (last (u :: w :: l) u) with (last (w :: l) u) in Hl. rewrite <- Hl. apply last_default. discriminate.
Qed.

Lemma Path_In : forall (P : nat -> Prop) u l, Path s P u l -> forall x, In x l -> P x.
Proof.
  intros P u l H. induction H as [u | u w l _ Hp _ IH]; intros x Hx; [destruct Hx |].
  destruct Hx as [E | Hx]; [subst x; exact Hp | apply IH; exact Hx].
Qed.

Lemma Path_rev : TwinsInRange s -> forall (P P' : nat -> Prop) l u acc,
  Path s P u l -> Path s P' u acc -> (forall x, In x (removelast (u :: l)) -> P' x) ->
  Path s P' (last (u :: l) u) (List.rev (removelast (u :: l)) ++ acc).
Proof.
  intros Ht P P' l. induction l as [| w l IH]; intros u acc Hp Hacc HP'.
  - cbn [removelast last List.rev app]. exact Hacc.
  - inversion Hp as [| u' w' l' Hstep Hw Hrest]; subst.
    change (removelast (u :: w :: l)) with (u :: removelast (w :: l)) in *.
    change (last (u :: w :: l) u) with (last (w :: l) u).
    rewrite (last_default (w :: l) u w) by discriminate.
    cbn [List.rev]. rewrite <- app_assoc. cbn [app]. apply IH.
    + exact Hrest.
    + constructor; [apply FlaggedStep_sym; assumption | apply HP'; left; reflexivity | exact Hacc].
    + intros x Hx. apply HP'. right. exact Hx.
Qed.

Lemma NoDup_removelast_last : forall (l : list nat) d x, NoDup l -> In x (removelast l) -> x <> last l d.
Proof.
  intros l d x Hnd Hx E. destruct l as [| y l]; [destruct Hx |].
  assert (Hne : y :: l <> []) by discriminate.
  rewrite (app_removelast_last d Hne) in Hnd. apply NoDup_remove_2 in Hnd. rewrite app_nil_r in Hnd.
  apply Hnd. rewrite <- E. exact Hx.
Qed.

Theorem Covered_sym : TwinsInRange s -> forall u v, Covered s pts old_nv allowed u v -> Covered s pts old_nv allowed v u.
Proof.
  intros Ht u v Hc. destruct (Covered_simple u v Hc) as [l [Hw [Hnd Hnu]]].
  pose proof (Walk_last _ _ _ _ _ Hw) as Hlast. apply Walk_Path in Hw.
  set (a := pos pts u) in *. set (b := pos pts v) in *.
  assert (HP' : forall x, In x (removelast (u :: l)) -> Admissible b a u x).
  { intros x Hx. destruct l as [| w l']; [destruct Hx |].
    change (removelast (u :: w :: l')) with (u :: removelast (w :: l')) in Hx. destruct Hx as [E | Hx]; [left; symmetry; exact E |].
    assert (Hxv : x <> v).
    { specialize (Hlast u). change (last (u :: w :: l') u) with (last (w :: l') u) in Hlast. rewrite <- Hlast.
      apply NoDup_removelast_last; assumption. }
    assert (Hin : In x (w :: l')).
    { rewrite (app_removelast_last u (l := w :: l')) by discriminate. apply in_or_app. left. exact Hx. }
    pose proof (Path_In _ _ _ Hw x Hin) as Had.
    destruct Had as [E | [H | [H | H]]]; [contradiction | right; left; exact H | right; right; left; exact H |].
    right. right. right. apply StrictlyBetween_sym. exact H. }
  pose proof (Path_rev Ht _ (Admissible b a u) l u [] Hw (P_nil s _ u) HP') as Hrev.
  rewrite (Hlast u), app_nil_r in Hrev. exists (List.rev (removelast (u :: l))). apply Path_Walk; [exact Hrev |].
  destruct l as [| w l'].
  - cbn [removelast List.rev last]. specialize (Hlast u). cbn [last] in Hlast. symmetry. exact Hlast.
  - change (removelast (u :: w :: l')) with (u :: removelast (w :: l')). cbn [List.rev].
    change (last (v :: List.rev (removelast (w :: l')) ++ [u]) v) with (last ((v :: List.rev (removelast (w :: l'))) ++ [u]) v).
    apply last_last.
Qed.
End CoverProofs.

Lemma Wf_rev_lt : forall s, Wf s -> forall e, e < nH s -> rev e < nH s.
Proof.
  intros s [[_ [Hne _]] _] e He. unfold rev. destruct (Nat.even e) eqn:Ev.
  - apply Nat.even_spec in Ev. destruct Ev as [k Ek]. lia.
  - lia.
Qed.

Lemma Wf_DestInRange : forall s, Wf s -> DestInRange s.
Proof.
  intros s Hwf e He. unfold dest. pose proof (Wf_rev_lt s Hwf e He) as Hrev.
  destruct Hwf as [_ [[Hr _] _]]. apply (Hr (rev e) Hrev).
Qed.

(* more allowed vertices: more walks *)
Lemma Walk_allowed_mono : forall s pts old_nv al al', incl al al' ->
  forall a b t u l, Walk s pts old_nv al a b t u l -> Walk s pts old_nv al' a b t u l.
Proof.
  intros s pts old_nv al al' Hincl a b t u l H. induction H as [| u w l Hstep Had _ IH]; [constructor |].
  constructor; [exact Hstep | | exact IH].
  destruct Had as [H | [H | [H | H]]]; [left; exact H | right; left; exact H | | right; right; right; exact H].
  right. right. left. apply Hincl. exact H.
Qed.

Theorem constraints_covered_via_spec : forall allowed p n npts, DestInRange n ->
  (constraints_covered_via allowed p n npts = true <-> ConstraintsCoveredVia allowed p n npts).
Proof.
  intros allowed p n npts Hr. unfold constraints_covered_via, ConstraintsCoveredVia. rewrite forallb_forall. split.
  - intros H k Hk Hf. assert (Hin : In k (seq 0 (o_ne p))) by (apply in_seq; lia).
    specialize (H k Hin). rewrite Hf in H. cbn [negb orb] in H. apply covered_spec; assumption.
  - intros H k Hin. apply in_seq in Hin. destruct (flag p (2 * k)) eqn:Hf; [| reflexivity].
    cbn [negb orb]. apply covered_spec; [exact Hr |]. apply H; [lia | exact Hf].
Qed.

(* refine: the instance allowed = [] *)
Theorem constraints_covered_spec : forall p n npts, DestInRange n ->
  (constraints_covered p n npts = true <-> ConstraintsCovered p n npts).
Proof. intros p n npts Hr. apply constraints_covered_via_spec. exact Hr. Qed.

Lemma ConstraintsCoveredVia_mono : forall al al' p n npts, incl al al' ->
  ConstraintsCoveredVia al p n npts -> ConstraintsCoveredVia al' p n npts.
Proof.
  intros al al' p n npts Hincl H k Hk Hf. destruct (H k Hk Hf) as [l Hw]. exists l.
  eapply Walk_allowed_mono; eassumption.
Qed.

Lemma Wf_TwinsInRange : forall s, Wf s -> TwinsInRange s.
Proof. intros s [[_ [Hne _]] _]. exists (o_ne s). lia. Qed.

(* the checker looks at the half-edges 2k only; with twin pairs this covers every constraint half-edge in its own direction *)
Theorem ConstraintsCoveredVia_halfedges : forall al p n npts, TwinsInRange p -> o_ne p * 2 = nH p -> TwinsInRange n ->
  (ConstraintsCoveredVia al p n npts <-> ConstraintsCoveredHalfEdges al p n npts).
Proof.
  intros al p n npts Hp Hne Hn. unfold ConstraintsCoveredVia, ConstraintsCoveredHalfEdges. split.
  - intros H e He Hf. destruct (Nat.even e) eqn:Ev.
    + apply Nat.even_spec in Ev. destruct Ev as [k Ek]. subst e. apply H; [lia | exact Hf].
    + assert (Ho : Nat.odd e = true) by (rewrite <- Nat.negb_even, Ev; reflexivity).
      apply Nat.odd_spec in Ho. destruct Ho as [k Ek].
      assert (Hr : rev e = 2 * k) by (unfold rev; rewrite Ev; lia).
      assert (He' : rev (2 * k) = e) by (rewrite <- Hr; apply rev_involutive).
      apply Covered_sym; [exact Hn |].
      replace (dest p e) with (org p (2 * k)) by (unfold dest; rewrite Hr; reflexivity).
      replace (org p e) with (dest p (2 * k)) by (unfold dest; rewrite He'; reflexivity).
      apply H; [lia |]. unfold flag in *. rewrite <- Hr, div2_rev. exact Hf.
  - intros H k Hk Hf. apply H; [lia | exact Hf].
Qed.

Theorem constraints_kept_spec : forall p n, constraints_kept p n = true <-> ConstraintsKept p n.
Proof.
  intros p n. unfold constraints_kept, ConstraintsKept. rewrite forallb_forall. split.
  - intros H k Hk Hf. assert (Hin : In k (seq 0 (o_ne p))) by (apply in_seq; lia).
    specialize (H k Hin). rewrite Hf in H. cbn [negb orb] in H. apply existsb_below in H.
    destruct H as [e [He Hb]]. rewrite !andb_true_iff, !Nat.eqb_eq in Hb. exists e. tauto.
  - intros H k Hin. apply in_seq in Hin. destruct (flag p (2 * k)) eqn:Hf; [| reflexivity].
    cbn [negb orb]. apply existsb_below. destruct (H k) as [e [He [Ho [Hd Hfl]]]]; [lia | exact Hf |].
    exists e. split; [exact He |]. rewrite !andb_true_iff, !Nat.eqb_eq. tauto.
Qed.

(* keeping an edge is a special case of covering it *)
Lemma ConstraintsKept_Covered : forall al p n npts, ConstraintsKept p n -> ConstraintsCoveredVia al p n npts.
Proof.
  intros al p n npts H k Hk Hf. exists [dest p (2 * k)]. constructor; [apply H; assumption | left; reflexivity | constructor].
Qed.

(* ------------------------------------------------------------------ the T_split verdict *)
(* check_split is the parse of its inputs followed by split_verdict (its local fix is chain_conn, its local lists are
   chain_verts / split_anchors / split_on_piece) *)
Lemma check_split_unfold : forall p n a b res,
  check_split p n a b res =
  match obs_points n, counted res with
  | Some npts, Some chain => [(T_split, split_verdict p n npts (Z.to_nat a) (Z.to_nat b) chain)]
  | _, _ => [(T_parse, false)]
  end.
Proof. reflexivity. Qed.

Section SplitAllowedProofs.
Variables p n : obs.
Variable npts : list pnt.
Variables va vb : nat.
Variable chain : list nat.

Lemma chain_verts_spec : forall w, In w (chain_verts n va vb chain) <-> ChainVertex n va vb chain w.
Proof.
  intros w. unfold chain_verts, ChainVertex. cbn [In]. rewrite in_flat_map. split.
  - intros [H | [H | [e [He Hw]]]]; [left; symmetry; exact H | right; left; symmetry; exact H |].
    right. right. exists e. split; [exact He |]. destruct Hw as [Hw | [Hw | []]]; [left | right]; symmetry; exact Hw.
  - intros [H | [H | [e [He Hw]]]]; [left; symmetry; exact H | right; left; symmetry; exact H |].
    right. right. exists e. split; [exact He |]. destruct Hw as [Hw | Hw]; [left | right; left]; symmetry; exact Hw.
Qed.

Lemma split_anchors_spec : forall x, In x (split_anchors p n va vb chain) <-> Anchor p n va vb chain x.
Proof.
  intros x. unfold split_anchors, Anchor. rewrite !in_app_iff, chain_verts_spec, in_seq, in_flat_map.
  assert (H : (exists k, In k (seq 0 (o_ne p)) /\ In x (if flag p (2 * k) then [org p (2 * k); dest p (2 * k)] else []))
              <-> exists k, k < o_ne p /\ flag p (2 * k) = true /\ (x = org p (2 * k) \/ x = dest p (2 * k))).
  { split.
    - intros [k [Hk Hx]]. apply in_seq in Hk. exists k. split; [lia |].
      destruct (flag p (2 * k)); [| destruct Hx]. split; [reflexivity |].
      destruct Hx as [Hx | [Hx | []]]; [left | right]; symmetry; exact Hx.
    - intros [k [Hk [Hf Hx]]]. exists k. split; [apply in_seq; lia |]. rewrite Hf.
      destruct Hx as [Hx | Hx]; [left | right; left]; symmetry; exact Hx. }
  rewrite H. assert (Hs : nV p <= x < nV p + (nV n - nV p) <-> nV p <= x < nV n) by lia.
  rewrite Hs. tauto.
Qed.

Theorem split_allowed_spec : forall w, In w (split_allowed p n npts va vb chain) <-> SplitAllowed p n npts va vb chain w.
Proof.
  intros w. unfold split_allowed, split_on_piece, SplitAllowed. rewrite in_app_iff, chain_verts_spec, filter_In, in_seq.
  assert (H : existsb (fun x => existsb (fun y => strictly_between (pos npts x) (pos npts y) (pos npts w))
                                        (split_anchors p n va vb chain)) (split_anchors p n va vb chain) = true
              <-> exists x y, Anchor p n va vb chain x /\ Anchor p n va vb chain y /\
                              StrictlyBetween (pos npts x) (pos npts y) (pos npts w)).
  { rewrite existsb_exists. split.
    - intros [x [Hx Hy]]. apply existsb_exists in Hy. destruct Hy as [y [Hy Hb]].
      exists x, y. rewrite <- !split_anchors_spec, <- StrictlyBetween_spec. tauto.
    - intros [x [y [Hx [Hy Hb]]]]. exists x. split; [apply split_anchors_spec; exact Hx |].
      apply existsb_exists. exists y. split; [apply split_anchors_spec; exact Hy | apply StrictlyBetween_spec; exact Hb]. }
  rewrite H. split.
  - intros [Hc | [[_ Hw] Hx]]; [left; exact Hc | right; split; [lia | exact Hx]].
  - intros [Hc | [Hw Hx]]; [left; exact Hc | right; split; [lia | exact Hx]].
Qed.

Theorem split_verdict_spec : DestInRange n ->
  (split_verdict p n npts va vb chain = true <-> SplitOk p n npts va vb chain).
Proof.
  intros Hr. unfold split_verdict, SplitOk.
  rewrite <- prefix_unchanged_spec, <- (constraints_covered_via_spec _ p n npts Hr), <- chain_conn_spec.
  assert (Hchain : (if va =? vb then true else match chain with [] => false | _ => chain_conn n vb va chain end) = true
                   <-> va = vb \/ chain_conn n vb va chain = true).
  { destruct (va =? vb) eqn:E.
    - apply Nat.eqb_eq in E. tauto.
    - apply Nat.eqb_neq in E. destruct chain as [| e t].
      + cbn [chain_conn]. rewrite Nat.eqb_eq. split; [discriminate | intros [H | H]; contradiction].
      + tauto. }
  rewrite <- Hchain, !andb_true_iff. tauto.
Qed.
End SplitAllowedProofs.

(* ------------------------------------------------------------------ the hypotheses are satisfiable: a real run
   (harness output of: CDT f64, insert the square (0,0) (4,0) (4,4) (0,4), add_constraint 0-2, add_constraint_and_split 1-3,
   which returns the chain [10; 15] through the new vertex 4 at (2,2)) *)
Definition ex_split_p : obs := Eval vm_compute in
  match parse_obs [4; 5; 3; 1; 4; 2; 0; 0; 0; 10; 0; 4616189618054758400; 0; 11; 1; 4616189618054758400; 4616189618054758400; 12; 4; 0; 4616189618054758400; 13; 8; 2; 4; 1; 0; 9; 3; 0; 1; 4; 0; 1; 1; 1; 7; 0; 2; 0; 2; 1; 2; 6; 8; 2; 0; 8; 5; 2; 2; 3; 9; 0; 3; 5; 6; 2; 3; 7; 1; 0; 0; 9; 0; 5; 0; 0; 1; 0; 0; 4; 9; 7; 3; 1]%Z with Some s => s | None => empty_obs end.
Definition ex_split_n : obs := Eval vm_compute in
  match parse_obs [5; 8; 5; 4; 4; 4; 0; 0; 0; 10; 0; 4616189618054758400; 0; 11; 1; 4616189618054758400; 4616189618054758400; 12; 12; 0; 4616189618054758400; 13; 8; 4611686018427387904; 4611686018427387904; 888000; 4; 10; 4; 1; 0; 9; 3; 0; 1; 12; 11; 3; 1; 1; 7; 0; 2; 0; 10; 1; 4; 15; 8; 2; 0; 14; 13; 4; 2; 3; 9; 0; 3; 5; 15; 2; 3; 7; 1; 0; 0; 4; 0; 1; 1; 2; 12; 3; 4; 11; 2; 3; 2; 6; 14; 4; 4; 13; 6; 4; 3; 8; 5; 2; 4; 9; 10; 5; 12; 14; 0; 0; 1; 0; 0; 1; 1; 1; 4; 9; 7; 3; 1]%Z with Some s => s | None => empty_obs end.
Definition ex_split_pts : list pnt := [(0, 0); (4, 0); (4, 4); (0, 4); (2, 2)]%Z.

Example ex_split_nontrivial : nV ex_split_p = 4 /\ nV ex_split_n = 5 /\ nH ex_split_n = 16 /\ count_flags ex_split_n = 4.
Proof. vm_compute. repeat split. Qed.
Example ex_split_wf : Wf ex_split_n.
Proof. apply wf_b_spec. vm_compute. reflexivity. Qed.
Example ex_split_range : DestInRange ex_split_n.
Proof. apply Wf_DestInRange. exact ex_split_wf. Qed.
Example ex_split_verdict : split_verdict ex_split_p ex_split_n ex_split_pts 1 3 [10; 15] = true.
Proof. vm_compute. reflexivity. Qed.
Example ex_split_ok : SplitOk ex_split_p ex_split_n ex_split_pts 1 3 [10; 15].
Proof. apply (split_verdict_spec _ _ _ _ _ _ ex_split_range). exact ex_split_verdict. Qed.
(* the old constraint 0-2 is covered by the walk 0 -> 4 -> 2 through the new vertex *)
Example ex_split_walk : Walk ex_split_n ex_split_pts 4 [] (0, 0)%Z (4, 4)%Z 2 0 [4; 2].
Proof.
  constructor.
  - exists 5. vm_compute. repeat split; lia.
  - right. left. apply Nat.le_refl.
  - constructor.
    + exists 13. vm_compute. repeat split; lia.
    + left. reflexivity.
    + constructor.
Qed.
(* the decoded positions of the example are the ones used above, up to the common scale *)

Example ex_split_twins : TwinsInRange ex_split_p /\ o_ne ex_split_p * 2 = nH ex_split_p /\ TwinsInRange ex_split_n.
Proof. split; [exists 5; reflexivity | split; [reflexivity | exists 8; reflexivity]]. Qed.
(* hence the old constraint is covered in both directions *)
Example ex_split_both_directions : ConstraintsCoveredHalfEdges (split_allowed ex_split_p ex_split_n ex_split_pts 1 3 [10; 15])
                                     ex_split_p ex_split_n ex_split_pts.
Proof.
  destruct ex_split_twins as [H1 [H2 H3]]. apply (ConstraintsCoveredVia_halfedges _ _ _ _ H1 H2 H3). apply ex_split_ok.
Qed.
Example ex_split_allowed : split_allowed ex_split_p ex_split_n ex_split_pts 1 3 [10; 15] = [1; 3; 1; 4; 4; 3].
Proof. vm_compute. reflexivity. Qed.
(* the positions used above are exactly what the checker decodes from the bit patterns of the example *)
Example ex_split_points : obs_points ex_split_n = Some ex_split_pts.
Proof. vm_compute. reflexivity. Qed.

Print Assumptions covered_spec.
Print Assumptions constraints_covered_via_spec.
Print Assumptions split_allowed_spec.
Print Assumptions Covered_sym.
Print Assumptions ConstraintsCoveredVia_halfedges.
Print Assumptions split_verdict_spec.
