(* Cdt/SplitProp.v -- declarative (Prop) forms of what Check/Run.v decides about add_constraint_and_split (C13) and, shared with
   refine (C20), about the coverage of old constraint edges: `covered` / `constraints_covered` / `constraints_kept` (Refine/Outer.v),
   `prefix_unchanged` and the chain connectivity clause of `check_split` (Check/Run.v).
   Definitions only; the reflection theorems are in Cdt/SplitProofs.v. *)
From Coq Require Import ZArith List Bool Arith.
From SpadeV Require Import Geom.Pred Obs.State Obs.Spec Obs.Query Obs.QueryProp Refine.Outer Check.Run.
Import ListNotations.

(* ------------------------------------------------------------------ coverage of a constraint segment *)
Section CoverP.
Variable s : obs.                 (* the state after the operation *)
Variable pts : list pnt.          (* its decoded positions *)
Variable old_nv : nat.            (* vertices with index >= old_nv were created by the operation *)
Variable allowed : list nat.      (* old vertices at which the operation may subdivide as well *)

(* a constraint (flagged) half-edge of s leads from vertex u to vertex w *)
Definition FlaggedStep (u w : nat) : Prop :=
  exists e, e < nH s /\ org s e = u /\ dest s e = w /\ flag s e = true.

(* vertices a covering chain of the segment ab with end vertex `target` may pass through: the end vertex itself, a vertex created
   by the operation (a split / Steiner vertex: its rounded position need not lie exactly on ab), an allowed old vertex, or an old
   vertex lying in the relative interior of ab *)
Definition Admissible (a b : pnt) (target w : nat) : Prop :=
  w = target \/ old_nv <= w \/ In w allowed \/ StrictlyBetween a b (pos pts w).

(* Walk a b t u l : l lists the successive vertices of a walk along constraint edges which starts at u (u itself is not listed)
   and ends at t; every listed vertex is admissible.  No simplicity is demanded. *)
Inductive Walk (a b : pnt) (t : nat) : nat -> list nat -> Prop :=
| W_here : Walk a b t t []
| W_step : forall u w l, FlaggedStep u w -> Admissible a b t w -> Walk a b t w l -> Walk a b t u (w :: l).

(* auxiliary (used to reverse walks): a path along constraint edges all of whose listed vertices satisfy P, without end condition *)
Inductive Path (P : nat -> Prop) : nat -> list nat -> Prop :=
| P_nil : forall u, Path P u []
| P_cons : forall u w l, FlaggedStep u w -> P w -> Path P w l -> Path P u (w :: l).

(* the segment from vertex u to vertex v is covered by a chain of constraint edges *)
Definition Covered (u v : nat) : Prop :=
  exists l, Walk (pos pts u) (pos pts v) v u l.

(* range hypothesis on s under which the fuel of the checker's search is sufficient; it is a consequence of
   well-formedness (SplitProofs.Wf_DestInRange) *)
Definition DestInRange : Prop := forall e, e < nH s -> dest s e < nV s.
(* half-edges come in twin pairs (2k, 2k+1); a consequence of well-formedness *)
Definition TwinsInRange : Prop := exists m, nH s = 2 * m.
End CoverP.

(* every constraint edge of the old state p is covered in the new state n (vertex indices are stable) *)
Definition ConstraintsCoveredVia (allowed : list nat) (p n : obs) (npts : list pnt) : Prop :=
  forall k, k < o_ne p -> flag p (2 * k) = true -> Covered n npts (nV p) allowed (org p (2 * k)) (dest p (2 * k)).
(* the same over all constraint half-edges of p, i.e. in both directions (equivalent when the half-edges of both states come in
   twin pairs: SplitProofs.ConstraintsCoveredVia_halfedges) *)
Definition ConstraintsCoveredHalfEdges (allowed : list nat) (p n : obs) (npts : list pnt) : Prop :=
  forall e, e < nH p -> flag p e = true -> Covered n npts (nV p) allowed (org p e) (dest p e).
(* refine subdivides at new vertices only *)
Definition ConstraintsCovered (p n : obs) (npts : list pnt) : Prop := ConstraintsCoveredVia [] p n npts.

(* keep_constraint_edges: every constraint edge of the old state is a constraint edge of the new state with the same end points *)
Definition ConstraintsKept (p n : obs) : Prop :=
  forall k, k < o_ne p -> flag p (2 * k) = true -> FlaggedStep n (org p (2 * k)) (dest p (2 * k)).

(* ------------------------------------------------------------------ returned chain *)
(* the chain-connectivity clause of check_split, restated as a top-level function (the checker has it as a local fix;
   SplitProofs.check_split_unfold proves that check_split is exactly the expression over this function) *)
Definition chain_conn (n : obs) (vb : nat) : nat -> list nat -> bool :=
  fix go (cur : nat) (l : list nat) : bool :=
    match l with
    | [] => cur =? vb
    | e :: t => (e <? nH n) && (org n e =? cur) && flag n e && go (dest n e) t
    end.

(* l is a path of half-edges of s from vertex va to vertex vb: every edge exists and is a constraint edge, consecutive edges are
   head-to-tail, the first starts at va, the last ends at vb (the empty path: va = vb) *)
Definition ChainFromTo (s : obs) (va vb : nat) (l : list nat) : Prop :=
  (forall e, In e l -> e < nH s /\ flag s e = true) /\
  (forall i, S i < length l -> org s (nth (S i) l 0) = dest s (nth i l 0)) /\
  match l with
  | [] => va = vb
  | e0 :: _ => org s e0 = va /\ dest s (last l 0) = vb
  end.

(* ------------------------------------------------------------------ existing vertices are untouched *)
(* every vertex of p is a vertex of n with the same index, the same position bits and the same payload *)
Definition PrefixUnchanged (p n : obs) : Prop :=
  nV p <= nV n /\
  forall i, i < nV p ->
    v_x (nth i (o_verts p) dflt_v) = v_x (nth i (o_verts n) dflt_v) /\
    v_y (nth i (o_verts p) dflt_v) = v_y (nth i (o_verts n) dflt_v) /\
    v_data (nth i (o_verts p) dflt_v) = v_data (nth i (o_verts n) dflt_v).

(* ------------------------------------------------------------------ the whole verdict of add_constraint_and_split *)
(* old vertices at which add_constraint_and_split may subdivide old constraints: the vertices of the returned chain, and old
   vertices lying strictly between two anchors (chain vertices, new vertices, end points of old constraint edges) -- such a vertex
   subdivides the piece between the anchors because a constraint edge never passes through a vertex.
   The lists are those of check_split (SplitProofs.check_split_unfold). *)
Section SplitAllowed.
Variables p n : obs.
Variable npts : list pnt.
Variables va vb : nat.
Variable chain : list nat.

Definition chain_verts : list nat := va :: vb :: flat_map (fun e => [org n e; dest n e]) chain.
Definition split_anchors : list nat :=
  chain_verts ++ seq (nV p) (nV n - nV p)
  ++ flat_map (fun k => if flag p (2 * k) then [org p (2 * k); dest p (2 * k)] else []) (seq 0 (o_ne p)).
Definition split_on_piece : list nat :=
  filter (fun w => existsb (fun x => existsb (fun y => strictly_between (pos npts x) (pos npts y) (pos npts w)) split_anchors)
                           split_anchors)
         (seq 0 (nV p)).
Definition split_allowed : list nat := chain_verts ++ split_on_piece.

(* declaratively *)
Definition ChainVertex (w : nat) : Prop :=
  w = va \/ w = vb \/ exists e, In e chain /\ (w = org n e \/ w = dest n e).
Definition Anchor (x : nat) : Prop :=
  ChainVertex x \/ nV p <= x < nV n \/
  exists k, k < o_ne p /\ flag p (2 * k) = true /\ (x = org p (2 * k) \/ x = dest p (2 * k)).
Definition SplitAllowed (w : nat) : Prop :=
  ChainVertex w \/
  (w < nV p /\ exists x y, Anchor x /\ Anchor y /\ StrictlyBetween (pos npts x) (pos npts y) (pos npts w)).

(* the boolean that check_split reports under tag T_split, as a function of the decoded positions of n and the parsed chain
   (SplitProofs.check_split_unfold: check_split is exactly this after parsing) *)
Definition split_verdict : bool :=
  Run.prefix_unchanged p n && constraints_covered_via split_allowed p n npts
  && (if va =? vb then true else match chain with [] => false | _ => chain_conn n vb va chain end).

Definition SplitOk : Prop :=
  PrefixUnchanged p n /\ ConstraintsCoveredVia split_allowed p n npts /\ (va = vb \/ ChainFromTo n va vb chain).
End SplitAllowed.
