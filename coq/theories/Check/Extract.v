(* Check/Extract.v -- extraction of the checker to OCaml (ExtrOcamlBasic + ExtrOcamlZBigInt only). *)
From Coq Require Import Extraction ExtrOcamlBasic ExtrOcamlZBigInt.
From SpadeV Require Import Check.Run.
Extraction Language OCaml.
Separate Extraction Run.run_case Run.mkstep Run.mkcfg.
