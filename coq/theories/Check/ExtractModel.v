(* Check/ExtractModel.v -- extraction of the model-correspondence checker (ExtrOcamlBasic + ExtrOcamlZBigInt only). *)
From Coq Require Import Extraction ExtrOcamlBasic ExtrOcamlZBigInt.
From SpadeV Require Import Check.Run Check.RunModel.
Extraction Language OCaml.
Separate Extraction RunModel.run_model_case Run.mkstep Run.mkcfg.
