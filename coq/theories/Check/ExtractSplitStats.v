(* Check/ExtractSplitStats.v -- extraction of the M8 reporting aid (see Check/SplitStats.v). *)
From Coq Require Import Extraction ExtrOcamlBasic ExtrOcamlZBigInt.
From SpadeV Require Import Check.Run Check.RunModel Check.SplitStats.
Extraction Language OCaml.
Separate Extraction SplitStats.split_stats_case Run.mkstep Run.mkcfg.
