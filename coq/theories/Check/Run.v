(* Check/Run.v -- the decision procedure run on what the implementation did.
   A case is a configuration and a list of steps (operation code, arguments, observed result,
   observed state after the step).  `run_case` folds over the steps and emits verdicts
   (step index, tag, ok).  It is extracted to OCaml (volume) and also evaluated by vm_compute
   (cross-validation of the extraction).  No proofs in this file. *)
From Coq Require Import ZArith List Bool Arith.
From SpadeV Require Import Num.F64 Num.Decode Num.Decode2 Geom.Pred Gen.Prelude Num.ValidSpec Obs.State Obs.Spec Obs.Query Vmap.Model Cdt.SegSpec Refine.Outer Obs.LineSpec Query.Voronoi Check.Codes.
Import ListNotations.

(* ------------------------------------------------------------------ parsing the state line *)
Fixpoint take_n {A} (n : nat) (l : list A) : option (list A * list A) :=
  match n with
  | O => Some ([], l)
  | S n' => match l with [] => None | h :: t =>
      match take_n n' t with Some (a, b) => Some (h :: a, b) | None => None end end
  end.

Definition zopt (z : Z) : option nat := if (z <? 0)%Z then None else Some (Z.to_nat z).

Fixpoint group_v (l : list Z) : list vrec :=
  match l with x :: y :: d :: o :: t => mkv x y d (zopt o) :: group_v t | _ => [] end.
Fixpoint group_h (l : list Z) : list hrec :=
  match l with n :: p :: f :: o :: t => mkh (Z.to_nat n) (Z.to_nat p) (Z.to_nat f) (Z.to_nat o) :: group_h t | _ => [] end.

Definition parse_obs (l : list Z) : option obs :=
  match l with
  | nv :: ne :: nf :: nc :: hs :: ni :: ln :: rest =>
    let nv' := Z.to_nat nv in let ne' := Z.to_nat ne in let nf' := Z.to_nat nf in
    match take_n (4 * nv') rest with None => None | Some (vs, r1) =>
    match take_n (8 * ne') r1 with None => None | Some (es, r2) =>
    match take_n nf' r2 with None => None | Some (fs, r3) =>
    match take_n ne' r3 with None => None | Some (gs, r4) =>
    match r4 with
    | k :: hl =>
      if (length hl =? Z.to_nat k) && forallb (fun z => (0 <=? z)%Z) (nv :: ne :: nf :: nc :: hs :: ni :: es ++ hl) then
        Some (mkobs nv' ne' nf' (Z.to_nat nc) (Z.to_nat hs) (Z.to_nat ni) (ln =? 1)%Z
                (group_v vs) (group_h es) (map zopt fs) (map (fun z => (z =? 1)%Z) gs) (map Z.to_nat hl))
      else None
    | [] => None
    end end end end end
  | _ => None
  end.

(* ------------------------------------------------------------------ helpers *)
Definition coord_bits (s : obs) : list Z := flat_map (fun v => [v_x v; v_y v]) (o_verts s).
Definition obs_points (s : obs) : option (list pnt) := decode_points (coord_bits s).

Definition opt_nat_eqb (a b : option nat) : bool :=
  match a, b with Some x, Some y => x =? y | None, None => true | _, _ => false end.
Definition vrec_eqb (a b : vrec) : bool :=
  (v_x a =? v_x b)%Z && (v_y a =? v_y b)%Z && (v_data a =? v_data b)%Z && opt_nat_eqb (v_out a) (v_out b).
Definition hrec_eqb (a b : hrec) : bool :=
  (h_next a =? h_next b) && (h_prev a =? h_prev b) && (h_face a =? h_face b) && (h_org a =? h_org b).
Fixpoint list_eqb {A} (eq : A -> A -> bool) (a b : list A) : bool :=
  match a, b with
  | [], [] => true
  | x :: a', y :: b' => eq x y && list_eqb eq a' b'
  | _, _ => false
  end.
(* observable identity of two states: every table and every counter *)
Definition obs_eqb (a b : obs) : bool :=
  (o_nv a =? o_nv b) && (o_ne a =? o_ne b) && (o_nf a =? o_nf b) && (o_nc a =? o_nc b) &&
  (o_hs a =? o_hs b) && (o_ni a =? o_ni b) && Bool.eqb (o_line a) (o_line b) &&
  list_eqb vrec_eqb (o_verts a) (o_verts b) && list_eqb hrec_eqb (o_hedges a) (o_hedges b) &&
  list_eqb opt_nat_eqb (o_faces a) (o_faces b) && list_eqb Bool.eqb (o_flags a) (o_flags b) &&
  list_eqb Nat.eqb (o_hull a) (o_hull b).

Definition err_code (e : InsertionError) : Z :=
  match e with TooSmall => K_TooSmall | TooLarge => K_TooLarge | NAN => K_NAN end.


(* key of a position given by bit patterns (None when not finite) *)
Definition key_of (x y : Z) : option key :=
  match decode x, decode y with Some a, Some b => Some (a, b) | _, _ => None end.

Fixpoint vstate_of (l : list vrec) : option vstate :=
  match l with
  | [] => Some []
  | v :: t => match key_of (v_x v) (v_y v), vstate_of t with
              | Some k, Some r => Some ((k, v_data v) :: r) | _, _ => None end
  end.

Definition kd_eqb (a b : key * Z) : bool := key_eqb (fst a) (fst b) && (snd a =? snd b)%Z.
Definition vstate_eqb (a b : vstate) : bool := list_eqb kd_eqb a b.

Record cfg := mkcfg { c_cdt : bool; c_f32 : bool; c_hint : Z }.

Definition verdict := (nat * tag * bool)%type.

(* ------------------------------------------------------------------ state checks, after every mutating step *)
Definition state_checks (c : cfg) (s : obs) : list (tag * bool) :=
  match obs_points s with
  | None => [(T_decode, false)]
  | Some pts =>
      [(T_wf, wf_b s); (T_geo, geo_b s pts);
       (T_hull_iter, hull_iter_ok s);
       (T_ncons, ncons_ok s)]
      ++ (if c_cdt c
          then [(T_cdtlocal, cdtlocal_b s pts); (T_noncross, constraints_noncrossing s pts);
                (T_dt_when_free, negb (count_flags s =? 0) || delaunay_b s pts)]
          else [(T_delaunay, delaunay_b s pts)])
  end.

(* ------------------------------------------------------------------ per-operation checks *)
Definition expected_validation (x y : Z) : Z * Z :=
  match validate_vertex_c (f_of_bits x) (f_of_bits y) with
  | Ok _ => (K_ok, 0%Z)
  | Err e => (K_err, err_code e)
  end.

(* insert / insert_with_hint: C08 (validation + atomic failure) and C05 (map semantics) *)
Definition check_insert (p n : obs) (x y d : Z) (res : list Z) : list (tag * bool) :=
  let '(k, e) := expected_validation x y in
  match res with
  | [r0; r1] =>
    if (r0 =? K_err)%Z then
      [(T_validate, (k =? K_err)%Z && (e =? r1)%Z); (T_atomic_fail, obs_eqb p n)]
    else if (r0 =? K_ok)%Z then
      (T_validate, (k =? K_ok)%Z) ::
      match vstate_of (o_verts p), vstate_of (o_verts n), key_of x y with
      | Some vp, Some vn, Some ky =>
          let '(vexp, idx) := vm_insert vp ky d in
          [(T_vmap, vstate_eqb vexp vn && (Z.to_nat r1 =? idx) && (0 <=? r1)%Z)]
      | _, _, _ => [(T_vmap, false)]
      end
    else [(T_parse, false)]
  | _ => [(T_parse, false)]
  end.

Definition check_remove (p n : obs) (v : Z) (res : list Z) : list (tag * bool) :=
  match res, vstate_of (o_verts p), vstate_of (o_verts n) with
  | [rx; ry; rd], Some vp, Some vn =>
      match vm_remove vp (Z.to_nat v), key_of rx ry with
      | Some (vexp, (k, d)), Some rk =>
          [(T_vmap, vstate_eqb vexp vn && key_eqb k rk && (d =? rd)%Z)]
      | _, _ => [(T_vmap, false)]
      end
  | _, _, _ => [(T_parse, false)]
  end.

(* locate_and_remove: Some payload exactly when the position is a vertex; then as remove *)
Definition check_lrm (p n : obs) (x y : Z) (res : list Z) : list (tag * bool) :=
  match vstate_of (o_verts p), vstate_of (o_verts n), key_of x y with
  | Some vp, Some vn, Some k =>
      match find_key k vp, res with
      | None, [r0] => [(T_vmap, (r0 =? K_none)%Z && vstate_eqb vp vn)]
      | Some i, [r0; rx; ry; rd] =>
          match vm_remove vp i, key_of rx ry with
          | Some (vexp, (k', d)), Some rk =>
              [(T_vmap, (r0 =? K_some)%Z && vstate_eqb vexp vn && key_eqb k' rk && (d =? rd)%Z)]
          | _, _ => [(T_vmap, false)]
          end
      | _, _ => [(T_vmap, false)]
      end
  | _, _, _ => [(T_parse, false)]
  end.

Fixpoint triples (l : list Z) : list (Z * Z * Z) :=
  match l with x :: y :: d :: t => (x, y, d) :: triples t | _ => [] end.

(* first invalid element in input order *)
Fixpoint first_invalid (l : list (Z * Z * Z)) : Z * Z :=
  match l with
  | [] => (K_ok, 0%Z)
  | (x, y, _) :: t =>
      let '(k, e) := expected_validation x y in
      if (k =? K_err)%Z then (k, e) else first_invalid t
  end.

(* vertex set of a bulk load: one vertex per distinct position *)
Fixpoint distinct_keys (l : list key) : list key :=
  match l with
  | [] => []
  | k :: t => if existsb (key_eqb k) t then distinct_keys t else k :: distinct_keys t
  end.
Fixpoint keys_of_triples (l : list (Z * Z * Z)) : option (list key) :=
  match l with
  | [] => Some []
  | (x, y, _) :: t => match key_of x y, keys_of_triples t with Some k, Some r => Some (k :: r) | _, _ => None end
  end.
Definition same_key_set (a b : list key) : bool :=
  forallb (fun k => existsb (key_eqb k) b) a && forallb (fun k => existsb (key_eqb k) a) b.
Fixpoint nodup_keys (l : list key) : bool :=
  match l with [] => true | k :: t => negb (existsb (key_eqb k) t) && nodup_keys t end.

(* stable variants: vertex i is the i-th *first occurrence* ... order-preserving subsequence of the input *)
Fixpoint is_subseq (a b : list key) : bool :=   (* a is a subsequence of b *)
  match a, b with
  | [], _ => true
  | _, [] => false
  | x :: a', y :: b' => if key_eqb x y then is_subseq a' b' else is_subseq a b'
  end.

Definition check_bulk (p n : obs) (stable : bool) (args res : list Z) : list (tag * bool) :=
  match args with
  | cnt :: rest =>
    let ts := triples (firstn (3 * Z.to_nat cnt) rest) in
    let '(k, e) := first_invalid ts in
    match res with
    | r0 :: rt =>
      if (r0 =? K_err)%Z then
        [(T_validate, (k =? K_err)%Z && match rt with [r1] => (e =? r1)%Z | _ => false end);
         (T_atomic_fail, obs_eqb p n)]
      else
        (T_validate, (k =? K_ok)%Z) ::
        match keys_of_triples ts, vstate_of (o_verts n) with
        | Some ks, Some vn =>
            let nk := map fst vn in
            (T_bulk_equiv, same_key_set ks nk && nodup_keys nk
               && forallb (fun kd => existsb (fun t => match key_of (fst (fst t)) (snd (fst t)) with
                                                        | Some k' => key_eqb k' (fst kd) && (snd t =? snd kd)%Z
                                                        | None => false end) ts) vn)
            :: (if stable then [(T_bulk_stable, is_subseq nk ks)] else [])
        | _, _ => [(T_bulk_equiv, false)]
        end
    | [] => [(T_parse, false)]
    end
  | [] => [(T_parse, false)]
  end.

Definition check_valc (x : Z) (res : list Z) : list (tag * bool) :=
  let exp := match classify_c (f_of_bits x) with Ok _ => [K_ok] | Err e => [K_err; err_code e] end in
  [(T_validate, list_eqb Z.eqb exp res)].

Definition check_valv (x y : Z) (res : list Z) : list (tag * bool) :=
  let '(k, e) := expected_validation x y in
  [(T_validate, list_eqb Z.eqb (if (k =? K_ok)%Z then [K_ok] else [K_err; e]) res)].

(* mitigate_underflow: result validates without TooSmall; unchanged coordinates stay bit-identical
   unless they were too small, in which case they are (+)0 *)
Definition check_mit (x y : Z) (res : list Z) : list (tag * bool) :=
  match res with
  | [rx; ry] =>
    let ok1 (a r : Z) :=
      match classify_c (f_of_bits a) with
      | Err TooSmall => (r =? 0)%Z
      | _ => (r =? a)%Z
      end in
    let not_small (r : Z) := match classify_c (f_of_bits r) with Err TooSmall => false | _ => true end in
    [(T_mitigate, ok1 x rx && ok1 y ry && not_small rx && not_small ry)]
  | _ => [(T_parse, false)]
  end.

(* ------------------------------------------------------------------ queries *)
Definition with_points (p : obs) (extra : list Z) : option (list pnt * list pnt * Z) :=
  match decode_points_e (coord_bits p ++ extra) with
  | Some (all, em) => Some (firstn (nV p) all, skipn (nV p) all, em)
  | None => None
  end.

Definition parse_loc (res : list Z) : option locres :=
  match res with
  | [k; i] =>
      if (k =? K_vertex)%Z then Some (LVertex (Z.to_nat i))
      else if (k =? K_edge)%Z then Some (LEdge (Z.to_nat i))
      else if (k =? K_face)%Z then Some (LFace (Z.to_nat i))
      else if (k =? K_outside)%Z then Some (LOutside (Z.to_nat i))
      else None
  | [k] => if (k =? K_none)%Z then Some LNone else None
  | _ => None
  end.

Definition check_loc (p : obs) (x y : Z) (res : list Z) : list (tag * bool) :=
  match with_points p [x; y], parse_loc res with
  | Some (pts, [q], _), Some r => [(T_locate, locspec_b p pts q r)]
  | _, _ => [(T_parse, false)]
  end.

(* locate_vertex: Some v exactly when the position is a vertex *)
Definition check_locv (p : obs) (x y : Z) (res : list Z) : list (tag * bool) :=
  match with_points p [x; y] with
  | Some (pts, [q], _) =>
      match res with
      | [k; v] => [(T_locate, (k =? K_some)%Z && locspec_b p pts q (LVertex (Z.to_nat v)))]
      | [k] => [(T_locate, (k =? K_none)%Z && negb (existsb (fun v => pnt_eqb (pos pts v) q) (seq 0 (nV p))))]
      | _ => [(T_parse, false)]
      end
  | _ => [(T_parse, false)]
  end.

Definition check_nn (p : obs) (x y : Z) (res : list Z) : list (tag * bool) :=
  match with_points p [x; y] with
  | Some (pts, [q], _) =>
      match res with
      | [k; v] => [(T_nn, (k =? K_some)%Z && nn_b p pts q (Some (Z.to_nat v)))]
      | [k] => [(T_nn, (k =? K_none)%Z && nn_b p pts q None)]
      | _ => [(T_parse, false)]
      end
  | _ => [(T_parse, false)]
  end.

Definition counted (res : list Z) : option (list nat) :=
  match res with
  | n :: t => if length t =? Z.to_nat n then Some (map Z.to_nat t) else None
  | [] => None
  end.

Definition check_rect (p : obs) (edges : bool) (args res : list Z) : list (tag * bool) :=
  match args, counted res with
  | [x1; y1; x2; y2], Some got =>
      match with_points p [x1; y1; x2; y2] with
      | Some (pts, [lo; hi], _) =>
          [(T_shape, if edges then edges_in_rect_ok p pts lo hi got else vertices_in_rect_ok p pts lo hi got)]
      | _ => [(T_parse, false)]
      end
  | _, _ => [(T_parse, false)]
  end.

(* The circle metric is evaluated by the implementation in the scalar type (squared distances, a division for the nearest point of an edge):
   an element whose exact squared distance from the centre is within a relative 2^-20 (f32) / 2^-49 (f64) of radius_2 may be reported either
   way.  Required: everything inside the circle of radius_2 * (1 - eps); allowed: everything inside radius_2 * (1 + eps) (plus the documented
   tangency borderline for edges); no duplicates. *)
Definition check_circ (f32 : bool) (p : obs) (edges : bool) (args res : list Z) : list (tag * bool) :=
  match args, counted res with
  | [cx; cy; r2], Some got =>
      match with_points p [cx; cy], decode r2 with
      | Some (pts, [c], em), Some (rm, re) =>
          let k := if f32 then 20%Z else 49%Z in
          let r_lo := ((rm * (Z.shiftl 1 k - 1))%Z, (re - 2 * em - k)%Z) in
          let r_hi := ((rm * (Z.shiftl 1 k + 1))%Z, (re - 2 * em - k)%Z) in
          let r2' := (rm, (re - 2 * em)%Z) in
          let n := if edges then o_ne p else nV p in
          let inside (r : dy) (x : nat) : bool :=
            if edges then edge_meets_circle c r (eorg p pts (2 * x)) (edst p pts (2 * x)) else in_circle c r (pos pts x) in
          let borderline (x : nat) : bool := edges && edge_circle_borderline c r2' (eorg p pts (2 * x)) (edst p pts (2 * x)) in
          [(T_shape, (if edges then edges_in_circle_ok p pts c r2' got else vertices_in_circle_ok p pts c r2' got)
                     || (nodup_nat got
                         && forallb (fun x => (x <? n) && (inside r_hi x || borderline x)) got
                         && all_below n (fun x => negb (inside r_lo x) || borderline x || memb x got)))]
      | _, _ => [(T_parse, false)]
      end
  | _, _ => [(T_parse, false)]
  end.

(* hull query: size, forward list, reverse list *)
Definition check_hull (p : obs) (res : list Z) : list (tag * bool) :=
  match res with
  | hs :: n :: t =>
      let fwd := map Z.to_nat (firstn (Z.to_nat n) t) in
      match skipn (Z.to_nat n) t with
      | m :: t2 =>
          let bwd := map Z.to_nat t2 in
          [(T_hull_iter, (Z.to_nat hs =? o_hs p) && list_eqb Nat.eqb fwd (o_hull p)
                          && list_eqb Nat.eqb (List.rev bwd) fwd && (length t2 =? Z.to_nat m))]
      | [] => [(T_parse, false)]
      end
  | _ => [(T_parse, false)]
  end.

(* constraint admission (C12) *)
Definition check_canc (p : obs) (a b : Z) (res : list Z) : list (tag * bool) :=
  match obs_points p, res with
  | Some pts, [r] =>
      let va := Z.to_nat a in let vb := Z.to_nat b in
      [(T_admission, Z.eqb r (if crossspec_b p pts (pos pts va) (pos pts vb) then 0 else 1)%Z)]
  | _, _ => [(T_parse, false)]
  end.

Definition check_confv (p : obs) (a b : Z) (res : list Z) : list (tag * bool) :=
  match obs_points p, counted res with
  | Some pts, Some got =>
      [(T_admission, conflicts_ok p pts (pos pts (Z.to_nat a)) (pos pts (Z.to_nat b)) got)]
  | _, _ => [(T_parse, false)]
  end.

Definition check_isc (p : obs) (args res : list Z) (listed : bool) : list (tag * bool) :=
  match args with
  | [x1; y1; x2; y2] =>
      match with_points p [x1; y1; x2; y2] with
      | Some (pts, [a; b], _) =>
          if listed then
            match counted res with
            | Some got => [(T_admission, conflicts_ok p pts a b got)]
            | None => [(T_parse, false)]
            end
          else
            match res with
            | [r] =>
                let must := crossspec_b p pts a b in
                let may := existsb (touched_by_endpoint p pts a b) (seq 0 (o_ne p)) in
                [(T_admission, if (r =? 1)%Z then must || may else negb must)]
            | _ => [(T_parse, false)]
            end
      | _ => [(T_parse, false)]
      end
  | _ => [(T_parse, false)]
  end.

(* try_add_constraint: either a connected chain of constraint edges a -> b (in the new state), or the empty list and no change *)
Definition check_tryc (p n : obs) (a b : Z) (res : list Z) : list (tag * bool) :=
  match obs_points p, obs_points n, counted res with
  | Some pts, Some npts, Some got =>
      let va := Z.to_nat a in let vb := Z.to_nat b in
      let blocked := crossspec_b p pts (pos pts va) (pos pts vb) in
      match got with
      | [] => [(T_admission, blocked || (va =? vb)); (T_try_atomic, obs_eqb p n)]
      | _ => [(T_admission, negb blocked); (T_chain, chain_ok n npts va vb got)]
      end
  | _, _, _ => [(T_parse, false)]
  end.

(* ------------------------------------------------------------------ comparison with an incremental reference (C10, C11) *)
Fixpoint nat_pairs (l : list Z) : list (nat * nat) :=
  match l with a :: b :: t => (Z.to_nat a, Z.to_nat b) :: nat_pairs t | _ => [] end.
(* aux = ne (u v)*ne nc (u v)*nc, vertex indices refer to the state under test *)
Definition parse_ref (aux : list Z) : option (list (nat * nat) * list (nat * nat)) :=
  match aux with
  | ne :: t =>
      if (ne <? 0)%Z then None else
      let n := Z.to_nat ne in
      match skipn (2 * n) t with
      | nc :: t2 =>
          if (length t2 =? 2 * Z.to_nat nc) then Some (nat_pairs (firstn (2 * n) t), nat_pairs t2) else None
      | [] => None
      end
  | [] => None
  end.
Definition upair_eqb (a b : nat * nat) : bool :=
  ((fst a =? fst b) && (snd a =? snd b)) || ((fst a =? snd b) && (snd a =? fst b)).
Definition pairs_subset (a b : list (nat * nat)) : bool := forallb (fun x => existsb (upair_eqb x) b) a.
Definition pairs_same (a b : list (nat * nat)) : bool := pairs_subset a b && pairs_subset b a.
Definition edge_pairs (s : obs) : list (nat * nat) := map (fun k => (org s (2 * k), dest s (2 * k))) (seq 0 (o_ne s)).
Definition cons_pairs (s : obs) : list (nat * nat) :=
  map (fun k => (org s (2 * k), dest s (2 * k))) (filter (fun k => flag s (2 * k)) (seq 0 (o_ne s))).

(* same constraint edges as the reference; same edge set whenever the (constrained) Delaunay triangulation is unique *)
Definition check_ref (t_edges : tag) (n : obs) (aux : option (list Z)) : list (tag * bool) :=
  match aux with
  | None => []
  | Some a =>
    match parse_ref a, obs_points n with
    | Some (res, rcs), Some pts =>
        [(t_edges, pairs_same (cons_pairs n) rcs && (negb (unique_b n pts) || pairs_same (edge_pairs n) res))]
    | _, _ => []          (* reference could not be built (e.g. crossing constraints): nothing to compare *)
    end
  end.

(* constraints after a removal: those of the previous state that do not touch the removed vertex, nothing else (by position) *)
Definition key_pairs (s : obs) : option (list (key * key)) :=
  match vstate_of (o_verts s) with
  | Some vs =>
      let ks := map fst vs in
      Some (map (fun pr => (nth (fst pr) ks ((0,0),(0,0))%Z, nth (snd pr) ks ((0,0),(0,0))%Z)) (cons_pairs s))
  | None => None
  end.
Definition kpair_eqb (a b : key * key) : bool :=
  (key_eqb (fst a) (fst b) && key_eqb (snd a) (snd b)) || (key_eqb (fst a) (snd b) && key_eqb (snd a) (fst b)).
Definition kpairs_same (a b : list (key * key)) : bool :=
  forallb (fun x => existsb (kpair_eqb x) b) a && forallb (fun x => existsb (kpair_eqb x) a) b.
Definition check_remove_cons (p n : obs) (rx ry : Z) : list (tag * bool) :=
  match key_pairs p, key_pairs n, key_of rx ry with
  | Some kp, Some kn, Some rk =>
      let expected := filter (fun pr => negb (key_eqb (fst pr) rk || key_eqb (snd pr) rk)) kp in
      [(T_remove_cons, kpairs_same expected kn)]
  | _, _, _ => [(T_parse, false)]
  end.

(* ------------------------------------------------------------------ C04: the set-of-segments model *)
(* decode both states and the operation's coordinates on one scale *)
Definition joint_points (p n : obs) (extra : list Z) : option (list pnt * list pnt * list pnt) :=
  match decode_points (coord_bits p ++ coord_bits n ++ extra) with
  | Some all => Some (firstn (nV p) all, firstn (nV n) (skipn (nV p) all), skipn (nV p + nV n) all)
  | None => None
  end.
Definition flagged_segs (s : obs) (pts : list pnt) : list seg :=
  map (fun pr => (pos pts (fst pr), pos pts (snd pr))) (cons_pairs s).

Fixpoint add_edges_by_index (verts : list pnt) (inp : list pnt) (r : list seg) (es : list (nat * nat)) : list seg :=
  match es with
  | [] => r
  | (a, b) :: t => add_edges_by_index verts inp (add_constraint verts r (nth a inp (0,0)%Z) (nth b inp (0,0)%Z)) t
  end.

Definition check_segspec (c : cfg) (p n : obs) (op : Z) (args res : list Z) : list (tag * bool) :=
  if negb (c_cdt c) then [] else
  let simple (extra : list Z) (f : list pnt -> list pnt -> list pnt -> list seg -> option (list seg)) :=
    match joint_points p n extra with
    | Some (pp, np, ex) =>
        match f pp np ex (flagged_segs p pp) with
        | Some expected => [(T_segspec, segs_same expected (flagged_segs n np))]
        | None => []
        end
    | None => [(T_parse, false)]
    end in
  if (op =? OP_ins)%Z || (op =? OP_insh)%Z then
    match args, res with
    | x :: y :: _, [r0; _] =>
        if (r0 =? K_ok)%Z then simple [x; y] (fun _ _ ex r => match ex with [q] => Some (split_at r q) | _ => None end)
        else simple [] (fun _ _ _ r => Some r)
    | _, _ => []
    end
  else if (op =? OP_rm)%Z || (op =? OP_trm)%Z then
    match res with
    | [rx; ry; _] => simple [rx; ry] (fun _ _ ex r => match ex with [q] => Some (remove_vertex r q) | _ => None end)
    | _ => []
    end
  else if (op =? OP_lrm)%Z then
    match res with
    | [_; rx; ry; _] => simple [rx; ry] (fun _ _ ex r => match ex with [q] => Some (remove_vertex r q) | _ => None end)
    | _ => simple [] (fun _ _ _ r => Some r)
    end
  else if (op =? OP_addc)%Z || (op =? OP_tryc)%Z then
    match args with
    | [a; b] => simple [] (fun pp np _ r => Some (add_constraint np r (pos pp (Z.to_nat a)) (pos pp (Z.to_nat b))))
    | _ => []
    end
  else if (op =? OP_adde)%Z then
    match args, res with
    | [x1; y1; _; x2; y2; _], r0 :: _ =>
        if (r0 =? K_ok)%Z then
          simple [x1; y1; x2; y2] (fun _ np ex r => match ex with
                                   | [a; b] => Some (add_constraint np (split_at (split_at r a) b) a b) | _ => None end)
        else if (r0 =? K_panic)%Z then
          (* refused after both end points were inserted: they may have split existing constraints *)
          simple [x1; y1; x2; y2] (fun _ _ ex r => match ex with [a; b] => Some (split_at (split_at r a) b) | _ => None end)
        else simple [] (fun _ _ _ r => Some r)
    | _, _ => []
    end
  else if (op =? OP_rmc)%Z then
    match args with
    | [e] => simple [] (fun pp _ _ r =>
               let k := Z.to_nat e in Some (remove_seg r (pos pp (org p (2 * k)), pos pp (dest p (2 * k)))))
    | _ => []
    end
  else if (op =? OP_clear)%Z then simple [] (fun _ _ _ _ => Some [])
  else if (op =? OP_clone)%Z || (op =? OP_canc)%Z then simple [] (fun _ _ _ r => Some r)
  else if (op =? OP_bulk)%Z || (op =? OP_bulks)%Z then
    match res with r0 :: _ => if (r0 =? K_ok)%Z then simple [] (fun _ _ _ _ => Some []) else simple [] (fun _ _ _ r => Some r) | _ => [] end
  else if (op =? OP_bulkc)%Z || (op =? OP_bulkcs)%Z then
    match args, res with
    | cnt :: rest, r0 :: _ =>
        if (r0 =? K_ok)%Z then
          let k := Z.to_nat cnt in
          let coords := flat_map (fun t => [fst (fst t); snd (fst t)]) (triples (firstn (3 * k) rest)) in
          match skipn (3 * k) rest with
          | _ :: es => simple coords (fun _ np inp _ => Some (add_edges_by_index np inp [] (nat_pairs es)))
          | [] => []
          end
        else simple [] (fun _ _ _ r => Some r)
    | _, _ => []
    end
  else [].

(* ------------------------------------------------------------------ C06: exact decisions of the predicate wrappers *)
Definition sign_flags (o : Z) : list Z :=
  [if (0 <? o)%Z then 1 else 0; if (o <? 0)%Z then 1 else 0; if (o =? 0)%Z then 1 else 0]%Z.
Definition check_msq (args res : list Z) : list (tag * bool) :=
  match decode_points args with
  | Some [a; b; q] => [(T_sidequery, list_eqb Z.eqb (sign_flags (orient a b q)) res)]
  | _ => [(T_parse, false)]
  end.
Definition check_mcic (args res : list Z) : list (tag * bool) :=
  match decode_points args, res with
  | Some [v1; v2; v3; q], [r] => [(T_sidequery, Z.eqb r (if (0 <? incircle v1 v2 v3 q)%Z then 1 else 0)%Z)]
  | _, _ => [(T_parse, false)]
  end.
Definition check_sq (p : obs) (args res : list Z) : list (tag * bool) :=
  match args with
  | [e; x; y] =>
      match with_points p [x; y] with
      | Some (pts, [q], _) =>
          let e' := Z.to_nat e in
          [(T_sidequery, list_eqb Z.eqb (sign_flags (orient (eorg p pts e') (edst p pts e') q)) res)]
      | _ => [(T_parse, false)]
      end
  | _ => [(T_parse, false)]
  end.

(* ------------------------------------------------------------------ C20 refine, C13 add_constraint_and_split *)
Definition prefix_unchanged (p n : obs) : bool :=
  (nV p <=? nV n) &&
  list_eqb (fun a b => (v_x a =? v_x b)%Z && (v_y a =? v_y b)%Z && (v_data a =? v_data b)%Z) (o_verts p) (firstn (nV p) (o_verts n)).

(* refine <ratio|-> <min-area|-> <max-area|-> <max-verts|-> <keep 0/1> <excl 0/1> ;  res = complete n_excl f* *)
Definition check_refine (p n : obs) (args res : list Z) : list (tag * bool) :=
  match args, res, obs_points n with
  | [_; _; _; maxv; keep; excl], complete :: ne :: ex, Some npts =>
      let budget_ok := if (maxv =? K_dash)%Z then true else (nV n <=? nV p + Z.to_nat maxv) in
      let got := map Z.to_nat ex in
      [(T_refine, prefix_unchanged p n && budget_ok && (length ex =? Z.to_nat ne)
                  && (if (keep =? 1)%Z then constraints_kept p n else constraints_covered p n npts)
                  && (if (excl =? 1)%Z then excluded_ok n got else match got with [] => true | _ => false end))]
  | _, _, _ => [(T_parse, false)]
  end.

(* the quality guarantee of a completed refinement (last sentence of C20): if refinement_complete, no two fixed (constraint or hull) edges of the
   input meet at less than 90 degrees, the angle limit is at most 20 degrees (radius / shortest edge >= 1 / (2 sin 20) ~ 1.4619) and constraint
   edges may be split, then every face that is not excluded and not below min_required_area has circumradius / shortest edge <= the limit and
   area <= max_allowed_area.  The implementation evaluates both in floating point: a relative tolerance of 1e-9 (f32: 1e-3) is granted. *)
Definition fixed_edge (s : obs) (e : nat) : bool := flag s e || (face s e =? 0) || (face s (rev e) =? 0).
Definition fixed_angles_ok (s : obs) (pts : list pnt) : bool :=
  forallb (fun e1 => negb (fixed_edge s e1) ||
     forallb (fun e2 => negb (fixed_edge s e2 && (org s e2 =? org s e1) && negb (e2 =? e1))
                        || (dot (eorg s pts e1) (edst s pts e1) (edst s pts e2) <=? 0)%Z) (seq 0 (nH s))) (seq 0 (nH s)).
(* m * 2^e compared with num / den (all non-negative): num * T <= m * 2^e * den * (T + 1) *)
Definition le_dy_tol (T : Z) (num den : Z) (d : dy) : bool :=
  let '(m, e) := d in
  if (0 <=? e)%Z then (num * T <=? Z.shiftl m e * den * (T + 1))%Z
  else (Z.shiftl (num * T) (- e) <=? m * den * (T + 1))%Z.
Definition check_refine_quality (c : cfg) (p n : obs) (args res : list Z) : list (tag * bool) :=
  match args, res with
  | [ratio; mina; maxa; _; keep; excl], complete :: ne :: ex =>
      if negb (complete =? 1)%Z || (keep =? 1)%Z || (ratio =? K_dash)%Z then [] else
      match obs_points p, with_points n [], decode ratio with
      | Some ppts, Some (npts, _, em), Some (rm, re) =>
          (* limit >= 1.4619 : rm * 2^re * 10000 >= 14619 *)
          let limit_ok := if (0 <=? re)%Z then (14619 <=? Z.shiftl rm re * 10000)%Z else (Z.shiftl 14619 (- re) <=? rm * 10000)%Z in
          if negb limit_ok || negb (fixed_angles_ok p ppts) then [] else
          let T := if c_f32 c then 1000%Z else 1000000000%Z in
          let got := map Z.to_nat ex in
          let mind := if (mina =? K_dash)%Z then None else decode mina in
          let maxd := if (maxa =? K_dash)%Z then None else decode maxa in
          (* areas: 4 * area = dd * 2^(2 em) on the points' scale; compare dd with 4 * A * 2^(-2 em) *)
          let area_le (dd : Z) (d : dy) (tol : Z) : bool := le_dy_tol tol dd 1 (fst d * 4, snd d - 2 * em)%Z in
          let face_ok (f : nat) : bool :=
            let '(a, b, cc) := face_tri n npts f in
            let '(ux, uy, dd) := cc_num a b cc in
            let lmin := Z.min (dist2 a b) (Z.min (dist2 b cc) (dist2 cc a)) in
            let small := match mind with Some d => area_le dd d T | None => false end in     (* at or below min_required_area (within tolerance): may be ignored *)
            small ||
            (le_dy_tol T (ux * ux + uy * uy) (lmin * dd * dd) (rm * rm, 2 * re)%Z
             && match maxd with Some d => area_le dd d T | None => true end) in
          [(T_refine, forallb (fun f => memb f got || face_ok f) (seq 1 (nF n - 1)))]
      | _, _, _ => []
      end
  | _, _ => []
  end.

(* add_constraint_and_split a b: a chain of constraint edges from a to b (through new vertices or vertices on the segment), every
   old constraint still covered, existing vertices untouched, one new vertex per ... *)
Definition check_split (p n : obs) (a b : Z) (res : list Z) : list (tag * bool) :=
  match obs_points n, counted res with
  | Some npts, Some chain =>
      let va := Z.to_nat a in let vb := Z.to_nat b in
      let chain_conn :=
        (fix go (cur : nat) (l : list nat) : bool :=
           match l with
           | [] => cur =? vb
           | e :: t => (e <? nH n) && (org n e =? cur) && flag n e && go (dest n e) t
           end) va chain in
      let chain_verts := va :: vb :: flat_map (fun e => [org n e; dest n e]) chain in
      (* an existing vertex lying exactly on a piece between two anchors (chain vertices, new vertices, end points of old constraints)
         subdivides that piece: a constraint edge never passes through a vertex *)
      let anchors := chain_verts ++ seq (nV p) (nV n - nV p)
                     ++ flat_map (fun k => if flag p (2 * k) then [org p (2 * k); dest p (2 * k)] else []) (seq 0 (o_ne p)) in
      let on_piece := filter (fun w => existsb (fun x => existsb (fun y => strictly_between (pos npts x) (pos npts y) (pos npts w)) anchors) anchors)
                             (seq 0 (nV p)) in
      [(T_split, prefix_unchanged p n && constraints_covered_via (chain_verts ++ on_piece) p n npts
                 && (if va =? vb then true else match chain with [] => false | _ => chain_conn end))]
  | _, _ => [(T_parse, false)]
  end.

(* ------------------------------------------------------------------ C17: LineIntersectionIterator *)
Fixpoint parse_items (l : list Z) : option (list litem) :=
  match l with
  | [] => Some []
  | k :: i :: t =>
      match parse_items t with
      | Some r =>
          if (k =? K_x)%Z then Some (IX (Z.to_nat i) :: r)
          else if (k =? K_v)%Z then Some (IV (Z.to_nat i) :: r)
          else if (k =? K_o)%Z then Some (IO (Z.to_nat i) :: r)
          else None
      | None => None
      end
  | _ => None
  end.
Definition check_line (p : obs) (args res : list Z) : list (tag * bool) :=
  match args, res with
  | [x1; y1; x2; y2], n :: items =>
      match with_points p [x1; y1; x2; y2], parse_items items with
      | Some (pts, [a; b], _), Some its =>
          [(T_lineiter, (length its =? Z.to_nat n) && linespec_b p pts a b its)]
      | _, _ => [(T_parse, false)]
      end
  | _, _ => [(T_parse, false)]
  end.
Definition check_lineh (p : obs) (args res : list Z) : list (tag * bool) :=
  match args, res, obs_points p with
  | [a; b], n :: items, Some pts =>
      match parse_items items with
      | Some its =>
          let va := Z.to_nat a in let vb := Z.to_nat b in
          [(T_lineiter, (length its =? Z.to_nat n) && linespec_b p pts (pos pts va) (pos pts vb) its
                        && match its with IV v0 :: _ => v0 =? va | _ => false end
                        && match List.rev its with IV v1 :: _ => v1 =? vb | _ => false end)]
      | None => [(T_parse, false)]
      end
  | _, _, _ => [(T_parse, false)]
  end.

(* ------------------------------------------------------------------ C18 Voronoi view, C19 interpolation *)
Definition dy_rescale (em : Z) (b : Z) : option dy :=
  match decode b with Some (m, e) => Some (m, (e - em)%Z) | None => None end.
(* a coordinate difference reported in real units, as an exact integer on the points' scale (None if not representable) *)
Definition to_scaled_int (em : Z) (b : Z) : option Z :=
  match decode b with
  | Some (m, e) => if (m =? 0)%Z then Some 0%Z else if (em <=? e)%Z then Some (Z.shiftl m (e - em)) else None
  | None => None
  end.

Fixpoint vor_edges_ok (s : obs) (pts : list pnt) (em : Z) (n : nat) (l : list Z) : option (bool * list Z) :=
  match n with
  | O => Some (true, l)
  | S n' =>
    match l with
    | e :: fr :: to :: dx :: dy_ :: site :: nx :: pv :: rv :: t =>
        match to_scaled_int em dx, to_scaled_int em dy_, vor_edges_ok s pts em n' t with
        | Some ix, Some iy, Some (b, rest) =>
            Some (vor_edge_ok s pts (Z.to_nat e) fr to (ix, iy) (Z.to_nat site) (Z.to_nat nx) (Z.to_nat pv) (Z.to_nat rv) && b, rest)
        | _, _, _ => None
        end
    | _ => None
    end
  end.
Fixpoint vor_ccs_ok (s : obs) (pts : list pnt) (em tol : Z) (n : nat) (l : list Z) : option (bool * list Z) :=
  match n with
  | O => Some (true, l)
  | S n' =>
    match l with
    | f :: x :: y :: t =>
        match dy_rescale em x, dy_rescale em y, vor_ccs_ok s pts em tol n' t with
        | Some dx, Some dy_, Some (b, rest) =>
            let f' := Z.to_nat f in
            Some ((negb (well_conditioned s pts f') || cc_ok s pts tol f' dx dy_) && b, rest)
        | _, _, _ => None
        end
    | _ => None
    end
  end.
Fixpoint vor_faces_ok (s : obs) (n : nat) (l : list Z) : option bool :=
  match n with
  | O => match l with [] => Some true | _ => None end
  | S n' =>
    match l with
    | v :: k :: t =>
        let k' := Z.to_nat k in
        match vor_faces_ok s n' (skipn k' t) with
        | Some b => if length (firstn k' t) =? k' then Some (vor_face_ok s (Z.to_nat v) (map Z.to_nat (firstn k' t)) && b) else None
        | None => None
        end
    | _ => None
    end
  end.
Definition check_vor (c : cfg) (p : obs) (res : list Z) : list (tag * bool) :=
  match res, decode_points_e (coord_bits p) with
  | nde :: rest, Some (pts, em) =>
      let tol := if c_f32 c then 1000%Z else 1000000%Z in
      match vor_edges_ok p pts em (Z.to_nat nde) rest with
      | Some (b1, kcc :: ni :: r1) =>
          match vor_ccs_ok p pts em tol (Z.to_nat ni) r1 with
          | Some (b2, kvf :: nv :: r2) =>
              match vor_faces_ok p (Z.to_nat nv) r2 with
              | Some b3 => [(T_voronoi, (Z.to_nat nde =? nH p) && (Z.to_nat ni + 1 =? nF p) && (Z.to_nat nv =? nV p)
                                         && (kcc =? K_cc)%Z && (kvf =? K_vf)%Z && b1 && b2 && b3)]
              | None => [(T_parse, false)]
              end
          | _ => [(T_parse, false)]
          end
      | _ => [(T_parse, false)]
      end
  | _, _ => [(T_parse, false)]
  end.

Fixpoint parse_weights (l : list Z) : option (list (nat * dy)) :=
  match l with
  | [] => Some []
  | v :: w :: t =>
      match decode w, parse_weights t with
      | Some d, Some r => Some ((Z.to_nat v, d) :: r)
      | _, _ => None
      end
  | _ => None
  end.
(* |m * 2^e - 1| <= 1 / tol *)
Definition near_one (tol : Z) (d : dy) : bool :=
  let '(m, e) := d in
  if (0 <=? e)%Z then (tol * Z.abs (Z.shiftl m e - 1) <=? 1)%Z
  else (tol * Z.abs (m - Z.shiftl 1 (- e)) <=? Z.shiftl 1 (- e))%Z.
(* the interpolate / interpolate_gradient results of the constant function 1 which follow the weights: pairs (flag, bits);
   flag 0 = None, 1 = Some with a judged value, 2 = Some with a value that is not judged.
   There is a value exactly when there are weights; a judged value is 1 up to rounding on well-conditioned input. *)
Fixpoint trailer_ok (tol : Z) (nonempty wc : bool) (l : list Z) : bool :=
  match l with
  | [] => true
  | f :: b :: t =>
      Bool.eqb (negb (f =? 0)%Z) nonempty
      && (if (f =? 1)%Z && wc then match decode b with Some d => near_one tol d | None => false end else true)
      && trailer_ok tol nonempty wc t
  | _ => false
  end.
Definition check_weights (c : cfg) (p : obs) (natural : bool) (args res : list Z) : list (tag * bool) :=
  match args, res with
  | [x; y], n :: rest =>
      let ws := firstn (2 * Z.to_nat n) rest in
      let trailer := skipn (2 * Z.to_nat n) rest in
      match with_points p [x; y] with
      | Some (pts, [q], _) =>
          let wc := forallb (well_conditioned p pts) (seq 1 (nF p - 1)) in
          let tol := if c_f32 c then 200%Z else 10000000%Z in
          match parse_weights ws with
          | Some wl =>
              [(T_interp, (length wl =? Z.to_nat n) && (if natural then nnw_ok p pts tol q wl else bary_ok p pts tol q wl)
                          && trailer_ok tol (negb (n =? 0)%Z) wc trailer)]
          | None =>
              (* non-finite weights: only tolerated when the triangulation is not well conditioned (outside the property's domain) *)
              [(T_interp, negb wc)]
          end
      | _ => [(T_parse, false)]
      end
  | _, _ => [(T_parse, false)]
  end.

(* add_constraint_edge(s): the vertices are inserted in input order, the first invalid one decides the error (C08) *)
Fixpoint first_invalid_flat (l : list Z) : Z * Z :=
  match l with
  | x :: y :: _ :: t => let '(k, e) := expected_validation x y in if (k =? K_err)%Z then (k, e) else first_invalid_flat t
  | _ => (K_ok, 0%Z)
  end.
Definition check_adde_validate (vs res : list Z) : list (tag * bool) :=
  let '(k, e) := first_invalid_flat vs in
  match res with
  | r0 :: rt =>
      if (r0 =? K_err)%Z then [(T_validate, (k =? K_err)%Z && match rt with [r1] => (e =? r1)%Z | _ => false end)]
      else [(T_validate, (k =? K_ok)%Z)]
  | [] => []
  end.

Definition check_op (c : cfg) (p : obs) (op : Z) (args res : list Z) (n : obs) (aux : option (list Z)) : list (tag * bool) :=
  if existsb (Z.eqb K_skip) res || existsb (Z.eqb K_panic) res || existsb (Z.eqb K_hang) res then [] else
  if (op =? OP_ins)%Z then
    match args with [x; y; d] => check_insert p n x y d res | _ => [(T_parse, false)] end
  else if (op =? OP_insh)%Z then
    match args with [x; y; d; _] => check_insert p n x y d res | _ => [(T_parse, false)] end
  else if (op =? OP_rm)%Z || (op =? OP_trm)%Z then
    match args with
    | [v] => check_remove p n v res ++ check_ref T_remove n aux
             ++ match res with [rx; ry; _] => check_remove_cons p n rx ry | _ => [] end
    | _ => [(T_parse, false)]
    end
  else if (op =? OP_lrm)%Z then
    match args with [x; y] => check_lrm p n x y res | _ => [(T_parse, false)] end
  else if (op =? OP_adde)%Z then check_adde_validate args res
  else if (op =? OP_addes)%Z then check_adde_validate (skipn 2 args) res
  else if (op =? OP_clear)%Z then
    [(T_vmap, (nV n =? 0) && (nH n =? 0) && (nF n =? 1) && (o_nc n =? 0))]
  else if (op =? OP_clone)%Z then
    [(T_vmap, obs_eqb p n)]
  else if (op =? OP_bulk)%Z then check_bulk p n false args res ++ check_ref T_bulk_edges n aux
  else if (op =? OP_bulks)%Z then check_bulk p n true args res ++ check_ref T_bulk_edges n aux
  else if (op =? OP_bulkc)%Z then check_bulk p n false args res ++ check_ref T_bulk_edges n aux
  else if (op =? OP_bulkcs)%Z then check_bulk p n true args res ++ check_ref T_bulk_edges n aux
  else if (op =? OP_valc)%Z then match args with [x] => check_valc x res | _ => [(T_parse, false)] end
  else if (op =? OP_valv)%Z then match args with [x; y] => check_valv x y res | _ => [(T_parse, false)] end
  else if (op =? OP_mit)%Z then match args with [x; y] => check_mit x y res | _ => [(T_parse, false)] end
  else if (op =? OP_loc)%Z then match args with [x; y] => check_loc p x y res | _ => [(T_parse, false)] end
  else if (op =? OP_loch)%Z then match args with [x; y; _] => check_loc p x y res | _ => [(T_parse, false)] end
  else if (op =? OP_locv)%Z then match args with [x; y] => check_locv p x y res | _ => [(T_parse, false)] end
  else if (op =? OP_nn)%Z then match args with [x; y] => check_nn p x y res | _ => [(T_parse, false)] end
  else if (op =? OP_vrect)%Z then check_rect p false args res
  else if (op =? OP_erect)%Z then check_rect p true args res
  else if (op =? OP_vcirc)%Z then check_circ (c_f32 c) p false args res
  else if (op =? OP_ecirc)%Z then check_circ (c_f32 c) p true args res
  else if (op =? OP_hull)%Z then check_hull p res
  else if (op =? OP_vor)%Z then check_vor c p res
  else if (op =? OP_bary)%Z then check_weights c p false args res
  else if (op =? OP_nnw)%Z then check_weights c p true args res
  else if (op =? OP_line)%Z then check_line p args res
  else if (op =? OP_lineh)%Z then check_lineh p args res
  else if (op =? OP_refine)%Z then check_refine p n args res ++ check_refine_quality c p n args res
  else if (op =? OP_split)%Z then match args with [a; b] => check_split p n a b res | _ => [(T_parse, false)] end
  else if (op =? OP_msq)%Z then check_msq args res
  else if (op =? OP_mcic)%Z then check_mcic args res
  else if (op =? OP_sq)%Z then check_sq p args res
  else if (op =? OP_canc)%Z then match args with [a; b] => check_canc p a b res | _ => [(T_parse, false)] end
  else if (op =? OP_confv)%Z then match args with [a; b] => check_confv p a b res | _ => [(T_parse, false)] end
  else if (op =? OP_isc)%Z then check_isc p args res false
  else if (op =? OP_confp)%Z then check_isc p args res true
  else if (op =? OP_tryc)%Z then match args with [a; b] => check_tryc p n a b res | _ => [(T_parse, false)] end
  else [].

(* ------------------------------------------------------------------ the fold *)
Record step := mkstep { s_op : Z; s_args : list Z; s_res : list Z; s_obs : option (list Z); s_aux : option (list Z) }.

Fixpoint run_steps (c : cfg) (p : obs) (k : nat) (l : list step) : list verdict :=
  match l with
  | [] => []
  | st :: t =>
    match s_obs st with
    | None =>
        map (fun v => (k, fst v, snd v)) (check_op c p (s_op st) (s_args st) (s_res st) p (s_aux st))
        ++ run_steps c p (S k) t
    | Some raw =>
      match parse_obs raw with
      | None => [(k, T_parse, false)]
      | Some n =>
        map (fun v => (k, fst v, snd v))
            (state_checks c n ++ check_op c p (s_op st) (s_args st) (s_res st) n (s_aux st)
             ++ (if existsb (Z.eqb K_skip) (s_res st) || existsb (Z.eqb K_hang) (s_res st) then [] else check_segspec c p n (s_op st) (s_args st) (s_res st)))
        ++ run_steps c n (S k) t
      end
    end
  end.

Definition run_case (c : cfg) (l : list step) : list verdict := run_steps c empty_obs 0 l.
