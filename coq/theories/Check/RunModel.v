(* Check/RunModel.v -- correspondence between the executable model and the implementation: the GENERATED DCEL
   primitives (Gen/DcelOps.v) and the hand-written legalize_edge model (Tri/Legalize.v) are run on the state the
   implementation was in, and the complete resulting DCEL (every table, index-exact) and the returned values are
   compared with what the implementation produced.  Extracted separately from Check/Run.v so that the specification
   checker keeps working when the translated model does not compile. *)
From Coq Require Import ZArith List Bool Arith.
From SpadeV Require Import Num.Decode Num.Decode2 Geom.Pred Obs.State Obs.Spec Vmap.Model Dcel.Raw Gen.DcelOps Tri.Legalize Tri.Insert Tri.Locate Tri.InsertLine Obs.LineSpec Tri.LineIter Tri.Remove Tri.AddConstraint Tri.AddSplit Query.NatNeighbor Query.FloodFill Query.FloodFillFloat Refine.OuterModel Refine.RefineFloat Refine.RefineModel Check.Codes Check.Run.
From SpadeV Require Num.F64.
From SpadeV Require Query.Hull Gen.Sizes.
Import ListNotations.

Definition dcel_eqb (a b : dcel) : bool :=
  list_eqb vrec_eqb (d_verts a) (d_verts b) && list_eqb hrec_eqb (d_hedges a) (d_hedges b) &&
  list_eqb opt_nat_eqb (d_faces a) (d_faces b) && list_eqb Bool.eqb (d_flags a) (d_flags b).

Definition nat_list_eqb (a : list nat) (b : list Z) : bool := list_eqb Z.eqb (map Z.of_nat a) b.

Definition check_prim (p n : obs) (args res : list Z) : list (tag * bool) :=
  let d := dcel_of_obs p in
  let dn := dcel_of_obs n in
  let ok (d' : dcel) (rets : list nat) := [(T_corr, dcel_eqb d' dn && nat_list_eqb rets res)] in
  match args with
  | code :: idx :: rest =>
    let i := Z.to_nat idx in
    let v := match rest with [x; y; dd] => mkvd x y dd | _ => mkvd 0 0 0 end in
    if (code =? K_flip)%Z then
      let '(d', _) := flip_cw d i in [(T_corr, dcel_eqb d' dn)]
    else if (code =? K_iit)%Z then let '(d', r) := insert_into_triangle d v i in ok d' [r]
    else if (code =? K_se)%Z then let '(d', (r, (e0, e1))) := split_edge d i v in ok d' [r; e0; e1]
    else if (code =? K_she)%Z then let '(d', (r, (e0, e1))) := split_half_edge d i v in ok d' [r; e0; e1]
    else if (code =? K_cnf)%Z then let '(d', r) := create_new_face_adjacent_to_edge d i v in ok d' [r]
    else if (code =? K_csf)%Z then let '(d', r) := create_single_face_between_edge_and_next d i in ok d' [r]
    else if (code =? K_ext)%Z then let '(d', r) := extend_line d i v in ok d' [r]
    else if (code =? K_sel)%Z then let '(d', ((e0, e1), r)) := split_edge_when_all_vertices_on_line d i v in ok d' [r; e0; e1]
    else if (code =? K_ifv)%Z then let '(d', r) := insert_first_vertex d v in ok d' [r]
    else if (code =? K_isv)%Z then let '(d', r) := insert_second_vertex d v in ok d' [r]
    else if (code =? K_leg)%Z || (code =? K_legf)%Z then
      match obs_points p with
      | Some pts =>
          let fuel := nH p * nH p + 100 in
          match legalize_edge pts fuel d i (code =? K_legf)%Z with
          | Some (d', fl) => [(T_corr, dcel_eqb d' dn && list_eqb Z.eqb [if fl then 1%Z else 0%Z] res)]
          | None => [(T_corr, false)]
          end
      | None => [(T_parse, false)]
      end
    else []
  | _ => []
  end.

(* ---- whole insertions into two-dimensional states: existential correspondence over the admissible locations ---- *)
Definition insert_candidates (p : obs) (pts : list pnt) (q : pnt) : list iloc :=
  match find (fun v => pnt_eqb (pos pts v) q) (seq 0 (nV p)) with
  | Some v => [IOnVertex v]
  | None =>
    let on_edges := filter (fun e => strictly_between (eorg p pts e) (edst p pts e) q) (seq 0 (nH p)) in
    match on_edges with
    | _ :: _ => map IOnEdge on_edges
    | [] =>
      let faces := filter (fun f => let '(a, b, c) := face_tri p pts f in
                                    (0 <? orient a b q)%Z && (0 <? orient b c q)%Z && (0 <? orient c a q)%Z) (seq 1 (nF p - 1)) in
      match faces with
      | _ :: _ => map IOnFace faces
      | [] => map IOutside (filter (fun e => (face p e =? 0) && (0 <? orient (eorg p pts e) (edst p pts e) q)%Z) (seq 0 (nH p)))
      end
    end
  end.

(* degenerate states: every location the exact specification allows *)
Definition line_candidates (p : obs) (pts : list pnt) (q : pnt) : list lloc :=
  if nV p =? 0 then [LFirst] else
  match find (fun v => pnt_eqb (pos pts v) q) (seq 0 (nV p)) with
  | Some v => [LOnVertex v]
  | None =>
    if nV p =? 1 then [LSecond] else
    let off := filter (fun e => (0 <? orient (eorg p pts e) (edst p pts e) q)%Z) (seq 0 (nH p)) in
    match off with
    | _ :: _ => map LNotOnLine off
    | [] =>
      let on_edges := filter (fun e => strictly_between (eorg p pts e) (edst p pts e) q) (seq 0 (nH p)) in
      match on_edges with
      | _ :: _ => map LOnEdge on_edges
      | [] => map LExtending (seq 0 (nV p))
      end
    end
  end.

(* handle_legal_edge_split (src/cdt.rs): an insertion on a constraint edge re-flags both halves (Tri/Insert.v `insert_2d` IOnEdge, Tri/InsertLine.v
   LOnEdge; part of the table comparison) and adds one to num_constraints; no other insertion changes the counter *)
Definition split_constraints (d : dcel) (loc : iloc) : nat :=
  match loc with IOnEdge e => if is_flagged d e then 1 else 0 | _ => 0 end.
Definition line_split_constraints (d : dcel) (loc : lloc) : nat :=
  match loc with LOnEdge e => if is_flagged d e then 1 else 0 | _ => 0 end.

Definition check_insert_line_model (p n : obs) (x y d : Z) (res : list Z) : list (tag * bool) :=
  match res with
  | [r0; _] =>
    if negb (r0 =? K_ok)%Z then [] else
    match decode_points (coord_bits p ++ [x; y]) with
    | Some allp =>
        let pts := firstn (nV p) allp in
        match skipn (nV p) allp with
        | [q] =>
            let dd := dcel_of_obs p in
            let dn := dcel_of_obs n in
            let fuel := nH p * nH p + 200 in
            [(T_corr, existsb (fun loc => match insert_line allp fuel dd loc (mkvd x y d) with
                                           | Some d' => dcel_eqb d' dn && (o_nc n =? o_nc p + line_split_constraints dd loc)
                                           | None => false end) (line_candidates p pts q))]
        | _ => [(T_parse, false)]
        end
    | None => []
    end
  | _ => []
  end.

Definition check_insert_model (p n : obs) (x y d : Z) (res : list Z) : list (tag * bool) :=
  if nF p <=? 1 then check_insert_line_model p n x y d res else
  match res with
  | [r0; _] =>
    if negb (r0 =? K_ok)%Z || (nF p <=? 1) then [] else
    match decode_points (coord_bits p ++ [x; y]) with
    | Some allp =>
        let pts := firstn (nV p) allp in
        match skipn (nV p) allp with
        | [q] =>
            let dd := dcel_of_obs p in
            let dn := dcel_of_obs n in
            let fuel := nH p * nH p + 200 in
            [(T_corr, existsb (fun loc => match insert_2d allp fuel dd loc (mkvd x y d) with
                                           | Some d' => dcel_eqb d' dn && (o_nc n =? o_nc p + split_constraints dd loc)
                                           | None => false end) (insert_candidates p pts q))]
        | _ => [(T_parse, false)]
        end
    | None => []
    end
  | _ => []
  end.

(* ---- point location in two-dimensional states ---- *)
Definition lres_matches (r : lres) (res : list Z) : bool :=
  match r, res with
  | ROnVertex v, [k; i] => (k =? K_vertex)%Z && (Z.to_nat i =? v)
  | ROnEdge e, [k; i] => (k =? K_edge)%Z && (Z.to_nat i =? e)
  | ROnFace f, [k; i] => (k =? K_face)%Z && (Z.to_nat i =? f)
  | ROutside e, [k; i] => (k =? K_outside)%Z && (Z.to_nat i =? e)
  | _, _ => false
  end.
(* small integer coordinates: the implementation's floating-point squared distances are exact *)
Definition exact_class (pts : list pnt) : bool :=
  forallb (fun p => (Z.abs (fst p) <? 1048576)%Z && (Z.abs (snd p) <? 1048576)%Z) pts.
Definition check_locate_model (p : obs) (x y : Z) (hint : option Z) (res : list Z) : list (tag * bool) :=
  if nF p <=? 1 then [] else
  match decode_points_e (coord_bits p ++ [x; y]) with
  | Some (allp, em) =>
      let pts := firstn (nV p) allp in
      match skipn (nV p) allp with
      | [q] =>
          let dd := dcel_of_obs p in
          let exact := exact_class allp && (0 <=? em)%Z in
          match hint, exact with
          | Some h, true => [(T_corr, lres_matches (locate_with_hint pts dd q (Z.to_nat h)) res)]
          | _, _ => [(T_corr, existsb (fun c => lres_matches (locate_from_closest pts dd q c) res) (seq 0 (nV p)))]
          end
      | _ => []
      end
  | None => []
  end.

(* ---- nearest_neighbor: the answer is where the greedy walk stops from some start vertex (the hint comes from the hint generator) ---- *)
Definition check_nn_model (p : obs) (x y : Z) (res : list Z) : list (tag * bool) :=
  if nF p <=? 1 then [] else
  match decode_points_e (coord_bits p ++ [x; y]), res with
  | Some (allp, em), [k; v] =>
      let pts := firstn (nV p) allp in
      match skipn (nV p) allp with
      | [q] =>
          if exact_class allp && (0 <=? em)%Z then
            let dd := dcel_of_obs p in
            [(T_corr, (k =? K_some)%Z &&
                      existsb (fun s0 => match walk_to_nearest pts dd q s0 with Some w => w =? Z.to_nat v | None => false end) (seq 0 (nV p)))]
          else []
      | _ => []
      end
  | _, _ => []
  end.

(* ---- LineIntersectionIterator: the item list must be the model's list, item for item ---- *)
Definition litem_eqb (x y : litem) : bool :=
  match x, y with
  | IX e, IX e' => e =? e'
  | IV v, IV v' => v =? v'
  | IO e, IO e' => e =? e'
  | _, _ => false
  end.
Definition opt_items_eqb (m : option (list litem)) (its : list litem) : bool :=
  match m with Some l => list_eqb litem_eqb l its | None => false end.
(* inputs on which every floating-point comparison of the iterator (projections, squared distances, one dot product) is computed
   without rounding: coordinates are integers below 2^25 (f32: 2^10) on a common scale 2^em, em >= -400 (f32: -50) *)
Definition line_exact (f32 : bool) (allp : list pnt) (em : Z) : bool :=
  let bound := if f32 then 1024%Z else 33554432%Z in
  let emlo := if f32 then (-50)%Z else (-400)%Z in
  forallb (fun p => (Z.abs (fst p) <? bound)%Z && (Z.abs (snd p) <? bound)%Z) allp && (emlo <=? em)%Z.
(* f64 inputs outside that class on which the rounded comparisons provably take the exact branch: `factor < 0`, `dot > 0` and the distance
   comparison have the exact sign (all terms of a sum have one sign; rounding is monotone; no underflow above 2^-400), and `factor > length_2`
   is false both ways for a collinear point that is not beyond line_to (|q - from| <= |to - from| componentwise, rounding monotone);
   so the only input left out is a vertex on the supporting line strictly beyond line_to *)
Definition line_monotone_safe (f32 : bool) (pts : list pnt) (a b : pnt) (em : Z) : bool :=
  negb f32 && (-400 <=? em)%Z &&
  forallb (fun v => negb ((orient a b v =? 0)%Z && (dist2 a b <? dot a b v)%Z)) pts.

Definition line_start_candidates (p : obs) (pts : list pnt) (dd : dcel) (a : pnt) : list lstart :=
  if nF p <=? 1 then match locate_degenerate pts dd a with Some s => [s] | None => [] end
  else flat_map (fun c => match lstart_of_lres (locate_from_closest pts dd a c) with Some s => [s] | None => [] end) (seq 0 (nV p)).

Definition check_line_model (f32 : bool) (handles : bool) (p : obs) (args res : list Z) : list (tag * bool) :=
  let dd := dcel_of_obs p in
  let fuel := 2 * nH p + nV p + 1 in      (* Tri/LineIterProofs.v: line_iter_fuel_enough *)
  match res with
  | n :: items =>
    match parse_items items with
    | Some its =>
      if handles then
        match args, decode_points_e (coord_bits p) with
        | [va; vb], Some (pts, em) =>
            let a := vpos pts (Z.to_nat va) in let b := vpos pts (Z.to_nat vb) in
            if line_exact f32 pts em || line_monotone_safe f32 pts a b em
            then [(T_corr, (length its =? Z.to_nat n) && opt_items_eqb (line_iter_handles pts fuel dd (Z.to_nat va) (Z.to_nat vb)) its)]
            else []
        | _, _ => []
        end
      else
        match args with
        | [x1; y1; x2; y2] =>
          match decode_points_e (coord_bits p ++ args) with
          | Some (allp, em) =>
            let pts := firstn (nV p) allp in
            match skipn (nV p) allp with
            | [a; b] =>
                if line_exact f32 allp em || line_monotone_safe f32 pts a b em
                then [(T_corr, (length its =? Z.to_nat n) &&
                               existsb (fun st => opt_items_eqb (line_iter pts fuel dd a b st) its) (line_start_candidates p pts dd a))]
                else []
            | _ => []
            end
          | None => []
          end
        | _ => []
        end
    | None => [(T_parse, false)]
    end
  | [] => []
  end.

(* get_conflicting_edges_between_points (confp) / _between_vertices (confv) / intersects_constraint (isc) on CDTs: through the iterator model *)
Definition check_conf_model (f32 : bool) (kind : Z) (p : obs) (args res : list Z) : list (tag * bool) :=
  let dd := dcel_of_obs p in
  let fuel := 2 * nH p + nV p + 1 in      (* Tri/LineIterProofs.v: line_iter_fuel_enough *)
  if (kind =? OP_confv)%Z then
    match args, counted res, decode_points_e (coord_bits p) with
    | [va; vb], Some got, Some (pts, em) =>
        let a := vpos pts (Z.to_nat va) in let b := vpos pts (Z.to_nat vb) in
        if line_exact f32 pts em || line_monotone_safe f32 pts a b em
        then [(T_corr, match conflicting_edges_vertices pts fuel dd (Z.to_nat va) (Z.to_nat vb) with
                       | Some l => list_eqb Nat.eqb l got | None => false end)]
        else []
    | _, _, _ => []
    end
  else
    match args with
    | [x1; y1; x2; y2] =>
      match decode_points_e (coord_bits p ++ args) with
      | Some (allp, em) =>
        let pts := firstn (nV p) allp in
        match skipn (nV p) allp with
        | [a; b] =>
            if line_exact f32 allp em || line_monotone_safe f32 pts a b em then
              if (kind =? OP_confp)%Z then
                match counted res with
                | Some got =>
                    [(T_corr, existsb (fun st => match conflicting_edges_points pts fuel dd a b st with
                                                 | Some l => list_eqb Nat.eqb l got | None => false end) (line_start_candidates p pts dd a))]
                | None => []
                end
              else
                match res with
                | [r] =>
                    [(T_corr, existsb (fun st => match intersects_constraint pts fuel dd a b st with
                                                 | Some v => Bool.eqb v (r =? 1)%Z | None => false end) (line_start_candidates p pts dd a))]
                | _ => []
                end
            else []
        | _ => []
        end
      | None => []
      end
    | _ => []
    end.

(* ---- whole vertex removals: remove / Triangulation::remove / locate_and_remove on a vertex position.  The model is a function of the
   previous state: no candidates.  `cdt` selects ConstrainedDelaunayTriangulation::remove (constraints of the vertex released first). ---- *)
Definition check_remove_model (cdt : bool) (p n : obs) (v : Z) (res : list Z) : list (tag * bool) :=
  match res with
  | [rx; ry; rd] =>
    match obs_points p with
    | Some pts =>
        let dd := dcel_of_obs p in
        let dn := dcel_of_obs n in
        let fuel := nH p * nH p + 200 in
        if (v <? 0)%Z then [(T_parse, false)] else
        match (if cdt then cdt_remove_vertex pts fuel dd (Z.to_nat v) else remove_vertex_full pts fuel dd (Z.to_nat v)) with
        | Some (d', r) => [(T_corr, dcel_eqb d' dn && (v_x r =? rx)%Z && (v_y r =? ry)%Z && (v_data r =? rd)%Z)]
        | None => [(T_corr, false)]
        end
    | None => [(T_parse, false)]
    end
  | _ => []
  end.

(* locate_and_remove(x, y): `some ..` exactly when a vertex has that position; then it is the removal of that vertex *)
Definition check_lrm_model (cdt : bool) (p n : obs) (x y : Z) (res : list Z) : list (tag * bool) :=
  match res with
  | k :: rest =>
    match decode_points (coord_bits p ++ [x; y]) with
    | Some allp =>
        let pts := firstn (nV p) allp in
        match skipn (nV p) allp with
        | [q] =>
            match find (fun v => pnt_eqb (pos pts v) q) (seq 0 (nV p)) with
            | Some v => if (k =? K_some)%Z then check_remove_model cdt p n (Z.of_nat v) rest else [(T_corr, false)]
            | None => [(T_corr, (k =? K_none)%Z && dcel_eqb (dcel_of_obs p) (dcel_of_obs n))]
            end
        | _ => [(T_parse, false)]
        end
    | None => []
    end
  | [] => []
  end.


(* ---- NaturalNeighbor::get_weights (nnw) / Barycentric::get_weights (bary): the SEQUENCE of vertex handles in the result vector must be the
   model's (Query/NatNeighbor.v) for an answer of the locate model.  The weights themselves are judged by Check/Run.v `check_weights`
   within a tolerance.
   Which answers of locate: the harness runs a warm-up query at the position of vertex 0 on the same triangulation, so with the
   LastUsedVertexHintGenerator (`last`) the hint of the judged query is vertex 0, and on inputs whose floating-point squared distances are
   exact (`line_exact`) the location is THE answer of Tri/Locate.v's locate_with_hint from vertex 0 -- no choice is left (in particular the
   direction of the edge reported for a position on an edge is fixed).  With the hierarchy generators, or inexact distances, the location is
   the locate model's answer from some start vertex.  Degenerate states: locate is deterministic (Tri/LineIter.v). ---- *)
Fixpoint weight_vertices (n : nat) (l : list Z) : option (list Z) :=
  match n, l with
  | O, _ => Some []
  | S n', v :: _ :: t => match weight_vertices n' t with Some r => Some (v :: r) | None => None end
  | S _, _ => None
  end.
Definition weight_loc_candidates (c : cfg) (p : obs) (pts : list pnt) (allp : list pnt) (em : Z) (dd : dcel) (q : pnt) : list lstart :=
  if (1 <? nF p) && (c_hint c =? K_last)%Z && line_exact (c_f32 c) allp em
  then match lstart_of_lres (locate_with_hint pts dd q 0) with Some s => [s] | None => [] end
  else line_start_candidates p pts dd q.
Definition check_weights_model (c : cfg) (p : obs) (natural : bool) (args res : list Z) : list (tag * bool) :=
  match args, res with
  | [x; y], n :: rest =>
    (* query coordinates outside the range that spade validates for vertices (non-zero magnitude below 2^-142, above 2^201): the `robust`
       predicates under/overflow there and are not the signs of the exact determinants (C06 holds for validated coordinates only);
       locate / get_weights accept such positions without validation -- not compared (witness: report of task M7) *)
    if negb (fst (expected_validation x y) =? K_ok)%Z then [] else
    match decode_points_e (coord_bits p ++ [x; y]), weight_vertices (Z.to_nat n) rest with
    | Some (allp, em), Some got =>
        let pts := firstn (nV p) allp in
        match skipn (nV p) allp with
        | [q] =>
            let dd := dcel_of_obs p in
            let fuel := 2 * nH p + 10 in
            [(T_corr, existsb (fun loc => match (if natural then nn_weight_vertices pts fuel dd q loc else bary_weight_vertices dd loc) with
                                          | Some vs => nat_list_eqb vs got
                                          | None => false end) (weight_loc_candidates c p pts allp em dd q))]
        | _ => [(T_parse, false)]
        end
    | _, _ => []
    end
  | _, _ => []
  end.

(* ---- constraint insertion without splitting (Tri/AddConstraint.v): add_constraint (addc), try_add_constraint (tryc), can_add_constraint (canc).
   The model is a function of the previous state.  Compared: all four tables, the returned edge list (tryc) / bool (addc, canc), the change of
   num_constraints; a refused add_constraint is the documented panic (the harness dumps the state after it: it must be the previous state).
   Restricted to the inputs on which the iterator's floating-point comparisons take the exact branch (as for lineh / confv). ---- *)
Definition check_addc_model (f32 : bool) (kind : Z) (p n : obs) (args res : list Z) : list (tag * bool) :=
  match args, decode_points_e (coord_bits p) with
  | [va; vb], Some (pts, em) =>
      let a := vpos pts (Z.to_nat va) in let b := vpos pts (Z.to_nat vb) in
      if line_exact f32 pts em || line_monotone_safe f32 pts a b em then
        let dd := dcel_of_obs p in
        let dn := dcel_of_obs n in
        let fuel := nH p * nH p + 2 * nH p + nV p + 200 in
        match try_add_constraint_inner pts fuel dd (Z.to_nat va) (Z.to_nat vb) with
        | None => [(T_corr, false)]
        | Some Refused =>
            if (kind =? OP_tryc)%Z then [(T_corr, dcel_eqb dd dn && list_eqb Z.eqb res [0%Z] && (o_nc n =? o_nc p))]
            else [(T_corr, dcel_eqb dd dn && list_eqb Z.eqb res [K_panic] && (o_nc n =? o_nc p))]
        | Some (Added d' nc edges) =>
            if (kind =? OP_tryc)%Z then
              [(T_corr, dcel_eqb d' dn && (o_nc n =? o_nc p + nc) &&
                        match counted res with Some got => list_eqb Nat.eqb edges got | None => false end)]
            else [(T_corr, dcel_eqb d' dn && (o_nc n =? o_nc p + nc) && list_eqb Z.eqb res [if nc =? 0 then 0%Z else 1%Z])]
        end
      else []
  | _, _ => []
  end.

Definition check_canc_model (f32 : bool) (p : obs) (args res : list Z) : list (tag * bool) :=
  match args, res, decode_points_e (coord_bits p) with
  | [va; vb], [r], Some (pts, em) =>
      let a := vpos pts (Z.to_nat va) in let b := vpos pts (Z.to_nat vb) in
      if line_exact f32 pts em || line_monotone_safe f32 pts a b em then
        let fuel := 2 * nH p + nV p + 1 in
        [(T_corr, match can_add_constraint pts fuel (dcel_of_obs p) (Z.to_nat va) (Z.to_nat vb) with
                  | Some v => Bool.eqb v (r =? 1)%Z | None => false end)]
      else []
  | _, _, _ => []
  end.


(* ---- add_constraint_edge (adde): insert(from)?; insert(to)?; add_constraint(from_handle, to_handle).  The two insertions are the insertion
   models (Tri/Insert.v, Tri/InsertLine.v) run for every location the exact specification admits, the second on the result of the first; the
   constraint insertion is run on every such intermediate state and one of the results must be the implementation's DCEL and bool.  When the
   code panics ("intersect") both end points have been inserted and the state must be that intermediate state. ---- *)
Definition obs_view (d : dcel) : obs :=
  mkobs (length (d_verts d)) (length (d_flags d)) (length (d_faces d)) 0 0 0 false (d_verts d) (d_hedges d) (d_faces d) (d_flags d) [].

(* every (state, handle, positions) the insertion of position q can lead to *)
Definition insert_results (pts : list pnt) (fuel : nat) (d : dcel) (q : pnt) (v : vdata) : list (dcel * nat * list pnt) :=
  let p := obs_view d in
  let nv := nV p in
  if nF p <=? 1 then
    flat_map (fun loc =>
      let pts' := match loc with LOnVertex _ => pts | _ => pts ++ [q] end in
      let h := match loc with LOnVertex u => u | _ => nv end in
      match insert_line pts' fuel d loc v with Some d' => [(d', h, pts')] | None => [] end) (line_candidates p pts q)
  else
    flat_map (fun loc =>
      let pts' := match loc with IOnVertex _ => pts | _ => pts ++ [q] end in
      let h := match loc with IOnVertex u => u | _ => nv end in
      match insert_2d pts' fuel d loc v with Some d' => [(d', h, pts')] | None => [] end) (insert_candidates p pts q).

Definition check_adde_model (f32 : bool) (p n : obs) (args res : list Z) : list (tag * bool) :=
  match args, res with
  | [x1; y1; d1; x2; y2; d2], r0 :: rest =>
    if negb ((r0 =? K_ok)%Z || (r0 =? K_panic)%Z) then [] else
    match decode_points_e (coord_bits p ++ [x1; y1; x2; y2]) with
    | Some (allp, em) =>
      let pts := firstn (nV p) allp in
      match skipn (nV p) allp with
      | [q1; q2] =>
        if line_exact f32 allp em || line_monotone_safe f32 allp q1 q2 em then
          let dd := dcel_of_obs p in
          let dn := dcel_of_obs n in
          let fuel := (nH p + 12) * (nH p + 12) + 2 * nH p + nV p + 200 in
          let firsts := insert_results pts fuel dd q1 (mkvd x1 y1 d1) in
          [(T_corr, existsb (fun r1 => let '(da, h1, pts1) := r1 in
                      existsb (fun r2 => let '(db, h2, pts2) := r2 in
                        match try_add_constraint_inner pts2 fuel db h1 h2 with
                        | Some Refused => (r0 =? K_panic)%Z && dcel_eqb db dn
                        | Some (Added d' nc _) => (r0 =? K_ok)%Z && dcel_eqb d' dn && list_eqb Z.eqb rest [if nc =? 0 then 0%Z else 1%Z]
                        | None => false
                        end) (insert_results pts1 fuel da q2 (mkvd x2 y2 d2))) firsts)]
        else []
      | _ => []
      end
    | None => []
    end
  | _, _ => []
  end.


(* ---- add_constraint_and_split (split va vb) against Tri/AddSplit.v (M8).  The model is run on the previous state; its outcomes are a list only
   because `insert` in the fallback routine starts point location at a vertex chosen by the hint generator (every start vertex is tried; the fast
   path has exactly one outcome).  Compared: all four tables (hence the position bit patterns and payloads of the new split vertices), the
   returned edge list, the change of num_constraints.  Calls that panic or hang (open known findings) are not compared. ---- *)
Definition split_fuel (p : obs) : nat := let h := 4 * nH p + 24 in h * h + 2 * h + nV p + 200.
Definition check_split_model (f32 : bool) (p n : obs) (args res : list Z) : list (tag * bool) :=
  match args, counted res with
  | [va; vb], Some got =>
      let dd := dcel_of_obs p in
      let dn := dcel_of_obs n in
      match split_outcomes f32 888000 (split_fuel p) (fun d => seq 0 (Raw.num_vertices d)) dd (Z.to_nat va) (Z.to_nat vb) with
      | Some outs =>
          [(T_corr, existsb (fun o => let '(d', nc, edges) := o in
                                      dcel_eqb d' dn && list_eqb Nat.eqb edges got && (Z.of_nat (o_nc n) =? Z.of_nat (o_nc p) + nc)%Z) outs)]
      | None => [(T_corr, false)]
      end
  | _, _ => []
  end.

(* ---- rectangle / circle queries (flood fill): the result list must be the model's list, element for element.  For the vertex queries the
   first `initial` elements (the origins of the start edges, yielded in the iteration order of a HashSet) are compared as a set. ---- *)
Definition set_eqb (a b : list nat) : bool := (length a =? length b) && forallb (fun x => memb x b) a && forallb (fun x => memb x a) b.
Definition flood_result_eqb (edges : bool) (model initial : option (list nat)) (got : list nat) : bool :=
  match model with
  | Some l =>
      if edges then list_eqb Nat.eqb l got
      else match initial with
           | Some ini => let k := length ini in
                         set_eqb (firstn k got) ini && list_eqb Nat.eqb (skipn k l) (skipn k got) && (length l =? length got)
           | None => false
           end
  | None => false
  end.
(* inputs on which every sum, difference and product of the metrics is computed without rounding (integers below 2^23, f32: 2^9, on a common
   scale 2^em; the centre of a rectangle needs one more bit) and the quotients are compared with 0 and 1 only *)
Definition flood_exact (f32 : bool) (allp : list pnt) (em : Z) : bool :=
  let bound := if f32 then 512%Z else 8388608%Z in
  let emlo := if f32 then (-50)%Z else (-400)%Z in
  forallb (fun p => (Z.abs (fst p) <? bound)%Z && (Z.abs (snd p) <? bound)%Z) allp && (emlo <=? em)%Z.
Definition lres_eqb (a b : lres) : bool :=
  match a, b with
  | ROnVertex x, ROnVertex y | ROnEdge x, ROnEdge y | ROnFace x, ROnFace y | ROutside x, ROutside y => x =? y
  | RPanic, RPanic => true
  | _, _ => false
  end.
Fixpoint dedup_lres (l : list lres) : list lres :=
  match l with [] => [] | x :: t => if existsb (lres_eqb x) t then dedup_lres t else x :: dedup_lres t end.
(* the answers t.locate(c) can give: the locate model from every start vertex (the hint comes from the hint generator) *)
Definition flood_locs (p : obs) (pts : list pnt) (dd : dcel) (c : pnt) : list lres :=
  if nF p <=? 1 then [RPanic] else dedup_lres (map (fun v => locate_from_closest pts dd c v) (seq 0 (nV p))).
Definition double (q : pnt) : pnt := (2 * fst q, 2 * snd q)%Z.
Definition metric_agree_edges (dd : dcel) (m1 m2 : metric) : bool :=
  forallb (fun k => Bool.eqb (m_edge m1 k) (m_edge m2 k)) (seq 0 (Raw.num_undirected_edges dd)).
Definition metric_agree_points (dd : dcel) (m1 m2 : metric) : bool :=
  forallb (fun v => Bool.eqb (m_vert m1 v) (m_vert m2 v)) (seq 0 (Raw.num_vertices dd)) && Bool.eqb (m_start m1) (m_start m2).
Definition metric_agree (dd : dcel) (m1 m2 : metric) : bool := metric_agree_edges dd m1 m2 && metric_agree_points dd m1 m2.

Definition flood_verdict (dd : dcel) (m : metric) (edges : bool) (locs : list lres) (got : list nat) : bool :=
  let fuel := ff_fuel dd in
  existsb (fun loc => if edges then flood_result_eqb true (edges_in_shape dd m fuel loc) None got
                      else flood_result_eqb false (vertices_in_shape dd m fuel loc) (vertices_initial dd m loc) got) locs.

(* (1) the exact metrics of Query/FloodFill.v on inputs of the exact class; on these the IEEE metrics must give the same answers for every
   edge, every vertex and the start point (part of the verdict).  Exception: the floating-point distance from a circle's centre to the interior
   of an edge involves a rounded quotient; for the circle queries the comparison is made only when the exact and the IEEE metric agree on
   every edge (they differ at exact tangency and when the centre lies on an edge that is not axis-parallel). *)
Definition check_flood_exact (f32 : bool) (op : Z) (p : obs) (args : list Z) (got : list nat) (mf : option metric) : list (tag * bool) :=
  let dd := dcel_of_obs p in
  let edges := (op =? OP_erect)%Z || (op =? OP_ecirc)%Z in
  if (op =? OP_vrect)%Z || (op =? OP_erect)%Z then
    match with_points p args with
    | Some (pts0, [lo0; hi0], em) =>
        if flood_exact f32 (lo0 :: hi0 :: pts0) em then
          let pts := map double pts0 in let lo := double lo0 in let hi := double hi0 in
          let c := rect_center lo hi in
          let m := rect_metric pts dd lo hi c in
          [(T_corr, flood_verdict dd m edges (flood_locs p pts dd c) got &&
                    match mf with Some m' => metric_agree dd m m' | None => true end)]
        else []
    | _ => []
    end
  else
    match args with
    | [cx; cy; r2] =>
      match with_points p [cx; cy], decode r2 with
      | Some (pts, [c], em), Some (rm, re) =>
          let r2' := (rm, (re - 2 * em)%Z) in
          if flood_exact f32 (c :: pts) em && (0 <=? rm)%Z then
            let m := circle_metric pts dd c r2' in
            if match mf with Some m' => negb (metric_agree_edges dd m m') | None => false end then []
            else [(T_corr, flood_verdict dd m edges (flood_locs p pts dd c) got &&
                           match mf with Some m' => metric_agree_points dd m m' | None => true end)]
          else []
      | _, _ => []
      end
    | _ => []
    end.

(* (2) the IEEE metrics of Query/FloodFillFloat.v: every input.  The vertex positions and the start point are put on one integer scale for the
   locate model. *)
Section FloodFloat.
Variables prec emax : Z.
Variable Hp : FLX.Prec_gt_0 prec.
Variable Hm : BinarySingleNaN.Prec_lt_emax prec emax.
Definition ffl_metric (op : Z) (p : obs) (args : list Z) : option (metric * fpt prec emax) :=
  let dd := dcel_of_obs p in
  if (op =? OP_vrect)%Z || (op =? OP_erect)%Z then
    match args with
    | [x1; y1; x2; y2] =>
        let lo := fpoint prec emax Hp Hm x1 y1 in let hi := fpoint prec emax Hp Hm x2 y2 in
        Some (frect_metric prec emax Hp Hm dd lo hi, frect_center prec emax Hp Hm lo hi)
    | _ => None
    end
  else
    match args with
    | [cx; cy; r2] =>
        let c := fpoint prec emax Hp Hm cx cy in let r := of_f64 prec emax Hp Hm (Num.F64.f_of_bits r2) in
        if fcircle_radius_ok prec emax r then Some (fcircle_metric prec emax Hp Hm dd c r, c) else None
    | _ => None
    end.
Definition ffl_start (p : obs) (c : fpt prec emax) : option (list pnt * pnt) :=
  if negb (BinarySingleNaN.is_finite (fx prec emax c) && BinarySingleNaN.is_finite (fy prec emax c)) then None else
  match decode_all (coord_bits p) with
  | Some ds =>
      let all := ds ++ [normalize (dy_of prec emax (fx prec emax c)); normalize (dy_of prec emax (fy prec emax c))] in
      let em := emin_of all in
      let ps := pair_up (map (scale em) all) in
      match skipn (nV p) ps with
      | [q] => Some (firstn (nV p) ps, q)
      | _ => None
      end
  | None => None
  end.
Definition check_flood_float (op : Z) (p : obs) (args : list Z) (got : list nat) : list (tag * bool) :=
  let dd := dcel_of_obs p in
  let edges := (op =? OP_erect)%Z || (op =? OP_ecirc)%Z in
  match ffl_metric op p args with
  | Some (m, c) =>
      match ffl_start p c with
      | Some (pts, q) => [(T_corr, flood_verdict dd m edges (flood_locs p pts dd q) got)]
      | None => []
      end
  | None => []
  end.
End FloodFloat.

Definition check_flood_model (f32 : bool) (op : Z) (p : obs) (args res : list Z) : list (tag * bool) :=
  match counted res with
  | None => []
  | Some got =>
      let mf := if f32 then option_map fst (ffl_metric 24 128 Hprec32 Hmax32 op p args)
                else option_map fst (ffl_metric 53 1024 Num.F64.Hprec64 Num.F64.Hmax64 op p args) in
      (if f32 then check_flood_float 24 128 Hprec32 Hmax32 op p args got
       else check_flood_float 53 1024 Num.F64.Hprec64 Num.F64.Hmax64 op p args got)
      ++ check_flood_exact f32 op p args got mf
  end.


(* ---- M12: remove_constraint_edge (rmc), clear, clone, locate_vertex (locv), convex_hull() (hull) ---- *)
(* rmc E<k>: ConstrainedDelaunayTriangulation::remove_constraint_edge = Tri/Remove.v `remove_constraint_edge` (unflag + legalize_edge(edge, true));
   all four tables, the returned bool, num_constraints *)
Definition check_rmc_model (p n : obs) (args res : list Z) : list (tag * bool) :=
  match args, res with
  | [e], [r] =>
    if (e <? 0)%Z then [(T_parse, false)] else
    match obs_points p with
    | Some pts =>
        let dd := dcel_of_obs p in
        let dn := dcel_of_obs n in
        let fuel := nH p * nH p + 200 in
        match Remove.remove_constraint_edge pts fuel dd (Z.to_nat e) with
        | Some (d', b) => [(T_corr, dcel_eqb d' dn && (r =? (if b then 1 else 0))%Z && (o_nc n + (if b then 1 else 0) =? o_nc p))]
        | None => [(T_corr, false)]
        end
    | None => [(T_parse, false)]
    end
  | _, _ => []
  end.

(* clear: Dcel::clear (Tri/Remove.v `dcel_clear`) and num_constraints = 0;  clone: the identical state *)
Definition check_clear_model (p n : obs) : list (tag * bool) :=
  [(T_corr, dcel_eqb (dcel_clear (dcel_of_obs p)) (dcel_of_obs n) && (o_nc n =? 0))].
Definition check_clone_model (p n : obs) : list (tag * bool) :=
  [(T_corr, dcel_eqb (dcel_of_obs p) (dcel_of_obs n) && (o_nc n =? o_nc p))].

(* locate_vertex(x, y) = match self.locate(point) { OnVertex(v) => Some(v), _ => None }: through the locate models.  Two-dimensional states:
   Tri/Locate.v from some start vertex (the hint comes from the hint generator); degenerate states: Tri/LineIter.v `locate_degenerate`
   (deterministic). *)
Definition locv_matches (r : option lstart) (res : list Z) : bool :=
  match r, res with
  | Some (LsVertex v), [k; i] => (k =? K_some)%Z && (0 <=? i)%Z && (Z.to_nat i =? v)
  | Some (LsVertex _), _ => false
  | Some _, [k] => (k =? K_none)%Z
  | _, _ => false
  end.
Definition check_locv_model (p : obs) (x y : Z) (res : list Z) : list (tag * bool) :=
  match decode_points_e (coord_bits p ++ [x; y]) with
  | Some (allp, em) =>
      let pts := firstn (nV p) allp in
      match skipn (nV p) allp with
      | [q] =>
          let dd := dcel_of_obs p in
          if nF p <=? 1 then [(T_corr, locv_matches (locate_degenerate pts dd q) res)]
          else [(T_corr, existsb (fun c => locv_matches (lstart_of_lres (locate_from_closest pts dd q c)) res) (seq 0 (nV p)))]
      | _ => []
      end
  | None => []
  end.

(* hull: R <convex_hull_size()> <n> <convex_hull() ...> <m> <convex_hull().rev() ...>: the iterator models of Query/Hull.v (order-exact, both
   directions) and the GENERATED size formula (Gen/Sizes.v) *)
Definition check_hull_model (p : obs) (res : list Z) : list (tag * bool) :=
  match res with
  | hs :: n :: t =>
      let fwd := firstn (Z.to_nat n) t in
      match skipn (Z.to_nat n) t with
      | m :: bwd =>
          [(T_corr, (length fwd =? Z.to_nat n) && (length bwd =? Z.to_nat m) &&
                    (Z.to_nat hs =? Gen.Sizes.convex_hull_size (Query.Hull.sizes_of p)) && (0 <=? hs)%Z &&
                    match Query.Hull.hull_iter p with Some l => nat_list_eqb l fwd | None => false end &&
                    match Query.Hull.hull_iter_rev p with Some l => nat_list_eqb l bwd | None => false end)]
      | [] => [(T_parse, false)]
      end
  | _ => []
  end.

(* ---- refine, stage 1 (Refine/OuterModel.v): with exclude_outer_faces and max_additional_vertices = 0 no Steiner point is inserted, the DCEL is
   unchanged, refinement_complete is false (the budget is exhausted before the first iteration) and the returned excluded faces are the
   `outer_faces` set of calculate_outer_faces on the previous state, as a set (the iteration order of a HashSet is not observable). ---- *)
Definition check_refine_outer_model (p n : obs) (args res : list Z) : list (tag * bool) :=
  match args, res with
  | [_; _; _; maxv; _; excl], complete :: ne :: ex =>
      if (excl =? 1)%Z && (maxv =? 0)%Z then
        match calculate_outer_faces (dcel_of_obs p) with
        | Some l => [(T_corr, set_eqb l (map Z.to_nat ex) && (length ex =? Z.to_nat ne) && (complete =? 0)%Z
                              && dcel_eqb (dcel_of_obs p) (dcel_of_obs n))]
        | None => [(T_corr, false)]
        end
      else []
  | _, _ => []
  end.


(* ---- refine, stage 2 (Refine/RefineModel.v): the whole call.  The model is a function of the previous state and the parameters; compared:
   all four DCEL tables (hence the bit patterns of every Steiner point, the payloads, the constraint flags), the change of num_constraints,
   refinement_complete, and the excluded faces as a set.  A run in which a `nearest_power_of_two` decision fell into the narrow zone where the
   platform's log2 decides (RefineFloat.round_log2) is not compared. ---- *)
Section RefineCheck.
Variables prec emax : Z.
Variable Hp : FLX.Prec_gt_0 prec.
Variable Hm : BinarySingleNaN.Prec_lt_emax prec emax.
Definition refine_params (args : list Z) : option (rparams prec emax) :=
  match args with
  | [ratio; mina; maxa; maxv; keep; excl] =>
      let area (a : Z) := if (a =? K_dash)%Z then None else Some (of_f64 prec emax Hp Hm (Num.F64.f_of_bits a)) in
      Some (mkrp prec emax
                 (if (ratio =? K_dash)%Z then Num.F64.f_of_bits 4607182418800017408 else Num.F64.f_of_bits ratio)
                 (area mina) (area maxa)
                 (if (maxv =? K_dash)%Z then None else Some (Z.to_nat maxv))
                 (keep =? 1)%Z (excl =? 1)%Z)
  | _ => None
  end.
Definition check_refine_model_at (p n : obs) (args res : list Z) : list (tag * bool) :=
  match refine_params args, res with
  | Some P, complete :: ne :: ex =>
      let dd := dcel_of_obs p in
      let additional := match rp_max_additional _ _ P with Some m => m | None => nV p * 10 end in
      let lfuel := 64 * (nH p + 6 * additional + 12) + 1000 in
      let mfuel := 200 * (additional + 5) + 10 * nH p + 1000 in
      match refine_model prec emax Hp Hm P lfuel mfuel dd with
      | Some r =>
          if rr_uncertain r then []
          else [(T_corr, dcel_eqb (rr_d r) (dcel_of_obs n) && (o_nc n =? o_nc p + rr_nc r)
                         && Bool.eqb (rr_complete r) (complete =? 1)%Z
                         && set_eqb (rr_excluded r) (map Z.to_nat ex) && (length ex =? Z.to_nat ne))]
      | None => [(T_corr, false)]
      end
  | _, _ => []
  end.
End RefineCheck.
Definition check_refine_model (f32 : bool) (p n : obs) (args res : list Z) : list (tag * bool) :=
  if f32 then check_refine_model_at 24 128 Hprec32 Hmax32 p n args res
  else check_refine_model_at 53 1024 Num.F64.Hprec64 Num.F64.Hmax64 p n args res.



Fixpoint run_model_steps (c : cfg) (p : obs) (k : nat) (l : list step) : list verdict :=
  match l with
  | [] => []
  | st :: t =>
    match s_obs st with
    | None =>
        (if negb (existsb (Z.eqb K_skip) (s_res st) || existsb (Z.eqb K_panic) (s_res st) || existsb (Z.eqb K_hang) (s_res st)) then
           (if (s_op st =? OP_loch)%Z then
              match s_args st with [x; y; h] => map (fun v => (k, fst v, snd v)) (check_locate_model p x y (Some h) (s_res st)) | _ => [] end
            else if (s_op st =? OP_loc)%Z then
              match s_args st with [x; y] => map (fun v => (k, fst v, snd v)) (check_locate_model p x y None (s_res st)) | _ => [] end
            else if (s_op st =? OP_nn)%Z then
              match s_args st with [x; y] => map (fun v => (k, fst v, snd v)) (check_nn_model p x y (s_res st)) | _ => [] end
            else if (s_op st =? OP_line)%Z then map (fun v => (k, fst v, snd v)) (check_line_model (c_f32 c) false p (s_args st) (s_res st))
            else if (s_op st =? OP_lineh)%Z then map (fun v => (k, fst v, snd v)) (check_line_model (c_f32 c) true p (s_args st) (s_res st))
            else if (s_op st =? OP_confv)%Z || (s_op st =? OP_confp)%Z || (s_op st =? OP_isc)%Z then
              map (fun v => (k, fst v, snd v)) (check_conf_model (c_f32 c) (s_op st) p (s_args st) (s_res st))
            else if (s_op st =? OP_canc)%Z then map (fun v => (k, fst v, snd v)) (check_canc_model (c_f32 c) p (s_args st) (s_res st))
            else if (s_op st =? OP_vrect)%Z || (s_op st =? OP_erect)%Z || (s_op st =? OP_vcirc)%Z || (s_op st =? OP_ecirc)%Z then
              map (fun v => (k, fst v, snd v)) (check_flood_model (c_f32 c) (s_op st) p (s_args st) (s_res st))
            else if (s_op st =? OP_locv)%Z then
              match s_args st with [x; y] => map (fun v => (k, fst v, snd v)) (check_locv_model p x y (s_res st)) | _ => [] end
            else if (s_op st =? OP_hull)%Z then map (fun v => (k, fst v, snd v)) (check_hull_model p (s_res st))
            else if (s_op st =? OP_nnw)%Z then map (fun v => (k, fst v, snd v)) (check_weights_model c p true (s_args st) (s_res st))
            else if (s_op st =? OP_bary)%Z then map (fun v => (k, fst v, snd v)) (check_weights_model c p false (s_args st) (s_res st))
            else [])
         else [])
        ++ run_model_steps c p (S k) t
    | Some raw =>
      match parse_obs raw with
      | None => [(k, T_parse, false)]
      | Some n =>
        (if ((s_op st =? OP_addc)%Z || (s_op st =? OP_tryc)%Z) && negb (existsb (Z.eqb K_skip) (s_res st) || existsb (Z.eqb K_hang) (s_res st))
         then map (fun v => (k, fst v, snd v)) (check_addc_model (c_f32 c) (s_op st) p n (s_args st) (s_res st))
         else if (s_op st =? OP_split)%Z && negb (existsb (Z.eqb K_skip) (s_res st) || existsb (Z.eqb K_panic) (s_res st) || existsb (Z.eqb K_hang) (s_res st))
         then map (fun v => (k, fst v, snd v)) (check_split_model (c_f32 c) p n (s_args st) (s_res st))
         else if (s_op st =? OP_adde)%Z && negb (existsb (Z.eqb K_skip) (s_res st) || existsb (Z.eqb K_hang) (s_res st))
         then map (fun v => (k, fst v, snd v)) (check_adde_model (c_f32 c) p n (s_args st) (s_res st))
         else if (s_op st =? OP_prim)%Z && negb (existsb (Z.eqb K_skip) (s_res st) || existsb (Z.eqb K_panic) (s_res st) || existsb (Z.eqb K_hang) (s_res st))
         then map (fun v => (k, fst v, snd v)) (check_prim p n (s_args st) (s_res st))
         else if ((s_op st =? OP_ins)%Z || (s_op st =? OP_insh)%Z) && negb (existsb (Z.eqb K_skip) (s_res st) || existsb (Z.eqb K_panic) (s_res st) || existsb (Z.eqb K_hang) (s_res st))
         then match s_args st with
              | x :: y :: d :: _ => map (fun v => (k, fst v, snd v)) (check_insert_model p n x y d (s_res st))
              | _ => []
              end
         else if ((s_op st =? OP_rm)%Z || (s_op st =? OP_trm)%Z) && negb (existsb (Z.eqb K_skip) (s_res st) || existsb (Z.eqb K_panic) (s_res st) || existsb (Z.eqb K_hang) (s_res st))
         then match s_args st with
              | v :: _ => map (fun r => (k, fst r, snd r)) (check_remove_model (c_cdt c) p n v (s_res st))
              | _ => []
              end
         else if (s_op st =? OP_rmc)%Z && negb (existsb (Z.eqb K_skip) (s_res st) || existsb (Z.eqb K_panic) (s_res st) || existsb (Z.eqb K_hang) (s_res st))
         then map (fun r => (k, fst r, snd r)) (check_rmc_model p n (s_args st) (s_res st))
         else if (s_op st =? OP_clear)%Z && negb (existsb (Z.eqb K_skip) (s_res st) || existsb (Z.eqb K_panic) (s_res st) || existsb (Z.eqb K_hang) (s_res st))
         then map (fun r => (k, fst r, snd r)) (check_clear_model p n)
         else if (s_op st =? OP_clone)%Z && negb (existsb (Z.eqb K_skip) (s_res st) || existsb (Z.eqb K_panic) (s_res st) || existsb (Z.eqb K_hang) (s_res st))
         then map (fun r => (k, fst r, snd r)) (check_clone_model p n)
         else if (s_op st =? OP_lrm)%Z && negb (existsb (Z.eqb K_skip) (s_res st) || existsb (Z.eqb K_panic) (s_res st) || existsb (Z.eqb K_hang) (s_res st))
         then match s_args st with
              | x :: y :: _ => map (fun r => (k, fst r, snd r)) (check_lrm_model (c_cdt c) p n x y (s_res st))
              | _ => []
              end
         else if (s_op st =? OP_refine)%Z && negb (existsb (Z.eqb K_skip) (s_res st) || existsb (Z.eqb K_panic) (s_res st) || existsb (Z.eqb K_hang) (s_res st))
         then map (fun r => (k, fst r, snd r)) (check_refine_outer_model p n (s_args st) (s_res st) ++ check_refine_model (c_f32 c) p n (s_args st) (s_res st))
         else [])
        ++ run_model_steps c n (S k) t
      end
    end
  end.

Definition run_model_case (c : cfg) (l : list step) : list verdict := run_model_steps c empty_obs 0 l.
