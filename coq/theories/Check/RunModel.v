(* Check/RunModel.v -- correspondence between the executable model and the implementation: the GENERATED DCEL
   primitives (Gen/DcelOps.v) and the hand-written legalize_edge model (Tri/Legalize.v) are run on the state the
   implementation was in, and the complete resulting DCEL (every table, index-exact) and the returned values are
   compared with what the implementation produced.  Extracted separately from Check/Run.v so that the specification
   checker keeps working when the translated model does not compile. *)
From Coq Require Import ZArith List Bool Arith.
From SpadeV Require Import Num.Decode Geom.Pred Obs.State Obs.Spec Vmap.Model Dcel.Raw Gen.DcelOps Tri.Legalize Check.Codes Check.Run.
Import ListNotations.

Definition dcel_eqb (a b : dcel) : bool :=
  list_eqb vrec_eqb (d_verts a) (d_verts b) && list_eqb hrec_eqb (d_hedges a) (d_hedges b) &&
  list_eqb opt_nat_eqb (d_faces a) (d_faces b) && list_eqb Bool.eqb (d_flags a) (d_flags b).

Definition nat_list_eqb (a : list nat) (b : list Z) : bool := list_eqb Z.eqb (map Z.of_nat a) b.

Definition check_prim (p n : obs) (args res : list Z) : list (tag * bool) :=
  let d := dcel_of_obs p in
  let dn := dcel_of_obs n in
  let ok (d' : dcel) (rets : list nat) := [(T_corr, dcel_eqb d' dn && nat_list_eqb rets res)] in
  match args with
  | code :: idx :: rest =>
    let i := Z.to_nat idx in
    let v := match rest with [x; y; dd] => mkvd x y dd | _ => mkvd 0 0 0 end in
    if (code =? K_flip)%Z then
      let '(d', _) := flip_cw d i in [(T_corr, dcel_eqb d' dn)]
    else if (code =? K_iit)%Z then let '(d', r) := insert_into_triangle d v i in ok d' [r]
    else if (code =? K_se)%Z then let '(d', (r, (e0, e1))) := split_edge d i v in ok d' [r; e0; e1]
    else if (code =? K_she)%Z then let '(d', (r, (e0, e1))) := split_half_edge d i v in ok d' [r; e0; e1]
    else if (code =? K_cnf)%Z then let '(d', r) := create_new_face_adjacent_to_edge d i v in ok d' [r]
    else if (code =? K_csf)%Z then let '(d', r) := create_single_face_between_edge_and_next d i in ok d' [r]
    else if (code =? K_ext)%Z then let '(d', r) := extend_line d i v in ok d' [r]
    else if (code =? K_sel)%Z then let '(d', ((e0, e1), r)) := split_edge_when_all_vertices_on_line d i v in ok d' [r; e0; e1]
    else if (code =? K_ifv)%Z then let '(d', r) := insert_first_vertex d v in ok d' [r]
    else if (code =? K_isv)%Z then let '(d', r) := insert_second_vertex d v in ok d' [r]
    else if (code =? K_leg)%Z || (code =? K_legf)%Z then
      match obs_points p with
      | Some pts =>
          let fuel := nH p * nH p + 100 in
          match legalize_edge pts fuel d i (code =? K_legf)%Z with
          | Some (d', fl) => [(T_corr, dcel_eqb d' dn && list_eqb Z.eqb [if fl then 1%Z else 0%Z] res)]
          | None => [(T_corr, false)]
          end
      | None => [(T_parse, false)]
      end
    else []
  | _ => []
  end.

Fixpoint run_model_steps (p : obs) (k : nat) (l : list step) : list verdict :=
  match l with
  | [] => []
  | st :: t =>
    match s_obs st with
    | None => run_model_steps p (S k) t
    | Some raw =>
      match parse_obs raw with
      | None => [(k, T_parse, false)]
      | Some n =>
        (if (s_op st =? OP_prim)%Z && negb (existsb (Z.eqb K_skip) (s_res st) || existsb (Z.eqb K_panic) (s_res st) || existsb (Z.eqb K_hang) (s_res st))
         then map (fun v => (k, fst v, snd v)) (check_prim p n (s_args st) (s_res st)) else [])
        ++ run_model_steps n (S k) t
      end
    end
  end.

Definition run_model_case (c : cfg) (l : list step) : list verdict := run_model_steps empty_obs 0 l.
