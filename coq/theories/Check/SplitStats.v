(* Check/SplitStats.v -- M8 reporting aid (not part of any verdict): classifies every `split va vb` operation of a case by what the model
   (Tri/AddSplit.v) sees on the state before the call: per call the list
     [ step; #crossed constraint edges (ConstraintEdgeSplit regions); #of these whose rounded position is an existing vertex (Err);
       #existing vertices passed strictly between the end points (Existing regions); #EdgeOverlap regions; #rotated free edges;
       fallback taken (0/1); #outcomes of the model; model agrees with the implementation (1/0; 2 = not compared: panic / hang / skip);
       #vertices added ].
   Extracted by tools/splitstats.sh into .cache/splitstats. *)
From Coq Require Import ZArith List Bool Arith.
From SpadeV Require Import Num.Decode Geom.Pred Obs.State Dcel.Raw Tri.Legalize Tri.AddConstraint Tri.AddSplit Check.Codes Check.Run Check.RunModel.
Import ListNotations.

Definition split_stats_one (f32 : bool) (k : nat) (p n : obs) (args res : list Z) : list (list Z) :=
  match args with
  | [va; vb] =>
      let dd := dcel_of_obs p in
      let a := Z.to_nat va in let b := Z.to_nat vb in
      match pts_of dd with
      | Some pts =>
        match get_conflict_resolutions_split f32 (split_fuel p) pts dd a b with
        | Some (regions, intact) =>
            let nsplit := length (filter (fun r => match snd r with SESplit _ _ => true | _ => false end) regions) in
            let nerr := length (filter (fun r => match snd r with SESplit (inr _) _ => true | _ => false end) regions) in
            let nex := length (filter (fun r => match snd r with SEExisting v => negb (v =? a) && negb (v =? b) | _ => false end) regions) in
            let nov := length (filter (fun r => match snd r with SEOverlap _ => true | _ => false end) regions) in
            let nrot := fold_left (fun acc r => acc + length (fst r)) regions 0 in
            let skipped := existsb (Z.eqb K_skip) res || existsb (Z.eqb K_panic) res || existsb (Z.eqb K_hang) res in
            let nouts := match split_outcomes f32 888000 (split_fuel p) (fun d => seq 0 (Raw.num_vertices d)) dd a b with
                         | Some outs => length outs | None => 0 end in
            let verdict := if skipped then 2%Z else
                           match check_split_model f32 p n args res with
                           | [(_, true)] => 1%Z | _ => 0%Z end in
            [[Z.of_nat k; Z.of_nat nsplit; Z.of_nat nerr; Z.of_nat nex; Z.of_nat nov; Z.of_nat nrot; if intact then 0%Z else 1%Z;
              Z.of_nat nouts; verdict; Z.of_nat (nV n - nV p)]]
        | None => [[Z.of_nat k; (-1)%Z]]
        end
      | None => [[Z.of_nat k; (-2)%Z]]
      end
  | _ => []
  end.

Fixpoint split_stats_steps (c : cfg) (p : obs) (k : nat) (l : list step) : list (list Z) :=
  match l with
  | [] => []
  | st :: t =>
    match s_obs st with
    | None => split_stats_steps c p (S k) t
    | Some raw =>
      match parse_obs raw with
      | None => []
      | Some n =>
        (if (s_op st =? OP_split)%Z && negb (existsb (Z.eqb K_skip) (s_res st)) then split_stats_one (c_f32 c) k p n (s_args st) (s_res st) else [])
        ++ split_stats_steps c n (S k) t
      end
    end
  end.

Definition split_stats_case (c : cfg) (l : list step) : list (list Z) := split_stats_steps c empty_obs 0 l.
