(* Dcel/Chain.v -- ORDER-INDEPENDENT evaluation of reads through a chain of Raw writes.

   The primitives of Gen/DcelOps.v are GENERATED as chains
       let dcel := set_next dcel a x in let dcel := set_prev dcel b y in ... (dcel, result)
   and the order of independent statements in such a chain is not stable: a maintainer may permute independent
   assignments of the Rust source.  The proofs about the primitives therefore never compare the chain with one
   fixed closed-form term by reflexivity / ordered rewriting.  They characterise the result POINTWISE

       half_edge d' x = ...     v_out_edge d' v = ...     f_adjacent d' f = ...     lengths, flags

   and every such read is evaluated by the tactics of this file, which peel the writes off the chain one at a
   time, whatever their order, with read-after-write lemmas:

       h_next (half_edge (set_prev d a x) b) = h_next (half_edge d b)                  (other field: always)
       h_next (half_edge (set_next d a x) a) = x                      when a < length  (same field, same index)
       h_next (half_edge (set_next d a x) b) = h_next (half_edge d b) when a <> b      (same field, other index)

   Index equality is decided syntactically, index disequality from the distinctness facts of the context
   (assumption, symmetry, and as a last resort lia after clearing the disequalities), range side conditions by
   normalising `length (d_hedges (chain))` and lia.

   Everything is prefixed ch_ : the Proofs*.v files have their own (older) lemma names. *)
From Coq Require Import ZArith List Bool Arith Lia.
From SpadeV Require Import Obs.State Vmap.Model Dcel.Raw.
Import ListNotations.

(* ------------------------------------------------------------------------------------------------ *)
(* lists *)

Lemma ch_snth_length : forall A i (x : A) l, length (set_nth i x l) = length l.
Proof. intros A i x l. revert i. induction l as [|h tl IH]; intros [|i]; cbn [set_nth length]; auto. Qed.

Lemma ch_snth_oob : forall A i (x : A) l, length l <= i -> set_nth i x l = l.
Proof.
  intros A i x l. revert i. induction l as [|h tl IH]; intros [|i] H; cbn [set_nth length] in *; auto.
  - lia.
  - f_equal. apply IH. lia.
Qed.

Lemma ch_nth_snth_same : forall A i (x : A) l dd, i < length l -> nth i (set_nth i x l) dd = x.
Proof.
  intros A i x l dd. revert i. induction l as [|h tl IH]; intros [|i] H; cbn [set_nth length nth] in *;
    try lia; auto.
  apply IH. lia.
Qed.

Lemma ch_nth_snth_other : forall A i j (x : A) l dd, i <> j -> nth j (set_nth i x l) dd = nth j l dd.
Proof.
  intros A i j x l dd. revert i j. induction l as [|h tl IH]; intros [|i] [|j] H; cbn [set_nth nth];
    auto; try congruence.
Qed.

(* ------------------------------------------------------------------------------------------------ *)
(* extensionality: a dcel is its four tables; a table is its length and its entries *)

Lemma ch_dcel_ext : forall d1 d2,
  d_verts d1 = d_verts d2 -> d_hedges d1 = d_hedges d2 -> d_faces d1 = d_faces d2 -> d_flags d1 = d_flags d2 ->
  d1 = d2.
Proof. intros [] []. cbn. intros -> -> -> ->. reflexivity. Qed.

Lemma ch_hedges_ext : forall d1 d2, length (d_hedges d1) = length (d_hedges d2) ->
  (forall x, x < length (d_hedges d2) -> half_edge d1 x = half_edge d2 x) -> d_hedges d1 = d_hedges d2.
Proof.
  intros d1 d2 L H. apply (nth_ext _ _ dflt_h dflt_h L). intros x Hx. rewrite L in Hx. apply (H x Hx).
Qed.

Lemma ch_verts_ext : forall d1 d2, length (d_verts d1) = length (d_verts d2) ->
  (forall x, x < length (d_verts d2) -> nth x (d_verts d1) dflt_v = nth x (d_verts d2) dflt_v) ->
  d_verts d1 = d_verts d2.
Proof.
  intros d1 d2 L H. apply (nth_ext _ _ dflt_v dflt_v L). intros x Hx. rewrite L in Hx. apply (H x Hx).
Qed.

Lemma ch_faces_ext : forall d1 d2, length (d_faces d1) = length (d_faces d2) ->
  (forall x, x < length (d_faces d2) -> f_adjacent d1 x = f_adjacent d2 x) -> d_faces d1 = d_faces d2.
Proof.
  intros d1 d2 L H. apply (nth_ext _ _ None None L). intros x Hx. rewrite L in Hx. apply (H x Hx).
Qed.

Lemma ch_hrec_ext : forall h k,
  h_next h = h_next k -> h_prev h = h_prev k -> h_face h = h_face k -> h_org h = h_org k -> h = k.
Proof. intros [] []. cbn. intros -> -> -> ->. reflexivity. Qed.

Lemma ch_hrec_ext4 : forall h a b c o,
  h_next h = a -> h_prev h = b -> h_face h = c -> h_org h = o -> h = mkh a b c o.
Proof. intros [] a b c o. cbn. intros -> -> -> ->. reflexivity. Qed.

Lemma ch_pair_eq : forall A B (a a' : A) (b b' : B), a = a' -> b = b' -> (a, b) = (a', b').
Proof. intros. subst. reflexivity. Qed.

(* the position / payload part of a vertex record: never changed by set_out_edge *)
Definition ch_vxyd (d : dcel) (v : nat) : Z * Z * Z :=
  (v_x (nth v (d_verts d) dflt_v), v_y (nth v (d_verts d) dflt_v), v_data (nth v (d_verts d) dflt_v)).

Lemma ch_vxyd_inv : forall d d' v w, ch_vxyd d' v = ch_vxyd d w ->
  let a := nth v (d_verts d') dflt_v in let b := nth w (d_verts d) dflt_v in
  v_x a = v_x b /\ v_y a = v_y b /\ v_data a = v_data b.
Proof. intros d d' v w H. unfold ch_vxyd in H. cbv zeta. inversion H. auto. Qed.

(* a vertex record is its position / payload and its out-edge *)
Lemma ch_vrec_ext : forall d v r,
  ch_vxyd d v = (v_x r, v_y r, v_data r) -> v_out_edge d v = v_out r -> nth v (d_verts d) dflt_v = r.
Proof.
  intros d v [x y z o]. unfold ch_vxyd, v_out_edge. destruct (nth v (d_verts d) dflt_v) as [x' y' z' o'].
  cbn. intros H1 H2. inversion H1. subst. reflexivity.
Qed.

(* ------------------------------------------------------------------------------------------------ *)
(* lengths of the four tables after one write (rewrite base ch_len) *)

Lemma ch_lenH_upd_h : forall d a f, length (d_hedges (upd_h d a f)) = length (d_hedges d).
Proof. intros. unfold upd_h. cbn [d_hedges]. apply ch_snth_length. Qed.
Lemma ch_lenH_set_next : forall d a x, length (d_hedges (set_next d a x)) = length (d_hedges d).
Proof. intros. apply ch_lenH_upd_h. Qed.
Lemma ch_lenH_set_prev : forall d a x, length (d_hedges (set_prev d a x)) = length (d_hedges d).
Proof. intros. apply ch_lenH_upd_h. Qed.
Lemma ch_lenH_set_face : forall d a x, length (d_hedges (set_face d a x)) = length (d_hedges d).
Proof. intros. apply ch_lenH_upd_h. Qed.
Lemma ch_lenH_set_origin : forall d a x, length (d_hedges (set_origin d a x)) = length (d_hedges d).
Proof. intros. apply ch_lenH_upd_h. Qed.
Lemma ch_lenH_set_half_edge : forall d a h, length (d_hedges (set_half_edge d a h)) = length (d_hedges d).
Proof. intros. apply ch_lenH_upd_h. Qed.
Lemma ch_lenH_set_out_edge : forall d v o, length (d_hedges (set_out_edge d v o)) = length (d_hedges d).
Proof. reflexivity. Qed.
Lemma ch_lenH_set_adjacent_edge : forall d f o, length (d_hedges (set_adjacent_edge d f o)) = length (d_hedges d).
Proof. reflexivity. Qed.
Lemma ch_lenH_push_face : forall d o, length (d_hedges (push_face d o)) = length (d_hedges d).
Proof. reflexivity. Qed.
Lemma ch_lenH_push_vertex : forall d v o, length (d_hedges (push_vertex d v o)) = length (d_hedges d).
Proof. reflexivity. Qed.
Lemma ch_lenH_push_edge : forall d h0 h1, length (d_hedges (push_edge d h0 h1)) = length (d_hedges d) + 2.
Proof. intros. unfold push_edge. cbn [d_hedges]. rewrite app_length. reflexivity. Qed.

Lemma ch_lenV_upd_h : forall d a f, length (d_verts (upd_h d a f)) = length (d_verts d).
Proof. reflexivity. Qed.
Lemma ch_lenV_set_next : forall d a x, length (d_verts (set_next d a x)) = length (d_verts d).
Proof. reflexivity. Qed.
Lemma ch_lenV_set_prev : forall d a x, length (d_verts (set_prev d a x)) = length (d_verts d).
Proof. reflexivity. Qed.
Lemma ch_lenV_set_face : forall d a x, length (d_verts (set_face d a x)) = length (d_verts d).
Proof. reflexivity. Qed.
Lemma ch_lenV_set_origin : forall d a x, length (d_verts (set_origin d a x)) = length (d_verts d).
Proof. reflexivity. Qed.
Lemma ch_lenV_set_half_edge : forall d a h, length (d_verts (set_half_edge d a h)) = length (d_verts d).
Proof. reflexivity. Qed.
Lemma ch_lenV_set_out_edge : forall d v o, length (d_verts (set_out_edge d v o)) = length (d_verts d).
Proof. intros. unfold set_out_edge. cbn [d_verts]. apply ch_snth_length. Qed.
Lemma ch_lenV_set_adjacent_edge : forall d f o, length (d_verts (set_adjacent_edge d f o)) = length (d_verts d).
Proof. reflexivity. Qed.
Lemma ch_lenV_push_face : forall d o, length (d_verts (push_face d o)) = length (d_verts d).
Proof. reflexivity. Qed.
Lemma ch_lenV_push_edge : forall d h0 h1, length (d_verts (push_edge d h0 h1)) = length (d_verts d).
Proof. reflexivity. Qed.
Lemma ch_lenV_push_vertex : forall d v o, length (d_verts (push_vertex d v o)) = length (d_verts d) + 1.
Proof. intros. unfold push_vertex. cbn [d_verts]. rewrite app_length. reflexivity. Qed.

Lemma ch_lenF_upd_h : forall d a f, length (d_faces (upd_h d a f)) = length (d_faces d).
Proof. reflexivity. Qed.
Lemma ch_lenF_set_next : forall d a x, length (d_faces (set_next d a x)) = length (d_faces d).
Proof. reflexivity. Qed.
Lemma ch_lenF_set_prev : forall d a x, length (d_faces (set_prev d a x)) = length (d_faces d).
Proof. reflexivity. Qed.
Lemma ch_lenF_set_face : forall d a x, length (d_faces (set_face d a x)) = length (d_faces d).
Proof. reflexivity. Qed.
Lemma ch_lenF_set_origin : forall d a x, length (d_faces (set_origin d a x)) = length (d_faces d).
Proof. reflexivity. Qed.
Lemma ch_lenF_set_half_edge : forall d a h, length (d_faces (set_half_edge d a h)) = length (d_faces d).
Proof. reflexivity. Qed.
Lemma ch_lenF_set_out_edge : forall d v o, length (d_faces (set_out_edge d v o)) = length (d_faces d).
Proof. reflexivity. Qed.
Lemma ch_lenF_set_adjacent_edge : forall d f o, length (d_faces (set_adjacent_edge d f o)) = length (d_faces d).
Proof. intros. unfold set_adjacent_edge. cbn [d_faces]. apply ch_snth_length. Qed.
Lemma ch_lenF_push_edge : forall d h0 h1, length (d_faces (push_edge d h0 h1)) = length (d_faces d).
Proof. reflexivity. Qed.
Lemma ch_lenF_push_vertex : forall d v o, length (d_faces (push_vertex d v o)) = length (d_faces d).
Proof. reflexivity. Qed.
Lemma ch_lenF_push_face : forall d o, length (d_faces (push_face d o)) = length (d_faces d) + 1.
Proof. intros. unfold push_face. cbn [d_faces]. rewrite app_length. reflexivity. Qed.

Lemma ch_flags_upd_h : forall d a f, d_flags (upd_h d a f) = d_flags d.
Proof. reflexivity. Qed.
Lemma ch_flags_set_next : forall d a x, d_flags (set_next d a x) = d_flags d.
Proof. reflexivity. Qed.
Lemma ch_flags_set_prev : forall d a x, d_flags (set_prev d a x) = d_flags d.
Proof. reflexivity. Qed.
Lemma ch_flags_set_face : forall d a x, d_flags (set_face d a x) = d_flags d.
Proof. reflexivity. Qed.
Lemma ch_flags_set_origin : forall d a x, d_flags (set_origin d a x) = d_flags d.
Proof. reflexivity. Qed.
Lemma ch_flags_set_half_edge : forall d a h, d_flags (set_half_edge d a h) = d_flags d.
Proof. reflexivity. Qed.
Lemma ch_flags_set_out_edge : forall d v o, d_flags (set_out_edge d v o) = d_flags d.
Proof. reflexivity. Qed.
Lemma ch_flags_set_adjacent_edge : forall d f o, d_flags (set_adjacent_edge d f o) = d_flags d.
Proof. reflexivity. Qed.
Lemma ch_flags_push_face : forall d o, d_flags (push_face d o) = d_flags d.
Proof. reflexivity. Qed.
Lemma ch_flags_push_vertex : forall d v o, d_flags (push_vertex d v o) = d_flags d.
Proof. reflexivity. Qed.
Lemma ch_flags_push_edge : forall d h0 h1, d_flags (push_edge d h0 h1) = d_flags d ++ [false].
Proof. reflexivity. Qed.

#[export] Hint Rewrite
  ch_lenH_set_next ch_lenH_set_prev ch_lenH_set_face ch_lenH_set_origin ch_lenH_set_half_edge ch_lenH_upd_h
  ch_lenH_set_out_edge ch_lenH_set_adjacent_edge ch_lenH_push_face ch_lenH_push_vertex ch_lenH_push_edge
  ch_lenV_set_next ch_lenV_set_prev ch_lenV_set_face ch_lenV_set_origin ch_lenV_set_half_edge ch_lenV_upd_h
  ch_lenV_set_out_edge ch_lenV_set_adjacent_edge ch_lenV_push_face ch_lenV_push_edge ch_lenV_push_vertex
  ch_lenF_set_next ch_lenF_set_prev ch_lenF_set_face ch_lenF_set_origin ch_lenF_set_half_edge ch_lenF_upd_h
  ch_lenF_set_out_edge ch_lenF_set_adjacent_edge ch_lenF_push_edge ch_lenF_push_vertex ch_lenF_push_face
  ch_flags_set_next ch_flags_set_prev ch_flags_set_face ch_flags_set_origin ch_flags_set_half_edge ch_flags_upd_h
  ch_flags_set_out_edge ch_flags_set_adjacent_edge ch_flags_push_face ch_flags_push_vertex ch_flags_push_edge
  : ch_len.

(* lengths of the tables of a chain, pushed down to the tables of its base dcel (any order of the writes) *)
Ltac ch_len_slow := autorewrite with ch_len.
Ltac ch_len_in H := autorewrite with ch_len in H.

(* the same, directed by the syntax of the chain (linear in its length; autorewrite tries every lemma of the base
   at every layer).  ch_lenX_solve proves `length (d_X D) = ?m`, instantiating ?m with the normal form. *)
Lemma ch_plus_cong : forall x y m k : nat, x = y + k -> y = m -> x = m + k.
Proof. intros. subst. reflexivity. Qed.

Ltac ch_lenH_solve :=
  lazymatch goal with
  | |- length (d_hedges (set_next ?d ?a ?x)) = _ => refine (eq_trans (ch_lenH_set_next d a x) _); ch_lenH_solve
  | |- length (d_hedges (set_prev ?d ?a ?x)) = _ => refine (eq_trans (ch_lenH_set_prev d a x) _); ch_lenH_solve
  | |- length (d_hedges (set_face ?d ?a ?x)) = _ => refine (eq_trans (ch_lenH_set_face d a x) _); ch_lenH_solve
  | |- length (d_hedges (set_origin ?d ?a ?x)) = _ => refine (eq_trans (ch_lenH_set_origin d a x) _); ch_lenH_solve
  | |- length (d_hedges (set_half_edge ?d ?a ?x)) = _ => refine (eq_trans (ch_lenH_set_half_edge d a x) _); ch_lenH_solve
  | |- length (d_hedges (upd_h ?d ?a ?x)) = _ => refine (eq_trans (ch_lenH_upd_h d a x) _); ch_lenH_solve
  | |- length (d_hedges (set_out_edge ?d ?a ?x)) = _ => refine (eq_trans (ch_lenH_set_out_edge d a x) _); ch_lenH_solve
  | |- length (d_hedges (set_adjacent_edge ?d ?a ?x)) = _ => refine (eq_trans (ch_lenH_set_adjacent_edge d a x) _); ch_lenH_solve
  | |- length (d_hedges (push_face ?d ?a)) = _ => refine (eq_trans (ch_lenH_push_face d a) _); ch_lenH_solve
  | |- length (d_hedges (push_vertex ?d ?a ?x)) = _ => refine (eq_trans (ch_lenH_push_vertex d a x) _); ch_lenH_solve
  | |- length (d_hedges (push_edge ?d ?a ?x)) = _ => refine (ch_plus_cong _ _ _ _ (ch_lenH_push_edge d a x) _); ch_lenH_solve
  | |- _ => reflexivity
  end.

Ltac ch_lenV_solve :=
  lazymatch goal with
  | |- length (d_verts (set_next ?d ?a ?x)) = _ => refine (eq_trans (ch_lenV_set_next d a x) _); ch_lenV_solve
  | |- length (d_verts (set_prev ?d ?a ?x)) = _ => refine (eq_trans (ch_lenV_set_prev d a x) _); ch_lenV_solve
  | |- length (d_verts (set_face ?d ?a ?x)) = _ => refine (eq_trans (ch_lenV_set_face d a x) _); ch_lenV_solve
  | |- length (d_verts (set_origin ?d ?a ?x)) = _ => refine (eq_trans (ch_lenV_set_origin d a x) _); ch_lenV_solve
  | |- length (d_verts (set_half_edge ?d ?a ?x)) = _ => refine (eq_trans (ch_lenV_set_half_edge d a x) _); ch_lenV_solve
  | |- length (d_verts (upd_h ?d ?a ?x)) = _ => refine (eq_trans (ch_lenV_upd_h d a x) _); ch_lenV_solve
  | |- length (d_verts (set_out_edge ?d ?a ?x)) = _ => refine (eq_trans (ch_lenV_set_out_edge d a x) _); ch_lenV_solve
  | |- length (d_verts (set_adjacent_edge ?d ?a ?x)) = _ => refine (eq_trans (ch_lenV_set_adjacent_edge d a x) _); ch_lenV_solve
  | |- length (d_verts (push_face ?d ?a)) = _ => refine (eq_trans (ch_lenV_push_face d a) _); ch_lenV_solve
  | |- length (d_verts (push_edge ?d ?a ?x)) = _ => refine (eq_trans (ch_lenV_push_edge d a x) _); ch_lenV_solve
  | |- length (d_verts (push_vertex ?d ?a ?x)) = _ => refine (ch_plus_cong _ _ _ _ (ch_lenV_push_vertex d a x) _); ch_lenV_solve
  | |- _ => reflexivity
  end.

Ltac ch_lenF_solve :=
  lazymatch goal with
  | |- length (d_faces (set_next ?d ?a ?x)) = _ => refine (eq_trans (ch_lenF_set_next d a x) _); ch_lenF_solve
  | |- length (d_faces (set_prev ?d ?a ?x)) = _ => refine (eq_trans (ch_lenF_set_prev d a x) _); ch_lenF_solve
  | |- length (d_faces (set_face ?d ?a ?x)) = _ => refine (eq_trans (ch_lenF_set_face d a x) _); ch_lenF_solve
  | |- length (d_faces (set_origin ?d ?a ?x)) = _ => refine (eq_trans (ch_lenF_set_origin d a x) _); ch_lenF_solve
  | |- length (d_faces (set_half_edge ?d ?a ?x)) = _ => refine (eq_trans (ch_lenF_set_half_edge d a x) _); ch_lenF_solve
  | |- length (d_faces (upd_h ?d ?a ?x)) = _ => refine (eq_trans (ch_lenF_upd_h d a x) _); ch_lenF_solve
  | |- length (d_faces (set_out_edge ?d ?a ?x)) = _ => refine (eq_trans (ch_lenF_set_out_edge d a x) _); ch_lenF_solve
  | |- length (d_faces (set_adjacent_edge ?d ?a ?x)) = _ => refine (eq_trans (ch_lenF_set_adjacent_edge d a x) _); ch_lenF_solve
  | |- length (d_faces (push_edge ?d ?a ?x)) = _ => refine (eq_trans (ch_lenF_push_edge d a x) _); ch_lenF_solve
  | |- length (d_faces (push_vertex ?d ?a ?x)) = _ => refine (eq_trans (ch_lenF_push_vertex d a x) _); ch_lenF_solve
  | |- length (d_faces (push_face ?d ?a)) = _ => refine (ch_plus_cong _ _ _ _ (ch_lenF_push_face d a) _); ch_lenF_solve
  | |- _ => reflexivity
  end.

Ltac ch_is_write D :=
  lazymatch D with
  | set_next _ _ _ => idtac | set_prev _ _ _ => idtac | set_face _ _ _ => idtac | set_origin _ _ _ => idtac
  | set_half_edge _ _ _ => idtac | upd_h _ _ _ => idtac | set_out_edge _ _ _ => idtac
  | set_adjacent_edge _ _ _ => idtac | push_face _ _ => idtac | push_vertex _ _ _ => idtac | push_edge _ _ _ => idtac
  end.

Ltac ch_len :=
  repeat match goal with
  | |- context [length (d_hedges ?D)] =>
      ch_is_write D;
      let H := fresh "Hlen" in
      eassert (H : length (d_hedges D) = _) by ch_lenH_solve; rewrite H; clear H
  | |- context [length (d_verts ?D)] =>
      ch_is_write D;
      let H := fresh "Hlen" in
      eassert (H : length (d_verts D) = _) by ch_lenV_solve; rewrite H; clear H
  | |- context [length (d_faces ?D)] =>
      ch_is_write D;
      let H := fresh "Hlen" in
      eassert (H : length (d_faces D) = _) by ch_lenF_solve; rewrite H; clear H
  end.

(* the tables themselves: the flags are only ever extended (push_edge); the vertex and face tables are
   normalised down to the innermost in-place write (set_out_edge / set_adjacent_edge), if any *)
Lemma ch_verts_upd_h : forall d a f, d_verts (upd_h d a f) = d_verts d. Proof. reflexivity. Qed.
Lemma ch_verts_set_next : forall d a x, d_verts (set_next d a x) = d_verts d. Proof. reflexivity. Qed.
Lemma ch_verts_set_prev : forall d a x, d_verts (set_prev d a x) = d_verts d. Proof. reflexivity. Qed.
Lemma ch_verts_set_face : forall d a x, d_verts (set_face d a x) = d_verts d. Proof. reflexivity. Qed.
Lemma ch_verts_set_origin : forall d a x, d_verts (set_origin d a x) = d_verts d. Proof. reflexivity. Qed.
Lemma ch_verts_set_half_edge : forall d a h, d_verts (set_half_edge d a h) = d_verts d. Proof. reflexivity. Qed.
Lemma ch_verts_set_adjacent_edge : forall d f o, d_verts (set_adjacent_edge d f o) = d_verts d. Proof. reflexivity. Qed.
Lemma ch_verts_push_edge : forall d h0 h1, d_verts (push_edge d h0 h1) = d_verts d. Proof. reflexivity. Qed.
Lemma ch_verts_push_face : forall d o, d_verts (push_face d o) = d_verts d. Proof. reflexivity. Qed.
Lemma ch_verts_push_vertex : forall d v o,
  d_verts (push_vertex d v o) = d_verts d ++ [mkv (vd_x v) (vd_y v) (vd_d v) o].
Proof. reflexivity. Qed.

Lemma ch_faces_upd_h : forall d a f, d_faces (upd_h d a f) = d_faces d. Proof. reflexivity. Qed.
Lemma ch_faces_set_next : forall d a x, d_faces (set_next d a x) = d_faces d. Proof. reflexivity. Qed.
Lemma ch_faces_set_prev : forall d a x, d_faces (set_prev d a x) = d_faces d. Proof. reflexivity. Qed.
Lemma ch_faces_set_face : forall d a x, d_faces (set_face d a x) = d_faces d. Proof. reflexivity. Qed.
Lemma ch_faces_set_origin : forall d a x, d_faces (set_origin d a x) = d_faces d. Proof. reflexivity. Qed.
Lemma ch_faces_set_half_edge : forall d a h, d_faces (set_half_edge d a h) = d_faces d. Proof. reflexivity. Qed.
Lemma ch_faces_set_out_edge : forall d v o, d_faces (set_out_edge d v o) = d_faces d. Proof. reflexivity. Qed.
Lemma ch_faces_push_edge : forall d h0 h1, d_faces (push_edge d h0 h1) = d_faces d. Proof. reflexivity. Qed.
Lemma ch_faces_push_vertex : forall d v o, d_faces (push_vertex d v o) = d_faces d. Proof. reflexivity. Qed.
Lemma ch_faces_push_face : forall d o, d_faces (push_face d o) = d_faces d ++ [o]. Proof. reflexivity. Qed.

Lemma ch_app_cong : forall A (x y m k : list A), x = y ++ k -> y = m -> x = m ++ k.
Proof. intros. subst. reflexivity. Qed.

Ltac ch_flags_solve :=
  lazymatch goal with
  | |- d_flags (set_next ?d ?a ?x) = _ => refine (eq_trans (ch_flags_set_next d a x) _); ch_flags_solve
  | |- d_flags (set_prev ?d ?a ?x) = _ => refine (eq_trans (ch_flags_set_prev d a x) _); ch_flags_solve
  | |- d_flags (set_face ?d ?a ?x) = _ => refine (eq_trans (ch_flags_set_face d a x) _); ch_flags_solve
  | |- d_flags (set_origin ?d ?a ?x) = _ => refine (eq_trans (ch_flags_set_origin d a x) _); ch_flags_solve
  | |- d_flags (set_half_edge ?d ?a ?x) = _ => refine (eq_trans (ch_flags_set_half_edge d a x) _); ch_flags_solve
  | |- d_flags (upd_h ?d ?a ?x) = _ => refine (eq_trans (ch_flags_upd_h d a x) _); ch_flags_solve
  | |- d_flags (set_out_edge ?d ?a ?x) = _ => refine (eq_trans (ch_flags_set_out_edge d a x) _); ch_flags_solve
  | |- d_flags (set_adjacent_edge ?d ?a ?x) = _ => refine (eq_trans (ch_flags_set_adjacent_edge d a x) _); ch_flags_solve
  | |- d_flags (push_face ?d ?a) = _ => refine (eq_trans (ch_flags_push_face d a) _); ch_flags_solve
  | |- d_flags (push_vertex ?d ?a ?x) = _ => refine (eq_trans (ch_flags_push_vertex d a x) _); ch_flags_solve
  | |- d_flags (push_edge ?d ?a ?x) = _ => refine (ch_app_cong _ _ _ _ _ (ch_flags_push_edge d a x) _); ch_flags_solve
  | |- _ => reflexivity
  end.

Ltac ch_verts_solve :=
  lazymatch goal with
  | |- d_verts (set_next ?d ?a ?x) = _ => refine (eq_trans (ch_verts_set_next d a x) _); ch_verts_solve
  | |- d_verts (set_prev ?d ?a ?x) = _ => refine (eq_trans (ch_verts_set_prev d a x) _); ch_verts_solve
  | |- d_verts (set_face ?d ?a ?x) = _ => refine (eq_trans (ch_verts_set_face d a x) _); ch_verts_solve
  | |- d_verts (set_origin ?d ?a ?x) = _ => refine (eq_trans (ch_verts_set_origin d a x) _); ch_verts_solve
  | |- d_verts (set_half_edge ?d ?a ?x) = _ => refine (eq_trans (ch_verts_set_half_edge d a x) _); ch_verts_solve
  | |- d_verts (upd_h ?d ?a ?x) = _ => refine (eq_trans (ch_verts_upd_h d a x) _); ch_verts_solve
  | |- d_verts (set_adjacent_edge ?d ?a ?x) = _ => refine (eq_trans (ch_verts_set_adjacent_edge d a x) _); ch_verts_solve
  | |- d_verts (push_face ?d ?a) = _ => refine (eq_trans (ch_verts_push_face d a) _); ch_verts_solve
  | |- d_verts (push_edge ?d ?a ?x) = _ => refine (eq_trans (ch_verts_push_edge d a x) _); ch_verts_solve
  | |- d_verts (push_vertex ?d ?a ?x) = _ => refine (ch_app_cong _ _ _ _ _ (ch_verts_push_vertex d a x) _); ch_verts_solve
  | |- _ => reflexivity
  end.

Ltac ch_faces_solve :=
  lazymatch goal with
  | |- d_faces (set_next ?d ?a ?x) = _ => refine (eq_trans (ch_faces_set_next d a x) _); ch_faces_solve
  | |- d_faces (set_prev ?d ?a ?x) = _ => refine (eq_trans (ch_faces_set_prev d a x) _); ch_faces_solve
  | |- d_faces (set_face ?d ?a ?x) = _ => refine (eq_trans (ch_faces_set_face d a x) _); ch_faces_solve
  | |- d_faces (set_origin ?d ?a ?x) = _ => refine (eq_trans (ch_faces_set_origin d a x) _); ch_faces_solve
  | |- d_faces (set_half_edge ?d ?a ?x) = _ => refine (eq_trans (ch_faces_set_half_edge d a x) _); ch_faces_solve
  | |- d_faces (upd_h ?d ?a ?x) = _ => refine (eq_trans (ch_faces_upd_h d a x) _); ch_faces_solve
  | |- d_faces (set_out_edge ?d ?a ?x) = _ => refine (eq_trans (ch_faces_set_out_edge d a x) _); ch_faces_solve
  | |- d_faces (push_edge ?d ?a ?x) = _ => refine (eq_trans (ch_faces_push_edge d a x) _); ch_faces_solve
  | |- d_faces (push_vertex ?d ?a ?x) = _ => refine (eq_trans (ch_faces_push_vertex d a x) _); ch_faces_solve
  | |- d_faces (push_face ?d ?a) = _ => refine (ch_app_cong _ _ _ _ _ (ch_faces_push_face d a) _); ch_faces_solve
  | |- _ => reflexivity
  end.

(* normalise every `d_flags (chain)`, `d_verts (chain)`, `d_faces (chain)` of the goal *)
Ltac ch_tables :=
  repeat match goal with
  | |- context [d_flags ?D] =>
      ch_is_write D;
      let H := fresh "Htbl" in eassert (H : d_flags D = _) by ch_flags_solve; rewrite H; clear H
  | |- context [d_verts ?D] =>
      ch_is_write D; lazymatch D with set_out_edge _ _ _ => fail | _ => idtac end;
      let H := fresh "Htbl" in eassert (H : d_verts D = _) by ch_verts_solve; rewrite H; clear H
  | |- context [d_faces ?D] =>
      ch_is_write D; lazymatch D with set_adjacent_edge _ _ _ => fail | _ => idtac end;
      let H := fresh "Htbl" in eassert (H : d_faces D = _) by ch_faces_solve; rewrite H; clear H
  end.

(* ------------------------------------------------------------------------------------------------ *)
(* side conditions *)

(* lia is exponential in the number of disequality hypotheses, and range facts never need them *)
Ltac ch_clear_neq := repeat match goal with H : _ <> _ |- _ => clear H end.
Ltac ch_lia := solve [ch_clear_neq; lia].
(* a < length (d_hedges (chain)),  b = length (d_hedges (chain)) + k, ... *)
Ltac ch_rng := solve [ ch_len; first [assumption | ch_lia] ].
(* a <> b : from the distinctness facts of the context *)
Ltac ch_neq := solve [ assumption | apply not_eq_sym; assumption | ch_lia ].

(* ------------------------------------------------------------------------------------------------ *)
(* half-edge records: read-after-write *)

Lemma ch_he_upd_same : forall d a f, a < length (d_hedges d) -> half_edge (upd_h d a f) a = f (half_edge d a).
Proof. intros d a f H. unfold half_edge at 1, upd_h. cbn [d_hedges]. apply ch_nth_snth_same. exact H. Qed.
Lemma ch_he_upd_other : forall d a b f, a <> b -> half_edge (upd_h d a f) b = half_edge d b.
Proof. intros d a b f H. unfold half_edge at 1, upd_h. cbn [d_hedges]. apply ch_nth_snth_other. exact H. Qed.
Lemma ch_he_upd_oob : forall d a b f, length (d_hedges d) <= a -> half_edge (upd_h d a f) b = half_edge d b.
Proof. intros d a b f H. unfold half_edge at 1, upd_h. cbn [d_hedges]. rewrite ch_snth_oob by exact H. reflexivity. Qed.

(* writes to the other tables *)
Lemma ch_he_set_out_edge : forall d v o b, half_edge (set_out_edge d v o) b = half_edge d b.
Proof. reflexivity. Qed.
Lemma ch_he_set_adjacent_edge : forall d f o b, half_edge (set_adjacent_edge d f o) b = half_edge d b.
Proof. reflexivity. Qed.
Lemma ch_he_push_face : forall d o b, half_edge (push_face d o) b = half_edge d b.
Proof. reflexivity. Qed.
Lemma ch_he_push_vertex : forall d v o b, half_edge (push_vertex d v o) b = half_edge d b.
Proof. reflexivity. Qed.

(* push_edge *)
Lemma ch_he_push_edge_old : forall d h0 h1 b, b < length (d_hedges d) -> half_edge (push_edge d h0 h1) b = half_edge d b.
Proof. intros d h0 h1 b H. unfold half_edge, push_edge. cbn [d_hedges]. apply app_nth1. exact H. Qed.
Lemma ch_he_push_edge_new0 : forall d h0 h1 b, b = length (d_hedges d) -> half_edge (push_edge d h0 h1) b = h0.
Proof.
  intros d h0 h1 b ->. unfold half_edge, push_edge. cbn [d_hedges]. rewrite app_nth2, Nat.sub_diag by lia. reflexivity.
Qed.
Lemma ch_he_push_edge_new1 : forall d h0 h1 b, b = length (d_hedges d) + 1 -> half_edge (push_edge d h0 h1) b = h1.
Proof.
  intros d h0 h1 b ->. unfold half_edge, push_edge. cbn [d_hedges]. rewrite app_nth2 by lia.
  replace (length (d_hedges d) + 1 - length (d_hedges d)) with 1 by lia. reflexivity.
Qed.

(* set_half_edge *)
Lemma ch_he_set_half_edge_same : forall d a h, a < length (d_hedges d) -> half_edge (set_half_edge d a h) a = h.
Proof. intros. unfold set_half_edge. rewrite ch_he_upd_same by assumption. reflexivity. Qed.
Lemma ch_he_set_half_edge_other : forall d a b h, a <> b -> half_edge (set_half_edge d a h) b = half_edge d b.
Proof. intros. apply ch_he_upd_other. assumption. Qed.

(* whole record through a field setter at another index *)
Lemma ch_he_set_next_other : forall d a x b, a <> b -> half_edge (set_next d a x) b = half_edge d b.
Proof. intros. apply ch_he_upd_other. assumption. Qed.
Lemma ch_he_set_prev_other : forall d a x b, a <> b -> half_edge (set_prev d a x) b = half_edge d b.
Proof. intros. apply ch_he_upd_other. assumption. Qed.
Lemma ch_he_set_face_other : forall d a x b, a <> b -> half_edge (set_face d a x) b = half_edge d b.
Proof. intros. apply ch_he_upd_other. assumption. Qed.
Lemma ch_he_set_origin_other : forall d a x b, a <> b -> half_edge (set_origin d a x) b = half_edge d b.
Proof. intros. apply ch_he_upd_other. assumption. Qed.

(* a field is only changed by its own setter: the frame lemmas are unconditional *)
Ltac ch_upd_frame :=
  intros d a x b; unfold set_next, set_prev, set_face, set_origin;
  destruct (Nat.eq_dec a b) as [->|N];
  [ destruct (lt_dec b (length (d_hedges d))) as [L|L];
    [ rewrite ch_he_upd_same by exact L; reflexivity
    | rewrite ch_he_upd_oob by lia; reflexivity ]
  | rewrite ch_he_upd_other by exact N; reflexivity ].

Lemma ch_N_set_prev : forall d a x b, h_next (half_edge (set_prev d a x) b) = h_next (half_edge d b).
Proof. ch_upd_frame. Qed.
Lemma ch_N_set_face : forall d a x b, h_next (half_edge (set_face d a x) b) = h_next (half_edge d b).
Proof. ch_upd_frame. Qed.
Lemma ch_N_set_origin : forall d a x b, h_next (half_edge (set_origin d a x) b) = h_next (half_edge d b).
Proof. ch_upd_frame. Qed.
Lemma ch_P_set_next : forall d a x b, h_prev (half_edge (set_next d a x) b) = h_prev (half_edge d b).
Proof. ch_upd_frame. Qed.
Lemma ch_P_set_face : forall d a x b, h_prev (half_edge (set_face d a x) b) = h_prev (half_edge d b).
Proof. ch_upd_frame. Qed.
Lemma ch_P_set_origin : forall d a x b, h_prev (half_edge (set_origin d a x) b) = h_prev (half_edge d b).
Proof. ch_upd_frame. Qed.
Lemma ch_F_set_next : forall d a x b, h_face (half_edge (set_next d a x) b) = h_face (half_edge d b).
Proof. ch_upd_frame. Qed.
Lemma ch_F_set_prev : forall d a x b, h_face (half_edge (set_prev d a x) b) = h_face (half_edge d b).
Proof. ch_upd_frame. Qed.
Lemma ch_F_set_origin : forall d a x b, h_face (half_edge (set_origin d a x) b) = h_face (half_edge d b).
Proof. ch_upd_frame. Qed.
Lemma ch_O_set_next : forall d a x b, h_org (half_edge (set_next d a x) b) = h_org (half_edge d b).
Proof. ch_upd_frame. Qed.
Lemma ch_O_set_prev : forall d a x b, h_org (half_edge (set_prev d a x) b) = h_org (half_edge d b).
Proof. ch_upd_frame. Qed.
Lemma ch_O_set_face : forall d a x b, h_org (half_edge (set_face d a x) b) = h_org (half_edge d b).
Proof. ch_upd_frame. Qed.

Lemma ch_N_set_next_same : forall d a x, a < length (d_hedges d) -> h_next (half_edge (set_next d a x) a) = x.
Proof. intros. unfold set_next. rewrite ch_he_upd_same by assumption. reflexivity. Qed.
Lemma ch_P_set_prev_same : forall d a x, a < length (d_hedges d) -> h_prev (half_edge (set_prev d a x) a) = x.
Proof. intros. unfold set_prev. rewrite ch_he_upd_same by assumption. reflexivity. Qed.
Lemma ch_F_set_face_same : forall d a x, a < length (d_hedges d) -> h_face (half_edge (set_face d a x) a) = x.
Proof. intros. unfold set_face. rewrite ch_he_upd_same by assumption. reflexivity. Qed.
Lemma ch_O_set_origin_same : forall d a x, a < length (d_hedges d) -> h_org (half_edge (set_origin d a x) a) = x.
Proof. intros. unfold set_origin. rewrite ch_he_upd_same by assumption. reflexivity. Qed.

Lemma ch_N_set_next_other : forall d a x b, a <> b -> h_next (half_edge (set_next d a x) b) = h_next (half_edge d b).
Proof. intros. rewrite ch_he_set_next_other by assumption. reflexivity. Qed.
Lemma ch_P_set_prev_other : forall d a x b, a <> b -> h_prev (half_edge (set_prev d a x) b) = h_prev (half_edge d b).
Proof. intros. rewrite ch_he_set_prev_other by assumption. reflexivity. Qed.
Lemma ch_F_set_face_other : forall d a x b, a <> b -> h_face (half_edge (set_face d a x) b) = h_face (half_edge d b).
Proof. intros. rewrite ch_he_set_face_other by assumption. reflexivity. Qed.
Lemma ch_O_set_origin_other : forall d a x b, a <> b -> h_org (half_edge (set_origin d a x) b) = h_org (half_edge d b).
Proof. intros. rewrite ch_he_set_origin_other by assumption. reflexivity. Qed.

(* whole record through a field setter at the same index *)
Lemma ch_he_set_next_same : forall d a x, a < length (d_hedges d) ->
  half_edge (set_next d a x) a = mkh x (h_prev (half_edge d a)) (h_face (half_edge d a)) (h_org (half_edge d a)).
Proof. intros. unfold set_next. rewrite ch_he_upd_same by assumption. reflexivity. Qed.
Lemma ch_he_set_prev_same : forall d a x, a < length (d_hedges d) ->
  half_edge (set_prev d a x) a = mkh (h_next (half_edge d a)) x (h_face (half_edge d a)) (h_org (half_edge d a)).
Proof. intros. unfold set_prev. rewrite ch_he_upd_same by assumption. reflexivity. Qed.
Lemma ch_he_set_face_same : forall d a x, a < length (d_hedges d) ->
  half_edge (set_face d a x) a = mkh (h_next (half_edge d a)) (h_prev (half_edge d a)) x (h_org (half_edge d a)).
Proof. intros. unfold set_face. rewrite ch_he_upd_same by assumption. reflexivity. Qed.
Lemma ch_he_set_origin_same : forall d a x, a < length (d_hedges d) ->
  half_edge (set_origin d a x) a = mkh (h_next (half_edge d a)) (h_prev (half_edge d a)) (h_face (half_edge d a)) x.
Proof. intros. unfold set_origin. rewrite ch_he_upd_same by assumption. reflexivity. Qed.

(* ------------------------------------------------------------------------------------------------ *)
(* vertex table *)

Lemma ch_vout_upd_h : forall d a f v, v_out_edge (upd_h d a f) v = v_out_edge d v.
Proof. reflexivity. Qed.
Lemma ch_vout_set_next : forall d a x v, v_out_edge (set_next d a x) v = v_out_edge d v.
Proof. reflexivity. Qed.
Lemma ch_vout_set_prev : forall d a x v, v_out_edge (set_prev d a x) v = v_out_edge d v.
Proof. reflexivity. Qed.
Lemma ch_vout_set_face : forall d a x v, v_out_edge (set_face d a x) v = v_out_edge d v.
Proof. reflexivity. Qed.
Lemma ch_vout_set_origin : forall d a x v, v_out_edge (set_origin d a x) v = v_out_edge d v.
Proof. reflexivity. Qed.
Lemma ch_vout_set_half_edge : forall d a h v, v_out_edge (set_half_edge d a h) v = v_out_edge d v.
Proof. reflexivity. Qed.
Lemma ch_vout_set_adjacent_edge : forall d f o v, v_out_edge (set_adjacent_edge d f o) v = v_out_edge d v.
Proof. reflexivity. Qed.
Lemma ch_vout_push_edge : forall d h0 h1 v, v_out_edge (push_edge d h0 h1) v = v_out_edge d v.
Proof. reflexivity. Qed.
Lemma ch_vout_push_face : forall d o v, v_out_edge (push_face d o) v = v_out_edge d v.
Proof. reflexivity. Qed.
Lemma ch_vout_set_out_edge_same : forall d v o, v < length (d_verts d) -> v_out_edge (set_out_edge d v o) v = o.
Proof.
  intros d v o H. unfold v_out_edge, set_out_edge. cbn [d_verts]. rewrite ch_nth_snth_same by exact H. reflexivity.
Qed.
Lemma ch_vout_set_out_edge_other : forall d v w o, v <> w -> v_out_edge (set_out_edge d v o) w = v_out_edge d w.
Proof.
  intros d v w o H. unfold v_out_edge, set_out_edge. cbn [d_verts]. rewrite ch_nth_snth_other by exact H. reflexivity.
Qed.
Lemma ch_vout_push_vertex_old : forall d vd o w, w < length (d_verts d) -> v_out_edge (push_vertex d vd o) w = v_out_edge d w.
Proof. intros d vd o w H. unfold v_out_edge, push_vertex. cbn [d_verts]. rewrite app_nth1 by exact H. reflexivity. Qed.
Lemma ch_vout_push_vertex_new : forall d vd o w, w = length (d_verts d) -> v_out_edge (push_vertex d vd o) w = o.
Proof.
  intros d vd o w ->. unfold v_out_edge, push_vertex. cbn [d_verts]. rewrite app_nth2, Nat.sub_diag by lia. reflexivity.
Qed.

Lemma ch_vxyd_upd_h : forall d a f v, ch_vxyd (upd_h d a f) v = ch_vxyd d v.
Proof. reflexivity. Qed.
Lemma ch_vxyd_set_next : forall d a x v, ch_vxyd (set_next d a x) v = ch_vxyd d v.
Proof. reflexivity. Qed.
Lemma ch_vxyd_set_prev : forall d a x v, ch_vxyd (set_prev d a x) v = ch_vxyd d v.
Proof. reflexivity. Qed.
Lemma ch_vxyd_set_face : forall d a x v, ch_vxyd (set_face d a x) v = ch_vxyd d v.
Proof. reflexivity. Qed.
Lemma ch_vxyd_set_origin : forall d a x v, ch_vxyd (set_origin d a x) v = ch_vxyd d v.
Proof. reflexivity. Qed.
Lemma ch_vxyd_set_half_edge : forall d a h v, ch_vxyd (set_half_edge d a h) v = ch_vxyd d v.
Proof. reflexivity. Qed.
Lemma ch_vxyd_set_adjacent_edge : forall d f o v, ch_vxyd (set_adjacent_edge d f o) v = ch_vxyd d v.
Proof. reflexivity. Qed.
Lemma ch_vxyd_push_edge : forall d h0 h1 v, ch_vxyd (push_edge d h0 h1) v = ch_vxyd d v.
Proof. reflexivity. Qed.
Lemma ch_vxyd_push_face : forall d o v, ch_vxyd (push_face d o) v = ch_vxyd d v.
Proof. reflexivity. Qed.
Lemma ch_vxyd_set_out_edge : forall d v o w, ch_vxyd (set_out_edge d v o) w = ch_vxyd d w.
Proof.
  intros d v o w. unfold ch_vxyd, set_out_edge. cbn [d_verts].
  destruct (Nat.eq_dec v w) as [->|N].
  - destruct (lt_dec w (length (d_verts d))) as [L|L].
    + rewrite ch_nth_snth_same by exact L. reflexivity.
    + rewrite ch_snth_oob by lia. reflexivity.
  - rewrite ch_nth_snth_other by exact N. reflexivity.
Qed.
Lemma ch_vxyd_push_vertex_old : forall d vd o w, w < length (d_verts d) -> ch_vxyd (push_vertex d vd o) w = ch_vxyd d w.
Proof. intros d vd o w H. unfold ch_vxyd, push_vertex. cbn [d_verts]. rewrite app_nth1 by exact H. reflexivity. Qed.
Lemma ch_vxyd_push_vertex_new : forall d vd o w, w = length (d_verts d) ->
  ch_vxyd (push_vertex d vd o) w = (vd_x vd, vd_y vd, vd_d vd).
Proof.
  intros d vd o w ->. unfold ch_vxyd, push_vertex. cbn [d_verts]. rewrite app_nth2, Nat.sub_diag by lia. reflexivity.
Qed.

(* ------------------------------------------------------------------------------------------------ *)
(* face table *)

Lemma ch_fadj_upd_h : forall d a f g, f_adjacent (upd_h d a f) g = f_adjacent d g.
Proof. reflexivity. Qed.
Lemma ch_fadj_set_next : forall d a x g, f_adjacent (set_next d a x) g = f_adjacent d g.
Proof. reflexivity. Qed.
Lemma ch_fadj_set_prev : forall d a x g, f_adjacent (set_prev d a x) g = f_adjacent d g.
Proof. reflexivity. Qed.
Lemma ch_fadj_set_face : forall d a x g, f_adjacent (set_face d a x) g = f_adjacent d g.
Proof. reflexivity. Qed.
Lemma ch_fadj_set_origin : forall d a x g, f_adjacent (set_origin d a x) g = f_adjacent d g.
Proof. reflexivity. Qed.
Lemma ch_fadj_set_half_edge : forall d a h g, f_adjacent (set_half_edge d a h) g = f_adjacent d g.
Proof. reflexivity. Qed.
Lemma ch_fadj_set_out_edge : forall d v o g, f_adjacent (set_out_edge d v o) g = f_adjacent d g.
Proof. reflexivity. Qed.
Lemma ch_fadj_push_edge : forall d h0 h1 g, f_adjacent (push_edge d h0 h1) g = f_adjacent d g.
Proof. reflexivity. Qed.
Lemma ch_fadj_push_vertex : forall d vd o g, f_adjacent (push_vertex d vd o) g = f_adjacent d g.
Proof. reflexivity. Qed.
Lemma ch_fadj_set_adjacent_edge_same : forall d f o, f < length (d_faces d) -> f_adjacent (set_adjacent_edge d f o) f = o.
Proof. intros d f o H. unfold f_adjacent, set_adjacent_edge. cbn [d_faces]. apply ch_nth_snth_same. exact H. Qed.
Lemma ch_fadj_set_adjacent_edge_other : forall d f g o, f <> g -> f_adjacent (set_adjacent_edge d f o) g = f_adjacent d g.
Proof. intros d f g o H. unfold f_adjacent, set_adjacent_edge. cbn [d_faces]. apply ch_nth_snth_other. exact H. Qed.
Lemma ch_fadj_push_face_old : forall d o g, g < length (d_faces d) -> f_adjacent (push_face d o) g = f_adjacent d g.
Proof. intros d o g H. unfold f_adjacent, push_face. cbn [d_faces]. apply app_nth1. exact H. Qed.
Lemma ch_fadj_push_face_new : forall d o g, g = length (d_faces d) -> f_adjacent (push_face d o) g = o.
Proof.
  intros d o g ->. unfold f_adjacent, push_face. cbn [d_faces]. rewrite app_nth2, Nat.sub_diag by lia. reflexivity.
Qed.

(* ------------------------------------------------------------------------------------------------ *)
(* THE EVALUATOR.  The goal is an equation `READ = rhs` whose left-hand side is a read

       p (half_edge D b)   (p one of h_next h_prev h_face h_org)    half_edge D b
       v_out_edge D v      ch_vxyd D v      f_adjacent D f

   through a chain D of writes.  One step peels the outermost write off D (eq_trans with the matching
   read-after-write lemma: no rewriting, the cost of a step does not depend on the size of the goal).  When a
   write stores a value that is itself a read (set_origin d e (h_org (half_edge d ep))), evaluation continues
   with that read.  `ch_read` stops at a read of the base dcel or at a plain value; it fails (leaves the goal
   at the offending write) only when an index can be proved neither equal nor different.

   The tactics are parametrised by the solvers of the two kinds of side conditions. *)

Ltac ch_step_gen rng neq :=
  lazymatch goal with
  (* --- writes to other tables: transparent for half-edge reads --- *)
  | |- ?p (half_edge (set_out_edge ?d ?v ?o) ?b) = _ => refine (eq_trans (f_equal p (ch_he_set_out_edge d v o b)) _)
  | |- ?p (half_edge (set_adjacent_edge ?d ?f ?o) ?b) = _ => refine (eq_trans (f_equal p (ch_he_set_adjacent_edge d f o b)) _)
  | |- ?p (half_edge (push_face ?d ?o) ?b) = _ => refine (eq_trans (f_equal p (ch_he_push_face d o b)) _)
  | |- ?p (half_edge (push_vertex ?d ?v ?o) ?b) = _ => refine (eq_trans (f_equal p (ch_he_push_vertex d v o b)) _)
  | |- half_edge (set_out_edge ?d ?v ?o) ?b = _ => refine (eq_trans (ch_he_set_out_edge d v o b) _)
  | |- half_edge (set_adjacent_edge ?d ?f ?o) ?b = _ => refine (eq_trans (ch_he_set_adjacent_edge d f o b) _)
  | |- half_edge (push_face ?d ?o) ?b = _ => refine (eq_trans (ch_he_push_face d o b) _)
  | |- half_edge (push_vertex ?d ?v ?o) ?b = _ => refine (eq_trans (ch_he_push_vertex d v o b) _)
  (* --- push_edge --- *)
  | |- ?p (half_edge (push_edge ?d ?h0 ?h1) ?b) = _ =>
      first [ refine (eq_trans (f_equal p (ch_he_push_edge_old d h0 h1 b _)) _); [rng|]
            | refine (eq_trans (f_equal p (ch_he_push_edge_new0 d h0 h1 b _)) _); [rng|]
            | refine (eq_trans (f_equal p (ch_he_push_edge_new1 d h0 h1 b _)) _); [rng|] ]
  | |- half_edge (push_edge ?d ?h0 ?h1) ?b = _ =>
      first [ refine (eq_trans (ch_he_push_edge_old d h0 h1 b _) _); [rng|]
            | refine (eq_trans (ch_he_push_edge_new0 d h0 h1 b _) _); [rng|]
            | refine (eq_trans (ch_he_push_edge_new1 d h0 h1 b _) _); [rng|] ]
  (* --- set_half_edge --- *)
  | |- ?p (half_edge (set_half_edge ?d ?a ?h) ?b) = _ =>
      first [ constr_eq a b; refine (eq_trans (f_equal p (ch_he_set_half_edge_same d a h _)) _); [rng|]
            | refine (eq_trans (f_equal p (ch_he_set_half_edge_other d a b h _)) _); [neq|] ]
  | |- half_edge (set_half_edge ?d ?a ?h) ?b = _ =>
      first [ constr_eq a b; refine (eq_trans (ch_he_set_half_edge_same d a h _) _); [rng|]
            | refine (eq_trans (ch_he_set_half_edge_other d a b h _) _); [neq|] ]
  (* --- a field through the setter of another field: unconditional --- *)
  | |- h_next (half_edge (set_prev ?d ?a ?x) ?b) = _ => refine (eq_trans (ch_N_set_prev d a x b) _)
  | |- h_next (half_edge (set_face ?d ?a ?x) ?b) = _ => refine (eq_trans (ch_N_set_face d a x b) _)
  | |- h_next (half_edge (set_origin ?d ?a ?x) ?b) = _ => refine (eq_trans (ch_N_set_origin d a x b) _)
  | |- h_prev (half_edge (set_next ?d ?a ?x) ?b) = _ => refine (eq_trans (ch_P_set_next d a x b) _)
  | |- h_prev (half_edge (set_face ?d ?a ?x) ?b) = _ => refine (eq_trans (ch_P_set_face d a x b) _)
  | |- h_prev (half_edge (set_origin ?d ?a ?x) ?b) = _ => refine (eq_trans (ch_P_set_origin d a x b) _)
  | |- h_face (half_edge (set_next ?d ?a ?x) ?b) = _ => refine (eq_trans (ch_F_set_next d a x b) _)
  | |- h_face (half_edge (set_prev ?d ?a ?x) ?b) = _ => refine (eq_trans (ch_F_set_prev d a x b) _)
  | |- h_face (half_edge (set_origin ?d ?a ?x) ?b) = _ => refine (eq_trans (ch_F_set_origin d a x b) _)
  | |- h_org (half_edge (set_next ?d ?a ?x) ?b) = _ => refine (eq_trans (ch_O_set_next d a x b) _)
  | |- h_org (half_edge (set_prev ?d ?a ?x) ?b) = _ => refine (eq_trans (ch_O_set_prev d a x b) _)
  | |- h_org (half_edge (set_face ?d ?a ?x) ?b) = _ => refine (eq_trans (ch_O_set_face d a x b) _)
  (* --- a field through its own setter --- *)
  | |- h_next (half_edge (set_next ?d ?a ?x) ?b) = _ =>
      first [ constr_eq a b; refine (eq_trans (ch_N_set_next_same d a x _) _); [rng|]
            | refine (eq_trans (ch_N_set_next_other d a x b _) _); [neq|] ]
  | |- h_prev (half_edge (set_prev ?d ?a ?x) ?b) = _ =>
      first [ constr_eq a b; refine (eq_trans (ch_P_set_prev_same d a x _) _); [rng|]
            | refine (eq_trans (ch_P_set_prev_other d a x b _) _); [neq|] ]
  | |- h_face (half_edge (set_face ?d ?a ?x) ?b) = _ =>
      first [ constr_eq a b; refine (eq_trans (ch_F_set_face_same d a x _) _); [rng|]
            | refine (eq_trans (ch_F_set_face_other d a x b _) _); [neq|] ]
  | |- h_org (half_edge (set_origin ?d ?a ?x) ?b) = _ =>
      first [ constr_eq a b; refine (eq_trans (ch_O_set_origin_same d a x _) _); [rng|]
            | refine (eq_trans (ch_O_set_origin_other d a x b _) _); [neq|] ]
  (* --- whole record through a field setter at another index --- *)
  | |- half_edge (set_next ?d ?a ?x) ?b = _ => refine (eq_trans (ch_he_set_next_other d a x b _) _); [neq|]
  | |- half_edge (set_prev ?d ?a ?x) ?b = _ => refine (eq_trans (ch_he_set_prev_other d a x b _) _); [neq|]
  | |- half_edge (set_face ?d ?a ?x) ?b = _ => refine (eq_trans (ch_he_set_face_other d a x b _) _); [neq|]
  | |- half_edge (set_origin ?d ?a ?x) ?b = _ => refine (eq_trans (ch_he_set_origin_other d a x b _) _); [neq|]
  (* --- out-edges --- *)
  | |- v_out_edge (set_next ?d ?a ?x) ?v = _ => refine (eq_trans (ch_vout_set_next d a x v) _)
  | |- v_out_edge (set_prev ?d ?a ?x) ?v = _ => refine (eq_trans (ch_vout_set_prev d a x v) _)
  | |- v_out_edge (set_face ?d ?a ?x) ?v = _ => refine (eq_trans (ch_vout_set_face d a x v) _)
  | |- v_out_edge (set_origin ?d ?a ?x) ?v = _ => refine (eq_trans (ch_vout_set_origin d a x v) _)
  | |- v_out_edge (set_half_edge ?d ?a ?x) ?v = _ => refine (eq_trans (ch_vout_set_half_edge d a x v) _)
  | |- v_out_edge (set_adjacent_edge ?d ?a ?x) ?v = _ => refine (eq_trans (ch_vout_set_adjacent_edge d a x v) _)
  | |- v_out_edge (push_edge ?d ?a ?x) ?v = _ => refine (eq_trans (ch_vout_push_edge d a x v) _)
  | |- v_out_edge (push_face ?d ?a) ?v = _ => refine (eq_trans (ch_vout_push_face d a v) _)
  | |- v_out_edge (set_out_edge ?d ?a ?o) ?v = _ =>
      first [ constr_eq a v; refine (eq_trans (ch_vout_set_out_edge_same d a o _) _); [rng|]
            | refine (eq_trans (ch_vout_set_out_edge_other d a v o _) _); [neq|] ]
  | |- v_out_edge (push_vertex ?d ?vd ?o) ?v = _ =>
      first [ refine (eq_trans (ch_vout_push_vertex_old d vd o v _) _); [rng|]
            | refine (eq_trans (ch_vout_push_vertex_new d vd o v _) _); [rng|] ]
  (* --- vertex positions / payload --- *)
  | |- ch_vxyd (set_next ?d ?a ?x) ?v = _ => refine (eq_trans (ch_vxyd_set_next d a x v) _)
  | |- ch_vxyd (set_prev ?d ?a ?x) ?v = _ => refine (eq_trans (ch_vxyd_set_prev d a x v) _)
  | |- ch_vxyd (set_face ?d ?a ?x) ?v = _ => refine (eq_trans (ch_vxyd_set_face d a x v) _)
  | |- ch_vxyd (set_origin ?d ?a ?x) ?v = _ => refine (eq_trans (ch_vxyd_set_origin d a x v) _)
  | |- ch_vxyd (set_half_edge ?d ?a ?x) ?v = _ => refine (eq_trans (ch_vxyd_set_half_edge d a x v) _)
  | |- ch_vxyd (set_adjacent_edge ?d ?a ?x) ?v = _ => refine (eq_trans (ch_vxyd_set_adjacent_edge d a x v) _)
  | |- ch_vxyd (push_edge ?d ?a ?x) ?v = _ => refine (eq_trans (ch_vxyd_push_edge d a x v) _)
  | |- ch_vxyd (push_face ?d ?a) ?v = _ => refine (eq_trans (ch_vxyd_push_face d a v) _)
  | |- ch_vxyd (set_out_edge ?d ?a ?o) ?v = _ => refine (eq_trans (ch_vxyd_set_out_edge d a o v) _)
  | |- ch_vxyd (push_vertex ?d ?vd ?o) ?v = _ =>
      first [ refine (eq_trans (ch_vxyd_push_vertex_old d vd o v _) _); [rng|]
            | refine (eq_trans (ch_vxyd_push_vertex_new d vd o v _) _); [rng|] ]
  (* --- adjacent edges of faces --- *)
  | |- f_adjacent (set_next ?d ?a ?x) ?g = _ => refine (eq_trans (ch_fadj_set_next d a x g) _)
  | |- f_adjacent (set_prev ?d ?a ?x) ?g = _ => refine (eq_trans (ch_fadj_set_prev d a x g) _)
  | |- f_adjacent (set_face ?d ?a ?x) ?g = _ => refine (eq_trans (ch_fadj_set_face d a x g) _)
  | |- f_adjacent (set_origin ?d ?a ?x) ?g = _ => refine (eq_trans (ch_fadj_set_origin d a x g) _)
  | |- f_adjacent (set_half_edge ?d ?a ?x) ?g = _ => refine (eq_trans (ch_fadj_set_half_edge d a x g) _)
  | |- f_adjacent (set_out_edge ?d ?a ?x) ?g = _ => refine (eq_trans (ch_fadj_set_out_edge d a x g) _)
  | |- f_adjacent (push_edge ?d ?a ?x) ?g = _ => refine (eq_trans (ch_fadj_push_edge d a x g) _)
  | |- f_adjacent (push_vertex ?d ?a ?x) ?g = _ => refine (eq_trans (ch_fadj_push_vertex d a x g) _)
  | |- f_adjacent (set_adjacent_edge ?d ?a ?o) ?g = _ =>
      first [ constr_eq a g; refine (eq_trans (ch_fadj_set_adjacent_edge_same d a o _) _); [rng|]
            | refine (eq_trans (ch_fadj_set_adjacent_edge_other d a g o _) _); [neq|] ]
  | |- f_adjacent (push_face ?d ?o) ?g = _ =>
      first [ refine (eq_trans (ch_fadj_push_face_old d o g _) _); [rng|]
            | refine (eq_trans (ch_fadj_push_face_new d o g _) _); [rng|] ]
  (* --- a projection of a record literal (the value stored by set_half_edge / push_edge) --- *)
  | |- h_next (mkh _ _ _ _) = _ => cbn [h_next]
  | |- h_prev (mkh _ _ _ _) = _ => cbn [h_prev]
  | |- h_face (mkh _ _ _ _) = _ => cbn [h_face]
  | |- h_org (mkh _ _ _ _) = _ => cbn [h_org]
  end.

Ltac ch_read_gen rng neq := repeat (ch_step_gen rng neq).
Ltac ch_read := ch_read_gen ch_rng ch_neq.

(* accessor-level reads: e_next D b = ... etc. *)
Ltac ch_open_acc := unfold e_to, e_next, e_prev, e_face, e_origin, e_rev.

(* `half_edge D b = rhs`, field by field (rhs a record literal or another record) *)
Ltac ch_fields :=
  lazymatch goal with
  | |- half_edge _ _ = mkh _ _ _ _ => apply ch_hrec_ext4
  | |- half_edge _ _ = _ => apply ch_hrec_ext; cbn [h_next h_prev h_face h_org]
  end.

Ltac ch_fin := first [reflexivity | assumption | symmetry; assumption].

(* ------------------------------------------------------------------------------------------------ *)
(* the same evaluation by rewriting anywhere in the goal (slower; for goals that are not equations) *)

Ltac ch_rw_step_gen rng neq :=
  match goal with
  | |- context [half_edge (set_out_edge ?d ?v ?o) ?b] => rewrite (ch_he_set_out_edge d v o b)
  | |- context [half_edge (set_adjacent_edge ?d ?v ?o) ?b] => rewrite (ch_he_set_adjacent_edge d v o b)
  | |- context [half_edge (push_face ?d ?o) ?b] => rewrite (ch_he_push_face d o b)
  | |- context [half_edge (push_vertex ?d ?v ?o) ?b] => rewrite (ch_he_push_vertex d v o b)
  | |- context [half_edge (push_edge ?d ?h0 ?h1) ?b] =>
      first [ rewrite (ch_he_push_edge_old d h0 h1 b) by rng
            | rewrite (ch_he_push_edge_new0 d h0 h1 b) by rng
            | rewrite (ch_he_push_edge_new1 d h0 h1 b) by rng ]
  | |- context [half_edge (set_half_edge ?d ?a ?h) ?b] =>
      first [ constr_eq a b; rewrite (ch_he_set_half_edge_same d a h) by rng
            | rewrite (ch_he_set_half_edge_other d a b h) by neq ]
  | |- context [h_next (half_edge (set_prev ?d ?a ?x) ?b)] => rewrite (ch_N_set_prev d a x b)
  | |- context [h_next (half_edge (set_face ?d ?a ?x) ?b)] => rewrite (ch_N_set_face d a x b)
  | |- context [h_next (half_edge (set_origin ?d ?a ?x) ?b)] => rewrite (ch_N_set_origin d a x b)
  | |- context [h_prev (half_edge (set_next ?d ?a ?x) ?b)] => rewrite (ch_P_set_next d a x b)
  | |- context [h_prev (half_edge (set_face ?d ?a ?x) ?b)] => rewrite (ch_P_set_face d a x b)
  | |- context [h_prev (half_edge (set_origin ?d ?a ?x) ?b)] => rewrite (ch_P_set_origin d a x b)
  | |- context [h_face (half_edge (set_next ?d ?a ?x) ?b)] => rewrite (ch_F_set_next d a x b)
  | |- context [h_face (half_edge (set_prev ?d ?a ?x) ?b)] => rewrite (ch_F_set_prev d a x b)
  | |- context [h_face (half_edge (set_origin ?d ?a ?x) ?b)] => rewrite (ch_F_set_origin d a x b)
  | |- context [h_org (half_edge (set_next ?d ?a ?x) ?b)] => rewrite (ch_O_set_next d a x b)
  | |- context [h_org (half_edge (set_prev ?d ?a ?x) ?b)] => rewrite (ch_O_set_prev d a x b)
  | |- context [h_org (half_edge (set_face ?d ?a ?x) ?b)] => rewrite (ch_O_set_face d a x b)
  | |- context [h_next (half_edge (set_next ?d ?a ?x) ?b)] =>
      first [ constr_eq a b; rewrite (ch_N_set_next_same d a x) by rng
            | rewrite (ch_N_set_next_other d a x b) by neq ]
  | |- context [h_prev (half_edge (set_prev ?d ?a ?x) ?b)] =>
      first [ constr_eq a b; rewrite (ch_P_set_prev_same d a x) by rng
            | rewrite (ch_P_set_prev_other d a x b) by neq ]
  | |- context [h_face (half_edge (set_face ?d ?a ?x) ?b)] =>
      first [ constr_eq a b; rewrite (ch_F_set_face_same d a x) by rng
            | rewrite (ch_F_set_face_other d a x b) by neq ]
  | |- context [h_org (half_edge (set_origin ?d ?a ?x) ?b)] =>
      first [ constr_eq a b; rewrite (ch_O_set_origin_same d a x) by rng
            | rewrite (ch_O_set_origin_other d a x b) by neq ]
  | |- context [half_edge (set_next ?d ?a ?x) ?b] =>
      first [ constr_eq a b; rewrite (ch_he_set_next_same d a x) by rng | rewrite (ch_he_set_next_other d a x b) by neq ]
  | |- context [half_edge (set_prev ?d ?a ?x) ?b] =>
      first [ constr_eq a b; rewrite (ch_he_set_prev_same d a x) by rng | rewrite (ch_he_set_prev_other d a x b) by neq ]
  | |- context [half_edge (set_face ?d ?a ?x) ?b] =>
      first [ constr_eq a b; rewrite (ch_he_set_face_same d a x) by rng | rewrite (ch_he_set_face_other d a x b) by neq ]
  | |- context [half_edge (set_origin ?d ?a ?x) ?b] =>
      first [ constr_eq a b; rewrite (ch_he_set_origin_same d a x) by rng | rewrite (ch_he_set_origin_other d a x b) by neq ]
  end.

Ltac ch_rw_gen rng neq := repeat (ch_rw_step_gen rng neq); cbn [h_next h_prev h_face h_org].
Ltac ch_rw := ch_rw_gen ch_rng ch_neq.

(* ------------------------------------------------------------------------------------------------ *)
(* EQUALITY OF TWO CHAINS, up to any reordering of their writes that is harmless under the facts of the context.

   `ch_chain_eq` proves  D1 = D2  for two chains of writes over the same base dcel: the dcels are compared table
   by table (ch_dcel_ext), the vertex / half-edge / face tables entry by entry (ch_*_ext).  For the entry x the
   tactic distinguishes the cases  x = a  for every index a written by D2 (including the indices created by
   push_edge / push_vertex / push_face), and the case "x is none of them"; in every case both sides are
   evaluated by the reader above.  When the reader meets a write at an index whose relation to the index read
   is not known (two indices of the context that may or may not coincide), it distinguishes the two cases. *)

Lemma ch_vrec_eq : forall d1 d2 x,
  ch_vxyd d1 x = ch_vxyd d2 x -> v_out_edge d1 x = v_out_edge d2 x ->
  nth x (d_verts d1) dflt_v = nth x (d_verts d2) dflt_v.
Proof.
  intros d1 d2 x. unfold ch_vxyd, v_out_edge.
  destruct (nth x (d_verts d1) dflt_v), (nth x (d_verts d2) dflt_v). cbn. intros H1 H2. inversion H1. subst. reflexivity.
Qed.

(* "same index" lemmas with a proved (not syntactic) equality of the indices *)
Lemma ch_N_set_next_eq : forall d a x b, a = b -> a < length (d_hedges d) -> h_next (half_edge (set_next d a x) b) = x.
Proof. intros d a x b <-. apply ch_N_set_next_same. Qed.
Lemma ch_P_set_prev_eq : forall d a x b, a = b -> a < length (d_hedges d) -> h_prev (half_edge (set_prev d a x) b) = x.
Proof. intros d a x b <-. apply ch_P_set_prev_same. Qed.
Lemma ch_F_set_face_eq : forall d a x b, a = b -> a < length (d_hedges d) -> h_face (half_edge (set_face d a x) b) = x.
Proof. intros d a x b <-. apply ch_F_set_face_same. Qed.
Lemma ch_O_set_origin_eq : forall d a x b, a = b -> a < length (d_hedges d) -> h_org (half_edge (set_origin d a x) b) = x.
Proof. intros d a x b <-. apply ch_O_set_origin_same. Qed.
Lemma ch_he_set_half_edge_eq : forall d a h b, a = b -> a < length (d_hedges d) -> half_edge (set_half_edge d a h) b = h.
Proof. intros d a h b <-. apply ch_he_set_half_edge_same. Qed.
Lemma ch_vout_set_out_edge_eq : forall d a o v, a = v -> a < length (d_verts d) -> v_out_edge (set_out_edge d a o) v = o.
Proof. intros d a o v <-. apply ch_vout_set_out_edge_same. Qed.
Lemma ch_fadj_set_adjacent_edge_eq : forall d a o g, a = g -> a < length (d_faces d) -> f_adjacent (set_adjacent_edge d a o) g = o.
Proof. intros d a o g <-. apply ch_fadj_set_adjacent_edge_same. Qed.

Ltac ch_eq_known := solve [assumption | symmetry; assumption].

(* one step of the reader at a write whose index a is not syntactically the index b read, and not provably
   different: use a known equation a = b, or distinguish the two cases *)
Ltac ch_step_br rng :=
  lazymatch goal with
  | |- h_next (half_edge (set_next ?d ?a ?x) ?b) = _ =>
      first [ refine (eq_trans (ch_N_set_next_eq d a x b _ _) _); [ch_eq_known|rng|]
            | let E := fresh "Eidx" in destruct (Nat.eq_dec a b) as [E|E];
              [ refine (eq_trans (ch_N_set_next_eq d a x b E _) _); [rng|]
              | refine (eq_trans (ch_N_set_next_other d a x b E) _) ] ]
  | |- h_prev (half_edge (set_prev ?d ?a ?x) ?b) = _ =>
      first [ refine (eq_trans (ch_P_set_prev_eq d a x b _ _) _); [ch_eq_known|rng|]
            | let E := fresh "Eidx" in destruct (Nat.eq_dec a b) as [E|E];
              [ refine (eq_trans (ch_P_set_prev_eq d a x b E _) _); [rng|]
              | refine (eq_trans (ch_P_set_prev_other d a x b E) _) ] ]
  | |- h_face (half_edge (set_face ?d ?a ?x) ?b) = _ =>
      first [ refine (eq_trans (ch_F_set_face_eq d a x b _ _) _); [ch_eq_known|rng|]
            | let E := fresh "Eidx" in destruct (Nat.eq_dec a b) as [E|E];
              [ refine (eq_trans (ch_F_set_face_eq d a x b E _) _); [rng|]
              | refine (eq_trans (ch_F_set_face_other d a x b E) _) ] ]
  | |- h_org (half_edge (set_origin ?d ?a ?x) ?b) = _ =>
      first [ refine (eq_trans (ch_O_set_origin_eq d a x b _ _) _); [ch_eq_known|rng|]
            | let E := fresh "Eidx" in destruct (Nat.eq_dec a b) as [E|E];
              [ refine (eq_trans (ch_O_set_origin_eq d a x b E _) _); [rng|]
              | refine (eq_trans (ch_O_set_origin_other d a x b E) _) ] ]
  | |- ?p (half_edge (set_half_edge ?d ?a ?h) ?b) = _ =>
      first [ refine (eq_trans (f_equal p (ch_he_set_half_edge_eq d a h b _ _)) _); [ch_eq_known|rng|]
            | let E := fresh "Eidx" in destruct (Nat.eq_dec a b) as [E|E];
              [ refine (eq_trans (f_equal p (ch_he_set_half_edge_eq d a h b E _)) _); [rng|]
              | refine (eq_trans (f_equal p (ch_he_set_half_edge_other d a b h E)) _) ] ]
  | |- v_out_edge (set_out_edge ?d ?a ?o) ?v = _ =>
      first [ refine (eq_trans (ch_vout_set_out_edge_eq d a o v _ _) _); [ch_eq_known|rng|]
            | let E := fresh "Eidx" in destruct (Nat.eq_dec a v) as [E|E];
              [ refine (eq_trans (ch_vout_set_out_edge_eq d a o v E _) _); [rng|]
              | refine (eq_trans (ch_vout_set_out_edge_other d a v o E) _) ] ]
  | |- f_adjacent (set_adjacent_edge ?d ?a ?o) ?g = _ =>
      first [ refine (eq_trans (ch_fadj_set_adjacent_edge_eq d a o g _ _) _); [ch_eq_known|rng|]
            | let E := fresh "Eidx" in destruct (Nat.eq_dec a g) as [E|E];
              [ refine (eq_trans (ch_fadj_set_adjacent_edge_eq d a o g E _) _); [rng|]
              | refine (eq_trans (ch_fadj_set_adjacent_edge_other d a g o E) _) ] ]
  end.

Ltac ch_read_br := repeat first [ ch_step_gen ch_rng ch_neq | ch_step_br ch_rng ].

(* both sides of `read D1 x = read D2 x` *)
Ltac ch_fin2 := first [reflexivity | assumption | symmetry; assumption | congruence].
Ltac ch_both := ch_read_br; symmetry; ch_read_br; ch_fin2.

(* keep only the disequalities that mention x (lia is exponential in their number) *)
Ltac ch_keep_neq x :=
  repeat match goal with
  | H : ?a <> ?b |- _ =>
      lazymatch a with
      | context [x] => fail
      | _ => lazymatch b with context [x] => fail | _ => clear H end
      end
  end.

(* case x = a / x <> a, unless already decided *)
Ltac ch_idx_case x a k cont :=
  idtac;  (* delays the goal-dependent lazymatch below until the tactic is run (Ltac evaluates arguments eagerly) *)
  lazymatch goal with
  | _ : x <> a |- _ => cont
  | _ : a <> x |- _ => cont
  | _ => let N := fresh "Nidx" in destruct (Nat.eq_dec x a) as [->|N]; [k|cont]
  end.

(* the cases of the half-edge index x, for the writes of the chain D; k solves one case *)
Ltac ch_idx_cases_H x D k :=
  idtac;
  lazymatch D with
  | set_next ?d ?a _ => ch_idx_case x a k ltac:(ch_idx_cases_H x d k)
  | set_prev ?d ?a _ => ch_idx_case x a k ltac:(ch_idx_cases_H x d k)
  | set_face ?d ?a _ => ch_idx_case x a k ltac:(ch_idx_cases_H x d k)
  | set_origin ?d ?a _ => ch_idx_case x a k ltac:(ch_idx_cases_H x d k)
  | set_half_edge ?d ?a _ => ch_idx_case x a k ltac:(ch_idx_cases_H x d k)
  | set_out_edge ?d _ _ => ch_idx_cases_H x d k
  | set_adjacent_edge ?d _ _ => ch_idx_cases_H x d k
  | push_face ?d _ => ch_idx_cases_H x d k
  | push_vertex ?d _ _ => ch_idx_cases_H x d k
  | push_edge ?d _ _ =>
      let H := fresh "Hlen" in
      eassert (H : length (d_hedges d) = _) by ch_lenH_solve;
      lazymatch type of H with
      | _ = ?m => clear H; ch_idx_case x m k ltac:(ch_idx_case x (m + 1) k ltac:(ch_idx_cases_H x d k))
      end
  | _ => try (assert (x < length (d_hedges D)) by (ch_keep_neq x; lia)); k
  end.

Ltac ch_idx_cases_V x D k :=
  idtac;
  lazymatch D with
  | set_next ?d _ _ => ch_idx_cases_V x d k
  | set_prev ?d _ _ => ch_idx_cases_V x d k
  | set_face ?d _ _ => ch_idx_cases_V x d k
  | set_origin ?d _ _ => ch_idx_cases_V x d k
  | set_half_edge ?d _ _ => ch_idx_cases_V x d k
  | set_adjacent_edge ?d _ _ => ch_idx_cases_V x d k
  | push_face ?d _ => ch_idx_cases_V x d k
  | push_edge ?d _ _ => ch_idx_cases_V x d k
  | set_out_edge ?d ?a _ => ch_idx_case x a k ltac:(ch_idx_cases_V x d k)
  | push_vertex ?d _ _ =>
      let H := fresh "Hlen" in
      eassert (H : length (d_verts d) = _) by ch_lenV_solve;
      lazymatch type of H with
      | _ = ?m => clear H; ch_idx_case x m k ltac:(ch_idx_cases_V x d k)
      end
  | _ => try (assert (x < length (d_verts D)) by (ch_keep_neq x; lia)); k
  end.

Ltac ch_idx_cases_F x D k :=
  idtac;
  lazymatch D with
  | set_next ?d _ _ => ch_idx_cases_F x d k
  | set_prev ?d _ _ => ch_idx_cases_F x d k
  | set_face ?d _ _ => ch_idx_cases_F x d k
  | set_origin ?d _ _ => ch_idx_cases_F x d k
  | set_half_edge ?d _ _ => ch_idx_cases_F x d k
  | set_out_edge ?d _ _ => ch_idx_cases_F x d k
  | push_vertex ?d _ _ => ch_idx_cases_F x d k
  | push_edge ?d _ _ => ch_idx_cases_F x d k
  | set_adjacent_edge ?d ?a _ => ch_idx_case x a k ltac:(ch_idx_cases_F x d k)
  | push_face ?d _ =>
      let H := fresh "Hlen" in
      eassert (H : length (d_faces d) = _) by ch_lenF_solve;
      lazymatch type of H with
      | _ = ?m => clear H; ch_idx_case x m k ltac:(ch_idx_cases_F x d k)
      end
  | _ => try (assert (x < length (d_faces D)) by (ch_keep_neq x; lia)); k
  end.

Ltac ch_len_goal_eq := ch_len; first [reflexivity | ch_lia].

Ltac ch_chain_eq :=
  lazymatch goal with
  | |- ?D1 = ?D2 =>
      apply ch_dcel_ext;
      [ apply ch_verts_ext;
        [ ch_len_goal_eq
        | let x := fresh "x" in let Hx := fresh "Hx" in
          intros x Hx; revert Hx; ch_len; intro Hx;
          ch_idx_cases_V x D2 ltac:(apply ch_vrec_eq; ch_both) ]
      | apply ch_hedges_ext;
        [ ch_len_goal_eq
        | let x := fresh "x" in let Hx := fresh "Hx" in
          intros x Hx; revert Hx; ch_len; intro Hx;
          ch_idx_cases_H x D2 ltac:(apply ch_hrec_ext; ch_both) ]
      | apply ch_faces_ext;
        [ ch_len_goal_eq
        | let x := fresh "x" in let Hx := fresh "Hx" in
          intros x Hx; revert Hx; ch_len; intro Hx;
          ch_idx_cases_F x D2 ltac:(ch_both) ]
      | ch_tables; reflexivity ]
  end.
