(* Dcel/OpsTest.v -- replay of real runs of spade's DCEL primitives (harness `prim` steps) against the
   GENERATED Gen/DcelOps.v: starting from `dcel_new`, after every call the generated function yields
   exactly the observed tables (vertices, half edges, faces, flags) and the observed return values.
   Produced from the harness outputs by a throw-away script; the proofs are closed computations. *)
From Coq Require Import ZArith List Bool Arith.
From SpadeV Require Import Obs.State Vmap.Model Dcel.Raw Gen.DcelOps.
Import ListNotations.

Module Sample.   (* replay of /tmp/seed-out/prim_sample.out *)
Definition s0 : dcel := dcel_new.

(* O 0 prim ifv 0 0 0 1 / R 0 *)
Definition r1 := insert_first_vertex s0 (mkvd 0 0 1).
Definition s1 : dcel := fst r1.
Definition o1 : dcel := mkdcel
    [mkv 0 0 1 None]
    []
    [None]
    [].
Example step1_tables : (d_verts s1, d_hedges s1, d_faces s1, d_flags s1) = (d_verts o1, d_hedges o1, d_faces o1, d_flags o1).
Proof. vm_compute. reflexivity. Qed.
Example step1 : r1 = (o1, 0).
Proof. vm_compute. reflexivity. Qed.

(* O 1 prim isv 0 4616189618054758400 0 2 / R 1 *)
Definition r2 := insert_second_vertex s1 (mkvd 4616189618054758400 0 2).
Definition s2 : dcel := fst r2.
Definition o2 : dcel := mkdcel
    [mkv 0 0 1 (Some 0); mkv 4616189618054758400 0 2 (Some 1)]
    [mkh 1 1 0 0; mkh 0 0 0 1]
    [(Some 0)]
    [false].
Example step2_tables : (d_verts s2, d_hedges s2, d_faces s2, d_flags s2) = (d_verts o2, d_hedges o2, d_faces o2, d_flags o2).
Proof. vm_compute. reflexivity. Qed.
Example step2 : r2 = (o2, 1).
Proof. vm_compute. reflexivity. Qed.

(* O 2 prim ext 0 4620693217682128896 0 3 / R 2 *)
Definition r3 := extend_line s2 0 (mkvd 4620693217682128896 0 3).
Definition s3 : dcel := fst r3.
Definition o3 : dcel := mkdcel
    [mkv 0 0 1 (Some 0); mkv 4616189618054758400 0 2 (Some 1);
     mkv 4620693217682128896 0 3 (Some 2)]
    [mkh 1 2 0 0; mkh 3 0 0 1; mkh 0 3 0 2; mkh 2 1 0 0]
    [(Some 0)]
    [false; false].
Example step3_tables : (d_verts s3, d_hedges s3, d_faces s3, d_flags s3) = (d_verts o3, d_hedges o3, d_faces o3, d_flags o3).
Proof. vm_compute. reflexivity. Qed.
Example step3 : r3 = (o3, 2).
Proof. vm_compute. reflexivity. Qed.

(* O 3 prim sel 1 4611686018427387904 0 4 / R 3 1 4 *)
Definition r4 := split_edge_when_all_vertices_on_line s3 1 (mkvd 4611686018427387904 0 4).
Definition s4 : dcel := fst r4.
Definition o4 : dcel := mkdcel
    [mkv 0 0 1 (Some 5); mkv 4616189618054758400 0 2 (Some 1);
     mkv 4620693217682128896 0 3 (Some 2); mkv 4611686018427387904 0 4 (Some 4)]
    [mkh 1 5 0 3; mkh 4 0 0 1; mkh 5 3 0 2; mkh 2 4 0 0;
     mkh 3 1 0 3; mkh 0 2 0 0]
    [(Some 0)]
    [false; false; false].
Example step4_tables : (d_verts s4, d_hedges s4, d_faces s4, d_flags s4) = (d_verts o4, d_hedges o4, d_faces o4, d_flags o4).
Proof. vm_compute. reflexivity. Qed.
Example step4 : r4 = (o4, ((1, 4), 3)).
Proof. vm_compute. reflexivity. Qed.

(* O 4 prim cnf 0 4613937818241073152 4617315517961601024 5 / R 4 *)
Definition r5 := create_new_face_adjacent_to_edge s4 0 (mkvd 4613937818241073152 4617315517961601024 5).
Definition s5 : dcel := fst r5.
Definition o5 : dcel := mkdcel
    [mkv 0 0 1 (Some 5); mkv 4616189618054758400 0 2 (Some 1);
     mkv 4620693217682128896 0 3 (Some 2); mkv 4611686018427387904 0 4 (Some 4);
     mkv 4613937818241073152 4617315517961601024 5 (Some 8)]
    [mkh 6 8 1 3; mkh 4 7 0 1; mkh 5 3 0 2; mkh 2 4 0 0;
     mkh 3 1 0 3; mkh 9 2 0 0; mkh 8 0 1 1; mkh 1 9 0 4;
     mkh 0 6 1 4; mkh 7 5 0 3]
    [(Some 9); (Some 0)]
    [false; false; false; false; false].
Example step5_tables : (d_verts s5, d_hedges s5, d_faces s5, d_flags s5) = (d_verts o5, d_hedges o5, d_faces o5, d_flags o5).
Proof. vm_compute. reflexivity. Qed.
Example step5 : r5 = (o5, 4).
Proof. vm_compute. reflexivity. Qed.

(* O 5 prim csf 3 / R 11 *)
Definition r6 := create_single_face_between_edge_and_next s5 3.
Definition s6 : dcel := fst r6.
Definition o6 : dcel := mkdcel
    [mkv 0 0 1 (Some 5); mkv 4616189618054758400 0 2 (Some 1);
     mkv 4620693217682128896 0 3 (Some 2); mkv 4611686018427387904 0 4 (Some 4);
     mkv 4613937818241073152 4617315517961601024 5 (Some 8)]
    [mkh 6 8 1 3; mkh 4 7 0 1; mkh 10 3 2 2; mkh 2 10 2 0;
     mkh 11 1 0 3; mkh 9 11 0 0; mkh 8 0 1 1; mkh 1 9 0 4;
     mkh 0 6 1 4; mkh 7 5 0 3; mkh 3 2 2 0; mkh 5 4 0 0]
    [(Some 11); (Some 0); (Some 10)]
    [false; false; false; false; false; false].
Example step6_tables : (d_verts s6, d_hedges s6, d_faces s6, d_flags s6) = (d_verts o6, d_hedges o6, d_faces o6, d_flags o6).
Proof. vm_compute. reflexivity. Qed.
Example step6 : r6 = (o6, 11).
Proof. vm_compute. reflexivity. Qed.

(* O 6 prim csf 4 / R 13 *)
Definition r7 := create_single_face_between_edge_and_next s6 4.
Definition s7 : dcel := fst r7.
Definition o7 : dcel := mkdcel
    [mkv 0 0 1 (Some 5); mkv 4616189618054758400 0 2 (Some 1);
     mkv 4620693217682128896 0 3 (Some 2); mkv 4611686018427387904 0 4 (Some 4);
     mkv 4613937818241073152 4617315517961601024 5 (Some 8)]
    [mkh 6 8 1 3; mkh 13 7 0 1; mkh 10 3 2 2; mkh 2 10 2 0;
     mkh 11 12 3 3; mkh 9 13 0 0; mkh 8 0 1 1; mkh 1 9 0 4;
     mkh 0 6 1 4; mkh 7 5 0 3; mkh 3 2 2 0; mkh 12 4 3 0;
     mkh 4 11 3 0; mkh 5 1 0 3]
    [(Some 13); (Some 0); (Some 10); (Some 12)]
    [false; false; false; false; false; false; false].
Example step7_tables : (d_verts s7, d_hedges s7, d_faces s7, d_flags s7) = (d_verts o7, d_hedges o7, d_faces o7, d_flags o7).
Proof. vm_compute. reflexivity. Qed.
Example step7 : r7 = (o7, 13).
Proof. vm_compute. reflexivity. Qed.

(* O 7 prim iit 1 4613937818241073152 4607182418800017408 6 / R 5 *)
Definition r8 := insert_into_triangle s7 (mkvd 4613937818241073152 4607182418800017408 6) 1.
Definition s8 : dcel := fst r8.
Definition o8 : dcel := mkdcel
    [mkv 0 0 1 (Some 5); mkv 4616189618054758400 0 2 (Some 1);
     mkv 4620693217682128896 0 3 (Some 2); mkv 4611686018427387904 0 4 (Some 4);
     mkv 4613937818241073152 4617315517961601024 5 (Some 8); mkv 4613937818241073152 4607182418800017408 6 (Some 15)]
    [mkh 14 19 1 3; mkh 13 7 0 1; mkh 10 3 2 2; mkh 2 10 2 0;
     mkh 11 12 3 3; mkh 9 13 0 0; mkh 16 15 4 1; mkh 1 9 0 4;
     mkh 18 17 5 4; mkh 7 5 0 3; mkh 3 2 2 0; mkh 12 4 3 0;
     mkh 4 11 3 0; mkh 5 1 0 3; mkh 19 0 1 1; mkh 6 16 4 5;
     mkh 15 6 4 4; mkh 8 18 5 5; mkh 17 8 5 3; mkh 0 14 1 5]
    [(Some 13); (Some 0); (Some 10); (Some 12); (Some 6); (Some 8)]
    [false; false; false; false; false; false; false; false; false; false].
Example step8_tables : (d_verts s8, d_hedges s8, d_faces s8, d_flags s8) = (d_verts o8, d_hedges o8, d_faces o8, d_flags o8).
Proof. vm_compute. reflexivity. Qed.
Example step8 : r8 = (o8, 5).
Proof. vm_compute. reflexivity. Qed.

(* O 8 prim flip 1 / R ok *)
Definition r9 := flip_cw s8 1.
Definition s9 : dcel := fst r9.
Definition o9 : dcel := mkdcel
    [mkv 0 0 1 (Some 10); mkv 4616189618054758400 0 2 (Some 1);
     mkv 4620693217682128896 0 3 (Some 2); mkv 4611686018427387904 0 4 (Some 4);
     mkv 4613937818241073152 4617315517961601024 5 (Some 8); mkv 4613937818241073152 4607182418800017408 6 (Some 15)]
    [mkh 14 19 1 3; mkh 13 7 0 1; mkh 3 3 2 0; mkh 2 3 2 0;
     mkh 11 12 3 3; mkh 9 13 0 0; mkh 16 15 4 1; mkh 1 9 0 4;
     mkh 18 17 5 4; mkh 7 5 0 3; mkh 10 2 2 0; mkh 12 4 3 0;
     mkh 4 11 3 0; mkh 5 1 0 3; mkh 19 0 1 1; mkh 6 16 4 5;
     mkh 15 6 4 4; mkh 8 18 5 5; mkh 17 8 5 3; mkh 0 14 1 5]
    [(Some 13); (Some 0); (Some 3); (Some 12); (Some 6); (Some 8)]
    [false; false; false; false; false; false; false; false; false; false].
Example step9_tables : (d_verts s9, d_hedges s9, d_faces s9, d_flags s9) = (d_verts o9, d_hedges o9, d_faces o9, d_flags o9).
Proof. vm_compute. reflexivity. Qed.
Example step9 : r9 = (o9, tt).
Proof. vm_compute. reflexivity. Qed.

(* O 9 prim flip 8 / R ok *)
Definition r10 := flip_cw s9 8.
Definition s10 : dcel := fst r10.
Definition o10 : dcel := mkdcel
    [mkv 0 0 1 (Some 10); mkv 4616189618054758400 0 2 (Some 1);
     mkv 4620693217682128896 0 3 (Some 2); mkv 4611686018427387904 0 4 (Some 4);
     mkv 4613937818241073152 4617315517961601024 5 (Some 8); mkv 4613937818241073152 4607182418800017408 6 (Some 15)]
    [mkh 14 19 1 3; mkh 13 7 0 1; mkh 3 3 2 0; mkh 2 3 2 0;
     mkh 11 12 3 3; mkh 9 13 0 0; mkh 8 17 5 1; mkh 1 9 0 4;
     mkh 17 6 5 4; mkh 7 5 0 3; mkh 10 2 2 0; mkh 12 4 3 0;
     mkh 4 11 3 0; mkh 5 1 0 3; mkh 19 0 1 1; mkh 16 18 4 5;
     mkh 18 15 4 1; mkh 6 8 5 3; mkh 15 16 4 3; mkh 0 14 1 5]
    [(Some 13); (Some 0); (Some 3); (Some 12); (Some 16); (Some 17)]
    [false; false; false; false; false; false; false; false; false; false].
Example step10_tables : (d_verts s10, d_hedges s10, d_faces s10, d_flags s10) = (d_verts o10, d_hedges o10, d_faces o10, d_flags o10).
Proof. vm_compute. reflexivity. Qed.
Example step10 : r10 = (o10, tt).
Proof. vm_compute. reflexivity. Qed.

(* O 10 prim se 10 4607182418800017408 4607182418800017408 7 / R 6 10 23 *)
Definition r11 := split_edge s10 10 (mkvd 4607182418800017408 4607182418800017408 7).
Definition s11 : dcel := fst r11.
Definition o11 : dcel := mkdcel
    [mkv 0 0 1 (Some 22); mkv 4616189618054758400 0 2 (Some 1);
     mkv 4620693217682128896 0 3 (Some 2); mkv 4611686018427387904 0 4 (Some 4);
     mkv 4613937818241073152 4617315517961601024 5 (Some 8); mkv 4613937818241073152 4607182418800017408 6 (Some 15);
     mkv 4607182418800017408 4607182418800017408 7 (Some 11)]
    [mkh 14 19 1 3; mkh 13 7 0 1; mkh 3 25 2 0; mkh 2 3 2 0;
     mkh 22 21 6 3; mkh 9 13 0 0; mkh 8 17 5 1; mkh 1 9 0 4;
     mkh 17 6 5 4; mkh 7 5 0 3; mkh 24 23 7 0; mkh 12 20 3 6;
     mkh 20 11 3 0; mkh 5 1 0 3; mkh 19 0 1 1; mkh 16 18 4 5;
     mkh 18 15 4 1; mkh 6 8 5 3; mkh 15 16 4 3; mkh 0 14 1 5;
     mkh 11 12 3 3; mkh 4 22 6 6; mkh 21 4 6 0; mkh 10 24 7 6;
     mkh 23 10 7 0; mkh 2 10 2 6]
    [(Some 13); (Some 0); (Some 10); (Some 20); (Some 16); (Some 17); (Some 22); (Some 24)]
    [false; false; false; false; false; false; false; false; false; false;
     false; false; false].
Example step11_tables : (d_verts s11, d_hedges s11, d_faces s11, d_flags s11) = (d_verts o11, d_hedges o11, d_faces o11, d_flags o11).
Proof. vm_compute. reflexivity. Qed.
Example step11 : r11 = (o11, (6, (10, 23))).
Proof. vm_compute. reflexivity. Qed.

(* O 11 prim she 0 4621256167635550208 4621256167635550208 8 / R 7 0 28 *)
Definition r12 := split_half_edge s11 0 (mkvd 4621256167635550208 4621256167635550208 8).
Definition s12 : dcel := fst r12.
Definition o12 : dcel := mkdcel
    [mkv 0 0 1 (Some 22); mkv 4616189618054758400 0 2 (Some 29);
     mkv 4620693217682128896 0 3 (Some 2); mkv 4611686018427387904 0 4 (Some 4);
     mkv 4613937818241073152 4617315517961601024 5 (Some 8); mkv 4613937818241073152 4607182418800017408 6 (Some 15);
     mkv 4607182418800017408 4607182418800017408 7 (Some 11); mkv 4621256167635550208 4621256167635550208 8 (Some 28)]
    [mkh 27 19 1 3; mkh 13 29 0 7; mkh 3 25 2 0; mkh 2 3 2 0;
     mkh 22 21 6 3; mkh 9 13 0 0; mkh 8 17 5 1; mkh 29 9 0 4;
     mkh 17 6 5 4; mkh 7 5 0 3; mkh 24 23 7 0; mkh 12 20 3 6;
     mkh 20 11 3 0; mkh 5 1 0 3; mkh 26 28 8 1; mkh 16 18 4 5;
     mkh 18 15 4 1; mkh 6 8 5 3; mkh 15 16 4 3; mkh 0 27 1 5;
     mkh 11 12 3 3; mkh 4 22 6 6; mkh 21 4 6 0; mkh 10 24 7 6;
     mkh 23 10 7 0; mkh 2 10 2 6; mkh 28 14 8 5; mkh 19 0 1 7;
     mkh 14 26 8 7; mkh 1 7 0 1]
    [(Some 13); (Some 0); (Some 10); (Some 20); (Some 16); (Some 17); (Some 22); (Some 24); (Some 28)]
    [false; false; false; false; false; false; false; false; false; false;
     false; false; false; false; false].
Example step12_tables : (d_verts s12, d_hedges s12, d_faces s12, d_flags s12) = (d_verts o12, d_hedges o12, d_faces o12, d_flags o12).
Proof. vm_compute. reflexivity. Qed.
Example step12 : r12 = (o12, (7, (0, 28))).
Proof. vm_compute. reflexivity. Qed.

(* O 12 prim cnf 5 4626322717216342016 4626322717216342016 9 / R 8 *)
Definition r13 := create_new_face_adjacent_to_edge s12 5 (mkvd 4626322717216342016 4626322717216342016 9).
Definition s13 : dcel := fst r13.
Definition o13 : dcel := mkdcel
    [mkv 0 0 1 (Some 22); mkv 4616189618054758400 0 2 (Some 29);
     mkv 4620693217682128896 0 3 (Some 2); mkv 4611686018427387904 0 4 (Some 4);
     mkv 4613937818241073152 4617315517961601024 5 (Some 8); mkv 4613937818241073152 4607182418800017408 6 (Some 15);
     mkv 4607182418800017408 4607182418800017408 7 (Some 11); mkv 4621256167635550208 4621256167635550208 8 (Some 28);
     mkv 4626322717216342016 4626322717216342016 9 (Some 32)]
    [mkh 27 19 1 3; mkh 13 29 0 7; mkh 3 25 2 0; mkh 2 3 2 0;
     mkh 22 21 6 3; mkh 30 32 9 0; mkh 8 17 5 1; mkh 29 9 0 4;
     mkh 17 6 5 4; mkh 7 31 0 3; mkh 24 23 7 0; mkh 12 20 3 6;
     mkh 20 11 3 0; mkh 33 1 0 3; mkh 26 28 8 1; mkh 16 18 4 5;
     mkh 18 15 4 1; mkh 6 8 5 3; mkh 15 16 4 3; mkh 0 27 1 5;
     mkh 11 12 3 3; mkh 4 22 6 6; mkh 21 4 6 0; mkh 10 24 7 6;
     mkh 23 10 7 0; mkh 2 10 2 6; mkh 28 14 8 5; mkh 19 0 1 7;
     mkh 14 26 8 7; mkh 1 7 0 1; mkh 32 5 9 3; mkh 9 33 0 8;
     mkh 5 30 9 8; mkh 31 13 0 0]
    [(Some 33); (Some 0); (Some 10); (Some 20); (Some 16); (Some 17); (Some 22); (Some 24); (Some 28); (Some 5)]
    [false; false; false; false; false; false; false; false; false; false;
     false; false; false; false; false; false; false].
Example step13_tables : (d_verts s13, d_hedges s13, d_faces s13, d_flags s13) = (d_verts o13, d_hedges o13, d_faces o13, d_flags o13).
Proof. vm_compute. reflexivity. Qed.
Example step13 : r13 = (o13, 8).
Proof. vm_compute. reflexivity. Qed.

End Sample.

Module Run2.   (* replay of /tmp/t2-work/run2.out *)
Definition s0 : dcel := dcel_new.

(* O 0 prim ifv 0 4607182418800017408 4611686018427387904 11 / R 0 *)
Definition r1 := insert_first_vertex s0 (mkvd 4607182418800017408 4611686018427387904 11).
Definition s1 : dcel := fst r1.
Definition o1 : dcel := mkdcel
    [mkv 4607182418800017408 4611686018427387904 11 None]
    []
    [None]
    [].
Example step1_tables : (d_verts s1, d_hedges s1, d_faces s1, d_flags s1) = (d_verts o1, d_hedges o1, d_faces o1, d_flags o1).
Proof. vm_compute. reflexivity. Qed.
Example step1 : r1 = (o1, 0).
Proof. vm_compute. reflexivity. Qed.

(* O 1 prim isv 0 4613937818241073152 4611686018427387904 12 / R 1 *)
Definition r2 := insert_second_vertex s1 (mkvd 4613937818241073152 4611686018427387904 12).
Definition s2 : dcel := fst r2.
Definition o2 : dcel := mkdcel
    [mkv 4607182418800017408 4611686018427387904 11 (Some 0); mkv 4613937818241073152 4611686018427387904 12 (Some 1)]
    [mkh 1 1 0 0; mkh 0 0 0 1]
    [(Some 0)]
    [false].
Example step2_tables : (d_verts s2, d_hedges s2, d_faces s2, d_flags s2) = (d_verts o2, d_hedges o2, d_faces o2, d_flags o2).
Proof. vm_compute. reflexivity. Qed.
Example step2 : r2 = (o2, 1).
Proof. vm_compute. reflexivity. Qed.

(* O 2 prim sel 0 4611686018427387904 4611686018427387904 13 / R 2 0 2 *)
Definition r3 := split_edge_when_all_vertices_on_line s2 0 (mkvd 4611686018427387904 4611686018427387904 13).
Definition s3 : dcel := fst r3.
Definition o3 : dcel := mkdcel
    [mkv 4607182418800017408 4611686018427387904 11 (Some 0); mkv 4613937818241073152 4611686018427387904 12 (Some 3);
     mkv 4611686018427387904 4611686018427387904 13 (Some 2)]
    [mkh 2 1 0 0; mkh 0 3 0 2; mkh 3 0 0 2; mkh 1 2 0 1]
    [(Some 0)]
    [false; false].
Example step3_tables : (d_verts s3, d_hedges s3, d_faces s3, d_flags s3) = (d_verts o3, d_hedges o3, d_faces o3, d_flags o3).
Proof. vm_compute. reflexivity. Qed.
Example step3 : r3 = (o3, ((0, 2), 2)).
Proof. vm_compute. reflexivity. Qed.

(* O 3 prim sel 3 4612811918334230528 4611686018427387904 14 / R 3 3 4 *)
Definition r4 := split_edge_when_all_vertices_on_line s3 3 (mkvd 4612811918334230528 4611686018427387904 14).
Definition s4 : dcel := fst r4.
Definition o4 : dcel := mkdcel
    [mkv 4607182418800017408 4611686018427387904 11 (Some 0); mkv 4613937818241073152 4611686018427387904 12 (Some 3);
     mkv 4611686018427387904 4611686018427387904 13 (Some 5); mkv 4612811918334230528 4611686018427387904 14 (Some 4)]
    [mkh 5 1 0 0; mkh 0 4 0 2; mkh 3 5 0 3; mkh 4 2 0 1;
     mkh 1 3 0 3; mkh 2 0 0 2]
    [(Some 0)]
    [false; false; false].
Example step4_tables : (d_verts s4, d_hedges s4, d_faces s4, d_flags s4) = (d_verts o4, d_hedges o4, d_faces o4, d_flags o4).
Proof. vm_compute. reflexivity. Qed.
Example step4 : r4 = (o4, ((3, 4), 3)).
Proof. vm_compute. reflexivity. Qed.

(* O 4 prim ext 1 4616189618054758400 4611686018427387904 15 / R 4 *)
Definition r5 := extend_line s4 1 (mkvd 4616189618054758400 4611686018427387904 15).
Definition s5 : dcel := fst r5.
Definition o5 : dcel := mkdcel
    [mkv 4607182418800017408 4611686018427387904 11 (Some 0); mkv 4613937818241073152 4611686018427387904 12 (Some 3);
     mkv 4611686018427387904 4611686018427387904 13 (Some 5); mkv 4612811918334230528 4611686018427387904 14 (Some 4);
     mkv 4616189618054758400 4611686018427387904 15 (Some 6)]
    [mkh 5 1 0 0; mkh 0 4 0 2; mkh 7 5 0 3; mkh 4 6 0 1;
     mkh 1 3 0 3; mkh 2 0 0 2; mkh 3 7 0 4; mkh 6 2 0 1]
    [(Some 0)]
    [false; false; false; false].
Example step5_tables : (d_verts s5, d_hedges s5, d_faces s5, d_flags s5) = (d_verts o5, d_hedges o5, d_faces o5, d_flags o5).
Proof. vm_compute. reflexivity. Qed.
Example step5 : r5 = (o5, 4).
Proof. vm_compute. reflexivity. Qed.

(* O 5 prim ext 0 0 4611686018427387904 16 / R 5 *)
Definition r6 := extend_line s5 0 (mkvd 0 4611686018427387904 16).
Definition s6 : dcel := fst r6.
Definition o6 : dcel := mkdcel
    [mkv 4607182418800017408 4611686018427387904 11 (Some 0); mkv 4613937818241073152 4611686018427387904 12 (Some 3);
     mkv 4611686018427387904 4611686018427387904 13 (Some 5); mkv 4612811918334230528 4611686018427387904 14 (Some 4);
     mkv 4616189618054758400 4611686018427387904 15 (Some 6); mkv 0 4611686018427387904 16 (Some 8)]
    [mkh 5 8 0 0; mkh 9 4 0 2; mkh 7 5 0 3; mkh 4 6 0 1;
     mkh 1 3 0 3; mkh 2 0 0 2; mkh 3 7 0 4; mkh 6 2 0 1;
     mkh 0 9 0 5; mkh 8 1 0 0]
    [(Some 0)]
    [false; false; false; false; false].
Example step6_tables : (d_verts s6, d_hedges s6, d_faces s6, d_flags s6) = (d_verts o6, d_hedges o6, d_faces o6, d_flags o6).
Proof. vm_compute. reflexivity. Qed.
Example step6 : r6 = (o6, 5).
Proof. vm_compute. reflexivity. Qed.

(* O 6 prim cnf 3 4611686018427387904 4616189618054758400 17 / R 6 *)
Definition r7 := create_new_face_adjacent_to_edge s6 3 (mkvd 4611686018427387904 4616189618054758400 17).
Definition s7 : dcel := fst r7.
Definition o7 : dcel := mkdcel
    [mkv 4607182418800017408 4611686018427387904 11 (Some 0); mkv 4613937818241073152 4611686018427387904 12 (Some 3);
     mkv 4611686018427387904 4611686018427387904 13 (Some 5); mkv 4612811918334230528 4611686018427387904 14 (Some 4);
     mkv 4616189618054758400 4611686018427387904 15 (Some 6); mkv 0 4611686018427387904 16 (Some 8);
     mkv 4611686018427387904 4616189618054758400 17 (Some 12)]
    [mkh 5 8 0 0; mkh 9 4 0 2; mkh 7 5 0 3; mkh 10 12 1 1;
     mkh 1 11 0 3; mkh 2 0 0 2; mkh 13 7 0 4; mkh 6 2 0 1;
     mkh 0 9 0 5; mkh 8 1 0 0; mkh 12 3 1 3; mkh 4 13 0 6;
     mkh 3 10 1 6; mkh 11 6 0 1]
    [(Some 13); (Some 3)]
    [false; false; false; false; false; false; false].
Example step7_tables : (d_verts s7, d_hedges s7, d_faces s7, d_flags s7) = (d_verts o7, d_hedges o7, d_faces o7, d_flags o7).
Proof. vm_compute. reflexivity. Qed.
Example step7 : r7 = (o7, 6).
Proof. vm_compute. reflexivity. Qed.

(* O 7 prim cnf 2 4611686018427387904 13830554455654793216 18 / R 7 *)
Definition r8 := create_new_face_adjacent_to_edge s7 2 (mkvd 4611686018427387904 13830554455654793216 18).
Definition s8 : dcel := fst r8.
Definition o8 : dcel := mkdcel
    [mkv 4607182418800017408 4611686018427387904 11 (Some 0); mkv 4613937818241073152 4611686018427387904 12 (Some 3);
     mkv 4611686018427387904 4611686018427387904 13 (Some 5); mkv 4612811918334230528 4611686018427387904 14 (Some 4);
     mkv 4616189618054758400 4611686018427387904 15 (Some 6); mkv 0 4611686018427387904 16 (Some 8);
     mkv 4611686018427387904 4616189618054758400 17 (Some 12); mkv 4611686018427387904 13830554455654793216 18 (Some 16)]
    [mkh 5 8 0 0; mkh 9 4 0 2; mkh 14 16 2 3; mkh 10 12 1 1;
     mkh 1 11 0 3; mkh 17 0 0 2; mkh 13 7 0 4; mkh 6 15 0 1;
     mkh 0 9 0 5; mkh 8 1 0 0; mkh 12 3 1 3; mkh 4 13 0 6;
     mkh 3 10 1 6; mkh 11 6 0 1; mkh 16 2 2 1; mkh 7 17 0 7;
     mkh 2 14 2 7; mkh 15 5 0 3]
    [(Some 17); (Some 3); (Some 2)]
    [false; false; false; false; false; false; false; false; false].
Example step8_tables : (d_verts s8, d_hedges s8, d_faces s8, d_flags s8) = (d_verts o8, d_hedges o8, d_faces o8, d_flags o8).
Proof. vm_compute. reflexivity. Qed.
Example step8 : r8 = (o8, 7).
Proof. vm_compute. reflexivity. Qed.

(* O 8 prim csf 1 / R 19 *)
Definition r9 := create_single_face_between_edge_and_next s8 1.
Definition s9 : dcel := fst r9.
Definition o9 : dcel := mkdcel
    [mkv 4607182418800017408 4611686018427387904 11 (Some 0); mkv 4613937818241073152 4611686018427387904 12 (Some 3);
     mkv 4611686018427387904 4611686018427387904 13 (Some 5); mkv 4612811918334230528 4611686018427387904 14 (Some 4);
     mkv 4616189618054758400 4611686018427387904 15 (Some 6); mkv 0 4611686018427387904 16 (Some 8);
     mkv 4611686018427387904 4616189618054758400 17 (Some 12); mkv 4611686018427387904 13830554455654793216 18 (Some 16)]
    [mkh 5 8 0 0; mkh 9 18 3 2; mkh 14 16 2 3; mkh 10 12 1 1;
     mkh 19 11 0 3; mkh 17 0 0 2; mkh 13 7 0 4; mkh 6 15 0 1;
     mkh 0 19 0 5; mkh 18 1 3 0; mkh 12 3 1 3; mkh 4 13 0 6;
     mkh 3 10 1 6; mkh 11 6 0 1; mkh 16 2 2 1; mkh 7 17 0 7;
     mkh 2 14 2 7; mkh 15 5 0 3; mkh 1 9 3 5; mkh 8 4 0 2]
    [(Some 19); (Some 3); (Some 2); (Some 18)]
    [false; false; false; false; false; false; false; false; false; false].
Example step9_tables : (d_verts s9, d_hedges s9, d_faces s9, d_flags s9) = (d_verts o9, d_hedges o9, d_faces o9, d_flags o9).
Proof. vm_compute. reflexivity. Qed.
Example step9 : r9 = (o9, 19).
Proof. vm_compute. reflexivity. Qed.

(* O 9 prim csf 0 / R 21 *)
Definition r10 := create_single_face_between_edge_and_next s9 0.
Definition s10 : dcel := fst r10.
Definition o10 : dcel := mkdcel
    [mkv 4607182418800017408 4611686018427387904 11 (Some 0); mkv 4613937818241073152 4611686018427387904 12 (Some 3);
     mkv 4611686018427387904 4611686018427387904 13 (Some 5); mkv 4612811918334230528 4611686018427387904 14 (Some 4);
     mkv 4616189618054758400 4611686018427387904 15 (Some 6); mkv 0 4611686018427387904 16 (Some 8);
     mkv 4611686018427387904 4616189618054758400 17 (Some 12); mkv 4611686018427387904 13830554455654793216 18 (Some 16)]
    [mkh 5 20 4 0; mkh 9 18 3 2; mkh 14 16 2 3; mkh 10 12 1 1;
     mkh 19 11 0 3; mkh 20 0 4 2; mkh 13 7 0 4; mkh 6 15 0 1;
     mkh 21 19 0 5; mkh 18 1 3 0; mkh 12 3 1 3; mkh 4 13 0 6;
     mkh 3 10 1 6; mkh 11 6 0 1; mkh 16 2 2 1; mkh 7 17 0 7;
     mkh 2 14 2 7; mkh 15 21 0 3; mkh 1 9 3 5; mkh 8 4 0 2;
     mkh 0 5 4 3; mkh 17 8 0 0]
    [(Some 21); (Some 3); (Some 2); (Some 18); (Some 20)]
    [false; false; false; false; false; false; false; false; false; false;
     false].
Example step10_tables : (d_verts s10, d_hedges s10, d_faces s10, d_flags s10) = (d_verts o10, d_hedges o10, d_faces o10, d_flags o10).
Proof. vm_compute. reflexivity. Qed.
Example step10 : r10 = (o10, 21).
Proof. vm_compute. reflexivity. Qed.

(* O 10 prim csf 13 / R 23 *)
Definition r11 := create_single_face_between_edge_and_next s10 13.
Definition s11 : dcel := fst r11.
Definition o11 : dcel := mkdcel
    [mkv 4607182418800017408 4611686018427387904 11 (Some 0); mkv 4613937818241073152 4611686018427387904 12 (Some 3);
     mkv 4611686018427387904 4611686018427387904 13 (Some 5); mkv 4612811918334230528 4611686018427387904 14 (Some 4);
     mkv 4616189618054758400 4611686018427387904 15 (Some 6); mkv 0 4611686018427387904 16 (Some 8);
     mkv 4611686018427387904 4616189618054758400 17 (Some 12); mkv 4611686018427387904 13830554455654793216 18 (Some 16)]
    [mkh 5 20 4 0; mkh 9 18 3 2; mkh 14 16 2 3; mkh 10 12 1 1;
     mkh 19 23 0 3; mkh 20 0 4 2; mkh 23 7 0 4; mkh 6 15 0 1;
     mkh 21 19 0 5; mkh 18 1 3 0; mkh 12 3 1 3; mkh 22 13 5 6;
     mkh 3 10 1 6; mkh 11 22 5 1; mkh 16 2 2 1; mkh 7 17 0 7;
     mkh 2 14 2 7; mkh 15 21 0 3; mkh 1 9 3 5; mkh 8 4 0 2;
     mkh 0 5 4 3; mkh 17 8 0 0; mkh 13 11 5 3; mkh 4 6 0 1]
    [(Some 23); (Some 3); (Some 2); (Some 18); (Some 20); (Some 22)]
    [false; false; false; false; false; false; false; false; false; false;
     false; false].
Example step11_tables : (d_verts s11, d_hedges s11, d_faces s11, d_flags s11) = (d_verts o11, d_hedges o11, d_faces o11, d_flags o11).
Proof. vm_compute. reflexivity. Qed.
Example step11 : r11 = (o11, 23).
Proof. vm_compute. reflexivity. Qed.

(* O 11 prim iit 3 4612811918334230528 4613937818241073152 19 / R 8 *)
Definition r12 := insert_into_triangle s11 (mkvd 4612811918334230528 4613937818241073152 19) 3.
Definition s12 : dcel := fst r12.
Definition o12 : dcel := mkdcel
    [mkv 4607182418800017408 4611686018427387904 11 (Some 0); mkv 4613937818241073152 4611686018427387904 12 (Some 3);
     mkv 4611686018427387904 4611686018427387904 13 (Some 5); mkv 4612811918334230528 4611686018427387904 14 (Some 4);
     mkv 4616189618054758400 4611686018427387904 15 (Some 6); mkv 0 4611686018427387904 16 (Some 8);
     mkv 4611686018427387904 4616189618054758400 17 (Some 12); mkv 4611686018427387904 13830554455654793216 18 (Some 16);
     mkv 4612811918334230528 4613937818241073152 19 (Some 25)]
    [mkh 5 20 4 0; mkh 26 25 6 2; mkh 14 16 2 3; mkh 10 12 1 1;
     mkh 19 23 0 3; mkh 20 0 4 2; mkh 23 7 0 4; mkh 6 15 0 1;
     mkh 21 19 0 5; mkh 28 27 7 0; mkh 12 3 1 3; mkh 22 13 5 6;
     mkh 3 10 1 6; mkh 11 22 5 1; mkh 16 2 2 1; mkh 7 17 0 7;
     mkh 2 14 2 7; mkh 15 21 0 3; mkh 24 29 3 5; mkh 8 4 0 2;
     mkh 0 5 4 3; mkh 17 8 0 0; mkh 13 11 5 3; mkh 4 6 0 1;
     mkh 29 18 3 2; mkh 1 26 6 8; mkh 25 1 6 0; mkh 9 28 7 8;
     mkh 27 9 7 5; mkh 18 24 3 8]
    [(Some 23); (Some 3); (Some 2); (Some 18); (Some 20); (Some 22); (Some 1); (Some 9)]
    [false; false; false; false; false; false; false; false; false; false;
     false; false; false; false; false].
Example step12_tables : (d_verts s12, d_hedges s12, d_faces s12, d_flags s12) = (d_verts o12, d_hedges o12, d_faces o12, d_flags o12).
Proof. vm_compute. reflexivity. Qed.
Example step12 : r12 = (o12, 8).
Proof. vm_compute. reflexivity. Qed.

(* O 12 prim iit 5 4612811918334230528 4613937818241073152 20 / R 9 *)
Definition r13 := insert_into_triangle s12 (mkvd 4612811918334230528 4613937818241073152 20) 5.
Definition s13 : dcel := fst r13.
Definition o13 : dcel := mkdcel
    [mkv 4607182418800017408 4611686018427387904 11 (Some 0); mkv 4613937818241073152 4611686018427387904 12 (Some 3);
     mkv 4611686018427387904 4611686018427387904 13 (Some 5); mkv 4612811918334230528 4611686018427387904 14 (Some 4);
     mkv 4616189618054758400 4611686018427387904 15 (Some 6); mkv 0 4611686018427387904 16 (Some 8);
     mkv 4611686018427387904 4616189618054758400 17 (Some 12); mkv 4611686018427387904 13830554455654793216 18 (Some 16);
     mkv 4612811918334230528 4613937818241073152 19 (Some 25); mkv 4612811918334230528 4613937818241073152 20 (Some 31)]
    [mkh 5 20 4 0; mkh 26 25 6 2; mkh 14 16 2 3; mkh 10 12 1 1;
     mkh 19 23 0 3; mkh 20 0 4 2; mkh 23 7 0 4; mkh 6 15 0 1;
     mkh 21 19 0 5; mkh 28 27 7 0; mkh 12 3 1 3; mkh 34 33 9 6;
     mkh 3 10 1 6; mkh 32 31 8 1; mkh 16 2 2 1; mkh 7 17 0 7;
     mkh 2 14 2 7; mkh 15 21 0 3; mkh 24 29 3 5; mkh 8 4 0 2;
     mkh 0 5 4 3; mkh 17 8 0 0; mkh 30 35 5 3; mkh 4 6 0 1;
     mkh 29 18 3 2; mkh 1 26 6 8; mkh 25 1 6 0; mkh 9 28 7 8;
     mkh 27 9 7 5; mkh 18 24 3 8; mkh 35 22 5 1; mkh 13 32 8 9;
     mkh 31 13 8 6; mkh 11 34 9 9; mkh 33 11 9 3; mkh 22 30 5 9]
    [(Some 23); (Some 3); (Some 2); (Some 18); (Some 20); (Some 22); (Some 1); (Some 9); (Some 13); (Some 11)]
    [false; false; false; false; false; false; false; false; false; false;
     false; false; false; false; false; false; false; false].
Example step13_tables : (d_verts s13, d_hedges s13, d_faces s13, d_flags s13) = (d_verts o13, d_hedges o13, d_faces o13, d_flags o13).
Proof. vm_compute. reflexivity. Qed.
Example step13 : r13 = (o13, 9).
Proof. vm_compute. reflexivity. Qed.

(* O 13 prim flip 5 / R ok *)
Definition r14 := flip_cw s13 5.
Definition s14 : dcel := fst r14.
Definition o14 : dcel := mkdcel
    [mkv 4607182418800017408 4611686018427387904 11 (Some 0); mkv 4613937818241073152 4611686018427387904 12 (Some 3);
     mkv 4611686018427387904 4611686018427387904 13 (Some 5); mkv 4612811918334230528 4611686018427387904 14 (Some 34);
     mkv 4616189618054758400 4611686018427387904 15 (Some 6); mkv 0 4611686018427387904 16 (Some 8);
     mkv 4611686018427387904 4616189618054758400 17 (Some 12); mkv 4611686018427387904 13830554455654793216 18 (Some 16);
     mkv 4612811918334230528 4613937818241073152 19 (Some 25); mkv 4612811918334230528 4613937818241073152 20 (Some 31)]
    [mkh 5 20 4 0; mkh 26 25 6 2; mkh 14 16 2 3; mkh 34 11 9 1;
     mkh 19 23 0 3; mkh 20 0 4 2; mkh 23 7 0 4; mkh 6 15 0 1;
     mkh 21 19 0 5; mkh 28 27 7 0; mkh 33 12 1 1; mkh 3 34 9 9;
     mkh 10 33 1 6; mkh 32 31 8 1; mkh 16 2 2 1; mkh 7 17 0 7;
     mkh 2 14 2 7; mkh 15 21 0 3; mkh 24 29 3 5; mkh 8 4 0 2;
     mkh 0 5 4 3; mkh 17 8 0 0; mkh 30 35 5 3; mkh 4 6 0 1;
     mkh 29 18 3 2; mkh 1 26 6 8; mkh 25 1 6 0; mkh 9 28 7 8;
     mkh 27 9 7 5; mkh 18 24 3 8; mkh 35 22 5 1; mkh 13 32 8 9;
     mkh 31 13 8 6; mkh 12 10 1 9; mkh 11 3 9 3; mkh 22 30 5 9]
    [(Some 23); (Some 10); (Some 2); (Some 18); (Some 20); (Some 22); (Some 1); (Some 9); (Some 13); (Some 11)]
    [false; false; false; false; false; false; false; false; false; false;
     false; false; false; false; false; false; false; false].
Example step14_tables : (d_verts s14, d_hedges s14, d_faces s14, d_flags s14) = (d_verts o14, d_hedges o14, d_faces o14, d_flags o14).
Proof. vm_compute. reflexivity. Qed.
Example step14 : r14 = (o14, tt).
Proof. vm_compute. reflexivity. Qed.

(* O 14 prim flip 13 / R ok *)
Definition r15 := flip_cw s14 13.
Definition s15 : dcel := fst r15.
Definition o15 : dcel := mkdcel
    [mkv 4607182418800017408 4611686018427387904 11 (Some 9); mkv 4613937818241073152 4611686018427387904 12 (Some 3);
     mkv 4611686018427387904 4611686018427387904 13 (Some 5); mkv 4612811918334230528 4611686018427387904 14 (Some 34);
     mkv 4616189618054758400 4611686018427387904 15 (Some 6); mkv 0 4611686018427387904 16 (Some 8);
     mkv 4611686018427387904 4616189618054758400 17 (Some 12); mkv 4611686018427387904 13830554455654793216 18 (Some 16);
     mkv 4612811918334230528 4613937818241073152 19 (Some 25); mkv 4612811918334230528 4613937818241073152 20 (Some 31)]
    [mkh 5 20 4 0; mkh 9 27 7 2; mkh 14 16 2 3; mkh 34 11 9 1;
     mkh 19 23 0 3; mkh 20 0 4 2; mkh 23 7 0 4; mkh 6 15 0 1;
     mkh 21 19 0 5; mkh 27 1 7 0; mkh 33 12 1 1; mkh 3 34 9 9;
     mkh 10 33 1 6; mkh 32 31 8 1; mkh 16 2 2 1; mkh 7 17 0 7;
     mkh 2 14 2 7; mkh 15 21 0 3; mkh 24 29 3 5; mkh 8 4 0 2;
     mkh 0 5 4 3; mkh 17 8 0 0; mkh 30 35 5 3; mkh 4 6 0 1;
     mkh 29 18 3 2; mkh 26 28 6 8; mkh 28 25 6 2; mkh 1 9 7 5;
     mkh 25 26 6 5; mkh 18 24 3 8; mkh 35 22 5 1; mkh 13 32 8 9;
     mkh 31 13 8 6; mkh 12 10 1 9; mkh 11 3 9 3; mkh 22 30 5 9]
    [(Some 23); (Some 10); (Some 2); (Some 18); (Some 20); (Some 22); (Some 26); (Some 27); (Some 13); (Some 11)]
    [false; false; false; false; false; false; false; false; false; false;
     false; false; false; false; false; false; false; false].
Example step15_tables : (d_verts s15, d_hedges s15, d_faces s15, d_flags s15) = (d_verts o15, d_hedges o15, d_faces o15, d_flags o15).
Proof. vm_compute. reflexivity. Qed.
Example step15 : r15 = (o15, tt).
Proof. vm_compute. reflexivity. Qed.

(* O 15 prim flip 1 / R ok *)
Definition r16 := flip_cw s15 1.
Definition s16 : dcel := fst r16.
Definition o16 : dcel := mkdcel
    [mkv 4607182418800017408 4611686018427387904 11 (Some 9); mkv 4613937818241073152 4611686018427387904 12 (Some 14);
     mkv 4611686018427387904 4611686018427387904 13 (Some 5); mkv 4612811918334230528 4611686018427387904 14 (Some 34);
     mkv 4616189618054758400 4611686018427387904 15 (Some 6); mkv 0 4611686018427387904 16 (Some 8);
     mkv 4611686018427387904 4616189618054758400 17 (Some 12); mkv 4611686018427387904 13830554455654793216 18 (Some 16);
     mkv 4612811918334230528 4613937818241073152 19 (Some 25); mkv 4612811918334230528 4613937818241073152 20 (Some 31)]
    [mkh 5 20 4 0; mkh 9 27 7 2; mkh 11 14 2 7; mkh 16 34 9 9;
     mkh 19 23 0 3; mkh 20 0 4 2; mkh 23 7 0 4; mkh 6 15 0 1;
     mkh 21 19 0 5; mkh 27 1 7 0; mkh 33 12 1 1; mkh 14 2 2 9;
     mkh 10 33 1 6; mkh 32 31 8 1; mkh 2 11 2 1; mkh 7 17 0 7;
     mkh 34 3 9 7; mkh 15 21 0 3; mkh 24 29 3 5; mkh 8 4 0 2;
     mkh 0 5 4 3; mkh 17 8 0 0; mkh 30 35 5 3; mkh 4 6 0 1;
     mkh 29 18 3 2; mkh 26 28 6 8; mkh 28 25 6 2; mkh 1 9 7 5;
     mkh 25 26 6 5; mkh 18 24 3 8; mkh 35 22 5 1; mkh 13 32 8 9;
     mkh 31 13 8 6; mkh 12 10 1 9; mkh 3 16 9 3; mkh 22 30 5 9]
    [(Some 23); (Some 10); (Some 2); (Some 18); (Some 20); (Some 22); (Some 26); (Some 27); (Some 13); (Some 3)]
    [false; false; false; false; false; false; false; false; false; false;
     false; false; false; false; false; false; false; false].
Example step16_tables : (d_verts s16, d_hedges s16, d_faces s16, d_flags s16) = (d_verts o16, d_hedges o16, d_faces o16, d_flags o16).
Proof. vm_compute. reflexivity. Qed.
Example step16 : r16 = (o16, tt).
Proof. vm_compute. reflexivity. Qed.

(* O 16 prim se 13 4607182418800017408 4607182418800017408 21 / R 10 13 39 *)
Definition r17 := split_edge s16 13 (mkvd 4607182418800017408 4607182418800017408 21).
Definition s17 : dcel := fst r17.
Definition o17 : dcel := mkdcel
    [mkv 4607182418800017408 4611686018427387904 11 (Some 9); mkv 4613937818241073152 4611686018427387904 12 (Some 14);
     mkv 4611686018427387904 4611686018427387904 13 (Some 5); mkv 4612811918334230528 4611686018427387904 14 (Some 34);
     mkv 4616189618054758400 4611686018427387904 15 (Some 6); mkv 0 4611686018427387904 16 (Some 8);
     mkv 4611686018427387904 4616189618054758400 17 (Some 38); mkv 4611686018427387904 13830554455654793216 18 (Some 16);
     mkv 4612811918334230528 4613937818241073152 19 (Some 25); mkv 4612811918334230528 4613937818241073152 20 (Some 31);
     mkv 4607182418800017408 4607182418800017408 21 (Some 12)]
    [mkh 5 20 4 0; mkh 9 27 7 2; mkh 11 14 2 7; mkh 16 34 9 9;
     mkh 19 23 0 3; mkh 20 0 4 2; mkh 23 7 0 4; mkh 6 15 0 1;
     mkh 21 19 0 5; mkh 27 1 7 0; mkh 36 12 1 1; mkh 14 2 2 9;
     mkh 10 36 1 10; mkh 41 31 8 1; mkh 2 11 2 1; mkh 7 17 0 7;
     mkh 34 3 9 7; mkh 15 21 0 3; mkh 24 29 3 5; mkh 8 4 0 2;
     mkh 0 5 4 3; mkh 17 8 0 0; mkh 30 35 5 3; mkh 4 6 0 1;
     mkh 29 18 3 2; mkh 26 28 6 8; mkh 28 25 6 2; mkh 1 9 7 5;
     mkh 25 26 6 5; mkh 18 24 3 8; mkh 35 22 5 1; mkh 13 41 8 9;
     mkh 40 39 11 6; mkh 38 37 10 9; mkh 3 16 9 3; mkh 22 30 5 9;
     mkh 12 10 1 9; mkh 33 38 10 10; mkh 37 33 10 6; mkh 32 40 11 10;
     mkh 39 32 11 9; mkh 31 13 8 10]
    [(Some 23); (Some 36); (Some 2); (Some 18); (Some 20); (Some 22); (Some 26); (Some 27); (Some 13); (Some 3);
     (Some 38); (Some 40)]
    [false; false; false; false; false; false; false; false; false; false;
     false; false; false; false; false; false; false; false; false; false;
     false].
Example step17_tables : (d_verts s17, d_hedges s17, d_faces s17, d_flags s17) = (d_verts o17, d_hedges o17, d_faces o17, d_flags o17).
Proof. vm_compute. reflexivity. Qed.
Example step17 : r17 = (o17, (10, (13, 39))).
Proof. vm_compute. reflexivity. Qed.

(* O 17 prim se 28 4607182418800017408 4607182418800017408 22 / R 11 28 45 *)
Definition r18 := split_edge s17 28 (mkvd 4607182418800017408 4607182418800017408 22).
Definition s18 : dcel := fst r18.
Definition o18 : dcel := mkdcel
    [mkv 4607182418800017408 4611686018427387904 11 (Some 9); mkv 4613937818241073152 4611686018427387904 12 (Some 14);
     mkv 4611686018427387904 4611686018427387904 13 (Some 5); mkv 4612811918334230528 4611686018427387904 14 (Some 34);
     mkv 4616189618054758400 4611686018427387904 15 (Some 6); mkv 0 4611686018427387904 16 (Some 8);
     mkv 4611686018427387904 4616189618054758400 17 (Some 38); mkv 4611686018427387904 13830554455654793216 18 (Some 16);
     mkv 4612811918334230528 4613937818241073152 19 (Some 44); mkv 4612811918334230528 4613937818241073152 20 (Some 31);
     mkv 4607182418800017408 4607182418800017408 21 (Some 12); mkv 4607182418800017408 4607182418800017408 22 (Some 29)]
    [mkh 5 20 4 0; mkh 9 27 7 2; mkh 11 14 2 7; mkh 16 34 9 9;
     mkh 19 23 0 3; mkh 20 0 4 2; mkh 23 7 0 4; mkh 6 15 0 1;
     mkh 21 19 0 5; mkh 27 1 7 0; mkh 36 12 1 1; mkh 14 2 2 9;
     mkh 10 36 1 10; mkh 41 31 8 1; mkh 2 11 2 1; mkh 7 17 0 7;
     mkh 34 3 9 7; mkh 15 21 0 3; mkh 42 29 3 5; mkh 8 4 0 2;
     mkh 0 5 4 3; mkh 17 8 0 0; mkh 30 35 5 3; mkh 4 6 0 1;
     mkh 44 43 12 2; mkh 46 45 13 8; mkh 28 47 6 2; mkh 1 9 7 5;
     mkh 47 26 6 5; mkh 18 42 3 11; mkh 35 22 5 1; mkh 13 41 8 9;
     mkh 40 39 11 6; mkh 38 37 10 9; mkh 3 16 9 3; mkh 22 30 5 9;
     mkh 12 10 1 9; mkh 33 38 10 10; mkh 37 33 10 6; mkh 32 40 11 10;
     mkh 39 32 11 9; mkh 31 13 8 10; mkh 29 18 3 2; mkh 24 44 12 11;
     mkh 43 24 12 8; mkh 25 46 13 11; mkh 45 25 13 2; mkh 26 28 6 11]
    [(Some 23); (Some 36); (Some 2); (Some 42); (Some 20); (Some 22); (Some 28); (Some 27); (Some 13); (Some 3);
     (Some 38); (Some 40); (Some 44); (Some 46)]
    [false; false; false; false; false; false; false; false; false; false;
     false; false; false; false; false; false; false; false; false; false;
     false; false; false; false].
Example step18_tables : (d_verts s18, d_hedges s18, d_faces s18, d_flags s18) = (d_verts o18, d_hedges o18, d_faces o18, d_flags o18).
Proof. vm_compute. reflexivity. Qed.
Example step18 : r18 = (o18, (11, (28, 45))).
Proof. vm_compute. reflexivity. Qed.

(* O 18 prim she 9 4621256167635550208 4621256167635550208 23 / R 12 9 50 *)
Definition r19 := split_half_edge s18 9 (mkvd 4621256167635550208 4621256167635550208 23).
Definition s19 : dcel := fst r19.
Definition o19 : dcel := mkdcel
    [mkv 4607182418800017408 4611686018427387904 11 (Some 9); mkv 4613937818241073152 4611686018427387904 12 (Some 14);
     mkv 4611686018427387904 4611686018427387904 13 (Some 5); mkv 4612811918334230528 4611686018427387904 14 (Some 34);
     mkv 4616189618054758400 4611686018427387904 15 (Some 6); mkv 0 4611686018427387904 16 (Some 51);
     mkv 4611686018427387904 4616189618054758400 17 (Some 38); mkv 4611686018427387904 13830554455654793216 18 (Some 16);
     mkv 4612811918334230528 4613937818241073152 19 (Some 44); mkv 4612811918334230528 4613937818241073152 20 (Some 31);
     mkv 4607182418800017408 4607182418800017408 21 (Some 12); mkv 4607182418800017408 4607182418800017408 22 (Some 29);
     mkv 4621256167635550208 4621256167635550208 23 (Some 50)]
    [mkh 5 20 4 0; mkh 9 49 7 2; mkh 11 14 2 7; mkh 16 34 9 9;
     mkh 19 23 0 3; mkh 20 0 4 2; mkh 23 7 0 4; mkh 6 15 0 1;
     mkh 21 51 0 12; mkh 49 1 7 0; mkh 36 12 1 1; mkh 14 2 2 9;
     mkh 10 36 1 10; mkh 41 31 8 1; mkh 2 11 2 1; mkh 7 17 0 7;
     mkh 34 3 9 7; mkh 15 21 0 3; mkh 42 29 3 5; mkh 51 4 0 2;
     mkh 0 5 4 3; mkh 17 8 0 0; mkh 30 35 5 3; mkh 4 6 0 1;
     mkh 44 43 12 2; mkh 46 45 13 8; mkh 28 47 6 2; mkh 48 50 14 5;
     mkh 47 26 6 5; mkh 18 42 3 11; mkh 35 22 5 1; mkh 13 41 8 9;
     mkh 40 39 11 6; mkh 38 37 10 9; mkh 3 16 9 3; mkh 22 30 5 9;
     mkh 12 10 1 9; mkh 33 38 10 10; mkh 37 33 10 6; mkh 32 40 11 10;
     mkh 39 32 11 9; mkh 31 13 8 10; mkh 29 18 3 2; mkh 24 44 12 11;
     mkh 43 24 12 8; mkh 25 46 13 11; mkh 45 25 13 2; mkh 26 28 6 11;
     mkh 50 27 14 2; mkh 1 9 7 12; mkh 27 48 14 12; mkh 8 19 0 5]
    [(Some 23); (Some 36); (Some 2); (Some 42); (Some 20); (Some 22); (Some 28); (Some 9); (Some 13); (Some 3);
     (Some 38); (Some 40); (Some 44); (Some 46); (Some 50)]
    [false; false; false; false; false; false; false; false; false; false;
     false; false; false; false; false; false; false; false; false; false;
     false; false; false; false; false; false].
Example step19_tables : (d_verts s19, d_hedges s19, d_faces s19, d_flags s19) = (d_verts o19, d_hedges o19, d_faces o19, d_flags o19).
Proof. vm_compute. reflexivity. Qed.
Example step19 : r19 = (o19, (12, (9, 50))).
Proof. vm_compute. reflexivity. Qed.

(* O 19 prim she 14 4621256167635550208 4621256167635550208 24 / R 13 14 54 *)
Definition r20 := split_half_edge s19 14 (mkvd 4621256167635550208 4621256167635550208 24).
Definition s20 : dcel := fst r20.
Definition o20 : dcel := mkdcel
    [mkv 4607182418800017408 4611686018427387904 11 (Some 9); mkv 4613937818241073152 4611686018427387904 12 (Some 14);
     mkv 4611686018427387904 4611686018427387904 13 (Some 5); mkv 4612811918334230528 4611686018427387904 14 (Some 34);
     mkv 4616189618054758400 4611686018427387904 15 (Some 6); mkv 0 4611686018427387904 16 (Some 51);
     mkv 4611686018427387904 4616189618054758400 17 (Some 38); mkv 4611686018427387904 13830554455654793216 18 (Some 55);
     mkv 4612811918334230528 4613937818241073152 19 (Some 44); mkv 4612811918334230528 4613937818241073152 20 (Some 31);
     mkv 4607182418800017408 4607182418800017408 21 (Some 12); mkv 4607182418800017408 4607182418800017408 22 (Some 29);
     mkv 4621256167635550208 4621256167635550208 23 (Some 50); mkv 4621256167635550208 4621256167635550208 24 (Some 54)]
    [mkh 5 20 4 0; mkh 9 49 7 2; mkh 52 54 15 7; mkh 16 34 9 9;
     mkh 19 23 0 3; mkh 20 0 4 2; mkh 23 7 0 4; mkh 6 15 0 1;
     mkh 21 51 0 12; mkh 49 1 7 0; mkh 36 12 1 1; mkh 14 53 2 9;
     mkh 10 36 1 10; mkh 41 31 8 1; mkh 53 11 2 1; mkh 7 55 0 13;
     mkh 34 3 9 7; mkh 55 21 0 3; mkh 42 29 3 5; mkh 51 4 0 2;
     mkh 0 5 4 3; mkh 17 8 0 0; mkh 30 35 5 3; mkh 4 6 0 1;
     mkh 44 43 12 2; mkh 46 45 13 8; mkh 28 47 6 2; mkh 48 50 14 5;
     mkh 47 26 6 5; mkh 18 42 3 11; mkh 35 22 5 1; mkh 13 41 8 9;
     mkh 40 39 11 6; mkh 38 37 10 9; mkh 3 16 9 3; mkh 22 30 5 9;
     mkh 12 10 1 9; mkh 33 38 10 10; mkh 37 33 10 6; mkh 32 40 11 10;
     mkh 39 32 11 9; mkh 31 13 8 10; mkh 29 18 3 2; mkh 24 44 12 11;
     mkh 43 24 12 8; mkh 25 46 13 11; mkh 45 25 13 2; mkh 26 28 6 11;
     mkh 50 27 14 2; mkh 1 9 7 12; mkh 27 48 14 12; mkh 8 19 0 5;
     mkh 54 2 15 9; mkh 11 14 2 13; mkh 2 52 15 13; mkh 15 17 0 7]
    [(Some 23); (Some 36); (Some 14); (Some 42); (Some 20); (Some 22); (Some 28); (Some 9); (Some 13); (Some 3);
     (Some 38); (Some 40); (Some 44); (Some 46); (Some 50); (Some 54)]
    [false; false; false; false; false; false; false; false; false; false;
     false; false; false; false; false; false; false; false; false; false;
     false; false; false; false; false; false; false; false].
Example step20_tables : (d_verts s20, d_hedges s20, d_faces s20, d_flags s20) = (d_verts o20, d_hedges o20, d_faces o20, d_flags o20).
Proof. vm_compute. reflexivity. Qed.
Example step20 : r20 = (o20, (13, (14, 54))).
Proof. vm_compute. reflexivity. Qed.

(* O 20 prim cnf 15 4626322717216342016 4626322717216342016 25 / R 14 *)
Definition r21 := create_new_face_adjacent_to_edge s20 15 (mkvd 4626322717216342016 4626322717216342016 25).
Definition s21 : dcel := fst r21.
Definition o21 : dcel := mkdcel
    [mkv 4607182418800017408 4611686018427387904 11 (Some 9); mkv 4613937818241073152 4611686018427387904 12 (Some 14);
     mkv 4611686018427387904 4611686018427387904 13 (Some 5); mkv 4612811918334230528 4611686018427387904 14 (Some 34);
     mkv 4616189618054758400 4611686018427387904 15 (Some 6); mkv 0 4611686018427387904 16 (Some 51);
     mkv 4611686018427387904 4616189618054758400 17 (Some 38); mkv 4611686018427387904 13830554455654793216 18 (Some 55);
     mkv 4612811918334230528 4613937818241073152 19 (Some 44); mkv 4612811918334230528 4613937818241073152 20 (Some 31);
     mkv 4607182418800017408 4607182418800017408 21 (Some 12); mkv 4607182418800017408 4607182418800017408 22 (Some 29);
     mkv 4621256167635550208 4621256167635550208 23 (Some 50); mkv 4621256167635550208 4621256167635550208 24 (Some 54);
     mkv 4626322717216342016 4626322717216342016 25 (Some 58)]
    [mkh 5 20 4 0; mkh 9 49 7 2; mkh 52 54 15 7; mkh 16 34 9 9;
     mkh 19 23 0 3; mkh 20 0 4 2; mkh 23 7 0 4; mkh 6 57 0 1;
     mkh 21 51 0 12; mkh 49 1 7 0; mkh 36 12 1 1; mkh 14 53 2 9;
     mkh 10 36 1 10; mkh 41 31 8 1; mkh 53 11 2 1; mkh 56 58 16 13;
     mkh 34 3 9 7; mkh 55 21 0 3; mkh 42 29 3 5; mkh 51 4 0 2;
     mkh 0 5 4 3; mkh 17 8 0 0; mkh 30 35 5 3; mkh 4 6 0 1;
     mkh 44 43 12 2; mkh 46 45 13 8; mkh 28 47 6 2; mkh 48 50 14 5;
     mkh 47 26 6 5; mkh 18 42 3 11; mkh 35 22 5 1; mkh 13 41 8 9;
     mkh 40 39 11 6; mkh 38 37 10 9; mkh 3 16 9 3; mkh 22 30 5 9;
     mkh 12 10 1 9; mkh 33 38 10 10; mkh 37 33 10 6; mkh 32 40 11 10;
     mkh 39 32 11 9; mkh 31 13 8 10; mkh 29 18 3 2; mkh 24 44 12 11;
     mkh 43 24 12 8; mkh 25 46 13 11; mkh 45 25 13 2; mkh 26 28 6 11;
     mkh 50 27 14 2; mkh 1 9 7 12; mkh 27 48 14 12; mkh 8 19 0 5;
     mkh 54 2 15 9; mkh 11 14 2 13; mkh 2 52 15 13; mkh 59 17 0 7;
     mkh 58 15 16 1; mkh 7 59 0 14; mkh 15 56 16 14; mkh 57 55 0 13]
    [(Some 59); (Some 36); (Some 14); (Some 42); (Some 20); (Some 22); (Some 28); (Some 9); (Some 13); (Some 3);
     (Some 38); (Some 40); (Some 44); (Some 46); (Some 50); (Some 54); (Some 15)]
    [false; false; false; false; false; false; false; false; false; false;
     false; false; false; false; false; false; false; false; false; false;
     false; false; false; false; false; false; false; false; false; false].
Example step21_tables : (d_verts s21, d_hedges s21, d_faces s21, d_flags s21) = (d_verts o21, d_hedges o21, d_faces o21, d_flags o21).
Proof. vm_compute. reflexivity. Qed.
Example step21 : r21 = (o21, 14).
Proof. vm_compute. reflexivity. Qed.

(* O 21 prim flip 16 / R ok *)
Definition r22 := flip_cw s21 16.
Definition s22 : dcel := fst r22.
Definition o22 : dcel := mkdcel
    [mkv 4607182418800017408 4611686018427387904 11 (Some 9); mkv 4613937818241073152 4611686018427387904 12 (Some 14);
     mkv 4611686018427387904 4611686018427387904 13 (Some 5); mkv 4612811918334230528 4611686018427387904 14 (Some 34);
     mkv 4616189618054758400 4611686018427387904 15 (Some 6); mkv 0 4611686018427387904 16 (Some 51);
     mkv 4611686018427387904 4616189618054758400 17 (Some 38); mkv 4611686018427387904 13830554455654793216 18 (Some 55);
     mkv 4612811918334230528 4613937818241073152 19 (Some 44); mkv 4612811918334230528 4613937818241073152 20 (Some 40);
     mkv 4607182418800017408 4607182418800017408 21 (Some 12); mkv 4607182418800017408 4607182418800017408 22 (Some 29);
     mkv 4621256167635550208 4621256167635550208 23 (Some 50); mkv 4621256167635550208 4621256167635550208 24 (Some 54);
     mkv 4626322717216342016 4626322717216342016 25 (Some 58)]
    [mkh 5 20 4 0; mkh 9 49 7 2; mkh 52 54 15 7; mkh 16 34 9 9;
     mkh 19 23 0 3; mkh 20 0 4 2; mkh 23 7 0 4; mkh 6 57 0 1;
     mkh 21 51 0 12; mkh 49 1 7 0; mkh 36 12 1 1; mkh 14 53 2 9;
     mkh 10 36 1 10; mkh 41 31 8 1; mkh 53 11 2 1; mkh 56 58 16 13;
     mkh 34 3 9 7; mkh 55 21 0 3; mkh 42 29 3 5; mkh 51 4 0 2;
     mkh 0 5 4 3; mkh 17 8 0 0; mkh 30 35 5 3; mkh 4 6 0 1;
     mkh 44 43 12 2; mkh 46 45 13 8; mkh 28 47 6 2; mkh 48 50 14 5;
     mkh 47 26 6 5; mkh 18 42 3 11; mkh 35 22 5 1; mkh 13 41 8 9;
     mkh 37 40 11 10; mkh 39 38 10 10; mkh 3 16 9 3; mkh 22 30 5 9;
     mkh 12 10 1 9; mkh 40 32 11 10; mkh 33 39 10 6; mkh 38 33 10 10;
     mkh 32 37 11 9; mkh 31 13 8 10; mkh 29 18 3 2; mkh 24 44 12 11;
     mkh 43 24 12 8; mkh 25 46 13 11; mkh 45 25 13 2; mkh 26 28 6 11;
     mkh 50 27 14 2; mkh 1 9 7 12; mkh 27 48 14 12; mkh 8 19 0 5;
     mkh 54 2 15 9; mkh 11 14 2 13; mkh 2 52 15 13; mkh 59 17 0 7;
     mkh 58 15 16 1; mkh 7 59 0 14; mkh 15 56 16 14; mkh 57 55 0 13]
    [(Some 59); (Some 36); (Some 14); (Some 42); (Some 20); (Some 22); (Some 28); (Some 9); (Some 13); (Some 3);
     (Some 33); (Some 32); (Some 44); (Some 46); (Some 50); (Some 54); (Some 15)]
    [false; false; false; false; false; false; false; false; false; false;
     false; false; false; false; false; false; false; false; false; false;
     false; false; false; false; false; false; false; false; false; false].
Example step22_tables : (d_verts s22, d_hedges s22, d_faces s22, d_flags s22) = (d_verts o22, d_hedges o22, d_faces o22, d_flags o22).
Proof. vm_compute. reflexivity. Qed.
Example step22 : r22 = (o22, tt).
Proof. vm_compute. reflexivity. Qed.

(* O 22 prim iit 8 4612811918334230528 4613937818241073152 26 / R 15 *)
Definition r23 := insert_into_triangle s22 (mkvd 4612811918334230528 4613937818241073152 26) 8.
Definition s23 : dcel := fst r23.
Definition o23 : dcel := mkdcel
    [mkv 4607182418800017408 4611686018427387904 11 (Some 9); mkv 4613937818241073152 4611686018427387904 12 (Some 14);
     mkv 4611686018427387904 4611686018427387904 13 (Some 5); mkv 4612811918334230528 4611686018427387904 14 (Some 34);
     mkv 4616189618054758400 4611686018427387904 15 (Some 6); mkv 0 4611686018427387904 16 (Some 51);
     mkv 4611686018427387904 4616189618054758400 17 (Some 38); mkv 4611686018427387904 13830554455654793216 18 (Some 55);
     mkv 4612811918334230528 4613937818241073152 19 (Some 44); mkv 4612811918334230528 4613937818241073152 20 (Some 40);
     mkv 4607182418800017408 4607182418800017408 21 (Some 12); mkv 4607182418800017408 4607182418800017408 22 (Some 29);
     mkv 4621256167635550208 4621256167635550208 23 (Some 50); mkv 4621256167635550208 4621256167635550208 24 (Some 54);
     mkv 4626322717216342016 4626322717216342016 25 (Some 58); mkv 4612811918334230528 4613937818241073152 26 (Some 61)]
    [mkh 5 20 4 0; mkh 9 49 7 2; mkh 52 54 15 7; mkh 16 34 9 9;
     mkh 19 23 0 3; mkh 20 0 4 2; mkh 23 7 0 4; mkh 6 57 0 1;
     mkh 21 51 0 12; mkh 49 1 7 0; mkh 36 12 1 1; mkh 14 53 2 9;
     mkh 10 36 1 10; mkh 60 65 8 1; mkh 53 11 2 1; mkh 56 58 16 13;
     mkh 34 3 9 7; mkh 55 21 0 3; mkh 42 29 3 5; mkh 51 4 0 2;
     mkh 0 5 4 3; mkh 17 8 0 0; mkh 30 35 5 3; mkh 4 6 0 1;
     mkh 44 43 12 2; mkh 46 45 13 8; mkh 28 47 6 2; mkh 48 50 14 5;
     mkh 47 26 6 5; mkh 18 42 3 11; mkh 35 22 5 1; mkh 64 63 18 9;
     mkh 37 40 11 10; mkh 39 38 10 10; mkh 3 16 9 3; mkh 22 30 5 9;
     mkh 12 10 1 9; mkh 40 32 11 10; mkh 33 39 10 6; mkh 38 33 10 10;
     mkh 32 37 11 9; mkh 62 61 17 10; mkh 29 18 3 2; mkh 24 44 12 11;
     mkh 43 24 12 8; mkh 25 46 13 11; mkh 45 25 13 2; mkh 26 28 6 11;
     mkh 50 27 14 2; mkh 1 9 7 12; mkh 27 48 14 12; mkh 8 19 0 5;
     mkh 54 2 15 9; mkh 11 14 2 13; mkh 2 52 15 13; mkh 59 17 0 7;
     mkh 58 15 16 1; mkh 7 59 0 14; mkh 15 56 16 14; mkh 57 55 0 13;
     mkh 65 13 8 10; mkh 41 62 17 15; mkh 61 41 17 9; mkh 31 64 18 15;
     mkh 63 31 18 1; mkh 13 60 8 15]
    [(Some 59); (Some 36); (Some 14); (Some 42); (Some 20); (Some 22); (Some 28); (Some 9); (Some 13); (Some 3);
     (Some 33); (Some 32); (Some 44); (Some 46); (Some 50); (Some 54); (Some 15); (Some 41); (Some 31)]
    [false; false; false; false; false; false; false; false; false; false;
     false; false; false; false; false; false; false; false; false; false;
     false; false; false; false; false; false; false; false; false; false;
     false; false; false].
Example step23_tables : (d_verts s23, d_hedges s23, d_faces s23, d_flags s23) = (d_verts o23, d_hedges o23, d_faces o23, d_flags o23).
Proof. vm_compute. reflexivity. Qed.
Example step23 : r23 = (o23, 15).
Proof. vm_compute. reflexivity. Qed.

(* O 23 prim se 44 4607182418800017408 4607182418800017408 27 / R 16 44 69 *)
Definition r24 := split_edge s23 44 (mkvd 4607182418800017408 4607182418800017408 27).
Definition s24 : dcel := fst r24.
Definition o24 : dcel := mkdcel
    [mkv 4607182418800017408 4611686018427387904 11 (Some 9); mkv 4613937818241073152 4611686018427387904 12 (Some 14);
     mkv 4611686018427387904 4611686018427387904 13 (Some 5); mkv 4612811918334230528 4611686018427387904 14 (Some 34);
     mkv 4616189618054758400 4611686018427387904 15 (Some 6); mkv 0 4611686018427387904 16 (Some 51);
     mkv 4611686018427387904 4616189618054758400 17 (Some 38); mkv 4611686018427387904 13830554455654793216 18 (Some 55);
     mkv 4612811918334230528 4613937818241073152 19 (Some 44); mkv 4612811918334230528 4613937818241073152 20 (Some 40);
     mkv 4607182418800017408 4607182418800017408 21 (Some 12); mkv 4607182418800017408 4607182418800017408 22 (Some 68);
     mkv 4621256167635550208 4621256167635550208 23 (Some 50); mkv 4621256167635550208 4621256167635550208 24 (Some 54);
     mkv 4626322717216342016 4626322717216342016 25 (Some 58); mkv 4612811918334230528 4613937818241073152 26 (Some 61);
     mkv 4607182418800017408 4607182418800017408 27 (Some 45)]
    [mkh 5 20 4 0; mkh 9 49 7 2; mkh 52 54 15 7; mkh 16 34 9 9;
     mkh 19 23 0 3; mkh 20 0 4 2; mkh 23 7 0 4; mkh 6 57 0 1;
     mkh 21 51 0 12; mkh 49 1 7 0; mkh 36 12 1 1; mkh 14 53 2 9;
     mkh 10 36 1 10; mkh 60 65 8 1; mkh 53 11 2 1; mkh 56 58 16 13;
     mkh 34 3 9 7; mkh 55 21 0 3; mkh 42 29 3 5; mkh 51 4 0 2;
     mkh 0 5 4 3; mkh 17 8 0 0; mkh 30 35 5 3; mkh 4 6 0 1;
     mkh 44 71 12 2; mkh 66 45 13 8; mkh 28 47 6 2; mkh 48 50 14 5;
     mkh 47 26 6 5; mkh 18 42 3 11; mkh 35 22 5 1; mkh 64 63 18 9;
     mkh 37 40 11 10; mkh 39 38 10 10; mkh 3 16 9 3; mkh 22 30 5 9;
     mkh 12 10 1 9; mkh 40 32 11 10; mkh 33 39 10 6; mkh 38 33 10 10;
     mkh 32 37 11 9; mkh 62 61 17 10; mkh 29 18 3 2; mkh 70 69 20 11;
     mkh 71 24 12 8; mkh 25 66 13 16; mkh 68 67 19 2; mkh 26 28 6 11;
     mkh 50 27 14 2; mkh 1 9 7 12; mkh 27 48 14 12; mkh 8 19 0 5;
     mkh 54 2 15 9; mkh 11 14 2 13; mkh 2 52 15 13; mkh 59 17 0 7;
     mkh 58 15 16 1; mkh 7 59 0 14; mkh 15 56 16 14; mkh 57 55 0 13;
     mkh 65 13 8 10; mkh 41 62 17 15; mkh 61 41 17 9; mkh 31 64 18 15;
     mkh 63 31 18 1; mkh 13 60 8 15; mkh 45 25 13 2; mkh 46 68 19 16;
     mkh 67 46 19 11; mkh 43 70 20 16; mkh 69 43 20 2; mkh 24 44 12 16]
    [(Some 59); (Some 36); (Some 14); (Some 42); (Some 20); (Some 22); (Some 28); (Some 9); (Some 13); (Some 3);
     (Some 33); (Some 32); (Some 44); (Some 66); (Some 50); (Some 54); (Some 15); (Some 41); (Some 31); (Some 68);
     (Some 70)]
    [false; false; false; false; false; false; false; false; false; false;
     false; false; false; false; false; false; false; false; false; false;
     false; false; false; false; false; false; false; false; false; false;
     false; false; false; false; false; false].
Example step24_tables : (d_verts s24, d_hedges s24, d_faces s24, d_flags s24) = (d_verts o24, d_hedges o24, d_faces o24, d_flags o24).
Proof. vm_compute. reflexivity. Qed.
Example step24 : r24 = (o24, (16, (44, 69))).
Proof. vm_compute. reflexivity. Qed.

End Run2.

(* Panic convention (see Gen/DcelOps.v): a failing assertion / `.expect` yields the dcel as on entry and the
   default result. *)
Module Panics.
(* insert_first_vertex: assert!(dcel.vertices.is_empty()) *)
Example ifv_nonempty : insert_first_vertex Sample.s2 (mkvd 7 7 7) = (Sample.s2, 0).
Proof. vm_compute. reflexivity. Qed.
(* extend_line: `.expect("end vertex must not isolated")` on the isolated first vertex *)
Example ext_isolated : extend_line Sample.s1 0 (mkvd 7 7 7) = (Sample.s1, 0).
Proof. vm_compute. reflexivity. Qed.
(* insert_into_triangle: `.expect` on a face without adjacent edge (the outer face of the empty dcel) *)
Example iit_no_edge : insert_into_triangle dcel_new (mkvd 7 7 7) 0 = (dcel_new, 0).
Proof. vm_compute. reflexivity. Qed.
(* split_edge_when_all_vertices_on_line: assert_eq!(edge.face(), rev.face()) on an edge between two faces *)
Example sel_two_faces : split_edge_when_all_vertices_on_line Sample.s5 0 (mkvd 7 7 7) = (Sample.s5, ((0, 0), 0)).
Proof. vm_compute. reflexivity. Qed.
End Panics.
