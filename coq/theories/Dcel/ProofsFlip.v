(* Dcel/ProofsFlip.v -- flip_cw (Gen/DcelOps.v, generated from dcel_operations.rs) preserves link-level
   well-formedness (DWf), with exact count deltas and frame facts (property C02, family P6).

   PART 1 is a reusable, Module-free lemma library:
     1a. lists: set_nth, rev
     1b. read-after-write lemmas for the Raw API
     1c. DWf unfolded to a record `DW` over the raw dcel, and consequences of DWf
         (rev stays in range, triangle edges are pairwise distinct, e / rev e lie in different inner faces ...)
   PART 2 is the abstract flip argument: a pre-state package and a post-state package imply DW of the
          post state (one lemma per Wf clause).
   PART 3 characterises `fst (DcelOps.flip_cw d e)` pointwise and concludes.

   NOTE.  `flip_cw_wf` as originally stated (preconditions DWf, e in range, both sides inner) is FALSE:
   DWf has no simplicity clause, so the two apexes may coincide and the flipped edge becomes a loop
   (lemma `flip_cw_wf_counterexample` below).  The theorem proved here, `flip_cw_wf_partial`, has exactly
   one more precondition: the two apexes are different vertices. *)
From Coq Require Import ZArith List Bool Arith Lia.
From SpadeV Require Import Obs.State Obs.Spec Obs.SpecProp Obs.SpecProofs Vmap.Model Dcel.Raw Dcel.Chain Dcel.WfCore Gen.DcelOps.
Import ListNotations.

(* ================================================================================================ *)
(* PART 1a.  lists                                                                                   *)
(* ================================================================================================ *)

Lemma snth_length : forall A i (x : A) l, length (set_nth i x l) = length l.
Proof.
  intros A i x l. revert i. induction l as [|h tl IH]; intros [|i]; cbn [set_nth length]; auto.
Qed.

Lemma snth_oob : forall A i (x : A) l, length l <= i -> set_nth i x l = l.
Proof.
  intros A i x l. revert i. induction l as [|h tl IH]; intros [|i] H; cbn [set_nth length] in *; auto.
  - lia.
  - f_equal. apply IH. lia.
Qed.

Lemma nth_snth_same : forall A i (x : A) l dd, i < length l -> nth i (set_nth i x l) dd = x.
Proof.
  intros A i x l dd. revert i. induction l as [|h tl IH]; intros [|i] H; cbn [set_nth length nth] in *;
    try lia; auto.
  apply IH. lia.
Qed.

Lemma nth_snth_other : forall A i j (x : A) l dd, i <> j -> nth j (set_nth i x l) dd = nth j l dd.
Proof.
  intros A i j x l dd. revert i j. induction l as [|h tl IH]; intros [|i] [|j] H; cbn [set_nth nth];
    auto; try congruence.
Qed.

(* rev = index xor 1 *)
Lemma rev_even : forall k, rev (2 * k) = 2 * k + 1.
Proof.
  intros k. unfold rev. replace (Nat.even (2 * k)) with true.
  - lia.
  - symmetry. apply Nat.even_spec. exists k. reflexivity.
Qed.

Lemma rev_odd : forall k, rev (2 * k + 1) = 2 * k.
Proof.
  intros k. unfold rev. replace (Nat.even (2 * k + 1)) with false.
  - lia.
  - symmetry. rewrite <- Nat.negb_odd. apply negb_false_iff. apply Nat.odd_spec. exists k. reflexivity.
Qed.

Lemma rev_cases : forall e, exists k, (e = 2 * k /\ rev e = 2 * k + 1) \/ (e = 2 * k + 1 /\ rev e = 2 * k).
Proof.
  intros e. destruct (Nat.Even_or_Odd e) as [[k ->]|[k ->]]; exists k.
  - left. split; [reflexivity|apply rev_even].
  - right. split; [reflexivity|apply rev_odd].
Qed.

Lemma rev_rev : forall e, rev (rev e) = e.
Proof.
  intros e. destruct (rev_cases e) as [k [[-> ->]|[-> ->]]]; [apply rev_odd|apply rev_even].
Qed.

Lemma rev_neq : forall e, rev e <> e.
Proof. intros e. destruct (rev_cases e) as [k [[-> ->]|[-> ->]]]; lia. Qed.

Lemma rev_inj : forall a b, rev a = rev b -> a = b.
Proof. intros a b H. rewrite <- (rev_rev a), <- (rev_rev b), H. reflexivity. Qed.

Lemma rev_lt_even : forall e m, e < 2 * m -> rev e < 2 * m.
Proof. intros e m H. destruct (rev_cases e) as [k [[-> ->]|[-> ->]]]; lia. Qed.

(* ================================================================================================ *)
(* PART 1b.  read-after-write for the Raw API                                                        *)
(* ================================================================================================ *)

(* --- lengths and untouched components --- *)
Lemma hedges_upd_h : forall d a f, d_hedges (upd_h d a f) = set_nth a (f (half_edge d a)) (d_hedges d).
Proof. reflexivity. Qed.
Lemma len_hedges_upd_h : forall d a f, length (d_hedges (upd_h d a f)) = length (d_hedges d).
Proof. intros. rewrite hedges_upd_h. apply snth_length. Qed.
Lemma len_hedges_set_next : forall d a x, length (d_hedges (set_next d a x)) = length (d_hedges d).
Proof. intros. apply len_hedges_upd_h. Qed.
Lemma len_hedges_set_prev : forall d a x, length (d_hedges (set_prev d a x)) = length (d_hedges d).
Proof. intros. apply len_hedges_upd_h. Qed.
Lemma len_hedges_set_face : forall d a x, length (d_hedges (set_face d a x)) = length (d_hedges d).
Proof. intros. apply len_hedges_upd_h. Qed.
Lemma len_hedges_set_origin : forall d a x, length (d_hedges (set_origin d a x)) = length (d_hedges d).
Proof. intros. apply len_hedges_upd_h. Qed.
Lemma len_hedges_set_half_edge : forall d a h, length (d_hedges (set_half_edge d a h)) = length (d_hedges d).
Proof. intros. apply len_hedges_upd_h. Qed.
Lemma hedges_set_out_edge : forall d v o, d_hedges (set_out_edge d v o) = d_hedges d.
Proof. reflexivity. Qed.
Lemma hedges_set_adjacent_edge : forall d f o, d_hedges (set_adjacent_edge d f o) = d_hedges d.
Proof. reflexivity. Qed.
Lemma hedges_push_face : forall d o, d_hedges (push_face d o) = d_hedges d.
Proof. reflexivity. Qed.
Lemma hedges_push_vertex : forall d v o, d_hedges (push_vertex d v o) = d_hedges d.
Proof. reflexivity. Qed.
Lemma hedges_push_edge : forall d h0 h1, d_hedges (push_edge d h0 h1) = d_hedges d ++ [h0; h1].
Proof. reflexivity. Qed.
Lemma len_hedges_push_edge : forall d h0 h1, length (d_hedges (push_edge d h0 h1)) = length (d_hedges d) + 2.
Proof. intros. rewrite hedges_push_edge, app_length. reflexivity. Qed.

Lemma verts_upd_h : forall d a f, d_verts (upd_h d a f) = d_verts d.
Proof. reflexivity. Qed.
Lemma verts_set_next : forall d a x, d_verts (set_next d a x) = d_verts d.
Proof. reflexivity. Qed.
Lemma verts_set_prev : forall d a x, d_verts (set_prev d a x) = d_verts d.
Proof. reflexivity. Qed.
Lemma verts_set_face : forall d a x, d_verts (set_face d a x) = d_verts d.
Proof. reflexivity. Qed.
Lemma verts_set_origin : forall d a x, d_verts (set_origin d a x) = d_verts d.
Proof. reflexivity. Qed.
Lemma verts_set_half_edge : forall d a h, d_verts (set_half_edge d a h) = d_verts d.
Proof. reflexivity. Qed.
Lemma verts_set_adjacent_edge : forall d f o, d_verts (set_adjacent_edge d f o) = d_verts d.
Proof. reflexivity. Qed.
Lemma verts_push_edge : forall d h0 h1, d_verts (push_edge d h0 h1) = d_verts d.
Proof. reflexivity. Qed.
Lemma verts_push_face : forall d o, d_verts (push_face d o) = d_verts d.
Proof. reflexivity. Qed.
Lemma verts_push_vertex : forall d v o, d_verts (push_vertex d v o) = d_verts d ++ [mkv (vd_x v) (vd_y v) (vd_d v) o].
Proof. reflexivity. Qed.
Lemma len_verts_set_out_edge : forall d v o, length (d_verts (set_out_edge d v o)) = length (d_verts d).
Proof. intros. unfold set_out_edge. cbn [d_verts]. apply snth_length. Qed.

Lemma faces_upd_h : forall d a f, d_faces (upd_h d a f) = d_faces d.
Proof. reflexivity. Qed.
Lemma faces_set_next : forall d a x, d_faces (set_next d a x) = d_faces d.
Proof. reflexivity. Qed.
Lemma faces_set_prev : forall d a x, d_faces (set_prev d a x) = d_faces d.
Proof. reflexivity. Qed.
Lemma faces_set_face : forall d a x, d_faces (set_face d a x) = d_faces d.
Proof. reflexivity. Qed.
Lemma faces_set_origin : forall d a x, d_faces (set_origin d a x) = d_faces d.
Proof. reflexivity. Qed.
Lemma faces_set_half_edge : forall d a h, d_faces (set_half_edge d a h) = d_faces d.
Proof. reflexivity. Qed.
Lemma faces_set_out_edge : forall d v o, d_faces (set_out_edge d v o) = d_faces d.
Proof. reflexivity. Qed.
Lemma faces_push_edge : forall d h0 h1, d_faces (push_edge d h0 h1) = d_faces d.
Proof. reflexivity. Qed.
Lemma faces_push_vertex : forall d v o, d_faces (push_vertex d v o) = d_faces d.
Proof. reflexivity. Qed.
Lemma faces_push_face : forall d o, d_faces (push_face d o) = d_faces d ++ [o].
Proof. reflexivity. Qed.
Lemma len_faces_set_adjacent_edge : forall d f o, length (d_faces (set_adjacent_edge d f o)) = length (d_faces d).
Proof. intros. unfold set_adjacent_edge. cbn [d_faces]. apply snth_length. Qed.

Lemma flags_upd_h : forall d a f, d_flags (upd_h d a f) = d_flags d.
Proof. reflexivity. Qed.
Lemma flags_set_next : forall d a x, d_flags (set_next d a x) = d_flags d.
Proof. reflexivity. Qed.
Lemma flags_set_prev : forall d a x, d_flags (set_prev d a x) = d_flags d.
Proof. reflexivity. Qed.
Lemma flags_set_face : forall d a x, d_flags (set_face d a x) = d_flags d.
Proof. reflexivity. Qed.
Lemma flags_set_origin : forall d a x, d_flags (set_origin d a x) = d_flags d.
Proof. reflexivity. Qed.
Lemma flags_set_half_edge : forall d a h, d_flags (set_half_edge d a h) = d_flags d.
Proof. reflexivity. Qed.
Lemma flags_set_out_edge : forall d v o, d_flags (set_out_edge d v o) = d_flags d.
Proof. reflexivity. Qed.
Lemma flags_set_adjacent_edge : forall d f o, d_flags (set_adjacent_edge d f o) = d_flags d.
Proof. reflexivity. Qed.
Lemma flags_push_edge : forall d h0 h1, d_flags (push_edge d h0 h1) = d_flags d ++ [false].
Proof. reflexivity. Qed.
Lemma flags_push_face : forall d o, d_flags (push_face d o) = d_flags d.
Proof. reflexivity. Qed.
Lemma flags_push_vertex : forall d v o, d_flags (push_vertex d v o) = d_flags d.
Proof. reflexivity. Qed.

#[export] Hint Rewrite len_hedges_set_next len_hedges_set_prev len_hedges_set_face len_hedges_set_origin
  len_hedges_set_half_edge len_hedges_upd_h hedges_set_out_edge hedges_set_adjacent_edge hedges_push_face
  hedges_push_vertex len_hedges_push_edge
  verts_set_next verts_set_prev verts_set_face verts_set_origin verts_set_half_edge verts_upd_h
  verts_set_adjacent_edge verts_push_edge verts_push_face len_verts_set_out_edge
  faces_set_next faces_set_prev faces_set_face faces_set_origin faces_set_half_edge faces_upd_h
  faces_set_out_edge faces_push_edge faces_push_vertex len_faces_set_adjacent_edge
  flags_set_next flags_set_prev flags_set_face flags_set_origin flags_set_half_edge flags_upd_h
  flags_set_out_edge flags_set_adjacent_edge flags_push_face flags_push_vertex : dcel_frame.

(* --- half-edge records --- *)
Lemma half_edge_upd_same : forall d a f, a < length (d_hedges d) -> half_edge (upd_h d a f) a = f (half_edge d a).
Proof. intros d a f H. unfold half_edge at 1. rewrite hedges_upd_h. apply nth_snth_same. exact H. Qed.

Lemma half_edge_upd_other : forall d a b f, a <> b -> half_edge (upd_h d a f) b = half_edge d b.
Proof. intros d a b f H. unfold half_edge at 1. rewrite hedges_upd_h. apply nth_snth_other. exact H. Qed.

Lemma half_edge_upd_oob : forall d a b f, length (d_hedges d) <= a -> half_edge (upd_h d a f) b = half_edge d b.
Proof. intros d a b f H. unfold half_edge at 1. rewrite hedges_upd_h, snth_oob by exact H. reflexivity. Qed.

Lemma half_edge_set_out_edge : forall d v o b, half_edge (set_out_edge d v o) b = half_edge d b.
Proof. reflexivity. Qed.
Lemma half_edge_set_adjacent_edge : forall d f o b, half_edge (set_adjacent_edge d f o) b = half_edge d b.
Proof. reflexivity. Qed.
Lemma half_edge_push_face : forall d o b, half_edge (push_face d o) b = half_edge d b.
Proof. reflexivity. Qed.
Lemma half_edge_push_vertex : forall d v o b, half_edge (push_vertex d v o) b = half_edge d b.
Proof. reflexivity. Qed.
Lemma half_edge_push_edge_old : forall d h0 h1 b, b < length (d_hedges d) -> half_edge (push_edge d h0 h1) b = half_edge d b.
Proof. intros d h0 h1 b H. unfold half_edge. rewrite hedges_push_edge. apply app_nth1. exact H. Qed.
Lemma half_edge_push_edge_new0 : forall d h0 h1, half_edge (push_edge d h0 h1) (length (d_hedges d)) = h0.
Proof. intros d h0 h1. unfold half_edge. rewrite hedges_push_edge, app_nth2, Nat.sub_diag by lia. reflexivity. Qed.
Lemma half_edge_push_edge_new1 : forall d h0 h1, half_edge (push_edge d h0 h1) (S (length (d_hedges d))) = h1.
Proof.
  intros d h0 h1. unfold half_edge. rewrite hedges_push_edge, app_nth2 by lia.
  replace (S (length (d_hedges d)) - length (d_hedges d)) with 1 by lia. reflexivity.
Qed.
Lemma half_edge_set_half_edge_same : forall d a h, a < length (d_hedges d) -> half_edge (set_half_edge d a h) a = h.
Proof. intros. unfold set_half_edge. rewrite half_edge_upd_same by assumption. reflexivity. Qed.
Lemma half_edge_set_half_edge_other : forall d a b h, a <> b -> half_edge (set_half_edge d a h) b = half_edge d b.
Proof. intros. apply half_edge_upd_other. assumption. Qed.

(* a field is only changed by its own setter.  The "frame" lemmas are unconditional. *)
Ltac upd_frame :=
  intros d a x b; unfold set_next, set_prev, set_face, set_origin;
  destruct (Nat.eq_dec a b) as [->|N];
  [ destruct (lt_dec b (length (d_hedges d))) as [L|L];
    [ rewrite half_edge_upd_same by exact L; reflexivity
    | rewrite half_edge_upd_oob by lia; reflexivity ]
  | rewrite half_edge_upd_other by exact N; reflexivity ].

Lemma hnext_set_prev : forall d a x b, h_next (half_edge (set_prev d a x) b) = h_next (half_edge d b).
Proof. upd_frame. Qed.
Lemma hnext_set_face : forall d a x b, h_next (half_edge (set_face d a x) b) = h_next (half_edge d b).
Proof. upd_frame. Qed.
Lemma hnext_set_origin : forall d a x b, h_next (half_edge (set_origin d a x) b) = h_next (half_edge d b).
Proof. upd_frame. Qed.
Lemma hprev_set_next : forall d a x b, h_prev (half_edge (set_next d a x) b) = h_prev (half_edge d b).
Proof. upd_frame. Qed.
Lemma hprev_set_face : forall d a x b, h_prev (half_edge (set_face d a x) b) = h_prev (half_edge d b).
Proof. upd_frame. Qed.
Lemma hprev_set_origin : forall d a x b, h_prev (half_edge (set_origin d a x) b) = h_prev (half_edge d b).
Proof. upd_frame. Qed.
Lemma hface_set_next : forall d a x b, h_face (half_edge (set_next d a x) b) = h_face (half_edge d b).
Proof. upd_frame. Qed.
Lemma hface_set_prev : forall d a x b, h_face (half_edge (set_prev d a x) b) = h_face (half_edge d b).
Proof. upd_frame. Qed.
Lemma hface_set_origin : forall d a x b, h_face (half_edge (set_origin d a x) b) = h_face (half_edge d b).
Proof. upd_frame. Qed.
Lemma horg_set_next : forall d a x b, h_org (half_edge (set_next d a x) b) = h_org (half_edge d b).
Proof. upd_frame. Qed.
Lemma horg_set_prev : forall d a x b, h_org (half_edge (set_prev d a x) b) = h_org (half_edge d b).
Proof. upd_frame. Qed.
Lemma horg_set_face : forall d a x b, h_org (half_edge (set_face d a x) b) = h_org (half_edge d b).
Proof. upd_frame. Qed.

Lemma hnext_set_next_same : forall d a x, a < length (d_hedges d) -> h_next (half_edge (set_next d a x) a) = x.
Proof. intros. unfold set_next. rewrite half_edge_upd_same by assumption. reflexivity. Qed.
Lemma hprev_set_prev_same : forall d a x, a < length (d_hedges d) -> h_prev (half_edge (set_prev d a x) a) = x.
Proof. intros. unfold set_prev. rewrite half_edge_upd_same by assumption. reflexivity. Qed.
Lemma hface_set_face_same : forall d a x, a < length (d_hedges d) -> h_face (half_edge (set_face d a x) a) = x.
Proof. intros. unfold set_face. rewrite half_edge_upd_same by assumption. reflexivity. Qed.
Lemma horg_set_origin_same : forall d a x, a < length (d_hedges d) -> h_org (half_edge (set_origin d a x) a) = x.
Proof. intros. unfold set_origin. rewrite half_edge_upd_same by assumption. reflexivity. Qed.

Lemma hnext_set_next_other : forall d a x b, a <> b -> h_next (half_edge (set_next d a x) b) = h_next (half_edge d b).
Proof. intros. unfold set_next. rewrite half_edge_upd_other by assumption. reflexivity. Qed.
Lemma hprev_set_prev_other : forall d a x b, a <> b -> h_prev (half_edge (set_prev d a x) b) = h_prev (half_edge d b).
Proof. intros. unfold set_prev. rewrite half_edge_upd_other by assumption. reflexivity. Qed.
Lemma hface_set_face_other : forall d a x b, a <> b -> h_face (half_edge (set_face d a x) b) = h_face (half_edge d b).
Proof. intros. unfold set_face. rewrite half_edge_upd_other by assumption. reflexivity. Qed.
Lemma horg_set_origin_other : forall d a x b, a <> b -> h_org (half_edge (set_origin d a x) b) = h_org (half_edge d b).
Proof. intros. unfold set_origin. rewrite half_edge_upd_other by assumption. reflexivity. Qed.

#[export] Hint Rewrite half_edge_set_out_edge half_edge_set_adjacent_edge half_edge_push_face half_edge_push_vertex
  hnext_set_prev hnext_set_face hnext_set_origin hprev_set_next hprev_set_face hprev_set_origin
  hface_set_next hface_set_prev hface_set_origin horg_set_next horg_set_prev horg_set_face : dcel_frame.

(* --- vertex records --- *)
Lemma vrec_set_out_edge_same : forall d v o, v < length (d_verts d) ->
  nth v (d_verts (set_out_edge d v o)) dflt_v =
  mkv (v_x (nth v (d_verts d) dflt_v)) (v_y (nth v (d_verts d) dflt_v)) (v_data (nth v (d_verts d) dflt_v)) o.
Proof. intros d v o H. unfold set_out_edge. cbn [d_verts]. apply nth_snth_same. exact H. Qed.
Lemma vrec_set_out_edge_other : forall d v w o, v <> w ->
  nth w (d_verts (set_out_edge d v o)) dflt_v = nth w (d_verts d) dflt_v.
Proof. intros d v w o H. unfold set_out_edge. cbn [d_verts]. apply nth_snth_other. exact H. Qed.

(* set_out_edge never changes x, y, data of any vertex slot *)
Lemma vrec_set_out_edge_data : forall d v w o,
  let a := nth w (d_verts (set_out_edge d v o)) dflt_v in let b := nth w (d_verts d) dflt_v in
  v_x a = v_x b /\ v_y a = v_y b /\ v_data a = v_data b.
Proof.
  intros d v w o. cbv zeta. destruct (Nat.eq_dec v w) as [->|N].
  - destruct (lt_dec w (length (d_verts d))) as [L|L].
    + rewrite vrec_set_out_edge_same by exact L. cbn [v_x v_y v_data]. auto.
    + unfold set_out_edge. cbn [d_verts]. rewrite snth_oob by lia. auto.
  - rewrite vrec_set_out_edge_other by exact N. auto.
Qed.

Lemma vout_set_out_edge_same : forall d v o, v < length (d_verts d) -> v_out_edge (set_out_edge d v o) v = o.
Proof. intros d v o H. unfold v_out_edge. rewrite vrec_set_out_edge_same by exact H. reflexivity. Qed.
Lemma vout_set_out_edge_other : forall d v w o, v <> w -> v_out_edge (set_out_edge d v o) w = v_out_edge d w.
Proof. intros d v w o H. unfold v_out_edge. rewrite vrec_set_out_edge_other by exact H. reflexivity. Qed.

(* --- face records --- *)
Lemma fadj_set_adjacent_edge_same : forall d f o, f < length (d_faces d) -> f_adjacent (set_adjacent_edge d f o) f = o.
Proof. intros d f o H. unfold f_adjacent, set_adjacent_edge. cbn [d_faces]. apply nth_snth_same. exact H. Qed.
Lemma fadj_set_adjacent_edge_other : forall d f g o, f <> g -> f_adjacent (set_adjacent_edge d f o) g = f_adjacent d g.
Proof. intros d f g o H. unfold f_adjacent, set_adjacent_edge. cbn [d_faces]. apply nth_snth_other. exact H. Qed.

(* ================================================================================================ *)
(* PART 1c.  DWf unfolded over the raw dcel, and its consequences                                    *)
(* ================================================================================================ *)

(* bridging: the accessors of the observed view are the Raw accessors (all by computation) *)
Lemma obs_next : forall d e, next (obs_of_dcel d) e = e_next d e.      Proof. reflexivity. Qed.
Lemma obs_prev : forall d e, prev (obs_of_dcel d) e = e_prev d e.      Proof. reflexivity. Qed.
Lemma obs_face : forall d e, face (obs_of_dcel d) e = e_face d e.      Proof. reflexivity. Qed.
Lemma obs_org : forall d e, org (obs_of_dcel d) e = e_origin d e.      Proof. reflexivity. Qed.
Lemma obs_dest : forall d e, dest (obs_of_dcel d) e = e_to d e.        Proof. reflexivity. Qed.
Lemma obs_adj : forall d f, adj (obs_of_dcel d) f = f_adjacent d f.    Proof. reflexivity. Qed.
Lemma obs_vout : forall d v, vout (obs_of_dcel d) v = v_out_edge d v.  Proof. reflexivity. Qed.
Lemma obs_nH : forall d, nH (obs_of_dcel d) = length (d_hedges d).     Proof. reflexivity. Qed.
Lemma obs_nV : forall d, nV (obs_of_dcel d) = length (d_verts d).      Proof. reflexivity. Qed.
Lemma obs_nF : forall d, nF (obs_of_dcel d) = length (d_faces d).      Proof. reflexivity. Qed.

Record DW (d : dcel) : Prop := mkDW {
  dw_even : length (d_flags d) * 2 = length (d_hedges d);
  dw_face1 : 1 <= length (d_faces d);
  dw_rng : forall e, e < length (d_hedges d) ->
      e_next d e < length (d_hedges d) /\ e_prev d e < length (d_hedges d) /\
      e_face d e < length (d_faces d) /\ e_origin d e < length (d_verts d);
  dw_vout_rng : forall v, v < length (d_verts d) -> forall a, v_out_edge d v = Some a -> a < length (d_hedges d);
  dw_adj_rng : forall f, f < length (d_faces d) -> forall a, f_adjacent d f = Some a -> a < length (d_hedges d);
  dw_links : forall e, e < length (d_hedges d) ->
      e_prev d (e_next d e) = e /\ e_next d (e_prev d e) = e /\
      e_face d (e_next d e) = e_face d e /\
      e_origin d (e_next d e) = e_origin d (rev e) /\
      e_origin d e <> e_origin d (rev e);
  dw_fptr : forall f, f < length (d_faces d) ->
      match f_adjacent d f with
      | Some e => e_face d e = f
      | None => f = 0 /\ length (d_hedges d) = 0
      end;
  dw_vptr : forall v, v < length (d_verts d) ->
      match v_out_edge d v with
      | Some e => e_origin d e = v
      | None => length (d_hedges d) = 0
      end;
  dw_tri : forall e, e < length (d_hedges d) -> e_face d e <> 0 ->
      e_next d (e_next d (e_next d e)) = e /\
      exists a, f_adjacent d (e_face d e) = Some a /\ (e = a \/ e = e_next d a \/ e = e_next d (e_next d a))
}.

Theorem DWf_DW : forall d, DWf d <-> DW d.
Proof.
  intros d. split.
  - intros (C & (R1 & R2 & R3) & L & F & V & T).
    destruct C as (_ & C2 & _ & C4 & C5).
    constructor.
    + change (length (d_flags d) * 2 = length (d_hedges d)) in C2. exact C2.
    + exact C5.
    + exact R1.
    + exact R2.
    + exact R3.
    + exact L.
    + exact F.
    + exact V.
    + exact T.
  - intros [E F1 R V A L F VP T].
    split; [|split; [|split; [|split; [|split]]]].
    + unfold WfCounts. repeat split; try reflexivity.
      * exact E.
      * exact F1.
    + split; [exact R|split; [exact V|exact A]].
    + exact L.
    + exact F.
    + exact VP.
    + exact T.
Qed.

Section DWFacts.
Variable d : dcel.
Hypothesis W : DW d.
Notation n := (length (d_hedges d)).

Lemma dw_rev_lt : forall e, e < n -> rev e < n.
Proof. intros e H. rewrite <- (dw_even d W) in *. rewrite Nat.mul_comm in *. apply rev_lt_even. exact H. Qed.

Lemma dw_double_lt : forall k, k < Raw.num_undirected_edges d -> 2 * k < n /\ 2 * k + 1 < n.
Proof. intros k H. unfold Raw.num_undirected_edges in H. rewrite <- (dw_even d W). lia. Qed.

Lemma dw_next_lt : forall e, e < n -> e_next d e < n.
Proof. intros e H. apply (dw_rng d W e H). Qed.
Lemma dw_prev_lt : forall e, e < n -> e_prev d e < n.
Proof. intros e H. apply (dw_rng d W e H). Qed.
Lemma dw_face_lt : forall e, e < n -> e_face d e < length (d_faces d).
Proof. intros e H. apply (dw_rng d W e H). Qed.
Lemma dw_org_lt : forall e, e < n -> e_origin d e < length (d_verts d).
Proof. intros e H. apply (dw_rng d W e H). Qed.

Lemma dw_prev_next : forall e, e < n -> e_prev d (e_next d e) = e.
Proof. intros e H. apply (dw_links d W e H). Qed.
Lemma dw_next_prev : forall e, e < n -> e_next d (e_prev d e) = e.
Proof. intros e H. apply (dw_links d W e H). Qed.
Lemma dw_face_next : forall e, e < n -> e_face d (e_next d e) = e_face d e.
Proof. intros e H. apply (dw_links d W e H). Qed.
Lemma dw_face_prev : forall e, e < n -> e_face d (e_prev d e) = e_face d e.
Proof.
  intros e H. rewrite <- (dw_face_next (e_prev d e)) by (apply dw_prev_lt; exact H).
  rewrite dw_next_prev by exact H. reflexivity.
Qed.
Lemma dw_org_next : forall e, e < n -> e_origin d (e_next d e) = e_origin d (rev e).
Proof. intros e H. apply (dw_links d W e H). Qed.
Lemma dw_org_neq : forall e, e < n -> e_origin d e <> e_origin d (rev e).
Proof. intros e H. apply (dw_links d W e H). Qed.

Lemma dw_next_neq : forall e, e < n -> e_next d e <> e.
Proof.
  intros e H E. apply (dw_org_neq e H). rewrite <- (dw_org_next e H), E. reflexivity.
Qed.
Lemma dw_prev_neq : forall e, e < n -> e_prev d e <> e.
Proof.
  intros e H E. apply (dw_next_neq (e_prev d e)); [apply dw_prev_lt; exact H|].
  rewrite dw_next_prev by exact H. symmetry. exact E.
Qed.
Lemma dw_next_inj : forall a b, a < n -> b < n -> e_next d a = e_next d b -> a = b.
Proof. intros a b Ha Hb E. rewrite <- (dw_prev_next a Ha), <- (dw_prev_next b Hb), E. reflexivity. Qed.
Lemma dw_prev_inj : forall a b, a < n -> b < n -> e_prev d a = e_prev d b -> a = b.
Proof. intros a b Ha Hb E. rewrite <- (dw_next_prev a Ha), <- (dw_next_prev b Hb), E. reflexivity. Qed.

(* --- inner (triangular) faces --- *)
Lemma dw_inner_next : forall e, e < n -> inner d e -> inner d (e_next d e).
Proof. intros e H I. unfold inner in *. rewrite dw_face_next by exact H. exact I. Qed.
Lemma dw_inner_prev : forall e, e < n -> inner d e -> inner d (e_prev d e).
Proof. intros e H I. unfold inner in *. rewrite dw_face_prev by exact H. exact I. Qed.

Lemma dw_tri3 : forall e, e < n -> inner d e -> e_next d (e_next d (e_next d e)) = e.
Proof. intros e H I. apply (dw_tri d W e H I). Qed.

Lemma dw_next_next : forall e, e < n -> inner d e -> e_next d (e_next d e) = e_prev d e.
Proof.
  intros e H I. rewrite <- (dw_tri3 e H I) at 2.
  rewrite dw_prev_next; [reflexivity|]. apply dw_next_lt, dw_next_lt, H.
Qed.
Lemma dw_prev_prev : forall e, e < n -> inner d e -> e_prev d (e_prev d e) = e_next d e.
Proof.
  intros e H I. rewrite <- (dw_next_next e H I). apply dw_prev_next. apply dw_next_lt, H.
Qed.

(* the three half-edges of an inner triangle are pairwise distinct *)
Lemma dw_next_prev_neq : forall e, e < n -> inner d e -> e_next d e <> e_prev d e.
Proof.
  intros e H I E. apply (dw_next_neq e H).
  assert (X : e_next d (e_next d e) = e) by (rewrite E; apply dw_next_prev; exact H).
  pose proof (dw_tri3 e H I) as T. rewrite X in T. exact T.
Qed.

(* every half-edge of the inner face of e is one of e, next e, prev e *)
Lemma dw_same_face : forall e x, e < n -> x < n -> inner d e -> e_face d x = e_face d e ->
  x = e \/ x = e_next d e \/ x = e_prev d e.
Proof.
  intros e x He Hx I Fx.
  destruct (dw_tri d W e He I) as (_ & a & Ha & Ea).
  assert (Ix : e_face d x <> 0) by (rewrite Fx; exact I).
  destruct (dw_tri d W x Hx Ix) as (_ & a' & Ha' & Ea').
  rewrite Fx, Ha in Ha'. injection Ha' as <-.
  assert (Ln : a < n) by (apply (dw_adj_rng d W (e_face d e)); [apply dw_face_lt; exact He|exact Ha]).
  assert (Fa : e_face d a = e_face d e).
  { pose proof (dw_fptr d W (e_face d e) (dw_face_lt e He)) as P. rewrite Ha in P. exact P. }
  assert (Ia : inner d a) by (unfold inner; rewrite Fa; exact I).
  pose proof (dw_tri3 a Ln Ia) as T3.
  pose proof (dw_next_next a Ln Ia) as NN.
  pose proof (dw_prev_next a Ln) as PN.
  pose proof (dw_next_prev a Ln) as NP.
  pose proof (dw_prev_prev a Ln Ia) as PP.
  destruct Ea as [-> | [-> | ->]]; destruct Ea' as [-> | [-> | ->]];
    first [ left; reflexivity | right; left; reflexivity | right; right; exact NN
          | right; right; symmetry; exact PN | right; left; symmetry; exact T3
          | right; right; symmetry; apply dw_prev_next; apply dw_next_lt; exact Ln ].
Qed.

(* an inner triangle does not contain both e and rev e *)
Lemma dw_next_neq_rev : forall e, e < n -> inner d e -> e_next d e <> rev e.
Proof.
  intros e H I E.
  pose proof (dw_prev_lt e H) as Hp.
  apply (dw_org_neq (e_prev d e) Hp).
  rewrite <- (dw_org_next (e_prev d e) Hp), (dw_next_prev e H).
  rewrite <- (dw_next_next e H I).
  rewrite (dw_org_next (e_next d e)) by (apply dw_next_lt; exact H).
  rewrite E, rev_rev. reflexivity.
Qed.

Lemma dw_prev_neq_rev : forall e, e < n -> inner d e -> e_prev d e <> rev e.
Proof.
  intros e H I E.
  assert (Hr : rev e < n) by (apply dw_rev_lt; exact H).
  assert (Ir : inner d (rev e)) by (rewrite <- E; apply dw_inner_prev; assumption).
  apply (dw_next_neq_rev (rev e) Hr Ir). rewrite rev_rev, <- E. apply dw_next_prev. exact H.
Qed.

Lemma dw_rev_face_neq : forall e, e < n -> inner d e -> e_face d (rev e) <> e_face d e.
Proof.
  intros e H I F.
  destruct (dw_same_face e (rev e) H (dw_rev_lt e H) I F) as [E|[E|E]].
  - exact (rev_neq e E).
  - exact (dw_next_neq_rev e H I (eq_sym E)).
  - exact (dw_prev_neq_rev e H I (eq_sym E)).
Qed.

End DWFacts.

(* all the local facts about the inner triangle of a half-edge x, in one package *)
Lemma dw_tri_facts : forall d x, DW d -> x < length (d_hedges d) -> inner d x ->
  let xn := e_next d x in let xp := e_prev d x in
  xn < length (d_hedges d) /\ xp < length (d_hedges d) /\
  e_next d xn = xp /\ e_next d xp = x /\ e_prev d xn = x /\ e_prev d xp = xn /\
  e_face d xn = e_face d x /\ e_face d xp = e_face d x /\
  xn <> x /\ xp <> x /\ xn <> xp /\
  e_origin d xn = e_origin d (rev x) /\ e_origin d (rev xn) = e_origin d xp /\ e_origin d (rev xp) = e_origin d x.
Proof.
  intros d x W H I. cbv zeta.
  pose proof (dw_next_lt d W x H) as Ln. pose proof (dw_prev_lt d W x H) as Lp.
  repeat split.
  - exact Ln.
  - exact Lp.
  - apply dw_next_next; assumption.
  - apply dw_next_prev; assumption.
  - apply dw_prev_next; assumption.
  - apply dw_prev_prev; assumption.
  - apply dw_face_next; assumption.
  - apply dw_face_prev; assumption.
  - apply dw_next_neq; assumption.
  - apply dw_prev_neq; assumption.
  - apply dw_next_prev_neq; assumption.
  - apply dw_org_next; assumption.
  - rewrite <- (dw_org_next d W (e_next d x) Ln). rewrite dw_next_next by assumption. reflexivity.
  - rewrite <- (dw_org_next d W (e_prev d x) Lp). rewrite dw_next_prev by assumption. reflexivity.
Qed.

(* ================================================================================================ *)
(* PART 2.  the abstract flip: pre-state facts + pointwise description of the post-state => DW       *)
(* ================================================================================================ *)

(* x is none of the six half-edges of the two triangles incident to e *)
Definition flip_untouched (d : dcel) (e x : nat) : Prop :=
  x <> e /\ x <> e_next d e /\ x <> e_prev d e /\
  x <> rev e /\ x <> e_next d (rev e) /\ x <> e_prev d (rev e).

(* pointwise description of the state after flipping e (tw = rev e) *)
Record FlipPost (d d' : dcel) (e : nat) : Prop := mkFlipPost {
  fp_flags : d_flags d' = d_flags d;
  fp_lenH : length (d_hedges d') = length (d_hedges d);
  fp_lenV : length (d_verts d') = length (d_verts d);
  fp_lenF : length (d_faces d') = length (d_faces d);
  fp_en : half_edge d' (e_next d e) = mkh e (e_prev d (rev e)) (e_face d e) (e_origin d (e_next d e));
  fp_e  : half_edge d' e = mkh (e_prev d (rev e)) (e_next d e) (e_face d e) (e_origin d (e_prev d e));
  fp_tp : half_edge d' (e_prev d (rev e)) = mkh (e_next d e) e (e_face d e) (e_origin d (e_prev d (rev e)));
  fp_tn : half_edge d' (e_next d (rev e)) = mkh (rev e) (e_prev d e) (e_face d (rev e)) (e_origin d (e_next d (rev e)));
  fp_t  : half_edge d' (rev e) = mkh (e_prev d e) (e_next d (rev e)) (e_face d (rev e)) (e_origin d (e_prev d (rev e)));
  fp_ep : half_edge d' (e_prev d e) = mkh (e_next d (rev e)) (rev e) (e_face d (rev e)) (e_origin d (e_prev d e));
  fp_other : forall x, flip_untouched d e x -> half_edge d' x = half_edge d x;
  fp_vdata : forall v, let a := nth v (d_verts d') dflt_v in let b := nth v (d_verts d) dflt_v in
                       v_x a = v_x b /\ v_y a = v_y b /\ v_data a = v_data b;
  fp_vout_e : v_out_edge d' (e_origin d e) = Some (e_next d (rev e));
  fp_vout_t : v_out_edge d' (e_origin d (rev e)) = Some (e_next d e);
  fp_vout_other : forall v, v <> e_origin d e -> v <> e_origin d (rev e) -> v_out_edge d' v = v_out_edge d v;
  fp_adj_e : f_adjacent d' (e_face d e) = Some e;
  fp_adj_t : f_adjacent d' (e_face d (rev e)) = Some (rev e);
  fp_adj_other : forall f, f <> e_face d e -> f <> e_face d (rev e) -> f_adjacent d' f = f_adjacent d f
}.

Section FlipAbs.
Variables (d d' : dcel) (e : nat).
Hypothesis W : DW d.
Hypothesis He : e < length (d_hedges d).
Hypothesis Ie : inner d e.
Hypothesis It : inner d (rev e).
Hypothesis Post : FlipPost d d' e.

Notation nn := (length (d_hedges d)).
Notation tw := (rev e).
Notation en := (e_next d e).
Notation ep := (e_prev d e).
Notation tn := (e_next d (rev e)).
Notation tp := (e_prev d (rev e)).
Notation fe := (e_face d e).
Notation ft := (e_face d (rev e)).

Lemma flip_Ht : tw < nn.
Proof. apply dw_rev_lt; assumption. Qed.

Lemma flip_faces : fe <> 0 /\ ft <> 0 /\ ft <> fe.
Proof. repeat split; [exact Ie|exact It|apply dw_rev_face_neq; assumption]. Qed.

(* the six half-edges are pairwise distinct *)
Lemma flip_distinct :
  en <> e /\ ep <> e /\ en <> ep /\ tn <> tw /\ tp <> tw /\ tn <> tp /\ tw <> e /\
  tw <> en /\ tw <> ep /\ tn <> e /\ tn <> en /\ tn <> ep /\ tp <> e /\ tp <> en /\ tp <> ep.
Proof.
  destruct (dw_tri_facts d e W He Ie) as (_ & _ & _ & _ & _ & _ & F1 & F2 & N1 & N2 & N3 & _).
  destruct (dw_tri_facts d tw W flip_Ht It) as (_ & _ & _ & _ & _ & _ & G1 & G2 & M1 & M2 & M3 & _).
  destruct flip_faces as (_ & _ & FF).
  assert (X : forall a b, e_face d a = ft -> e_face d b = fe -> a <> b)
    by (intros a b Ha Hb E; apply FF; rewrite <- Ha, <- Hb, E; reflexivity).
  repeat split; try assumption; try (apply rev_neq); apply X; auto.
Qed.

Lemma he_fields : forall dd x h, half_edge dd x = h ->
  e_next dd x = h_next h /\ e_prev dd x = h_prev h /\ e_face dd x = h_face h /\ e_origin dd x = h_org h.
Proof. intros dd x h <-. repeat split. Qed.

(* the new records, field by field *)
Lemma flip_N_en : e_next d' en = e.
Proof. pose proof (he_fields _ _ _ (fp_en d d' e Post)) as X. exact (proj1 X). Qed.
Lemma flip_P_en : e_prev d' en = tp.
Proof. pose proof (he_fields _ _ _ (fp_en d d' e Post)) as X. exact (proj1 (proj2 X)). Qed.
Lemma flip_F_en : e_face d' en = fe.
Proof. pose proof (he_fields _ _ _ (fp_en d d' e Post)) as X. exact (proj1 (proj2 (proj2 X))). Qed.
Lemma flip_O_en : e_origin d' en = e_origin d en.
Proof. pose proof (he_fields _ _ _ (fp_en d d' e Post)) as X. exact (proj2 (proj2 (proj2 X))). Qed.
Lemma flip_N_e : e_next d' e = tp.
Proof. pose proof (he_fields _ _ _ (fp_e d d' e Post)) as X. exact (proj1 X). Qed.
Lemma flip_P_e : e_prev d' e = en.
Proof. pose proof (he_fields _ _ _ (fp_e d d' e Post)) as X. exact (proj1 (proj2 X)). Qed.
Lemma flip_F_e : e_face d' e = fe.
Proof. pose proof (he_fields _ _ _ (fp_e d d' e Post)) as X. exact (proj1 (proj2 (proj2 X))). Qed.
Lemma flip_O_e : e_origin d' e = e_origin d ep.
Proof. pose proof (he_fields _ _ _ (fp_e d d' e Post)) as X. exact (proj2 (proj2 (proj2 X))). Qed.
Lemma flip_N_tp : e_next d' tp = en.
Proof. pose proof (he_fields _ _ _ (fp_tp d d' e Post)) as X. exact (proj1 X). Qed.
Lemma flip_P_tp : e_prev d' tp = e.
Proof. pose proof (he_fields _ _ _ (fp_tp d d' e Post)) as X. exact (proj1 (proj2 X)). Qed.
Lemma flip_F_tp : e_face d' tp = fe.
Proof. pose proof (he_fields _ _ _ (fp_tp d d' e Post)) as X. exact (proj1 (proj2 (proj2 X))). Qed.
Lemma flip_O_tp : e_origin d' tp = e_origin d tp.
Proof. pose proof (he_fields _ _ _ (fp_tp d d' e Post)) as X. exact (proj2 (proj2 (proj2 X))). Qed.
Lemma flip_N_tn : e_next d' tn = tw.
Proof. pose proof (he_fields _ _ _ (fp_tn d d' e Post)) as X. exact (proj1 X). Qed.
Lemma flip_P_tn : e_prev d' tn = ep.
Proof. pose proof (he_fields _ _ _ (fp_tn d d' e Post)) as X. exact (proj1 (proj2 X)). Qed.
Lemma flip_F_tn : e_face d' tn = ft.
Proof. pose proof (he_fields _ _ _ (fp_tn d d' e Post)) as X. exact (proj1 (proj2 (proj2 X))). Qed.
Lemma flip_O_tn : e_origin d' tn = e_origin d tn.
Proof. pose proof (he_fields _ _ _ (fp_tn d d' e Post)) as X. exact (proj2 (proj2 (proj2 X))). Qed.
Lemma flip_N_tw : e_next d' tw = ep.
Proof. pose proof (he_fields _ _ _ (fp_t d d' e Post)) as X. exact (proj1 X). Qed.
Lemma flip_P_tw : e_prev d' tw = tn.
Proof. pose proof (he_fields _ _ _ (fp_t d d' e Post)) as X. exact (proj1 (proj2 X)). Qed.
Lemma flip_F_tw : e_face d' tw = ft.
Proof. pose proof (he_fields _ _ _ (fp_t d d' e Post)) as X. exact (proj1 (proj2 (proj2 X))). Qed.
Lemma flip_O_tw : e_origin d' tw = e_origin d tp.
Proof. pose proof (he_fields _ _ _ (fp_t d d' e Post)) as X. exact (proj2 (proj2 (proj2 X))). Qed.
Lemma flip_N_ep : e_next d' ep = tn.
Proof. pose proof (he_fields _ _ _ (fp_ep d d' e Post)) as X. exact (proj1 X). Qed.
Lemma flip_P_ep : e_prev d' ep = tw.
Proof. pose proof (he_fields _ _ _ (fp_ep d d' e Post)) as X. exact (proj1 (proj2 X)). Qed.
Lemma flip_F_ep : e_face d' ep = ft.
Proof. pose proof (he_fields _ _ _ (fp_ep d d' e Post)) as X. exact (proj1 (proj2 (proj2 X))). Qed.
Lemma flip_O_ep : e_origin d' ep = e_origin d ep.
Proof. pose proof (he_fields _ _ _ (fp_ep d d' e Post)) as X. exact (proj2 (proj2 (proj2 X))). Qed.

Ltac fl_rw := repeat progress rewrite ?rev_rev, ?flip_N_en, ?flip_P_en, ?flip_F_en, ?flip_O_en, ?flip_N_e, ?flip_P_e, ?flip_F_e, ?flip_O_e, ?flip_N_tp, ?flip_P_tp, ?flip_F_tp, ?flip_O_tp, ?flip_N_tn, ?flip_P_tn, ?flip_F_tn, ?flip_O_tn, ?flip_N_tw, ?flip_P_tw, ?flip_F_tw, ?flip_O_tw, ?flip_N_ep, ?flip_P_ep, ?flip_F_ep, ?flip_O_ep.
Ltac fl_rw_in H := repeat progress rewrite ?rev_rev, ?flip_N_en, ?flip_P_en, ?flip_F_en, ?flip_O_en, ?flip_N_e, ?flip_P_e, ?flip_F_e, ?flip_O_e, ?flip_N_tp, ?flip_P_tp, ?flip_F_tp, ?flip_O_tp, ?flip_N_tn, ?flip_P_tn, ?flip_F_tn, ?flip_O_tn, ?flip_N_tw, ?flip_P_tw, ?flip_F_tw, ?flip_O_tw, ?flip_N_ep, ?flip_P_ep, ?flip_F_ep, ?flip_O_ep in H.

Lemma flip_other_fields : forall x, flip_untouched d e x ->
  e_next d' x = e_next d x /\ e_prev d' x = e_prev d x /\ e_face d' x = e_face d x /\ e_origin d' x = e_origin d x.
Proof. intros x U. apply he_fields. apply (fp_other d d' e Post x U). Qed.

Lemma flip_six_cases : forall x,
  x = e \/ x = en \/ x = ep \/ x = tw \/ x = tn \/ x = tp \/ flip_untouched d e x.
Proof. intros x. unfold flip_untouched. lia. Qed.

(* the untouched half-edges are closed under the old next / prev *)
Lemma flip_untouched_closed : forall x, x < nn -> flip_untouched d e x ->
  flip_untouched d e (e_next d x) /\ flip_untouched d e (e_prev d x).
Proof.
  intros x Hx (U1 & U2 & U3 & U4 & U5 & U6).
  destruct (dw_tri_facts d e W He Ie) as (_ & _ & A1 & A2 & A3 & A4 & _).
  destruct (dw_tri_facts d tw W flip_Ht It) as (_ & _ & B1 & B2 & B3 & B4 & _).
  pose proof (dw_prev_next d W x Hx) as PX. pose proof (dw_next_prev d W x Hx) as NX.
  split; unfold flip_untouched; repeat split; intro E.
  - rewrite E in PX. congruence.
  - rewrite E in PX. congruence.
  - rewrite E in PX. congruence.
  - rewrite E in PX. congruence.
  - rewrite E in PX. congruence.
  - rewrite E in PX. congruence.
  - rewrite E in NX. congruence.
  - rewrite E in NX. congruence.
  - rewrite E in NX. congruence.
  - rewrite E in NX. congruence.
  - rewrite E in NX. congruence.
  - rewrite E in NX. congruence.
Qed.

Lemma flip_untouched_by_face : forall a, e_face d a <> fe -> e_face d a <> ft -> flip_untouched d e a.
Proof.
  intros a F1 F2.
  destruct (dw_tri_facts d e W He Ie) as (_ & _ & _ & _ & _ & _ & A1 & A2 & _).
  destruct (dw_tri_facts d tw W flip_Ht It) as (_ & _ & _ & _ & _ & _ & B1 & B2 & _).
  unfold flip_untouched; repeat split; intro E; subst a; congruence.
Qed.

(* the face of every half-edge other than tp, ep is unchanged; origins other than e, tw are unchanged *)
Lemma flip_org_keep : forall a, a <> e -> a <> tw -> e_origin d' a = e_origin d a.
Proof.
  intros a N1 N2.
  destruct (flip_six_cases a) as [->|[->|[->|[->|[->|[->|U]]]]]]; try congruence; fl_rw; try reflexivity.
  apply (flip_other_fields a U).
Qed.

Lemma flip_face0 : forall x, e_face d' x = 0 <-> e_face d x = 0.
Proof.
  intros x.
  destruct (dw_tri_facts d e W He Ie) as (_ & _ & _ & _ & _ & _ & A1 & A2 & _).
  destruct (dw_tri_facts d tw W flip_Ht It) as (_ & _ & _ & _ & _ & _ & B1 & B2 & _).
  destruct flip_faces as (F1 & F2 & _).
  destruct (flip_six_cases x) as [->|[->|[->|[->|[->|[->|U]]]]]]; fl_rw; try (split; intro; congruence).
  destruct (flip_other_fields x U) as (_ & _ & -> & _). tauto.
Qed.

(* --- the clauses of DW d' --- *)
Lemma flip_rng' : forall x, x < length (d_hedges d') ->
  e_next d' x < length (d_hedges d') /\ e_prev d' x < length (d_hedges d') /\
  e_face d' x < length (d_faces d') /\ e_origin d' x < length (d_verts d').
Proof.
  intros x Hx. rewrite (fp_lenH d d' e Post) in *. rewrite (fp_lenF d d' e Post), (fp_lenV d d' e Post).
  destruct (dw_tri_facts d e W He Ie) as (Len & Lep & _).
  destruct (dw_tri_facts d tw W flip_Ht It) as (Ltn & Ltp & _).
  pose proof flip_Ht as Ht.
  pose proof (dw_face_lt d W) as FL. pose proof (dw_org_lt d W) as OL.
  destruct (flip_six_cases x) as [->|[->|[->|[->|[->|[->|U]]]]]]; fl_rw; auto.
  destruct (flip_other_fields x U) as (-> & -> & -> & ->). apply (dw_rng d W x Hx).
Qed.

Lemma flip_vout_rng' : forall v, v < length (d_verts d') ->
  forall a, v_out_edge d' v = Some a -> a < length (d_hedges d').
Proof.
  intros v Hv a Ha. rewrite (fp_lenH d d' e Post). rewrite (fp_lenV d d' e Post) in Hv.
  destruct (dw_tri_facts d e W He Ie) as (Len & Lep & _).
  destruct (dw_tri_facts d tw W flip_Ht It) as (Ltn & Ltp & _).
  destruct (Nat.eq_dec v (e_origin d e)) as [->|N1].
  - rewrite (fp_vout_e d d' e Post) in Ha. injection Ha as <-. exact Ltn.
  - destruct (Nat.eq_dec v (e_origin d tw)) as [->|N2].
    + rewrite (fp_vout_t d d' e Post) in Ha. injection Ha as <-. exact Len.
    + rewrite (fp_vout_other d d' e Post v N1 N2) in Ha. apply (dw_vout_rng d W v Hv a Ha).
Qed.

Lemma flip_adj_rng' : forall f, f < length (d_faces d') ->
  forall a, f_adjacent d' f = Some a -> a < length (d_hedges d').
Proof.
  intros f Hf a Ha. rewrite (fp_lenH d d' e Post). rewrite (fp_lenF d d' e Post) in Hf.
  destruct (Nat.eq_dec f fe) as [->|N1].
  - rewrite (fp_adj_e d d' e Post) in Ha. injection Ha as <-. exact He.
  - destruct (Nat.eq_dec f ft) as [->|N2].
    + rewrite (fp_adj_t d d' e Post) in Ha. injection Ha as <-. exact flip_Ht.
    + rewrite (fp_adj_other d d' e Post f N1 N2) in Ha. apply (dw_adj_rng d W f Hf a Ha).
Qed.

(* only from here on: the two apexes are different vertices *)
Hypothesis Apex : e_origin d (e_prev d e) <> e_origin d (e_prev d (rev e)).

Lemma flip_links' : forall x, x < length (d_hedges d') ->
  e_prev d' (e_next d' x) = x /\ e_next d' (e_prev d' x) = x /\
  e_face d' (e_next d' x) = e_face d' x /\
  e_origin d' (e_next d' x) = e_origin d' (rev x) /\
  e_origin d' x <> e_origin d' (rev x).
Proof.
  intros x Hx. rewrite (fp_lenH d d' e Post) in Hx.
  destruct (dw_tri_facts d e W He Ie) as (Len & Lep & A1 & A2 & A3 & A4 & A5 & A6 & _ & _ & _ & A7 & A8 & A9).
  destruct (dw_tri_facts d tw W flip_Ht It) as (Ltn & Ltp & B1 & B2 & B3 & B4 & B5 & B6 & _ & _ & _ & B7 & B8 & B9).
  rewrite rev_rev in B7.
  destruct flip_distinct as (D1 & D2 & D3 & D4 & D5 & D6 & D7 & D8 & D9 & D10 & D11 & D12 & D13 & D14 & D15).
  assert (RK : forall y, y <> e -> y <> tw -> e_origin d' (rev y) = e_origin d (rev y)).
  { intros y Y1 Y2. apply flip_org_keep.
    - intro E. apply Y2. apply rev_inj. rewrite rev_rev. exact E.
    - intro E. apply Y1. apply rev_inj. exact E. }
  pose proof (dw_org_neq d W en Len) as Q1. pose proof (dw_org_neq d W ep Lep) as Q2.
  pose proof (dw_org_neq d W tn Ltn) as Q3. pose proof (dw_org_neq d W tp Ltp) as Q4.
  destruct (flip_six_cases x) as [->|[->|[->|[->|[->|[->|U]]]]]].
  1-6: fl_rw; rewrite ?RK by auto; repeat split; auto; congruence.
  destruct (flip_untouched_closed x Hx U) as (UN & UP).
  destruct (flip_other_fields x U) as (E1 & E2 & E3 & E4). rewrite E1, E2, E3, E4.
  destruct (flip_other_fields _ UN) as (N1 & N2 & N3 & N4).
  destruct (flip_other_fields _ UP) as (P1 & P2 & P3 & P4).
  rewrite N2, P1, N3, N4. rewrite RK by apply U.
  apply (dw_links d W x Hx).
Qed.

Lemma flip_fptr' : forall f, f < length (d_faces d') ->
  match f_adjacent d' f with
  | Some a => e_face d' a = f
  | None => f = 0 /\ length (d_hedges d') = 0
  end.
Proof.
  intros f Hf. rewrite (fp_lenH d d' e Post). rewrite (fp_lenF d d' e Post) in Hf.
  destruct (Nat.eq_dec f fe) as [->|N1].
  - rewrite (fp_adj_e d d' e Post). apply flip_F_e.
  - destruct (Nat.eq_dec f ft) as [->|N2].
    + rewrite (fp_adj_t d d' e Post). apply flip_F_tw.
    + rewrite (fp_adj_other d d' e Post f N1 N2).
      pose proof (dw_fptr d W f Hf) as P. destruct (f_adjacent d f) as [a|]; [|exact P].
      assert (U : flip_untouched d e a) by (apply flip_untouched_by_face; congruence).
      destruct (flip_other_fields a U) as (_ & _ & -> & _). exact P.
Qed.

Lemma flip_vptr' : forall v, v < length (d_verts d') ->
  match v_out_edge d' v with
  | Some a => e_origin d' a = v
  | None => length (d_hedges d') = 0
  end.
Proof.
  intros v Hv. rewrite (fp_lenH d d' e Post). rewrite (fp_lenV d d' e Post) in Hv.
  destruct (dw_tri_facts d e W He Ie) as (_ & _ & _ & _ & _ & _ & _ & _ & _ & _ & _ & A7 & _).
  destruct (dw_tri_facts d tw W flip_Ht It) as (_ & _ & _ & _ & _ & _ & _ & _ & _ & _ & _ & B7 & _).
  rewrite rev_rev in B7.
  destruct (Nat.eq_dec v (e_origin d e)) as [->|N1].
  - rewrite (fp_vout_e d d' e Post). rewrite flip_O_tn. exact B7.
  - destruct (Nat.eq_dec v (e_origin d tw)) as [->|N2].
    + rewrite (fp_vout_t d d' e Post). rewrite flip_O_en. exact A7.
    + rewrite (fp_vout_other d d' e Post v N1 N2).
      pose proof (dw_vptr d W v Hv) as P. destruct (v_out_edge d v) as [a|]; [|exact P].
      rewrite flip_org_keep; [exact P| |]; intro E; subst a; congruence.
Qed.

Lemma flip_tri' : forall x, x < length (d_hedges d') -> e_face d' x <> 0 ->
  e_next d' (e_next d' (e_next d' x)) = x /\
  exists a, f_adjacent d' (e_face d' x) = Some a /\ (x = a \/ x = e_next d' a \/ x = e_next d' (e_next d' a)).
Proof.
  intros x Hx Fx. rewrite (fp_lenH d d' e Post) in Hx.
  destruct (flip_six_cases x) as [->|[->|[->|[->|[->|[->|U]]]]]].
  1-6: fl_rw; split; [reflexivity|].
  - exists e. rewrite (fp_adj_e d d' e Post). fl_rw. auto.
  - exists e. rewrite (fp_adj_e d d' e Post). fl_rw. auto.
  - exists tw. rewrite (fp_adj_t d d' e Post). fl_rw. auto.
  - exists tw. rewrite (fp_adj_t d d' e Post). fl_rw. auto.
  - exists tw. rewrite (fp_adj_t d d' e Post). fl_rw. auto.
  - exists e. rewrite (fp_adj_e d d' e Post). fl_rw. auto.
  - destruct (flip_untouched_closed x Hx U) as (UN & _).
    destruct (flip_untouched_closed _ (dw_next_lt d W x Hx) UN) as (UNN & _).
    destruct (flip_other_fields x U) as (E1 & _ & E3 & _).
    destruct (flip_other_fields _ UN) as (N1 & _).
    destruct (flip_other_fields _ UNN) as (NN1 & _).
    rewrite E3 in *. rewrite E1, N1, NN1.
    destruct (dw_tri d W x Hx Fx) as (T3 & a & Ha & Ea).
    split; [exact T3|].
    (* the face of x is neither of the two flipped faces *)
    assert (G1 : e_face d x <> fe).
    { intro G. destruct (dw_same_face d W e x He Hx Ie G) as [-> | [-> | ->]]; destruct U as (U1 & U2 & U3 & U4 & U5 & U6); congruence. }
    assert (G2 : e_face d x <> ft).
    { intro G. destruct (dw_same_face d W tw x flip_Ht Hx It G) as [-> | [-> | ->]]; destruct U as (U1 & U2 & U3 & U4 & U5 & U6); congruence. }
    rewrite (fp_adj_other d d' e Post _ G1 G2).
    exists a. split; [exact Ha|].
    assert (La : a < nn) by (apply (dw_adj_rng d W (e_face d x)); [apply dw_face_lt; assumption|exact Ha]).
    assert (Fa : e_face d a = e_face d x).
    { pose proof (dw_fptr d W (e_face d x) (dw_face_lt d W x Hx)) as P. rewrite Ha in P. exact P. }
    assert (Ua : flip_untouched d e a) by (apply flip_untouched_by_face; congruence).
    destruct (flip_untouched_closed a La Ua) as (UaN & _).
    destruct (flip_other_fields a Ua) as (-> & _).
    destruct (flip_other_fields _ UaN) as (-> & _).
    exact Ea.
Qed.

Theorem flip_DW' : DW d'.
Proof.
  constructor.
  - rewrite (fp_flags d d' e Post), (fp_lenH d d' e Post). apply (dw_even d W).
  - rewrite (fp_lenF d d' e Post). apply (dw_face1 d W).
  - exact flip_rng'.
  - exact flip_vout_rng'.
  - exact flip_adj_rng'.
  - exact flip_links'.
  - exact flip_fptr'.
  - exact flip_vptr'.
  - exact flip_tri'.
Qed.

End FlipAbs.

(* ================================================================================================ *)
(* PART 3.  the generated flip_cw                                                                    *)
(* ================================================================================================ *)

(* The state after flip_cw is characterised POINTWISE (record FlipPost).  Nothing below depends on the order of
   the statements of the generated chain: every read `half_edge d' x`, `v_out_edge d' v`, `f_adjacent d' f`,
   every table length, is evaluated by the tactics of Dcel/Chain.v, which peel the writes off the chain one at a
   time with read-after-write lemmas and decide the index (dis)equalities from the distinctness facts of the
   two triangles (flip_distinct, flip_faces, dw_org_neq) -- whatever the order of the writes. *)
Lemma hrec_eta : forall h, h = mkh (h_next h) (h_prev h) (h_face h) (h_org h).
Proof. intros []. reflexivity. Qed.

Lemma flip_cw_flags : forall d k, d_flags (fst (DcelOps.flip_cw d k)) = d_flags d.
Proof. reflexivity. Qed.

Lemma flip_cw_len_hedges : forall d k, length (d_hedges (fst (DcelOps.flip_cw d k))) = length (d_hedges d).
Proof. intros d k. unfold DcelOps.flip_cw. cbv zeta. cbn [fst]. ch_len. reflexivity. Qed.

Lemma flip_cw_post : forall d k, DW d -> k < Raw.num_undirected_edges d ->
  inner d (2 * k) -> inner d (rev (2 * k)) ->
  FlipPost d (fst (DcelOps.flip_cw d k)) (2 * k).
Proof.
  intros d k W Hk Ie It.
  destruct (dw_double_lt d W k Hk) as (He & _).
  pose proof (flip_Ht d (2 * k) W He) as Ht.
  destruct (dw_tri_facts d (2 * k) W He Ie) as (Len & Lep & _).
  destruct (dw_tri_facts d (rev (2 * k)) W Ht It) as (Ltn & Ltp & _).
  destruct (flip_distinct d (2 * k) W He Ie It)
    as (D1 & D2 & D3 & D4 & D5 & D6 & D7 & D8 & D9 & D10 & D11 & D12 & D13 & D14 & D15).
  destruct (flip_faces d (2 * k) W He Ie It) as (_ & _ & FF).
  pose proof (dw_face_lt d W _ He) as LFe. pose proof (dw_face_lt d W _ Ht) as LFt.
  pose proof (dw_org_lt d W _ He) as LOe. pose proof (dw_org_lt d W _ Ht) as LOt.
  pose proof (dw_org_neq d W _ He) as NO.
  pose proof (dw_face_next d W _ He) as FNe. pose proof (dw_face_next d W _ Ht) as FNt.
  remember (fst (DcelOps.flip_cw d k)) as d' eqn:Hd.
  unfold DcelOps.flip_cw in Hd; cbv zeta in Hd; cbn [fst] in Hd; unfold e_rev, normalized in Hd.
  fold (e_next d (2 * k)) (e_prev d (2 * k)) (e_face d (2 * k)) (e_origin d (2 * k)) in Hd.
  fold (e_next d (rev (2 * k))) (e_prev d (rev (2 * k))) (e_face d (rev (2 * k))) (e_origin d (rev (2 * k))) in Hd.
  remember (2 * k) as e eqn:Ee.
  remember (rev e) as tw eqn:Etw.
  remember (e_next d e) as en eqn:Een. remember (e_prev d e) as ep eqn:Eep.
  remember (e_next d tw) as tn eqn:Etn. remember (e_prev d tw) as tp eqn:Etp.
  remember (e_face d e) as fe eqn:Efe. remember (e_face d tw) as ft eqn:Eft.
  remember (e_origin d e) as oe eqn:Eoe. remember (e_origin d tw) as ot eqn:Eot.
  constructor.
  all: rewrite <- ?Etw; rewrite <- ?Een, <- ?Eep, <- ?Etn, <- ?Etp; rewrite <- ?Efe, <- ?Eft, <- ?Eoe, <- ?Eot.
  - rewrite Hd. reflexivity.
  - rewrite Hd. ch_len. reflexivity.
  - rewrite Hd. ch_len. reflexivity.
  - rewrite Hd. ch_len. reflexivity.
  - rewrite Hd; ch_fields; ch_read; ch_fin.
  - rewrite Hd; ch_fields; ch_read; ch_fin.
  - rewrite Hd; ch_fields; ch_read; ch_fin.
  - rewrite Hd; ch_fields; ch_read; ch_fin.
  - rewrite Hd; ch_fields; ch_read; ch_fin.
  - rewrite Hd; ch_fields; ch_read; ch_fin.
  - intros x (U1 & U2 & U3 & U4 & U5 & U6).
    rewrite <- ?Etw in *. rewrite <- ?Een, <- ?Eep, <- ?Etn, <- ?Etp in *.
    rewrite Hd. ch_read. reflexivity.
  - intros v. apply ch_vxyd_inv. rewrite Hd. ch_read. reflexivity.
  - rewrite Hd. ch_read. reflexivity.
  - rewrite Hd. ch_read. reflexivity.
  - intros v N1 N2. rewrite Hd. ch_read. reflexivity.
  - rewrite Hd. ch_read. reflexivity.
  - rewrite Hd. ch_read. reflexivity.
  - intros f N1 N2. rewrite Hd. ch_read. reflexivity.
Qed.

(* ------------------------------------------------------------------------------------------------ *)
(* Main theorem.  Compared with the requested statement there is ONE extra precondition: the two     *)
(* apexes (the end points of the flipped edge) are different vertices.  Without it the statement is  *)
(* false: see flip_cw_wf_counterexample.                                                             *)
(* ------------------------------------------------------------------------------------------------ *)
Theorem flip_cw_wf_partial : forall d e, DWf d -> e < Raw.num_undirected_edges d ->
  inner d (2 * e) -> inner d (2 * e + 1) ->
  e_origin d (e_prev d (2 * e)) <> e_origin d (e_prev d (2 * e + 1)) ->
  let d' := fst (DcelOps.flip_cw d e) in
     DWf d'
  /\ Raw.num_vertices d' = Raw.num_vertices d /\ Raw.num_undirected_edges d' = Raw.num_undirected_edges d
  /\ Raw.num_faces d' = Raw.num_faces d /\ length (d_hedges d') = length (d_hedges d)
  /\ d_flags d' = d_flags d
  /\ (forall v, v < Raw.num_vertices d -> let a := nth v (d_verts d') dflt_v in let b := nth v (d_verts d) dflt_v in
                v_x a = v_x b /\ v_y a = v_y b /\ v_data a = v_data b)
  /\ (forall x, x < length (d_hedges d) -> (e_face d' x = 0 <-> e_face d x = 0))
  /\ e_origin d' (2 * e) = e_origin d (e_prev d (2 * e)) /\ e_origin d' (2 * e + 1) = e_origin d (e_prev d (2 * e + 1)).
Proof.
  intros d k Wf Hk Ie It Apex d'.
  apply DWf_DW in Wf. rename Wf into W.
  rewrite <- (rev_even k) in It, Apex |- *.
  destruct (dw_double_lt d W k Hk) as (He & _).
  pose proof (flip_cw_post d k W Hk Ie It) as Post. fold d' in Post.
  split; [|split; [|split; [|split; [|split; [|split; [|split; [|split; [|split]]]]]]]].
  - apply DWf_DW. apply (flip_DW' d d' (2 * k)); assumption.
  - unfold Raw.num_vertices. apply (fp_lenV d d' _ Post).
  - unfold Raw.num_undirected_edges. rewrite (fp_flags d d' _ Post). reflexivity.
  - unfold Raw.num_faces. apply (fp_lenF d d' _ Post).
  - apply (fp_lenH d d' _ Post).
  - apply (fp_flags d d' _ Post).
  - intros v _. apply (fp_vdata d d' _ Post v).
  - intros x _. apply (flip_face0 d d' (2 * k)); assumption.
  - apply (flip_O_e d d' (2 * k)); assumption.
  - apply (flip_O_tw d d' (2 * k)); assumption.
Qed.

(* The requested statement (without the apex precondition) is false: a "pillow" of two triangles glued
   along all three edges (so both apexes are vertex 2), next to a separate two-vertex component that
   carries the outer face.  All link-level clauses hold; flipping edge 0 makes it a loop 2 -> 2. *)
Definition flip_cex : dcel := mkdcel
  [mkv 0 0 0 (Some 0); mkv 0 0 0 (Some 1); mkv 0 0 0 (Some 4); mkv 0 0 0 (Some 6); mkv 0 0 0 (Some 7)]
  [mkh 2 4 1 0; mkh 5 3 2 1; mkh 4 0 1 1; mkh 1 5 2 2; mkh 0 2 1 2; mkh 3 1 2 0; mkh 7 7 0 3; mkh 6 6 0 4]
  [Some 6; Some 0; Some 1]
  [false; false; false; false].

Definition wfcore_b (s : obs) : bool :=
  wf_counts s && wf_ranges s && wf_links s && wf_face_ptrs s && wf_vertex_ptrs s && wf_triangles s.
Lemma wfcore_b_spec : forall s, wfcore_b s = true <-> WfCore s.
Proof.
  intros s. unfold wfcore_b, WfCore.
  rewrite !andb_true_iff, wf_counts_spec, wf_ranges_spec, wf_links_spec, wf_face_ptrs_spec,
    wf_vertex_ptrs_spec, wf_triangles_spec. tauto.
Qed.

Theorem flip_cw_wf_counterexample :
  exists d e, DWf d /\ e < Raw.num_undirected_edges d /\ inner d (2 * e) /\ inner d (2 * e + 1) /\
              ~ DWf (fst (DcelOps.flip_cw d e)).
Proof.
  exists flip_cex, 0. split; [|split; [|split; [|split]]].
  - apply wfcore_b_spec. vm_compute. reflexivity.
  - vm_compute. lia.
  - vm_compute. discriminate.
  - vm_compute. discriminate.
  - intro H. apply wfcore_b_spec in H. vm_compute in H. discriminate.
Qed.

Print Assumptions flip_cw_wf_partial.
Print Assumptions flip_cw_wf_counterexample.
