(* Dcel/ProofsHull.v -- the DCEL primitives used when a vertex is inserted outside the convex hull or
   while all vertices are collinear (Gen/DcelOps.v, generated from dcel_operations.rs) preserve
   link-level well-formedness, with exact count deltas (C02):
     create_new_face_adjacent_to_edge, create_single_face_between_edge_and_next, extend_line,
     split_edge_when_all_vertices_on_line, insert_first_vertex, insert_second_vertex. *)
From Coq Require Import ZArith List Bool Arith Lia.
From SpadeV Require Import Obs.State Obs.Spec Obs.SpecProp Vmap.Model Dcel.Raw Dcel.Chain Dcel.WfCore Gen.DcelOps.
Import ListNotations.

(* ROBUSTNESS AGAINST REORDERINGS OF THE GENERATED CODE.  Every section below starts from a lemma X_unfold
   (el_unfold, sl_unfold, cnf_unfold, csf_unfold) which states that, under the preconditions of the section, the
   generated primitive returns a REFERENCE chain of writes written out in the statement; all later lemmas read
   through that reference chain with conditional read-after-write lemmas (raw_simp / fld_simp), which is
   insensitive to order.  The X_unfold lemmas themselves do not compare the generated chain with the reference
   chain by reflexivity: after the guards of the primitive have been resolved, the two chains are proved equal by
   ch_chain_eq (Dcel/Chain.v): table by table, entry by entry, both sides evaluated by peeling the writes off in
   whatever order they come, with the distinctness / range facts X_ctx of the section for the side conditions.
   Independent statements of the generated functions may therefore be permuted freely. *)

(* ------------------------------------------------------------------------------------------ *)
(* list lemmas *)

Lemma set_nth_length : forall {A} i (x : A) l, length (set_nth i x l) = length l.
Proof.
  intros A i x l. revert i. induction l as [|h t IH]; intros [|i]; cbn [set_nth length]; auto.
Qed.

Lemma nth_set_nth : forall {A} i j (x : A) l dd, i < length l ->
  nth j (set_nth i x l) dd = if j =? i then x else nth j l dd.
Proof.
  intros A i j x l dd. revert i j. induction l as [|h t IH]; intros [|i] [|j] Hi;
    cbn [set_nth nth length Nat.eqb] in *; try lia; auto.
  apply IH. lia.
Qed.

Lemma nth_push2 : forall {A} (l : list A) a b j dd,
  nth j (l ++ [a; b]) dd =
    if j <? length l then nth j l dd else if j =? length l then a else if j =? S (length l) then b else dd.
Proof.
  intros A l a b j dd. destruct (Nat.ltb_spec j (length l)) as [H|H].
  - apply app_nth1. exact H.
  - rewrite app_nth2 by exact H.
    destruct (Nat.eqb_spec j (length l)) as [E|E].
    + replace (j - length l) with 0 by lia. reflexivity.
    + destruct (Nat.eqb_spec j (S (length l))) as [E2|E2].
      * replace (j - length l) with 1 by lia. reflexivity.
      * destruct (j - length l) as [|[|k]] eqn:K; try lia. cbn [nth]. destruct k; reflexivity.
Qed.

Lemma nth_push1 : forall {A} (l : list A) a j dd,
  nth j (l ++ [a]) dd = if j <? length l then nth j l dd else if j =? length l then a else dd.
Proof.
  intros A l a j dd. destruct (Nat.ltb_spec j (length l)) as [H|H].
  - apply app_nth1. exact H.
  - rewrite app_nth2 by exact H.
    destruct (Nat.eqb_spec j (length l)) as [E|E].
    + replace (j - length l) with 0 by lia. reflexivity.
    + destruct (j - length l) as [|k] eqn:K; try lia. cbn [nth]. destruct k; reflexivity.
Qed.

(* counting the elements below n that satisfy p *)
Definition cnt (p : nat -> bool) (n : nat) : nat := length (filter p (seq 0 n)).

Lemma cnt_S : forall p n, cnt p (S n) = cnt p n + (if p n then 1 else 0).
Proof.
  intros p n. unfold cnt. rewrite seq_S, filter_app, app_length. cbn [filter plus].
  destruct (p n); reflexivity.
Qed.

Lemma cnt_ext : forall p q n, (forall x, x < n -> p x = q x) -> cnt p n = cnt q n.
Proof.
  intros p q n. induction n as [|n IH]; intro H; [reflexivity|].
  rewrite !cnt_S, IH, (H n) by (intros; try apply H; lia). reflexivity.
Qed.

Lemma cnt_flip : forall p q n e, e < n -> (forall x, x < n -> x <> e -> p x = q x) ->
  p e = true -> q e = false -> cnt p n = S (cnt q n).
Proof.
  intros p q n e. induction n as [|n IH]; intros He H Hp Hq; [lia|].
  rewrite !cnt_S. destruct (Nat.eq_dec e n) as [->|Hne].
  - rewrite Hp, Hq. rewrite (cnt_ext p q n) by (intros; apply H; lia). lia.
  - rewrite IH by (try assumption; try lia; intros; apply H; lia).
    rewrite (H n) by lia. lia.
Qed.

(* ------------------------------------------------------------------------------------------ *)
(* rev *)

Lemma even_double : forall k, Nat.even (2 * k) = true.
Proof. intro k. apply Nat.even_spec. exists k. reflexivity. Qed.

Lemma rev_cases : forall x, exists k, (x = 2 * k /\ rev x = 2 * k + 1) \/ (x = 2 * k + 1 /\ rev x = 2 * k).
Proof.
  intro x. unfold rev. destruct (Nat.even x) eqn:E.
  - apply Nat.even_spec in E. destruct E as [k Hk]. exists k. left. lia.
  - assert (O : Nat.odd x = true) by (rewrite <- Nat.negb_even, E; reflexivity).
    apply Nat.odd_spec in O. destruct O as [k Hk]. exists k. right. lia.
Qed.

(* ------------------------------------------------------------------------------------------ *)
(* DWf through the raw accessors *)

Definition DW (d : dcel) : Prop :=
  (length (d_flags d) * 2 = length (d_hedges d) /\ 1 <= length (d_faces d))
  /\ ((forall e, e < length (d_hedges d) ->
         e_next d e < length (d_hedges d) /\ e_prev d e < length (d_hedges d) /\
         e_face d e < length (d_faces d) /\ e_origin d e < length (d_verts d))
      /\ (forall v, v < length (d_verts d) -> forall e, v_out_edge d v = Some e -> e < length (d_hedges d))
      /\ (forall f, f < length (d_faces d) -> forall e, f_adjacent d f = Some e -> e < length (d_hedges d)))
  /\ (forall e, e < length (d_hedges d) ->
        e_prev d (e_next d e) = e /\ e_next d (e_prev d e) = e /\
        e_face d (e_next d e) = e_face d e /\
        e_origin d (e_next d e) = e_origin d (rev e) /\
        e_origin d e <> e_origin d (rev e))
  /\ (forall f, f < length (d_faces d) ->
        match f_adjacent d f with
        | Some e => e_face d e = f
        | None => f = 0 /\ length (d_hedges d) = 0
        end)
  /\ (forall v, v < length (d_verts d) ->
        match v_out_edge d v with
        | Some e => e_origin d e = v
        | None => length (d_hedges d) = 0
        end)
  /\ (forall e, e < length (d_hedges d) -> e_face d e <> 0 ->
        e_next d (e_next d (e_next d e)) = e /\
        exists a, f_adjacent d (e_face d e) = Some a /\
                  (e = a \/ e = e_next d a \/ e = e_next d (e_next d a))).

Lemma DWf_iff : forall d, DWf d <-> DW d.
Proof.
  intro d. unfold DWf, WfCore, DW.
  unfold WfCounts, WfRanges, WfLinks, WfFacePtrs, WfVertexPtrs, WfTriangles, HE, opt_below.
  change (nH (obs_of_dcel d)) with (length (d_hedges d)).
  change (nV (obs_of_dcel d)) with (length (d_verts d)).
  change (nF (obs_of_dcel d)) with (length (d_faces d)).
  change (o_nv (obs_of_dcel d)) with (length (d_verts d)).
  change (o_ne (obs_of_dcel d)) with (length (d_flags d)).
  change (o_nf (obs_of_dcel d)) with (length (d_faces d)).
  change (o_flags (obs_of_dcel d)) with (d_flags d).
  change (next (obs_of_dcel d)) with (e_next d).
  change (prev (obs_of_dcel d)) with (e_prev d).
  change (face (obs_of_dcel d)) with (e_face d).
  change (org (obs_of_dcel d)) with (e_origin d).
  change (dest (obs_of_dcel d)) with (fun e => e_origin d (rev e)).
  change (adj (obs_of_dcel d)) with (f_adjacent d).
  change (vout (obs_of_dcel d)) with (v_out_edge d).
  cbv beta. tauto.
Qed.

Definition outer_count (d : dcel) : nat := length (outer_edges (obs_of_dcel d)).

Lemma outer_count_cnt : forall d, outer_count d = cnt (fun e => e_face d e =? 0) (length (d_hedges d)).
Proof. intro d. reflexivity. Qed.

(* ------------------------------------------------------------------------------------------ *)
(* read-after-write for the Raw API *)

Lemma rev_involutive : forall x, rev (rev x) = x.
Proof.
  intro x. destruct (rev_cases x) as [k [[H1 H2]|[H1 H2]]]; destruct (rev_cases (rev x)) as [j [[H3 H4]|[H3 H4]]]; lia.
Qed.

Lemma rev_normalized : forall k, e_rev (normalized k) = 2 * k + 1.
Proof. intro k. unfold e_rev, normalized. destruct (rev_cases (2 * k)) as [j [[H1 H2]|[H1 H2]]]; lia. Qed.

Lemma he_upd_h : forall d a f x, a < length (d_hedges d) ->
  half_edge (upd_h d a f) x = if x =? a then f (half_edge d a) else half_edge d x.
Proof. intros d a f x H. unfold half_edge at 1, upd_h. cbn [d_hedges]. rewrite nth_set_nth by exact H. reflexivity. Qed.

Lemma he_push_edge : forall d h0 h1 x,
  half_edge (push_edge d h0 h1) x =
    if x <? length (d_hedges d) then half_edge d x
    else if x =? length (d_hedges d) then h0 else if x =? S (length (d_hedges d)) then h1 else dflt_h.
Proof. intros. unfold half_edge at 1, push_edge. cbn [d_hedges]. apply nth_push2. Qed.

Lemma he_push_face : forall d o x, half_edge (push_face d o) x = half_edge d x. Proof. reflexivity. Qed.
Lemma he_push_vertex : forall d v o x, half_edge (push_vertex d v o) x = half_edge d x. Proof. reflexivity. Qed.
Lemma he_set_out_edge : forall d v o x, half_edge (set_out_edge d v o) x = half_edge d x. Proof. reflexivity. Qed.
Lemma he_set_adjacent_edge : forall d f o x, half_edge (set_adjacent_edge d f o) x = half_edge d x. Proof. reflexivity. Qed.

Lemma lh_upd_h : forall d a f, length (d_hedges (upd_h d a f)) = length (d_hedges d).
Proof. intros. unfold upd_h. cbn [d_hedges]. apply set_nth_length. Qed.
Lemma lh_push_edge : forall d h0 h1, length (d_hedges (push_edge d h0 h1)) = length (d_hedges d) + 2.
Proof. intros. unfold push_edge. cbn [d_hedges]. rewrite app_length. reflexivity. Qed.
Lemma lh_push_face : forall d o, length (d_hedges (push_face d o)) = length (d_hedges d). Proof. reflexivity. Qed.
Lemma lh_push_vertex : forall d v o, length (d_hedges (push_vertex d v o)) = length (d_hedges d). Proof. reflexivity. Qed.
Lemma lh_set_out_edge : forall d v o, length (d_hedges (set_out_edge d v o)) = length (d_hedges d). Proof. reflexivity. Qed.
Lemma lh_set_adjacent_edge : forall d f o, length (d_hedges (set_adjacent_edge d f o)) = length (d_hedges d). Proof. reflexivity. Qed.

Lemma dv_upd_h : forall d a f, d_verts (upd_h d a f) = d_verts d. Proof. reflexivity. Qed.
Lemma dv_push_edge : forall d h0 h1, d_verts (push_edge d h0 h1) = d_verts d. Proof. reflexivity. Qed.
Lemma dv_push_face : forall d o, d_verts (push_face d o) = d_verts d. Proof. reflexivity. Qed.
Lemma dv_set_adjacent_edge : forall d f o, d_verts (set_adjacent_edge d f o) = d_verts d. Proof. reflexivity. Qed.
Lemma dv_push_vertex : forall d v o, d_verts (push_vertex d v o) = d_verts d ++ [mkv (vd_x v) (vd_y v) (vd_d v) o].
Proof. reflexivity. Qed.
Lemma dv_set_out_edge : forall d v o, d_verts (set_out_edge d v o) =
  set_nth v (mkv (v_x (nth v (d_verts d) dflt_v)) (v_y (nth v (d_verts d) dflt_v)) (v_data (nth v (d_verts d) dflt_v)) o) (d_verts d).
Proof. reflexivity. Qed.

Lemma df_upd_h : forall d a f, d_faces (upd_h d a f) = d_faces d. Proof. reflexivity. Qed.
Lemma df_push_edge : forall d h0 h1, d_faces (push_edge d h0 h1) = d_faces d. Proof. reflexivity. Qed.
Lemma df_push_vertex : forall d v o, d_faces (push_vertex d v o) = d_faces d. Proof. reflexivity. Qed.
Lemma df_set_out_edge : forall d v o, d_faces (set_out_edge d v o) = d_faces d. Proof. reflexivity. Qed.
Lemma df_push_face : forall d o, d_faces (push_face d o) = d_faces d ++ [o]. Proof. reflexivity. Qed.
Lemma df_set_adjacent_edge : forall d f o, d_faces (set_adjacent_edge d f o) = set_nth f o (d_faces d). Proof. reflexivity. Qed.

Lemma dg_upd_h : forall d a f, d_flags (upd_h d a f) = d_flags d. Proof. reflexivity. Qed.
Lemma dg_push_edge : forall d h0 h1, d_flags (push_edge d h0 h1) = d_flags d ++ [false]. Proof. reflexivity. Qed.
Lemma dg_push_face : forall d o, d_flags (push_face d o) = d_flags d. Proof. reflexivity. Qed.
Lemma dg_push_vertex : forall d v o, d_flags (push_vertex d v o) = d_flags d. Proof. reflexivity. Qed.
Lemma dg_set_out_edge : forall d v o, d_flags (set_out_edge d v o) = d_flags d. Proof. reflexivity. Qed.
Lemma dg_set_adjacent_edge : forall d f o, d_flags (set_adjacent_edge d f o) = d_flags d. Proof. reflexivity. Qed.

#[local] Hint Rewrite he_push_edge he_push_face he_push_vertex he_set_out_edge he_set_adjacent_edge
  lh_upd_h lh_push_edge lh_push_face lh_push_vertex lh_set_out_edge lh_set_adjacent_edge
  dv_upd_h dv_push_edge dv_push_face dv_set_adjacent_edge dv_push_vertex dv_set_out_edge
  df_upd_h df_push_edge df_push_vertex df_set_out_edge df_push_face df_set_adjacent_edge
  dg_upd_h dg_push_edge dg_push_face dg_push_vertex dg_set_out_edge dg_set_adjacent_edge : raw.

Local Ltac raw_simp :=
  unfold set_next, set_prev, set_face, set_origin, set_half_edge;
  repeat (progress (autorewrite with raw; rewrite ?he_upd_h by (autorewrite with raw; lia))).

Local Ltac case_if :=
  match goal with
  | |- context [if ?a =? ?b then _ else _] => destruct (Nat.eqb_spec a b)
  | |- context [if ?a <? ?b then _ else _] => destruct (Nat.ltb_spec a b)
  end.

(* facts about one half-edge of a well-formed dcel *)
Lemma DW_he : forall d, DW d -> forall e, e < length (d_hedges d) ->
  (e_next d e < length (d_hedges d) /\ e_prev d e < length (d_hedges d) /\
   e_face d e < length (d_faces d) /\ e_origin d e < length (d_verts d)) /\
  (e_prev d (e_next d e) = e /\ e_next d (e_prev d e) = e /\
   e_face d (e_next d e) = e_face d e /\
   e_origin d (e_next d e) = e_origin d (rev e) /\
   e_origin d e <> e_origin d (rev e)).
Proof. intros d (_ & (R & _) & L & _) e He. split; [apply R|apply L]; exact He. Qed.

Lemma DW_even : forall d, DW d -> length (d_hedges d) = 2 * length (d_flags d).
Proof. intros d ((H & _) & _). lia. Qed.

Lemma DW_rev_lt : forall d, DW d -> forall e, e < length (d_hedges d) -> rev e < length (d_hedges d).
Proof.
  intros d H e He. pose proof (DW_even d H) as Hev.
  destruct (rev_cases e) as [k [[H1 H2]|[H1 H2]]]; lia.
Qed.

Lemma DW_adj : forall d, DW d -> forall f a, f < length (d_faces d) -> f_adjacent d f = Some a ->
  a < length (d_hedges d) /\ e_face d a = f.
Proof.
  intros d (_ & (_ & _ & R) & _ & FP & _) f a Hf Ha. split; [exact (R f Hf a Ha)|].
  specialize (FP f Hf). rewrite Ha in FP. exact FP.
Qed.

Lemma DW_vout : forall d, DW d -> forall v a, v < length (d_verts d) -> v_out_edge d v = Some a ->
  a < length (d_hedges d) /\ e_origin d a = v.
Proof.
  intros d (_ & (_ & R & _) & _ & _ & VP & _) v a Hv Ha. split; [exact (R v Hv a Ha)|].
  specialize (VP v Hv). rewrite Ha in VP. exact VP.
Qed.

Lemma DW_tri : forall d, DW d -> forall e, e < length (d_hedges d) -> e_face d e <> 0 ->
  e_next d (e_next d (e_next d e)) = e /\
  exists a, f_adjacent d (e_face d e) = Some a /\ (e = a \/ e = e_next d a \/ e = e_next d (e_next d a)).
Proof. intros d (_ & _ & _ & _ & _ & T). exact T. Qed.

Lemma v_out_edge_ge : forall d v, length (d_verts d) <= v -> v_out_edge d v = None.
Proof. intros d v H. unfold v_out_edge. rewrite nth_overflow by exact H. reflexivity. Qed.

Lemma hrec_eta : forall h, h = mkh (h_next h) (h_prev h) (h_face h) (h_org h).
Proof. intros []. reflexivity. Qed.

Local Ltac he_leaf :=
  try (match goal with |- half_edge ?d ?x = _ => rewrite (hrec_eta (half_edge d x)) end);
  unfold e_next, e_prev, e_face, e_origin in *;
  cbn [h_next h_prev h_face h_org]; f_equal; try lia; try congruence.

(* lia is exponential in the number of disequality hypotheses: arithmetic pruning ignores them
   (contradictions with a disequality are found by congruence) *)
Local Ltac clear_neq := repeat match goal with H : _ <> _ |- _ => clear H end.
Local Ltac lia0 := solve [clear_neq; lia].
Local Ltac prune := try congruence; try lia0.

(* decide the condition of one `if` of the goal: by arithmetic when possible, else by cases *)
Local Ltac case_if2 :=
  match goal with
  | |- context [if ?a <? ?b then _ else _] =>
      first [ rewrite (proj2 (Nat.ltb_lt a b)) by assumption
            | rewrite (proj2 (Nat.ltb_lt a b)) by lia0 | rewrite (proj2 (Nat.ltb_ge a b)) by lia0
            | destruct (Nat.ltb_spec a b); prune ]
  | |- context [if ?a =? ?b then _ else _] =>
      lazymatch a with context [if _ then _ else _] => fail | _ => idtac end;
      first [ rewrite (Nat.eqb_refl a)
            | rewrite (proj2 (Nat.eqb_neq a b)) by assumption
            | rewrite (proj2 (Nat.eqb_neq a b)) by lia0 | rewrite (proj2 (Nat.eqb_eq a b)) by lia0
            | destruct (Nat.eqb_spec a b); prune ]
  end.

Local Ltac dfacts H := destruct H as ((? & ? & ? & ?) & (? & ? & ? & ? & ?)).
(* `hef lem t`: the facts `lem : forall x, x < N -> ...` about the half-edge t (t < N by lia) *)
Local Ltac hef lem t := let F := fresh "F" in pose proof (lem t ltac:(lia)) as F; dfacts F.

(* the triangle clause for a half-edge of an inner face none of whose links was touched *)
Lemma tri_frame : forall d d', DW d ->
  (forall x, x < length (d_hedges d) -> e_face d x <> 0 -> e_next d' x = e_next d x) ->
  forall x, x < length (d_hedges d) -> e_face d x <> 0 ->
  f_adjacent d' (e_face d x) = f_adjacent d (e_face d x) ->
  e_next d' (e_next d' (e_next d' x)) = x /\
  exists a, f_adjacent d' (e_face d x) = Some a /\ (x = a \/ x = e_next d' a \/ x = e_next d' (e_next d' a)).
Proof.
  intros d d' HW Hn x Hx Hfx Hadj.
  destruct (DW_tri d HW x Hx Hfx) as (T3 & a & Ha & Hor).
  destruct (DW_he d HW x Hx) as ((X1 & _ & X2 & _) & (_ & _ & X3 & _)).
  destruct (DW_he d HW _ X1) as ((Y1 & _) & (_ & _ & Y3 & _)).
  destruct (DW_adj d HW _ a X2 Ha) as (Ha' & Hfa).
  destruct (DW_he d HW a Ha') as ((A1 & _) & (_ & _ & A3 & _)).
  split.
  - rewrite (Hn x), (Hn (e_next d x)), (Hn (e_next d (e_next d x))); try assumption; congruence.
  - exists a. rewrite Hadj. split; [exact Ha|].
    rewrite (Hn a), (Hn (e_next d a)); try assumption; congruence.
Qed.

(* when there is only the outer face (all vertices collinear), every half-edge is outer *)
Lemma line_outer : forall d, DWf d -> Raw.num_faces d = 1 -> forall e, e < length (d_hedges d) -> outer d e.
Proof.
  intros d HW HF e He. apply DWf_iff in HW. destruct (DW_he d HW e He) as ((_ & _ & Hf & _) & _).
  unfold Raw.num_faces in HF. unfold outer. lia.
Qed.

Lemma DWf_rev_lt : forall d, DWf d -> forall e, e < length (d_hedges d) -> rev e < length (d_hedges d).
Proof. intros d HW. apply DWf_iff in HW. exact (DW_rev_lt d HW). Qed.

Lemma DWf_vout_lt : forall d, DWf d -> forall v o, v_out_edge d v = Some o -> o < length (d_hedges d).
Proof.
  intros d HW v o Ho. apply DWf_iff in HW.
  destruct (Nat.ltb_spec v (length (d_verts d))) as [H|H].
  - exact (proj1 (DW_vout d HW v o H Ho)).
  - rewrite (v_out_edge_ge d v H) in Ho. discriminate.
Qed.

(* the preconditions of extend_line_wf / split_edge_when_all_vertices_on_line_wf in the collinear case *)
Lemma line_vout_outer : forall d, DWf d -> Raw.num_faces d = 1 -> forall v o, v_out_edge d v = Some o -> outer d o.
Proof. intros d HW HF v o Ho. apply (line_outer d HW HF). exact (DWf_vout_lt d HW v o Ho). Qed.

Lemma line_rev_outer : forall d, DWf d -> Raw.num_faces d = 1 -> forall e, e < length (d_hedges d) -> outer d (rev e).
Proof. intros d HW HF e He. apply (line_outer d HW HF). exact (DWf_rev_lt d HW e He). Qed.

(* field-level read-after-write (no duplication of reads) *)
Lemma nth_set_nth_gen : forall {A} i j (x : A) l dd,
  nth j (set_nth i x l) dd = if (j =? i) && (i <? length l) then x else nth j l dd.
Proof.
  intros A i j x l dd. revert i j. induction l as [|h t IH]; intros i j.
  - destruct i, j; cbn [set_nth nth length]; rewrite ?andb_false_r; reflexivity.
  - destruct i as [|i], j as [|j]; cbn [set_nth nth length Nat.eqb andb]; try reflexivity.
    rewrite IH. replace (S i <? S (length t)) with (i <? length t) by reflexivity. reflexivity.
Qed.

Lemma he_upd_h_gen : forall d a f x,
  half_edge (upd_h d a f) x = if (x =? a) && (a <? length (d_hedges d)) then f (half_edge d a) else half_edge d x.
Proof. intros. unfold half_edge at 1, upd_h. cbn [d_hedges]. apply nth_set_nth_gen. Qed.

Local Ltac fld_tac :=
  intros; unfold e_next, e_prev, e_face, e_origin, set_next, set_prev, set_face, set_origin, set_half_edge;
  rewrite he_upd_h_gen;
  match goal with |- context [?x =? ?a] => destruct (Nat.eqb_spec x a) as [->|] end; cbn [andb]; try reflexivity;
  match goal with |- context [?a <? ?b] => destruct (Nat.ltb_spec a b) end;
  cbn [h_next h_prev h_face h_org]; try reflexivity; try lia.

Lemma next_set_next : forall d a v x, a < length (d_hedges d) -> e_next (set_next d a v) x = if x =? a then v else e_next d x.
Proof. fld_tac. Qed.
Lemma prev_set_next : forall d a v x, e_prev (set_next d a v) x = e_prev d x.
Proof. fld_tac. Qed.
Lemma face_set_next : forall d a v x, e_face (set_next d a v) x = e_face d x.
Proof. fld_tac. Qed.
Lemma origin_set_next : forall d a v x, e_origin (set_next d a v) x = e_origin d x.
Proof. fld_tac. Qed.
Lemma next_set_prev : forall d a v x, e_next (set_prev d a v) x = e_next d x.
Proof. fld_tac. Qed.
Lemma prev_set_prev : forall d a v x, a < length (d_hedges d) -> e_prev (set_prev d a v) x = if x =? a then v else e_prev d x.
Proof. fld_tac. Qed.
Lemma face_set_prev : forall d a v x, e_face (set_prev d a v) x = e_face d x.
Proof. fld_tac. Qed.
Lemma origin_set_prev : forall d a v x, e_origin (set_prev d a v) x = e_origin d x.
Proof. fld_tac. Qed.
Lemma next_set_face : forall d a v x, e_next (set_face d a v) x = e_next d x.
Proof. fld_tac. Qed.
Lemma prev_set_face : forall d a v x, e_prev (set_face d a v) x = e_prev d x.
Proof. fld_tac. Qed.
Lemma face_set_face : forall d a v x, a < length (d_hedges d) -> e_face (set_face d a v) x = if x =? a then v else e_face d x.
Proof. fld_tac. Qed.
Lemma origin_set_face : forall d a v x, e_origin (set_face d a v) x = e_origin d x.
Proof. fld_tac. Qed.
Lemma next_set_origin : forall d a v x, e_next (set_origin d a v) x = e_next d x.
Proof. fld_tac. Qed.
Lemma prev_set_origin : forall d a v x, e_prev (set_origin d a v) x = e_prev d x.
Proof. fld_tac. Qed.
Lemma face_set_origin : forall d a v x, e_face (set_origin d a v) x = e_face d x.
Proof. fld_tac. Qed.
Lemma origin_set_origin : forall d a v x, a < length (d_hedges d) -> e_origin (set_origin d a v) x = if x =? a then v else e_origin d x.
Proof. fld_tac. Qed.
Lemma next_set_half_edge : forall d a h x, a < length (d_hedges d) -> e_next (set_half_edge d a h) x = if x =? a then h_next h else e_next d x.
Proof. fld_tac. Qed.
Lemma next_push_edge : forall d h0 h1 x, e_next (push_edge d h0 h1) x =
  if x <? length (d_hedges d) then e_next d x else if x =? length (d_hedges d) then h_next h0 else if x =? S (length (d_hedges d)) then h_next h1 else 0.
Proof. intros. unfold e_next at 1. rewrite he_push_edge. repeat case_if; reflexivity. Qed.
Lemma next_push_face : forall d o x, e_next (push_face d o) x = e_next d x. Proof. reflexivity. Qed.
Lemma next_push_vertex : forall d v o x, e_next (push_vertex d v o) x = e_next d x. Proof. reflexivity. Qed.
Lemma next_set_out_edge : forall d v o x, e_next (set_out_edge d v o) x = e_next d x. Proof. reflexivity. Qed.
Lemma next_set_adjacent_edge : forall d f o x, e_next (set_adjacent_edge d f o) x = e_next d x. Proof. reflexivity. Qed.
Lemma prev_set_half_edge : forall d a h x, a < length (d_hedges d) -> e_prev (set_half_edge d a h) x = if x =? a then h_prev h else e_prev d x.
Proof. fld_tac. Qed.
Lemma prev_push_edge : forall d h0 h1 x, e_prev (push_edge d h0 h1) x =
  if x <? length (d_hedges d) then e_prev d x else if x =? length (d_hedges d) then h_prev h0 else if x =? S (length (d_hedges d)) then h_prev h1 else 0.
Proof. intros. unfold e_prev at 1. rewrite he_push_edge. repeat case_if; reflexivity. Qed.
Lemma prev_push_face : forall d o x, e_prev (push_face d o) x = e_prev d x. Proof. reflexivity. Qed.
Lemma prev_push_vertex : forall d v o x, e_prev (push_vertex d v o) x = e_prev d x. Proof. reflexivity. Qed.
Lemma prev_set_out_edge : forall d v o x, e_prev (set_out_edge d v o) x = e_prev d x. Proof. reflexivity. Qed.
Lemma prev_set_adjacent_edge : forall d f o x, e_prev (set_adjacent_edge d f o) x = e_prev d x. Proof. reflexivity. Qed.
Lemma face_set_half_edge : forall d a h x, a < length (d_hedges d) -> e_face (set_half_edge d a h) x = if x =? a then h_face h else e_face d x.
Proof. fld_tac. Qed.
Lemma face_push_edge : forall d h0 h1 x, e_face (push_edge d h0 h1) x =
  if x <? length (d_hedges d) then e_face d x else if x =? length (d_hedges d) then h_face h0 else if x =? S (length (d_hedges d)) then h_face h1 else 0.
Proof. intros. unfold e_face at 1. rewrite he_push_edge. repeat case_if; reflexivity. Qed.
Lemma face_push_face : forall d o x, e_face (push_face d o) x = e_face d x. Proof. reflexivity. Qed.
Lemma face_push_vertex : forall d v o x, e_face (push_vertex d v o) x = e_face d x. Proof. reflexivity. Qed.
Lemma face_set_out_edge : forall d v o x, e_face (set_out_edge d v o) x = e_face d x. Proof. reflexivity. Qed.
Lemma face_set_adjacent_edge : forall d f o x, e_face (set_adjacent_edge d f o) x = e_face d x. Proof. reflexivity. Qed.
Lemma origin_set_half_edge : forall d a h x, a < length (d_hedges d) -> e_origin (set_half_edge d a h) x = if x =? a then h_org h else e_origin d x.
Proof. fld_tac. Qed.
Lemma origin_push_edge : forall d h0 h1 x, e_origin (push_edge d h0 h1) x =
  if x <? length (d_hedges d) then e_origin d x else if x =? length (d_hedges d) then h_org h0 else if x =? S (length (d_hedges d)) then h_org h1 else 0.
Proof. intros. unfold e_origin at 1. rewrite he_push_edge. repeat case_if; reflexivity. Qed.
Lemma origin_push_face : forall d o x, e_origin (push_face d o) x = e_origin d x. Proof. reflexivity. Qed.
Lemma origin_push_vertex : forall d v o x, e_origin (push_vertex d v o) x = e_origin d x. Proof. reflexivity. Qed.
Lemma origin_set_out_edge : forall d v o x, e_origin (set_out_edge d v o) x = e_origin d x. Proof. reflexivity. Qed.
Lemma origin_set_adjacent_edge : forall d f o x, e_origin (set_adjacent_edge d f o) x = e_origin d x. Proof. reflexivity. Qed.

#[local] Hint Rewrite prev_set_next face_set_next origin_set_next next_set_prev face_set_prev origin_set_prev next_set_face prev_set_face origin_set_face next_set_origin prev_set_origin face_set_origin next_push_edge next_push_face next_push_vertex next_set_out_edge next_set_adjacent_edge prev_push_edge prev_push_face prev_push_vertex prev_set_out_edge prev_set_adjacent_edge face_push_edge face_push_face face_push_vertex face_set_out_edge face_set_adjacent_edge origin_push_edge origin_push_face origin_push_vertex origin_set_out_edge origin_set_adjacent_edge
  lh_upd_h lh_push_edge lh_push_face lh_push_vertex lh_set_out_edge lh_set_adjacent_edge : fld.

Lemma lh_set_next : forall d a v, length (d_hedges (set_next d a v)) = length (d_hedges d). Proof. intros. apply lh_upd_h. Qed.
Lemma lh_set_prev : forall d a v, length (d_hedges (set_prev d a v)) = length (d_hedges d). Proof. intros. apply lh_upd_h. Qed.
Lemma lh_set_face : forall d a v, length (d_hedges (set_face d a v)) = length (d_hedges d). Proof. intros. apply lh_upd_h. Qed.
Lemma lh_set_origin : forall d a v, length (d_hedges (set_origin d a v)) = length (d_hedges d). Proof. intros. apply lh_upd_h. Qed.
Lemma lh_set_half_edge : forall d a h, length (d_hedges (set_half_edge d a h)) = length (d_hedges d). Proof. intros. apply lh_upd_h. Qed.
#[local] Hint Rewrite lh_set_next lh_set_prev lh_set_face lh_set_origin lh_set_half_edge : fld.

Local Ltac fld_simp :=
  repeat (progress (autorewrite with fld;
                    rewrite ?next_set_next, ?prev_set_prev, ?face_set_face, ?origin_set_origin, ?next_set_half_edge, ?prev_set_half_edge, ?face_set_half_edge, ?origin_set_half_edge by (autorewrite with fld; lia))).


(* ------------------------------------------------------------------------------------------ *)
(* extend_line *)

Section ExtendLine.
Variables (d : dcel) (vtx : nat) (v : vdata) (o : nat).
Hypothesis HW : DW d.
Hypothesis Hout : v_out_edge d vtx = Some o.
Hypothesis Hend : e_next d (rev o) = o.
Hypothesis Hface : e_face d o = 0.

Let N := length (d_hedges d).
Let V := length (d_verts d).
Let d' := fst (extend_line d vtx v).

Definition el_he (x : nat) : hrec :=
  if x <? N then mkh (if x =? rev o then N + 1 else e_next d x) (if x =? o then N else e_prev d x) (e_face d x) (e_origin d x)
  else if x =? N then mkh o (N + 1) (e_face d o) V
  else if x =? N + 1 then mkh N (rev o) (e_face d o) vtx
  else dflt_h.

Lemma el_he_facts : forall x, x < N ->
  (e_next d x < N /\ e_prev d x < N /\ e_face d x < length (d_faces d) /\ e_origin d x < V) /\
  (e_prev d (e_next d x) = x /\ e_next d (e_prev d x) = x /\
   e_face d (e_next d x) = e_face d x /\
   e_origin d (e_next d x) = e_origin d (rev x) /\
   e_origin d x <> e_origin d (rev x)).
Proof. exact (DW_he d HW). Qed.

Lemma el_ctx : o < N /\ rev o < N /\ N = 2 * length (d_flags d) /\ rev o <> o /\ rev (rev o) = o /\
  e_origin d o = vtx /\ vtx < V /\ e_face d (rev o) = 0.
Proof.
  assert (Hvtx : vtx < V).
  { destruct (Nat.ltb_spec vtx V) as [H|H]; [exact H|]. rewrite (v_out_edge_ge d vtx H) in Hout. discriminate. }
  destruct (DW_vout d HW vtx o Hvtx Hout) as (Ho & Hoo). fold N in Ho.
  pose proof (DW_rev_lt d HW o Ho) as Hi. pose proof (DW_even d HW) as Hev.
  repeat split; try assumption.
  - destruct (rev_cases o) as [k [[H1 H2]|[H1 H2]]]; lia.
  - apply rev_involutive.
  - destruct (el_he_facts (rev o) Hi) as (_ & _ & _ & Hf & _). rewrite Hend in Hf. congruence.
Qed.

Lemma el_unfold : extend_line d vtx v =
  (push_vertex (push_edge (set_next (set_prev d o (2 * length (d_flags d))) (rev o) (2 * length (d_flags d) + 1))
      (mkh o (2 * length (d_flags d) + 1) (e_face d o) (length (d_verts d))) (mkh (2 * length (d_flags d)) (rev o) (e_face d o) vtx)) v (Some (2 * length (d_flags d))),
   length (d_verts d)).
Proof.
  unfold extend_line. rewrite Hout. unfold e_rev at 2 3. rewrite rev_involutive, Nat.eqb_refl. cbn [negb].
  cbv zeta. rewrite rev_normalized.
  (* the generated chain against the reference chain of the statement, up to the order of the writes *)
  apply ch_pair_eq; [|reflexivity].
  unfold normalized, num_undirected_edges, num_vertices, e_rev, e_face.
  pose proof el_ctx as Hc; decompose [and] Hc; clear Hc. unfold N, V in *.
  ch_chain_eq.
Qed.

Lemma el_half_edge : forall x, half_edge d' x = el_he x.
Proof.
  intro x. unfold d'. rewrite el_unfold. cbn [fst].
  destruct el_ctx as (Ho & Hi & Hev & Hio & _). fold N in Hev.
  raw_simp. unfold el_he. fold N. rewrite <- Hev.
  repeat (case_if; try lia); try (subst x); he_leaf.
Qed.

Lemma el_len : length (d_hedges d') = N + 2.
Proof. unfold d'. rewrite el_unfold. cbn [fst]. raw_simp. reflexivity. Qed.
Lemma el_verts : d_verts d' = d_verts d ++ [mkv (vd_x v) (vd_y v) (vd_d v) (Some N)].
Proof. unfold d'. rewrite el_unfold. cbn [fst]. raw_simp. destruct el_ctx as (_ & _ & -> & _). reflexivity. Qed.
Lemma el_faces : d_faces d' = d_faces d.
Proof. unfold d'. rewrite el_unfold. cbn [fst]. raw_simp. reflexivity. Qed.
Lemma el_flags : d_flags d' = d_flags d ++ [false].
Proof. unfold d'. rewrite el_unfold. cbn [fst]. raw_simp. reflexivity. Qed.

Lemma el_next : forall x, e_next d' x =
  if x <? N then (if x =? rev o then N + 1 else e_next d x) else if x =? N then o else if x =? N + 1 then N else 0.
Proof. intro x. unfold e_next at 1. rewrite el_half_edge. unfold el_he. repeat case_if; reflexivity. Qed.
Lemma el_prev : forall x, e_prev d' x =
  if x <? N then (if x =? o then N else e_prev d x) else if x =? N then N + 1 else if x =? N + 1 then rev o else 0.
Proof. intro x. unfold e_prev at 1. rewrite el_half_edge. unfold el_he. repeat case_if; reflexivity. Qed.
Lemma el_face : forall x, e_face d' x = if x <? N then e_face d x else 0.
Proof. intro x. unfold e_face at 1. rewrite el_half_edge. unfold el_he. rewrite Hface. repeat case_if; reflexivity. Qed.
Lemma el_org : forall x, e_origin d' x =
  if x <? N then e_origin d x else if x =? N then V else if x =? N + 1 then vtx else 0.
Proof. intro x. unfold e_origin at 1. rewrite el_half_edge. unfold el_he. repeat case_if; reflexivity. Qed.

Lemma el_vout : forall v0, v_out_edge d' v0 = if v0 <? V then v_out_edge d v0 else if v0 =? V then Some N else None.
Proof. intro v0. unfold v_out_edge at 1. rewrite el_verts, nth_push1. fold V. repeat case_if; reflexivity. Qed.

Lemma el_adj : forall f, f_adjacent d' f = f_adjacent d f.
Proof. intro f. unfold f_adjacent. rewrite el_faces. reflexivity. Qed.

Ltac el_rw :=
  match goal with
  | |- context [e_next d' ?t] => lazymatch t with context [d'] => fail | _ => rewrite (el_next t) end
  | |- context [e_prev d' ?t] => lazymatch t with context [d'] => fail | _ => rewrite (el_prev t) end
  | |- context [e_face d' ?t] => lazymatch t with context [d'] => fail | _ => rewrite (el_face t) end
  | |- context [e_origin d' ?t] => lazymatch t with context [d'] => fail | _ => rewrite (el_org t) end
  end.

Ltac el_go := repeat (el_rw; repeat case_if2); prune.

Ltac el_start :=
  destruct el_ctx as (Ho & Hi & Hev & Hio & Hrr & Hoo & Hvtx' & Hfi);
  hef el_he_facts o; hef el_he_facts (rev o); rewrite ?Hrr in *.

Lemma el_links : forall x, x < N + 2 ->
        e_prev d' (e_next d' x) = x /\ e_next d' (e_prev d' x) = x /\
        e_face d' (e_next d' x) = e_face d' x /\
        e_origin d' (e_next d' x) = e_origin d' (rev x) /\
        e_origin d' x <> e_origin d' (rev x).
Proof.
  intros x Hx. el_start.
  destruct (rev_cases x) as [k [[K1 K2]|[K1 K2]]].
  all: destruct (Nat.ltb_spec x N) as [Hlt|Hge]; [hef el_he_facts x | ].
  all: repeat split.
  all: el_go.
Qed.

Lemma el_ranges : forall x, x < N + 2 ->
  e_next d' x < N + 2 /\ e_prev d' x < N + 2 /\ e_face d' x < length (d_faces d) /\ e_origin d' x < V + 1.
Proof.
  intros x Hx. el_start.
  destruct (Nat.ltb_spec x N) as [Hlt|Hge]; [hef el_he_facts x | ].
  all: repeat split.
  all: el_go.
Qed.

Lemma el_triangles : forall x, x < N + 2 -> e_face d' x <> 0 ->
  e_next d' (e_next d' (e_next d' x)) = x /\
  exists a, f_adjacent d' (e_face d' x) = Some a /\ (x = a \/ x = e_next d' a \/ x = e_next d' (e_next d' a)).
Proof.
  intros x Hx. el_start. destruct (Nat.ltb_spec x N) as [Hlt|Hge].
  2:{ rewrite el_face, (proj2 (Nat.ltb_ge x N)) by lia. congruence. }
  rewrite (el_face x), (proj2 (Nat.ltb_lt x N)) by lia. intro Hfx.
  apply (tri_frame d d' HW); try assumption; [|apply el_adj].
  intros y Hy Hfy. fold N in Hy. rewrite el_next. repeat case_if2; try reflexivity.
Qed.

Lemma el_DW : DW d'.
Proof.
  pose proof HW as HW0. destruct HW0 as ((C1 & C2) & _).
  destruct el_ctx as (Ho & Hi & Hev & Hio & Hrr & Hoo & Hvtx' & Hfi).
  unfold DW. rewrite el_len, el_verts, el_faces, el_flags, !app_length. cbn [length]. fold N V.
  split; [|split; [split; [|split]|split; [|split; [|split]]]].
  - fold N in C1. lia.
  - intros x Hx. replace (V + 1) with (V + 1) by lia. apply el_ranges. exact Hx.
  - intros v0 Hv0 a. rewrite el_vout. repeat case_if2.
    + intro Ha. destruct (DW_vout d HW v0 a ltac:(assumption) Ha) as (Ha' & _). fold N in Ha'. lia.
    + intro Ha. inversion Ha. lia.
  - intros f Hf a. rewrite el_adj. intro Ha. destruct (DW_adj d HW f a Hf Ha) as (Ha' & _). fold N in Ha'. lia.
  - exact el_links.
  - intros f Hf. rewrite el_adj. destruct (f_adjacent d f) as [a|] eqn:Ha.
    + destruct (DW_adj d HW f a Hf Ha) as (Ha' & Hfa). fold N in Ha'. el_go.
    + destruct HW as (_ & _ & _ & FP & _). specialize (FP f Hf). rewrite Ha in FP. fold N in FP. lia.
  - intros v0 Hv0. rewrite el_vout. repeat case_if2.
    + destruct (v_out_edge d v0) as [a|] eqn:Ha.
      * destruct (DW_vout d HW v0 a ltac:(assumption) Ha) as (Ha' & Hfa). fold N in Ha'. el_go.
      * destruct HW as (_ & _ & _ & _ & VP & _). specialize (VP v0 ltac:(assumption)). rewrite Ha in VP. fold N in VP. lia.
    + el_go.
  - exact el_triangles.
Qed.

Lemma el_outer_count : outer_count d' = outer_count d + 2.
Proof.
  rewrite !outer_count_cnt, el_len. fold N. replace (N + 2) with (S (S N)) by lia. rewrite !cnt_S.
  rewrite (cnt_ext (fun e => e_face d' e =? 0) (fun e => e_face d e =? 0) N).
  2:{ intros x Hx. rewrite el_face. rewrite (proj2 (Nat.ltb_lt x N)) by lia. reflexivity. }
  rewrite !el_face. rewrite !(proj2 (Nat.ltb_ge _ N)) by lia. cbn [Nat.eqb]. lia.
Qed.

End ExtendLine.

Theorem extend_line_wf : forall d vtx v o,
  DWf d -> v_out_edge d vtx = Some o -> e_next d (rev o) = o -> outer d o ->
  let r := extend_line d vtx v in
  let d' := fst r in
  let N := length (d_hedges d) in
  DWf d' /\
  (Raw.num_vertices d' = S (Raw.num_vertices d) /\ Raw.num_undirected_edges d' = S (Raw.num_undirected_edges d) /\
   Raw.num_faces d' = Raw.num_faces d /\ length (d_hedges d') = N + 2) /\
  (snd r = Raw.num_vertices d /\
   d_verts d' = d_verts d ++ [mkv (vd_x v) (vd_y v) (vd_d v) (Some N)] /\
   d_faces d' = d_faces d /\
   d_flags d' = d_flags d ++ repeat false 1) /\
  ((forall x, x < N -> e_face d' x = e_face d x) /\ e_face d' N = 0 /\ e_face d' (N + 1) = 0 /\
   outer_count d' = outer_count d + 2).
Proof.
  intros d vtx v o HW Hout Hend Hface. apply DWf_iff in HW. unfold outer in Hface.
  cbv zeta. split; [|split; [|split]].
  - apply DWf_iff. apply (el_DW d vtx v o); assumption.
  - unfold Raw.num_vertices, Raw.num_undirected_edges, Raw.num_faces.
    rewrite (el_len d vtx v o), (el_verts d vtx v o), (el_faces d vtx v o), (el_flags d vtx v o), !app_length by assumption.
    cbn [length]. repeat split; lia.
  - repeat split.
    + rewrite (el_unfold d vtx v o) by assumption. reflexivity.
    + apply (el_verts d vtx v o); assumption.
    + apply (el_faces d vtx v o); assumption.
    + apply (el_flags d vtx v o); assumption.
  - repeat split.
    + intros x Hx. rewrite (el_face d vtx v o) by assumption. rewrite (proj2 (Nat.ltb_lt _ _)) by lia. reflexivity.
    + rewrite (el_face d vtx v o) by assumption. rewrite (proj2 (Nat.ltb_ge _ _)) by lia. reflexivity.
    + rewrite (el_face d vtx v o) by assumption. rewrite (proj2 (Nat.ltb_ge _ _)) by lia. reflexivity.
    + apply (el_outer_count d vtx v o); assumption.
Qed.

(* ------------------------------------------------------------------------------------------ *)
(* split_edge_when_all_vertices_on_line *)

Section SplitLine.
Variables (d : dcel) (e : nat) (v : vdata).
Hypothesis HW : DW d.
Hypothesis He : e < length (d_hedges d).
Hypothesis Hface : e_face d e = 0.
Hypothesis Hfacer : e_face d (rev e) = 0.

Notation N := (length (d_hedges d)).
Notation V := (length (d_verts d)).
Notation r := (rev e).
Notation en := (e_next d e).
Notation rp := (e_prev d (rev e)).
Notation to_ := (e_origin d (rev e)).
Let d' := fst (split_edge_when_all_vertices_on_line d e v).

Lemma sl_he_facts : forall x, x < N ->
  (e_next d x < N /\ e_prev d x < N /\ e_face d x < length (d_faces d) /\ e_origin d x < V) /\
  (e_prev d (e_next d x) = x /\ e_next d (e_prev d x) = x /\
   e_face d (e_next d x) = e_face d x /\
   e_origin d (e_next d x) = e_origin d (rev x) /\
   e_origin d x <> e_origin d (rev x)).
Proof. exact (DW_he d HW). Qed.

Lemma sl_ctx : e < N /\ r < N /\ en < N /\ rp < N /\ to_ < V /\ N = 2 * length (d_flags d) /\ r <> e /\ rev r = e /\
  (en = r <-> rp = e) /\ en <> e /\ rp <> r.
Proof.
  pose proof He as He'.
  pose proof (DW_rev_lt d HW e He) as Hr. pose proof (DW_even d HW) as Hev.
  hef sl_he_facts e. hef sl_he_facts (rev e).
  repeat split; try assumption.
  - destruct (rev_cases e) as [k [[K1 K2]|[K1 K2]]]; lia.
  - apply rev_involutive.
  - congruence.
  - congruence.
  - congruence.
  - congruence.
Qed.

Lemma sl_unfold : split_edge_when_all_vertices_on_line d e v =
  (push_vertex
    (if en =? r then
       push_edge (set_out_edge (set_origin (set_prev (set_next d e N) r (N + 1)) r V) to_ (Some (N + 1)))
         (mkh (N + 1) e 0 V) (mkh r N 0 to_)
     else
       push_edge (set_next (set_prev (set_out_edge (set_origin (set_prev (set_next d e N) r (N + 1)) r V) to_ (Some (N + 1))) en N) rp (N + 1))
         (mkh en e 0 V) (mkh r rp 0 to_)) v (Some N),
   ((e, N), V)).
Proof.
  destruct sl_ctx as (He' & Hr & Hen & Hrp & Hto & Hev & Hre & Hrr & Hiso & Hene & Hrpr).
  unfold split_edge_when_all_vertices_on_line. unfold e_rev.
  rewrite Hface. rewrite Hfacer. cbn [Nat.eqb negb].
  cbv zeta. pose proof (rev_normalized (num_undirected_edges d)) as Hrn. unfold e_rev in Hrn. rewrite Hrn.
  unfold normalized, num_undirected_edges, num_vertices, e_to, e_rev. rewrite <- Hev.
  (* the generated chain against the reference chain of the statement, up to the order of the writes *)
  unfold e_face, e_next, e_prev.
  destruct (Nat.eqb_spec (h_next (half_edge d e)) r) as [Hi|Hi];
  [ assert (Hrpe : rp = e) by (apply Hiso; exact Hi)
  | assert (Hrpe : rp <> e) by (intro; apply Hi, Hiso; assumption) ]; clear Hiso;
  unfold e_next, e_prev, e_origin in *;
  cbv beta iota zeta; (apply ch_pair_eq; [|reflexivity]); ch_chain_eq.
Qed.

Lemma sl_len : length (d_hedges d') = N + 2.
Proof. unfold d'. rewrite sl_unfold. cbn [fst]. destruct (en =? r); raw_simp; reflexivity. Qed.
Lemma sl_verts : d_verts d' =
  set_nth to_ (mkv (v_x (nth to_ (d_verts d) dflt_v)) (v_y (nth to_ (d_verts d) dflt_v)) (v_data (nth to_ (d_verts d) dflt_v)) (Some (N + 1))) (d_verts d)
  ++ [mkv (vd_x v) (vd_y v) (vd_d v) (Some N)].
Proof. unfold d'. rewrite sl_unfold. cbn [fst]. destruct (en =? r); raw_simp; reflexivity. Qed.
Lemma sl_faces : d_faces d' = d_faces d.
Proof. unfold d'. rewrite sl_unfold. cbn [fst]. destruct (en =? r); raw_simp; reflexivity. Qed.
Lemma sl_flags : d_flags d' = d_flags d ++ [false].
Proof. unfold d'. rewrite sl_unfold. cbn [fst]. destruct (en =? r); raw_simp; reflexivity. Qed.

Ltac sl_fld :=
  let x := fresh "x" in
  intro x; unfold d'; rewrite sl_unfold; cbn [fst];
  destruct sl_ctx as (He' & Hr & Hen & Hrp & Hto & Hev & Hre & Hrr & Hiso & Hene & Hrpr);
  destruct (Nat.eqb_spec en r) as [Hi|Hi];
  [ assert (Hrpe : rp = e) by (apply Hiso; exact Hi)
  | assert (Hrpe : rp <> e) by (intro; apply Hi, Hiso; assumption) ]; clear Hiso;
  fld_simp; cbn [h_next h_prev h_face h_org];
  repeat (case_if; try lia0); try (subst x); try congruence; try reflexivity; try lia.

Lemma sl_next : forall x, e_next d' x =
  if x <? N then (if x =? e then N else if x =? rp then N + 1 else e_next d x)
  else if x =? N then (if en =? r then N + 1 else en) else if x =? N + 1 then r else 0.
Proof. sl_fld. Qed.
Lemma sl_prev : forall x, e_prev d' x =
  if x <? N then (if x =? r then N + 1 else if x =? en then N else e_prev d x)
  else if x =? N then e else if x =? N + 1 then (if en =? r then N else rp) else 0.
Proof. sl_fld. Qed.
Lemma sl_face : forall x, e_face d' x = if x <? N then e_face d x else 0.
Proof. sl_fld. Qed.
Lemma sl_org : forall x, e_origin d' x =
  if x <? N then (if x =? r then V else e_origin d x) else if x =? N then V else if x =? N + 1 then to_ else 0.
Proof. sl_fld. Qed.

Lemma sl_vert : forall i, nth i (d_verts d') dflt_v =
  if i <? V then
    (if i =? to_ then mkv (v_x (nth i (d_verts d) dflt_v)) (v_y (nth i (d_verts d) dflt_v)) (v_data (nth i (d_verts d) dflt_v)) (Some (N + 1))
     else nth i (d_verts d) dflt_v)
  else if i =? V then mkv (vd_x v) (vd_y v) (vd_d v) (Some N) else dflt_v.
Proof.
  intro i. destruct sl_ctx as (_ & _ & _ & _ & Hto & _).
  rewrite sl_verts, nth_push1, set_nth_length, nth_set_nth by exact Hto.
  repeat (case_if; try lia); try reflexivity; subst i; reflexivity.
Qed.

Lemma sl_vout : forall v0, v_out_edge d' v0 =
  if v0 <? V then (if v0 =? to_ then Some (N + 1) else v_out_edge d v0) else if v0 =? V then Some N else None.
Proof. intro v0. unfold v_out_edge at 1. rewrite sl_vert. repeat case_if; reflexivity. Qed.

Lemma sl_adj : forall f, f_adjacent d' f = f_adjacent d f.
Proof. intro f. unfold f_adjacent. rewrite sl_faces. reflexivity. Qed.

Ltac sl_rw :=
  match goal with
  | |- context [e_next d' ?t] => lazymatch t with context [d'] => fail | _ => rewrite (sl_next t) end
  | |- context [e_prev d' ?t] => lazymatch t with context [d'] => fail | _ => rewrite (sl_prev t) end
  | |- context [e_face d' ?t] => lazymatch t with context [d'] => fail | _ => rewrite (sl_face t) end
  | |- context [e_origin d' ?t] => lazymatch t with context [d'] => fail | _ => rewrite (sl_org t) end
  end.

Ltac sl_go := repeat (sl_rw; repeat case_if2); prune.

Ltac sl_start :=
  destruct sl_ctx as (He' & Hr & Hen & Hrp & Hto & Hev & Hre & Hrr & Hiso & Hene & Hrpr);
  hef sl_he_facts e; hef sl_he_facts (rev e); hef sl_he_facts (e_next d e); hef sl_he_facts (e_prev d (rev e));
  rewrite ?Hrr in *;
  destruct (Nat.eqb_spec en r) as [Hi|Hi];
  [ assert (Hrpe : rp = e) by (apply Hiso; exact Hi)
  | assert (Hrpe : rp <> e) by (intro; apply Hi, Hiso; assumption) ]; clear Hiso.

Lemma sl_links : forall x, x < N + 2 ->
        e_prev d' (e_next d' x) = x /\ e_next d' (e_prev d' x) = x /\
        e_face d' (e_next d' x) = e_face d' x /\
        e_origin d' (e_next d' x) = e_origin d' (rev x) /\
        e_origin d' x <> e_origin d' (rev x).
Proof.
  intros x Hx. sl_start.
  all: pose proof (rev_involutive x) as Krr.
  all: destruct (rev_cases x) as [k [[K1 K2]|[K1 K2]]].
  all: destruct (Nat.ltb_spec x N) as [Hlt|Hge]; [hef sl_he_facts x | ].
  all: try (destruct (Nat.eq_dec x r) as [Hxr|Hxr]; [rewrite Hxr in *; rewrite ?Hrr in * |]).
  all: repeat split.
  all: sl_go.
Qed.

Lemma sl_ranges : forall x, x < N + 2 ->
  e_next d' x < N + 2 /\ e_prev d' x < N + 2 /\ e_face d' x < length (d_faces d) /\ e_origin d' x < V + 1.
Proof.
  intros x Hx. sl_start.
  all: destruct (Nat.ltb_spec x N) as [Hlt|Hge]; [hef sl_he_facts x | ].
  all: repeat split.
  all: sl_go.
Qed.

Lemma sl_triangles : forall x, x < N + 2 -> e_face d' x <> 0 ->
  e_next d' (e_next d' (e_next d' x)) = x /\
  exists a, f_adjacent d' (e_face d' x) = Some a /\ (x = a \/ x = e_next d' a \/ x = e_next d' (e_next d' a)).
Proof.
  intros x Hx. destruct (Nat.ltb_spec x N) as [Hlt|Hge].
  2:{ rewrite sl_face, (proj2 (Nat.ltb_ge x N)) by lia. congruence. }
  rewrite (sl_face x), (proj2 (Nat.ltb_lt x N)) by lia. intro Hfx.
  apply (tri_frame d d' HW); try assumption; [|apply sl_adj].
  intros y Hy Hfy. sl_start.
  all: hef sl_he_facts y.
  all: rewrite sl_next; repeat case_if2; try reflexivity.
Qed.

Lemma sl_DW : DW d'.
Proof.
  pose proof HW as HW0. destruct HW0 as ((C1 & C2) & _).
  destruct sl_ctx as (He' & Hr & Hen & Hrp & Hto & Hev & Hre & Hrr & Hiso & Hene & Hrpr).
  unfold DW. rewrite sl_len, sl_verts, sl_faces, sl_flags, !app_length, set_nth_length. cbn [length].
  split; [|split; [split; [|split]|split; [|split; [|split]]]].
  - lia.
  - intros x Hx. apply sl_ranges. exact Hx.
  - intros v0 Hv0 a. rewrite sl_vout. repeat case_if2.
    + intro Ha. inversion Ha. lia.
    + intro Ha. destruct (DW_vout d HW v0 a ltac:(assumption) Ha) as (Ha' & _). lia.
    + intro Ha. inversion Ha. lia.
  - intros f Hf a. rewrite sl_adj. intro Ha. destruct (DW_adj d HW f a Hf Ha) as (Ha' & _). lia.
  - exact sl_links.
  - intros f Hf. rewrite sl_adj. destruct (f_adjacent d f) as [a|] eqn:Ha.
    + destruct (DW_adj d HW f a Hf Ha) as (Ha' & Hfa). rewrite sl_face. repeat case_if2; prune.
    + destruct HW as (_ & _ & _ & FP & _). specialize (FP f Hf). rewrite Ha in FP. lia.
  - intros v0 Hv0. rewrite sl_vout. repeat case_if2.
    + rewrite sl_org. repeat case_if2; prune.
    + destruct (v_out_edge d v0) as [a|] eqn:Ha.
      * destruct (DW_vout d HW v0 a ltac:(assumption) Ha) as (Ha' & Hfa). rewrite sl_org. repeat case_if2; prune.
      * destruct HW as (_ & _ & _ & _ & VP & _). specialize (VP v0 ltac:(assumption)). rewrite Ha in VP. lia.
    + rewrite sl_org. repeat case_if2; prune.
  - exact sl_triangles.
Qed.

Lemma sl_outer_count : outer_count d' = outer_count d + 2.
Proof.
  rewrite !outer_count_cnt, sl_len. replace (N + 2) with (S (S N)) by lia. rewrite !cnt_S.
  rewrite (cnt_ext (fun e => e_face d' e =? 0) (fun e => e_face d e =? 0) N).
  2:{ intros x Hx. rewrite sl_face. rewrite (proj2 (Nat.ltb_lt x N)) by lia. reflexivity. }
  rewrite !sl_face. rewrite !(proj2 (Nat.ltb_ge _ N)) by lia. cbn [Nat.eqb]. lia.
Qed.

End SplitLine.

Theorem split_edge_when_all_vertices_on_line_wf : forall d e v,
  DWf d -> e < length (d_hedges d) -> outer d e -> outer d (rev e) ->
  let r := split_edge_when_all_vertices_on_line d e v in
  let d' := fst r in
  let N := length (d_hedges d) in
  let V := length (d_verts d) in
  DWf d' /\
  (Raw.num_vertices d' = S (Raw.num_vertices d) /\ Raw.num_undirected_edges d' = S (Raw.num_undirected_edges d) /\
   Raw.num_faces d' = Raw.num_faces d /\ length (d_hedges d') = N + 2) /\
  (snd r = ((e, N), V) /\
   (forall i, i < V -> v_x (nth i (d_verts d') dflt_v) = v_x (nth i (d_verts d) dflt_v) /\
                       v_y (nth i (d_verts d') dflt_v) = v_y (nth i (d_verts d) dflt_v) /\
                       v_data (nth i (d_verts d') dflt_v) = v_data (nth i (d_verts d) dflt_v)) /\
   (forall i, i < V -> i <> e_origin d (rev e) -> nth i (d_verts d') dflt_v = nth i (d_verts d) dflt_v) /\
   v_out_edge d' (e_origin d (rev e)) = Some (N + 1) /\
   nth V (d_verts d') dflt_v = mkv (vd_x v) (vd_y v) (vd_d v) (Some N) /\
   d_faces d' = d_faces d /\
   d_flags d' = d_flags d ++ repeat false 1) /\
  ((forall x, x < N -> e_face d' x = e_face d x) /\ e_face d' N = 0 /\ e_face d' (N + 1) = 0 /\
   outer_count d' = outer_count d + 2).
Proof.
  intros d e v HW He Hf Hfr. apply DWf_iff in HW. unfold outer in Hf, Hfr.
  cbv zeta. split; [|split; [|split]].
  - apply DWf_iff. apply (sl_DW d e v); assumption.
  - unfold Raw.num_vertices, Raw.num_undirected_edges, Raw.num_faces.
    rewrite (sl_len d e v), (sl_verts d e v), (sl_faces d e v), (sl_flags d e v), !app_length, set_nth_length by assumption.
    cbn [length]. repeat split; lia.
  - destruct (sl_ctx d e HW He Hf Hfr) as (_ & _ & _ & _ & Hto & _).
    split; [|split; [|split; [|split; [|split; [|split]]]]].
    + rewrite (sl_unfold d e v) by assumption. reflexivity.
    + intros i Hi. rewrite (sl_vert d e v) by assumption. rewrite (proj2 (Nat.ltb_lt _ _) Hi).
      case_if; repeat split; reflexivity.
    + intros i Hi Hne. rewrite (sl_vert d e v) by assumption. rewrite (proj2 (Nat.ltb_lt _ _) Hi).
      rewrite (proj2 (Nat.eqb_neq _ _) Hne). reflexivity.
    + rewrite (sl_vout d e v) by assumption. rewrite (proj2 (Nat.ltb_lt _ _) Hto), Nat.eqb_refl. reflexivity.
    + rewrite (sl_vert d e v) by assumption. rewrite (proj2 (Nat.ltb_ge _ _)) by lia. rewrite Nat.eqb_refl. reflexivity.
    + apply (sl_faces d e v); assumption.
    + apply (sl_flags d e v); assumption.
  - repeat split.
    + intros x Hx. rewrite (sl_face d e v) by assumption. rewrite (proj2 (Nat.ltb_lt _ _)) by lia. reflexivity.
    + rewrite (sl_face d e v) by assumption. rewrite (proj2 (Nat.ltb_ge _ _)) by lia. reflexivity.
    + rewrite (sl_face d e v) by assumption. rewrite (proj2 (Nat.ltb_ge _ _)) by lia. reflexivity.
    + apply (sl_outer_count d e v); assumption.
Qed.

(* ------------------------------------------------------------------------------------------ *)
(* create_new_face_adjacent_to_edge *)

Section NewFace.
Variables (d : dcel) (e : nat) (v : vdata).
Hypothesis HW : DW d.
Hypothesis He : e < length (d_hedges d).
Hypothesis Hface : e_face d e = 0.

Notation N := (length (d_hedges d)).
Notation V := (length (d_verts d)).
Notation F := (length (d_faces d)).
Notation en := (e_next d e).
Notation ep := (e_prev d e).
Notation to_ := (e_origin d (rev e)).
Notation from := (e_origin d e).
Let d' := fst (create_new_face_adjacent_to_edge d e v).

Lemma cnf_he_facts : forall x, x < N ->
  (e_next d x < N /\ e_prev d x < N /\ e_face d x < F /\ e_origin d x < V) /\
  (e_prev d (e_next d x) = x /\ e_next d (e_prev d x) = x /\
   e_face d (e_next d x) = e_face d x /\
   e_origin d (e_next d x) = e_origin d (rev x) /\
   e_origin d x <> e_origin d (rev x)).
Proof. exact (DW_he d HW). Qed.

Lemma cnf_ctx : e < N /\ en < N /\ ep < N /\ N = 2 * length (d_flags d) /\ en <> e /\ ep <> e /\
  to_ < V /\ from < V /\ 1 <= F /\ e_face d en = 0 /\ e_face d ep = 0 /\ rev e < N.
Proof.
  pose proof He as He'. pose proof (DW_rev_lt d HW e He) as Hr. pose proof (DW_even d HW) as Hev.
  pose proof HW as HW0. destruct HW0 as ((_ & C2) & _).
  pose proof (cnf_he_facts e He) as Fe. dfacts Fe.
  pose proof (cnf_he_facts (rev e) Hr) as Fr. dfacts Fr.
  pose proof (cnf_he_facts ep ltac:(assumption)) as Fp. dfacts Fp.
  repeat split; try assumption; try congruence.
Qed.

Lemma cnf_unfold : create_new_face_adjacent_to_edge d e v =
  (set_next
     (set_prev
        (set_adjacent_edge
           (set_half_edge
              (push_vertex
                 (push_face
                    (push_edge (push_edge d (mkh (N + 2) e F to_) (mkh en (N + 3) 0 V))
                               (mkh e N F V) (mkh (N + 1) ep 0 from))
                    (Some e))
                 v (Some (N + 2)))
              e (mkh N (N + 2) F from))
           0 (Some (N + 3)))
        en (N + 1))
     ep (N + 3), V).
Proof.
  destruct cnf_ctx as (He' & Hen & Hep & Hev & Hene & Hepe & Hto & Hfrom & HF1 & Hfen & Hfep & Hr).
  unfold create_new_face_adjacent_to_edge. cbv zeta.
  unfold normalized, not_normalized, num_undirected_edges, num_faces, num_vertices, e_to, e_rev.
  change (h_face (half_edge d e)) with (e_face d e). rewrite Hface.
  replace (2 * (length (d_flags d) + 1) + 1) with (N + 3) by lia.
  replace (2 * (length (d_flags d) + 1)) with (N + 2) by lia.
  rewrite <- Hev.
  (* the generated chain against the reference chain of the statement, up to the order of the writes *)
  apply ch_pair_eq; [|reflexivity].
  unfold e_next, e_prev, e_origin, e_face in *. ch_chain_eq.
Qed.

Lemma cnf_len : length (d_hedges d') = N + 4.
Proof. unfold d'. rewrite cnf_unfold. cbn [fst]. raw_simp. lia. Qed.
Lemma cnf_verts : d_verts d' = d_verts d ++ [mkv (vd_x v) (vd_y v) (vd_d v) (Some (N + 2))].
Proof. unfold d'. rewrite cnf_unfold. cbn [fst]. raw_simp. reflexivity. Qed.
Lemma cnf_faces : d_faces d' = set_nth 0 (Some (N + 3)) (d_faces d ++ [Some e]).
Proof. unfold d'. rewrite cnf_unfold. cbn [fst]. raw_simp. reflexivity. Qed.
Lemma cnf_flags : d_flags d' = d_flags d ++ [false; false].
Proof. unfold d'. rewrite cnf_unfold. cbn [fst]. raw_simp. rewrite <- app_assoc. reflexivity. Qed.

Ltac cnf_fld :=
  let x := fresh "x" in
  intro x; unfold d'; rewrite cnf_unfold; cbn [fst];
  destruct cnf_ctx as (He' & Hen & Hep & Hev & Hene & Hepe & _);
  fld_simp; cbn [h_next h_prev h_face h_org];
  repeat (case_if; try lia0); try (subst x); try congruence; try reflexivity; try lia.

Lemma cnf_next : forall x, e_next d' x =
  if x <? N then (if x =? e then N else if x =? ep then N + 3 else e_next d x)
  else if x =? N then N + 2 else if x =? N + 1 then en else if x =? N + 2 then e else if x =? N + 3 then N + 1 else 0.
Proof. cnf_fld. Qed.
Lemma cnf_prev : forall x, e_prev d' x =
  if x <? N then (if x =? e then N + 2 else if x =? en then N + 1 else e_prev d x)
  else if x =? N then e else if x =? N + 1 then N + 3 else if x =? N + 2 then N else if x =? N + 3 then ep else 0.
Proof. cnf_fld. Qed.
Lemma cnf_face : forall x, e_face d' x =
  if x <? N then (if x =? e then F else e_face d x)
  else if x =? N then F else if x =? N + 1 then 0 else if x =? N + 2 then F else 0.
Proof. cnf_fld. Qed.
Lemma cnf_org : forall x, e_origin d' x =
  if x <? N then e_origin d x
  else if x =? N then to_ else if x =? N + 1 then V else if x =? N + 2 then V else if x =? N + 3 then from else 0.
Proof. cnf_fld. Qed.

Lemma cnf_vout : forall v0, v_out_edge d' v0 =
  if v0 <? V then v_out_edge d v0 else if v0 =? V then Some (N + 2) else None.
Proof. intro v0. unfold v_out_edge at 1. rewrite cnf_verts, nth_push1. repeat case_if; reflexivity. Qed.

Lemma cnf_adj : forall f, f_adjacent d' f =
  if f =? 0 then Some (N + 3) else if f <? F then f_adjacent d f else if f =? F then Some e else None.
Proof.
  intro f. destruct cnf_ctx as (_ & _ & _ & _ & _ & _ & _ & _ & HF & _).
  unfold f_adjacent at 1. rewrite cnf_faces, nth_set_nth by (rewrite app_length; cbn [length]; lia).
  rewrite nth_push1. repeat (case_if; try lia); reflexivity.
Qed.

Ltac cnf_rw :=
  match goal with
  | |- context [e_next d' ?t] => lazymatch t with context [d'] => fail | _ => rewrite (cnf_next t) end
  | |- context [e_prev d' ?t] => lazymatch t with context [d'] => fail | _ => rewrite (cnf_prev t) end
  | |- context [e_face d' ?t] => lazymatch t with context [d'] => fail | _ => rewrite (cnf_face t) end
  | |- context [e_origin d' ?t] => lazymatch t with context [d'] => fail | _ => rewrite (cnf_org t) end
  end.

Ltac cnf_go := repeat (cnf_rw; repeat case_if2); prune.

Ltac cnf_start :=
  destruct cnf_ctx as (He' & Hen & Hep & Hev & Hene & Hepe & Hto & Hfrom & HF & Hfen & Hfep & Hre);
  hef cnf_he_facts e; hef cnf_he_facts (e_next d e); hef cnf_he_facts (e_prev d e).

Lemma cnf_links : forall x, x < N + 4 ->
        e_prev d' (e_next d' x) = x /\ e_next d' (e_prev d' x) = x /\
        e_face d' (e_next d' x) = e_face d' x /\
        e_origin d' (e_next d' x) = e_origin d' (rev x) /\
        e_origin d' x <> e_origin d' (rev x).
Proof.
  intros x Hx. cnf_start.
  pose proof (rev_involutive x) as Krr.
  destruct (rev_cases x) as [k [[K1 K2]|[K1 K2]]].
  all: destruct (Nat.ltb_spec x N) as [Hlt|Hge];
    [hef cnf_he_facts x
    | assert (Hc : x = N \/ x = N + 1 \/ x = N + 2 \/ x = N + 3) by lia; destruct Hc as [Hc|[Hc|[Hc|Hc]]]; rewrite Hc in * ].
  all: repeat split.
  all: cnf_go.
Qed.

Lemma cnf_ranges : forall x, x < N + 4 ->
  e_next d' x < N + 4 /\ e_prev d' x < N + 4 /\ e_face d' x < F + 1 /\ e_origin d' x < V + 1.
Proof.
  intros x Hx. cnf_start.
  destruct (Nat.ltb_spec x N) as [Hlt|Hge];
    [hef cnf_he_facts x
    | assert (Hc : x = N \/ x = N + 1 \/ x = N + 2 \/ x = N + 3) by lia; destruct Hc as [Hc|[Hc|[Hc|Hc]]]; rewrite Hc in * ].
  all: repeat split.
  all: cnf_go.
Qed.

Lemma cnf_triangles : forall x, x < N + 4 -> e_face d' x <> 0 ->
  e_next d' (e_next d' (e_next d' x)) = x /\
  exists a, f_adjacent d' (e_face d' x) = Some a /\ (x = a \/ x = e_next d' a \/ x = e_next d' (e_next d' a)).
Proof.
  intros x Hx Hfx.
  assert (Hc : (x < N /\ x <> e /\ e_face d x <> 0) \/ x = e \/ x = N \/ x = N + 2).
  { revert Hfx. destruct cnf_ctx as (He' & _). rewrite cnf_face. repeat case_if2; try lia; intros; lia. }
  destruct Hc as [(Hlt & Hxe & Hfx0)|Hc].
  - rewrite (cnf_face x), (proj2 (Nat.ltb_lt x N)), (proj2 (Nat.eqb_neq x e)) by assumption.
    pose proof (DW_he d HW x Hlt) as ((_ & _ & Hfr & _) & _).
    apply (tri_frame d d' HW); try assumption.
    + intros y Hy Hfy. cnf_start. rewrite cnf_next. repeat case_if2; try reflexivity.
    + rewrite cnf_adj. repeat case_if2; try reflexivity.
  - cnf_start. split; [|exists e].
    + destruct Hc as [Hc|[Hc|Hc]]; rewrite Hc in *; cnf_go.
    + split.
      * destruct Hc as [Hc|[Hc|Hc]]; rewrite Hc in *; cnf_rw; repeat case_if2; rewrite cnf_adj; repeat case_if2; reflexivity.
      * destruct Hc as [Hc|[Hc|Hc]]; [left; exact Hc|right; left|right; right]; rewrite Hc in *; cnf_go.
Qed.

Lemma cnf_DW : DW d'.
Proof.
  pose proof HW as HW0. destruct HW0 as ((C1 & C2) & _).
  destruct cnf_ctx as (He' & Hen & Hep & Hev & Hene & Hepe & Hto & Hfrom & HF & Hfen & Hfep & Hre).
  unfold DW. rewrite cnf_len, cnf_verts, cnf_faces, cnf_flags, set_nth_length, !app_length. cbn [length].
  split; [|split; [split; [|split]|split; [|split; [|split]]]].
  - lia.
  - intros x Hx. apply cnf_ranges. exact Hx.
  - intros v0 Hv0 a. rewrite cnf_vout. repeat case_if2.
    + intro Ha. destruct (DW_vout d HW v0 a ltac:(assumption) Ha) as (Ha' & _). lia.
    + intro Ha. inversion Ha. lia.
  - intros f Hf a. rewrite cnf_adj. repeat case_if2.
    + intro Ha. inversion Ha. lia.
    + intro Ha. destruct (DW_adj d HW f a ltac:(assumption) Ha) as (Ha' & _). lia.
    + intro Ha. inversion Ha. lia.
  - exact cnf_links.
  - intros f Hf. rewrite cnf_adj. repeat case_if2.
    + cnf_go.
    + destruct (f_adjacent d f) as [a|] eqn:Ha.
      * destruct (DW_adj d HW f a ltac:(assumption) Ha) as (Ha' & Hfa). cnf_go.
      * destruct HW as (_ & _ & _ & FP & _). specialize (FP f ltac:(assumption)). rewrite Ha in FP. lia.
    + cnf_go.
  - intros v0 Hv0. rewrite cnf_vout. repeat case_if2.
    + destruct (v_out_edge d v0) as [a|] eqn:Ha.
      * destruct (DW_vout d HW v0 a ltac:(assumption) Ha) as (Ha' & Hfa). cnf_go.
      * destruct HW as (_ & _ & _ & _ & VP & _). specialize (VP v0 ltac:(assumption)). rewrite Ha in VP. lia.
    + cnf_go.
  - exact cnf_triangles.
Qed.

Lemma cnf_outer_count : outer_count d' = outer_count d + 1.
Proof.
  destruct cnf_ctx as (He' & Hen & Hep & Hev & Hene & Hepe & Hto & Hfrom & HF & _).
  rewrite !outer_count_cnt, cnf_len. replace (N + 4) with (S (S (S (S N)))) by lia. rewrite !cnt_S.
  rewrite (cnt_flip (fun x => e_face d x =? 0) (fun x => e_face d' x =? 0) N e He').
  - rewrite !cnf_face. repeat case_if2. cbn [Nat.eqb]. destruct (F =? 0) eqn:EF; [apply Nat.eqb_eq in EF; lia|]. lia.
  - intros x Hx Hne. rewrite cnf_face. repeat case_if2; try reflexivity.
  - rewrite Hface. reflexivity.
  - rewrite cnf_face. repeat case_if2; try (apply Nat.eqb_neq; lia).
Qed.

End NewFace.

Theorem create_new_face_adjacent_to_edge_wf : forall d e v,
  DWf d -> e < length (d_hedges d) -> outer d e ->
  let r := create_new_face_adjacent_to_edge d e v in
  let d' := fst r in
  let N := length (d_hedges d) in
  let F := length (d_faces d) in
  DWf d' /\
  (Raw.num_vertices d' = S (Raw.num_vertices d) /\ Raw.num_undirected_edges d' = 2 + Raw.num_undirected_edges d /\
   Raw.num_faces d' = S (Raw.num_faces d) /\ length (d_hedges d') = N + 4) /\
  (snd r = Raw.num_vertices d /\
   d_verts d' = d_verts d ++ [mkv (vd_x v) (vd_y v) (vd_d v) (Some (N + 2))] /\
   d_faces d' = set_nth 0 (Some (N + 3)) (d_faces d ++ [Some e]) /\
   d_flags d' = d_flags d ++ repeat false 2) /\
  ((forall x, x < N -> x <> e -> e_face d' x = e_face d x) /\
   e_face d' e = F /\ e_face d' N = F /\ e_face d' (N + 1) = 0 /\ e_face d' (N + 2) = F /\ e_face d' (N + 3) = 0 /\
   outer_count d' = outer_count d + 1).
Proof.
  intros d e v HW He Hf. apply DWf_iff in HW. unfold outer in Hf.
  cbv zeta. split; [|split; [|split]].
  - apply DWf_iff. apply (cnf_DW d e v); assumption.
  - unfold Raw.num_vertices, Raw.num_undirected_edges, Raw.num_faces.
    rewrite (cnf_len d e v), (cnf_verts d e v), (cnf_faces d e v), (cnf_flags d e v), set_nth_length, !app_length by assumption.
    cbn [length]. repeat split; lia.
  - repeat split.
    + apply (cnf_verts d e v); assumption.
    + apply (cnf_faces d e v); assumption.
    + apply (cnf_flags d e v); assumption.
  - repeat split.
    + intros x Hx Hne. rewrite (cnf_face d e v) by assumption. rewrite (proj2 (Nat.ltb_lt _ _)) by lia.
      rewrite (proj2 (Nat.eqb_neq _ _)) by assumption. reflexivity.
    + rewrite (cnf_face d e v) by assumption. rewrite (proj2 (Nat.ltb_lt _ _)) by lia. rewrite Nat.eqb_refl. reflexivity.
    + rewrite (cnf_face d e v) by assumption. repeat case_if2; try reflexivity.
    + rewrite (cnf_face d e v) by assumption. repeat case_if2; try reflexivity.
    + rewrite (cnf_face d e v) by assumption. repeat case_if2; try reflexivity.
    + rewrite (cnf_face d e v) by assumption. repeat case_if2; try reflexivity.
    + apply (cnf_outer_count d e v); assumption.
Qed.

(* ------------------------------------------------------------------------------------------ *)
(* create_single_face_between_edge_and_next *)

Section SingleFace.
Variables (d : dcel) (e : nat).
Hypothesis HW : DW d.
Hypothesis He : e < length (d_hedges d).
Hypothesis Hface : e_face d e = 0.
Hypothesis Hfar : e_origin d (rev (e_next d e)) <> e_origin d e.

Notation N := (length (d_hedges d)).
Notation V := (length (d_verts d)).
Notation F := (length (d_faces d)).
Notation en := (e_next d e).
Notation enn := (e_next d (e_next d e)).
Notation ep := (e_prev d e).
Notation to_ := (e_origin d (rev (e_next d e))).
Notation from := (e_origin d e).
Let d' := fst (create_single_face_between_edge_and_next d e).

Lemma csf_he_facts : forall x, x < N ->
  (e_next d x < N /\ e_prev d x < N /\ e_face d x < F /\ e_origin d x < V) /\
  (e_prev d (e_next d x) = x /\ e_next d (e_prev d x) = x /\
   e_face d (e_next d x) = e_face d x /\
   e_origin d (e_next d x) = e_origin d (rev x) /\
   e_origin d x <> e_origin d (rev x)).
Proof. exact (DW_he d HW). Qed.

Lemma csf_ctx : e < N /\ en < N /\ enn < N /\ ep < N /\ N = 2 * length (d_flags d) /\
  en <> e /\ ep <> e /\ enn <> en /\ enn <> e /\ ep <> en /\
  to_ < V /\ from < V /\ 1 <= F /\ e_face d en = 0 /\ e_face d enn = 0 /\ e_face d ep = 0.
Proof.
  pose proof He as He'. pose proof (DW_even d HW) as Hev.
  pose proof HW as HW0. destruct HW0 as ((_ & C2) & _).
  pose proof (csf_he_facts e He) as Fe. dfacts Fe.
  pose proof (csf_he_facts en ltac:(assumption)) as Fn. dfacts Fn.
  pose proof (csf_he_facts enn ltac:(assumption)) as Fnn. dfacts Fnn.
  pose proof (csf_he_facts ep ltac:(assumption)) as Fp. dfacts Fp.
  pose proof (DW_rev_lt d HW en ltac:(assumption)) as Hr.
  pose proof (csf_he_facts (rev en) Hr) as Fr. dfacts Fr.
  repeat split; try assumption; try congruence.
Qed.

Lemma csf_unfold : create_single_face_between_edge_and_next d e =
  (push_face
     (push_edge
        (set_adjacent_edge
           (set_face (set_face (set_prev (set_next (set_prev (set_next d ep (N + 1)) e N) en N) enn (N + 1)) e F) en F)
           0 (Some (N + 1)))
        (mkh e en F to_) (mkh enn ep 0 from))
     (Some N), N + 1).
Proof.
  pose proof csf_ctx as Hc. decompose [and] Hc. clear Hc.
  match goal with Hev : length (d_hedges d) = 2 * length (d_flags d) |- _ =>
  unfold create_single_face_between_edge_and_next; cbv zeta; cbn [fst snd];
  rewrite rev_normalized; unfold normalized, num_undirected_edges, num_faces, e_to, e_rev;
  rewrite <- Hev end.
  (* the generated chain against the reference chain of the statement, up to the order of the writes *)
  apply ch_pair_eq; [|reflexivity].
  unfold e_next, e_prev, e_origin, e_face in *. ch_chain_eq.
Qed.

Lemma csf_len : length (d_hedges d') = N + 2.
Proof. unfold d'. rewrite csf_unfold. cbn [fst]. raw_simp. lia. Qed.
Lemma csf_verts : d_verts d' = d_verts d.
Proof. unfold d'. rewrite csf_unfold. cbn [fst]. raw_simp. reflexivity. Qed.
Lemma csf_faces : d_faces d' = set_nth 0 (Some (N + 1)) (d_faces d) ++ [Some N].
Proof. unfold d'. rewrite csf_unfold. cbn [fst]. raw_simp. reflexivity. Qed.
Lemma csf_flags : d_flags d' = d_flags d ++ [false].
Proof. unfold d'. rewrite csf_unfold. cbn [fst]. raw_simp. reflexivity. Qed.
Lemma csf_result : snd (create_single_face_between_edge_and_next d e) = N + 1.
Proof. rewrite csf_unfold. reflexivity. Qed.

Ltac csf_fld :=
  let x := fresh "x" in
  intro x; unfold d'; rewrite csf_unfold; cbn [fst];
  destruct csf_ctx as (He' & Hen & Henn & Hep & Hev & Hene & Hepe & Hnnn & Hnne & Hpn & _);
  fld_simp; cbn [h_next h_prev h_face h_org];
  repeat (case_if; try lia0); try (subst x); try congruence; try reflexivity; try lia.

Lemma csf_next : forall x, e_next d' x =
  if x <? N then (if x =? ep then N + 1 else if x =? en then N else e_next d x)
  else if x =? N then e else if x =? N + 1 then enn else 0.
Proof. csf_fld. Qed.
Lemma csf_prev : forall x, e_prev d' x =
  if x <? N then (if x =? e then N else if x =? enn then N + 1 else e_prev d x)
  else if x =? N then en else if x =? N + 1 then ep else 0.
Proof. csf_fld. Qed.
Lemma csf_face : forall x, e_face d' x =
  if x <? N then (if x =? e then F else if x =? en then F else e_face d x)
  else if x =? N then F else 0.
Proof. csf_fld. Qed.
Lemma csf_org : forall x, e_origin d' x =
  if x <? N then e_origin d x else if x =? N then to_ else if x =? N + 1 then from else 0.
Proof. csf_fld. Qed.

Lemma csf_vout : forall v0, v_out_edge d' v0 = v_out_edge d v0.
Proof. intro v0. unfold v_out_edge. rewrite csf_verts. reflexivity. Qed.

Lemma csf_adj : forall f, f_adjacent d' f =
  if f <? F then (if f =? 0 then Some (N + 1) else f_adjacent d f) else if f =? F then Some N else None.
Proof.
  intro f. destruct csf_ctx as (_ & _ & _ & _ & _ & _ & _ & _ & _ & _ & _ & _ & HF & _).
  unfold f_adjacent at 1. rewrite csf_faces, nth_push1, set_nth_length, nth_set_nth by lia.
  repeat (case_if; try lia); reflexivity.
Qed.

Ltac csf_rw :=
  match goal with
  | |- context [e_next d' ?t] => lazymatch t with context [d'] => fail | _ => rewrite (csf_next t) end
  | |- context [e_prev d' ?t] => lazymatch t with context [d'] => fail | _ => rewrite (csf_prev t) end
  | |- context [e_face d' ?t] => lazymatch t with context [d'] => fail | _ => rewrite (csf_face t) end
  | |- context [e_origin d' ?t] => lazymatch t with context [d'] => fail | _ => rewrite (csf_org t) end
  end.

Ltac csf_go := repeat (csf_rw; repeat case_if2); prune.

Ltac csf_start :=
  destruct csf_ctx as (He' & Hen & Henn & Hep & Hev & Hene & Hepe & Hnnn & Hnne & Hpn & Hto & Hfrom & HF & Hfen & Hfenn & Hfep);
  hef csf_he_facts e; hef csf_he_facts (e_next d e); hef csf_he_facts (e_next d (e_next d e)); hef csf_he_facts (e_prev d e).

Lemma csf_links : forall x, x < N + 2 ->
        e_prev d' (e_next d' x) = x /\ e_next d' (e_prev d' x) = x /\
        e_face d' (e_next d' x) = e_face d' x /\
        e_origin d' (e_next d' x) = e_origin d' (rev x) /\
        e_origin d' x <> e_origin d' (rev x).
Proof.
  intros x Hx. csf_start.
  pose proof (rev_involutive x) as Krr.
  destruct (rev_cases x) as [k [[K1 K2]|[K1 K2]]].
  all: destruct (Nat.ltb_spec x N) as [Hlt|Hge];
    [hef csf_he_facts x
    | assert (Hc : x = N \/ x = N + 1) by lia; destruct Hc as [Hc|Hc]; rewrite Hc in * ].
  all: repeat split.
  all: csf_go.
Qed.

Lemma csf_ranges : forall x, x < N + 2 ->
  e_next d' x < N + 2 /\ e_prev d' x < N + 2 /\ e_face d' x < F + 1 /\ e_origin d' x < V.
Proof.
  intros x Hx. csf_start.
  destruct (Nat.ltb_spec x N) as [Hlt|Hge];
    [hef csf_he_facts x
    | assert (Hc : x = N \/ x = N + 1) by lia; destruct Hc as [Hc|Hc]; rewrite Hc in * ].
  all: repeat split.
  all: csf_go.
Qed.

Lemma csf_triangles : forall x, x < N + 2 -> e_face d' x <> 0 ->
  e_next d' (e_next d' (e_next d' x)) = x /\
  exists a, f_adjacent d' (e_face d' x) = Some a /\ (x = a \/ x = e_next d' a \/ x = e_next d' (e_next d' a)).
Proof.
  intros x Hx Hfx.
  assert (Hc : (x < N /\ x <> e /\ x <> en /\ e_face d x <> 0) \/ x = N \/ x = e \/ x = en).
  { revert Hfx. destruct csf_ctx as (He' & _). rewrite csf_face. repeat case_if2; try lia; intros; lia. }
  destruct Hc as [(Hlt & Hxe & Hxn & Hfx0)|Hc].
  - rewrite (csf_face x), (proj2 (Nat.ltb_lt x N)), (proj2 (Nat.eqb_neq x e)), (proj2 (Nat.eqb_neq x en)) by assumption.
    pose proof (DW_he d HW x Hlt) as ((_ & _ & Hfr & _) & _).
    apply (tri_frame d d' HW); try assumption.
    + intros y Hy Hfy. csf_start. rewrite csf_next. repeat case_if2; try reflexivity.
    + rewrite csf_adj. repeat case_if2; try reflexivity.
  - csf_start. split; [|exists N].
    + destruct Hc as [Hc|[Hc|Hc]]; rewrite Hc in *; csf_go.
    + split.
      * destruct Hc as [Hc|[Hc|Hc]]; rewrite Hc in *; csf_rw; repeat case_if2; rewrite csf_adj; repeat case_if2; reflexivity.
      * destruct Hc as [Hc|[Hc|Hc]]; [left; exact Hc|right; left|right; right]; rewrite Hc in *; csf_go.
Qed.

Lemma csf_DW : DW d'.
Proof.
  pose proof HW as HW0. destruct HW0 as ((C1 & C2) & _).
  destruct csf_ctx as (He' & Hen & Henn & Hep & Hev & Hene & Hepe & Hnnn & Hnne & Hpn & Hto & Hfrom & HF & Hfen & Hfenn & Hfep).
  unfold DW. rewrite csf_len, csf_verts, csf_faces, csf_flags, !app_length, set_nth_length. cbn [length].
  split; [|split; [split; [|split]|split; [|split; [|split]]]].
  - lia.
  - intros x Hx. apply csf_ranges. exact Hx.
  - intros v0 Hv0 a. rewrite csf_vout.
    intro Ha. destruct (DW_vout d HW v0 a ltac:(assumption) Ha) as (Ha' & _). lia.
  - intros f Hf a. rewrite csf_adj. repeat case_if2.
    + intro Ha. inversion Ha. lia.
    + intro Ha. destruct (DW_adj d HW f a ltac:(assumption) Ha) as (Ha' & _). lia.
    + intro Ha. inversion Ha. lia.
  - exact csf_links.
  - intros f Hf. rewrite csf_adj. repeat case_if2.
    + csf_go.
    + destruct (f_adjacent d f) as [a|] eqn:Ha.
      * destruct (DW_adj d HW f a ltac:(assumption) Ha) as (Ha' & Hfa). csf_go.
      * destruct HW as (_ & _ & _ & FP & _). specialize (FP f ltac:(assumption)). rewrite Ha in FP. lia.
    + csf_go.
  - intros v0 Hv0. rewrite csf_vout.
    destruct (v_out_edge d v0) as [a|] eqn:Ha.
    + destruct (DW_vout d HW v0 a ltac:(assumption) Ha) as (Ha' & Hfa). csf_go.
    + destruct HW as (_ & _ & _ & _ & VP & _). specialize (VP v0 ltac:(assumption)). rewrite Ha in VP. lia.
  - exact csf_triangles.
Qed.

Lemma csf_outer_count : outer_count d' + 1 = outer_count d.
Proof.
  destruct csf_ctx as (He' & Hen & Henn & Hep & Hev & Hene & Hepe & Hnnn & Hnne & Hpn & Hto & Hfrom & HF & Hfen & _).
  rewrite !outer_count_cnt, csf_len. replace (N + 2) with (S (S N)) by lia. rewrite !cnt_S.
  rewrite (cnt_flip (fun x => e_face d x =? 0) (fun x => if x =? e then false else e_face d x =? 0) N e He').
  - rewrite (cnt_flip (fun x => if x =? e then false else e_face d x =? 0) (fun x => e_face d' x =? 0) N en Hen).
    + rewrite !csf_face. repeat case_if2. cbn [Nat.eqb]. lia.
    + intros x Hx Hne. rewrite csf_face. repeat case_if2; try reflexivity. symmetry. apply Nat.eqb_neq. lia.
    + rewrite (proj2 (Nat.eqb_neq en e)) by assumption. rewrite Hfen. reflexivity.
    + rewrite csf_face. repeat case_if2; try (apply Nat.eqb_neq; lia).
  - intros x Hx Hne. rewrite (proj2 (Nat.eqb_neq x e)) by assumption. reflexivity.
  - rewrite Hface. reflexivity.
  - rewrite Nat.eqb_refl. reflexivity.
Qed.

End SingleFace.

Theorem create_single_face_between_edge_and_next_wf : forall d e,
  DWf d -> e < length (d_hedges d) -> outer d e ->
  e_origin d (rev (e_next d e)) <> e_origin d e ->
  let r := create_single_face_between_edge_and_next d e in
  let d' := fst r in
  let N := length (d_hedges d) in
  let F := length (d_faces d) in
  DWf d' /\
  (Raw.num_vertices d' = Raw.num_vertices d /\ Raw.num_undirected_edges d' = S (Raw.num_undirected_edges d) /\
   Raw.num_faces d' = S (Raw.num_faces d) /\ length (d_hedges d') = N + 2) /\
  (snd r = N + 1 /\
   d_verts d' = d_verts d /\
   d_faces d' = set_nth 0 (Some (N + 1)) (d_faces d) ++ [Some N] /\
   d_flags d' = d_flags d ++ repeat false 1) /\
  ((forall x, x < N -> x <> e -> x <> e_next d e -> e_face d' x = e_face d x) /\
   e_face d' e = F /\ e_face d' (e_next d e) = F /\ e_face d' N = F /\ e_face d' (N + 1) = 0 /\
   outer_count d' + 1 = outer_count d).
Proof.
  intros d e HW He Hf Hfar. apply DWf_iff in HW. unfold outer in Hf.
  cbv zeta. split; [|split; [|split]].
  - apply DWf_iff. apply (csf_DW d e); assumption.
  - unfold Raw.num_vertices, Raw.num_undirected_edges, Raw.num_faces.
    rewrite (csf_len d e), (csf_verts d e), (csf_faces d e), (csf_flags d e), !app_length, set_nth_length by assumption.
    cbn [length]. repeat split; lia.
  - split; [|split; [|split]].
    + apply (csf_result d e); assumption.
    + apply (csf_verts d e); assumption.
    + apply (csf_faces d e); assumption.
    + apply (csf_flags d e); assumption.
  - destruct (csf_ctx d e HW He Hf Hfar) as (_ & Hen & _ & _ & _ & Hene & _).
    split; [|split; [|split; [|split; [|split]]]].
    + intros x Hx Hne Hnn. rewrite (csf_face d e) by assumption. rewrite (proj2 (Nat.ltb_lt _ _)) by lia.
      rewrite !(proj2 (Nat.eqb_neq _ _)) by assumption. reflexivity.
    + rewrite (csf_face d e) by assumption. rewrite (proj2 (Nat.ltb_lt _ _)) by lia. rewrite Nat.eqb_refl. reflexivity.
    + rewrite (csf_face d e) by assumption. rewrite (proj2 (Nat.ltb_lt _ _)) by lia.
      rewrite (proj2 (Nat.eqb_neq _ _)) by assumption. rewrite Nat.eqb_refl. reflexivity.
    + rewrite (csf_face d e) by assumption. repeat case_if2; try reflexivity.
    + rewrite (csf_face d e) by assumption. repeat case_if2; try reflexivity.
    + apply (csf_outer_count d e); assumption.
Qed.

(* ------------------------------------------------------------------------------------------ *)
(* the edgeless states: dcel_new, insert_first_vertex, insert_second_vertex *)

Lemma dcel_new_DW : DW dcel_new.
Proof.
  unfold DW, dcel_new. cbn [d_verts d_hedges d_faces d_flags length].
  split; [lia|]. split; [split; [|split]|split; [|split; [|split]]].
  - intros e He. lia.
  - intros v0 Hv0. lia.
  - intros f Hf e. assert (f = 0) by lia. subst f. unfold f_adjacent. cbn. discriminate.
  - intros e He. lia.
  - intros f Hf. assert (f = 0) by lia. subst f. unfold f_adjacent. cbn. split; reflexivity.
  - intros v0 Hv0. lia.
  - intros e He. lia.
Qed.

Lemma dcel_new_wf : DWf dcel_new.
Proof. apply DWf_iff. exact dcel_new_DW. Qed.

(* with at most one vertex there are no edges, and only the outer face *)
Lemma DW_edgeless : forall d, DW d -> length (d_verts d) <= 1 ->
  d_hedges d = [] /\ d_faces d = [None] /\ d_flags d = [].
Proof.
  intros d HW HV.
  assert (HN : length (d_hedges d) = 0).
  { destruct (Nat.eq_dec (length (d_hedges d)) 0) as [H|H]; [exact H|exfalso].
    assert (H0 : 0 < length (d_hedges d)) by lia.
    pose proof (DW_rev_lt d HW 0 H0) as Hr.
    destruct (DW_he d HW 0 H0) as ((_ & _ & _ & O1) & (_ & _ & _ & _ & O2)).
    destruct (DW_he d HW (rev 0) Hr) as ((_ & _ & _ & O3) & _). lia. }
  destruct HW as ((C1 & C2) & (_ & _ & Rf) & _ & FP & _).
  split; [|split].
  - destruct (d_hedges d); [reflexivity|discriminate].
  - assert (Hall : forall f, f < length (d_faces d) -> f_adjacent d f = None /\ f = 0).
    { intros f Hf. specialize (FP f Hf). specialize (Rf f Hf).
      destruct (f_adjacent d f) as [a|]; [specialize (Rf a eq_refl); lia|]. split; [reflexivity|apply FP]. }
    unfold f_adjacent in Hall. destruct (d_faces d) as [|o [|o2 fs]]; cbn [length] in *.
    + lia.
    + destruct (Hall 0 ltac:(lia)) as (H0 & _). cbn in H0. subst o. reflexivity.
    + destruct (Hall 1 ltac:(lia)) as (_ & H1). discriminate.
  - destruct (d_flags d); [reflexivity|]. cbn [length] in C1. lia.
Qed.

Theorem insert_first_vertex_wf : forall d v,
  DWf d -> Raw.num_vertices d = 0 ->
  let r := insert_first_vertex d v in
  let d' := fst r in
  DWf d' /\
  (Raw.num_vertices d' = S (Raw.num_vertices d) /\ Raw.num_undirected_edges d' = Raw.num_undirected_edges d /\
   Raw.num_faces d' = Raw.num_faces d /\ length (d_hedges d') = length (d_hedges d)) /\
  (snd r = Raw.num_vertices d /\
   d_verts d' = d_verts d ++ [mkv (vd_x v) (vd_y v) (vd_d v) None] /\
   d_hedges d' = d_hedges d /\ d_faces d' = d_faces d /\
   d_flags d' = d_flags d ++ repeat false 0) /\
  (d = dcel_new /\ d_hedges d' = [] /\ outer_count d' = outer_count d).
Proof.
  intros d v HW HV. apply DWf_iff in HW. unfold Raw.num_vertices in HV.
  destruct (DW_edgeless d HW ltac:(lia)) as (Hh & Hf & Hg).
  destruct d as [vs hs fs gs]. cbn [d_verts d_hedges d_faces d_flags] in *. subst hs fs gs.
  destruct vs; [|discriminate]. clear HV HW.
  assert (E : insert_first_vertex (mkdcel [] [] [None] []) v =
              (mkdcel [mkv (vd_x v) (vd_y v) (vd_d v) None] [] [None] [], 0)) by reflexivity.
  cbv zeta. rewrite E. cbn [fst snd]. split; [|split; [|split]].
  - apply DWf_iff.
    unfold DW. cbn [d_verts d_hedges d_faces d_flags length].
    split; [lia|]. split; [split; [|split]|split; [|split; [|split]]].
    + intros e He. lia.
    + intros v0 Hv0 e. assert (v0 = 0) by lia. subst v0. unfold v_out_edge. cbn. discriminate.
    + intros f Hf e. assert (f = 0) by lia. subst f. unfold f_adjacent. cbn. discriminate.
    + intros e He. lia.
    + intros f Hf. assert (f = 0) by lia. subst f. unfold f_adjacent. cbn. split; reflexivity.
    + intros v0 Hv0. assert (v0 = 0) by lia. subst v0. unfold v_out_edge. cbn. reflexivity.
    + intros e He. lia.
  - repeat split.
  - repeat split.
  - repeat split.
Qed.

Theorem insert_second_vertex_wf : forall d v,
  DWf d -> Raw.num_vertices d = 1 ->
  let r := insert_second_vertex d v in
  let d' := fst r in
  DWf d' /\
  (Raw.num_vertices d' = S (Raw.num_vertices d) /\ Raw.num_undirected_edges d' = S (Raw.num_undirected_edges d) /\
   Raw.num_faces d' = Raw.num_faces d /\ length (d_hedges d') = length (d_hedges d) + 2) /\
  (snd r = Raw.num_vertices d /\
   (v_x (nth 0 (d_verts d') dflt_v) = v_x (nth 0 (d_verts d) dflt_v) /\
    v_y (nth 0 (d_verts d') dflt_v) = v_y (nth 0 (d_verts d) dflt_v) /\
    v_data (nth 0 (d_verts d') dflt_v) = v_data (nth 0 (d_verts d) dflt_v) /\
    v_out (nth 0 (d_verts d') dflt_v) = Some 0) /\
   nth 1 (d_verts d') dflt_v = mkv (vd_x v) (vd_y v) (vd_d v) (Some 1) /\
   d_hedges d' = [mkh 1 1 0 0; mkh 0 0 0 1] /\ d_faces d' = [Some 0] /\
   d_flags d' = d_flags d ++ repeat false 1) /\
  (d_hedges d = [] /\ e_face d' 0 = 0 /\ e_face d' 1 = 0 /\ outer_count d' = outer_count d + 2).
Proof.
  intros d v HW HV. apply DWf_iff in HW. unfold Raw.num_vertices in HV.
  destruct (DW_edgeless d HW ltac:(lia)) as (Hh & Hf & Hg).
  destruct d as [vs hs fs gs]. cbn [d_verts d_hedges d_faces d_flags] in *. subst hs fs gs.
  destruct vs as [|r0 [|r1 vs]]; try discriminate. clear HV HW.
  assert (E : insert_second_vertex (mkdcel [r0] [] [None] []) v =
              (mkdcel [mkv (v_x r0) (v_y r0) (v_data r0) (Some 0); mkv (vd_x v) (vd_y v) (vd_d v) (Some 1)]
                      [mkh 1 1 0 0; mkh 0 0 0 1] [Some 0] [false], 1)) by reflexivity.
  cbv zeta. rewrite E. cbn [fst snd]. split; [|split; [|split]].
  - apply DWf_iff.
    unfold DW. cbn [d_verts d_hedges d_faces d_flags length].
    split; [lia|]. split; [split; [|split]|split; [|split; [|split]]].
    + intros e He. destruct e as [|[|e]]; [| |lia]; cbn; lia.
    + intros v0 Hv0 e. destruct v0 as [|[|v0]]; [| |lia]; unfold v_out_edge; cbn; intro H; inversion H; lia.
    + intros f Hf e. assert (f = 0) by lia. subst f. unfold f_adjacent. cbn. intro H; inversion H; lia.
    + intros e He. destruct e as [|[|e]]; [| |lia]; cbn; repeat split; try reflexivity; discriminate.
    + intros f Hf. assert (f = 0) by lia. subst f. unfold f_adjacent. cbn. reflexivity.
    + intros v0 Hv0. destruct v0 as [|[|v0]]; [| |lia]; unfold v_out_edge; cbn; reflexivity.
    + intros e He. destruct e as [|[|e]]; [| |lia]; cbn; intro H; exfalso; apply H; reflexivity.
  - repeat split.
  - repeat split.
  - repeat split.
Qed.

Print Assumptions dcel_new_wf.
Print Assumptions insert_first_vertex_wf.
Print Assumptions insert_second_vertex_wf.
Print Assumptions extend_line_wf.
Print Assumptions split_edge_when_all_vertices_on_line_wf.
Print Assumptions create_new_face_adjacent_to_edge_wf.
Print Assumptions create_single_face_between_edge_and_next_wf.
