(* Dcel/ProofsHull.v -- the DCEL primitives used when a vertex is inserted outside the convex hull or
   while all vertices are collinear (Gen/DcelOps.v, generated from dcel_operations.rs) preserve
   link-level well-formedness, with exact count deltas (C02):
     create_new_face_adjacent_to_edge, create_single_face_between_edge_and_next, extend_line,
     split_edge_when_all_vertices_on_line, insert_first_vertex, insert_second_vertex. *)
From Coq Require Import ZArith List Bool Arith Lia.
From SpadeV Require Import Obs.State Obs.Spec Obs.SpecProp Vmap.Model Dcel.Raw Dcel.WfCore Gen.DcelOps.
Import ListNotations.

(* ------------------------------------------------------------------------------------------ *)
(* list lemmas *)

Lemma set_nth_length : forall {A} i (x : A) l, length (set_nth i x l) = length l.
Proof.
  intros A i x l. revert i. induction l as [|h t IH]; intros [|i]; cbn [set_nth length]; auto.
Qed.

Lemma nth_set_nth : forall {A} i j (x : A) l dd, i < length l ->
  nth j (set_nth i x l) dd = if j =? i then x else nth j l dd.
Proof.
  intros A i j x l dd. revert i j. induction l as [|h t IH]; intros [|i] [|j] Hi;
    cbn [set_nth nth length Nat.eqb] in *; try lia; auto.
  apply IH. lia.
Qed.

Lemma nth_push2 : forall {A} (l : list A) a b j dd,
  nth j (l ++ [a; b]) dd =
    if j <? length l then nth j l dd else if j =? length l then a else if j =? S (length l) then b else dd.
Proof.
  intros A l a b j dd. destruct (Nat.ltb_spec j (length l)) as [H|H].
  - apply app_nth1. exact H.
  - rewrite app_nth2 by exact H.
    destruct (Nat.eqb_spec j (length l)) as [E|E].
    + replace (j - length l) with 0 by lia. reflexivity.
    + destruct (Nat.eqb_spec j (S (length l))) as [E2|E2].
      * replace (j - length l) with 1 by lia. reflexivity.
      * destruct (j - length l) as [|[|k]] eqn:K; try lia. cbn [nth]. destruct k; reflexivity.
Qed.

Lemma nth_push1 : forall {A} (l : list A) a j dd,
  nth j (l ++ [a]) dd = if j <? length l then nth j l dd else if j =? length l then a else dd.
Proof.
  intros A l a j dd. destruct (Nat.ltb_spec j (length l)) as [H|H].
  - apply app_nth1. exact H.
  - rewrite app_nth2 by exact H.
    destruct (Nat.eqb_spec j (length l)) as [E|E].
    + replace (j - length l) with 0 by lia. reflexivity.
    + destruct (j - length l) as [|k] eqn:K; try lia. cbn [nth]. destruct k; reflexivity.
Qed.

(* counting the elements below n that satisfy p *)
Definition cnt (p : nat -> bool) (n : nat) : nat := length (filter p (seq 0 n)).

Lemma cnt_S : forall p n, cnt p (S n) = cnt p n + (if p n then 1 else 0).
Proof.
  intros p n. unfold cnt. rewrite seq_S, filter_app, app_length. cbn [filter plus].
  destruct (p n); reflexivity.
Qed.

Lemma cnt_ext : forall p q n, (forall x, x < n -> p x = q x) -> cnt p n = cnt q n.
Proof.
  intros p q n. induction n as [|n IH]; intro H; [reflexivity|].
  rewrite !cnt_S, IH, (H n) by (intros; try apply H; lia). reflexivity.
Qed.

Lemma cnt_flip : forall p q n e, e < n -> (forall x, x < n -> x <> e -> p x = q x) ->
  p e = true -> q e = false -> cnt p n = S (cnt q n).
Proof.
  intros p q n e. induction n as [|n IH]; intros He H Hp Hq; [lia|].
  rewrite !cnt_S. destruct (Nat.eq_dec e n) as [->|Hne].
  - rewrite Hp, Hq. rewrite (cnt_ext p q n) by (intros; apply H; lia). lia.
  - rewrite IH by (try assumption; try lia; intros; apply H; lia).
    rewrite (H n) by lia. lia.
Qed.

(* ------------------------------------------------------------------------------------------ *)
(* rev *)

Lemma even_double : forall k, Nat.even (2 * k) = true.
Proof. intro k. apply Nat.even_spec. exists k. reflexivity. Qed.

Lemma rev_cases : forall x, exists k, (x = 2 * k /\ rev x = 2 * k + 1) \/ (x = 2 * k + 1 /\ rev x = 2 * k).
Proof.
  intro x. unfold rev. destruct (Nat.even x) eqn:E.
  - apply Nat.even_spec in E. destruct E as [k Hk]. exists k. left. lia.
  - assert (O : Nat.odd x = true) by (rewrite <- Nat.negb_even, E; reflexivity).
    apply Nat.odd_spec in O. destruct O as [k Hk]. exists k. right. lia.
Qed.

(* ------------------------------------------------------------------------------------------ *)
(* DWf through the raw accessors *)

Definition DW (d : dcel) : Prop :=
  (length (d_flags d) * 2 = length (d_hedges d) /\ 1 <= length (d_faces d))
  /\ ((forall e, e < length (d_hedges d) ->
         e_next d e < length (d_hedges d) /\ e_prev d e < length (d_hedges d) /\
         e_face d e < length (d_faces d) /\ e_origin d e < length (d_verts d))
      /\ (forall v, v < length (d_verts d) -> forall e, v_out_edge d v = Some e -> e < length (d_hedges d))
      /\ (forall f, f < length (d_faces d) -> forall e, f_adjacent d f = Some e -> e < length (d_hedges d)))
  /\ (forall e, e < length (d_hedges d) ->
        e_prev d (e_next d e) = e /\ e_next d (e_prev d e) = e /\
        e_face d (e_next d e) = e_face d e /\
        e_origin d (e_next d e) = e_origin d (rev e) /\
        e_origin d e <> e_origin d (rev e))
  /\ (forall f, f < length (d_faces d) ->
        match f_adjacent d f with
        | Some e => e_face d e = f
        | None => f = 0 /\ length (d_hedges d) = 0
        end)
  /\ (forall v, v < length (d_verts d) ->
        match v_out_edge d v with
        | Some e => e_origin d e = v
        | None => length (d_hedges d) = 0
        end)
  /\ (forall e, e < length (d_hedges d) -> e_face d e <> 0 ->
        e_next d (e_next d (e_next d e)) = e /\
        exists a, f_adjacent d (e_face d e) = Some a /\
                  (e = a \/ e = e_next d a \/ e = e_next d (e_next d a))).

Lemma DWf_iff : forall d, DWf d <-> DW d.
Proof.
  intro d. unfold DWf, WfCore, DW.
  unfold WfCounts, WfRanges, WfLinks, WfFacePtrs, WfVertexPtrs, WfTriangles, HE, opt_below.
  change (nH (obs_of_dcel d)) with (length (d_hedges d)).
  change (nV (obs_of_dcel d)) with (length (d_verts d)).
  change (nF (obs_of_dcel d)) with (length (d_faces d)).
  change (o_nv (obs_of_dcel d)) with (length (d_verts d)).
  change (o_ne (obs_of_dcel d)) with (length (d_flags d)).
  change (o_nf (obs_of_dcel d)) with (length (d_faces d)).
  change (o_flags (obs_of_dcel d)) with (d_flags d).
  change (next (obs_of_dcel d)) with (e_next d).
  change (prev (obs_of_dcel d)) with (e_prev d).
  change (face (obs_of_dcel d)) with (e_face d).
  change (org (obs_of_dcel d)) with (e_origin d).
  change (dest (obs_of_dcel d)) with (fun e => e_origin d (rev e)).
  change (adj (obs_of_dcel d)) with (f_adjacent d).
  change (vout (obs_of_dcel d)) with (v_out_edge d).
  cbv beta. tauto.
Qed.

Definition outer_count (d : dcel) : nat := length (outer_edges (obs_of_dcel d)).

Lemma outer_count_cnt : forall d, outer_count d = cnt (fun e => e_face d e =? 0) (length (d_hedges d)).
Proof. intro d. reflexivity. Qed.

(* ------------------------------------------------------------------------------------------ *)
(* read-after-write for the Raw API *)

Lemma rev_involutive : forall x, rev (rev x) = x.
Proof.
  intro x. destruct (rev_cases x) as [k [[H1 H2]|[H1 H2]]]; destruct (rev_cases (rev x)) as [j [[H3 H4]|[H3 H4]]]; lia.
Qed.

Lemma rev_normalized : forall k, e_rev (normalized k) = 2 * k + 1.
Proof. intro k. unfold e_rev, normalized. destruct (rev_cases (2 * k)) as [j [[H1 H2]|[H1 H2]]]; lia. Qed.

Lemma he_upd_h : forall d a f x, a < length (d_hedges d) ->
  half_edge (upd_h d a f) x = if x =? a then f (half_edge d a) else half_edge d x.
Proof. intros d a f x H. unfold half_edge at 1, upd_h. cbn [d_hedges]. rewrite nth_set_nth by exact H. reflexivity. Qed.

Lemma he_push_edge : forall d h0 h1 x,
  half_edge (push_edge d h0 h1) x =
    if x <? length (d_hedges d) then half_edge d x
    else if x =? length (d_hedges d) then h0 else if x =? S (length (d_hedges d)) then h1 else dflt_h.
Proof. intros. unfold half_edge at 1, push_edge. cbn [d_hedges]. apply nth_push2. Qed.

Lemma he_push_face : forall d o x, half_edge (push_face d o) x = half_edge d x. Proof. reflexivity. Qed.
Lemma he_push_vertex : forall d v o x, half_edge (push_vertex d v o) x = half_edge d x. Proof. reflexivity. Qed.
Lemma he_set_out_edge : forall d v o x, half_edge (set_out_edge d v o) x = half_edge d x. Proof. reflexivity. Qed.
Lemma he_set_adjacent_edge : forall d f o x, half_edge (set_adjacent_edge d f o) x = half_edge d x. Proof. reflexivity. Qed.

Lemma lh_upd_h : forall d a f, length (d_hedges (upd_h d a f)) = length (d_hedges d).
Proof. intros. unfold upd_h. cbn [d_hedges]. apply set_nth_length. Qed.
Lemma lh_push_edge : forall d h0 h1, length (d_hedges (push_edge d h0 h1)) = length (d_hedges d) + 2.
Proof. intros. unfold push_edge. cbn [d_hedges]. rewrite app_length. reflexivity. Qed.
Lemma lh_push_face : forall d o, length (d_hedges (push_face d o)) = length (d_hedges d). Proof. reflexivity. Qed.
Lemma lh_push_vertex : forall d v o, length (d_hedges (push_vertex d v o)) = length (d_hedges d). Proof. reflexivity. Qed.
Lemma lh_set_out_edge : forall d v o, length (d_hedges (set_out_edge d v o)) = length (d_hedges d). Proof. reflexivity. Qed.
Lemma lh_set_adjacent_edge : forall d f o, length (d_hedges (set_adjacent_edge d f o)) = length (d_hedges d). Proof. reflexivity. Qed.

Lemma dv_upd_h : forall d a f, d_verts (upd_h d a f) = d_verts d. Proof. reflexivity. Qed.
Lemma dv_push_edge : forall d h0 h1, d_verts (push_edge d h0 h1) = d_verts d. Proof. reflexivity. Qed.
Lemma dv_push_face : forall d o, d_verts (push_face d o) = d_verts d. Proof. reflexivity. Qed.
Lemma dv_set_adjacent_edge : forall d f o, d_verts (set_adjacent_edge d f o) = d_verts d. Proof. reflexivity. Qed.
Lemma dv_push_vertex : forall d v o, d_verts (push_vertex d v o) = d_verts d ++ [mkv (vd_x v) (vd_y v) (vd_d v) o].
Proof. reflexivity. Qed.
Lemma dv_set_out_edge : forall d v o, d_verts (set_out_edge d v o) =
  set_nth v (mkv (v_x (nth v (d_verts d) dflt_v)) (v_y (nth v (d_verts d) dflt_v)) (v_data (nth v (d_verts d) dflt_v)) o) (d_verts d).
Proof. reflexivity. Qed.

Lemma df_upd_h : forall d a f, d_faces (upd_h d a f) = d_faces d. Proof. reflexivity. Qed.
Lemma df_push_edge : forall d h0 h1, d_faces (push_edge d h0 h1) = d_faces d. Proof. reflexivity. Qed.
Lemma df_push_vertex : forall d v o, d_faces (push_vertex d v o) = d_faces d. Proof. reflexivity. Qed.
Lemma df_set_out_edge : forall d v o, d_faces (set_out_edge d v o) = d_faces d. Proof. reflexivity. Qed.
Lemma df_push_face : forall d o, d_faces (push_face d o) = d_faces d ++ [o]. Proof. reflexivity. Qed.
Lemma df_set_adjacent_edge : forall d f o, d_faces (set_adjacent_edge d f o) = set_nth f o (d_faces d). Proof. reflexivity. Qed.

Lemma dg_upd_h : forall d a f, d_flags (upd_h d a f) = d_flags d. Proof. reflexivity. Qed.
Lemma dg_push_edge : forall d h0 h1, d_flags (push_edge d h0 h1) = d_flags d ++ [false]. Proof. reflexivity. Qed.
Lemma dg_push_face : forall d o, d_flags (push_face d o) = d_flags d. Proof. reflexivity. Qed.
Lemma dg_push_vertex : forall d v o, d_flags (push_vertex d v o) = d_flags d. Proof. reflexivity. Qed.
Lemma dg_set_out_edge : forall d v o, d_flags (set_out_edge d v o) = d_flags d. Proof. reflexivity. Qed.
Lemma dg_set_adjacent_edge : forall d f o, d_flags (set_adjacent_edge d f o) = d_flags d. Proof. reflexivity. Qed.

Global Hint Rewrite he_push_edge he_push_face he_push_vertex he_set_out_edge he_set_adjacent_edge
  lh_upd_h lh_push_edge lh_push_face lh_push_vertex lh_set_out_edge lh_set_adjacent_edge
  dv_upd_h dv_push_edge dv_push_face dv_set_adjacent_edge dv_push_vertex dv_set_out_edge
  df_upd_h df_push_edge df_push_vertex df_set_out_edge df_push_face df_set_adjacent_edge
  dg_upd_h dg_push_edge dg_push_face dg_push_vertex dg_set_out_edge dg_set_adjacent_edge : raw.

Ltac raw_simp :=
  unfold set_next, set_prev, set_face, set_origin, set_half_edge;
  repeat (progress (autorewrite with raw; rewrite ?he_upd_h by (autorewrite with raw; lia))).

Ltac case_if :=
  match goal with
  | |- context [if ?a =? ?b then _ else _] => destruct (Nat.eqb_spec a b)
  | |- context [if ?a <? ?b then _ else _] => destruct (Nat.ltb_spec a b)
  end.

(* facts about one half-edge of a well-formed dcel *)
Lemma DW_he : forall d, DW d -> forall e, e < length (d_hedges d) ->
  (e_next d e < length (d_hedges d) /\ e_prev d e < length (d_hedges d) /\
   e_face d e < length (d_faces d) /\ e_origin d e < length (d_verts d)) /\
  (e_prev d (e_next d e) = e /\ e_next d (e_prev d e) = e /\
   e_face d (e_next d e) = e_face d e /\
   e_origin d (e_next d e) = e_origin d (rev e) /\
   e_origin d e <> e_origin d (rev e)).
Proof. intros d (_ & (R & _) & L & _) e He. split; [apply R|apply L]; exact He. Qed.

Lemma DW_even : forall d, DW d -> length (d_hedges d) = 2 * length (d_flags d).
Proof. intros d ((H & _) & _). lia. Qed.

Lemma DW_rev_lt : forall d, DW d -> forall e, e < length (d_hedges d) -> rev e < length (d_hedges d).
Proof.
  intros d H e He. pose proof (DW_even d H) as Hev.
  destruct (rev_cases e) as [k [[H1 H2]|[H1 H2]]]; lia.
Qed.

Lemma DW_adj : forall d, DW d -> forall f a, f < length (d_faces d) -> f_adjacent d f = Some a ->
  a < length (d_hedges d) /\ e_face d a = f.
Proof.
  intros d (_ & (_ & _ & R) & _ & FP & _) f a Hf Ha. split; [exact (R f Hf a Ha)|].
  specialize (FP f Hf). rewrite Ha in FP. exact FP.
Qed.

Lemma DW_vout : forall d, DW d -> forall v a, v < length (d_verts d) -> v_out_edge d v = Some a ->
  a < length (d_hedges d) /\ e_origin d a = v.
Proof.
  intros d (_ & (_ & R & _) & _ & _ & VP & _) v a Hv Ha. split; [exact (R v Hv a Ha)|].
  specialize (VP v Hv). rewrite Ha in VP. exact VP.
Qed.

Lemma DW_tri : forall d, DW d -> forall e, e < length (d_hedges d) -> e_face d e <> 0 ->
  e_next d (e_next d (e_next d e)) = e /\
  exists a, f_adjacent d (e_face d e) = Some a /\ (e = a \/ e = e_next d a \/ e = e_next d (e_next d a)).
Proof. intros d (_ & _ & _ & _ & _ & T). exact T. Qed.

Lemma v_out_edge_ge : forall d v, length (d_verts d) <= v -> v_out_edge d v = None.
Proof. intros d v H. unfold v_out_edge. rewrite nth_overflow by exact H. reflexivity. Qed.

Lemma hrec_eta : forall h, h = mkh (h_next h) (h_prev h) (h_face h) (h_org h).
Proof. intros []. reflexivity. Qed.

Ltac he_leaf :=
  try (match goal with |- half_edge ?d ?x = _ => rewrite (hrec_eta (half_edge d x)) end);
  unfold e_next, e_prev, e_face, e_origin in *;
  cbn [h_next h_prev h_face h_org]; f_equal; try lia; try congruence.

Ltac prune := try lia; try congruence.

(* decide the condition of one `if` of the goal: by arithmetic when possible, else by cases *)
Ltac case_if2 :=
  match goal with
  | |- context [if ?a <? ?b then _ else _] =>
      first [ rewrite (proj2 (Nat.ltb_lt a b)) by lia | rewrite (proj2 (Nat.ltb_ge a b)) by lia
            | destruct (Nat.ltb_spec a b); prune ]
  | |- context [if ?a =? ?b then _ else _] =>
      first [ rewrite (proj2 (Nat.eqb_eq a b)) by lia | rewrite (proj2 (Nat.eqb_neq a b)) by lia
            | destruct (Nat.eqb_spec a b); prune ]
  end.

Ltac dfacts H := destruct H as ((? & ? & ? & ?) & (? & ? & ? & ? & ?)).
(* `hef lem t`: the facts `lem : forall x, x < N -> ...` about the half-edge t (t < N by lia) *)
Ltac hef lem t := let F := fresh "F" in pose proof (lem t ltac:(lia)) as F; dfacts F.

(* the triangle clause for a half-edge of an inner face none of whose links was touched *)
Lemma tri_frame : forall d d', DW d ->
  (forall x, x < length (d_hedges d) -> e_face d x <> 0 -> e_next d' x = e_next d x) ->
  forall x, x < length (d_hedges d) -> e_face d x <> 0 ->
  f_adjacent d' (e_face d x) = f_adjacent d (e_face d x) ->
  e_next d' (e_next d' (e_next d' x)) = x /\
  exists a, f_adjacent d' (e_face d x) = Some a /\ (x = a \/ x = e_next d' a \/ x = e_next d' (e_next d' a)).
Proof.
  intros d d' HW Hn x Hx Hfx Hadj.
  destruct (DW_tri d HW x Hx Hfx) as (T3 & a & Ha & Hor).
  destruct (DW_he d HW x Hx) as ((X1 & _ & X2 & _) & (_ & _ & X3 & _)).
  destruct (DW_he d HW _ X1) as ((Y1 & _) & (_ & _ & Y3 & _)).
  destruct (DW_adj d HW _ a X2 Ha) as (Ha' & Hfa).
  destruct (DW_he d HW a Ha') as ((A1 & _) & (_ & _ & A3 & _)).
  split.
  - rewrite (Hn x), (Hn (e_next d x)), (Hn (e_next d (e_next d x))); try assumption; congruence.
  - exists a. rewrite Hadj. split; [exact Ha|].
    rewrite (Hn a), (Hn (e_next d a)); try assumption; congruence.
Qed.

(* when there is only the outer face (all vertices collinear), every half-edge is outer *)
Lemma line_outer : forall d, DWf d -> Raw.num_faces d = 1 -> forall e, e < length (d_hedges d) -> outer d e.
Proof.
  intros d HW HF e He. apply DWf_iff in HW. destruct (DW_he d HW e He) as ((_ & _ & Hf & _) & _).
  unfold Raw.num_faces in HF. unfold outer. lia.
Qed.

(* ------------------------------------------------------------------------------------------ *)
(* extend_line *)

Section ExtendLine.
Variables (d : dcel) (vtx : nat) (v : vdata) (o : nat).
Hypothesis HW : DW d.
Hypothesis Hout : v_out_edge d vtx = Some o.
Hypothesis Hend : e_next d (rev o) = o.
Hypothesis Hface : e_face d o = 0.

Let N := length (d_hedges d).
Let V := length (d_verts d).
Let d' := fst (extend_line d vtx v).

Definition el_he (x : nat) : hrec :=
  if x <? N then mkh (if x =? rev o then N + 1 else e_next d x) (if x =? o then N else e_prev d x) (e_face d x) (e_origin d x)
  else if x =? N then mkh o (N + 1) (e_face d o) V
  else if x =? N + 1 then mkh N (rev o) (e_face d o) vtx
  else dflt_h.

Lemma el_unfold : extend_line d vtx v =
  (push_vertex (push_edge (set_next (set_prev d o (2 * length (d_flags d))) (rev o) (2 * length (d_flags d) + 1))
      (mkh o (2 * length (d_flags d) + 1) (e_face d o) (length (d_verts d))) (mkh (2 * length (d_flags d)) (rev o) (e_face d o) vtx)) v (Some (2 * length (d_flags d))),
   length (d_verts d)).
Proof.
  unfold extend_line. rewrite Hout. unfold e_rev at 2 3. rewrite rev_involutive, Nat.eqb_refl. cbn [negb].
  cbv zeta. rewrite rev_normalized. reflexivity.
Qed.

Lemma el_he_facts : forall x, x < N ->
  (e_next d x < N /\ e_prev d x < N /\ e_face d x < length (d_faces d) /\ e_origin d x < V) /\
  (e_prev d (e_next d x) = x /\ e_next d (e_prev d x) = x /\
   e_face d (e_next d x) = e_face d x /\
   e_origin d (e_next d x) = e_origin d (rev x) /\
   e_origin d x <> e_origin d (rev x)).
Proof. exact (DW_he d HW). Qed.

Lemma el_ctx : o < N /\ rev o < N /\ N = 2 * length (d_flags d) /\ rev o <> o /\ rev (rev o) = o /\
  e_origin d o = vtx /\ vtx < V /\ e_face d (rev o) = 0.
Proof.
  assert (Hvtx : vtx < V).
  { destruct (Nat.ltb_spec vtx V) as [H|H]; [exact H|]. rewrite (v_out_edge_ge d vtx H) in Hout. discriminate. }
  destruct (DW_vout d HW vtx o Hvtx Hout) as (Ho & Hoo). fold N in Ho.
  pose proof (DW_rev_lt d HW o Ho) as Hi. pose proof (DW_even d HW) as Hev.
  repeat split; try assumption.
  - destruct (rev_cases o) as [k [[H1 H2]|[H1 H2]]]; lia.
  - apply rev_involutive.
  - destruct (el_he_facts (rev o) Hi) as (_ & _ & _ & Hf & _). rewrite Hend in Hf. congruence.
Qed.

Lemma el_half_edge : forall x, half_edge d' x = el_he x.
Proof.
  intro x. unfold d'. rewrite el_unfold. cbn [fst].
  destruct el_ctx as (Ho & Hi & Hev & Hio & _). fold N in Hev.
  raw_simp. unfold el_he. fold N. rewrite <- Hev.
  repeat (case_if; try lia); try (subst x); he_leaf.
Qed.

Lemma el_len : length (d_hedges d') = N + 2.
Proof. unfold d'. rewrite el_unfold. cbn [fst]. raw_simp. reflexivity. Qed.
Lemma el_verts : d_verts d' = d_verts d ++ [mkv (vd_x v) (vd_y v) (vd_d v) (Some N)].
Proof. unfold d'. rewrite el_unfold. cbn [fst]. raw_simp. destruct el_ctx as (_ & _ & -> & _). reflexivity. Qed.
Lemma el_faces : d_faces d' = d_faces d.
Proof. unfold d'. rewrite el_unfold. cbn [fst]. raw_simp. reflexivity. Qed.
Lemma el_flags : d_flags d' = d_flags d ++ [false].
Proof. unfold d'. rewrite el_unfold. cbn [fst]. raw_simp. reflexivity. Qed.

Lemma el_next : forall x, e_next d' x =
  if x <? N then (if x =? rev o then N + 1 else e_next d x) else if x =? N then o else if x =? N + 1 then N else 0.
Proof. intro x. unfold e_next at 1. rewrite el_half_edge. unfold el_he. repeat case_if; reflexivity. Qed.
Lemma el_prev : forall x, e_prev d' x =
  if x <? N then (if x =? o then N else e_prev d x) else if x =? N then N + 1 else if x =? N + 1 then rev o else 0.
Proof. intro x. unfold e_prev at 1. rewrite el_half_edge. unfold el_he. repeat case_if; reflexivity. Qed.
Lemma el_face : forall x, e_face d' x = if x <? N then e_face d x else 0.
Proof. intro x. unfold e_face at 1. rewrite el_half_edge. unfold el_he. rewrite Hface. repeat case_if; reflexivity. Qed.
Lemma el_org : forall x, e_origin d' x =
  if x <? N then e_origin d x else if x =? N then V else if x =? N + 1 then vtx else 0.
Proof. intro x. unfold e_origin at 1. rewrite el_half_edge. unfold el_he. repeat case_if; reflexivity. Qed.

Lemma el_vout : forall v0, v_out_edge d' v0 = if v0 <? V then v_out_edge d v0 else if v0 =? V then Some N else None.
Proof. intro v0. unfold v_out_edge at 1. rewrite el_verts, nth_push1. fold V. repeat case_if; reflexivity. Qed.

Lemma el_adj : forall f, f_adjacent d' f = f_adjacent d f.
Proof. intro f. unfold f_adjacent. rewrite el_faces. reflexivity. Qed.

Ltac el_rw :=
  match goal with
  | |- context [e_next d' ?t] => lazymatch t with context [d'] => fail | _ => rewrite (el_next t) end
  | |- context [e_prev d' ?t] => lazymatch t with context [d'] => fail | _ => rewrite (el_prev t) end
  | |- context [e_face d' ?t] => lazymatch t with context [d'] => fail | _ => rewrite (el_face t) end
  | |- context [e_origin d' ?t] => lazymatch t with context [d'] => fail | _ => rewrite (el_org t) end
  end.

Ltac el_go := repeat (el_rw; repeat case_if2); prune.

Ltac el_start :=
  destruct el_ctx as (Ho & Hi & Hev & Hio & Hrr & Hoo & Hvtx' & Hfi);
  hef el_he_facts o; hef el_he_facts (rev o); rewrite ?Hrr in *.

Lemma el_links : forall x, x < N + 2 ->
        e_prev d' (e_next d' x) = x /\ e_next d' (e_prev d' x) = x /\
        e_face d' (e_next d' x) = e_face d' x /\
        e_origin d' (e_next d' x) = e_origin d' (rev x) /\
        e_origin d' x <> e_origin d' (rev x).
Proof.
  intros x Hx. el_start.
  destruct (rev_cases x) as [k [[K1 K2]|[K1 K2]]].
  all: destruct (Nat.ltb_spec x N) as [Hlt|Hge]; [hef el_he_facts x | ].
  all: repeat split.
  all: el_go.
Qed.

Lemma el_ranges : forall x, x < N + 2 ->
  e_next d' x < N + 2 /\ e_prev d' x < N + 2 /\ e_face d' x < length (d_faces d) /\ e_origin d' x < V + 1.
Proof.
  intros x Hx. el_start.
  destruct (Nat.ltb_spec x N) as [Hlt|Hge]; [hef el_he_facts x | ].
  all: repeat split.
  all: el_go.
Qed.

Lemma el_triangles : forall x, x < N + 2 -> e_face d' x <> 0 ->
  e_next d' (e_next d' (e_next d' x)) = x /\
  exists a, f_adjacent d' (e_face d' x) = Some a /\ (x = a \/ x = e_next d' a \/ x = e_next d' (e_next d' a)).
Proof.
  intros x Hx. el_start. destruct (Nat.ltb_spec x N) as [Hlt|Hge].
  2:{ rewrite el_face, (proj2 (Nat.ltb_ge x N)) by lia. congruence. }
  rewrite (el_face x), (proj2 (Nat.ltb_lt x N)) by lia. intro Hfx.
  apply (tri_frame d d' HW); try assumption; [|apply el_adj].
  intros y Hy Hfy. fold N in Hy. rewrite el_next. repeat case_if2; try reflexivity.
Qed.

Lemma el_DW : DW d'.
Proof.
  pose proof HW as HW0. destruct HW0 as ((C1 & C2) & _).
  destruct el_ctx as (Ho & Hi & Hev & Hio & Hrr & Hoo & Hvtx' & Hfi).
  unfold DW. rewrite el_len, el_verts, el_faces, el_flags, !app_length. cbn [length]. fold N V.
  split; [|split; [split; [|split]|split; [|split; [|split]]]].
  - fold N in C1. lia.
  - intros x Hx. replace (V + 1) with (V + 1) by lia. apply el_ranges. exact Hx.
  - intros v0 Hv0 a. rewrite el_vout. repeat case_if2.
    + intro Ha. destruct (DW_vout d HW v0 a ltac:(assumption) Ha) as (Ha' & _). fold N in Ha'. lia.
    + intro Ha. inversion Ha. lia.
  - intros f Hf a. rewrite el_adj. intro Ha. destruct (DW_adj d HW f a Hf Ha) as (Ha' & _). fold N in Ha'. lia.
  - exact el_links.
  - intros f Hf. rewrite el_adj. destruct (f_adjacent d f) as [a|] eqn:Ha.
    + destruct (DW_adj d HW f a Hf Ha) as (Ha' & Hfa). fold N in Ha'. el_go.
    + destruct HW as (_ & _ & _ & FP & _). specialize (FP f Hf). rewrite Ha in FP. fold N in FP. lia.
  - intros v0 Hv0. rewrite el_vout. repeat case_if2.
    + destruct (v_out_edge d v0) as [a|] eqn:Ha.
      * destruct (DW_vout d HW v0 a ltac:(assumption) Ha) as (Ha' & Hfa). fold N in Ha'. el_go.
      * destruct HW as (_ & _ & _ & _ & VP & _). specialize (VP v0 ltac:(assumption)). rewrite Ha in VP. fold N in VP. lia.
    + el_go.
  - exact el_triangles.
Qed.

Lemma el_outer_count : outer_count d' = outer_count d + 2.
Proof.
  rewrite !outer_count_cnt, el_len. fold N. replace (N + 2) with (S (S N)) by lia. rewrite !cnt_S.
  rewrite (cnt_ext (fun e => e_face d' e =? 0) (fun e => e_face d e =? 0) N).
  2:{ intros x Hx. rewrite el_face. rewrite (proj2 (Nat.ltb_lt x N)) by lia. reflexivity. }
  rewrite !el_face. rewrite !(proj2 (Nat.ltb_ge _ N)) by lia. cbn [Nat.eqb]. lia.
Qed.

End ExtendLine.

Theorem extend_line_wf : forall d vtx v o,
  DWf d -> v_out_edge d vtx = Some o -> e_next d (rev o) = o -> outer d o ->
  let r := extend_line d vtx v in
  let d' := fst r in
  let N := length (d_hedges d) in
  DWf d' /\
  (Raw.num_vertices d' = S (Raw.num_vertices d) /\ Raw.num_undirected_edges d' = S (Raw.num_undirected_edges d) /\
   Raw.num_faces d' = Raw.num_faces d /\ length (d_hedges d') = N + 2) /\
  (snd r = Raw.num_vertices d /\
   d_verts d' = d_verts d ++ [mkv (vd_x v) (vd_y v) (vd_d v) (Some N)] /\
   d_faces d' = d_faces d /\
   d_flags d' = d_flags d ++ repeat false 1) /\
  ((forall x, x < N -> e_face d' x = e_face d x) /\ e_face d' N = 0 /\ e_face d' (N + 1) = 0 /\
   outer_count d' = outer_count d + 2).
Proof.
  intros d vtx v o HW Hout Hend Hface. apply DWf_iff in HW. unfold outer in Hface.
  cbv zeta. split; [|split; [|split]].
  - apply DWf_iff. apply (el_DW d vtx v o); assumption.
  - unfold Raw.num_vertices, Raw.num_undirected_edges, Raw.num_faces.
    rewrite (el_len d vtx v o), (el_verts d vtx v o), (el_faces d vtx v o), (el_flags d vtx v o), !app_length by assumption.
    cbn [length]. repeat split; lia.
  - repeat split.
    + rewrite (el_unfold d vtx v o) by assumption. reflexivity.
    + apply (el_verts d vtx v o); assumption.
    + apply (el_faces d vtx v o); assumption.
    + apply (el_flags d vtx v o); assumption.
  - repeat split.
    + intros x Hx. rewrite (el_face d vtx v o) by assumption. rewrite (proj2 (Nat.ltb_lt _ _)) by lia. reflexivity.
    + rewrite (el_face d vtx v o) by assumption. rewrite (proj2 (Nat.ltb_ge _ _)) by lia. reflexivity.
    + rewrite (el_face d vtx v o) by assumption. rewrite (proj2 (Nat.ltb_ge _ _)) by lia. reflexivity.
    + apply (el_outer_count d vtx v o); assumption.
Qed.
