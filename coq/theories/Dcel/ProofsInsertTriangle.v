(* Dcel/ProofsInsertTriangle.v -- insert_into_triangle (Gen/DcelOps.v, generated from
   dcel_operations.rs) preserves link-level well-formedness, with exact count deltas (C02). *)
(* ROBUSTNESS AGAINST REORDERINGS OF THE GENERATED CODE.  The result is described by the closed form itt_result and
   its pointwise lemmas R_*; the only contact with the generated chain of writes is itt_closed_form, proved by
   extensionality (Dcel/Chain.v: ch_dcel_ext, ch_hedges_ext) with both sides read entry by entry -- the generated
   side by ch_read, which peels the writes off in whatever order they come. *)
From Coq Require Import ZArith List Bool Arith Lia.
From SpadeV Require Import Obs.State Obs.Spec Obs.SpecProp Vmap.Model Dcel.Raw Dcel.Chain Dcel.WfCore Gen.DcelOps.
Import ListNotations.

(* ------------------------------------------------------------------------------------------ *)
(* list lemmas: set_nth *)

Lemma set_nth_length : forall {A} i (x : A) l, length (set_nth i x l) = length l.
Proof.
  intros A i x l. revert i. induction l as [|h t IH]; intros [|i]; cbn [set_nth length]; auto.
Qed.

Lemma nth_set_nth_eq : forall {A} i (x : A) l dd, i < length l -> nth i (set_nth i x l) dd = x.
Proof.
  intros A i x l dd. revert i. induction l as [|h t IH]; intros [|i] Hi; cbn [set_nth length nth] in *;
    try lia; auto. apply IH. lia.
Qed.

Lemma nth_set_nth_neq : forall {A} i j (x : A) l dd, i <> j -> nth j (set_nth i x l) dd = nth j l dd.
Proof.
  intros A i j x l dd. revert i j. induction l as [|h t IH]; intros [|i] [|j] Hij; cbn [set_nth nth];
    try congruence; auto.
Qed.

(* ------------------------------------------------------------------------------------------ *)
(* rev on even-sized tables *)

Lemma even_double : forall k, Nat.even (2 * k) = true.
Proof. intro k. apply Nat.even_spec. exists k. reflexivity. Qed.

Lemma rev_even : forall k, rev (2 * k) = 2 * k + 1.
Proof. intro k. unfold rev. rewrite even_double. lia. Qed.

Lemma rev_odd : forall k, rev (2 * k + 1) = 2 * k.
Proof.
  intro k. unfold rev. replace (2 * k + 1) with (S (2 * k)) by lia.
  rewrite Nat.even_succ. rewrite <- Nat.negb_even. rewrite even_double. cbn [negb Nat.pred]. reflexivity.
Qed.

Lemma rev_lt : forall k x, x < 2 * k -> rev x < 2 * k.
Proof.
  intros k x Hx. destruct (Nat.even x) eqn:E.
  - apply Nat.even_spec in E. destruct E as [m Hm]. subst x. rewrite rev_even. lia.
  - unfold rev. rewrite E. lia.
Qed.

(* ------------------------------------------------------------------------------------------ *)
(* DWf through the raw accessors *)

Definition DWf' (d : dcel) : Prop :=
  (length (d_flags d) * 2 = length (d_hedges d) /\ 1 <= length (d_faces d))
  /\ ((forall e, e < length (d_hedges d) ->
         e_next d e < length (d_hedges d) /\ e_prev d e < length (d_hedges d) /\
         e_face d e < length (d_faces d) /\ e_origin d e < length (d_verts d))
      /\ (forall v, v < length (d_verts d) -> forall e, v_out_edge d v = Some e -> e < length (d_hedges d))
      /\ (forall f, f < length (d_faces d) -> forall e, f_adjacent d f = Some e -> e < length (d_hedges d)))
  /\ (forall e, e < length (d_hedges d) ->
        e_prev d (e_next d e) = e /\ e_next d (e_prev d e) = e /\
        e_face d (e_next d e) = e_face d e /\
        e_origin d (e_next d e) = e_to d e /\
        e_origin d e <> e_to d e)
  /\ (forall f, f < length (d_faces d) ->
        match f_adjacent d f with
        | Some e => e_face d e = f
        | None => f = 0 /\ length (d_hedges d) = 0
        end)
  /\ (forall v, v < length (d_verts d) ->
        match v_out_edge d v with
        | Some e => e_origin d e = v
        | None => length (d_hedges d) = 0
        end)
  /\ (forall e, e < length (d_hedges d) -> e_face d e <> 0 ->
        e_next d (e_next d (e_next d e)) = e /\
        exists a, f_adjacent d (e_face d e) = Some a /\
                  (e = a \/ e = e_next d a \/ e = e_next d (e_next d a))).

Lemma DWf_iff : forall d, DWf d <-> DWf' d.
Proof.
  intro d. unfold DWf, WfCore, DWf'.
  unfold WfCounts, WfRanges, WfLinks, WfFacePtrs, WfVertexPtrs, WfTriangles, HE, opt_below.
  change (nH (obs_of_dcel d)) with (length (d_hedges d)).
  change (nV (obs_of_dcel d)) with (length (d_verts d)).
  change (nF (obs_of_dcel d)) with (length (d_faces d)).
  change (o_nv (obs_of_dcel d)) with (length (d_verts d)).
  change (o_ne (obs_of_dcel d)) with (length (d_flags d)).
  change (o_nf (obs_of_dcel d)) with (length (d_faces d)).
  change (o_flags (obs_of_dcel d)) with (d_flags d).
  change (next (obs_of_dcel d)) with (e_next d).
  change (prev (obs_of_dcel d)) with (e_prev d).
  change (face (obs_of_dcel d)) with (e_face d).
  change (org (obs_of_dcel d)) with (e_origin d).
  change (dest (obs_of_dcel d)) with (e_to d).
  change (adj (obs_of_dcel d)) with (f_adjacent d).
  change (vout (obs_of_dcel d)) with (v_out_edge d).
  tauto.
Qed.

(* ------------------------------------------------------------------------------------------ *)
Lemma hrec_eta : forall h, h = mkh (h_next h) (h_prev h) (h_face h) (h_org h).
Proof. intros [a b c o]. reflexivity. Qed.

(* ------------------------------------------------------------------------------------------ *)
(* closed form of the result *)

Section Closed.
Variable d : dcel.
Variable v : vdata.
Variable f0 e0 : nat.

Let n := length (d_hedges d).
Let e1 := e_next d e0.
Let e2 := e_next d e1.
Let nf := length (d_faces d).
Let nv := length (d_verts d).

Definition itt_hedges : list hrec :=
  set_nth e2 (mkh (n + 4) (n + 3) (nf + 1) (e_origin d e2))
    (set_nth e1 (mkh (n + 2) (n + 1) nf (e_origin d e1))
       (set_nth e0 (mkh n (n + 5) (e_face d e0) (e_origin d e0)) (d_hedges d)))
  ++ [mkh (n + 5) e0 f0 (e_origin d e1); mkh e1 (n + 2) nf nv;
      mkh (n + 1) e1 nf (e_origin d e2); mkh e2 (n + 4) (nf + 1) nv;
      mkh (n + 3) e2 (nf + 1) (e_origin d e0); mkh e0 n f0 nv].

Definition itt_result : dcel :=
  mkdcel (d_verts d ++ [mkv (vd_x v) (vd_y v) (vd_d v) (Some (n + 1))])
         itt_hedges
         (d_faces d ++ [Some e1; Some e2])
         (d_flags d ++ [false; false; false]).

Hypothesis Hadj : f_adjacent d f0 = Some e0.
Hypothesis Heven : length (d_flags d) * 2 = n.
Hypothesis He0 : e0 < n.
Hypothesis He1 : e1 < n.
Hypothesis He2 : e2 < n.
Hypothesis H01 : e0 <> e1.
Hypothesis H02 : e0 <> e2.
Hypothesis H12 : e1 <> e2.

(* pointwise description of the closed form *)
Let R := itt_result.

Lemma R_len : length (d_hedges R) = n + 6.
Proof.
  unfold R, itt_result, itt_hedges. cbn [d_hedges]. rewrite app_length, !set_nth_length.
  cbn [length]. fold n. lia.
Qed.

Lemma R_other : forall x, x < n -> x <> e0 -> x <> e1 -> x <> e2 -> half_edge R x = half_edge d x.
Proof.
  intros x Hx N0 N1 N2. unfold half_edge, R, itt_result, itt_hedges. cbn [d_hedges].
  rewrite app_nth1 by (rewrite !set_nth_length; exact Hx).
  rewrite !nth_set_nth_neq by congruence. reflexivity.
Qed.

Lemma R_e0 : half_edge R e0 = mkh n (n + 5) (e_face d e0) (e_origin d e0).
Proof.
  unfold half_edge, R, itt_result, itt_hedges. cbn [d_hedges].
  rewrite app_nth1 by (rewrite !set_nth_length; exact He0).
  rewrite !nth_set_nth_neq by congruence. apply nth_set_nth_eq. exact He0.
Qed.

Lemma R_e1 : half_edge R e1 = mkh (n + 2) (n + 1) nf (e_origin d e1).
Proof.
  unfold half_edge, R, itt_result, itt_hedges. cbn [d_hedges].
  rewrite app_nth1 by (rewrite !set_nth_length; exact He1).
  rewrite !nth_set_nth_neq by congruence. apply nth_set_nth_eq. rewrite set_nth_length. exact He1.
Qed.

Lemma R_e2 : half_edge R e2 = mkh (n + 4) (n + 3) (nf + 1) (e_origin d e2).
Proof.
  unfold half_edge, R, itt_result, itt_hedges. cbn [d_hedges].
  rewrite app_nth1 by (rewrite !set_nth_length; exact He2).
  apply nth_set_nth_eq. rewrite !set_nth_length. exact He2.
Qed.

Lemma R_new : forall i, i < 6 ->
  half_edge R (n + i) =
  nth i [mkh (n + 5) e0 f0 (e_origin d e1); mkh e1 (n + 2) nf nv;
         mkh (n + 1) e1 nf (e_origin d e2); mkh e2 (n + 4) (nf + 1) nv;
         mkh (n + 3) e2 (nf + 1) (e_origin d e0); mkh e0 n f0 nv] dflt_h.
Proof.
  intros i Hi. unfold half_edge, R, itt_result, itt_hedges. cbn [d_hedges].
  rewrite app_nth2 by (rewrite !set_nth_length; fold n; lia).
  rewrite !set_nth_length. fold n. replace (n + i - n) with i by lia. reflexivity.
Qed.

Lemma R_n0 : half_edge R n = mkh (n + 5) e0 f0 (e_origin d e1).
Proof. replace n with (n + 0) at 1 by lia. rewrite R_new by lia. reflexivity. Qed.
Lemma R_n1 : half_edge R (n + 1) = mkh e1 (n + 2) nf nv.
Proof. rewrite R_new by lia. reflexivity. Qed.
Lemma R_n2 : half_edge R (n + 2) = mkh (n + 1) e1 nf (e_origin d e2).
Proof. rewrite R_new by lia. reflexivity. Qed.
Lemma R_n3 : half_edge R (n + 3) = mkh e2 (n + 4) (nf + 1) nv.
Proof. rewrite R_new by lia. reflexivity. Qed.
Lemma R_n4 : half_edge R (n + 4) = mkh (n + 3) e2 (nf + 1) (e_origin d e0).
Proof. rewrite R_new by lia. reflexivity. Qed.
Lemma R_n5 : half_edge R (n + 5) = mkh e0 n f0 nv.
Proof. rewrite R_new by lia. reflexivity. Qed.

Lemma R_org_old : forall x, x < n -> e_origin R x = e_origin d x.
Proof.
  intros x Hx. unfold e_origin.
  destruct (Nat.eq_dec x e0) as [->|N0]; [rewrite R_e0; reflexivity|].
  destruct (Nat.eq_dec x e1) as [->|N1]; [rewrite R_e1; reflexivity|].
  destruct (Nat.eq_dec x e2) as [->|N2]; [rewrite R_e2; reflexivity|].
  rewrite R_other by assumption. reflexivity.
Qed.

Lemma n_double : n = 2 * length (d_flags d).
Proof. lia. Qed.

Lemma rev_old : forall x, x < n -> e_rev x < n.
Proof. intros x Hx. unfold e_rev. rewrite n_double in *. apply rev_lt. exact Hx. Qed.

Lemma R_to_old : forall x, x < n -> e_to R x = e_to d x.
Proof. intros x Hx. unfold e_to. apply R_org_old. apply rev_old. exact Hx. Qed.

Lemma rev_n0 : e_rev n = n + 1.
Proof. unfold e_rev. rewrite n_double. apply rev_even. Qed.
Lemma rev_n1 : e_rev (n + 1) = n.
Proof. unfold e_rev. rewrite n_double. apply rev_odd. Qed.
Lemma rev_n2 : e_rev (n + 2) = n + 3.
Proof.
  unfold e_rev. rewrite n_double. replace (2 * length (d_flags d) + 2) with (2 * (length (d_flags d) + 1)) by lia.
  rewrite rev_even. lia.
Qed.
Lemma rev_n3 : e_rev (n + 3) = n + 2.
Proof.
  unfold e_rev. rewrite n_double. replace (2 * length (d_flags d) + 3) with (2 * (length (d_flags d) + 1) + 1) by lia.
  rewrite rev_odd. lia.
Qed.
Lemma rev_n4 : e_rev (n + 4) = n + 5.
Proof.
  unfold e_rev. rewrite n_double. replace (2 * length (d_flags d) + 4) with (2 * (length (d_flags d) + 2)) by lia.
  rewrite rev_even. lia.
Qed.
Lemma rev_n5 : e_rev (n + 5) = n + 4.
Proof.
  unfold e_rev. rewrite n_double. replace (2 * length (d_flags d) + 5) with (2 * (length (d_flags d) + 2) + 1) by lia.
  rewrite rev_odd. lia.
Qed.

Lemma R_adj_old : forall f, f < nf -> f_adjacent R f = f_adjacent d f.
Proof. intros f Hf. unfold f_adjacent, R, itt_result. cbn [d_faces]. apply app_nth1. exact Hf. Qed.
Lemma R_adj_n0 : f_adjacent R nf = Some e1.
Proof.
  unfold f_adjacent, R, itt_result. cbn [d_faces]. rewrite app_nth2 by (fold nf; lia).
  fold nf. rewrite Nat.sub_diag. reflexivity.
Qed.
Lemma R_adj_n1 : f_adjacent R (nf + 1) = Some e2.
Proof.
  unfold f_adjacent, R, itt_result. cbn [d_faces]. rewrite app_nth2 by (fold nf; lia).
  fold nf. replace (nf + 1 - nf) with 1 by lia. reflexivity.
Qed.
Lemma R_vout_old : forall u, u < nv -> nth u (d_verts R) dflt_v = nth u (d_verts d) dflt_v.
Proof. intros u Hu. unfold R, itt_result. cbn [d_verts]. apply app_nth1. exact Hu. Qed.
Lemma R_vert_new : nth nv (d_verts R) dflt_v = mkv (vd_x v) (vd_y v) (vd_d v) (Some (n + 1)).
Proof.
  unfold R, itt_result. cbn [d_verts]. rewrite app_nth2 by (fold nv; lia).
  fold nv. rewrite Nat.sub_diag. reflexivity.
Qed.

(* accessor-level values at the nine touched / new half-edges *)
Lemma nx_e0 : e_next R e0 = n.
Proof. unfold e_next. rewrite R_e0. reflexivity. Qed.
Lemma pv_e0 : e_prev R e0 = n + 5.
Proof. unfold e_prev. rewrite R_e0. reflexivity. Qed.
Lemma fc_e0 : e_face R e0 = e_face d e0.
Proof. unfold e_face. rewrite R_e0. reflexivity. Qed.
Lemma og_e0 : e_origin R e0 = e_origin d e0.
Proof. unfold e_origin. rewrite R_e0. reflexivity. Qed.
Lemma nx_e1 : e_next R e1 = n + 2.
Proof. unfold e_next. rewrite R_e1. reflexivity. Qed.
Lemma pv_e1 : e_prev R e1 = n + 1.
Proof. unfold e_prev. rewrite R_e1. reflexivity. Qed.
Lemma fc_e1 : e_face R e1 = nf.
Proof. unfold e_face. rewrite R_e1. reflexivity. Qed.
Lemma og_e1 : e_origin R e1 = e_origin d e1.
Proof. unfold e_origin. rewrite R_e1. reflexivity. Qed.
Lemma nx_e2 : e_next R e2 = n + 4.
Proof. unfold e_next. rewrite R_e2. reflexivity. Qed.
Lemma pv_e2 : e_prev R e2 = n + 3.
Proof. unfold e_prev. rewrite R_e2. reflexivity. Qed.
Lemma fc_e2 : e_face R e2 = nf + 1.
Proof. unfold e_face. rewrite R_e2. reflexivity. Qed.
Lemma og_e2 : e_origin R e2 = e_origin d e2.
Proof. unfold e_origin. rewrite R_e2. reflexivity. Qed.
Lemma nx_n0 : e_next R n = n + 5.
Proof. unfold e_next. rewrite R_n0. reflexivity. Qed.
Lemma pv_n0 : e_prev R n = e0.
Proof. unfold e_prev. rewrite R_n0. reflexivity. Qed.
Lemma fc_n0 : e_face R n = f0.
Proof. unfold e_face. rewrite R_n0. reflexivity. Qed.
Lemma og_n0 : e_origin R n = e_origin d e1.
Proof. unfold e_origin. rewrite R_n0. reflexivity. Qed.
Lemma nx_n1 : e_next R (n + 1) = e1.
Proof. unfold e_next. rewrite R_n1. reflexivity. Qed.
Lemma pv_n1 : e_prev R (n + 1) = n + 2.
Proof. unfold e_prev. rewrite R_n1. reflexivity. Qed.
Lemma fc_n1 : e_face R (n + 1) = nf.
Proof. unfold e_face. rewrite R_n1. reflexivity. Qed.
Lemma og_n1 : e_origin R (n + 1) = nv.
Proof. unfold e_origin. rewrite R_n1. reflexivity. Qed.
Lemma nx_n2 : e_next R (n + 2) = n + 1.
Proof. unfold e_next. rewrite R_n2. reflexivity. Qed.
Lemma pv_n2 : e_prev R (n + 2) = e1.
Proof. unfold e_prev. rewrite R_n2. reflexivity. Qed.
Lemma fc_n2 : e_face R (n + 2) = nf.
Proof. unfold e_face. rewrite R_n2. reflexivity. Qed.
Lemma og_n2 : e_origin R (n + 2) = e_origin d e2.
Proof. unfold e_origin. rewrite R_n2. reflexivity. Qed.
Lemma nx_n3 : e_next R (n + 3) = e2.
Proof. unfold e_next. rewrite R_n3. reflexivity. Qed.
Lemma pv_n3 : e_prev R (n + 3) = n + 4.
Proof. unfold e_prev. rewrite R_n3. reflexivity. Qed.
Lemma fc_n3 : e_face R (n + 3) = nf + 1.
Proof. unfold e_face. rewrite R_n3. reflexivity. Qed.
Lemma og_n3 : e_origin R (n + 3) = nv.
Proof. unfold e_origin. rewrite R_n3. reflexivity. Qed.
Lemma nx_n4 : e_next R (n + 4) = n + 3.
Proof. unfold e_next. rewrite R_n4. reflexivity. Qed.
Lemma pv_n4 : e_prev R (n + 4) = e2.
Proof. unfold e_prev. rewrite R_n4. reflexivity. Qed.
Lemma fc_n4 : e_face R (n + 4) = nf + 1.
Proof. unfold e_face. rewrite R_n4. reflexivity. Qed.
Lemma og_n4 : e_origin R (n + 4) = e_origin d e0.
Proof. unfold e_origin. rewrite R_n4. reflexivity. Qed.
Lemma nx_n5 : e_next R (n + 5) = e0.
Proof. unfold e_next. rewrite R_n5. reflexivity. Qed.
Lemma pv_n5 : e_prev R (n + 5) = n.
Proof. unfold e_prev. rewrite R_n5. reflexivity. Qed.
Lemma fc_n5 : e_face R (n + 5) = f0.
Proof. unfold e_face. rewrite R_n5. reflexivity. Qed.
Lemma og_n5 : e_origin R (n + 5) = nv.
Proof. unfold e_origin. rewrite R_n5. reflexivity. Qed.
Hint Rewrite nx_e0 pv_e0 fc_e0 og_e0 nx_e1 pv_e1 fc_e1 og_e1 nx_e2 pv_e2 fc_e2 og_e2 nx_n0 pv_n0 fc_n0 og_n0 nx_n1 pv_n1 fc_n1 og_n1 nx_n2 pv_n2 fc_n2 og_n2 nx_n3 pv_n3 fc_n3 og_n3 nx_n4 pv_n4 fc_n4 og_n4 nx_n5 pv_n5 fc_n5 og_n5 rev_n0 rev_n1 rev_n2 rev_n3 rev_n4 rev_n5 : itt.

Lemma nx_other : forall x, x < n -> x <> e0 -> x <> e1 -> x <> e2 -> e_next R x = e_next d x.
Proof. intros. unfold e_next. rewrite R_other by assumption. reflexivity. Qed.
Lemma pv_other : forall x, x < n -> x <> e0 -> x <> e1 -> x <> e2 -> e_prev R x = e_prev d x.
Proof. intros. unfold e_prev. rewrite R_other by assumption. reflexivity. Qed.
Lemma fc_other : forall x, x < n -> x <> e0 -> x <> e1 -> x <> e2 -> e_face R x = e_face d x.
Proof. intros. unfold e_face. rewrite R_other by assumption. reflexivity. Qed.

Lemma R_vlen : length (d_verts R) = nv + 1.
Proof. unfold R, itt_result. cbn [d_verts]. rewrite app_length. reflexivity. Qed.
Lemma R_flen : length (d_faces R) = nf + 2.
Proof. unfold R, itt_result. cbn [d_faces]. rewrite app_length. reflexivity. Qed.
Lemma R_fllen : length (d_flags R) = length (d_flags d) + 3.
Proof. unfold R, itt_result. cbn [d_flags]. rewrite app_length. reflexivity. Qed.

Lemma he_cases : forall x, x < n + 6 ->
  x = e0 \/ x = e1 \/ x = e2 \/ (x < n /\ x <> e0 /\ x <> e1 /\ x <> e2) \/
  x = n \/ x = n + 1 \/ x = n + 2 \/ x = n + 3 \/ x = n + 4 \/ x = n + 5.
Proof. intros x Hx. lia. Qed.

(* The generated function computes exactly the closed form.  The proof does NOT depend on the order of the
   statements of the generated chain: the two dcels are compared table by table, and the half-edge table entry
   by entry (ch_hedges_ext); the entry of the closed form is given by R_e0 ... R_n5 / R_other above, the entry
   of the generated chain is evaluated by ch_read (Dcel/Chain.v), which peels the writes off in any order. *)
Lemma itt_closed_form : insert_into_triangle d v f0 = (itt_result, nv).
Proof using Hadj Heven He0 He1 He2 H01 H02 H12.
  assert (E3 : normalized (num_undirected_edges d) = n)
    by (unfold normalized, num_undirected_edges; lia).
  assert (E5 : normalized (num_undirected_edges d + 1) = n + 2)
    by (unfold normalized, num_undirected_edges; lia).
  assert (E7 : normalized (num_undirected_edges d + 2) = n + 4)
    by (unfold normalized, num_undirected_edges; lia).
  assert (E4 : e_rev n = n + 1).
  { unfold e_rev. rewrite <- Heven. rewrite (Nat.mul_comm _ 2). apply rev_even. }
  assert (E6 : e_rev (n + 2) = n + 3).
  { unfold e_rev. rewrite <- Heven. replace (length (d_flags d) * 2 + 2) with (2 * (length (d_flags d) + 1)) by lia.
    rewrite rev_even. lia. }
  assert (E8 : e_rev (n + 4) = n + 5).
  { unfold e_rev. rewrite <- Heven. replace (length (d_flags d) * 2 + 4) with (2 * (length (d_flags d) + 2)) by lia.
    rewrite rev_even. lia. }
  assert (Hn : n = length (d_hedges d)) by reflexivity.
  assert (Hnf : nf = length (d_faces d)) by reflexivity.
  assert (Hnv : nv = length (d_verts d)) by reflexivity.
  unfold insert_into_triangle. rewrite Hadj. unfold prim_panic.
  cbv zeta.
  rewrite E3, E5, E7, E4, E6, E8.
  change (h_next (half_edge d e0)) with e1.
  change (h_next (half_edge d e1)) with e2.
  change (num_faces d) with nf. change (num_vertices d) with nv.
  cbn [fst snd].
  apply ch_pair_eq; [|reflexivity].
  apply ch_dcel_ext.
  - (* vertices: one push *)
    ch_tables. reflexivity.
  - (* half-edges: entry by entry *)
    apply ch_hedges_ext.
    + fold R. rewrite R_len. ch_len. lia.
    + intros x Hx. fold R in Hx |- *. rewrite R_len in Hx.
      destruct (he_cases x Hx) as [->|[->|[->|[(Hxn&N0&N1&N2)|[->|[->|[->|[->|[->| ->]]]]]]]]].
      * rewrite R_e0. ch_fields; ch_read; reflexivity.
      * rewrite R_e1. ch_fields; ch_read; reflexivity.
      * rewrite R_e2. ch_fields; ch_read; reflexivity.
      * rewrite R_other by assumption. ch_read. reflexivity.
      * rewrite R_n0. ch_fields; ch_read; reflexivity.
      * rewrite R_n1. ch_fields; ch_read; reflexivity.
      * rewrite R_n2. ch_fields; ch_read; reflexivity.
      * rewrite R_n3. ch_fields; ch_read; reflexivity.
      * rewrite R_n4. ch_fields; ch_read; reflexivity.
      * rewrite R_n5. ch_fields; ch_read; reflexivity.
  - (* faces: two pushes *)
    ch_tables. rewrite <- !app_assoc. reflexivity.
  - (* flags: three pushes *)
    ch_tables. rewrite <- !app_assoc. reflexivity.
Qed.

(* ------------------------------------------------------------------------------------------ *)
(* well-formedness of the input, and the facts about the triangle e0 e1 e2 that follow from it *)

Hypothesis W : DWf' d.
Hypothesis Hface0 : e_face d e0 = f0.
Hypothesis Hf0 : f0 <> 0.

Lemma W_rng : forall e, e < n ->
  e_next d e < n /\ e_prev d e < n /\ e_face d e < nf /\ e_origin d e < nv.
Proof. exact (proj1 (proj1 (proj2 W))). Qed.
Lemma W_vr : forall u, u < nv -> forall e, v_out_edge d u = Some e -> e < n.
Proof. exact (proj1 (proj2 (proj1 (proj2 W)))). Qed.
Lemma W_fr : forall f, f < nf -> forall e, f_adjacent d f = Some e -> e < n.
Proof. exact (proj2 (proj2 (proj1 (proj2 W)))). Qed.
Lemma W_lnk : forall e, e < n ->
  e_prev d (e_next d e) = e /\ e_next d (e_prev d e) = e /\
  e_face d (e_next d e) = e_face d e /\ e_origin d (e_next d e) = e_to d e /\
  e_origin d e <> e_to d e.
Proof. exact (proj1 (proj2 (proj2 W))). Qed.
Lemma W_fp : forall f, f < nf ->
  match f_adjacent d f with Some e => e_face d e = f | None => f = 0 /\ n = 0 end.
Proof. exact (proj1 (proj2 (proj2 (proj2 W)))). Qed.
Lemma W_vp : forall u, u < nv ->
  match v_out_edge d u with Some e => e_origin d e = u | None => n = 0 end.
Proof. exact (proj1 (proj2 (proj2 (proj2 (proj2 W))))). Qed.
Lemma W_tri : forall e, e < n -> e_face d e <> 0 ->
  e_next d (e_next d (e_next d e)) = e /\
  exists a, f_adjacent d (e_face d e) = Some a /\ (e = a \/ e = e_next d a \/ e = e_next d (e_next d a)).
Proof. exact (proj2 (proj2 (proj2 (proj2 (proj2 W))))). Qed.
Lemma W_nf : 1 <= nf.
Proof. exact (proj2 (proj1 W)). Qed.

Lemma T_next2 : e_next d e2 = e0.
Proof. apply W_tri; [exact He0 | rewrite Hface0; exact Hf0]. Qed.
Lemma T_prev1 : e_prev d e1 = e0.
Proof. apply (W_lnk e0 He0). Qed.
Lemma T_prev2 : e_prev d e2 = e1.
Proof. apply (W_lnk e1 He1). Qed.
Lemma T_prev0 : e_prev d e0 = e2.
Proof. rewrite <- T_next2. apply (W_lnk e2 He2). Qed.
Lemma T_face1 : e_face d e1 = f0.
Proof. rewrite <- Hface0. apply (W_lnk e0 He0). Qed.
Lemma T_face2 : e_face d e2 = f0.
Proof. rewrite <- T_face1. apply (W_lnk e1 He1). Qed.
Lemma T_f0 : f0 < nf.
Proof. rewrite <- Hface0. apply (W_rng e0 He0). Qed.

Lemma other_next : forall x, x < n -> x <> e0 -> x <> e1 -> x <> e2 ->
  e_next d x < n /\ e_next d x <> e0 /\ e_next d x <> e1 /\ e_next d x <> e2.
Proof.
  intros x Hx N0 N1 N2. pose proof (W_lnk x Hx) as (P & _).
  pose proof T_prev0. pose proof T_prev1. pose proof T_prev2.
  split; [apply (W_rng x Hx)|]. repeat split; congruence.
Qed.

Lemma other_prev : forall x, x < n -> x <> e0 -> x <> e1 -> x <> e2 ->
  e_prev d x < n /\ e_prev d x <> e0 /\ e_prev d x <> e1 /\ e_prev d x <> e2.
Proof.
  intros x Hx N0 N1 N2. pose proof (W_lnk x Hx) as (_ & P & _).
  pose proof T_next2. fold e1 in P. 
  split; [apply (W_rng x Hx)|]. repeat split; intro E; rewrite E in P; fold e1 e2 in P; congruence.
Qed.

Lemma L0 : e_origin d e1 = e_to d e0 /\ e_origin d e0 <> e_to d e0.
Proof. split; apply (W_lnk e0 He0). Qed.
Lemma L1 : e_origin d e2 = e_to d e1 /\ e_origin d e1 <> e_to d e1.
Proof. split; apply (W_lnk e1 He1). Qed.
Lemma L2 : e_origin d e0 = e_to d e2 /\ e_origin d e2 <> e_to d e2.
Proof. rewrite <- T_next2 at 1. split; apply (W_lnk e2 He2). Qed.
Lemma B0 : e_origin d e0 < nv. Proof. apply (W_rng e0 He0). Qed.
Lemma B1 : e_origin d e1 < nv. Proof. apply (W_rng e1 He1). Qed.
Lemma B2 : e_origin d e2 < nv. Proof. apply (W_rng e2 He2). Qed.

Ltac split_cases x Hx :=
  destruct (he_cases x Hx) as [->|[->|[->|[(Hn&N0&N1&N2)|[->|[->|[->|[->|[->| ->]]]]]]]]].

Ltac facts :=
  pose proof L0 as (?&?); pose proof L1 as (?&?); pose proof L2 as (?&?);
  pose proof B0; pose proof B1; pose proof B2; pose proof T_f0; pose proof W_nf;
  pose proof Hface0; pose proof T_face1; pose proof T_face2.

(* ------------------------------------------------------------------------------------------ *)
(* the clauses of DWf' for the result *)

Lemma R_ranges_he : forall x, x < length (d_hedges R) ->
  e_next R x < length (d_hedges R) /\ e_prev R x < length (d_hedges R) /\
  e_face R x < length (d_faces R) /\ e_origin R x < length (d_verts R).
Proof.
  intros x Hx. rewrite R_len in *. rewrite R_flen, R_vlen. facts.
  split_cases x Hx; autorewrite with itt; try lia.
  rewrite nx_other, pv_other, fc_other, R_org_old by assumption.
  pose proof (W_rng x Hn). lia.
Qed.

Lemma R_ranges_v : forall u, u < length (d_verts R) ->
  forall e, v_out_edge R u = Some e -> e < length (d_hedges R).
Proof.
  intros u Hu e He. rewrite R_len. rewrite R_vlen in Hu. unfold v_out_edge in He.
  assert (C : u < nv \/ u = nv) by lia. destruct C as [C| ->].
  - rewrite R_vout_old in He by exact C. pose proof (W_vr u C e He). lia.
  - rewrite R_vert_new in He. cbn [v_out] in He. inversion He. lia.
Qed.

Lemma R_ranges_f : forall f, f < length (d_faces R) ->
  forall e, f_adjacent R f = Some e -> e < length (d_hedges R).
Proof.
  intros f Hf e He. rewrite R_len. rewrite R_flen in Hf.
  assert (C : f < nf \/ f = nf \/ f = nf + 1) by lia. destruct C as [C|[->| ->]].
  - rewrite R_adj_old in He by exact C. pose proof (W_fr f C e He). lia.
  - rewrite R_adj_n0 in He. inversion He. lia.
  - rewrite R_adj_n1 in He. inversion He. lia.
Qed.

Lemma R_links : forall x, x < length (d_hedges R) ->
  e_prev R (e_next R x) = x /\ e_next R (e_prev R x) = x /\
  e_face R (e_next R x) = e_face R x /\
  e_origin R (e_next R x) = e_to R x /\
  e_origin R x <> e_to R x.
Proof.
  intros x Hx. rewrite R_len in Hx. facts.
  split_cases x Hx.
  - rewrite (R_to_old _ He0). autorewrite with itt. repeat split; congruence.
  - rewrite (R_to_old _ He1). autorewrite with itt. repeat split; congruence.
  - rewrite (R_to_old _ He2). autorewrite with itt. repeat split; congruence.
  - destruct (other_next x Hn N0 N1 N2) as (A0 & A1 & A2 & A3).
    destruct (other_prev x Hn N0 N1 N2) as (C0 & C1 & C2 & C3).
    rewrite (R_to_old _ Hn).
    rewrite (nx_other x), (pv_other x), (fc_other x), (R_org_old x) by assumption.
    rewrite (pv_other (e_next d x)), (nx_other (e_prev d x)), (fc_other (e_next d x)),
            (R_org_old (e_next d x)) by assumption.
    apply (W_lnk x Hn).
  - unfold e_to. autorewrite with itt. repeat split; lia.
  - unfold e_to. autorewrite with itt. repeat split; lia.
  - unfold e_to. autorewrite with itt. repeat split; lia.
  - unfold e_to. autorewrite with itt. repeat split; lia.
  - unfold e_to. autorewrite with itt. repeat split; lia.
  - unfold e_to. autorewrite with itt. repeat split; lia.
Qed.

Lemma R_faceptrs : forall f, f < length (d_faces R) ->
  match f_adjacent R f with
  | Some e => e_face R e = f
  | None => f = 0 /\ length (d_hedges R) = 0
  end.
Proof.
  intros f Hf. rewrite R_flen in Hf. facts.
  assert (C : f < nf \/ f = nf \/ f = nf + 1) by lia. destruct C as [C|[->| ->]].
  - rewrite R_adj_old by exact C. pose proof (W_fp f C) as P. pose proof (W_fr f C) as Q.
    destruct (f_adjacent d f) as [e|] eqn:E.
    + specialize (Q e eq_refl).
      destruct (Nat.eq_dec e e0) as [->|N0]; [autorewrite with itt; exact P|].
      assert (N1 : e <> e1).
      { intros ->. assert (f = f0) by congruence. congruence. }
      assert (N2 : e <> e2).
      { intros ->. assert (f = f0) by congruence. congruence. }
      rewrite fc_other by assumption. exact P.
    + lia.
  - rewrite R_adj_n0. autorewrite with itt. reflexivity.
  - rewrite R_adj_n1. autorewrite with itt. reflexivity.
Qed.

Lemma R_vertptrs : forall u, u < length (d_verts R) ->
  match v_out_edge R u with
  | Some e => e_origin R e = u
  | None => length (d_hedges R) = 0
  end.
Proof.
  intros u Hu. rewrite R_vlen in Hu. unfold v_out_edge.
  assert (C : u < nv \/ u = nv) by lia. destruct C as [C| ->].
  - rewrite R_vout_old by exact C. pose proof (W_vp u C) as P. pose proof (W_vr u C) as Q.
    unfold v_out_edge in P, Q.
    destruct (v_out (nth u (d_verts d) dflt_v)) as [e|].
    + rewrite R_org_old by (apply Q; reflexivity). exact P.
    + lia.
  - rewrite R_vert_new. cbn [v_out]. autorewrite with itt. reflexivity.
Qed.

Lemma R_adj_f0 : f_adjacent R f0 = Some e0.
Proof. rewrite R_adj_old by exact T_f0. exact Hadj. Qed.

Lemma R_triangles : forall x, x < length (d_hedges R) -> e_face R x <> 0 ->
  e_next R (e_next R (e_next R x)) = x /\
  exists a, f_adjacent R (e_face R x) = Some a /\
            (x = a \/ x = e_next R a \/ x = e_next R (e_next R a)).
Proof.
  intros x Hx Hfx. rewrite R_len in Hx. facts.
  split_cases x Hx.
  - autorewrite with itt. split; [reflexivity|]. exists e0. rewrite Hface0, R_adj_f0.
    autorewrite with itt. auto.
  - autorewrite with itt. split; [reflexivity|]. exists e1. rewrite R_adj_n0.
    autorewrite with itt. auto.
  - autorewrite with itt. split; [reflexivity|]. exists e2. rewrite R_adj_n1.
    autorewrite with itt. auto.
  - rewrite fc_other in Hfx by assumption.
    destruct (W_tri x Hn Hfx) as (T3 & a & Ha & Hor).
    destruct (other_next x Hn N0 N1 N2) as (A0 & A1 & A2 & A3).
    destruct (other_next _ A0 A1 A2 A3) as (A0' & A1' & A2' & A3').
    rewrite (nx_other x) by assumption. rewrite (nx_other (e_next d x)) by assumption.
    rewrite (nx_other (e_next d (e_next d x))) by assumption.
    split; [exact T3|].
    pose proof (W_rng x Hn) as (_ & _ & Fx & _).
    assert (Nf : e_face d x <> f0).
    { intro E. rewrite E, Hadj in Ha. inversion Ha; subst a. fold e1 e2 in Hor. tauto. }
    pose proof (W_fr _ Fx a Ha) as Han. pose proof (W_fp _ Fx) as Fa. rewrite Ha in Fa.
    assert (a <> e0 /\ a <> e1 /\ a <> e2) as (M0 & M1 & M2) by (repeat split; congruence).
    destruct (other_next a Han M0 M1 M2) as (G0 & G1 & G2 & G3).
    exists a. rewrite fc_other by assumption. rewrite R_adj_old by exact Fx.
    rewrite (nx_other a) by assumption. rewrite (nx_other (e_next d a)) by assumption.
    split; [exact Ha | exact Hor].
  - autorewrite with itt. split; [reflexivity|]. exists e0. rewrite R_adj_f0.
    autorewrite with itt. auto.
  - autorewrite with itt. split; [reflexivity|]. exists e1. rewrite R_adj_n0.
    autorewrite with itt. auto.
  - autorewrite with itt. split; [reflexivity|]. exists e1. rewrite R_adj_n0.
    autorewrite with itt. auto.
  - autorewrite with itt. split; [reflexivity|]. exists e2. rewrite R_adj_n1.
    autorewrite with itt. auto.
  - autorewrite with itt. split; [reflexivity|]. exists e2. rewrite R_adj_n1.
    autorewrite with itt. auto.
  - autorewrite with itt. split; [reflexivity|]. exists e0. rewrite R_adj_f0.
    autorewrite with itt. auto.
Qed.

Lemma R_wf : DWf' R.
Proof.
  unfold DWf'. split; [|split; [|split; [|split; [|split]]]].
  - rewrite R_fllen, R_len, R_flen. pose proof W_nf. lia.
  - split; [exact R_ranges_he | split; [exact R_ranges_v | exact R_ranges_f]].
  - exact R_links.
  - exact R_faceptrs.
  - exact R_vertptrs.
  - exact R_triangles.
Qed.

Lemma R_face_outer_old : forall x, x < n -> (e_face R x = 0 <-> e_face d x = 0).
Proof.
  intros x Hx. facts.
  destruct (Nat.eq_dec x e0) as [->|N0]; [autorewrite with itt; tauto|].
  destruct (Nat.eq_dec x e1) as [->|N1]; [autorewrite with itt; lia|].
  destruct (Nat.eq_dec x e2) as [->|N2]; [autorewrite with itt; lia|].
  rewrite fc_other by assumption. tauto.
Qed.

Lemma R_face_inner_new : forall x, n <= x -> x < length (d_hedges R) -> e_face R x <> 0.
Proof.
  intros x Hx Hx'. rewrite R_len in Hx'. facts.
  assert (C : x = n \/ x = n + 1 \/ x = n + 2 \/ x = n + 3 \/ x = n + 4 \/ x = n + 5) by lia.
  destruct C as [->|[->|[->|[->|[->| ->]]]]]; autorewrite with itt; lia.
Qed.
End Closed.

(* ------------------------------------------------------------------------------------------ *)
(* facts that follow from DWf, and the main theorem *)

Lemma next_neq_self : forall d e, DWf' d -> e < length (d_hedges d) -> e_next d e <> e.
Proof.
  intros d e W He E. destruct (proj1 (proj2 (proj2 W)) e He) as (_ & _ & _ & A & B).
  rewrite E in A. contradiction.
Qed.

Theorem insert_into_triangle_wf : forall d v f0, DWf d -> 1 <= f0 -> f0 < Raw.num_faces d ->
   let r := DcelOps.insert_into_triangle d v f0 in let d' := fst r in
      DWf d'
   /\ snd r = Raw.num_vertices d
   /\ Raw.num_vertices d' = S (Raw.num_vertices d) /\ Raw.num_undirected_edges d' = Raw.num_undirected_edges d + 3
   /\ Raw.num_faces d' = Raw.num_faces d + 2 /\ length (d_hedges d') = length (d_hedges d) + 6
   /\ d_flags d' = d_flags d ++ [false; false; false]
   /\ (forall u, u < Raw.num_vertices d -> let a := nth u (d_verts d') dflt_v in let b := nth u (d_verts d) dflt_v in
                 v_x a = v_x b /\ v_y a = v_y b /\ v_data a = v_data b)
   /\ (let a := nth (Raw.num_vertices d) (d_verts d') dflt_v in v_x a = vd_x v /\ v_y a = vd_y v /\ v_data a = vd_d v)
   /\ (forall x, x < length (d_hedges d) -> (e_face d' x = 0 <-> e_face d x = 0))
   /\ (forall x, length (d_hedges d) <= x -> x < length (d_hedges d') -> e_face d' x <> 0).
Proof.
  intros d v f0 HW Hf1 Hf2. apply DWf_iff in HW. unfold Raw.num_faces in Hf2.
  pose proof HW as ((Heven & Hnf) & (Rng & _ & FR) & Lnk & FP & _ & Tri).
  pose proof (FP f0 Hf2) as Pf. pose proof (FR f0 Hf2) as Qf.
  destruct (f_adjacent d f0) as [e0|] eqn:Hadj; [|lia].
  specialize (Qf e0 eq_refl).
  assert (Hf0 : f0 <> 0) by lia.
  assert (He1 : e_next d e0 < length (d_hedges d)) by apply (Rng e0 Qf).
  assert (He2 : e_next d (e_next d e0) < length (d_hedges d)) by apply (Rng _ He1).
  assert (T3 : e_next d (e_next d (e_next d e0)) = e0) by (apply Tri; [exact Qf | lia]).
  assert (H01 : e0 <> e_next d e0) by (apply not_eq_sym; apply next_neq_self; assumption).
  assert (H12 : e_next d e0 <> e_next d (e_next d e0)) by (apply not_eq_sym; apply next_neq_self; assumption).
  assert (H02 : e0 <> e_next d (e_next d e0)).
  { intro E. rewrite <- E in T3. apply H01. symmetry. exact T3. }
  cbv zeta.
  rewrite (itt_closed_form d v f0 e0 Hadj Heven Qf He1 He2 H01 H02 H12). cbn [fst snd].
  split; [apply DWf_iff; apply R_wf; assumption|].
  split; [reflexivity|].
  split; [unfold Raw.num_vertices; rewrite R_vlen by assumption; lia|].
  split; [unfold Raw.num_undirected_edges; apply R_fllen; assumption|].
  split; [unfold Raw.num_faces; apply R_flen; assumption|].
  split; [apply R_len; assumption|].
  split; [reflexivity|].
  split.
  { intros u Hu. rewrite R_vout_old by assumption. auto. }
  split.
  { unfold Raw.num_vertices. rewrite R_vert_new by assumption. cbn [v_x v_y v_data]. auto. }
  split.
  { intros x Hx. apply R_face_outer_old; assumption. }
  intros x Hx Hx'. apply R_face_inner_new; assumption.
Qed.

Print Assumptions insert_into_triangle_wf.
