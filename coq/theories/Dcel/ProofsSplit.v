(* Dcel/ProofsSplit.v -- split_edge and split_half_edge (GENERATED Gen/DcelOps.v) preserve link-level
   well-formedness (DWf), with exact count deltas and frame facts (property C02, family P6). *)
(* ROBUSTNESS AGAINST REORDERINGS OF THE GENERATED CODE.  No proof below depends on the order of the statements of
   the generated split_edge / split_half_edge: se_chain / sh_chain are the generated functions themselves (with
   names for their local values), and the pointwise descriptions se_he_* / se_adj_* / se_vert_* / sh_* of the
   result are obtained by evaluating reads through the generated chain of writes with the order-independent
   reader of Dcel/Chain.v (se_open / sh_open + ch_read). *)
From Coq Require Import ZArith List Bool Arith Lia.
From SpadeV Require Import Obs.State Obs.Spec Obs.SpecProp Vmap.Model Dcel.Raw Dcel.Chain Dcel.WfCore Gen.DcelOps.
Import ListNotations.

(* ------------------------------------------------------------------------------------------------ *)
(* lists *)

Lemma length_set_nth : forall A i (x : A) l, length (set_nth i x l) = length l.
Proof.
  intros A i x l; revert i; induction l as [|a l IH]; intros [|i]; simpl; auto.
Qed.

Lemma nth_set_nth_eq : forall A i (x : A) l dflt, i < length l -> nth i (set_nth i x l) dflt = x.
Proof.
  intros A i x l dflt; revert i; induction l as [|a l IH]; intros [|i] Hi; simpl in *; try lia; auto.
  apply IH; lia.
Qed.

Lemma nth_set_nth_neq : forall A i j (x : A) l dflt, j <> i -> nth j (set_nth i x l) dflt = nth j l dflt.
Proof.
  intros A i j x l dflt; revert i j; induction l as [|a l IH]; intros [|i] [|j] Hij; simpl; auto; try lia.
Qed.

(* ------------------------------------------------------------------------------------------------ *)
(* rev *)

Lemma rev_even : forall k, rev (2 * k) = 2 * k + 1.
Proof.
  intros k; unfold rev.
  replace (Nat.even (2 * k)) with true; [lia|].
  symmetry; apply Nat.even_spec; exists k; reflexivity.
Qed.

Lemma rev_odd : forall k, rev (2 * k + 1) = 2 * k.
Proof.
  intros k; unfold rev.
  assert (Hev : Nat.even (2 * k + 1) = false).
  { rewrite Nat.even_add, Nat.even_mul; reflexivity. }
  rewrite Hev; lia.
Qed.

Lemma nat_even_odd_cases : forall x, (exists k, x = 2 * k) \/ (exists k, x = 2 * k + 1).
Proof. intros x; destruct (Nat.Even_or_Odd x) as [[k Hk]|[k Hk]]; eauto. Qed.

Lemma rev_invol : forall x, rev (rev x) = x.
Proof.
  intros x; destruct (nat_even_odd_cases x) as [[k ->]|[k ->]].
  - rewrite rev_even, rev_odd; reflexivity.
  - rewrite rev_odd, rev_even; reflexivity.
Qed.

Lemma rev_neq : forall x, rev x <> x.
Proof.
  intros x; destruct (nat_even_odd_cases x) as [[k ->]|[k ->]].
  - rewrite rev_even; lia.
  - rewrite rev_odd; lia.
Qed.

Lemma rev_lt_even : forall n x, x < 2 * n -> rev x < 2 * n.
Proof.
  intros n x Hx; destruct (nat_even_odd_cases x) as [[k ->]|[k ->]].
  - rewrite rev_even; lia.
  - rewrite rev_odd; lia.
Qed.

Lemma rev_inj : forall x y, rev x = rev y -> x = y.
Proof. intros x y Hxy; rewrite <- (rev_invol x), <- (rev_invol y), Hxy; reflexivity. Qed.

(* ------------------------------------------------------------------------------------------------ *)
(* read-after-write for the Raw API *)

Lemma he_upd_eq : forall d a f, a < length (d_hedges d) -> half_edge (upd_h d a f) a = f (half_edge d a).
Proof. intros d a f Ha; unfold half_edge at 1, upd_h; cbn [d_hedges]; apply nth_set_nth_eq; exact Ha. Qed.

Lemma he_upd_neq : forall d a f x, x <> a -> half_edge (upd_h d a f) x = half_edge d x.
Proof. intros d a f x Hx; unfold half_edge at 1, upd_h; cbn [d_hedges]; apply nth_set_nth_neq; exact Hx. Qed.

Lemma he_push_old : forall d h0 h1 x, x < length (d_hedges d) -> half_edge (push_edge d h0 h1) x = half_edge d x.
Proof. intros d h0 h1 x Hx; unfold half_edge, push_edge; cbn [d_hedges]; apply app_nth1; exact Hx. Qed.

Lemma he_push_0 : forall d h0 h1 x, x = length (d_hedges d) -> half_edge (push_edge d h0 h1) x = h0.
Proof.
  intros d h0 h1 x ->; unfold half_edge, push_edge; cbn [d_hedges].
  rewrite app_nth2 by lia. rewrite Nat.sub_diag; reflexivity.
Qed.

Lemma he_push_1 : forall d h0 h1 x, x = S (length (d_hedges d)) -> half_edge (push_edge d h0 h1) x = h1.
Proof.
  intros d h0 h1 x ->; unfold half_edge, push_edge; cbn [d_hedges].
  rewrite app_nth2 by lia.
  replace (S (length (d_hedges d)) - length (d_hedges d)) with 1 by lia; reflexivity.
Qed.

Lemma he_push_vertex : forall d v o x, half_edge (push_vertex d v o) x = half_edge d x.
Proof. reflexivity. Qed.
Lemma he_push_face : forall d o x, half_edge (push_face d o) x = half_edge d x.
Proof. reflexivity. Qed.
Lemma he_set_out_edge : forall d v o x, half_edge (set_out_edge d v o) x = half_edge d x.
Proof. reflexivity. Qed.
Lemma he_set_adj : forall d f o x, half_edge (set_adjacent_edge d f o) x = half_edge d x.
Proof. reflexivity. Qed.

Lemma len_upd : forall d a f, length (d_hedges (upd_h d a f)) = length (d_hedges d).
Proof. intros; unfold upd_h; cbn [d_hedges]; apply length_set_nth. Qed.
Lemma len_push_edge : forall d h0 h1, length (d_hedges (push_edge d h0 h1)) = length (d_hedges d) + 2.
Proof. intros; unfold push_edge; cbn [d_hedges]; rewrite app_length; reflexivity. Qed.
Lemma len_push_vertex : forall d v o, length (d_hedges (push_vertex d v o)) = length (d_hedges d).
Proof. reflexivity. Qed.
Lemma len_push_face : forall d o, length (d_hedges (push_face d o)) = length (d_hedges d).
Proof. reflexivity. Qed.
Lemma len_set_out_edge : forall d v o, length (d_hedges (set_out_edge d v o)) = length (d_hedges d).
Proof. reflexivity. Qed.
Lemma len_set_adj : forall d f o, length (d_hedges (set_adjacent_edge d f o)) = length (d_hedges d).
Proof. reflexivity. Qed.

#[local] Hint Rewrite len_upd len_push_edge len_push_vertex len_push_face len_set_out_edge len_set_adj : len.


(* ------------------------------------------------------------------------------------------------ *)
(* DWf in terms of the raw accessors *)

Record RWf (d : dcel) : Prop := mkRWf {
  r_even : length (d_flags d) * 2 = length (d_hedges d);
  r_face1 : 1 <= length (d_faces d);
  r_rng : forall e, e < length (d_hedges d) ->
      e_next d e < length (d_hedges d) /\ e_prev d e < length (d_hedges d) /\
      e_face d e < length (d_faces d) /\ e_origin d e < length (d_verts d);
  r_vout : forall v, v < length (d_verts d) -> forall e, v_out_edge d v = Some e -> e < length (d_hedges d);
  r_adj : forall f, f < length (d_faces d) -> forall e, f_adjacent d f = Some e -> e < length (d_hedges d);
  r_links : forall e, e < length (d_hedges d) ->
      e_prev d (e_next d e) = e /\ e_next d (e_prev d e) = e /\
      e_face d (e_next d e) = e_face d e /\
      e_origin d (e_next d e) = e_to d e /\
      e_origin d e <> e_to d e;
  r_fptr : forall f, f < length (d_faces d) ->
      match f_adjacent d f with
      | Some e => e_face d e = f
      | None => f = 0 /\ length (d_hedges d) = 0
      end;
  r_vptr : forall v, v < length (d_verts d) ->
      match v_out_edge d v with
      | Some e => e_origin d e = v
      | None => length (d_hedges d) = 0
      end;
  r_tri : forall e, e < length (d_hedges d) -> e_face d e <> 0 ->
      e_next d (e_next d (e_next d e)) = e /\
      exists a, f_adjacent d (e_face d e) = Some a /\ (e = a \/ e = e_next d a \/ e = e_next d (e_next d a))
}.

Lemma DWf_RWf : forall d, DWf d -> RWf d.
Proof.
  intros d (Hc & (Hr1 & Hr2 & Hr3) & Hl & Hf & Hv & Ht).
  destruct Hc as (_ & Hc2 & _ & _ & Hc5).
  constructor.
  - exact Hc2.
  - exact Hc5.
  - exact Hr1.
  - exact Hr2.
  - exact Hr3.
  - exact Hl.
  - exact Hf.
  - exact Hv.
  - exact Ht.
Qed.

Lemma RWf_DWf : forall d, RWf d -> DWf d.
Proof.
  intros d [H1 H2 H3 H4 H5 H6 H7 H8 H9].
  split; [|split; [|split; [|split; [|split]]]].
  - split; [reflexivity|]. split; [exact H1|]. split; [reflexivity|]. split; [reflexivity|]. exact H2.
  - split; [exact H3|]. split; [exact H4|exact H5].
  - exact H6.
  - exact H7.
  - exact H8.
  - exact H9.
Qed.

(* ------------------------------------------------------------------------------------------------ *)
(* consequences of RWf *)

Section Derived.
Variable d : dcel.
Hypothesis W : RWf d.
Notation NH := (length (d_hedges d)).

Lemma rw_rev_lt : forall x, x < NH -> rev x < NH.
Proof.
  intros x Hx. pose proof (r_even d W) as He.
  rewrite <- He in *. rewrite Nat.mul_comm in *. apply rev_lt_even; exact Hx.
Qed.

Lemma rw_next_lt : forall x, x < NH -> e_next d x < NH.
Proof. intros x Hx; apply (r_rng d W x Hx). Qed.
Lemma rw_prev_lt : forall x, x < NH -> e_prev d x < NH.
Proof. intros x Hx; apply (r_rng d W x Hx). Qed.
Lemma rw_face_lt : forall x, x < NH -> e_face d x < length (d_faces d).
Proof. intros x Hx; apply (r_rng d W x Hx). Qed.
Lemma rw_org_lt : forall x, x < NH -> e_origin d x < length (d_verts d).
Proof. intros x Hx; apply (r_rng d W x Hx). Qed.
Lemma rw_prev_next : forall x, x < NH -> e_prev d (e_next d x) = x.
Proof. intros x Hx; apply (r_links d W x Hx). Qed.
Lemma rw_next_prev : forall x, x < NH -> e_next d (e_prev d x) = x.
Proof. intros x Hx; apply (r_links d W x Hx). Qed.
Lemma rw_face_next : forall x, x < NH -> e_face d (e_next d x) = e_face d x.
Proof. intros x Hx; apply (r_links d W x Hx). Qed.
Lemma rw_face_prev : forall x, x < NH -> e_face d (e_prev d x) = e_face d x.
Proof.
  intros x Hx. rewrite <- (rw_face_next (e_prev d x)) by (apply rw_prev_lt; exact Hx).
  rewrite rw_next_prev by exact Hx. reflexivity.
Qed.
Lemma rw_org_next : forall x, x < NH -> e_origin d (e_next d x) = e_to d x.
Proof. intros x Hx; apply (r_links d W x Hx). Qed.
Lemma rw_org_ne : forall x, x < NH -> e_origin d x <> e_to d x.
Proof. intros x Hx; apply (r_links d W x Hx). Qed.
Lemma rw_to_lt : forall x, x < NH -> e_to d x < length (d_verts d).
Proof. intros x Hx; unfold e_to, e_rev; apply rw_org_lt, rw_rev_lt; exact Hx. Qed.

Lemma rw_next_ne : forall x, x < NH -> e_next d x <> x.
Proof.
  intros x Hx Heq. apply (rw_org_ne x Hx). rewrite <- rw_org_next by exact Hx. rewrite Heq; reflexivity.
Qed.

Lemma rw_prev_ne : forall x, x < NH -> e_prev d x <> x.
Proof.
  intros x Hx Heq. apply (rw_next_ne x Hx). rewrite <- Heq at 1. apply rw_next_prev; exact Hx.
Qed.

Lemma rw_next3 : forall x, x < NH -> e_face d x <> 0 -> e_next d (e_next d (e_next d x)) = x.
Proof. intros x Hx Hf; apply (r_tri d W x Hx Hf). Qed.

Lemma rw_prev_nn : forall x, x < NH -> e_face d x <> 0 -> e_prev d x = e_next d (e_next d x).
Proof.
  intros x Hx Hf. rewrite <- (rw_next3 x Hx Hf) at 1.
  apply rw_prev_next. apply rw_next_lt, rw_next_lt; exact Hx.
Qed.

Lemma rw_next_ne_prev : forall x, x < NH -> e_face d x <> 0 -> e_next d x <> e_prev d x.
Proof.
  intros x Hx Hf Heq. rewrite (rw_prev_nn x Hx Hf) in Heq.
  apply (rw_next_ne x Hx).
  apply (f_equal (e_prev d)) in Heq.
  rewrite rw_prev_next in Heq by exact Hx.
  rewrite rw_prev_next in Heq by (apply rw_next_lt; exact Hx). symmetry; exact Heq.
Qed.

(* the twin of an inner half-edge is neither its successor nor its predecessor *)
Lemma rw_rev_ne_next : forall x, x < NH -> e_face d x <> 0 -> rev x <> e_next d x.
Proof.
  intros x Hx Hf Heq.
  pose proof (rw_rev_lt x Hx) as Ht.
  pose proof (rw_next_lt _ Ht) as Htn.
  apply (rw_org_ne _ Htn).
  rewrite <- (rw_org_next _ Htn).
  rewrite (rw_org_next _ Ht). unfold e_to, e_rev. rewrite rev_invol.
  rewrite Heq. rewrite (rw_next3 x Hx Hf). reflexivity.
Qed.

Lemma rw_rev_ne_prev : forall x, x < NH -> e_face d x <> 0 -> rev x <> e_prev d x.
Proof.
  intros x Hx Hf Heq.
  pose proof (rw_next_lt x Hx) as Hn.
  apply (rw_org_ne _ Hn).
  rewrite <- (rw_org_next _ Hn).
  rewrite (rw_org_next x Hx). unfold e_to, e_rev. rewrite Heq.
  rewrite (rw_prev_nn x Hx Hf). reflexivity.
Qed.

(* the half-edges of an inner face are exactly the three of its triangle *)
Lemma rw_same_face : forall x y, x < NH -> y < NH -> e_face d x <> 0 -> e_face d y = e_face d x ->
  y = x \/ y = e_next d x \/ y = e_next d (e_next d x).
Proof.
  intros x y Hx Hy Hf Hxy.
  destruct (r_tri d W x Hx Hf) as (_ & a & Ha & Hxa).
  assert (Hfy : e_face d y <> 0) by (rewrite Hxy; exact Hf).
  destruct (r_tri d W y Hy Hfy) as (_ & b & Hb & Hyb).
  rewrite Hxy, Ha in Hb. injection Hb as <-.
  assert (HaH : a < NH).
  { apply (r_adj d W (e_face d x)); [apply rw_face_lt; exact Hx|exact Ha]. }
  assert (Hfa : e_face d a = e_face d x).
  { pose proof (r_fptr d W (e_face d x) (rw_face_lt x Hx)) as Hp. rewrite Ha in Hp. exact Hp. }
  assert (Ha3 : e_next d (e_next d (e_next d a)) = a).
  { apply rw_next3; [exact HaH|rewrite Hfa; exact Hf]. }
  destruct Hxa as [->|[->| ->]]; destruct Hyb as [->|[->| ->]]; rewrite ?Ha3; auto.
Qed.

Lemma rw_faces_differ : forall x, x < NH -> e_face d x <> 0 -> e_face d (rev x) <> e_face d x.
Proof.
  intros x Hx Hf Heq.
  destruct (rw_same_face x (rev x) Hx (rw_rev_lt x Hx) Hf Heq) as [Hc|[Hc|Hc]].
  - exact (rev_neq x Hc).
  - exact (rw_rev_ne_next x Hx Hf Hc).
  - rewrite <- (rw_prev_nn x Hx Hf) in Hc. exact (rw_rev_ne_prev x Hx Hf Hc).
Qed.

End Derived.

Lemma nth_snoc_old : forall A (l : list A) a i dflt, i < length l -> nth i (l ++ [a]) dflt = nth i l dflt.
Proof. intros; apply app_nth1; assumption. Qed.

Lemma nth_snoc_new : forall A (l : list A) a i dflt, i = length l -> nth i (l ++ [a]) dflt = a.
Proof. intros A l a i dflt ->. rewrite app_nth2 by lia. rewrite Nat.sub_diag; reflexivity. Qed.


(* ------------------------------------------------------------------------------------------------ *)
(* split_edge *)

Definition distinct6 (a b c e f g : nat) : Prop :=
  a <> b /\ a <> c /\ a <> e /\ a <> f /\ a <> g /\ b <> c /\ b <> e /\ b <> f /\ b <> g /\
  c <> e /\ c <> f /\ c <> g /\ e <> f /\ e <> g /\ f <> g.

(* The dcel computed by DcelOps.split_edge, with names for the local values of the generated function.

   se_chain is NOT a copy of the generated chain of writes (such a copy would tie every proof below to the
   order of the generated statements).  It is the first component of the generated function itself; the extra
   parameters are the names under which the context SEctx below knows the values the function computes
   (e1 = first new half-edge, en = next of e0, f2 = first new face, ...).  Under SEctx they are all determined
   by d and e0, and the lemmas se_he_* / se_adj_* / se_vert_* describe the result pointwise in terms of them;
   their proofs evaluate the reads through the generated chain with the order-independent tactics of Chain.v. *)
Definition se_chain (d : dcel) (e0 t0 e1 t1 e2 t2 e3 t3 ep en tn tp f0 f1 f2 f3 v0 v1 v2 v3 v4 : nat)
    (nvd : vdata) : dcel :=
  fst (DcelOps.split_edge d e0 nvd).

Lemma split_edge_unfold : forall d e v,
  DcelOps.split_edge d e v =
  (se_chain d e (e_rev e)
     (normalized (num_undirected_edges d)) (e_rev (normalized (num_undirected_edges d)))
     (normalized (num_undirected_edges d + 1)) (e_rev (normalized (num_undirected_edges d + 1)))
     (normalized (num_undirected_edges d + 2)) (e_rev (normalized (num_undirected_edges d + 2)))
     (e_prev d e) (e_next d e) (e_next d (e_rev e)) (e_prev d (e_rev e))
     (e_face d e) (e_face d (e_rev e)) (num_faces d) (num_faces d + 1)
     (num_vertices d) (e_origin d e) (e_origin d (e_prev d (e_rev e))) (e_origin d (e_rev e))
     (e_origin d (e_prev d e)) v,
   (num_vertices d, (e, e_rev (normalized (num_undirected_edges d + 1))))).
Proof. reflexivity. Qed.

Record SEctx (d : dcel) (e0 t0 en ep tn tp e1 t1 e2 t2 e3 t3 f0 f1 f2 f3 v0 v1 v2 v3 v4 : nat) : Prop := mkSEctx {
  sc_wf : RWf d;
  sc_e1 : e1 = length (d_hedges d);
  sc_t1 : t1 = length (d_hedges d) + 1;
  sc_e2 : e2 = length (d_hedges d) + 2;
  sc_t2 : t2 = length (d_hedges d) + 3;
  sc_e3 : e3 = length (d_hedges d) + 4;
  sc_t3 : t3 = length (d_hedges d) + 5;
  sc_f2 : f2 = length (d_faces d);
  sc_f3 : f3 = length (d_faces d) + 1;
  sc_v0 : v0 = length (d_verts d);
  sc_lt : e0 < length (d_hedges d) /\ t0 < length (d_hedges d) /\ en < length (d_hedges d) /\
          ep < length (d_hedges d) /\ tn < length (d_hedges d) /\ tp < length (d_hedges d);
  sc_d6 : distinct6 e0 t0 en ep tn tp;
  sc_rev_e0 : rev e0 = t0;
  sc_rev_e1 : rev e1 = t1;
  sc_rev_e2 : rev e2 = t2;
  sc_rev_e3 : rev e3 = t3;
  sc_nx : e_next d e0 = en /\ e_next d en = ep /\ e_next d ep = e0 /\
          e_next d t0 = tn /\ e_next d tn = tp /\ e_next d tp = t0;
  sc_pv : e_prev d e0 = ep /\ e_prev d en = e0 /\ e_prev d ep = en /\
          e_prev d t0 = tp /\ e_prev d tn = t0 /\ e_prev d tp = tn;
  sc_fc : e_face d e0 = f0 /\ e_face d en = f0 /\ e_face d ep = f0 /\
          e_face d t0 = f1 /\ e_face d tn = f1 /\ e_face d tp = f1;
  sc_f : f0 <> f1 /\ f0 <> 0 /\ f1 <> 0 /\ f0 < length (d_faces d) /\ f1 < length (d_faces d);
  sc_cl0 : forall x, x < length (d_hedges d) -> e_face d x = f0 -> x = e0 \/ x = en \/ x = ep;
  sc_cl1 : forall x, x < length (d_hedges d) -> e_face d x = f1 -> x = t0 \/ x = tn \/ x = tp;
  sc_og : e_origin d e0 = v1 /\ e_origin d t0 = v3 /\ e_origin d en = v3 /\
          e_origin d tn = v1 /\ e_origin d ep = v4 /\ e_origin d tp = v2;
  sc_v : v1 < length (d_verts d) /\ v2 < length (d_verts d) /\ v3 < length (d_verts d) /\ v4 < length (d_verts d)
}.

Ltac se_ctx C :=
  let C' := fresh "C" in pose proof C as C';
  destruct C' as [W He1 Ht1 He2 Ht2 He3 Ht3 Hf2 Hf3 Hv0
    (He0 & Ht0 & Hen & Hep & Htn & Htp) D6 Hr0 Hr1 Hr2 Hr3
    (Hnx_e0 & Hnx_en & Hnx_ep & Hnx_t0 & Hnx_tn & Hnx_tp)
    (Hpv_e0 & Hpv_en & Hpv_ep & Hpv_t0 & Hpv_tn & Hpv_tp)
    (Hfc_e0 & Hfc_en & Hfc_ep & Hfc_t0 & Hfc_tn & Hfc_tp)
    (Hf01 & Hf0z & Hf1z & Hf0lt & Hf1lt) Hcl0 Hcl1
    (Hog_e0 & Hog_t0 & Hog_en & Hog_tn & Hog_ep & Hog_tp)
    (Hv1 & Hv2 & Hv3 & Hv4)].

Lemma normalized_eq : forall d k, RWf d ->
  normalized (num_undirected_edges d + k) = length (d_hedges d) + 2 * k /\
  e_rev (normalized (num_undirected_edges d + k)) = length (d_hedges d) + 2 * k + 1.
Proof.
  intros d k W. pose proof (r_even d W) as He.
  unfold e_rev, normalized, num_undirected_edges. rewrite rev_even. lia.
Qed.

Lemma SEctx_intro : forall d e, RWf d -> e < length (d_hedges d) -> e_face d e <> 0 -> e_face d (rev e) <> 0 ->
  SEctx d e (e_rev e) (e_next d e) (e_prev d e) (e_next d (e_rev e)) (e_prev d (e_rev e))
     (normalized (num_undirected_edges d)) (e_rev (normalized (num_undirected_edges d)))
     (normalized (num_undirected_edges d + 1)) (e_rev (normalized (num_undirected_edges d + 1)))
     (normalized (num_undirected_edges d + 2)) (e_rev (normalized (num_undirected_edges d + 2)))
     (e_face d e) (e_face d (e_rev e)) (num_faces d) (num_faces d + 1)
     (num_vertices d) (e_origin d e) (e_origin d (e_prev d (e_rev e))) (e_origin d (e_rev e))
     (e_origin d (e_prev d e)).
Proof.
  intros d e W He Hf Hft. change (e_rev e) with (rev e).
  pose proof (rw_rev_lt d W e He) as Ht.
  pose proof (rw_faces_differ d W e He Hf) as Hdiff.
  pose proof (normalized_eq d 0 W) as (Hn0 & Hn0').
  pose proof (normalized_eq d 1 W) as (Hn1 & Hn1').
  pose proof (normalized_eq d 2 W) as (Hn2 & Hn2').
  rewrite Nat.add_0_r in Hn0, Hn0'.
  assert (Hnn : e_next d (e_next d e) = e_prev d e) by (symmetry; apply rw_prev_nn; assumption).
  assert (Hnnt : e_next d (e_next d (rev e)) = e_prev d (rev e)) by (symmetry; apply rw_prev_nn; assumption).
  assert (Hfen : e_face d (e_next d e) = e_face d e) by (apply rw_face_next; assumption).
  assert (Hfep : e_face d (e_prev d e) = e_face d e) by (apply rw_face_prev; assumption).
  assert (Hftn : e_face d (e_next d (rev e)) = e_face d (rev e)) by (apply rw_face_next; assumption).
  assert (Hftp : e_face d (e_prev d (rev e)) = e_face d (rev e)) by (apply rw_face_prev; assumption).
  constructor.
  - exact W.
  - lia.
  - lia.
  - lia.
  - lia.
  - lia.
  - lia.
  - reflexivity.
  - reflexivity.
  - reflexivity.
  - repeat split; auto using rw_next_lt, rw_prev_lt.
  - unfold distinct6.
    assert (Ha1 : e <> e_next d e) by (apply not_eq_sym, rw_next_ne; assumption).
    assert (Ha2 : e <> e_prev d e) by (apply not_eq_sym, rw_prev_ne; assumption).
    assert (Ha3 : e_next d e <> e_prev d e) by (apply rw_next_ne_prev; assumption).
    assert (Hb1 : rev e <> e_next d (rev e)) by (apply not_eq_sym, rw_next_ne; assumption).
    assert (Hb2 : rev e <> e_prev d (rev e)) by (apply not_eq_sym, rw_prev_ne; assumption).
    assert (Hb3 : e_next d (rev e) <> e_prev d (rev e)) by (apply rw_next_ne_prev; assumption).
    repeat split; try assumption;
      intro Heq; apply (f_equal (e_face d)) in Heq; congruence.
  - reflexivity.
  - reflexivity.
  - reflexivity.
  - reflexivity.
  - repeat split; auto using rw_next_prev.
  - repeat split; auto using rw_prev_next.
    + rewrite <- Hnn. apply rw_prev_next, rw_next_lt; assumption.
    + rewrite <- Hnnt. apply rw_prev_next, rw_next_lt; assumption.
  - repeat split; assumption.
  - repeat split; auto using rw_face_lt.
  - intros x Hx Hfx. rewrite <- Hnn. apply rw_same_face; assumption.
  - intros x Hx Hfx. rewrite <- Hnnt. apply rw_same_face; assumption.
  - repeat split.
    + rewrite rw_org_next by assumption. reflexivity.
    + rewrite rw_org_next by assumption. unfold e_to, e_rev. rewrite rev_invol. reflexivity.
  - repeat split; auto using rw_org_lt, rw_prev_lt.
Qed.




(* Rename the values which an opened generated chain reads from the base dcel to the names of the context:
   with   H : h_next (half_edge d e0) = en   every  h_next (half_edge d e0)  of the goal becomes  en,  with
   H : rev e0 = t0  every  e_rev e0  becomes t0,  with  H : f3 = length (d_faces d) + 1  every  num_faces d + 1
   becomes f3, ...  The equations are found in the context by their shape (the destructed SEctx / SHctx). *)
Ltac ctx_rename :=
  unfold e_to; unfold e_rev, num_faces, num_vertices;
  unfold e_next, e_prev, e_face, e_origin in *;
  repeat match goal with
  | H : rev ?x = ?y |- context [rev ?x] => is_var y; rewrite H
  | H : ?p (half_edge ?dd ?x) = ?y |- context [?p (half_edge ?dd ?x)] =>
      lazymatch y with context [half_edge] => fail | _ => idtac end; rewrite H
  end;
  repeat match goal with
  | H : ?y = length (d_faces ?dd) + 1 |- context [length (d_faces ?dd) + 1] => is_var y; rewrite <- H
  end;
  repeat match goal with
  | H : ?y = length (d_faces ?dd) |- context [length (d_faces ?dd)] => is_var y; rewrite <- H
  | H : ?y = length (d_verts ?dd) |- context [length (d_verts ?dd)] => is_var y; rewrite <- H
  end.

Section SE.
Variables (d : dcel) (e0 t0 en ep tn tp e1 t1 e2 t2 e3 t3 f0 f1 f2 f3 v0 v1 v2 v3 v4 : nat) (nvd : vdata).
Hypothesis C : SEctx d e0 t0 en ep tn tp e1 t1 e2 t2 e3 t3 f0 f1 f2 f3 v0 v1 v2 v3 v4.
Local Notation d' := (se_chain d e0 t0 e1 t1 e2 t2 e3 t3 ep en tn tp f0 f1 f2 f3 v0 v1 v2 v3 v4 nvd).
Local Notation NH := (length (d_hedges d)).
Local Notation NV := (length (d_verts d)).
Local Notation NF := (length (d_faces d)).

Definition se_other (x : nat) : Prop :=
  x < NH /\ x <> e0 /\ x <> t0 /\ x <> en /\ x <> ep /\ x <> tn /\ x <> tp.

Ltac neq :=
  solve [ lia
        | match goal with D : distinct6 _ _ _ _ _ _ |- _ =>
            unfold distinct6 in D; decompose [and] D; first [assumption | apply not_eq_sym; assumption] end
        | match goal with O : se_other _ |- _ =>
            unfold se_other in O; decompose [and] O; first [assumption | apply not_eq_sym; assumption] end ].

(* the names of the context for the values computed by the generated function *)
Lemma se_names :
  normalized (num_undirected_edges d) = e1 /\ normalized (num_undirected_edges d + 1) = e2 /\
  normalized (num_undirected_edges d + 2) = e3.
Proof.
  se_ctx C. pose proof (r_even d W) as Hev. unfold normalized, num_undirected_edges.
  clear - Hev He1 He2 He3. lia.
Qed.

(* Open d' = fst (split_edge d e0 nvd) into the generated chain of writes and rename the values it reads from d
   (e_rev e0, h_next (half_edge d e0), num_faces d + 1, ...) to the names of the context.  To be called after
   se_ctx C.  Nothing here looks at the order of the writes. *)
Ltac se_open :=
  let Q1 := fresh "Q" in let Q2 := fresh "Q" in let Q3 := fresh "Q" in
  destruct se_names as (Q1 & Q2 & Q3);
  unfold se_chain, DcelOps.split_edge; cbv zeta; cbn [fst];
  rewrite ?Q1, ?Q2, ?Q3;
  ctx_rename;
  match goal with D : distinct6 _ _ _ _ _ _ |- _ =>
    let D' := fresh "D" in pose proof D as D'; unfold distinct6 in D'; decompose [and] D'; clear D' end;
  try match goal with O : se_other _ |- _ =>
    let O' := fresh "O" in pose proof O as O'; unfold se_other in O'; decompose [and] O'; clear O' end.

(* half_edge d' x = ... : open, then evaluate the four fields through the chain *)
Ltac ev := se_open; ch_fields; ch_read; ch_fin.

Lemma se_len : length (d_hedges d') = NH + 6.
Proof using Type. unfold se_chain, DcelOps.split_edge; cbv zeta; cbn [fst]. ch_len. lia. Qed.

Lemma se_he_e0 : half_edge d' e0 = mkh t3 ep f0 v1.
Proof. se_ctx C. ev. Qed.
Lemma se_he_t0 : half_edge d' t0 = mkh tn e1 f1 v0.
Proof. se_ctx C. ev. Qed.
Lemma se_he_e1 : half_edge d' e1 = mkh t0 tn f1 v2.
Proof. se_ctx C. ev. Qed.
Lemma se_he_t1 : half_edge d' t1 = mkh tp e2 f2 v0.
Proof. se_ctx C. ev. Qed.
Lemma se_he_e2 : half_edge d' e2 = mkh t1 tp f2 v3.
Proof. se_ctx C. ev. Qed.
Lemma se_he_t2 : half_edge d' t2 = mkh en e3 f3 v0.
Proof. se_ctx C. ev. Qed.
Lemma se_he_e3 : half_edge d' e3 = mkh t2 en f3 v4.
Proof. se_ctx C. ev. Qed.
Lemma se_he_t3 : half_edge d' t3 = mkh ep e0 f0 v0.
Proof. se_ctx C. ev. Qed.
Lemma se_he_en : half_edge d' en = mkh e3 t2 f3 v3.
Proof. se_ctx C. ev. Qed.
Lemma se_he_tp : half_edge d' tp = mkh e2 t1 f2 v2.
Proof. se_ctx C. ev. Qed.
Lemma se_he_tn : half_edge d' tn = mkh e1 t0 f1 v1.
Proof. se_ctx C. ev. Qed.
Lemma se_he_ep : half_edge d' ep = mkh e0 t3 f0 v4.
Proof. se_ctx C. ev. Qed.
Lemma se_he_other : forall x, se_other x -> half_edge d' x = half_edge d x.
Proof. intros x O. se_ctx C. assert (Hx : x < NH) by apply O. se_open. ch_read. reflexivity. Qed.

Lemma se_rev_e0 : rev e0 = t0. Proof. se_ctx C; assumption. Qed.
Lemma se_rev_t0 : rev t0 = e0. Proof. rewrite <- se_rev_e0; apply rev_invol. Qed.
Lemma se_rev_e1 : rev e1 = t1. Proof. se_ctx C; assumption. Qed.
Lemma se_rev_t1 : rev t1 = e1. Proof. rewrite <- se_rev_e1; apply rev_invol. Qed.
Lemma se_rev_e2 : rev e2 = t2. Proof. se_ctx C; assumption. Qed.
Lemma se_rev_t2 : rev t2 = e2. Proof. rewrite <- se_rev_e2; apply rev_invol. Qed.
Lemma se_rev_e3 : rev e3 = t3. Proof. se_ctx C; assumption. Qed.
Lemma se_rev_t3 : rev t3 = e3. Proof. rewrite <- se_rev_e3; apply rev_invol. Qed.

Hint Rewrite se_he_e0 se_he_t0 se_he_e1 se_he_t1 se_he_e2 se_he_t2 se_he_e3 se_he_t3
             se_he_en se_he_tp se_he_tn se_he_ep
             se_rev_e0 se_rev_t0 se_rev_e1 se_rev_t1 se_rev_e2 se_rev_t2 se_rev_e3 se_rev_t3 : se.

Ltac sev :=
  unfold e_to, e_rev, e_next, e_prev, e_face, e_origin;
  repeat (progress (autorewrite with se; cbn [h_next h_prev h_face h_org])).

Lemma se_classify : forall x, x < NH + 6 ->
  x = e0 \/ x = t0 \/ x = en \/ x = ep \/ x = tn \/ x = tp \/
  x = e1 \/ x = t1 \/ x = e2 \/ x = t2 \/ x = e3 \/ x = t3 \/ se_other x.
Proof.
  intros x Hx. se_ctx C.
  destruct (Nat.eq_dec x e0) as [|N1]; [tauto|].
  destruct (Nat.eq_dec x t0) as [|N2]; [tauto|].
  destruct (Nat.eq_dec x en) as [|N3]; [tauto|].
  destruct (Nat.eq_dec x ep) as [|N4]; [tauto|].
  destruct (Nat.eq_dec x tn) as [|N5]; [tauto|].
  destruct (Nat.eq_dec x tp) as [|N6]; [tauto|].
  destruct (lt_dec x NH) as [Hlt|Hge].
  - do 12 right. unfold se_other. clear - Hlt N1 N2 N3 N4 N5 N6. tauto.
  - assert (Hn : x = e1 \/ x = t1 \/ x = e2 \/ x = t2 \/ x = e3 \/ x = t3).
    { clear - Hx Hge He1 Ht1 He2 Ht2 He3 Ht3. lia. }
    clear - Hn. tauto.
Qed.

Lemma se_next_other : forall x, se_other x -> e_next d' x = e_next d x.
Proof. intros x O; unfold e_next; rewrite se_he_other by exact O; reflexivity. Qed.
Lemma se_prev_other : forall x, se_other x -> e_prev d' x = e_prev d x.
Proof. intros x O; unfold e_prev; rewrite se_he_other by exact O; reflexivity. Qed.
Lemma se_face_other : forall x, se_other x -> e_face d' x = e_face d x.
Proof. intros x O; unfold e_face; rewrite se_he_other by exact O; reflexivity. Qed.
Lemma se_org_other : forall x, se_other x -> e_origin d' x = e_origin d x.
Proof. intros x O; unfold e_origin; rewrite se_he_other by exact O; reflexivity. Qed.

Lemma se_other_of_face : forall x, x < NH -> e_face d x <> f0 -> e_face d x <> f1 -> se_other x.
Proof.
  intros x Hx N0 N1. se_ctx C. unfold se_other.
  repeat split; try assumption; intros ->; congruence.
Qed.

Lemma se_other_face : forall x, se_other x -> e_face d x <> f0 /\ e_face d x <> f1.
Proof.
  intros x (Hx & N1 & N2 & N3 & N4 & N5 & N6). se_ctx C.
  split; intro Hf.
  - destruct (Hcl0 x Hx Hf) as [?|[?|?]]; contradiction.
  - destruct (Hcl1 x Hx Hf) as [?|[?|?]]; contradiction.
Qed.

Lemma se_other_lt : forall x, se_other x -> x < NH.
Proof. intros x O; apply O. Qed.

Lemma se_other_next : forall x, se_other x -> se_other (e_next d x).
Proof.
  intros x O. pose proof (se_other_face x O) as (N0 & N1). pose proof (se_other_lt x O) as Hx.
  pose proof (sc_wf _ _ _ _ _ _ _ _ _ _ _ _ _ _ _ _ _ _ _ _ _ _ C) as W.
  apply se_other_of_face.
  - apply rw_next_lt; assumption.
  - rewrite rw_face_next by assumption. exact N0.
  - rewrite rw_face_next by assumption. exact N1.
Qed.

Lemma se_other_prev : forall x, se_other x -> se_other (e_prev d x).
Proof.
  intros x O. pose proof (se_other_face x O) as (N0 & N1). pose proof (se_other_lt x O) as Hx.
  pose proof (sc_wf _ _ _ _ _ _ _ _ _ _ _ _ _ _ _ _ _ _ _ _ _ _ C) as W.
  apply se_other_of_face.
  - apply rw_prev_lt; assumption.
  - rewrite rw_face_prev by assumption. exact N0.
  - rewrite rw_face_prev by assumption. exact N1.
Qed.

(* only the twin t0 changes its origin *)
Lemma se_org_old : forall x, x < NH -> x <> t0 -> e_origin d' x = e_origin d x.
Proof.
  intros x Hx Nt. se_ctx C.
  assert (Hx6 : x < NH + 6) by lia.
  destruct (se_classify x Hx6) as [->|[->|[->|[->|[->|[->|[->|[->|[->|[->|[->|[->|O]]]]]]]]]]]];
    try lia; try contradiction.
  - sev. symmetry; exact Hog_e0.
  - sev. symmetry; exact Hog_en.
  - sev. symmetry; exact Hog_ep.
  - sev. symmetry; exact Hog_tn.
  - sev. symmetry; exact Hog_tp.
  - apply se_org_other; exact O.
Qed.

Lemma se_to_old : forall x, x < NH -> x <> e0 -> e_to d' x = e_to d x.
Proof.
  intros x Hx Ne. se_ctx C. unfold e_to, e_rev. apply se_org_old.
  - apply rw_rev_lt; assumption.
  - intro Heq. apply Ne. apply rev_inj. rewrite Heq. symmetry; apply se_rev_e0.
Qed.

Lemma se_to_d : e_to d en = v4 /\ e_to d ep = v1 /\ e_to d tn = v2 /\ e_to d tp = v3.
Proof.
  se_ctx C.
  rewrite <- !(rw_org_next d W) by assumption.
  rewrite Hnx_en, Hnx_ep, Hnx_tn, Hnx_tp. auto.
Qed.

Lemma se_vne : v3 <> v4 /\ v4 <> v1 /\ v1 <> v2 /\ v2 <> v3.
Proof.
  se_ctx C. destruct se_to_d as (T1 & T2 & T3 & T4).
  pose proof (rw_org_ne d W en Hen) as A1. pose proof (rw_org_ne d W ep Hep) as A2.
  pose proof (rw_org_ne d W tn Htn) as A3. pose proof (rw_org_ne d W tp Htp) as A4.
  rewrite T1, Hog_en in A1. rewrite T2, Hog_ep in A2. rewrite T3, Hog_tn in A3. rewrite T4, Hog_tp in A4.
  auto.
Qed.

Lemma se_to_en : e_to d' en = v4.
Proof. se_ctx C. rewrite se_to_old by neq. apply se_to_d. Qed.
Lemma se_to_ep : e_to d' ep = v1.
Proof. se_ctx C. rewrite se_to_old by neq. apply se_to_d. Qed.
Lemma se_to_tn : e_to d' tn = v2.
Proof. se_ctx C. rewrite se_to_old by neq. apply se_to_d. Qed.
Lemma se_to_tp : e_to d' tp = v3.
Proof. se_ctx C. rewrite se_to_old by neq. apply se_to_d. Qed.

Tactic Notation "se_cases" ident(x) ident(Hx) ident(O) :=
  destruct (se_classify x Hx) as [->|[->|[->|[->|[->|[->|[->|[->|[->|[->|[->|[->|O]]]]]]]]]]]].

Lemma se_rng : forall x, x < NH + 6 ->
  e_next d' x < NH + 6 /\ e_prev d' x < NH + 6 /\ e_face d' x < NF + 2 /\ e_origin d' x < NV + 1.
Proof.
  intros x Hx. se_ctx C.
  se_cases x Hx O; try (sev; lia).
  rewrite se_next_other, se_prev_other, se_face_other, se_org_other by exact O.
  pose proof (se_other_lt x O) as Hlt.
  pose proof (r_rng d W x Hlt). lia.
Qed.

Lemma se_links : forall x, x < NH + 6 ->
  e_prev d' (e_next d' x) = x /\ e_next d' (e_prev d' x) = x /\
  e_face d' (e_next d' x) = e_face d' x /\
  e_origin d' (e_next d' x) = e_to d' x /\
  e_origin d' x <> e_to d' x.
Proof.
  intros x Hx. se_ctx C. destruct se_vne as (A1 & A2 & A3 & A4).
  se_cases x Hx O;
    try (rewrite ?se_to_en, ?se_to_ep, ?se_to_tn, ?se_to_tp; sev; repeat split; try reflexivity; lia).
  pose proof (se_other_lt x O) as Hlt.
  pose proof (se_other_next x O) as On. pose proof (se_other_prev x O) as Op.
  rewrite (se_next_other x O), (se_prev_other x O).
  rewrite (se_prev_other _ On), (se_next_other _ Op), (se_face_other _ On), (se_face_other x O),
    (se_org_other _ On), (se_org_other x O).
  rewrite se_to_old by (try assumption; neq).
  apply (r_links d W x Hlt).
Qed.

Lemma se_adj_f0 : f_adjacent d' f0 = Some e0.
Proof. se_ctx C. se_open. ch_read. reflexivity. Qed.

Lemma se_adj_f1 : f_adjacent d' f1 = Some e1.
Proof. se_ctx C. se_open. ch_read. reflexivity. Qed.

Lemma se_adj_f2 : f_adjacent d' f2 = Some e2.
Proof. se_ctx C. se_open. ch_read. reflexivity. Qed.

Lemma se_adj_f3 : f_adjacent d' f3 = Some e3.
Proof. se_ctx C. se_open. ch_read. reflexivity. Qed.

Lemma se_adj_old : forall f, f < NF -> f <> f0 -> f <> f1 -> f_adjacent d' f = f_adjacent d f.
Proof. intros f Hf N0 N1. se_ctx C. se_open. ch_read. reflexivity. Qed.

Lemma se_nfaces : length (d_faces d') = NF + 2.
Proof using Type. unfold se_chain, DcelOps.split_edge; cbv zeta; cbn [fst]. ch_len. lia. Qed.

Hint Rewrite se_adj_f0 se_adj_f1 se_adj_f2 se_adj_f3 : se.

Lemma se_face_cases : forall f, f < NF + 2 ->
  f = f0 \/ f = f1 \/ f = f2 \/ f = f3 \/ (f < NF /\ f <> f0 /\ f <> f1).
Proof.
  intros f Hf. se_ctx C.
  destruct (Nat.eq_dec f f0) as [|N0]; [tauto|].
  destruct (Nat.eq_dec f f1) as [|N1]; [tauto|].
  destruct (lt_dec f NF) as [Hlt|Hge]; [tauto|].
  assert (Hn : f = f2 \/ f = f3) by (clear - Hf Hge Hf2 Hf3; lia).
  clear - Hn; tauto.
Qed.

(* the representative of an old face other than f0, f1 is untouched *)
Lemma se_adj_old_other : forall f a, f < NF -> f <> f0 -> f <> f1 -> f_adjacent d f = Some a ->
  se_other a /\ e_face d a = f.
Proof.
  intros f a Hf N0 N1 Ha. se_ctx C.
  pose proof (r_fptr d W f Hf) as Hp. rewrite Ha in Hp.
  split; [|exact Hp].
  apply se_other_of_face; [apply (r_adj d W f Hf a Ha)| |]; rewrite Hp; assumption.
Qed.

Lemma se_adj_rng : forall f, f < NF + 2 -> forall a, f_adjacent d' f = Some a -> a < NH + 6.
Proof.
  intros f Hf a. se_ctx C.
  destruct (se_face_cases f Hf) as [->|[->|[->|[->|(Hlt & N0 & N1)]]]]; sev.
  1-4: intros Heq; injection Heq as <-; lia.
  rewrite se_adj_old by assumption. intros Ha.
  pose proof (r_adj d W f Hlt a Ha). lia.
Qed.

Lemma se_fptr : forall f, f < NF + 2 ->
  match f_adjacent d' f with
  | Some e => e_face d' e = f
  | None => f = 0 /\ NH + 6 = 0
  end.
Proof.
  intros f Hf. se_ctx C.
  destruct (se_face_cases f Hf) as [->|[->|[->|[->|(Hlt & N0 & N1)]]]]; sev; try reflexivity.
  rewrite se_adj_old by assumption.
  pose proof (r_fptr d W f Hlt) as Hp.
  destruct (f_adjacent d f) as [a|] eqn:Ha.
  - destruct (se_adj_old_other f a Hlt N0 N1 Ha) as (O & Hfa).
    change (e_face d' a = f). rewrite se_face_other by exact O. exact Hfa.
  - lia.
Qed.

Lemma se_tri : forall x, x < NH + 6 -> e_face d' x <> 0 ->
  e_next d' (e_next d' (e_next d' x)) = x /\
  exists a, f_adjacent d' (e_face d' x) = Some a /\ (x = a \/ x = e_next d' a \/ x = e_next d' (e_next d' a)).
Proof.
  intros x Hx. se_ctx C.
  se_cases x Hx O;
    try (intros _; sev; split; [reflexivity|]; eexists; split; [reflexivity|]; sev; tauto).
  intros Hfx. rewrite se_face_other in Hfx by exact O.
  pose proof (se_other_lt x O) as Hlt.
  pose proof (se_other_next x O) as On. pose proof (se_other_next _ On) as Onn.
  destruct (r_tri d W x Hlt Hfx) as (H3 & a & Ha & Hor).
  rewrite (se_next_other x O), (se_next_other _ On), (se_next_other _ Onn), (se_face_other x O).
  split; [exact H3|].
  destruct (se_other_face x O) as (N0 & N1).
  pose proof (rw_face_lt d W x Hlt) as Hfl.
  rewrite se_adj_old by assumption.
  destruct (se_adj_old_other _ a Hfl N0 N1 Ha) as (Oa & Hfa).
  pose proof (se_other_next a Oa) as Oan.
  exists a. split; [exact Ha|].
  rewrite (se_next_other a Oa), (se_next_other _ Oan). exact Hor.
Qed.

Local Notation newv := (mkv (vd_x nvd) (vd_y nvd) (vd_d nvd) (Some t0)).

Lemma se_nverts : length (d_verts d') = S NV.
Proof using Type. unfold se_chain, DcelOps.split_edge; cbv zeta; cbn [fst]. ch_len. lia. Qed.

Lemma se_vert_new : nth v0 (d_verts d') dflt_v = newv.
Proof.
  se_ctx C. apply ch_vrec_ext; cbn [v_x v_y v_data v_out]; se_open; ch_read; reflexivity.
Qed.

Lemma se_vert_v3 : nth v3 (d_verts d') dflt_v =
  let b := nth v3 (d_verts d) dflt_v in mkv (v_x b) (v_y b) (v_data b) (Some e2).
Proof.
  se_ctx C. cbv zeta. apply ch_vrec_ext; cbn [v_x v_y v_data v_out]; se_open; ch_read; reflexivity.
Qed.

Lemma se_vert_old : forall u, u < NV -> u <> v3 -> nth u (d_verts d') dflt_v = nth u (d_verts d) dflt_v.
Proof.
  intros u Hu Nu. se_ctx C. apply ch_vrec_ext; se_open; ch_read; reflexivity.
Qed.

Lemma se_vert_frame : forall u, u < NV ->
  let a := nth u (d_verts d') dflt_v in let b := nth u (d_verts d) dflt_v in
  v_x a = v_x b /\ v_y a = v_y b /\ v_data a = v_data b.
Proof.
  intros u Hu. cbv zeta. destruct (Nat.eq_dec u v3) as [->|Nu].
  - rewrite se_vert_v3. cbv zeta. cbn [v_x v_y v_data]. auto.
  - rewrite se_vert_old by assumption. auto.
Qed.

Lemma se_vert_cases : forall u, u < NV + 1 -> u = v0 \/ u = v3 \/ (u < NV /\ u <> v3).
Proof.
  intros u Hu. se_ctx C. destruct (Nat.eq_dec u v3) as [|N]; [tauto|].
  destruct (lt_dec u NV) as [Hlt|Hge]; [tauto|]. left. clear - Hu Hge Hv0. lia.
Qed.

Lemma se_vptr : forall u, u < NV + 1 ->
  match v_out_edge d' u with
  | Some e => e_origin d' e = u
  | None => NH + 6 = 0
  end.
Proof.
  intros u Hu. se_ctx C. unfold v_out_edge.
  destruct (se_vert_cases u Hu) as [->|[->|(Hlt & Nu)]].
  - rewrite se_vert_new. cbn [v_out]. sev. reflexivity.
  - rewrite se_vert_v3. cbv zeta. cbn [v_out]. sev. reflexivity.
  - rewrite se_vert_old by assumption.
    pose proof (r_vptr d W u Hlt) as Hp. pose proof (r_vout d W u Hlt) as Hr. unfold v_out_edge in Hp, Hr.
    destruct (v_out (nth u (d_verts d) dflt_v)) as [a|].
    + rewrite se_org_old; [exact Hp|apply Hr; reflexivity|].
      intros ->. apply Nu. rewrite <- Hp. exact Hog_t0.
    + lia.
Qed.

Lemma se_vout_rng : forall u, u < NV + 1 -> forall a, v_out_edge d' u = Some a -> a < NH + 6.
Proof.
  intros u Hu a. se_ctx C. unfold v_out_edge.
  destruct (se_vert_cases u Hu) as [->|[->|(Hlt & Nu)]].
  - rewrite se_vert_new. cbn [v_out]. intros Heq; injection Heq as <-; lia.
  - rewrite se_vert_v3. cbv zeta. cbn [v_out]. intros Heq; injection Heq as <-; lia.
  - rewrite se_vert_old by assumption. intros Ha.
    pose proof (r_vout d W u Hlt a Ha). lia.
Qed.

Lemma se_flags : d_flags d' = d_flags d ++ [false; false; false].
Proof.
  unfold se_chain, DcelOps.split_edge; cbv zeta; cbn [fst]. ch_tables.
  rewrite <- !app_assoc. reflexivity.
Qed.

Lemma se_face_zero : forall x, x < NH -> (e_face d' x = 0 <-> e_face d x = 0).
Proof.
  intros x Hx. se_ctx C. assert (Hx6 : x < NH + 6) by lia.
  se_cases x Hx6 O; try lia.
  - sev. rewrite <- Hfc_e0. reflexivity.
  - sev. rewrite <- Hfc_t0. reflexivity.
  - sev. unfold e_face in Hfc_en. rewrite Hfc_en. lia.
  - sev. rewrite <- Hfc_ep. reflexivity.
  - sev. rewrite <- Hfc_tn. reflexivity.
  - sev. unfold e_face in Hfc_tp. rewrite Hfc_tp. pose proof (r_face1 d W). lia.
  - rewrite se_face_other by exact O. reflexivity.
Qed.

Lemma se_face_new : forall x, NH <= x < NH + 6 -> e_face d' x <> 0.
Proof.
  intros x Hx. se_ctx C. pose proof (r_face1 d W).
  assert (Hn : x = e1 \/ x = t1 \/ x = e2 \/ x = t2 \/ x = e3 \/ x = t3).
  { clear - Hx He1 Ht1 He2 Ht2 He3 Ht3. lia. }
  destruct Hn as [->|[->|[->|[->|[->| ->]]]]]; sev; lia.
Qed.

Lemma se_rwf : RWf d'.
Proof.
  se_ctx C. constructor; rewrite ?se_len, ?se_nfaces, ?se_nverts, ?se_flags.
  - rewrite app_length. cbn [length]. pose proof (r_even d W). lia.
  - lia.
  - intros x Hx. pose proof (se_rng x Hx). lia.
  - intros u Hu. apply se_vout_rng. lia.
  - apply se_adj_rng.
  - apply se_links.
  - apply se_fptr.
  - intros u Hu. apply se_vptr. lia.
  - apply se_tri.
Qed.

Lemma se_main :
  RWf d' /\
  Raw.num_vertices d' = S NV /\
  Raw.num_undirected_edges d' = Raw.num_undirected_edges d + 3 /\
  Raw.num_faces d' = NF + 2 /\
  length (d_hedges d') = NH + 6 /\
  d_flags d' = d_flags d ++ [false; false; false] /\
  (forall u, u < NV ->
     let a := nth u (d_verts d') dflt_v in let b := nth u (d_verts d) dflt_v in
     v_x a = v_x b /\ v_y a = v_y b /\ v_data a = v_data b) /\
  nth v0 (d_verts d') dflt_v = mkv (vd_x nvd) (vd_y nvd) (vd_d nvd) (Some t0) /\
  (forall x, x < NH -> (e_face d' x = 0 <-> e_face d x = 0)) /\
  (forall x, NH <= x < NH + 6 -> e_face d' x <> 0) /\
  (e_origin d' e0 = v1 /\ e_to d' e0 = v0 /\ e_origin d' t2 = v0 /\ e_to d' t2 = v3).
Proof.
  split; [exact se_rwf|].
  split; [exact se_nverts|].
  split; [unfold Raw.num_undirected_edges; rewrite se_flags, app_length; reflexivity|].
  split; [exact se_nfaces|].
  split; [exact se_len|].
  split; [exact se_flags|].
  split; [exact se_vert_frame|].
  split; [exact se_vert_new|].
  split; [exact se_face_zero|].
  split; [exact se_face_new|].
  sev. auto.
Qed.
End SE.

Theorem split_edge_wf : forall d e v, DWf d -> e < length (d_hedges d) -> inner d e -> inner d (rev e) ->
   let r := DcelOps.split_edge d e v in let d' := fst r in
      DWf d' /\ fst (snd r) = Raw.num_vertices d
   /\ Raw.num_vertices d' = S (Raw.num_vertices d) /\ Raw.num_undirected_edges d' = Raw.num_undirected_edges d + 3
   /\ Raw.num_faces d' = Raw.num_faces d + 2 /\ d_flags d' = d_flags d ++ [false; false; false]
   /\ (forall u, u < Raw.num_vertices d -> let a := nth u (d_verts d') dflt_v in let b := nth u (d_verts d) dflt_v in
                 v_x a = v_x b /\ v_y a = v_y b /\ v_data a = v_data b)
   /\ (forall x, x < length (d_hedges d) -> (e_face d' x = 0 <-> e_face d x = 0))
   /\ (let '(h0, h1) := snd (snd r) in
         (e_origin d' h0 = e_origin d e /\ e_to d' h0 = Raw.num_vertices d /\ e_origin d' h1 = Raw.num_vertices d /\ e_to d' h1 = e_to d e)).
Proof.
  intros d e v Wd He Hi Hit r d'. subst d' r. rewrite split_edge_unfold. cbn [fst snd].
  pose proof (DWf_RWf d Wd) as W.
  pose proof (SEctx_intro d e W He Hi Hit) as C.
  destruct (se_main _ _ _ _ _ _ _ _ _ _ _ _ _ _ _ _ _ _ _ _ _ _ v C)
    as (R1 & R2 & R3 & R4 & R5 & R6 & R7 & R8 & R9 & R10 & R11).
  split; [apply RWf_DWf; exact R1|].
  split; [reflexivity|].
  split; [exact R2|].
  split; [exact R3|].
  split; [exact R4|].
  split; [exact R6|].
  split; [exact R7|].
  split; [exact R9|].
  exact R11.
Qed.

(* additional facts about split_edge: number of half-edges, the new vertex record, the six new half-edges are inner *)
Theorem split_edge_extra : forall d e v, DWf d -> e < length (d_hedges d) -> inner d e -> inner d (rev e) ->
   let d' := fst (DcelOps.split_edge d e v) in
      length (d_hedges d') = length (d_hedges d) + 6
   /\ nth (Raw.num_vertices d) (d_verts d') dflt_v = mkv (vd_x v) (vd_y v) (vd_d v) (Some (rev e))
   /\ (forall x, length (d_hedges d) <= x < length (d_hedges d) + 6 -> e_face d' x <> 0)
   /\ snd (snd (DcelOps.split_edge d e v)) = (e, length (d_hedges d) + 3).
Proof.
  intros d e v Wd He Hi Hit d'. subst d'. rewrite split_edge_unfold. cbn [fst snd].
  pose proof (DWf_RWf d Wd) as W.
  pose proof (SEctx_intro d e W He Hi Hit) as C.
  destruct (se_main _ _ _ _ _ _ _ _ _ _ _ _ _ _ _ _ _ _ _ _ _ _ v C)
    as (R1 & R2 & R3 & R4 & R5 & R6 & R7 & R8 & R9 & R10 & R11).
  split; [exact R5|].
  split; [exact R8|].
  split; [exact R10|].
  f_equal. f_equal. rewrite (sc_t2 _ _ _ _ _ _ _ _ _ _ _ _ _ _ _ _ _ _ _ _ _ _ C). reflexivity.
Qed.


(* ------------------------------------------------------------------------------------------------ *)
(* split_half_edge *)

Definition distinct5 (a b c e f : nat) : Prop :=
  a <> b /\ a <> c /\ a <> e /\ a <> f /\ b <> c /\ b <> e /\ b <> f /\ c <> e /\ c <> f /\ e <> f.

(* the dcel computed by DcelOps.split_half_edge, with names for the local values of the generated function
   (see se_chain: not a copy of the generated chain, but the generated function itself) *)
Definition sh_chain (d : dcel) (e t en ep tp e1 t1 e2 t2 f1 tf nf nv v to_ : nat) (nvd : vdata) : dcel :=
  fst (DcelOps.split_half_edge d e nvd).

Lemma split_half_edge_unfold : forall d e v,
  DcelOps.split_half_edge d e v =
  (sh_chain d e (e_rev e) (e_next d e) (e_prev d e) (e_prev d (e_rev e))
     (normalized (num_undirected_edges d)) (e_rev (normalized (num_undirected_edges d)))
     (normalized (num_undirected_edges d + 1)) (e_rev (normalized (num_undirected_edges d + 1)))
     (e_face d e) (e_face d (e_rev e)) (num_faces d) (num_vertices d)
     (e_origin d (e_prev d e)) (e_to d e) v,
   (num_vertices d, (e, normalized (num_undirected_edges d + 1)))).
Proof. reflexivity. Qed.

Record SHctx (d : dcel) (e t en ep tp tn e1 t1 e2 t2 f1 tf nf nv v to_ from : nat) : Prop := mkSHctx {
  hc_wf : RWf d;
  hc_e1 : e1 = length (d_hedges d);
  hc_t1 : t1 = length (d_hedges d) + 1;
  hc_e2 : e2 = length (d_hedges d) + 2;
  hc_t2 : t2 = length (d_hedges d) + 3;
  hc_nf : nf = length (d_faces d);
  hc_nv : nv = length (d_verts d);
  hc_tf : tf = 0;
  hc_lt : e < length (d_hedges d) /\ t < length (d_hedges d) /\ en < length (d_hedges d) /\
          ep < length (d_hedges d) /\ tp < length (d_hedges d) /\ tn < length (d_hedges d);
  hc_d5 : distinct5 e t en ep tp;
  hc_rev_e : rev e = t;
  hc_rev_e1 : rev e1 = t1;
  hc_rev_e2 : rev e2 = t2;
  hc_nx : e_next d e = en /\ e_next d en = ep /\ e_next d ep = e /\ e_next d tp = t /\ e_next d t = tn;
  hc_pv : e_prev d e = ep /\ e_prev d en = e /\ e_prev d ep = en /\ e_prev d t = tp /\ e_prev d tn = t;
  hc_fc : e_face d e = f1 /\ e_face d en = f1 /\ e_face d ep = f1 /\
          e_face d t = 0 /\ e_face d tp = 0 /\ e_face d tn = 0;
  hc_f : f1 <> 0 /\ f1 < length (d_faces d);
  hc_cl : forall x, x < length (d_hedges d) -> e_face d x = f1 -> x = e \/ x = en \/ x = ep;
  hc_og : e_origin d e = from /\ e_origin d en = to_ /\ e_origin d ep = v /\
          e_origin d t = to_ /\ e_origin d tn = from;
  hc_v : from < length (d_verts d) /\ to_ < length (d_verts d) /\ v < length (d_verts d);
  hc_tn : tn <> t
}.

Ltac sh_ctx C :=
  let C' := fresh "C" in pose proof C as C';
  destruct C' as [W He1 Ht1 He2 Ht2 Hnf Hnv Htf
    (He & Ht & Hen & Hep & Htp & Htn) D5 Hr0 Hr1 Hr2
    (Hnx_e & Hnx_en & Hnx_ep & Hnx_tp & Hnx_t)
    (Hpv_e & Hpv_en & Hpv_ep & Hpv_t & Hpv_tn)
    (Hfc_e & Hfc_en & Hfc_ep & Hfc_t & Hfc_tp & Hfc_tn)
    (Hf1z & Hf1lt) Hcl
    (Hog_e & Hog_en & Hog_ep & Hog_t & Hog_tn)
    (Hvfrom & Hvto & Hvv) Htnt].

Lemma SHctx_intro : forall d e, RWf d -> e < length (d_hedges d) -> e_face d e <> 0 -> e_face d (rev e) = 0 ->
  SHctx d e (e_rev e) (e_next d e) (e_prev d e) (e_prev d (e_rev e)) (e_next d (e_rev e))
     (normalized (num_undirected_edges d)) (e_rev (normalized (num_undirected_edges d)))
     (normalized (num_undirected_edges d + 1)) (e_rev (normalized (num_undirected_edges d + 1)))
     (e_face d e) (e_face d (e_rev e)) (num_faces d) (num_vertices d)
     (e_origin d (e_prev d e)) (e_to d e) (e_origin d e).
Proof.
  intros d e W He Hf Hft. change (e_rev e) with (rev e).
  pose proof (rw_rev_lt d W e He) as Ht.
  pose proof (normalized_eq d 0 W) as (Hn0 & Hn0').
  pose proof (normalized_eq d 1 W) as (Hn1 & Hn1').
  rewrite Nat.add_0_r in Hn0, Hn0'.
  assert (Hnn : e_next d (e_next d e) = e_prev d e) by (symmetry; apply rw_prev_nn; assumption).
  assert (Hfen : e_face d (e_next d e) = e_face d e) by (apply rw_face_next; assumption).
  assert (Hfep : e_face d (e_prev d e) = e_face d e) by (apply rw_face_prev; assumption).
  assert (Hftn : e_face d (e_next d (rev e)) = 0) by (rewrite rw_face_next; assumption).
  assert (Hftp : e_face d (e_prev d (rev e)) = 0) by (rewrite rw_face_prev; assumption).
  constructor.
  - exact W.
  - lia.
  - lia.
  - lia.
  - lia.
  - reflexivity.
  - reflexivity.
  - exact Hft.
  - repeat split; auto using rw_next_lt, rw_prev_lt.
  - unfold distinct5.
    assert (Ha1 : e <> e_next d e) by (apply not_eq_sym, rw_next_ne; assumption).
    assert (Ha2 : e <> e_prev d e) by (apply not_eq_sym, rw_prev_ne; assumption).
    assert (Ha3 : e_next d e <> e_prev d e) by (apply rw_next_ne_prev; assumption).
    assert (Hb2 : rev e <> e_prev d (rev e)) by (apply not_eq_sym, rw_prev_ne; assumption).
    assert (Hb0 : e <> rev e) by (apply not_eq_sym, rev_neq).
    repeat split; try assumption;
      intro Heq; apply (f_equal (e_face d)) in Heq; congruence.
  - reflexivity.
  - reflexivity.
  - reflexivity.
  - repeat split; auto using rw_next_prev.
  - repeat split; auto using rw_prev_next.
    rewrite <- Hnn. apply rw_prev_next, rw_next_lt; assumption.
  - repeat split; assumption.
  - split; [assumption|apply rw_face_lt; assumption].
  - intros x Hx Hfx. rewrite <- Hnn. apply rw_same_face; assumption.
  - repeat split.
    + rewrite rw_org_next by assumption. reflexivity.
    + rewrite rw_org_next by assumption. unfold e_to, e_rev. rewrite rev_invol. reflexivity.
  - repeat split; auto using rw_org_lt, rw_prev_lt, rw_to_lt.
  - apply rw_next_ne; assumption.
Qed.

Section SH.
Variables (d : dcel) (e t en ep tp tn e1 t1 e2 t2 f1 tf nf nv v to_ from : nat) (nvd : vdata).
Hypothesis C : SHctx d e t en ep tp tn e1 t1 e2 t2 f1 tf nf nv v to_ from.
Local Notation d' := (sh_chain d e t en ep tp e1 t1 e2 t2 f1 tf nf nv v to_ nvd).
Local Notation NH := (length (d_hedges d)).
Local Notation NV := (length (d_verts d)).
Local Notation NF := (length (d_faces d)).

Definition sh_other (x : nat) : Prop :=
  x < NH /\ x <> e /\ x <> t /\ x <> en /\ x <> ep /\ x <> tp.

Ltac neq5 :=
  solve [ match goal with D : distinct5 _ _ _ _ _ |- _ =>
            unfold distinct5 in D; decompose [and] D; first [assumption | apply not_eq_sym; assumption] end
        | match goal with O : sh_other _ |- _ =>
            unfold sh_other in O; decompose [and] O; first [assumption | apply not_eq_sym; assumption] end
        | lia ].

Lemma sh_names :
  normalized (num_undirected_edges d) = e1 /\ normalized (num_undirected_edges d + 1) = e2.
Proof.
  sh_ctx C. pose proof (r_even d W) as Hev. unfold normalized, num_undirected_edges.
  clear - Hev He1 He2. lia.
Qed.

(* open d' = fst (split_half_edge d e nvd) into the generated chain and rename the values it reads from d to the
   names of the context (after sh_ctx C); independent of the order of the writes *)
Ltac sh_open :=
  let Q1 := fresh "Q" in let Q2 := fresh "Q" in
  destruct sh_names as (Q1 & Q2);
  unfold sh_chain, DcelOps.split_half_edge; cbv zeta; cbn [fst];
  rewrite ?Q1, ?Q2;
  ctx_rename;
  match goal with D : distinct5 _ _ _ _ _ |- _ =>
    let D' := fresh "D" in pose proof D as D'; unfold distinct5 in D'; decompose [and] D'; clear D' end;
  try match goal with O : sh_other _ |- _ =>
    let O' := fresh "O" in pose proof O as O'; unfold sh_other in O'; decompose [and] O'; clear O' end.

Ltac ev5 := sh_open; ch_fields; ch_read; ch_fin.

Lemma sh_len : length (d_hedges d') = NH + 4.
Proof using Type. unfold sh_chain, DcelOps.split_half_edge; cbv zeta; cbn [fst]. ch_len. lia. Qed.

Lemma sh_he_e : half_edge d' e = mkh t1 ep f1 from.
Proof. sh_ctx C. ev5. Qed.
Lemma sh_he_en : half_edge d' en = mkh e1 e2 nf to_.
Proof. sh_ctx C. ev5. Qed.
Lemma sh_he_ep : half_edge d' ep = mkh e t1 f1 v.
Proof. sh_ctx C. ev5. Qed.
Lemma sh_he_t : half_edge d' t = mkh tn t2 0 nv.
Proof. sh_ctx C. ev5. Qed.
Lemma sh_he_tp : half_edge d' tp = mkh t2 (e_prev d tp) 0 (e_origin d tp).
Proof. sh_ctx C. ev5. Qed.
Lemma sh_he_e1 : half_edge d' e1 = mkh e2 en nf v.
Proof. sh_ctx C. ev5. Qed.
Lemma sh_he_t1 : half_edge d' t1 = mkh ep e f1 nv.
Proof. sh_ctx C. ev5. Qed.
Lemma sh_he_e2 : half_edge d' e2 = mkh en e1 nf nv.
Proof. sh_ctx C. ev5. Qed.
Lemma sh_he_t2 : half_edge d' t2 = mkh t tp 0 to_.
Proof. sh_ctx C. ev5. Qed.
Lemma sh_he_other : forall x, sh_other x -> half_edge d' x = half_edge d x.
Proof. intros x O. sh_ctx C. assert (Hx : x < NH) by apply O. sh_open. ch_read. reflexivity. Qed.

Lemma sh_rev_e : rev e = t. Proof. sh_ctx C; assumption. Qed.
Lemma sh_rev_t : rev t = e. Proof. rewrite <- sh_rev_e; apply rev_invol. Qed.
Lemma sh_rev_e1 : rev e1 = t1. Proof. sh_ctx C; assumption. Qed.
Lemma sh_rev_t1 : rev t1 = e1. Proof. rewrite <- sh_rev_e1; apply rev_invol. Qed.
Lemma sh_rev_e2 : rev e2 = t2. Proof. sh_ctx C; assumption. Qed.
Lemma sh_rev_t2 : rev t2 = e2. Proof. rewrite <- sh_rev_e2; apply rev_invol. Qed.

Hint Rewrite sh_he_e sh_he_en sh_he_ep sh_he_t sh_he_tp sh_he_e1 sh_he_t1 sh_he_e2 sh_he_t2
             sh_rev_e sh_rev_t sh_rev_e1 sh_rev_t1 sh_rev_e2 sh_rev_t2 : sh.

Ltac shv :=
  unfold e_to, e_rev, e_next, e_prev, e_face, e_origin;
  repeat (progress (autorewrite with sh; cbn [h_next h_prev h_face h_org])).

Lemma sh_classify : forall x, x < NH + 4 ->
  x = e \/ x = t \/ x = en \/ x = ep \/ x = tp \/
  x = e1 \/ x = t1 \/ x = e2 \/ x = t2 \/ sh_other x.
Proof.
  intros x Hx. sh_ctx C.
  destruct (Nat.eq_dec x e) as [|N1]; [tauto|].
  destruct (Nat.eq_dec x t) as [|N2]; [tauto|].
  destruct (Nat.eq_dec x en) as [|N3]; [tauto|].
  destruct (Nat.eq_dec x ep) as [|N4]; [tauto|].
  destruct (Nat.eq_dec x tp) as [|N5]; [tauto|].
  destruct (lt_dec x NH) as [Hlt|Hge].
  - do 9 right. unfold sh_other. clear - Hlt N1 N2 N3 N4 N5. tauto.
  - assert (Hn : x = e1 \/ x = t1 \/ x = e2 \/ x = t2).
    { clear - Hx Hge He1 Ht1 He2 Ht2. lia. }
    clear - Hn. tauto.
Qed.

Tactic Notation "sh_cases" ident(x) ident(Hx) ident(O) :=
  destruct (sh_classify x Hx) as [->|[->|[->|[->|[->|[->|[->|[->|[->|O]]]]]]]]].

(* frame lemmas, per field *)
Lemma sh_next_old : forall x, x < NH -> x <> e -> x <> en -> x <> tp -> e_next d' x = e_next d x.
Proof.
  intros x Hx N1 N2 N3. sh_ctx C. assert (Hx4 : x < NH + 4) by lia.
  sh_cases x Hx4 O; try contradiction; try lia.
  - shv. symmetry; exact Hnx_t.
  - shv. symmetry; exact Hnx_ep.
  - unfold e_next; rewrite sh_he_other by exact O; reflexivity.
Qed.

Lemma sh_prev_old : forall x, x < NH -> x <> en -> x <> ep -> x <> t -> e_prev d' x = e_prev d x.
Proof.
  intros x Hx N1 N2 N3. sh_ctx C. assert (Hx4 : x < NH + 4) by lia.
  sh_cases x Hx4 O; try contradiction; try lia.
  - shv. symmetry; exact Hpv_e.
  - shv. reflexivity.
  - unfold e_prev; rewrite sh_he_other by exact O; reflexivity.
Qed.

Lemma sh_face_old : forall x, x < NH -> x <> en -> e_face d' x = e_face d x.
Proof.
  intros x Hx N1. sh_ctx C. assert (Hx4 : x < NH + 4) by lia.
  sh_cases x Hx4 O; try contradiction; try lia.
  - shv. symmetry; exact Hfc_e.
  - shv. symmetry; exact Hfc_t.
  - shv. symmetry; exact Hfc_ep.
  - shv. symmetry; exact Hfc_tp.
  - unfold e_face; rewrite sh_he_other by exact O; reflexivity.
Qed.

Lemma sh_org_old : forall x, x < NH -> x <> t -> e_origin d' x = e_origin d x.
Proof.
  intros x Hx N1. sh_ctx C. assert (Hx4 : x < NH + 4) by lia.
  sh_cases x Hx4 O; try contradiction; try lia.
  - shv. symmetry; exact Hog_e.
  - shv. symmetry; exact Hog_en.
  - shv. symmetry; exact Hog_ep.
  - shv. reflexivity.
  - unfold e_origin; rewrite sh_he_other by exact O; reflexivity.
Qed.

Lemma sh_to_old : forall x, x < NH -> x <> e -> e_to d' x = e_to d x.
Proof.
  intros x Hx Ne. sh_ctx C. unfold e_to, e_rev. apply sh_org_old.
  - apply rw_rev_lt; assumption.
  - intro Heq. apply Ne. apply rev_inj. rewrite Heq. symmetry; apply sh_rev_e.
Qed.

Lemma sh_other_lt : forall x, sh_other x -> x < NH.
Proof. intros x O; apply O. Qed.

Lemma sh_other_of_face : forall x, x < NH -> e_face d x <> f1 -> e_face d x <> 0 -> sh_other x.
Proof.
  intros x Hx N0 N1. sh_ctx C. unfold sh_other.
  repeat split; try assumption; intros ->; congruence.
Qed.

(* successor / predecessor of an untouched half-edge *)
Lemma sh_next_of_other : forall x, sh_other x ->
  e_next d x < NH /\ e_next d x <> en /\ e_next d x <> ep /\ e_next d x <> t.
Proof.
  intros x O. sh_ctx C. destruct O as (Hx & N1 & N2 & N3 & N4 & N5).
  pose proof (rw_prev_next d W x Hx) as Hp.
  split; [apply rw_next_lt; assumption|].
  repeat split; intro Heq; rewrite Heq in Hp; congruence.
Qed.

Lemma sh_prev_of_other : forall x, sh_other x ->
  e_prev d x < NH /\ e_prev d x <> e /\ e_prev d x <> en /\ e_prev d x <> tp.
Proof.
  intros x O. sh_ctx C. destruct O as (Hx & N1 & N2 & N3 & N4 & N5).
  pose proof (rw_next_prev d W x Hx) as Hp.
  split; [apply rw_prev_lt; assumption|].
  repeat split; intro Heq; rewrite Heq in Hp; congruence.
Qed.

Lemma sh_to_d : e_to d en = v /\ e_to d ep = from /\ e_to d tp = to_ /\ e_to d t = from.
Proof.
  sh_ctx C.
  rewrite <- !(rw_org_next d W) by assumption.
  rewrite Hnx_en, Hnx_ep, Hnx_tp, Hnx_t. auto.
Qed.

Lemma sh_vne : to_ <> v /\ v <> from /\ e_origin d tp <> to_ /\ to_ <> from.
Proof.
  sh_ctx C. destruct sh_to_d as (T1 & T2 & T3 & T4).
  pose proof (rw_org_ne d W en Hen) as A1. pose proof (rw_org_ne d W ep Hep) as A2.
  pose proof (rw_org_ne d W tp Htp) as A3. pose proof (rw_org_ne d W t Ht) as A4.
  rewrite T1, Hog_en in A1. rewrite T2, Hog_ep in A2. rewrite T3 in A3. rewrite T4, Hog_t in A4.
  auto.
Qed.

Lemma sh_to_en : e_to d' en = v.
Proof. sh_ctx C. rewrite sh_to_old by neq5. apply sh_to_d. Qed.
Lemma sh_to_ep : e_to d' ep = from.
Proof. sh_ctx C. rewrite sh_to_old by neq5. apply sh_to_d. Qed.
Lemma sh_to_tp : e_to d' tp = to_.
Proof. sh_ctx C. rewrite sh_to_old by neq5. apply sh_to_d. Qed.

(* facts about tn = next t and prev tp, which may or may not be touched *)
Lemma sh_tn_facts : e_prev d' tn = t /\ e_face d' tn = 0 /\ e_origin d' tn = from.
Proof.
  sh_ctx C.
  assert (N1 : tn <> en) by (intros ->; congruence).
  assert (N2 : tn <> ep) by (intros ->; congruence).
  rewrite sh_prev_old, sh_face_old, sh_org_old by assumption. auto.
Qed.

Lemma sh_tpp_facts : e_prev d tp < NH /\ e_next d' (e_prev d tp) = tp.
Proof.
  sh_ctx C.
  pose proof (rw_prev_lt d W tp Htp) as Hlt.
  pose proof (rw_face_prev d W tp Htp) as Hfp. rewrite Hfc_tp in Hfp.
  split; [exact Hlt|].
  rewrite sh_next_old; [apply rw_next_prev; assumption|assumption| | |].
  - intros Heq; rewrite Heq in Hfp; congruence.
  - intros Heq; rewrite Heq in Hfp; congruence.
  - apply rw_prev_ne; assumption.
Qed.

Lemma sh_rng : forall x, x < NH + 4 ->
  e_next d' x < NH + 4 /\ e_prev d' x < NH + 4 /\ e_face d' x < NF + 1 /\ e_origin d' x < NV + 1.
Proof.
  intros x Hx. sh_ctx C.
  pose proof (rw_prev_lt d W tp Htp). pose proof (rw_org_lt d W tp Htp).
  sh_cases x Hx O; try (shv; lia).
  pose proof (sh_other_lt x O) as Hlt.
  unfold e_next, e_prev, e_face, e_origin. rewrite sh_he_other by exact O.
  pose proof (r_rng d W x Hlt) as Hr. unfold e_next, e_prev, e_face, e_origin in Hr. lia.
Qed.

Lemma sh_links : forall x, x < NH + 4 ->
  e_prev d' (e_next d' x) = x /\ e_next d' (e_prev d' x) = x /\
  e_face d' (e_next d' x) = e_face d' x /\
  e_origin d' (e_next d' x) = e_to d' x /\
  e_origin d' x <> e_to d' x.
Proof.
  intros x Hx. sh_ctx C. destruct sh_vne as (A1 & A2 & A3 & A4).
  sh_cases x Hx O.
  - (* e *) shv; repeat split; try reflexivity; lia.
  - (* t *) destruct sh_tn_facts as (B1 & B2 & B3).
    replace (e_next d' t) with tn by (shv; reflexivity).
    rewrite B1, B2, B3. shv. repeat split; try reflexivity; lia.
  - (* en *) rewrite sh_to_en. shv; repeat split; try reflexivity; lia.
  - (* ep *) rewrite sh_to_ep. shv; repeat split; try reflexivity; lia.
  - (* tp *) destruct sh_tpp_facts as (B1 & B2).
    replace (e_prev d' tp) with (e_prev d tp) by (shv; reflexivity).
    rewrite B2, sh_to_tp. shv. repeat split; try reflexivity; assumption.
  - shv; repeat split; try reflexivity; lia.
  - shv; repeat split; try reflexivity; lia.
  - shv; repeat split; try reflexivity; lia.
  - shv; repeat split; try reflexivity; lia.
  - pose proof (sh_other_lt x O) as Hlt.
    destruct (sh_next_of_other x O) as (Hn & Hn1 & Hn2 & Hn3).
    destruct (sh_prev_of_other x O) as (Hp & Hp1 & Hp2 & Hp3).
    rewrite (sh_next_old x), (sh_prev_old x) by (try assumption; neq5).
    rewrite (sh_prev_old (e_next d x)), (sh_next_old (e_prev d x)) by assumption.
    rewrite (sh_face_old (e_next d x)), (sh_face_old x) by (try assumption; neq5).
    rewrite (sh_org_old (e_next d x)), (sh_org_old x) by (try assumption; neq5).
    rewrite sh_to_old by (try assumption; neq5).
    apply (r_links d W x Hlt).
Qed.

Lemma sh_nfaces : length (d_faces d') = NF + 1.
Proof using Type. unfold sh_chain, DcelOps.split_half_edge; cbv zeta; cbn [fst]. ch_len. lia. Qed.

Lemma sh_adj_f1 : f_adjacent d' f1 = Some e.
Proof. sh_ctx C. sh_open. ch_read. reflexivity. Qed.

Lemma sh_adj_nf : f_adjacent d' nf = Some e2.
Proof. sh_ctx C. sh_open. ch_read. reflexivity. Qed.

Lemma sh_adj_old : forall f, f < NF -> f <> f1 -> f_adjacent d' f = f_adjacent d f.
Proof. intros f Hf N1. sh_ctx C. sh_open. ch_read. reflexivity. Qed.

Hint Rewrite sh_adj_f1 sh_adj_nf : sh.

Lemma sh_face_cases : forall f, f < NF + 1 -> f = f1 \/ f = nf \/ (f < NF /\ f <> f1).
Proof.
  intros f Hf. sh_ctx C.
  destruct (Nat.eq_dec f f1) as [|N1]; [tauto|].
  destruct (lt_dec f NF) as [Hlt|Hge]; [tauto|].
  right; left. clear - Hf Hge Hnf. lia.
Qed.

Lemma sh_adj_rng : forall f, f < NF + 1 -> forall a, f_adjacent d' f = Some a -> a < NH + 4.
Proof.
  intros f Hf a. sh_ctx C.
  destruct (sh_face_cases f Hf) as [->|[->|(Hlt & N1)]]; shv.
  1-2: intros Heq; injection Heq as <-; lia.
  rewrite sh_adj_old by assumption. intros Ha.
  pose proof (r_adj d W f Hlt a Ha). lia.
Qed.

Lemma sh_fptr : forall f, f < NF + 1 ->
  match f_adjacent d' f with
  | Some a => e_face d' a = f
  | None => f = 0 /\ NH + 4 = 0
  end.
Proof.
  intros f Hf. sh_ctx C.
  destruct (sh_face_cases f Hf) as [->|[->|(Hlt & N1)]]; shv; try reflexivity.
  rewrite sh_adj_old by assumption.
  pose proof (r_fptr d W f Hlt) as Hp. pose proof (r_adj d W f Hlt) as Hr.
  destruct (f_adjacent d f) as [a|].
  - change (e_face d' a = f). rewrite sh_face_old; [exact Hp|apply Hr; reflexivity|].
    intros ->. congruence.
  - lia.
Qed.

Lemma sh_tri : forall x, x < NH + 4 -> e_face d' x <> 0 ->
  e_next d' (e_next d' (e_next d' x)) = x /\
  exists a, f_adjacent d' (e_face d' x) = Some a /\ (x = a \/ x = e_next d' a \/ x = e_next d' (e_next d' a)).
Proof.
  intros x Hx. sh_ctx C.
  sh_cases x Hx O;
    try (intros _; shv; split; [reflexivity|]; eexists; split; [reflexivity|]; shv; tauto);
    try (shv; intros Hc; exfalso; apply Hc; reflexivity).
  intros Hfx. pose proof (sh_other_lt x O) as Hlt.
  assert (Hfx' : e_face d x <> 0).
  { rewrite sh_face_old in Hfx by (try assumption; neq5). exact Hfx. }
  assert (Hf1 : e_face d x <> f1).
  { intro Hc. destruct O as (_ & N1 & N2 & N3 & N4 & N5). destruct (Hcl x Hlt Hc) as [?|[?|?]]; contradiction. }
  assert (Hoth : forall y, y < NH -> e_face d y = e_face d x -> sh_other y).
  { intros y Hy Hfy. apply sh_other_of_face; [assumption| |]; rewrite Hfy; assumption. }
  assert (Hstep : forall y, y < NH -> e_face d y = e_face d x ->
             e_next d' y = e_next d y /\ e_next d y < NH /\ e_face d (e_next d y) = e_face d x).
  { intros y Hy Hfy. pose proof (Hoth y Hy Hfy) as Oy.
    split; [apply sh_next_old; try assumption; neq5|].
    split; [apply rw_next_lt; assumption|].
    rewrite rw_face_next by assumption. exact Hfy. }
  destruct (r_tri d W x Hlt Hfx') as (H3 & a & Ha & Hor).
  destruct (Hstep x Hlt eq_refl) as (S1 & S2 & S3).
  destruct (Hstep _ S2 S3) as (S4 & S5 & S6).
  destruct (Hstep _ S5 S6) as (S7 & _ & _).
  rewrite S1, S4, S7. split; [exact H3|].
  rewrite sh_face_old by (try assumption; neq5).
  pose proof (rw_face_lt d W x Hlt) as Hfl.
  rewrite sh_adj_old by assumption.
  pose proof (r_fptr d W _ Hfl) as Hp. rewrite Ha in Hp.
  pose proof (r_adj d W _ Hfl a Ha) as HaH.
  destruct (Hstep a HaH Hp) as (U1 & U2 & U3).
  destruct (Hstep _ U2 U3) as (U4 & _ & _).
  exists a. split; [exact Ha|]. rewrite U1, U4. exact Hor.
Qed.

Local Notation newv := (mkv (vd_x nvd) (vd_y nvd) (vd_d nvd) (Some e2)).

Lemma sh_nverts : length (d_verts d') = S NV.
Proof using Type. unfold sh_chain, DcelOps.split_half_edge; cbv zeta; cbn [fst]. ch_len. lia. Qed.

Lemma sh_vert_new : nth nv (d_verts d') dflt_v = newv.
Proof.
  sh_ctx C. apply ch_vrec_ext; cbn [v_x v_y v_data v_out]; sh_open; ch_read; reflexivity.
Qed.

Lemma sh_vert_to : nth to_ (d_verts d') dflt_v =
  let b := nth to_ (d_verts d) dflt_v in mkv (v_x b) (v_y b) (v_data b) (Some t2).
Proof.
  sh_ctx C. cbv zeta. apply ch_vrec_ext; cbn [v_x v_y v_data v_out]; sh_open; ch_read; reflexivity.
Qed.

Lemma sh_vert_old : forall u, u < NV -> u <> to_ -> nth u (d_verts d') dflt_v = nth u (d_verts d) dflt_v.
Proof.
  intros u Hu Nu. sh_ctx C. apply ch_vrec_ext; sh_open; ch_read; reflexivity.
Qed.

Lemma sh_vert_frame : forall u, u < NV ->
  let a := nth u (d_verts d') dflt_v in let b := nth u (d_verts d) dflt_v in
  v_x a = v_x b /\ v_y a = v_y b /\ v_data a = v_data b.
Proof.
  intros u Hu. cbv zeta. destruct (Nat.eq_dec u to_) as [->|Nu].
  - rewrite sh_vert_to. cbv zeta. cbn [v_x v_y v_data]. auto.
  - rewrite sh_vert_old by assumption. auto.
Qed.

Lemma sh_vert_cases : forall u, u < NV + 1 -> u = nv \/ u = to_ \/ (u < NV /\ u <> to_).
Proof.
  intros u Hu. sh_ctx C. destruct (Nat.eq_dec u to_) as [|N]; [tauto|].
  destruct (lt_dec u NV) as [Hlt|Hge]; [tauto|]. left. clear - Hu Hge Hnv. lia.
Qed.

Lemma sh_vptr : forall u, u < NV + 1 ->
  match v_out_edge d' u with
  | Some a => e_origin d' a = u
  | None => NH + 4 = 0
  end.
Proof.
  intros u Hu. sh_ctx C. unfold v_out_edge.
  destruct (sh_vert_cases u Hu) as [->|[->|(Hlt & Nu)]].
  - rewrite sh_vert_new. cbn [v_out]. shv. reflexivity.
  - rewrite sh_vert_to. cbv zeta. cbn [v_out]. shv. reflexivity.
  - rewrite sh_vert_old by assumption.
    pose proof (r_vptr d W u Hlt) as Hp. pose proof (r_vout d W u Hlt) as Hr. unfold v_out_edge in Hp, Hr.
    destruct (v_out (nth u (d_verts d) dflt_v)) as [a|].
    + rewrite sh_org_old; [exact Hp|apply Hr; reflexivity|].
      intros ->. apply Nu. rewrite <- Hp. exact Hog_t.
    + lia.
Qed.

Lemma sh_vout_rng : forall u, u < NV + 1 -> forall a, v_out_edge d' u = Some a -> a < NH + 4.
Proof.
  intros u Hu a. sh_ctx C. unfold v_out_edge.
  destruct (sh_vert_cases u Hu) as [->|[->|(Hlt & Nu)]].
  - rewrite sh_vert_new. cbn [v_out]. intros Heq; injection Heq as <-; lia.
  - rewrite sh_vert_to. cbv zeta. cbn [v_out]. intros Heq; injection Heq as <-; lia.
  - rewrite sh_vert_old by assumption. intros Ha.
    pose proof (r_vout d W u Hlt a Ha). lia.
Qed.

Lemma sh_flags : d_flags d' = d_flags d ++ [false; false].
Proof.
  unfold sh_chain, DcelOps.split_half_edge; cbv zeta; cbn [fst]. ch_tables.
  rewrite <- !app_assoc. reflexivity.
Qed.

Lemma sh_face_zero : forall x, x < NH -> (e_face d' x = 0 <-> e_face d x = 0).
Proof.
  intros x Hx. sh_ctx C. destruct (Nat.eq_dec x en) as [->|N].
  - shv. unfold e_face in Hfc_en. rewrite Hfc_en. pose proof (r_face1 d W). lia.
  - rewrite sh_face_old by assumption. reflexivity.
Qed.

Lemma sh_face_new : e_face d' e1 <> 0 /\ e_face d' t1 <> 0 /\ e_face d' e2 <> 0 /\ e_face d' t2 = 0.
Proof. sh_ctx C. pose proof (r_face1 d W). shv. repeat split; try lia. Qed.

Lemma sh_rwf : RWf d'.
Proof.
  sh_ctx C. constructor; rewrite ?sh_len, ?sh_nfaces, ?sh_nverts, ?sh_flags.
  - rewrite app_length. cbn [length]. pose proof (r_even d W). lia.
  - lia.
  - intros x Hx. pose proof (sh_rng x Hx). lia.
  - intros u Hu. apply sh_vout_rng. lia.
  - apply sh_adj_rng.
  - apply sh_links.
  - apply sh_fptr.
  - intros u Hu. apply sh_vptr. lia.
  - apply sh_tri.
Qed.

Lemma sh_outer : filter (fun x => e_face d' x =? 0) (seq 0 (length (d_hedges d'))) =
                 filter (fun x => e_face d x =? 0) (seq 0 NH) ++ [t2].
Proof.
  sh_ctx C. rewrite sh_len. rewrite seq_app, filter_app. cbn [Nat.add].
  f_equal.
  - apply filter_ext_in. intros x Hin. apply in_seq in Hin.
    pose proof (sh_face_zero x) as Hz.
    destruct (Nat.eqb_spec (e_face d' x) 0) as [E1|E1]; destruct (Nat.eqb_spec (e_face d x) 0) as [E2|E2];
      try reflexivity; exfalso; [apply E2|apply E1]; apply Hz; solve [lia | assumption].
  - replace (seq NH 4) with [e1; t1; e2; t2].
    2:{ cbn [seq]. repeat (f_equal; try lia). }
    destruct sh_face_new as (G1 & G2 & G3 & G4).
    cbn [filter].
    apply Nat.eqb_neq in G1, G2, G3. rewrite G1, G2, G3, G4. reflexivity.
Qed.

Lemma sh_main :
  RWf d' /\
  Raw.num_vertices d' = S NV /\
  Raw.num_undirected_edges d' = Raw.num_undirected_edges d + 2 /\
  Raw.num_faces d' = NF + 1 /\
  length (d_hedges d') = NH + 4 /\
  d_flags d' = d_flags d ++ [false; false] /\
  (forall u, u < NV ->
     let a := nth u (d_verts d') dflt_v in let b := nth u (d_verts d) dflt_v in
     v_x a = v_x b /\ v_y a = v_y b /\ v_data a = v_data b) /\
  nth nv (d_verts d') dflt_v = mkv (vd_x nvd) (vd_y nvd) (vd_d nvd) (Some e2) /\
  (forall x, x < NH -> (e_face d' x = 0 <-> e_face d x = 0)) /\
  (e_face d' e1 <> 0 /\ e_face d' t1 <> 0 /\ e_face d' e2 <> 0 /\ e_face d' t2 = 0) /\
  filter (fun x => e_face d' x =? 0) (seq 0 (length (d_hedges d'))) =
    filter (fun x => e_face d x =? 0) (seq 0 NH) ++ [t2] /\
  (e_origin d' e = from /\ e_to d' e = nv /\ e_origin d' e2 = nv /\ e_to d' e2 = to_).
Proof.
  split; [exact sh_rwf|].
  split; [exact sh_nverts|].
  split; [unfold Raw.num_undirected_edges; rewrite sh_flags, app_length; reflexivity|].
  split; [exact sh_nfaces|].
  split; [exact sh_len|].
  split; [exact sh_flags|].
  split; [exact sh_vert_frame|].
  split; [exact sh_vert_new|].
  split; [exact sh_face_zero|].
  split; [exact sh_face_new|].
  split; [exact sh_outer|].
  shv. auto.
Qed.
End SH.

Theorem split_half_edge_wf : forall d e v, DWf d -> e < length (d_hedges d) -> inner d e -> outer d (rev e) ->
   let r := DcelOps.split_half_edge d e v in let d' := fst r in
   let n := length (d_hedges d) in
      DWf d' /\ fst (snd r) = Raw.num_vertices d
   /\ Raw.num_vertices d' = S (Raw.num_vertices d) /\ Raw.num_undirected_edges d' = Raw.num_undirected_edges d + 2
   /\ Raw.num_faces d' = Raw.num_faces d + 1 /\ length (d_hedges d') = n + 4
   /\ d_flags d' = d_flags d ++ [false; false]
   /\ (forall u, u < Raw.num_vertices d -> let a := nth u (d_verts d') dflt_v in let b := nth u (d_verts d) dflt_v in
                 v_x a = v_x b /\ v_y a = v_y b /\ v_data a = v_data b)
   /\ (forall x, x < n -> (e_face d' x = 0 <-> e_face d x = 0))
   /\ (* of the four new half-edges n .. n+3 exactly the last one, the twin of the second returned half-edge, is outer *)
      (e_face d' n <> 0 /\ e_face d' (n + 1) <> 0 /\ e_face d' (n + 2) <> 0 /\ e_face d' (n + 3) = 0)
   /\ outer_edges (obs_of_dcel d') = outer_edges (obs_of_dcel d) ++ [n + 3]
   /\ length (outer_edges (obs_of_dcel d')) = S (length (outer_edges (obs_of_dcel d)))
   /\ snd (snd r) = (e, n + 2)
   /\ (let '(h0, h1) := snd (snd r) in
         (e_origin d' h0 = e_origin d e /\ e_to d' h0 = Raw.num_vertices d /\ e_origin d' h1 = Raw.num_vertices d /\ e_to d' h1 = e_to d e)).
Proof.
  intros d e v Wd He Hi Hot r d' n. subst d' r n. rewrite split_half_edge_unfold. cbn [fst snd].
  pose proof (DWf_RWf d Wd) as W.
  pose proof (SHctx_intro d e W He Hi Hot) as C.
  destruct (sh_main _ _ _ _ _ _ _ _ _ _ _ _ _ _ _ _ _ _ v C)
    as (R1 & R2 & R3 & R4 & R5 & R6 & R7 & R8 & R9 & R10 & R11 & R12).
  pose proof (hc_e1 _ _ _ _ _ _ _ _ _ _ _ _ _ _ _ _ _ _ C) as E1.
  pose proof (hc_t1 _ _ _ _ _ _ _ _ _ _ _ _ _ _ _ _ _ _ C) as E2.
  pose proof (hc_e2 _ _ _ _ _ _ _ _ _ _ _ _ _ _ _ _ _ _ C) as E3.
  pose proof (hc_t2 _ _ _ _ _ _ _ _ _ _ _ _ _ _ _ _ _ _ C) as E4.
  assert (Hout : forall dd, outer_edges (obs_of_dcel dd) =
                   filter (fun x => e_face dd x =? 0) (seq 0 (length (d_hedges dd)))) by reflexivity.
  split; [apply RWf_DWf; exact R1|].
  split; [reflexivity|].
  split; [exact R2|].
  split; [exact R3|].
  split; [exact R4|].
  split; [exact R5|].
  split; [exact R6|].
  split; [exact R7|].
  split; [exact R9|].
  split; [rewrite <- E4, <- E3, <- E2, <- E1; exact R10|].
  split; [rewrite !Hout, <- E4; exact R11|].
  split; [rewrite !Hout, R11, app_length; cbn [length]; lia|].
  split; [rewrite E3; reflexivity|].
  exact R12.
Qed.

(* the new vertex record *)
Theorem split_half_edge_extra : forall d e v, DWf d -> e < length (d_hedges d) -> inner d e -> outer d (rev e) ->
   let d' := fst (DcelOps.split_half_edge d e v) in
   nth (Raw.num_vertices d) (d_verts d') dflt_v = mkv (vd_x v) (vd_y v) (vd_d v) (Some (length (d_hedges d) + 2)).
Proof.
  intros d e v Wd He Hi Hot d'. subst d'. rewrite split_half_edge_unfold. cbn [fst snd].
  pose proof (DWf_RWf d Wd) as W.
  pose proof (SHctx_intro d e W He Hi Hot) as C.
  destruct (sh_main _ _ _ _ _ _ _ _ _ _ _ _ _ _ _ _ _ _ v C)
    as (R1 & R2 & R3 & R4 & R5 & R6 & R7 & R8 & R9 & R10 & R11 & R12).
  rewrite R8. rewrite (hc_e2 _ _ _ _ _ _ _ _ _ _ _ _ _ _ _ _ _ _ C). reflexivity.
Qed.

Print Assumptions split_edge_wf.
Print Assumptions split_edge_extra.
Print Assumptions split_half_edge_wf.
Print Assumptions split_half_edge_extra.
