(* Dcel/Raw.v -- the raw index-based DCEL of spade (src/delaunay_core/dcel.rs) as an immutable value and
   the state API against which the GENERATED primitives (Gen/DcelOps.v, translated from
   dcel_operations.rs) are written.  Vec indexing out of range is a Rust panic; here reads return a
   default and writes are no-ops -- the theorems about the primitives carry range preconditions. *)
From Coq Require Import ZArith List Bool Arith.
From SpadeV Require Import Obs.State Vmap.Model.
Import ListNotations.

Record vdata := mkvd { vd_x : Z; vd_y : Z; vd_d : Z }.          (* position bit patterns + payload *)

Record dcel := mkdcel {
  d_verts : list vrec;            (* VertexEntry { data, out_edge } *)
  d_hedges : list hrec;           (* EdgeEntry.entries flattened: half-edge 2k, 2k+1 of undirected edge k *)
  d_faces : list (option nat);    (* FaceEntry.adjacent_edge; face 0 is the outer face *)
  d_flags : list bool             (* undirected edge data (CdtEdge flag); new edges get the default `false` *)
}.

Definition dcel_new : dcel := mkdcel [] [] [None] [].            (* dcel_operations::new *)

Definition num_vertices (d : dcel) : nat := length (d_verts d).
Definition num_undirected_edges (d : dcel) : nat := length (d_flags d).
Definition num_directed_edges (d : dcel) : nat := length (d_hedges d).
Definition num_faces (d : dcel) : nat := length (d_faces d).

(* reads *)
Definition half_edge (d : dcel) (e : nat) : hrec := nth e (d_hedges d) dflt_h.
Definition e_next (d : dcel) (e : nat) : nat := h_next (half_edge d e).
Definition e_prev (d : dcel) (e : nat) : nat := h_prev (half_edge d e).
Definition e_face (d : dcel) (e : nat) : nat := h_face (half_edge d e).
Definition e_origin (d : dcel) (e : nat) : nat := h_org (half_edge d e).
Definition e_rev (e : nat) : nat := rev e.                        (* FixedDirectedEdgeHandle::rev: index xor 1 *)
Definition e_to (d : dcel) (e : nat) : nat := e_origin d (e_rev e).
Definition normalized (k : nat) : nat := 2 * k.                   (* new_normalized(undirected index) *)
Definition not_normalized (k : nat) : nat := 2 * k + 1.
Definition as_undirected (e : nat) : nat := Nat.div2 e.
Definition v_out_edge (d : dcel) (v : nat) : option nat := v_out (nth v (d_verts d) dflt_v).
Definition f_adjacent (d : dcel) (f : nat) : option nat := nth f (d_faces d) None.

(* writes *)
Definition upd_h (d : dcel) (e : nat) (f : hrec -> hrec) : dcel :=
  mkdcel (d_verts d) (set_nth e (f (half_edge d e)) (d_hedges d)) (d_faces d) (d_flags d).
Definition set_half_edge (d : dcel) (e : nat) (h : hrec) : dcel := upd_h d e (fun _ => h).
Definition set_next (d : dcel) (e x : nat) : dcel := upd_h d e (fun h => mkh x (h_prev h) (h_face h) (h_org h)).
Definition set_prev (d : dcel) (e x : nat) : dcel := upd_h d e (fun h => mkh (h_next h) x (h_face h) (h_org h)).
Definition set_face (d : dcel) (e x : nat) : dcel := upd_h d e (fun h => mkh (h_next h) (h_prev h) x (h_org h)).
Definition set_origin (d : dcel) (e x : nat) : dcel := upd_h d e (fun h => mkh (h_next h) (h_prev h) (h_face h) x).
Definition set_out_edge (d : dcel) (v : nat) (o : option nat) : dcel :=
  let r := nth v (d_verts d) dflt_v in
  mkdcel (set_nth v (mkv (v_x r) (v_y r) (v_data r) o) (d_verts d)) (d_hedges d) (d_faces d) (d_flags d).
Definition set_adjacent_edge (d : dcel) (f : nat) (o : option nat) : dcel :=
  mkdcel (d_verts d) (d_hedges d) (set_nth f o (d_faces d)) (d_flags d).
(* dcel.edges.push(EdgeEntry::new(normalized, not_normalized)) *)
Definition push_edge (d : dcel) (h0 h1 : hrec) : dcel :=
  mkdcel (d_verts d) (d_hedges d ++ [h0; h1]) (d_faces d) (d_flags d ++ [false]).
Definition push_face (d : dcel) (adjacent : option nat) : dcel :=
  mkdcel (d_verts d) (d_hedges d) (d_faces d ++ [adjacent]) (d_flags d).
Definition push_vertex (d : dcel) (v : vdata) (out : option nat) : dcel :=
  mkdcel (d_verts d ++ [mkv (vd_x v) (vd_y v) (vd_d v) out]) (d_hedges d) (d_faces d) (d_flags d).

(* relation to observed states *)
Definition dcel_of_obs (s : obs) : dcel := mkdcel (o_verts s) (o_hedges s) (o_faces s) (o_flags s).
