(* Dcel/WfCore.v -- link-level well-formedness of a raw DCEL, stated through the observed-state view.
   Definitions only. *)
From Coq Require Import ZArith List Bool Arith.
From SpadeV Require Import Obs.State Obs.Spec Obs.SpecProp Dcel.Raw Query.Hull Gen.Prelude Gen.Sizes.
Import ListNotations.

(* the observed state a raw DCEL presents through the public API (counters as the API computes them) *)
Definition obs_of_dcel (d : dcel) : obs :=
  let s0 := mkobs (Raw.num_vertices d) (Raw.num_undirected_edges d) (Raw.num_faces d)
                  (length (filter (fun b : bool => b) (d_flags d))) 0 0 false
                  (d_verts d) (d_hedges d) (d_faces d) (d_flags d) [] in
  let sz := mksizes (Raw.num_vertices d) (Raw.num_undirected_edges d) (Raw.num_faces d) in
  mkobs (Raw.num_vertices d) (Raw.num_undirected_edges d) (Raw.num_faces d)
        (length (filter (fun b : bool => b) (d_flags d)))
        (convex_hull_size sz) (num_inner_faces sz) (all_vertices_on_line sz)
        (d_verts d) (d_hedges d) (d_faces d) (d_flags d)
        (match hull_iter s0 with Some l => l | None => [] end).

(* the link-level clauses: everything except the orbit, simplicity and Euler clauses *)
Definition WfCore (s : obs) : Prop :=
  WfCounts s /\ WfRanges s /\ WfLinks s /\ WfFacePtrs s /\ WfVertexPtrs s /\ WfTriangles s.

Definition DWf (d : dcel) : Prop := WfCore (obs_of_dcel d).

(* half-edge e is a valid handle of d *)
Definition is_he (d : dcel) (e : nat) : Prop := e < Raw.num_directed_edges d.
Definition inner (d : dcel) (e : nat) : Prop := e_face d e <> 0.
Definition outer (d : dcel) (e : nat) : Prop := e_face d e = 0.
