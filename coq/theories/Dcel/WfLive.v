(* Dcel/WfLive.v -- link-level well-formedness of the LIVE part of a raw DCEL.

   While a vertex is being removed (Tri/Remove.v: isolate_vertex_and_fill_hole ... cleanup_isolated_vertex) the tables contain
   entries that are no longer referenced and whose links are stale: the spokes of the removed vertex, the faces around it, the
   vertex itself; and, while the hole is being re-triangulated, half-edges on the boundary of the unfilled hole whose next / prev /
   face fields have not been written yet.  `DW` (Dcel/ProofsFlip.v) quantifies over all table entries and does not hold in
   these states.  `DWL d LE CE LF LV CV` is DW relative to predicates that say which entries count:

     LE  live half-edges        (closed under rev; origin field valid)
     CE  complete half-edges    (live, and next / prev / face valid: every link clause of DW)
     LF  live faces             (adjacent edge valid)
     LV  live vertices
     CV  complete vertices      (live, and out_edge valid)

   Dead entries are unconstrained.  With every predicate = "index in range" DWL is DW (DWL_full_DW).  `DWX d LE LF LV` is the
   case without pending entries (CE = LE, CV = LV).

   PART 1  definition, DW <-> DWL on the full index ranges, extensionality in the predicates
   PART 2  the consequences used everywhere (analogues of the dw_* lemmas of Dcel/ProofsFlip.v) *)
From Coq Require Import ZArith List Bool Arith Lia.
From SpadeV Require Import Obs.State Vmap.Model Dcel.Raw Dcel.WfCore Dcel.ProofsFlip.
Import ListNotations.

(* ================================================================================================ *)
(* PART 1.  definition                                                                               *)
(* ================================================================================================ *)

Record DWL (d : dcel) (LE CE : nat -> Prop) (LF LV CV : nat -> Prop) : Prop := mkDWL {
  wl_even : length (d_flags d) * 2 = length (d_hedges d);
  wl_face1 : 1 <= length (d_faces d);
  wl_LE_lt : forall e, LE e -> e < length (d_hedges d);
  wl_LE_rev : forall e, LE e -> LE (rev e);
  wl_CE_LE : forall e, CE e -> LE e;
  wl_LF_lt : forall f, LF f -> f < length (d_faces d);
  wl_LV_lt : forall w, LV w -> w < length (d_verts d);
  wl_CV_LV : forall w, CV w -> LV w;
  wl_org : forall e, LE e -> LV (e_origin d e) /\ e_origin d e <> e_origin d (rev e);
  wl_rng : forall e, CE e -> CE (e_next d e) /\ CE (e_prev d e) /\ LF (e_face d e);
  wl_vout : forall w, CV w ->
      match v_out_edge d w with
      | Some a => LE a /\ e_origin d a = w
      | None => length (d_hedges d) = 0
      end;
  wl_adj : forall f, LF f ->
      match f_adjacent d f with
      | Some a => CE a /\ e_face d a = f
      | None => f = 0 /\ length (d_hedges d) = 0
      end;
  wl_links : forall e, CE e ->
      e_prev d (e_next d e) = e /\ e_next d (e_prev d e) = e /\
      e_face d (e_next d e) = e_face d e /\
      e_origin d (e_next d e) = e_origin d (rev e);
  wl_tri : forall e, CE e -> e_face d e <> 0 ->
      e_next d (e_next d (e_next d e)) = e /\
      exists a, f_adjacent d (e_face d e) = Some a /\ (e = a \/ e = e_next d a \/ e = e_next d (e_next d a))
}.

Definition DWX (d : dcel) (LE LF LV : nat -> Prop) : Prop := DWL d LE LE LF LV LV.

Definition all_he (d : dcel) (e : nat) : Prop := e < length (d_hedges d).
Definition all_f (d : dcel) (f : nat) : Prop := f < length (d_faces d).
Definition all_v (d : dcel) (w : nat) : Prop := w < length (d_verts d).

Lemma DW_DWX_full : forall d, DW d -> DWX d (all_he d) (all_f d) (all_v d).
Proof.
  intros d W. unfold DWX, all_he, all_f, all_v. constructor.
  - apply (dw_even d W).
  - apply (dw_face1 d W).
  - intros e H. exact H.
  - intros e H. apply dw_rev_lt; assumption.
  - intros e H. exact H.
  - intros f H. exact H.
  - intros w H. exact H.
  - intros w H. exact H.
  - intros e H. split; [apply dw_org_lt; assumption|apply dw_org_neq; assumption].
  - intros e H. destruct (dw_rng d W e H) as (A & B & C & _). repeat split; assumption.
  - intros w H. pose proof (dw_vptr d W w H) as P. pose proof (dw_vout_rng d W w H) as R.
    destruct (v_out_edge d w) as [a|]; [|exact P]. split; [apply R; reflexivity|exact P].
  - intros f H. pose proof (dw_fptr d W f H) as P. pose proof (dw_adj_rng d W f H) as R.
    destruct (f_adjacent d f) as [a|]; [|exact P]. split; [apply R; reflexivity|exact P].
  - intros e H. destruct (dw_links d W e H) as (A & B & C & D & _). repeat split; assumption.
  - intros e H. apply (dw_tri d W e H).
Qed.

Lemma DWX_full_DW : forall d LE LF LV,
  DWX d LE LF LV ->
  (forall e, e < length (d_hedges d) -> LE e) ->
  (forall f, f < length (d_faces d) -> LF f) ->
  (forall w, w < length (d_verts d) -> LV w) ->
  DW d.
Proof.
  intros d LE LF LV X HE HF HV. unfold DWX in X. constructor.
  - apply (wl_even _ _ _ _ _ _ X).
  - apply (wl_face1 _ _ _ _ _ _ X).
  - intros e H. destruct (wl_rng _ _ _ _ _ _ X e (HE e H)) as (A & B & C).
    destruct (wl_org _ _ _ _ _ _ X e (HE e H)) as (D & _).
    repeat split.
    + apply (wl_LE_lt _ _ _ _ _ _ X). exact A.
    + apply (wl_LE_lt _ _ _ _ _ _ X). exact B.
    + apply (wl_LF_lt _ _ _ _ _ _ X). exact C.
    + apply (wl_LV_lt _ _ _ _ _ _ X). exact D.
  - intros w H a Ha. pose proof (wl_vout _ _ _ _ _ _ X w (HV w H)) as P. rewrite Ha in P.
    apply (wl_LE_lt _ _ _ _ _ _ X). apply P.
  - intros f H a Ha. pose proof (wl_adj _ _ _ _ _ _ X f (HF f H)) as P. rewrite Ha in P.
    apply (wl_LE_lt _ _ _ _ _ _ X). apply P.
  - intros e H. destruct (wl_links _ _ _ _ _ _ X e (HE e H)) as (A & B & C & D).
    destruct (wl_org _ _ _ _ _ _ X e (HE e H)) as (_ & N). repeat split; assumption.
  - intros f H. pose proof (wl_adj _ _ _ _ _ _ X f (HF f H)) as P.
    destruct (f_adjacent d f) as [a|]; [apply P|exact P].
  - intros w H. pose proof (wl_vout _ _ _ _ _ _ X w (HV w H)) as P.
    destruct (v_out_edge d w) as [a|]; [apply P|exact P].
  - intros e H. apply (wl_tri _ _ _ _ _ _ X e (HE e H)).
Qed.

(* the predicates only matter up to equivalence *)
Lemma DWL_ext : forall d LE CE LF LV CV LE' CE' LF' LV' CV',
  (forall e, LE e <-> LE' e) -> (forall e, CE e <-> CE' e) -> (forall f, LF f <-> LF' f) ->
  (forall w, LV w <-> LV' w) -> (forall w, CV w <-> CV' w) ->
  DWL d LE CE LF LV CV -> DWL d LE' CE' LF' LV' CV'.
Proof.
  intros d LE CE LF LV CV LE' CE' LF' LV' CV' E1 E2 E3 E4 E5 X. constructor.
  - apply (wl_even _ _ _ _ _ _ X).
  - apply (wl_face1 _ _ _ _ _ _ X).
  - intros e H. apply (wl_LE_lt _ _ _ _ _ _ X). apply E1. exact H.
  - intros e H. apply E1. apply (wl_LE_rev _ _ _ _ _ _ X). apply E1. exact H.
  - intros e H. apply E1. apply (wl_CE_LE _ _ _ _ _ _ X). apply E2. exact H.
  - intros f H. apply (wl_LF_lt _ _ _ _ _ _ X). apply E3. exact H.
  - intros w H. apply (wl_LV_lt _ _ _ _ _ _ X). apply E4. exact H.
  - intros w H. apply E4. apply (wl_CV_LV _ _ _ _ _ _ X). apply E5. exact H.
  - intros e H. destruct (wl_org _ _ _ _ _ _ X e (proj2 (E1 e) H)) as (A & B). split; [apply E4; exact A|exact B].
  - intros e H. destruct (wl_rng _ _ _ _ _ _ X e (proj2 (E2 e) H)) as (A & B & C).
    repeat split; [apply E2; exact A|apply E2; exact B|apply E3; exact C].
  - intros w H. pose proof (wl_vout _ _ _ _ _ _ X w (proj2 (E5 w) H)) as P.
    destruct (v_out_edge d w) as [a|]; [|exact P]. destruct P as (A & B). split; [apply E1; exact A|exact B].
  - intros f H. pose proof (wl_adj _ _ _ _ _ _ X f (proj2 (E3 f) H)) as P.
    destruct (f_adjacent d f) as [a|]; [|exact P]. destruct P as (A & B). split; [apply E2; exact A|exact B].
  - intros e H. apply (wl_links _ _ _ _ _ _ X e (proj2 (E2 e) H)).
  - intros e H. apply (wl_tri _ _ _ _ _ _ X e (proj2 (E2 e) H)).
Qed.

(* ================================================================================================ *)
(* PART 2.  consequences                                                                             *)
(* ================================================================================================ *)
Section DWLFacts.
Variable d : dcel.
Variables LE CE LF LV CV : nat -> Prop.
Hypothesis X : DWL d LE CE LF LV CV.
Notation n := (length (d_hedges d)).

Lemma wl_CE_lt : forall e, CE e -> e < n.
Proof. intros e H. apply (wl_LE_lt _ _ _ _ _ _ X). apply (wl_CE_LE _ _ _ _ _ _ X). exact H. Qed.
Lemma wl_CE_next : forall e, CE e -> CE (e_next d e).
Proof. intros e H. apply (wl_rng _ _ _ _ _ _ X e H). Qed.
Lemma wl_CE_prev : forall e, CE e -> CE (e_prev d e).
Proof. intros e H. apply (wl_rng _ _ _ _ _ _ X e H). Qed.
Lemma wl_LF_face : forall e, CE e -> LF (e_face d e).
Proof. intros e H. apply (wl_rng _ _ _ _ _ _ X e H). Qed.
Lemma wl_LV_org : forall e, LE e -> LV (e_origin d e).
Proof. intros e H. apply (wl_org _ _ _ _ _ _ X e H). Qed.
Lemma wl_org_neq : forall e, LE e -> e_origin d e <> e_origin d (rev e).
Proof. intros e H. apply (wl_org _ _ _ _ _ _ X e H). Qed.

Lemma wl_prev_next : forall e, CE e -> e_prev d (e_next d e) = e.
Proof. intros e H. apply (wl_links _ _ _ _ _ _ X e H). Qed.
Lemma wl_next_prev : forall e, CE e -> e_next d (e_prev d e) = e.
Proof. intros e H. apply (wl_links _ _ _ _ _ _ X e H). Qed.
Lemma wl_face_next : forall e, CE e -> e_face d (e_next d e) = e_face d e.
Proof. intros e H. apply (wl_links _ _ _ _ _ _ X e H). Qed.
Lemma wl_face_prev : forall e, CE e -> e_face d (e_prev d e) = e_face d e.
Proof.
  intros e H. rewrite <- (wl_face_next (e_prev d e)) by (apply wl_CE_prev; exact H).
  rewrite wl_next_prev by exact H. reflexivity.
Qed.
Lemma wl_org_next : forall e, CE e -> e_origin d (e_next d e) = e_origin d (rev e).
Proof. intros e H. apply (wl_links _ _ _ _ _ _ X e H). Qed.

Lemma wl_next_neq : forall e, CE e -> e_next d e <> e.
Proof.
  intros e H E. apply (wl_org_neq e (wl_CE_LE _ _ _ _ _ _ X e H)). rewrite <- (wl_org_next e H), E. reflexivity.
Qed.
Lemma wl_prev_neq : forall e, CE e -> e_prev d e <> e.
Proof.
  intros e H E. apply (wl_next_neq (e_prev d e)); [apply wl_CE_prev; exact H|].
  rewrite wl_next_prev by exact H. symmetry. exact E.
Qed.
Lemma wl_next_inj : forall a b, CE a -> CE b -> e_next d a = e_next d b -> a = b.
Proof. intros a b Ha Hb E. rewrite <- (wl_prev_next a Ha), <- (wl_prev_next b Hb), E. reflexivity. Qed.
Lemma wl_prev_inj : forall a b, CE a -> CE b -> e_prev d a = e_prev d b -> a = b.
Proof. intros a b Ha Hb E. rewrite <- (wl_next_prev a Ha), <- (wl_next_prev b Hb), E. reflexivity. Qed.

Lemma wl_inner_next : forall e, CE e -> inner d e -> inner d (e_next d e).
Proof. intros e H I. unfold inner in *. rewrite wl_face_next by exact H. exact I. Qed.
Lemma wl_inner_prev : forall e, CE e -> inner d e -> inner d (e_prev d e).
Proof. intros e H I. unfold inner in *. rewrite wl_face_prev by exact H. exact I. Qed.

Lemma wl_tri3 : forall e, CE e -> inner d e -> e_next d (e_next d (e_next d e)) = e.
Proof. intros e H I. apply (wl_tri _ _ _ _ _ _ X e H I). Qed.

Lemma wl_next_next : forall e, CE e -> inner d e -> e_next d (e_next d e) = e_prev d e.
Proof.
  intros e H I. rewrite <- (wl_tri3 e H I) at 2.
  rewrite wl_prev_next; [reflexivity|]. apply wl_CE_next, wl_CE_next, H.
Qed.
Lemma wl_prev_prev : forall e, CE e -> inner d e -> e_prev d (e_prev d e) = e_next d e.
Proof.
  intros e H I. rewrite <- (wl_next_next e H I). apply wl_prev_next. apply wl_CE_next, H.
Qed.

Lemma wl_next_prev_neq : forall e, CE e -> inner d e -> e_next d e <> e_prev d e.
Proof.
  intros e H I E. apply (wl_next_neq e H).
  assert (Y : e_next d (e_next d e) = e) by (rewrite E; apply wl_next_prev; exact H).
  pose proof (wl_tri3 e H I) as T. rewrite Y in T. exact T.
Qed.

(* every complete half-edge of the inner face of e is one of e, next e, prev e *)
Lemma wl_same_face : forall e x, CE e -> CE x -> inner d e -> e_face d x = e_face d e ->
  x = e \/ x = e_next d e \/ x = e_prev d e.
Proof.
  intros e x He Hx I Fx.
  destruct (wl_tri _ _ _ _ _ _ X e He I) as (_ & a & Ha & Ea).
  assert (Ix : e_face d x <> 0) by (rewrite Fx; exact I).
  destruct (wl_tri _ _ _ _ _ _ X x Hx Ix) as (_ & a' & Ha' & Ea').
  rewrite Fx, Ha in Ha'. injection Ha' as <-.
  pose proof (wl_adj _ _ _ _ _ _ X (e_face d e) (wl_LF_face e He)) as P. rewrite Ha in P. destruct P as (Ca & Fa).
  assert (Ia : inner d a) by (unfold inner; rewrite Fa; exact I).
  pose proof (wl_tri3 a Ca Ia) as T3.
  pose proof (wl_next_next a Ca Ia) as NN.
  pose proof (wl_prev_next a Ca) as PN.
  pose proof (wl_next_prev a Ca) as NP.
  pose proof (wl_prev_prev a Ca Ia) as PP.
  destruct Ea as [-> | [-> | ->]]; destruct Ea' as [-> | [-> | ->]];
    first [ left; reflexivity | right; left; reflexivity | right; right; exact NN
          | right; right; symmetry; exact PN | right; left; symmetry; exact T3
          | right; right; symmetry; apply wl_prev_next; apply wl_CE_next; exact Ca ].
Qed.

Lemma wl_next_neq_rev : forall e, CE e -> inner d e -> e_next d e <> rev e.
Proof.
  intros e H I E.
  pose proof (wl_CE_prev e H) as Hp.
  apply (wl_org_neq (e_prev d e) (wl_CE_LE _ _ _ _ _ _ X _ Hp)).
  rewrite <- (wl_org_next (e_prev d e) Hp), (wl_next_prev e H).
  rewrite <- (wl_next_next e H I).
  rewrite (wl_org_next (e_next d e)) by (apply wl_CE_next; exact H).
  rewrite E, rev_rev. reflexivity.
Qed.

Lemma wl_prev_neq_rev : forall e, CE e -> inner d e -> e_prev d e <> rev e.
Proof.
  intros e H I E.
  assert (Hr : CE (rev e)) by (rewrite <- E; apply wl_CE_prev; exact H).
  assert (Ir : inner d (rev e)) by (rewrite <- E; apply wl_inner_prev; assumption).
  apply (wl_next_neq_rev (rev e) Hr Ir). rewrite rev_rev, <- E. apply wl_next_prev. exact H.
Qed.

Lemma wl_rev_face_neq : forall e, CE e -> CE (rev e) -> inner d e -> e_face d (rev e) <> e_face d e.
Proof.
  intros e H Hr I F.
  destruct (wl_same_face e (rev e) H Hr I F) as [E|[E|E]].
  - exact (rev_neq e E).
  - exact (wl_next_neq_rev e H I (eq_sym E)).
  - exact (wl_prev_neq_rev e H I (eq_sym E)).
Qed.

(* all the local facts about the inner triangle of a complete half-edge x, in one package *)
Lemma wl_tri_facts : forall x, CE x -> inner d x ->
  let xn := e_next d x in let xp := e_prev d x in
  CE xn /\ CE xp /\
  e_next d xn = xp /\ e_next d xp = x /\ e_prev d xn = x /\ e_prev d xp = xn /\
  e_face d xn = e_face d x /\ e_face d xp = e_face d x /\
  xn <> x /\ xp <> x /\ xn <> xp /\
  e_origin d xn = e_origin d (rev x) /\ e_origin d (rev xn) = e_origin d xp /\ e_origin d (rev xp) = e_origin d x.
Proof.
  intros x H I. cbv zeta.
  pose proof (wl_CE_next x H) as Ln. pose proof (wl_CE_prev x H) as Lp.
  repeat split.
  - exact Ln.
  - exact Lp.
  - apply wl_next_next; assumption.
  - apply wl_next_prev; assumption.
  - apply wl_prev_next; assumption.
  - apply wl_prev_prev; assumption.
  - apply wl_face_next; assumption.
  - apply wl_face_prev; assumption.
  - apply wl_next_neq; assumption.
  - apply wl_prev_neq; assumption.
  - apply wl_next_prev_neq; assumption.
  - apply wl_org_next; assumption.
  - rewrite <- (wl_org_next (e_next d x) Ln). rewrite wl_next_next by assumption. reflexivity.
  - rewrite <- (wl_org_next (e_prev d x) Lp). rewrite wl_next_prev by assumption. reflexivity.
Qed.

Lemma wl_rev_lt : forall e, e < n -> rev e < n.
Proof. intros e H. rewrite <- (wl_even _ _ _ _ _ _ X) in *. rewrite Nat.mul_comm in *. apply rev_lt_even. exact H. Qed.

Lemma wl_double_lt : forall k, k < Raw.num_undirected_edges d -> 2 * k < n /\ 2 * k + 1 < n.
Proof. intros k H. unfold Raw.num_undirected_edges in H. rewrite <- (wl_even _ _ _ _ _ _ X). lia. Qed.

End DWLFacts.
