(* Dcel/WfLiveFlip.v -- flip_cw (Gen/DcelOps.v) preserves the RELATIVISED link-level well-formedness DWX (Dcel/WfLive.v).

   Dcel/ProofsFlip.v proves that flip_cw preserves DW, which constrains every table entry.  While a vertex is being
   removed the tables contain dead entries with stale links and only `DWX d LE LF LV` holds.  This file re-does the flip
   argument for DWX, with the SAME predicates before and after: the flip does not change a table length, and it maps
   live entries to live entries (the six half-edges of the two triangles of a live inner edge are live, and so are
   their faces and origins).

   PART 1  the pre-state facts about the two triangles of a live half-edge e with both sides inner
   PART 2  flip_cw_post_live : the pointwise description FlipPost of the generated flip_cw, from DWX
   PART 3  FlipPost + DWX d  =>  DWX d'   (one lemma per clause of DWL), theorem flip_DWX
   PART 4  flip_cw_DWX *)
From Coq Require Import ZArith List Bool Arith Lia.
From SpadeV Require Import Obs.State Vmap.Model Dcel.Raw Dcel.Chain Dcel.WfCore Gen.DcelOps Dcel.ProofsFlip Dcel.WfLive.
Import ListNotations.

(* ================================================================================================ *)
(* PART 1.  pre-state facts                                                                          *)
(* ================================================================================================ *)
Section FlipLivePre.
Variables (d : dcel) (e : nat).
Variables LE LF LV : nat -> Prop.
Hypothesis X : DWL d LE LE LF LV LV.
Hypothesis Le : LE e.
Hypothesis Ie : inner d e.
Hypothesis It : inner d (rev e).

Notation nn := (length (d_hedges d)).
Notation tw := (rev e).
Notation en := (e_next d e).
Notation ep := (e_prev d e).
Notation tn := (e_next d (rev e)).
Notation tp := (e_prev d (rev e)).
Notation fe := (e_face d e).
Notation ft := (e_face d (rev e)).

Lemma lfp_He : e < nn.
Proof. apply (wl_LE_lt _ _ _ _ _ _ X). exact Le. Qed.

Lemma lfp_Lt : LE tw.
Proof. apply (wl_LE_rev _ _ _ _ _ _ X). exact Le. Qed.

Lemma lfp_Ht : tw < nn.
Proof. apply (wl_LE_lt _ _ _ _ _ _ X). exact lfp_Lt. Qed.

(* the six half-edges are live *)
Lemma lfp_live : LE en /\ LE ep /\ LE tn /\ LE tp.
Proof.
  repeat split.
  - apply (wl_CE_next _ _ _ _ _ _ X). exact Le.
  - apply (wl_CE_prev _ _ _ _ _ _ X). exact Le.
  - apply (wl_CE_next _ _ _ _ _ _ X). exact lfp_Lt.
  - apply (wl_CE_prev _ _ _ _ _ _ X). exact lfp_Lt.
Qed.

Lemma lfp_lt : en < nn /\ ep < nn /\ tn < nn /\ tp < nn.
Proof.
  destruct lfp_live as (A & B & C & D).
  repeat split; apply (wl_LE_lt _ _ _ _ _ _ X); assumption.
Qed.

Lemma lfp_faces : fe <> 0 /\ ft <> 0 /\ ft <> fe.
Proof.
  repeat split; [exact Ie|exact It|].
  apply (wl_rev_face_neq _ _ _ _ _ _ X); [exact Le|exact lfp_Lt|exact Ie].
Qed.

Lemma lfp_live_faces : LF fe /\ LF ft.
Proof. split; apply (wl_LF_face _ _ _ _ _ _ X); [exact Le|exact lfp_Lt]. Qed.

Lemma lfp_distinct :
  en <> e /\ ep <> e /\ en <> ep /\ tn <> tw /\ tp <> tw /\ tn <> tp /\ tw <> e /\
  tw <> en /\ tw <> ep /\ tn <> e /\ tn <> en /\ tn <> ep /\ tp <> e /\ tp <> en /\ tp <> ep.
Proof.
  destruct (wl_tri_facts _ _ _ _ _ _ X e Le Ie) as (_ & _ & _ & _ & _ & _ & F1 & F2 & N1 & N2 & N3 & _).
  destruct (wl_tri_facts _ _ _ _ _ _ X tw lfp_Lt It) as (_ & _ & _ & _ & _ & _ & G1 & G2 & M1 & M2 & M3 & _).
  destruct lfp_faces as (_ & _ & FF).
  assert (Y : forall a b, e_face d a = ft -> e_face d b = fe -> a <> b)
    by (intros a b Ha Hb E; apply FF; rewrite <- Ha, <- Hb, E; reflexivity).
  repeat split; try assumption; try (apply rev_neq); apply Y; auto.
Qed.

(* the untouched LIVE half-edges are closed under the old next / prev *)
Lemma lfp_untouched_closed : forall x, LE x -> flip_untouched d e x ->
  flip_untouched d e (e_next d x) /\ flip_untouched d e (e_prev d x).
Proof.
  intros x Hx (U1 & U2 & U3 & U4 & U5 & U6).
  destruct (wl_tri_facts _ _ _ _ _ _ X e Le Ie) as (_ & _ & A1 & A2 & A3 & A4 & _).
  destruct (wl_tri_facts _ _ _ _ _ _ X tw lfp_Lt It) as (_ & _ & B1 & B2 & B3 & B4 & _).
  pose proof (wl_prev_next _ _ _ _ _ _ X x Hx) as PX. pose proof (wl_next_prev _ _ _ _ _ _ X x Hx) as NX.
  split; unfold flip_untouched; repeat split; intro E.
  - rewrite E in PX. congruence.
  - rewrite E in PX. congruence.
  - rewrite E in PX. congruence.
  - rewrite E in PX. congruence.
  - rewrite E in PX. congruence.
  - rewrite E in PX. congruence.
  - rewrite E in NX. congruence.
  - rewrite E in NX. congruence.
  - rewrite E in NX. congruence.
  - rewrite E in NX. congruence.
  - rewrite E in NX. congruence.
  - rewrite E in NX. congruence.
Qed.

(* any half-edge (live or dead) whose face field is neither of the two flipped faces is untouched *)
Lemma lfp_untouched_by_face : forall a, e_face d a <> fe -> e_face d a <> ft -> flip_untouched d e a.
Proof.
  intros a F1 F2.
  destruct (wl_tri_facts _ _ _ _ _ _ X e Le Ie) as (_ & _ & _ & _ & _ & _ & A1 & A2 & _).
  destruct (wl_tri_facts _ _ _ _ _ _ X tw lfp_Lt It) as (_ & _ & _ & _ & _ & _ & B1 & B2 & _).
  unfold flip_untouched; repeat split; intro E; subst a; congruence.
Qed.

(* a LIVE untouched half-edge lies in neither of the two flipped faces *)
Lemma lfp_untouched_face : forall x, LE x -> flip_untouched d e x -> e_face d x <> fe /\ e_face d x <> ft.
Proof.
  intros x Hx (U1 & U2 & U3 & U4 & U5 & U6). split; intro G.
  - destruct (wl_same_face _ _ _ _ _ _ X e x Le Hx Ie G) as [-> | [-> | ->]]; congruence.
  - destruct (wl_same_face _ _ _ _ _ _ X tw x lfp_Lt Hx It G) as [-> | [-> | ->]]; congruence.
Qed.

End FlipLivePre.

(* ================================================================================================ *)
(* PART 2.  the generated flip_cw, pointwise                                                         *)
(* ================================================================================================ *)

Lemma flip_cw_post_live : forall d k LE LF LV,
  DWX d LE LF LV -> LE (2 * k) -> inner d (2 * k) -> inner d (rev (2 * k)) ->
  FlipPost d (fst (DcelOps.flip_cw d k)) (2 * k).
Proof.
  intros d k LE LF LV X Le Ie It. unfold DWX in X.
  pose proof (lfp_He d (2 * k) LE LF LV X Le) as He.
  pose proof (lfp_Ht d (2 * k) LE LF LV X Le) as Ht.
  pose proof (lfp_Lt d (2 * k) LE LF LV X Le) as Lt.
  destruct (lfp_lt d (2 * k) LE LF LV X Le) as (Len & Lep & Ltn & Ltp).
  destruct (lfp_distinct d (2 * k) LE LF LV X Le Ie It)
    as (D1 & D2 & D3 & D4 & D5 & D6 & D7 & D8 & D9 & D10 & D11 & D12 & D13 & D14 & D15).
  destruct (lfp_faces d (2 * k) LE LF LV X Le Ie It) as (_ & _ & FF).
  destruct (lfp_live_faces d (2 * k) LE LF LV X Le) as (LFe0 & LFt0).
  pose proof (wl_LF_lt _ _ _ _ _ _ X _ LFe0) as LFe. pose proof (wl_LF_lt _ _ _ _ _ _ X _ LFt0) as LFt.
  pose proof (wl_LV_lt _ _ _ _ _ _ X _ (wl_LV_org _ _ _ _ _ _ X _ Le)) as LOe.
  pose proof (wl_LV_lt _ _ _ _ _ _ X _ (wl_LV_org _ _ _ _ _ _ X _ Lt)) as LOt.
  pose proof (wl_org_neq _ _ _ _ _ _ X _ Le) as NO.
  pose proof (wl_face_next _ _ _ _ _ _ X _ Le) as FNe. pose proof (wl_face_next _ _ _ _ _ _ X _ Lt) as FNt.
  clear X Le Lt LFe0 LFt0.
  remember (fst (DcelOps.flip_cw d k)) as d' eqn:Hd.
  unfold DcelOps.flip_cw in Hd; cbv zeta in Hd; cbn [fst] in Hd; unfold e_rev, normalized in Hd.
  fold (e_next d (2 * k)) (e_prev d (2 * k)) (e_face d (2 * k)) (e_origin d (2 * k)) in Hd.
  fold (e_next d (rev (2 * k))) (e_prev d (rev (2 * k))) (e_face d (rev (2 * k))) (e_origin d (rev (2 * k))) in Hd.
  remember (2 * k) as e eqn:Ee.
  remember (rev e) as tw eqn:Etw.
  remember (e_next d e) as en eqn:Een. remember (e_prev d e) as ep eqn:Eep.
  remember (e_next d tw) as tn eqn:Etn. remember (e_prev d tw) as tp eqn:Etp.
  remember (e_face d e) as fe eqn:Efe. remember (e_face d tw) as ft eqn:Eft.
  remember (e_origin d e) as oe eqn:Eoe. remember (e_origin d tw) as ot eqn:Eot.
  constructor.
  all: rewrite <- ?Etw; rewrite <- ?Een, <- ?Eep, <- ?Etn, <- ?Etp; rewrite <- ?Efe, <- ?Eft, <- ?Eoe, <- ?Eot.
  - rewrite Hd. reflexivity.
  - rewrite Hd. ch_len. reflexivity.
  - rewrite Hd. ch_len. reflexivity.
  - rewrite Hd. ch_len. reflexivity.
  - rewrite Hd; ch_fields; ch_read; ch_fin.
  - rewrite Hd; ch_fields; ch_read; ch_fin.
  - rewrite Hd; ch_fields; ch_read; ch_fin.
  - rewrite Hd; ch_fields; ch_read; ch_fin.
  - rewrite Hd; ch_fields; ch_read; ch_fin.
  - rewrite Hd; ch_fields; ch_read; ch_fin.
  - intros x (U1 & U2 & U3 & U4 & U5 & U6).
    rewrite <- ?Etw in *. rewrite <- ?Een, <- ?Eep, <- ?Etn, <- ?Etp in *.
    rewrite Hd. ch_read. reflexivity.
  - intros v. apply ch_vxyd_inv. rewrite Hd. ch_read. reflexivity.
  - rewrite Hd. ch_read. reflexivity.
  - rewrite Hd. ch_read. reflexivity.
  - intros v N1 N2. rewrite Hd. ch_read. reflexivity.
  - rewrite Hd. ch_read. reflexivity.
  - rewrite Hd. ch_read. reflexivity.
  - intros f N1 N2. rewrite Hd. ch_read. reflexivity.
Qed.

(* ================================================================================================ *)
(* PART 3.  the abstract flip for DWX                                                                *)
(* ================================================================================================ *)
Section FlipLiveAbs.
Variables (d d' : dcel) (e : nat).
Variables LE LF LV : nat -> Prop.
Hypothesis X : DWL d LE LE LF LV LV.
Hypothesis Le : LE e.
Hypothesis Ie : inner d e.
Hypothesis It : inner d (rev e).
Hypothesis Post : FlipPost d d' e.

Notation nn := (length (d_hedges d)).
Notation tw := (rev e).
Notation en := (e_next d e).
Notation ep := (e_prev d e).
Notation tn := (e_next d (rev e)).
Notation tp := (e_prev d (rev e)).
Notation fe := (e_face d e).
Notation ft := (e_face d (rev e)).

Let He : e < nn := lfp_He d e LE LF LV X Le.
Let Lt : LE tw := lfp_Lt d e LE LF LV X Le.

Ltac fl_rw := repeat progress rewrite ?rev_rev,
  ?(flip_N_en d d' e Post), ?(flip_P_en d d' e Post), ?(flip_F_en d d' e Post), ?(flip_O_en d d' e Post),
  ?(flip_N_e d d' e Post), ?(flip_P_e d d' e Post), ?(flip_F_e d d' e Post), ?(flip_O_e d d' e Post),
  ?(flip_N_tp d d' e Post), ?(flip_P_tp d d' e Post), ?(flip_F_tp d d' e Post), ?(flip_O_tp d d' e Post),
  ?(flip_N_tn d d' e Post), ?(flip_P_tn d d' e Post), ?(flip_F_tn d d' e Post), ?(flip_O_tn d d' e Post),
  ?(flip_N_tw d d' e Post), ?(flip_P_tw d d' e Post), ?(flip_F_tw d d' e Post), ?(flip_O_tw d d' e Post),
  ?(flip_N_ep d d' e Post), ?(flip_P_ep d d' e Post), ?(flip_F_ep d d' e Post), ?(flip_O_ep d d' e Post).

Notation six x := (flip_six_cases d e He x).
Notation other x U := (flip_other_fields d d' e Post x U).

(* the face field of EVERY entry (live or dead) is 0 after the flip iff it was 0 before *)
Lemma lf_face0 : forall x, e_face d' x = 0 <-> e_face d x = 0.
Proof.
  intros x.
  destruct (wl_tri_facts _ _ _ _ _ _ X e Le Ie) as (_ & _ & _ & _ & _ & _ & A1 & A2 & _).
  destruct (wl_tri_facts _ _ _ _ _ _ X tw Lt It) as (_ & _ & _ & _ & _ & _ & B1 & B2 & _).
  destruct (lfp_faces d e LE LF LV X Le Ie It) as (F1 & F2 & _).
  destruct (six x) as [->|[->|[->|[->|[->|[->|U]]]]]]; fl_rw; try (split; intro; congruence).
  destruct (other x U) as (_ & _ & -> & _). tauto.
Qed.

(* EVERY entry (live or dead) has its face field in {fe, ft} after the flip iff it had before *)
Lemma lf_two_faces : forall x,
  (e_face d' x = fe \/ e_face d' x = ft) <-> (e_face d x = fe \/ e_face d x = ft).
Proof.
  intros x.
  destruct (wl_tri_facts _ _ _ _ _ _ X e Le Ie) as (_ & _ & _ & _ & _ & _ & A1 & A2 & _).
  destruct (wl_tri_facts _ _ _ _ _ _ X tw Lt It) as (_ & _ & _ & _ & _ & _ & B1 & B2 & _).
  destruct (six x) as [->|[->|[->|[->|[->|[->|U]]]]]]; fl_rw; try tauto.
  destruct (other x U) as (_ & _ & -> & _). tauto.
Qed.

(* --- the clauses of DWL d' --- *)
Lemma lf_rng' : forall x, LE x -> LE (e_next d' x) /\ LE (e_prev d' x) /\ LF (e_face d' x).
Proof.
  intros x Hx.
  destruct (lfp_live d e LE LF LV X Le) as (Len & Lep & Ltn & Ltp).
  destruct (lfp_live_faces d e LE LF LV X Le) as (LFe & LFt).
  destruct (six x) as [->|[->|[->|[->|[->|[->|U]]]]]]; fl_rw; auto.
  destruct (other x U) as (-> & -> & -> & _). apply (wl_rng _ _ _ _ _ _ X x Hx).
Qed.

Lemma lf_org_live' : forall x, LE x -> LV (e_origin d' x).
Proof.
  intros x Hx.
  destruct (lfp_live d e LE LF LV X Le) as (Len & Lep & Ltn & Ltp).
  pose proof (wl_LV_org _ _ _ _ _ _ X) as OL.
  destruct (six x) as [->|[->|[->|[->|[->|[->|U]]]]]]; fl_rw; auto.
  destruct (other x U) as (_ & _ & _ & ->). auto.
Qed.

Lemma lf_vout' : forall w, LV w ->
  match v_out_edge d' w with
  | Some a => LE a /\ e_origin d' a = w
  | None => length (d_hedges d') = 0
  end.
Proof.
  intros w Hw. rewrite (fp_lenH d d' e Post).
  destruct (lfp_live d e LE LF LV X Le) as (Len & Lep & Ltn & Ltp).
  destruct (wl_tri_facts _ _ _ _ _ _ X e Le Ie) as (_ & _ & _ & _ & _ & _ & _ & _ & _ & _ & _ & A7 & _).
  destruct (wl_tri_facts _ _ _ _ _ _ X tw Lt It) as (_ & _ & _ & _ & _ & _ & _ & _ & _ & _ & _ & B7 & _).
  rewrite rev_rev in B7.
  destruct (Nat.eq_dec w (e_origin d e)) as [->|N1].
  - rewrite (fp_vout_e d d' e Post). split; [exact Ltn|]. rewrite (flip_O_tn d d' e Post). exact B7.
  - destruct (Nat.eq_dec w (e_origin d tw)) as [->|N2].
    + rewrite (fp_vout_t d d' e Post). split; [exact Len|]. rewrite (flip_O_en d d' e Post). exact A7.
    + rewrite (fp_vout_other d d' e Post w N1 N2).
      pose proof (wl_vout _ _ _ _ _ _ X w Hw) as P. destruct (v_out_edge d w) as [a|]; [|exact P].
      destruct P as (La & Oa). split; [exact La|].
      rewrite (flip_org_keep d d' e He Post); [exact Oa| |]; intro E; subst a; congruence.
Qed.

Lemma lf_adj' : forall f, LF f ->
  match f_adjacent d' f with
  | Some a => LE a /\ e_face d' a = f
  | None => f = 0 /\ length (d_hedges d') = 0
  end.
Proof.
  intros f Hf. rewrite (fp_lenH d d' e Post).
  destruct (Nat.eq_dec f fe) as [->|N1].
  - rewrite (fp_adj_e d d' e Post). split; [exact Le|apply (flip_F_e d d' e Post)].
  - destruct (Nat.eq_dec f ft) as [->|N2].
    + rewrite (fp_adj_t d d' e Post). split; [exact Lt|apply (flip_F_tw d d' e Post)].
    + rewrite (fp_adj_other d d' e Post f N1 N2).
      pose proof (wl_adj _ _ _ _ _ _ X f Hf) as P. destruct (f_adjacent d f) as [a|]; [|exact P].
      destruct P as (La & Fa). split; [exact La|].
      assert (U : flip_untouched d e a) by (apply (lfp_untouched_by_face d e LE LF LV X Le Ie It); congruence).
      destruct (other a U) as (_ & _ & -> & _). exact Fa.
Qed.

Lemma lf_tri' : forall x, LE x -> e_face d' x <> 0 ->
  e_next d' (e_next d' (e_next d' x)) = x /\
  exists a, f_adjacent d' (e_face d' x) = Some a /\ (x = a \/ x = e_next d' a \/ x = e_next d' (e_next d' a)).
Proof.
  intros x Hx Fx.
  destruct (six x) as [->|[->|[->|[->|[->|[->|U]]]]]].
  1-6: fl_rw; split; [reflexivity|].
  - exists e. rewrite (fp_adj_e d d' e Post). fl_rw. auto.
  - exists e. rewrite (fp_adj_e d d' e Post). fl_rw. auto.
  - exists tw. rewrite (fp_adj_t d d' e Post). fl_rw. auto.
  - exists tw. rewrite (fp_adj_t d d' e Post). fl_rw. auto.
  - exists tw. rewrite (fp_adj_t d d' e Post). fl_rw. auto.
  - exists e. rewrite (fp_adj_e d d' e Post). fl_rw. auto.
  - destruct (lfp_untouched_closed d e LE LF LV X Le Ie It x Hx U) as (UN & _).
    pose proof (wl_CE_next _ _ _ _ _ _ X x Hx) as Hxn.
    destruct (lfp_untouched_closed d e LE LF LV X Le Ie It _ Hxn UN) as (UNN & _).
    destruct (other x U) as (E1 & _ & E3 & _).
    destruct (other _ UN) as (N1 & _).
    destruct (other _ UNN) as (NN1 & _).
    rewrite E3 in *. rewrite E1, N1, NN1.
    destruct (wl_tri _ _ _ _ _ _ X x Hx Fx) as (T3 & a & Ha & Ea).
    split; [exact T3|].
    destruct (lfp_untouched_face d e LE LF LV X Le Ie It x Hx U) as (G1 & G2).
    rewrite (fp_adj_other d d' e Post _ G1 G2).
    exists a. split; [exact Ha|].
    pose proof (wl_adj _ _ _ _ _ _ X (e_face d x) (wl_LF_face _ _ _ _ _ _ X x Hx)) as P. rewrite Ha in P.
    destruct P as (La & Fa).
    assert (Ua : flip_untouched d e a) by (apply (lfp_untouched_by_face d e LE LF LV X Le Ie It); congruence).
    destruct (lfp_untouched_closed d e LE LF LV X Le Ie It a La Ua) as (UaN & _).
    destruct (other a Ua) as (-> & _).
    destruct (other _ UaN) as (-> & _).
    exact Ea.
Qed.

(* only from here on: the two apexes are different vertices *)
Hypothesis Apex : e_origin d (e_prev d e) <> e_origin d (e_prev d (rev e)).

Lemma lf_links5' : forall x, LE x ->
  e_prev d' (e_next d' x) = x /\ e_next d' (e_prev d' x) = x /\
  e_face d' (e_next d' x) = e_face d' x /\
  e_origin d' (e_next d' x) = e_origin d' (rev x) /\
  e_origin d' x <> e_origin d' (rev x).
Proof.
  intros x Hx.
  destruct (wl_tri_facts _ _ _ _ _ _ X e Le Ie) as (Len & Lep & A1 & A2 & A3 & A4 & A5 & A6 & _ & _ & _ & A7 & A8 & A9).
  destruct (wl_tri_facts _ _ _ _ _ _ X tw Lt It) as (Ltn & Ltp & B1 & B2 & B3 & B4 & B5 & B6 & _ & _ & _ & B7 & B8 & B9).
  rewrite rev_rev in B7.
  destruct (lfp_distinct d e LE LF LV X Le Ie It)
    as (D1 & D2 & D3 & D4 & D5 & D6 & D7 & D8 & D9 & D10 & D11 & D12 & D13 & D14 & D15).
  assert (RK : forall y, y <> e -> y <> tw -> e_origin d' (rev y) = e_origin d (rev y)).
  { intros y Y1 Y2. apply (flip_org_keep d d' e He Post).
    - intro E. apply Y2. apply rev_inj. rewrite rev_rev. exact E.
    - intro E. apply Y1. apply rev_inj. exact E. }
  pose proof (wl_org_neq _ _ _ _ _ _ X en Len) as Q1. pose proof (wl_org_neq _ _ _ _ _ _ X ep Lep) as Q2.
  pose proof (wl_org_neq _ _ _ _ _ _ X tn Ltn) as Q3. pose proof (wl_org_neq _ _ _ _ _ _ X tp Ltp) as Q4.
  destruct (six x) as [->|[->|[->|[->|[->|[->|U]]]]]].
  1-6: fl_rw; rewrite ?RK by auto; repeat split; auto; congruence.
  destruct (lfp_untouched_closed d e LE LF LV X Le Ie It x Hx U) as (UN & UP).
  destruct (other x U) as (E1 & E2 & E3 & E4). rewrite E1, E2, E3, E4.
  destruct (other _ UN) as (N1 & N2 & N3 & N4).
  destruct (other _ UP) as (P1 & P2 & P3 & P4).
  rewrite N2, P1, N3, N4. rewrite RK by apply U.
  destruct (wl_links _ _ _ _ _ _ X x Hx) as (K1 & K2 & K3 & K4).
  repeat split; try assumption. apply (wl_org_neq _ _ _ _ _ _ X x Hx).
Qed.

Theorem lf_DWL' : DWL d' LE LE LF LV LV.
Proof.
  constructor.
  - rewrite (fp_flags d d' e Post), (fp_lenH d d' e Post). apply (wl_even _ _ _ _ _ _ X).
  - rewrite (fp_lenF d d' e Post). apply (wl_face1 _ _ _ _ _ _ X).
  - intros x Hx. rewrite (fp_lenH d d' e Post). apply (wl_LE_lt _ _ _ _ _ _ X). exact Hx.
  - apply (wl_LE_rev _ _ _ _ _ _ X).
  - intros x Hx. exact Hx.
  - intros f Hf. rewrite (fp_lenF d d' e Post). apply (wl_LF_lt _ _ _ _ _ _ X). exact Hf.
  - intros w Hw. rewrite (fp_lenV d d' e Post). apply (wl_LV_lt _ _ _ _ _ _ X). exact Hw.
  - intros w Hw. exact Hw.
  - intros x Hx. split; [apply lf_org_live'; exact Hx|apply (lf_links5' x Hx)].
  - exact lf_rng'.
  - exact lf_vout'.
  - exact lf_adj'.
  - intros x Hx. destruct (lf_links5' x Hx) as (K1 & K2 & K3 & K4 & _). repeat split; assumption.
  - exact lf_tri'.
Qed.

End FlipLiveAbs.

Theorem flip_DWX : forall d d' e LE LF LV,
  DWX d LE LF LV -> LE e -> inner d e -> inner d (rev e) -> FlipPost d d' e ->
  e_origin d (e_prev d e) <> e_origin d (e_prev d (rev e)) ->
  DWX d' LE LF LV.
Proof.
  intros d d' e LE LF LV X Le Ie It Post Apex. unfold DWX in *.
  exact (lf_DWL' d d' e LE LF LV X Le Ie It Post Apex).
Qed.

(* ================================================================================================ *)
(* PART 4.  the generated flip_cw preserves DWX                                                      *)
(* ================================================================================================ *)

(* The third conjunct holds for EVERY index x (live, dead, even out of range): a dead x is either one of the six
   half-edges (whose new face fields are fe / ft, both non-zero, like the old ones) or untouched.  The same is
   true of the fourth conjunct (flip_cw_two_faces_all below); it is stated for live x as requested. *)
Theorem flip_cw_DWX : forall d k LE LF LV,
  DWX d LE LF LV -> LE (2 * k) -> inner d (2 * k) -> inner d (2 * k + 1) ->
  e_origin d (e_prev d (2 * k)) <> e_origin d (e_prev d (2 * k + 1)) ->
  let d' := fst (DcelOps.flip_cw d k) in
  DWX d' LE LF LV /\ FlipPost d d' (2 * k)
  /\ (forall x, e_face d' x = 0 <-> e_face d x = 0)
  /\ (forall x, LE x -> (e_face d' x = e_face d (2 * k) \/ e_face d' x = e_face d (2 * k + 1)) <-> (e_face d x = e_face d (2 * k) \/ e_face d x = e_face d (2 * k + 1))).
Proof.
  intros d k LE LF LV X Le Ie It Apex d'.
  rewrite <- (rev_even k) in It, Apex |- *.
  pose proof (flip_cw_post_live d k LE LF LV X Le Ie It) as Post. fold d' in Post.
  split; [|split; [|split]].
  - apply (flip_DWX d d' (2 * k) LE LF LV); assumption.
  - exact Post.
  - apply (lf_face0 d d' (2 * k) LE LF LV); assumption.
  - intros x _. apply (lf_two_faces d d' (2 * k) LE LF LV); assumption.
Qed.

(* the fourth conjunct without the liveness restriction *)
Lemma flip_cw_two_faces_all : forall d k LE LF LV,
  DWX d LE LF LV -> LE (2 * k) -> inner d (2 * k) -> inner d (2 * k + 1) ->
  let d' := fst (DcelOps.flip_cw d k) in
  forall x, (e_face d' x = e_face d (2 * k) \/ e_face d' x = e_face d (2 * k + 1)) <-> (e_face d x = e_face d (2 * k) \/ e_face d x = e_face d (2 * k + 1)).
Proof.
  intros d k LE LF LV X Le Ie It d' x.
  rewrite <- (rev_even k) in It |- *.
  pose proof (flip_cw_post_live d k LE LF LV X Le Ie It) as Post. fold d' in Post.
  apply (lf_two_faces d d' (2 * k) LE LF LV); assumption.
Qed.

Print Assumptions flip_cw_post_live.
Print Assumptions flip_DWX.
Print Assumptions flip_cw_DWX.
