(* Dcel/WfLiveFlipOrbit.v -- flip_cw (Gen/DcelOps.v) preserves the vertex-orbit clause `Conn` (Dcel/WfLiveOrbit.v) of the live
   part of a raw DCEL.

   Flipping e : a -> b (left apex c = origin (prev e), right apex dd = origin (prev (rev e))) changes the counterclockwise
   rotation ccw x = rev (prev x) at the four vertices of the quadrilateral only:

     at a   e  is deleted  :  ... -> tn -> e -> rev ep -> ...    becomes  ... -> tn -> rev ep -> ...
     at b   tw is deleted  :  ... -> en -> tw -> rev tp -> ...   becomes  ... -> en -> rev tp -> ...
     at c   e  is inserted :  ... -> ep -> rev en -> ...          becomes  ... -> ep -> e -> rev en -> ...
     at dd  tw is inserted :  ... -> tp -> rev tn -> ...          becomes  ... -> tp -> tw -> rev tn -> ...

   PART 1  cycle surgery for arbitrary f f' : nat -> nat and a set S (deletion / insertion of one element, frame)
   PART 2  the rotation before and after the flip, pointwise
   PART 3  flip_Conn, flip_cw_Conn *)
From Coq Require Import ZArith List Bool Arith Lia.
From SpadeV Require Import Obs.State Vmap.Model Dcel.Raw Dcel.Chain Dcel.WfCore Gen.DcelOps Dcel.ProofsFlip Dcel.WfLive Dcel.WfLiveFlip Dcel.WfLiveOrbit Tri.Insert.
Import ListNotations.

(* ================================================================================================ *)
(* PART 1.  cycle surgery                                                                            *)
(* ================================================================================================ *)

Definition Reach (g : nat -> nat) (x y : nat) : Prop := exists n, Nat.iter n g x = y.

Lemma Reach_refl : forall g x, Reach g x x.
Proof. intros g x. exists 0. reflexivity. Qed.

Lemma Reach_step : forall g x y, Reach g (g x) y -> Reach g x y.
Proof. intros g x y (n & E). exists (S n). rewrite iter_S'. exact E. Qed.

Lemma Reach_step_r : forall g x y, Reach g x y -> Reach g x (g y).
Proof. intros g x y (n & E). exists (S n). rewrite iter_S, E. reflexivity. Qed.

Lemma Reach_trans : forall g x y z, Reach g x y -> Reach g y z -> Reach g x z.
Proof. intros g x y z (n & E) (m & F). exists (m + n). rewrite iter_add, E. exact F. Qed.

(* frame: f' agrees with f on the f-closed set St *)
Lemma surgery_frame : forall (f f' : nat -> nat) (St : nat -> Prop),
  (forall z, St z -> St (f z)) ->
  (forall z, St z -> f' z = f z) ->
  forall u v, St u -> Reach f u v -> Reach f' u v.
Proof.
  intros f f' St Cl Keep u v Su (n & E). revert u Su E.
  induction n as [|n IH]; intros u Su E.
  - simpl in E. subst v. apply Reach_refl.
  - rewrite iter_S' in E. apply Reach_step. rewrite (Keep u Su). apply (IH (f u)); [apply Cl; exact Su|exact E].
Qed.

(* deletion of x from the cycle  ... -> p -> x -> q -> ...  *)
Lemma surgery_delete : forall (f f' : nat -> nat) (St : nat -> Prop) p x q,
  (forall z, St z -> St (f z)) ->
  (forall u v, St u -> St v -> Reach f u v) ->
  f p = x -> f x = q -> f' p = q ->
  (forall z, St z -> f z = x -> z = p) ->
  (forall z, St z -> z <> p -> z <> x -> f' z = f z) ->
  forall u v, St u -> St v -> u <> x -> v <> x -> Reach f' u v.
Proof.
  intros f f' St p x q Cl Cn Fp Fx F'p Inj Keep u v Su Sv Nu Nv.
  assert (M : forall n u, St u -> Nat.iter n f u = v -> (u <> x -> Reach f' u v) /\ (u = x -> Reach f' q v)).
  { clear u Su Nu. induction n as [|n IH]; intros u Su E.
    - simpl in E. subst u. split; [intros _; apply Reach_refl|intros Ex; exfalso; exact (Nv Ex)].
    - rewrite iter_S' in E. destruct (IH (f u) (Cl u Su) E) as (I1 & I2). split.
      + intro Nu. destruct (Nat.eq_dec u p) as [Ep|Np].
        * subst u. apply Reach_step. rewrite F'p. apply I2. exact Fp.
        * apply Reach_step. rewrite (Keep u Su Np Nu). apply I1. intro Ex. apply Np. apply Inj; assumption.
      + intros Ex. subst u. rewrite Fx in I1, I2. destruct (Nat.eq_dec q x) as [Eq|Nq]; [apply I2; exact Eq|apply I1; exact Nq]. }
  destruct (Cn u v Su Sv) as (n & E). apply (M n u Su E). exact Nu.
Qed.

(* insertion of x into the cycle  ... -> p -> f p -> ...  *)
Lemma surgery_insert : forall (f f' : nat -> nat) (St : nat -> Prop) p x,
  (forall z, St z -> St (f z)) ->
  (forall u v, St u -> St v -> Reach f u v) ->
  St p -> f' p = x -> f' x = f p ->
  (forall z, St z -> z <> p -> f' z = f z) ->
  forall u v, (St u \/ u = x) -> (St v \/ v = x) -> Reach f' u v.
Proof.
  intros f f' St p x Cl Cn Sp F'p F'x Keep.
  assert (M : forall n u v, St u -> Nat.iter n f u = v -> Reach f' u v).
  { induction n as [|n IH]; intros u v Su E.
    - simpl in E. subst v. apply Reach_refl.
    - rewrite iter_S' in E. pose proof (IH (f u) v (Cl u Su) E) as I.
      destruct (Nat.eq_dec u p) as [Ep|Np].
      + subst u. apply Reach_step. rewrite F'p. apply Reach_step. rewrite F'x. exact I.
      + apply Reach_step. rewrite (Keep u Su Np). exact I. }
  assert (SS : forall u v, St u -> St v -> Reach f' u v).
  { intros u v Su Sv. destruct (Cn u v Su Sv) as (n & E). exact (M n u v Su E). }
  assert (SX : forall u, St u -> Reach f' u x).
  { intros u Su. rewrite <- F'p. apply Reach_step_r. apply SS; assumption. }
  assert (XS : forall v, St v -> Reach f' x v).
  { intros v Sv. apply Reach_step. rewrite F'x. apply SS; [apply Cl; exact Sp|exact Sv]. }
  intros u v [Su|Eu] [Sv|Ev].
  - apply SS; assumption.
  - subst v. apply SX; exact Su.
  - subst u. apply XS; exact Sv.
  - subst u v. apply Reach_refl.
Qed.

(* ================================================================================================ *)
(* PART 2.  the rotation before and after the flip                                                   *)
(* ================================================================================================ *)
Section FlipOrbit.
Variables (d d' : dcel) (e : nat).
Variables LE LF LV : nat -> Prop.
Hypothesis X : DWL d LE LE LF LV LV.
Hypothesis Le : LE e.
Hypothesis Ie : inner d e.
Hypothesis It : inner d (rev e).
Hypothesis Post : FlipPost d d' e.

Notation nn := (length (d_hedges d)).
Notation tw := (rev e).
Notation en := (e_next d e).
Notation ep := (e_prev d e).
Notation tn := (e_next d (rev e)).
Notation tp := (e_prev d (rev e)).

Let He : e < nn := lfp_He d e LE LF LV X Le.
Let Lt : LE tw := lfp_Lt d e LE LF LV X Le.

(* the old rotation at the six half-edges *)
Lemma fo_ccw_old :
  d_ccw d en = tw /\ d_ccw d e = rev ep /\ d_ccw d ep = rev en /\
  d_ccw d tw = rev tp /\ d_ccw d tn = e /\ d_ccw d tp = rev tn.
Proof.
  destruct (wl_tri_facts _ _ _ _ _ _ X e Le Ie) as (_ & _ & _ & _ & A3 & A4 & _).
  destruct (wl_tri_facts _ _ _ _ _ _ X tw Lt It) as (_ & _ & _ & _ & B3 & B4 & _).
  unfold d_ccw, e_rev. rewrite A3, A4, B3, B4, rev_rev. repeat split; reflexivity.
Qed.

(* the new rotation at the six half-edges *)
Lemma fo_ccw_new :
  d_ccw d' en = rev tp /\ d_ccw d' e = rev en /\ d_ccw d' ep = e /\
  d_ccw d' tw = rev tn /\ d_ccw d' tn = rev ep /\ d_ccw d' tp = tw.
Proof.
  unfold d_ccw, e_rev.
  rewrite (flip_P_en d d' e Post), (flip_P_e d d' e Post), (flip_P_ep d d' e Post),
          (flip_P_tw d d' e Post), (flip_P_tn d d' e Post), (flip_P_tp d d' e Post), rev_rev.
  repeat split; reflexivity.
Qed.

(* the rotation is unchanged at every other half-edge *)
Lemma fo_ccw_keep : forall z, flip_untouched d e z -> d_ccw d' z = d_ccw d z.
Proof.
  intros z U. unfold d_ccw, e_rev. destruct (flip_other_fields d d' e Post z U) as (_ & -> & _). reflexivity.
Qed.

(* the rotation is injective on the live half-edges *)
Lemma fo_ccw_inj : forall z x, LE z -> d_ccw d z = x -> z = e_next d (rev x).
Proof. intros z x Lz E. rewrite <- E. symmetry. apply (cw_ccw d LE LF LV z X Lz). Qed.

(* the origins of the six half-edges and of their twins: a = origin e, b = origin tw, c = origin ep, dd = origin tp *)
Lemma fo_origins :
  e_origin d en = e_origin d tw /\ e_origin d (rev en) = e_origin d ep /\ e_origin d (rev ep) = e_origin d e /\
  e_origin d tn = e_origin d e /\ e_origin d (rev tn) = e_origin d tp /\ e_origin d (rev tp) = e_origin d tw.
Proof.
  destruct (wl_tri_facts _ _ _ _ _ _ X e Le Ie) as (_ & _ & _ & _ & _ & _ & _ & _ & _ & _ & _ & A7 & A8 & A9).
  destruct (wl_tri_facts _ _ _ _ _ _ X tw Lt It) as (_ & _ & _ & _ & _ & _ & _ & _ & _ & _ & _ & B7 & B8 & B9).
  rewrite rev_rev in B7. repeat split; assumption.
Qed.

(* a, b, c, dd are pairwise different, except possibly c = dd *)
Lemma fo_org_neq :
  e_origin d e <> e_origin d tw /\ e_origin d tw <> e_origin d ep /\ e_origin d ep <> e_origin d e /\
  e_origin d e <> e_origin d tp /\ e_origin d tp <> e_origin d tw.
Proof.
  destruct fo_origins as (O1 & O2 & O3 & O4 & O5 & O6).
  destruct (lfp_live d e LE LF LV X Le) as (Len & Lep & Ltn & Ltp).
  pose proof (wl_org_neq _ _ _ _ _ _ X e Le) as Q0.
  pose proof (wl_org_neq _ _ _ _ _ _ X en Len) as Q1. pose proof (wl_org_neq _ _ _ _ _ _ X ep Lep) as Q2.
  pose proof (wl_org_neq _ _ _ _ _ _ X tn Ltn) as Q3. pose proof (wl_org_neq _ _ _ _ _ _ X tp Ltp) as Q4.
  rewrite O1, O2 in Q1. rewrite O3 in Q2. rewrite O4, O5 in Q3. rewrite O6 in Q4.
  repeat split; assumption.
Qed.

(* the live half-edges leaving w, in the old state *)
Definition fo_S (w : nat) (z : nat) : Prop := LE z /\ e_origin d z = w.

Lemma fo_S_closed : forall w z, fo_S w z -> fo_S w (d_ccw d z).
Proof.
  intros w z (Lz & Oz). destruct (ccw_live d LE LF LV z X Lz) as (C1 & C2). split; [exact C1|rewrite C2; exact Oz].
Qed.

Lemma fo_S_reach : (forall w, Conn d LE w) -> forall w u v, fo_S w u -> fo_S w v -> Reach (d_ccw d) u v.
Proof. intros C w u v (Lu & Ou) (Lv & Ov). exact (C w u v Lu Lv Ou Ov). Qed.

(* ================================================================================================ *)
(* PART 3.  the orbit clause after the flip                                                          *)
(* ================================================================================================ *)
Hypothesis Apex : e_origin d (e_prev d e) <> e_origin d (e_prev d (rev e)).
Hypothesis C : forall w, Conn d LE w.

Theorem fo_Conn' : forall w, Conn d' LE w.
Proof.
  intros w x y Lx Ly Ox Oy.
  destruct fo_ccw_old as (F1 & F2 & F3 & F4 & F5 & F6).
  destruct fo_ccw_new as (G1 & G2 & G3 & G4 & G5 & G6).
  destruct fo_origins as (O1 & O2 & O3 & O4 & O5 & O6).
  destruct fo_org_neq as (Nab & Nbc & Nca & Nad & Ndb).
  destruct (lfp_live d e LE LF LV X Le) as (Len & Lep & Ltn & Ltp).
  pose proof (flip_O_e d d' e Post) as Oe'. pose proof (flip_O_tw d d' e Post) as Ot'.
  pose proof (flip_org_keep d d' e He Post) as OK.
  (* translate to the old origins *)
  assert (TR : forall z, e_origin d' z = w ->
             (z = e /\ w = e_origin d ep) \/ (z = tw /\ w = e_origin d tp) \/ (z <> e /\ z <> tw /\ e_origin d z = w)).
  { intros z Oz. destruct (Nat.eq_dec z e) as [Ee|Ne]; [left; subst z; split; [reflexivity|congruence]|].
    destruct (Nat.eq_dec z tw) as [Et|Nt]; [right; left; subst z; split; [reflexivity|congruence]|].
    right; right. rewrite <- (OK z Ne Nt). auto. }
  change (Reach (d_ccw d') x y).
  destruct (Nat.eq_dec w (e_origin d e)) as [Ea|Na]; [|destruct (Nat.eq_dec w (e_origin d tw)) as [Eb|Nb];
    [|destruct (Nat.eq_dec w (e_origin d ep)) as [Ec|Nc]; [|destruct (Nat.eq_dec w (e_origin d tp)) as [Ed|Nd]]]].
  - (* w = a : e is deleted *)
    destruct (TR x Ox) as [(_ & E1)|[(_ & E1)|(Nx1 & Nx2 & Ox0)]]; [congruence|congruence|].
    destruct (TR y Oy) as [(_ & E1)|[(_ & E1)|(Ny1 & Ny2 & Oy0)]]; [congruence|congruence|].
    apply (surgery_delete (d_ccw d) (d_ccw d') (fo_S w) tn e (rev ep)).
    + apply fo_S_closed.
    + apply (fo_S_reach C).
    + exact F5.
    + exact F2.
    + exact G5.
    + intros z (Lz & _) Ez. apply (fo_ccw_inj z e Lz Ez).
    + intros z (Lz & Oz) N1 N2. apply fo_ccw_keep.
      destruct (flip_six_cases d e He z) as [E|[E|[E|[E|[E|[E|U]]]]]]; [subst z; congruence..|exact U].
    + split; assumption.
    + split; assumption.
    + exact Nx1.
    + exact Ny1.
  - (* w = b : tw is deleted *)
    destruct (TR x Ox) as [(_ & E1)|[(_ & E1)|(Nx1 & Nx2 & Ox0)]]; [congruence|congruence|].
    destruct (TR y Oy) as [(_ & E1)|[(_ & E1)|(Ny1 & Ny2 & Oy0)]]; [congruence|congruence|].
    apply (surgery_delete (d_ccw d) (d_ccw d') (fo_S w) en tw (rev tp)).
    + apply fo_S_closed.
    + apply (fo_S_reach C).
    + exact F1.
    + exact F4.
    + exact G1.
    + intros z (Lz & _) Ez. rewrite (fo_ccw_inj z tw Lz Ez), rev_rev. reflexivity.
    + intros z (Lz & Oz) N1 N2. apply fo_ccw_keep.
      destruct (flip_six_cases d e He z) as [E|[E|[E|[E|[E|[E|U]]]]]]; [subst z; congruence..|exact U].
    + split; assumption.
    + split; assumption.
    + exact Nx2.
    + exact Ny2.
  - (* w = c : e is inserted after ep *)
    assert (IN : forall z, LE z -> e_origin d' z = w -> fo_S w z \/ z = e).
    { intros z Lz Oz. destruct (TR z Oz) as [(E1 & _)|[(_ & E1)|(_ & _ & Oz0)]];
        [right; exact E1|congruence|left; split; assumption]. }
    apply (surgery_insert (d_ccw d) (d_ccw d') (fo_S w) ep e).
    + apply fo_S_closed.
    + apply (fo_S_reach C).
    + split; [exact Lep|symmetry; exact Ec].
    + exact G3.
    + rewrite G2, F3. reflexivity.
    + intros z (Lz & Oz) N1. apply fo_ccw_keep.
      destruct (flip_six_cases d e He z) as [E|[E|[E|[E|[E|[E|U]]]]]]; [subst z; congruence..|exact U].
    + apply IN; assumption.
    + apply IN; assumption.
  - (* w = dd : tw is inserted after tp *)
    assert (IN : forall z, LE z -> e_origin d' z = w -> fo_S w z \/ z = tw).
    { intros z Lz Oz. destruct (TR z Oz) as [(_ & E1)|[(E1 & _)|(_ & _ & Oz0)]];
        [congruence|right; exact E1|left; split; assumption]. }
    apply (surgery_insert (d_ccw d) (d_ccw d') (fo_S w) tp tw).
    + apply fo_S_closed.
    + apply (fo_S_reach C).
    + split; [exact Ltp|symmetry; exact Ed].
    + exact G6.
    + rewrite G4, F6. reflexivity.
    + intros z (Lz & Oz) N1. apply fo_ccw_keep.
      destruct (flip_six_cases d e He z) as [E|[E|[E|[E|[E|[E|U]]]]]]; [subst z; congruence..|exact U].
    + apply IN; assumption.
    + apply IN; assumption.
  - (* every other vertex: nothing changes *)
    destruct (TR x Ox) as [(_ & E1)|[(_ & E1)|(Nx1 & Nx2 & Ox0)]]; [congruence|congruence|].
    destruct (TR y Oy) as [(_ & E1)|[(_ & E1)|(Ny1 & Ny2 & Oy0)]]; [congruence|congruence|].
    apply (surgery_frame (d_ccw d) (d_ccw d') (fo_S w)).
    + apply fo_S_closed.
    + intros z (Lz & Oz). apply fo_ccw_keep.
      destruct (flip_six_cases d e He z) as [E|[E|[E|[E|[E|[E|U]]]]]]; [subst z; congruence..|exact U].
    + split; assumption.
    + apply (fo_S_reach C w); split; assumption.
Qed.

End FlipOrbit.

Theorem flip_Conn : forall d d' e LE LF LV,
  DWX d LE LF LV -> LE e -> inner d e -> inner d (rev e) -> FlipPost d d' e ->
  e_origin d (e_prev d e) <> e_origin d (e_prev d (rev e)) ->
  (forall w, Conn d LE w) -> forall w, Conn d' LE w.
Proof.
  intros d d' e LE LF LV X Le Ie It Post Apex C. unfold DWX in X.
  exact (fo_Conn' d d' e LE LF LV X Le Ie It Post Apex C).
Qed.

Corollary flip_cw_Conn : forall d k LE LF LV,
  DWX d LE LF LV -> LE (2 * k) -> inner d (2 * k) -> inner d (2 * k + 1) ->
  e_origin d (e_prev d (2 * k)) <> e_origin d (e_prev d (2 * k + 1)) ->
  (forall w, Conn d LE w) -> forall w, Conn (fst (DcelOps.flip_cw d k)) LE w.
Proof.
  intros d k LE LF LV X Le Ie It Apex C.
  rewrite <- (rev_even k) in It, Apex.
  pose proof (flip_cw_post_live d k LE LF LV X Le Ie It) as Post.
  exact (flip_Conn d _ (2 * k) LE LF LV X Le Ie It Post Apex C).
Qed.

Print Assumptions flip_Conn.
Print Assumptions flip_cw_Conn.
