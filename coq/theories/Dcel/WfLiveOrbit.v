(* Dcel/WfLiveOrbit.v -- the vertex-orbit clause for the live part of a raw DCEL: the live half-edges leaving vertex w are mutually
   reachable by counterclockwise rotation (d_ccw x = rev (prev x)).  DWf / DW / DWX have no such clause (a vertex may be the apex of two
   separate fans); swap_remove_vertex needs it for the vertex that moves (Tri/RemoveWfProofs.v: remove_interior_DWf_counterexample).
   Definitions and the basic facts only. *)
From Coq Require Import ZArith List Bool Arith Lia.
From SpadeV Require Import Obs.State Vmap.Model Dcel.Raw Dcel.WfCore Dcel.ProofsFlip Dcel.WfLive Tri.Insert.
Import ListNotations.

Definition Conn (d : dcel) (LE : nat -> Prop) (w : nat) : Prop :=
  forall x y, LE x -> LE y -> e_origin d x = w -> e_origin d y = w -> exists n, Nat.iter n (d_ccw d) x = y.

Lemma Conn_ext : forall d LE LE' w, (forall e, LE e <-> LE' e) -> Conn d LE w -> Conn d LE' w.
Proof. intros d LE LE' w E C x y Lx Ly Ox Oy. apply (C x y); [apply E; exact Lx|apply E; exact Ly|exact Ox|exact Oy]. Qed.

Lemma iter_S : forall (f : nat -> nat) n x, Nat.iter (S n) f x = f (Nat.iter n f x).
Proof. reflexivity. Qed.
Lemma iter_S' : forall (f : nat -> nat) n x, Nat.iter (S n) f x = Nat.iter n f (f x).
Proof. intros f n x. induction n as [|n IH]; [reflexivity|]. rewrite iter_S, IH. reflexivity. Qed.
Lemma iter_add : forall (f : nat -> nat) n m x, Nat.iter (n + m) f x = Nat.iter n f (Nat.iter m f x).
Proof. intros f n m x. induction n as [|n IH]; [reflexivity|]. change (S n + m) with (S (n + m)). rewrite !iter_S, IH. reflexivity. Qed.

(* counterclockwise rotation stays among the live half-edges of the same vertex *)
Lemma ccw_live : forall d LE LF LV x, DWX d LE LF LV -> LE x -> LE (d_ccw d x) /\ e_origin d (d_ccw d x) = e_origin d x.
Proof.
  intros d LE LF LV x X Lx. unfold DWX in X. unfold d_ccw, e_rev.
  pose proof (wl_CE_prev _ _ _ _ _ _ X x Lx) as Lp.
  split; [apply (wl_LE_rev _ _ _ _ _ _ X); exact Lp|].
  rewrite <- (wl_org_next _ _ _ _ _ _ X _ Lp), (wl_next_prev _ _ _ _ _ _ X x Lx). reflexivity.
Qed.

Lemma iter_ccw_live : forall d LE LF LV x n, DWX d LE LF LV -> LE x ->
  LE (Nat.iter n (d_ccw d) x) /\ e_origin d (Nat.iter n (d_ccw d) x) = e_origin d x.
Proof.
  intros d LE LF LV x n X Lx. induction n as [|n IH]; [split; [exact Lx|reflexivity]|].
  change (Nat.iter (S n) (d_ccw d) x) with (d_ccw d (Nat.iter n (d_ccw d) x)).
  destruct IH as (I1 & I2). destruct (ccw_live d LE LF LV _ X I1) as (C1 & C2). split; [exact C1|rewrite C2; exact I2].
Qed.

(* clockwise rotation is the inverse *)
Lemma cw_ccw : forall d LE LF LV x, DWX d LE LF LV -> LE x -> e_next d (rev (d_ccw d x)) = x.
Proof.
  intros d LE LF LV x X Lx. unfold DWX in X. unfold d_ccw, e_rev. rewrite rev_rev. apply (wl_next_prev _ _ _ _ _ _ X x Lx).
Qed.

Lemma ccw_cw : forall d LE LF LV x, DWX d LE LF LV -> LE x -> d_ccw d (e_next d (rev x)) = x.
Proof.
  intros d LE LF LV x X Lx. unfold DWX in X. unfold d_ccw, e_rev.
  rewrite (wl_prev_next _ _ _ _ _ _ X (rev x)) by (apply (wl_LE_rev _ _ _ _ _ _ X); exact Lx). apply rev_rev.
Qed.
