(* Gen/Prelude.v -- the fixed vocabulary the generated files are written against. *)
From Coq Require Import ZArith Bool Arith.
From SpadeV Require Import Num.F64.

Inductive InsertionError := TooSmall | TooLarge | NAN.
Inductive result (A E : Type) := Ok (a : A) | Err (e : E).
Arguments Ok {A E} a.
Arguments Err {A E} e.

Record pt := mkpt { px : F; py : F }.
Definition position (v : pt) : pt := v.
Definition pt_sub (a b : pt) : pt := mkpt (f_sub (px a) (px b)) (f_sub (py a) (py b)).
Definition pt_dot (a b : pt) : F := f_add (f_mul (px a) (px b)) (f_mul (py a) (py b)).
Definition pt_length2 (a : pt) : F := f_add (f_mul (px a) (px a)) (f_mul (py a) (py a)).

Record LineSideInfo := mklsi { signed_side : F }.
Record PointProjection := mkpp { pp_factor : F; pp_length_2 : F }.

Record dcel_sizes := mksizes { num_vertices : nat; num_undirected_edges : nat; num_faces : nat }.
Definition num_directed_edges (d : dcel_sizes) : nat := num_undirected_edges d * 2.

Definition nat_neb (a b : nat) := negb (Nat.eqb a b).
Definition nat_gtb (a b : nat) := Nat.ltb b a.
Definition nat_geb (a b : nat) := Nat.leb b a.
