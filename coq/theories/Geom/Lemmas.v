(* Geom/Lemmas.v -- algebraic and order-theoretic facts about the exact predicates of Geom/Pred.v.
   Everything is over Z; no axioms. *)
From Coq Require Import ZArith Lia Bool.
From SpadeV Require Import Geom.Pred.
Local Open Scope Z_scope.

Definition padd (p t : pnt) : pnt := (fst p + fst t, snd p + snd t).
Definition pscale (k : Z) (p : pnt) : pnt := (k * fst p, k * snd p).
Infix "+v" := padd (at level 50, left associativity).
Infix "*v" := pscale (at level 40, left associativity).

Ltac geom_unfold :=
  unfold orient, incircle, dist2, dot, padd, pscale; cbn [fst snd].
Ltac geom_ring := intros; geom_unfold; ring.

(* ------------------------------------------------------------------ *)
(* 1. orient                                                          *)
(* ------------------------------------------------------------------ *)

Lemma orient_cyclic : forall a b c : pnt, orient b c a = orient a b c.
Proof. geom_ring. Qed.

Lemma orient_cyclic' : forall a b c : pnt, orient c a b = orient a b c.
Proof. geom_ring. Qed.

Lemma orient_swap : forall a b c : pnt, orient b a c = - orient a b c.
Proof. geom_ring. Qed.

Lemma orient_swap23 : forall a b c : pnt, orient a c b = - orient a b c.
Proof. geom_ring. Qed.

Lemma orient_swap13 : forall a b c : pnt, orient c b a = - orient a b c.
Proof. geom_ring. Qed.

Lemma orient_degenerate : forall a b c : pnt,
  orient a a c = 0 /\ orient a b a = 0 /\ orient a b b = 0.
Proof. intros; repeat split; geom_ring. Qed.

Lemma orient_translate : forall (a b c t : pnt),
  orient (a +v t) (b +v t) (c +v t) = orient a b c.
Proof. geom_ring. Qed.

Lemma orient_scale : forall (a b c : pnt) (k : Z),
  orient (k *v a) (k *v b) (k *v c) = k * k * orient a b c.
Proof. geom_ring. Qed.

(* ------------------------------------------------------------------ *)
(* 2. incircle                                                        *)
(* ------------------------------------------------------------------ *)

Lemma incircle_cyclic : forall a b c d : pnt, incircle b c a d = incircle a b c d.
Proof. geom_ring. Qed.

Lemma incircle_cyclic' : forall a b c d : pnt, incircle c a b d = incircle a b c d.
Proof. geom_ring. Qed.

Lemma incircle_swap : forall a b c d : pnt, incircle b a c d = - incircle a b c d.
Proof. geom_ring. Qed.

Lemma incircle_reverse : forall a b c d : pnt, incircle c b a d = - incircle a b c d.
Proof. geom_ring. Qed.

(* incircle is the 4x4 alternating determinant | x y x^2+y^2 1 |: a transposition of the last two
   arguments flips the sign as well. *)
Lemma incircle_last_swap : forall a b c d : pnt, incircle a b d c = - incircle a b c d.
Proof. geom_ring. Qed.

Lemma incircle_translate : forall (a b c d t : pnt),
  incircle (a +v t) (b +v t) (c +v t) (d +v t) = incircle a b c d.
Proof. geom_ring. Qed.

Lemma incircle_scale : forall (a b c d : pnt) (k : Z),
  incircle (k *v a) (k *v b) (k *v c) (k *v d) = k * k * k * k * incircle a b c d.
Proof. geom_ring. Qed.

Lemma incircle_vertex : forall a b c : pnt,
  incircle a b c a = 0 /\ incircle a b c b = 0 /\ incircle a b c c = 0.
Proof. intros; repeat split; geom_ring. Qed.

(* ------------------------------------------------------------------ *)
(* 3. cofactor expansion and the Pluecker relation                    *)
(* ------------------------------------------------------------------ *)

Lemma dist2_nonneg : forall a b : pnt, 0 <= dist2 a b.
Proof.
  intros a b. unfold dist2.
  pose proof (Z.square_nonneg (fst a - fst b)) as H1.
  pose proof (Z.square_nonneg (snd a - snd b)) as H2.
  lia.
Qed.

Lemma dist2_sym : forall a b : pnt, dist2 a b = dist2 b a.
Proof. geom_ring. Qed.

Lemma dist2_zero_iff : forall a b : pnt, dist2 a b = 0 <-> a = b.
Proof.
  intros [ax ay] [bx by_]. unfold dist2; cbn [fst snd]. split.
  - intros H.
    pose proof (Z.square_nonneg (ax - bx)) as H1.
    pose proof (Z.square_nonneg (ay - by_)) as H2.
    assert (Hx : (ax - bx) * (ax - bx) = 0) by lia.
    assert (Hy : (ay - by_) * (ay - by_) = 0) by lia.
    apply Z.mul_eq_0 in Hx. apply Z.mul_eq_0 in Hy.
    f_equal; lia.
  - intros H. inversion H; subst. ring.
Qed.

Lemma dist2_pos : forall a b : pnt, a <> b -> 0 < dist2 a b.
Proof.
  intros a b Hne. pose proof (dist2_nonneg a b) as H0.
  destruct (Z.eq_dec (dist2 a b) 0) as [E|E]; [|lia].
  apply dist2_zero_iff in E. contradiction.
Qed.

(* expansion of the lifted determinant along the row of a (a is the origin of the expansion) *)
Lemma incircle_cofactor : forall a b c d : pnt,
  incircle a b c d =
  dist2 c a * orient a b d - dist2 d a * orient a b c - dist2 b a * orient a c d.
Proof. geom_ring. Qed.

Lemma plucker : forall a b c d e : pnt,
  incircle a b c d * orient a b e - incircle a b c e * orient a b d
  + orient a b c * incircle a b d e = 0.
Proof. geom_ring. Qed.

(* ------------------------------------------------------------------ *)
(* 4. Lawson flip lemmas                                              *)
(* ------------------------------------------------------------------ *)

(* half of flip_convex: expansion around a *)
Lemma flip_convex_left : forall a b c d : pnt,
  0 < orient a b c -> 0 < orient b a d -> 0 < incircle a b c d -> 0 < orient a d c.
Proof.
  intros a b c d Habc Hbad Hin.
  rewrite incircle_cofactor in Hin.
  rewrite (orient_swap a b d) in Hbad.
  rewrite (orient_swap23 a c d).
  pose proof (dist2_nonneg c a) as Nc.
  pose proof (dist2_nonneg d a) as Nd.
  pose proof (dist2_nonneg b a) as Nb.
  revert Habc Hbad Hin Nc Nd Nb.
  generalize (orient a b c) (orient a b d) (orient a c d)
             (dist2 c a) (dist2 d a) (dist2 b a).
  intros o1 o2 o3 nc nd nb Habc Hbad Hin Nc Nd Nb.
  nia.
Qed.

Lemma flip_convex : forall a b c d : pnt,
  0 < orient a b c -> 0 < orient b a d -> 0 < incircle a b c d ->
  0 < orient a d c /\ 0 < orient d b c.
Proof.
  intros a b c d Habc Hbad Hin. split.
  - eapply flip_convex_left; eassumption.
  - (* expansion around b: incircle a b c d = incircle b c a d *)
    rewrite <- incircle_cyclic in Hin.
    rewrite incircle_cofactor in Hin.
    rewrite (orient_cyclic a b c) in Hin.
    rewrite <- (orient_cyclic d b c).
    pose proof (dist2_nonneg a b) as Na.
    pose proof (dist2_nonneg d b) as Nd.
    pose proof (dist2_nonneg c b) as Nc.
    revert Habc Hbad Hin Na Nd Nc.
    generalize (orient a b c) (orient b a d) (orient b c d)
               (dist2 a b) (dist2 d b) (dist2 c b).
    intros o1 o2 o3 na nd nc Habc Hbad Hin Na Nd Nc.
    nia.
Qed.

Lemma flip_symmetric : forall a b c d : pnt, incircle b a d c = incircle a b c d.
Proof. geom_ring. Qed.

(* exact bookkeeping for the flipped edge d->c: left face (d,c,a) tested against b,
   right face (c,d,b) tested against a *)
Lemma flip_new_edge_left : forall a b c d : pnt, incircle d c a b = - incircle a b c d.
Proof. geom_ring. Qed.

Lemma flip_new_edge_right : forall a b c d : pnt, incircle c d b a = - incircle a b c d.
Proof. geom_ring. Qed.

Lemma flip_new_edge_legal : forall a b c d : pnt,
  0 < incircle a b c d -> incircle d c a b < 0 /\ incircle c d b a < 0.
Proof.
  intros a b c d Hin.
  rewrite (flip_new_edge_left a b c d), (flip_new_edge_right a b c d). lia.
Qed.

Lemma no_flip_legal : forall a b c d : pnt,
  incircle a b c d <= 0 -> incircle b a d c <= 0.
Proof. intros a b c d Hin. rewrite flip_symmetric. exact Hin. Qed.

(* ------------------------------------------------------------------ *)
(* 5. boolean reflection                                              *)
(* ------------------------------------------------------------------ *)

Lemma pnt_eqb_spec : forall a b : pnt, pnt_eqb a b = true <-> a = b.
Proof.
  intros [ax ay] [bx by_]. unfold pnt_eqb; cbn [fst snd].
  rewrite andb_true_iff, !Z.eqb_eq. split.
  - intros [Hx Hy]. subst. reflexivity.
  - intros H. inversion H. split; reflexivity.
Qed.

Lemma pnt_eqb_refl : forall a : pnt, pnt_eqb a a = true.
Proof. intros a. apply pnt_eqb_spec. reflexivity. Qed.

Lemma pnt_eqb_neq : forall a b : pnt, pnt_eqb a b = false <-> a <> b.
Proof.
  intros a b. split.
  - intros H E. apply pnt_eqb_spec in E. congruence.
  - intros H. destruct (pnt_eqb a b) eqn:E; [|reflexivity].
    apply pnt_eqb_spec in E. contradiction.
Qed.

Lemma strictly_between_spec : forall a b c : pnt,
  strictly_between a b c = true <-> orient a b c = 0 /\ 0 < dot a b c < dist2 a b.
Proof.
  intros a b c. unfold strictly_between.
  rewrite !andb_true_iff, Z.eqb_eq, !Z.ltb_lt. tauto.
Qed.

Lemma on_segment_spec : forall a b c : pnt,
  on_segment a b c = true <-> orient a b c = 0 /\ 0 <= dot a b c <= dist2 a b.
Proof.
  intros a b c. unfold on_segment.
  rewrite !andb_true_iff, Z.eqb_eq, !Z.leb_le. tauto.
Qed.

Lemma strictly_between_on_segment : forall a b c : pnt,
  strictly_between a b c = true -> on_segment a b c = true.
Proof.
  intros a b c H. apply strictly_between_spec in H. apply on_segment_spec. lia.
Qed.

Lemma proper_cross_spec : forall a b c d : pnt,
  proper_cross a b c d = true <->
  ((0 < orient a b c /\ orient a b d < 0) \/ (orient a b c < 0 /\ 0 < orient a b d)) /\
  ((0 < orient c d a /\ orient c d b < 0) \/ (orient c d a < 0 /\ 0 < orient c d b)).
Proof.
  intros a b c d. unfold proper_cross. cbv zeta.
  rewrite andb_true_iff, !orb_true_iff, !andb_true_iff, !Z.ltb_lt. tauto.
Qed.

Lemma proper_cross_sym : forall a b c d : pnt, proper_cross a b c d = proper_cross c d a b.
Proof. intros a b c d. unfold proper_cross. cbv zeta. apply andb_comm. Qed.

Print Assumptions flip_convex.
Print Assumptions flip_new_edge_legal.
Print Assumptions incircle_cofactor.
Print Assumptions plucker.
