(* Geom/Potential.v -- the lifted-paraboloid potential of a set of counter-clockwise triangles and the termination bound of
   Lawson flipping: a flip of an edge whose opposite apex lies strictly inside the circumcircle lowers the potential by exactly
   the in-circle determinant (a positive integer), the potential of counter-clockwise faces is never negative, hence any
   sequence of Lawson flips starting from a face set l has at most `pot l` flips -- for every point set, with no bound on sizes. *)
From Coq Require Import ZArith List Lia Permutation.
From SpadeV Require Import Geom.Pred Geom.Lemmas.
Import ListNotations.
Local Open Scope Z_scope.

Definition tri := (pnt * pnt * pnt)%type.

(* squared norm: the height of the lifted point *)
Definition lift (p : pnt) : Z := fst p * fst p + snd p * snd p.

(* 6 x the integral over the triangle of the linear interpolant of the lifted heights *)
Definition tri_pot (t : tri) : Z :=
  let '(a, b, c) := t in orient a b c * (lift a + lift b + lift c).

Definition pot (l : list tri) : Z := fold_right (fun t acc => tri_pot t + acc) 0 l.

Definition tri_ccw (t : tri) : Prop := let '(a, b, c) := t in 0 < orient a b c.
Definition AllCcw (l : list tri) : Prop := Forall tri_ccw l.

Lemma lift_nonneg : forall p, 0 <= lift p.
Proof. intros [x y]; unfold lift; cbn [fst snd]. pose proof (Z.square_nonneg x). pose proof (Z.square_nonneg y). lia. Qed.

Lemma tri_pot_nonneg : forall t, tri_ccw t -> 0 <= tri_pot t.
Proof.
  intros [[a b] c] H; unfold tri_ccw in H; unfold tri_pot.
  pose proof (lift_nonneg a). pose proof (lift_nonneg b). pose proof (lift_nonneg c).
  apply Z.mul_nonneg_nonneg; lia.
Qed.

Lemma pot_nonneg : forall l, AllCcw l -> 0 <= pot l.
Proof.
  induction l as [|t l IH]; intros H; cbn [pot fold_right]; [lia|].
  inversion H as [|? ? Ht Hl]; subst. pose proof (tri_pot_nonneg t Ht). specialize (IH Hl). unfold pot in IH. lia.
Qed.

Lemma pot_perm : forall l l', Permutation l l' -> pot l = pot l'.
Proof.
  intros l l' P; induction P as [| x l l' P IH | x y l | l l' l'' P1 IH1 P2 IH2]; cbn [pot fold_right] in *; try lia.
  unfold pot in IH. lia.
Qed.

Lemma AllCcw_perm : forall l l', Permutation l l' -> AllCcw l -> AllCcw l'.
Proof. intros l l' P H. unfold AllCcw in *. rewrite Forall_forall in *. intros x Hx. apply H. eapply Permutation_in; [apply Permutation_sym; exact P| exact Hx]. Qed.

(* the flip identity: faces (a,b,c),(b,a,d) -> (a,d,c),(d,b,c) changes the potential by exactly - incircle a b c d *)
Lemma flip_pot_identity : forall a b c d : pnt,
  tri_pot (a, d, c) + tri_pot (d, b, c) - (tri_pot (a, b, c) + tri_pot (b, a, d)) = - incircle a b c d.
Proof. intros [ax ay] [bx by_] [cx cy] [dx dy]. unfold tri_pot, lift, orient, incircle. cbn [fst snd]. ring. Qed.

(* one Lawson flip on a set of faces: the edge a-b shared by the counter-clockwise faces (a,b,c) and (b,a,d) is replaced by d-c
   because d lies strictly inside the circumcircle of (a,b,c) -- the condition under which legalize_edge flips *)
Definition lawson_step (l l' : list tri) : Prop :=
  exists a b c d rest,
    Permutation l ((a, b, c) :: (b, a, d) :: rest) /\ Permutation l' ((a, d, c) :: (d, b, c) :: rest) /\
    0 < incircle a b c d.

Lemma lawson_step_decreases : forall l l', lawson_step l l' -> pot l' <= pot l - 1.
Proof.
  intros l l' (a & b & c & d & rest & P & P' & Hin).
  rewrite (pot_perm _ _ P), (pot_perm _ _ P'). cbn [pot fold_right].
  pose proof (flip_pot_identity a b c d). lia.
Qed.

Lemma lawson_step_exact : forall l l', lawson_step l l' ->
  exists a b c d, 0 < incircle a b c d /\ pot l' = pot l - incircle a b c d.
Proof.
  intros l l' (a & b & c & d & rest & P & P' & Hin). exists a, b, c, d. split; [exact Hin|].
  rewrite (pot_perm _ _ P), (pot_perm _ _ P'). cbn [pot fold_right].
  pose proof (flip_pot_identity a b c d). lia.
Qed.

Lemma lawson_step_ccw : forall l l', AllCcw l -> lawson_step l l' -> AllCcw l'.
Proof.
  intros l l' H (a & b & c & d & rest & P & P' & Hin).
  apply (AllCcw_perm _ _ P) in H. apply (AllCcw_perm _ _ (Permutation_sym P')).
  inversion H as [|? ? H1 H2]; subst. inversion H2 as [|? ? H3 H4]; subst.
  unfold tri_ccw in H1, H3.
  destruct (flip_convex a b c d H1 H3 Hin) as [Hadc Hdbc].
  constructor; [exact Hadc|]. constructor; [exact Hdbc| exact H4].
Qed.

Inductive lawson_steps : nat -> list tri -> list tri -> Prop :=
| ls_nil : forall l, lawson_steps O l l
| ls_cons : forall n l l' l'', lawson_step l l' -> lawson_steps n l' l'' -> lawson_steps (S n) l l''.

(* every sequence of n Lawson flips keeps the faces counter-clockwise and lowers the potential by at least n;
   the potential is never negative, so n <= pot l: flipping terminates, with an explicit bound *)
Theorem lawson_flips_bounded : forall n l l', AllCcw l -> lawson_steps n l l' ->
  AllCcw l' /\ 0 <= pot l' /\ Z.of_nat n <= pot l - pot l' /\ Z.of_nat n <= pot l.
Proof.
  induction n as [|n IH]; intros l l' H S.
  - inversion S; subst. pose proof (pot_nonneg _ H). repeat split; try assumption; lia.
  - inversion S as [|? ? lm ? St Sr]; subst.
    pose proof (lawson_step_ccw _ _ H St) as Hm.
    pose proof (lawson_step_decreases _ _ St) as Hd.
    destruct (IH _ _ Hm Sr) as (Hc & H0 & Hn & _).
    repeat split; try assumption; lia.
Qed.

(* no infinite flip sequence: the relation is well founded on counter-clockwise face sets *)
Corollary no_infinite_flipping : forall l, AllCcw l -> forall n l', lawson_steps n l l' -> (n <= Z.to_nat (pot l))%nat.
Proof. intros l H n l' S. destruct (lawson_flips_bounded n l l' H S) as (_ & _ & _ & Hb). lia. Qed.

(* non-vacuity: the flip of C01_flip_instance is a lawson_step that lowers the potential from 40 to 8 *)
Example lawson_step_instance :
  let a := (0, 0) in let b := (4, 0) in let c := (2, 1) in let d := (2, -1) in
  lawson_step [(a, b, c); (b, a, d)] [(a, d, c); (d, b, c)] /\ AllCcw [(a, b, c); (b, a, d)]
  /\ pot [(a, b, c); (b, a, d)] - pot [(a, d, c); (d, b, c)] = incircle a b c d.
Proof.
  cbv zeta. split; [|split].
  - exists (0,0), (4,0), (2,1), (2,-1), []. repeat split; try apply Permutation_refl.
  - repeat constructor.
  - vm_compute. reflexivity.
Qed.
