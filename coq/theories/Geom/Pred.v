(* Geom/Pred.v -- exact orientation and in-circle predicates over integer coordinates. *)
From Coq Require Import ZArith List Lia.
Local Open Scope Z_scope.

Definition pnt := (Z * Z)%type.

(* orient a b c > 0  <->  c lies strictly to the left of the directed line a -> b (a,b,c counter-clockwise) *)
Definition orient (a b c : pnt) : Z :=
  (fst b - fst a) * (snd c - snd a) - (snd b - snd a) * (fst c - fst a).

(* for a,b,c counter-clockwise: incircle a b c d > 0  <->  d lies strictly inside their circumcircle *)
Definition incircle (a b c d : pnt) : Z :=
  let adx := fst a - fst d in let ady := snd a - snd d in
  let bdx := fst b - fst d in let bdy := snd b - snd d in
  let cdx := fst c - fst d in let cdy := snd c - snd d in
  let al := adx * adx + ady * ady in
  let bl := bdx * bdx + bdy * bdy in
  let cl := cdx * cdx + cdy * cdy in
  adx * (bdy * cl - cdy * bl) - ady * (bdx * cl - cdx * bl) + al * (bdx * cdy - cdx * bdy).

Definition dist2 (a b : pnt) : Z :=
  (fst a - fst b) * (fst a - fst b) + (snd a - snd b) * (snd a - snd b).

Definition dot (a b c : pnt) : Z := (* (b-a).(c-a) *)
  (fst b - fst a) * (fst c - fst a) + (snd b - snd a) * (snd c - snd a).

Definition pnt_eqb (a b : pnt) : bool := (fst a =? fst b) && (snd a =? snd b).

(* c lies in the relative interior of segment ab *)
Definition strictly_between (a b c : pnt) : bool :=
  (orient a b c =? 0) && (0 <? dot a b c) && (dot a b c <? dist2 a b).

(* c lies on the closed segment ab *)
Definition on_segment (a b c : pnt) : bool :=
  (orient a b c =? 0) && (0 <=? dot a b c) && (dot a b c <=? dist2 a b).

(* open segments ab and cd cross in a single interior point of both *)
Definition proper_cross (a b c d : pnt) : bool :=
  let o1 := orient a b c in let o2 := orient a b d in
  let o3 := orient c d a in let o4 := orient c d b in
  (((0 <? o1) && (o2 <? 0)) || ((o1 <? 0) && (0 <? o2))) &&
  (((0 <? o3) && (o4 <? 0)) || ((o3 <? 0) && (0 <? o4))).
