(* Num/Decode.v -- bit patterns to exact integer coordinates on a common power-of-two scale. *)
From Coq Require Import ZArith List Bool.
From SpadeV Require Import Num.F64 Geom.Pred.
Import ListNotations.
Local Open Scope Z_scope.

Definition dy := (Z * Z)%type.   (* (m, e) denotes m * 2^e *)

Fixpoint strip_pos (p : positive) (e : Z) : positive * Z :=
  match p with xO p' => strip_pos p' (e + 1) | _ => (p, e) end.

(* canonical form: odd mantissa, or (0,0) *)
Definition normalize (d : dy) : dy :=
  match fst d with
  | Z0 => (0, 0)
  | Zpos p => let '(q, e) := strip_pos p (snd d) in (Zpos q, e)
  | Zneg p => let '(q, e) := strip_pos p (snd d) in (Zneg q, e)
  end.

Definition decode (bits : Z) : option dy :=
  match dyadic (f_of_bits bits) with Some d => Some (normalize d) | None => None end.

Definition dy_eqb (a b : dy) : bool := (fst a =? fst b) && (snd a =? snd b).

Definition emin_of (l : list dy) : Z :=
  fold_right (fun d acc => if fst d =? 0 then acc else Z.min (snd d) acc) 0 l.

Definition scale (emin : Z) (d : dy) : Z := Z.shiftl (fst d) (snd d - emin).

Fixpoint decode_all (l : list Z) : option (list dy) :=
  match l with
  | [] => Some []
  | b :: t => match decode b, decode_all t with Some d, Some r => Some (d :: r) | _, _ => None end
  end.

Fixpoint pair_up (l : list Z) : list pnt :=
  match l with x :: y :: t => (x, y) :: pair_up t | _ => [] end.

(* decode a flat list of coordinate bit patterns x0 y0 x1 y1 ... to integer points on one scale *)
Definition decode_points (l : list Z) : option (list pnt) :=
  match decode_all l with
  | Some ds => let em := emin_of ds in Some (pair_up (map (scale em) ds))
  | None => None
  end.
