(* Num/Decode2.v -- decoding with an explicit common exponent, and exact comparison of dyadics. *)
From Coq Require Import ZArith List Bool.
From SpadeV Require Import Num.Decode Geom.Pred.
Import ListNotations.
Local Open Scope Z_scope.

(* decode coordinate bit patterns to integer points together with the exponent of the common scale *)
Definition decode_points_e (l : list Z) : option (list pnt * Z) :=
  match decode_all l with
  | Some ds => let em := emin_of ds in Some (pair_up (map (scale em) ds), em)
  | None => None
  end.

(* m1 * 2^e1 <= m2 * 2^e2 *)
Definition dy_leb (a b : dy) : bool :=
  let e := Z.min (snd a) (snd b) in
  Z.shiftl (fst a) (snd a - e) <=? Z.shiftl (fst b) (snd b - e).
Definition dy_ltb (a b : dy) : bool :=
  let e := Z.min (snd a) (snd b) in
  Z.shiftl (fst a) (snd a - e) <? Z.shiftl (fst b) (snd b - e).
