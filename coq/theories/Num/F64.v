(* Num/F64.v -- binary64 / binary32 values (Flocq), the float vocabulary used by the
   generated kernels, and decoding of bit patterns to exact dyadic numbers. No proofs about
   spade here; only the instantiation of the float signature. *)
From Coq Require Import ZArith Reals Bool List.
From Flocq Require Import Core.Core IEEE754.BinarySingleNaN.
From Flocq Require IEEE754.Binary IEEE754.Bits.

Definition F := binary_float 53 1024.
Definition F32 := binary_float 24 128.

Definition f_of_bits (z : Z) : F := Binary.B2BSN 53 1024 (Bits.b64_of_bits z).
Definition f32_of_bits (z : Z) : F32 := Binary.B2BSN 24 128 (Bits.b32_of_bits z).

Definition f_zero : F := B754_zero false.
Definition f_is_nan (x : F) : bool := is_nan x.
Definition f_abs (x : F) : F := Babs x.
Definition f_neg (x : F) : F := Bopp x.
Definition f_lt (a b : F) : bool := Bltb a b.
Definition f_gt (a b : F) : bool := Bltb b a.
Definition f_le (a b : F) : bool := Bleb a b.
Definition f_ge (a b : F) : bool := Bleb b a.
Definition f_eq (a b : F) : bool := Beqb a b.
Definition f_ne (a b : F) : bool := negb (Beqb a b).

Lemma Hprec64 : FLX.Prec_gt_0 53. Proof. reflexivity. Qed.
Lemma Hmax64 : Prec_lt_emax 53 1024. Proof. reflexivity. Qed.
Definition f_sub (a b : F) : F := Bminus (prec_gt_0_:=Hprec64) (prec_lt_emax_:=Hmax64) mode_NE a b.
Definition f_add (a b : F) : F := Bplus (prec_gt_0_:=Hprec64) (prec_lt_emax_:=Hmax64) mode_NE a b.
Definition f_mul (a b : F) : F := Bmult (prec_gt_0_:=Hprec64) (prec_lt_emax_:=Hmax64) mode_NE a b.

(* Exact dyadic decoding: Some (m, e) with value m * 2^e for finite values. *)
Definition dyadic (x : F) : option (Z * Z) :=
  match x with
  | B754_zero _ => Some (0, 0)%Z
  | B754_finite s m e _ => Some ((if s then Z.neg m else Z.pos m), e)
  | _ => None
  end.

(* f32 -> f64 conversion (`Into<f64> for f32`): every binary32 value is a binary64 value. *)
Definition widen (x : F32) : F :=
  match x with
  | B754_zero s => B754_zero s
  | B754_infinity s => B754_infinity s
  | B754_nan => B754_nan
  | B754_finite s m e _ =>
      binary_normalize 53 1024 Hprec64 Hmax64 mode_NE (if s then Z.neg m else Z.pos m) e s
  end.
