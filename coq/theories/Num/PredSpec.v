(* Num/PredSpec.v -- the predicate wrappers of spade (side_query, is_ordered_ccw,
   contained_in_circumference and the LineSideInfo methods of the GENERATED Gen/Math.v) decide
   exactly, given Shewchuk's guarantee for the external `robust` crate; and the integer scaling used
   by the run-time checker preserves the sign of both determinants.  (C06)

   Part A is stated over the real values of the stored coordinates.  Part B relates those reals to
   the integers computed by Num/Decode.v.  Part C puts the two together. *)
From Coq Require Import ZArith Reals Bool List Lia Lra.
From Flocq Require Import Core.Core IEEE754.BinarySingleNaN.
From SpadeV Require Import Num.F64 Gen.Prelude Gen.Math Geom.Pred Num.Decode.
Import ListNotations.
Local Open Scope R_scope.

(* ------------------------------------------------------------------------------------------ *)
(** * Real-valued determinants *)

Definition xR (p : pt) : R := B2R (px p).
Definition yR (p : pt) : R := B2R (py p).

(* the two determinants over six / eight real numbers *)
Definition orient_expr (ax ay bx by_ cx cy : R) : R :=
  (bx - ax) * (cy - ay) - (by_ - ay) * (cx - ax).

Definition incircle_expr (ax ay bx by_ cx cy dx dy : R) : R :=
  let adx := ax - dx in let ady := ay - dy in
  let bdx := bx - dx in let bdy := by_ - dy in
  let cdx := cx - dx in let cdy := cy - dy in
  let al := adx * adx + ady * ady in
  let bl := bdx * bdx + bdy * bdy in
  let cl := cdx * cdx + cdy * cdy in
  adx * (bdy * cl - cdy * bl) - ady * (bdx * cl - cdx * bl) + al * (bdx * cdy - cdx * bdy).

(* > 0 iff c is strictly left of a -> b *)
Definition orientR (a b c : pt) : R :=
  (xR b - xR a) * (yR c - yR a) - (yR b - yR a) * (xR c - xR a).

(* same layout as Geom.Pred.incircle: > 0 iff d strictly inside the circumcircle of ccw a b c *)
Definition incircleR (a b c d : pt) : R :=
  let adx := xR a - xR d in let ady := yR a - yR d in
  let bdx := xR b - xR d in let bdy := yR b - yR d in
  let cdx := xR c - xR d in let cdy := yR c - yR d in
  let al := adx * adx + ady * ady in
  let bl := bdx * bdx + bdy * bdy in
  let cl := cdx * cdx + cdy * cdy in
  adx * (bdy * cl - cdy * bl) - ady * (bdx * cl - cdx * bl) + al * (bdx * cdy - cdx * bdy).

Lemma orientR_expr : forall a b c,
  orientR a b c = orient_expr (xR a) (yR a) (xR b) (yR b) (xR c) (yR c).
Proof. reflexivity. Qed.

Lemma incircleR_expr : forall a b c d,
  incircleR a b c d = incircle_expr (xR a) (yR a) (xR b) (yR b) (xR c) (yR c) (xR d) (yR d).
Proof. reflexivity. Qed.

Lemma incircleR_reverse : forall a b c d, incircleR c b a d = - incircleR a b c d.
Proof. intros a b c d. unfold incircleR. ring. Qed.

Lemma orientR_swap : forall a b c, orientR b a c = - orientR a b c.
Proof. intros a b c. unfold orientR. ring. Qed.

Lemma to_robust_coord_id : forall p, to_robust_coord p = p.
Proof. intros [x y]. reflexivity. Qed.

(* ------------------------------------------------------------------------------------------ *)
(** * Comparisons of a finite binary64 value with 0.0 *)

Lemma zero_bits : f_of_bits 0 = B754_zero false.
Proof. vm_compute. reflexivity. Qed.

Section CompareZero.
Variable x : F.
Hypothesis Hx : is_finite x = true.

Let Hz : is_finite (B754_zero false : F) = true := eq_refl.

Lemma f_gt_zero : f_gt x (f_of_bits 0) = Rlt_bool 0 (B2R x).
Proof. unfold f_gt. rewrite zero_bits. rewrite (Bltb_correct _ _ _ _ Hz Hx). reflexivity. Qed.

Lemma f_lt_zero : f_lt x (f_of_bits 0) = Rlt_bool (B2R x) 0.
Proof. unfold f_lt. rewrite zero_bits. rewrite (Bltb_correct _ _ _ _ Hx Hz). reflexivity. Qed.

Lemma f_ge_zero : f_ge x (f_of_bits 0) = Rle_bool 0 (B2R x).
Proof. unfold f_ge. rewrite zero_bits. rewrite (Bleb_correct _ _ _ _ Hz Hx). reflexivity. Qed.

Lemma f_le_zero : f_le x (f_of_bits 0) = Rle_bool (B2R x) 0.
Proof. unfold f_le. rewrite zero_bits. rewrite (Bleb_correct _ _ _ _ Hx Hz). reflexivity. Qed.

Lemma f_abs_eq_zero : f_eq (f_abs x) (f_of_bits 0) = Req_bool (B2R x) 0.
Proof.
  unfold f_eq, f_abs. rewrite zero_bits.
  assert (Ha : is_finite (Babs x) = true) by (rewrite is_finite_Babs; exact Hx).
  rewrite (Beqb_correct _ _ _ _ Ha Hz). rewrite B2R_Babs. change (B2R (B754_zero false)) with 0.
  destruct (Req_bool_spec (B2R x) 0) as [E | E].
  - rewrite E, Rabs_R0. apply Req_bool_true. reflexivity.
  - apply Req_bool_false. intro A. apply E. destruct (Req_dec (B2R x) 0) as [E0 | E0]; [exact E0|].
    exfalso. apply Rabs_no_R0 in E0. contradiction.
Qed.

Lemma f_gt_zero_iff : f_gt x (f_of_bits 0) = true <-> B2R x > 0.
Proof. rewrite f_gt_zero. destruct (Rlt_bool_spec 0 (B2R x)); split; intros; try discriminate; try reflexivity; lra. Qed.

Lemma f_lt_zero_iff : f_lt x (f_of_bits 0) = true <-> B2R x < 0.
Proof. rewrite f_lt_zero. destruct (Rlt_bool_spec (B2R x) 0); split; intros; try discriminate; try reflexivity; lra. Qed.

Lemma f_ge_zero_iff : f_ge x (f_of_bits 0) = true <-> B2R x >= 0.
Proof. rewrite f_ge_zero. destruct (Rle_bool_spec 0 (B2R x)); split; intros; try discriminate; try reflexivity; lra. Qed.

Lemma f_le_zero_iff : f_le x (f_of_bits 0) = true <-> B2R x <= 0.
Proof. rewrite f_le_zero. destruct (Rle_bool_spec (B2R x) 0); split; intros; try discriminate; try reflexivity; lra. Qed.

Lemma f_abs_eq_zero_iff : f_eq (f_abs x) (f_of_bits 0) = true <-> B2R x = 0.
Proof. rewrite f_abs_eq_zero. destruct (Req_bool_spec (B2R x) 0); split; intros; try discriminate; try reflexivity; lra. Qed.

End CompareZero.

(* transfer of the sign along  Rcompare x 0 = Rcompare y 0 *)
Lemma Rcompare_zero_transfer : forall x y : R, Rcompare x 0 = Rcompare y 0 ->
  (x > 0 <-> y > 0) /\ (x < 0 <-> y < 0) /\ (x = 0 <-> y = 0) /\ (x >= 0 <-> y >= 0) /\ (x <= 0 <-> y <= 0).
Proof.
  intros x y H.
  destruct (Rcompare_spec x 0) as [A | A | A]; destruct (Rcompare_spec y 0) as [B | B | B];
    try discriminate; repeat split; intros; lra.
Qed.

(* ------------------------------------------------------------------------------------------ *)
(** * The LineSideInfo methods over an arbitrary finite determinant *)

Section LineSideInfo.

Definition lsi_finite (l : LineSideInfo) : Prop := is_finite (signed_side l) = true.
Definition lsi_val (l : LineSideInfo) : R := B2R (signed_side l).

Lemma is_on_left_side_val : forall l, lsi_finite l -> (is_on_left_side l = true <-> lsi_val l > 0).
Proof. intros l H. unfold is_on_left_side. apply f_gt_zero_iff. exact H. Qed.

Lemma is_on_right_side_val : forall l, lsi_finite l -> (is_on_right_side l = true <-> lsi_val l < 0).
Proof. intros l H. unfold is_on_right_side. apply f_lt_zero_iff. exact H. Qed.

Lemma is_on_left_side_or_on_line_val : forall l, lsi_finite l ->
  (is_on_left_side_or_on_line l = true <-> lsi_val l >= 0).
Proof. intros l H. unfold is_on_left_side_or_on_line. apply f_ge_zero_iff. exact H. Qed.

Lemma is_on_right_side_or_on_line_val : forall l, lsi_finite l ->
  (is_on_right_side_or_on_line l = true <-> lsi_val l <= 0).
Proof. intros l H. unfold is_on_right_side_or_on_line. apply f_le_zero_iff. exact H. Qed.

Lemma is_on_line_val : forall l, lsi_finite l -> (is_on_line l = true <-> lsi_val l = 0).
Proof. intros l H. unfold is_on_line. apply f_abs_eq_zero_iff. exact H. Qed.

(* `reversed` swaps left and right and keeps on_line: for EVERY binary64 determinant, finite or not *)
Theorem reversed_spec : forall l : LineSideInfo,
  is_on_left_side (lsi_reversed l) = is_on_right_side l /\
  is_on_right_side (lsi_reversed l) = is_on_left_side l /\
  is_on_line (lsi_reversed l) = is_on_line l /\
  is_on_left_side_or_on_line (lsi_reversed l) = is_on_right_side_or_on_line l /\
  is_on_right_side_or_on_line (lsi_reversed l) = is_on_left_side_or_on_line l.
Proof.
  intros [x].
  unfold is_on_left_side, is_on_right_side, is_on_line, is_on_left_side_or_on_line,
    is_on_right_side_or_on_line, lsi_reversed, f_gt, f_lt, f_ge, f_le, f_eq, f_abs, f_neg.
  cbn [signed_side]. rewrite zero_bits.
  destruct x as [s | s | | s m e H]; try destruct s; repeat split; reflexivity.
Qed.

(* what `reversed` computes, by evaluation on a constructor: independent of how the source spells it
   (struct literal, destructuring `let`, `from_determinant`) *)
Lemma lsi_reversed_eq : forall l, lsi_reversed l = mklsi (f_neg (signed_side l)).
Proof. intros [x]. reflexivity. Qed.

Lemma lsi_reversed_finite : forall l, lsi_finite l -> lsi_finite (lsi_reversed l).
Proof. intros l H. unfold lsi_finite. rewrite lsi_reversed_eq. unfold f_neg. cbn [signed_side]. rewrite is_finite_Bopp. exact H. Qed.

Lemma lsi_reversed_val : forall l, lsi_val (lsi_reversed l) = - lsi_val l.
Proof. intros l. unfold lsi_val. rewrite lsi_reversed_eq. unfold f_neg. cbn [signed_side]. apply B2R_Bopp. Qed.

(* the three classes *)
Inductive side_class := SLeft | SRight | SOnLine.
Definition class_of_R (r : R) : side_class :=
  match Rcompare r 0 with Gt => SLeft | Lt => SRight | Eq => SOnLine end.

Lemma class_of_R_left : forall r, class_of_R r = SLeft <-> r > 0.
Proof. intros r. unfold class_of_R. destruct (Rcompare_spec r 0); split; intros; try discriminate; try reflexivity; lra. Qed.
Lemma class_of_R_right : forall r, class_of_R r = SRight <-> r < 0.
Proof. intros r. unfold class_of_R. destruct (Rcompare_spec r 0); split; intros; try discriminate; try reflexivity; lra. Qed.
Lemma class_of_R_on_line : forall r, class_of_R r = SOnLine <-> r = 0.
Proof. intros r. unfold class_of_R. destruct (Rcompare_spec r 0); split; intros; try discriminate; try reflexivity; lra. Qed.

Lemma class_of_R_compare : forall r1 r2, class_of_R r1 = class_of_R r2 <-> Rcompare r1 0 = Rcompare r2 0.
Proof.
  intros r1 r2. unfold class_of_R.
  destruct (Rcompare r1 0); destruct (Rcompare r2 0); split; intros; try discriminate; reflexivity.
Qed.

(* lsi_eq: same class *)
Lemma lsi_eq_val : forall a b, lsi_finite a -> lsi_finite b ->
  (lsi_eq a b = true <-> class_of_R (lsi_val a) = class_of_R (lsi_val b)).
Proof.
  intros a b Ha Hb. unfold lsi_eq.
  pose proof (is_on_line_val a Ha) as La. pose proof (is_on_line_val b Hb) as Lb.
  pose proof (is_on_right_side_val a Ha) as Ra. pose proof (is_on_right_side_val b Hb) as Rb.
  unfold class_of_R.
  destruct (Rcompare_spec (lsi_val a) 0) as [A | A | A];
  destruct (Rcompare_spec (lsi_val b) 0) as [B | B | B];
  destruct (is_on_line a) eqn:Ea; destruct (is_on_line b) eqn:Eb;
  destruct (is_on_right_side a) eqn:Fa; destruct (is_on_right_side b) eqn:Fb;
  cbn [orb andb Bool.eqb]; split; intros K; try reflexivity; try discriminate; exfalso;
  repeat match goal with
  | H : true = true <-> _ |- _ => let H1 := fresh in pose proof (proj1 H eq_refl) as H1; clear H
  | H : false = true <-> _ |- _ =>
      let H1 := fresh in assert (H1 := fun p => Bool.diff_false_true (proj2 H p)); clear H
  end; lra.
Qed.

End LineSideInfo.

(* ------------------------------------------------------------------------------------------ *)
(** * Part A: the wrappers decide exactly, given Shewchuk's guarantee on a domain [D] of points.

    The guarantee of the `robust` crate is stated relative to a domain predicate [D] on points, so
    that it can be instantiated with "all points" (the statement of the task) as well as with
    "points with validated coordinates" (where no overflow / underflow can occur inside the crate). *)

Section OracleOn.
Variable D : pt -> Prop.
Variable robust_orient2d : pt -> pt -> pt -> F.
Variable robust_incircle : pt -> pt -> pt -> pt -> F.

Hypothesis Horient : forall a b c, D a -> D b -> D c ->
  is_finite (robust_orient2d a b c) = true /\
  Rcompare (B2R (robust_orient2d a b c)) 0 = Rcompare (orientR a b c) 0.
Hypothesis Hincircle : forall a b c d, D a -> D b -> D c -> D d ->
  is_finite (robust_incircle a b c d) = true /\
  Rcompare (B2R (robust_incircle a b c d)) 0 = Rcompare (incircleR a b c d) 0.

Notation sq := (side_query robust_orient2d).

Section Query.
Variables p1 p2 q : pt.
Hypothesis D1 : D p1.
Hypothesis D2 : D p2.
Hypothesis Dq : D q.

(* what side_query computes, by evaluation on constructors: independent of the spelling of the source
   (consecutive `let`s, array `map` + destructuring, names of the temporaries) *)
Lemma side_query_eq : forall a b c, sq a b c = mklsi (robust_orient2d a b c).
Proof. intros [ax ay] [bx by_] [cx cy]. reflexivity. Qed.

Lemma side_query_finite_on : lsi_finite (sq p1 p2 q).
Proof.
  unfold lsi_finite. rewrite side_query_eq. cbn [signed_side].
  apply (Horient p1 p2 q D1 D2 Dq).
Qed.

Lemma side_query_sign_on : Rcompare (lsi_val (sq p1 p2 q)) 0 = Rcompare (orientR p1 p2 q) 0.
Proof.
  unfold lsi_val. rewrite side_query_eq. cbn [signed_side].
  apply (Horient p1 p2 q D1 D2 Dq).
Qed.

Lemma side_query_class_on : class_of_R (lsi_val (sq p1 p2 q)) = class_of_R (orientR p1 p2 q).
Proof. apply class_of_R_compare, side_query_sign_on. Qed.

Theorem side_query_left_on : is_on_left_side (sq p1 p2 q) = true <-> orientR p1 p2 q > 0.
Proof.
  rewrite (is_on_left_side_val _ side_query_finite_on).
  apply (Rcompare_zero_transfer _ _ side_query_sign_on).
Qed.

Theorem side_query_right_on : is_on_right_side (sq p1 p2 q) = true <-> orientR p1 p2 q < 0.
Proof.
  rewrite (is_on_right_side_val _ side_query_finite_on).
  apply (Rcompare_zero_transfer _ _ side_query_sign_on).
Qed.

Theorem side_query_on_line_on : is_on_line (sq p1 p2 q) = true <-> orientR p1 p2 q = 0.
Proof.
  rewrite (is_on_line_val _ side_query_finite_on).
  apply (Rcompare_zero_transfer _ _ side_query_sign_on).
Qed.

Theorem side_query_left_or_on_on :
  is_on_left_side_or_on_line (sq p1 p2 q) = true <-> orientR p1 p2 q >= 0.
Proof.
  rewrite (is_on_left_side_or_on_line_val _ side_query_finite_on).
  apply (Rcompare_zero_transfer _ _ side_query_sign_on).
Qed.

Theorem side_query_right_or_on_on :
  is_on_right_side_or_on_line (sq p1 p2 q) = true <-> orientR p1 p2 q <= 0.
Proof.
  rewrite (is_on_right_side_or_on_line_val _ side_query_finite_on).
  apply (Rcompare_zero_transfer _ _ side_query_sign_on).
Qed.

(* reversed query: left <-> right, on_line kept *)
Theorem side_query_reversed_on :
  (is_on_left_side (lsi_reversed (sq p1 p2 q)) = true <-> orientR p1 p2 q < 0) /\
  (is_on_right_side (lsi_reversed (sq p1 p2 q)) = true <-> orientR p1 p2 q > 0) /\
  (is_on_line (lsi_reversed (sq p1 p2 q)) = true <-> orientR p1 p2 q = 0).
Proof.
  destruct (reversed_spec (sq p1 p2 q)) as (E1 & E2 & E3 & _).
  rewrite E1, E2, E3.
  split; [apply side_query_right_on | split; [apply side_query_left_on | apply side_query_on_line_on]].
Qed.

Theorem is_ordered_ccw_spec_on :
  is_ordered_ccw robust_orient2d p1 p2 q = true <-> orientR p1 p2 q >= 0.
Proof.
  change (is_ordered_ccw robust_orient2d p1 p2 q) with (is_on_left_side_or_on_line (sq p1 p2 q)).
  apply side_query_left_or_on_on.
Qed.

End Query.

Theorem lsi_eq_spec_on : forall p1 p2 q p1' p2' q',
  D p1 -> D p2 -> D q -> D p1' -> D p2' -> D q' ->
  (lsi_eq (sq p1 p2 q) (sq p1' p2' q') = true <->
   class_of_R (orientR p1 p2 q) = class_of_R (orientR p1' p2' q')).
Proof.
  intros p1 p2 q p1' p2' q' H1 H2 H3 H4 H5 H6.
  rewrite lsi_eq_val by (apply side_query_finite_on; assumption).
  rewrite !side_query_class_on by assumption. reflexivity.
Qed.

Theorem contained_in_circumference_spec_on : forall v1 v2 v3 p, D v1 -> D v2 -> D v3 -> D p ->
  (contained_in_circumference robust_incircle v1 v2 v3 p = true <-> incircleR v1 v2 v3 p > 0).
Proof.
  intros v1 v2 v3 p H1 H2 H3 H4.
  (* what the wrapper computes, by evaluation on constructors (independent of the spelling of the source) *)
  assert (E : contained_in_circumference robust_incircle v1 v2 v3 p = f_lt (robust_incircle v3 v2 v1 p) (f_of_bits 0))
    by (destruct v1, v2, v3, p; reflexivity).
  rewrite E.
  destruct (Hincircle v3 v2 v1 p H3 H2 H1 H4) as [Hf Hs].
  rewrite (f_lt_zero_iff _ Hf).
  destruct (Rcompare_zero_transfer _ _ Hs) as (_ & T & _). rewrite T.
  rewrite incircleR_reverse. split; intros; lra.
Qed.

End OracleOn.

(* The statements of the task: the guarantee is assumed for all points. *)
Section Oracle.
Variable robust_orient2d : pt -> pt -> pt -> F.
Variable robust_incircle : pt -> pt -> pt -> pt -> F.

Hypothesis Horient : forall a b c,
  is_finite (robust_orient2d a b c) = true /\
  Rcompare (B2R (robust_orient2d a b c)) 0 = Rcompare (orientR a b c) 0.
Hypothesis Hincircle : forall a b c d,
  is_finite (robust_incircle a b c d) = true /\
  Rcompare (B2R (robust_incircle a b c d)) 0 = Rcompare (incircleR a b c d) 0.

Notation sq := (side_query robust_orient2d).
Let all (_ : pt) : Prop := True.
Let Ho : forall a b c, all a -> all b -> all c -> _ := fun a b c _ _ _ => Horient a b c.
Let Hi : forall a b c d, all a -> all b -> all c -> all d -> _ := fun a b c d _ _ _ _ => Hincircle a b c d.

Lemma side_query_finite : forall p1 p2 q, lsi_finite (sq p1 p2 q).
Proof. intros. apply (side_query_finite_on all _ Ho); exact I. Qed.

Lemma side_query_sign : forall p1 p2 q,
  Rcompare (lsi_val (sq p1 p2 q)) 0 = Rcompare (orientR p1 p2 q) 0.
Proof. intros. apply (side_query_sign_on all _ Ho); exact I. Qed.

Theorem side_query_left : forall p1 p2 q,
  is_on_left_side (sq p1 p2 q) = true <-> orientR p1 p2 q > 0.
Proof. intros. apply (side_query_left_on all _ Ho); exact I. Qed.

Theorem side_query_right : forall p1 p2 q,
  is_on_right_side (sq p1 p2 q) = true <-> orientR p1 p2 q < 0.
Proof. intros. apply (side_query_right_on all _ Ho); exact I. Qed.

(* a point is reported on a line only if it is exactly collinear *)
Theorem side_query_on_line : forall p1 p2 q,
  is_on_line (sq p1 p2 q) = true <-> orientR p1 p2 q = 0.
Proof. intros. apply (side_query_on_line_on all _ Ho); exact I. Qed.

Theorem side_query_left_or_on : forall p1 p2 q,
  is_on_left_side_or_on_line (sq p1 p2 q) = true <-> orientR p1 p2 q >= 0.
Proof. intros. apply (side_query_left_or_on_on all _ Ho); exact I. Qed.

Theorem side_query_right_or_on : forall p1 p2 q,
  is_on_right_side_or_on_line (sq p1 p2 q) = true <-> orientR p1 p2 q <= 0.
Proof. intros. apply (side_query_right_or_on_on all _ Ho); exact I. Qed.

Theorem side_query_reversed : forall p1 p2 q,
  (is_on_left_side (lsi_reversed (sq p1 p2 q)) = true <-> orientR p1 p2 q < 0) /\
  (is_on_right_side (lsi_reversed (sq p1 p2 q)) = true <-> orientR p1 p2 q > 0) /\
  (is_on_line (lsi_reversed (sq p1 p2 q)) = true <-> orientR p1 p2 q = 0).
Proof. intros. apply (side_query_reversed_on all _ Ho); exact I. Qed.

(* two queries compare equal iff they fall in the same one of the three classes *)
Theorem lsi_eq_spec : forall p1 p2 q p1' p2' q',
  lsi_eq (sq p1 p2 q) (sq p1' p2' q') = true <->
  class_of_R (orientR p1 p2 q) = class_of_R (orientR p1' p2' q').
Proof. intros. apply (lsi_eq_spec_on all _ Ho); exact I. Qed.

Corollary lsi_eq_spec_classes : forall p1 p2 q p1' p2' q',
  lsi_eq (sq p1 p2 q) (sq p1' p2' q') = true <->
  (orientR p1 p2 q > 0 /\ orientR p1' p2' q' > 0) \/
  (orientR p1 p2 q < 0 /\ orientR p1' p2' q' < 0) \/
  (orientR p1 p2 q = 0 /\ orientR p1' p2' q' = 0).
Proof.
  intros. rewrite lsi_eq_spec. unfold class_of_R.
  destruct (Rcompare_spec (orientR p1 p2 q) 0); destruct (Rcompare_spec (orientR p1' p2' q') 0);
    split; intros K; try reflexivity; try discriminate; try lra;
    try (exfalso; destruct K as [[? ?] | [[? ?] | [? ?]]]; lra).
Qed.

Theorem is_ordered_ccw_spec : forall p1 p2 q,
  is_ordered_ccw robust_orient2d p1 p2 q = true <-> orientR p1 p2 q >= 0.
Proof. intros. apply (is_ordered_ccw_spec_on all _ Ho); exact I. Qed.

(* the source calls robust::incircle(v3, v2, v1, p) < 0.0; incircleR v3 v2 v1 p = - incircleR v1 v2 v3 p *)
Theorem contained_in_circumference_spec : forall v1 v2 v3 p,
  contained_in_circumference robust_incircle v1 v2 v3 p = true <-> incircleR v1 v2 v3 p > 0.
Proof. intros. apply (contained_in_circumference_spec_on all _ Hi); exact I. Qed.

End Oracle.

(* ------------------------------------------------------------------------------------------ *)
(** * Part B: the integer scaling of the run-time checker preserves values and signs *)

Definition dyR (d : dy) : R := IZR (fst d) * bpow radix2 (snd d).

(* the exact dyadic decoding of Num/F64.v denotes the real value *)
Theorem dyadic_value : forall (x : F) (m e : Z),
  dyadic x = Some (m, e) -> B2R x = IZR m * bpow radix2 e.
Proof.
  intros x m e H. destruct x as [s | s | | s mx ex Hb]; cbn [dyadic] in H; try discriminate.
  - injection H as <- <-. cbn [B2R]. change (bpow radix2 0) with 1. lra.
  - injection H as <- <-. cbn [B2R]. unfold F2R. cbn [Fnum Fexp]. destruct s; reflexivity.
Qed.

Lemma dyadic_finite : forall (x : F) d, dyadic x = Some d -> is_finite x = true.
Proof. intros x d H. destruct x; cbn [dyadic] in H; try discriminate; reflexivity. Qed.

Lemma dyadic_some_iff : forall x : F, (exists d, dyadic x = Some d) <-> is_finite x = true.
Proof.
  intros x. split.
  - intros [d H]. exact (dyadic_finite x d H).
  - destruct x; cbn [is_finite dyadic]; intros H; try discriminate; eexists; reflexivity.
Qed.

Lemma strip_pos_value : forall (p : positive) (e : Z) (q : positive) (e' : Z),
  strip_pos p e = (q, e') ->
  IZR (Z.pos q) * bpow radix2 e' = IZR (Z.pos p) * bpow radix2 e /\ (e <= e')%Z.
Proof.
  induction p as [p IH | p IH |]; intros e q e' H; cbn [strip_pos] in H.
  - injection H as <- <-. split; [reflexivity | lia].
  - destruct (IH _ _ _ H) as [V L]. split; [|lia].
    rewrite V. rewrite bpow_plus. change (bpow radix2 1) with 2.
    rewrite (Pos2Z.inj_xO p), mult_IZR. lra.
  - injection H as <- <-. split; [reflexivity | lia].
Qed.

Theorem normalize_value : forall (m e : Z),
  IZR (fst (normalize (m, e))) * bpow radix2 (snd (normalize (m, e))) = IZR m * bpow radix2 e.
Proof.
  intros m e. unfold normalize. cbn [fst snd].
  destruct m as [| p | p].
  - cbn [fst snd]. lra.
  - destruct (strip_pos p e) as [q e'] eqn:E. cbn [fst snd].
    apply (strip_pos_value _ _ _ _ E).
  - destruct (strip_pos p e) as [q e'] eqn:E. cbn [fst snd].
    destruct (strip_pos_value _ _ _ _ E) as [V _].
    change (Z.neg q) with (- Z.pos q)%Z. change (Z.neg p) with (- Z.pos p)%Z.
    rewrite !opp_IZR. lra.
Qed.

Corollary normalize_dyR : forall d : dy, dyR (normalize d) = dyR d.
Proof. intros [m e]. apply normalize_value. Qed.

Lemma normalize_zero_iff : forall d : dy, fst (normalize d) = 0%Z <-> fst d = 0%Z.
Proof.
  intros [m e]. unfold normalize. cbn [fst snd].
  destruct m as [| p | p]; cbn [fst]; [tauto | |];
    destruct (strip_pos p e) as [q e']; cbn [fst]; split; discriminate.
Qed.

(* decode = dyadic of the bit pattern, normalized: denotes the stored value *)
Theorem decode_value : forall (bits : Z) (d : dy),
  decode bits = Some d -> is_finite (f_of_bits bits) = true /\ B2R (f_of_bits bits) = dyR d.
Proof.
  intros bits d H. unfold decode in H.
  destruct (dyadic (f_of_bits bits)) as [[m e]|] eqn:E; [|discriminate].
  injection H as <-. split; [exact (dyadic_finite _ _ E)|].
  rewrite normalize_dyR. exact (dyadic_value _ _ _ E).
Qed.

Lemma shiftl_value : forall m k : Z, (0 <= k)%Z -> IZR (Z.shiftl m k) = IZR m * bpow radix2 k.
Proof.
  intros m k Hk. rewrite Z.shiftl_mul_pow2 by exact Hk. rewrite mult_IZR.
  change 2%Z with (radix_val radix2). rewrite IZR_Zpower by exact Hk. reflexivity.
Qed.

Theorem scale_value : forall (emin m e : Z), (e >= emin)%Z ->
  IZR (scale emin (m, e)) * bpow radix2 emin = IZR m * bpow radix2 e.
Proof.
  intros emin m e H. unfold scale. cbn [fst snd]. rewrite shiftl_value by lia.
  rewrite Rmult_assoc, <- bpow_plus. replace (e - emin + emin)%Z with e by lia. reflexivity.
Qed.

(* the zero coordinate (0, 0) is exempt from the minimum: it scales to 0 on every scale *)
Theorem scale_value_zero : forall (emin e : Z),
  IZR (scale emin (0%Z, e)) * bpow radix2 emin = IZR 0 * bpow radix2 e.
Proof. intros emin e. unfold scale. cbn [fst snd]. rewrite Z.shiftl_0_l. lra. Qed.

Corollary scale_dyR : forall (emin : Z) (d : dy), (fst d = 0%Z \/ emin <= snd d)%Z ->
  IZR (scale emin d) * bpow radix2 emin = dyR d.
Proof.
  intros emin [m e] [H | H]; cbn [fst snd] in H; unfold dyR; cbn [fst snd].
  - subst m. apply scale_value_zero.
  - apply scale_value. lia.
Qed.

(* emin_of is a lower bound of the exponents of all non-zero members *)
Lemma emin_of_le : forall (l : list dy) (d : dy), In d l -> (fst d = 0%Z \/ emin_of l <= snd d)%Z.
Proof.
  induction l as [| a l IH]; intros d H; [contradiction|].
  cbn [emin_of fold_right]. fold (emin_of l).
  destruct H as [<- | H].
  - destruct (Z.eqb_spec (fst a) 0) as [E | E]; [left; exact E | right; lia].
  - destruct (IH d H) as [E | E]; [left; exact E|].
    right. destruct (fst a =? 0)%Z; lia.
Qed.

Theorem scale_emin_of_value : forall (l : list dy) (d : dy), In d l ->
  IZR (scale (emin_of l) d) * bpow radix2 (emin_of l) = dyR d.
Proof. intros l d H. apply scale_dyR, emin_of_le, H. Qed.

(* -- the determinants on a common scale -- *)

Definition scaled (emin : Z) (z : Z) : R := IZR z * bpow radix2 emin.

Lemma bpow_2 : forall e : Z, bpow radix2 (2 * e) = bpow radix2 e * bpow radix2 e.
Proof. intros e. rewrite <- bpow_plus. f_equal. lia. Qed.

Lemma bpow_4 : forall e : Z,
  bpow radix2 (4 * e) = bpow radix2 e * bpow radix2 e * (bpow radix2 e * bpow radix2 e).
Proof. intros e. rewrite <- !bpow_plus. f_equal. lia. Qed.

Theorem orient_scale_value : forall (emin : Z) (a b c : pnt),
  orient_expr (scaled emin (fst a)) (scaled emin (snd a)) (scaled emin (fst b)) (scaled emin (snd b))
              (scaled emin (fst c)) (scaled emin (snd c))
  = IZR (orient a b c) * bpow radix2 (2 * emin).
Proof.
  intros emin [ax ay] [bx by_] [cx cy]. unfold orient_expr, orient, scaled. cbn [fst snd].
  rewrite bpow_2. rewrite !minus_IZR, !mult_IZR, !minus_IZR. ring.
Qed.

Theorem incircle_scale_value : forall (emin : Z) (a b c d : pnt),
  incircle_expr (scaled emin (fst a)) (scaled emin (snd a)) (scaled emin (fst b)) (scaled emin (snd b))
                (scaled emin (fst c)) (scaled emin (snd c)) (scaled emin (fst d)) (scaled emin (snd d))
  = IZR (incircle a b c d) * bpow radix2 (4 * emin).
Proof.
  intros emin [ax ay] [bx by_] [cx cy] [dx dy]. unfold incircle_expr, incircle, scaled. cbn [fst snd].
  rewrite bpow_4. cbv zeta.
  repeat (rewrite ?minus_IZR, ?plus_IZR, ?mult_IZR). ring.
Qed.

Lemma Rcompare_scaled_sign : forall (z e : Z), Rcompare (IZR z * bpow radix2 e) 0 = (z ?= 0)%Z.
Proof.
  intros z e. pose proof (bpow_gt_0 radix2 e) as Hp.
  rewrite <- (Rmult_0_l (bpow radix2 e)). rewrite Rcompare_mult_r by exact Hp.
  apply Rcompare_IZR.
Qed.

Theorem orient_scale_sign : forall (emin : Z) (a b c : pnt),
  Rcompare (orient_expr (scaled emin (fst a)) (scaled emin (snd a)) (scaled emin (fst b))
                        (scaled emin (snd b)) (scaled emin (fst c)) (scaled emin (snd c))) 0
  = (orient a b c ?= 0)%Z.
Proof. intros. rewrite orient_scale_value. apply Rcompare_scaled_sign. Qed.

Theorem incircle_scale_sign : forall (emin : Z) (a b c d : pnt),
  Rcompare (incircle_expr (scaled emin (fst a)) (scaled emin (snd a)) (scaled emin (fst b))
                          (scaled emin (snd b)) (scaled emin (fst c)) (scaled emin (snd c))
                          (scaled emin (fst d)) (scaled emin (snd d))) 0
  = (incircle a b c d ?= 0)%Z.
Proof. intros. rewrite incircle_scale_value. apply Rcompare_scaled_sign. Qed.

(* ------------------------------------------------------------------------------------------ *)
(** * Part C: stored coordinates, the checker's integers, and the wrappers together *)

(* [z] is the integer the checker computes for the stored binary64 coordinate [x] on the scale 2^emin *)
Definition coord_scaled (emin : Z) (x : F) (z : Z) : Prop :=
  exists d : dy, dyadic x = Some d /\
    (fst (normalize d) = 0 \/ emin <= snd (normalize d))%Z /\ z = scale emin (normalize d).

Definition pt_scaled (emin : Z) (p : pt) (a : pnt) : Prop :=
  coord_scaled emin (px p) (fst a) /\ coord_scaled emin (py p) (snd a).

Lemma coord_scaled_value : forall emin x z, coord_scaled emin x z ->
  is_finite x = true /\ B2R x = scaled emin z.
Proof.
  intros emin x z (d & Hd & Hle & ->). split; [exact (dyadic_finite _ _ Hd)|].
  unfold scaled. rewrite (scale_dyR _ _ Hle), normalize_dyR. destruct d as [m e].
  exact (dyadic_value _ _ _ Hd).
Qed.

Lemma pt_scaled_value : forall emin p a, pt_scaled emin p a ->
  xR p = scaled emin (fst a) /\ yR p = scaled emin (snd a).
Proof.
  intros emin p a [Hx Hy]. split; [apply (coord_scaled_value _ _ _ Hx) | apply (coord_scaled_value _ _ _ Hy)].
Qed.

(* the sign of the exact real determinant of the stored coordinates is the sign of the integer
   determinant computed by the checker *)
Theorem stored_orient_sign : forall emin p1 p2 p3 a b c,
  pt_scaled emin p1 a -> pt_scaled emin p2 b -> pt_scaled emin p3 c ->
  Rcompare (orientR p1 p2 p3) 0 = (orient a b c ?= 0)%Z.
Proof.
  intros emin p1 p2 p3 a b c H1 H2 H3. rewrite orientR_expr.
  destruct (pt_scaled_value _ _ _ H1) as [-> ->]. destruct (pt_scaled_value _ _ _ H2) as [-> ->].
  destruct (pt_scaled_value _ _ _ H3) as [-> ->]. apply orient_scale_sign.
Qed.

Theorem stored_incircle_sign : forall emin p1 p2 p3 p4 a b c d,
  pt_scaled emin p1 a -> pt_scaled emin p2 b -> pt_scaled emin p3 c -> pt_scaled emin p4 d ->
  Rcompare (incircleR p1 p2 p3 p4) 0 = (incircle a b c d ?= 0)%Z.
Proof.
  intros emin p1 p2 p3 p4 a b c d H1 H2 H3 H4. rewrite incircleR_expr.
  destruct (pt_scaled_value _ _ _ H1) as [-> ->]. destruct (pt_scaled_value _ _ _ H2) as [-> ->].
  destruct (pt_scaled_value _ _ _ H3) as [-> ->]. destruct (pt_scaled_value _ _ _ H4) as [-> ->].
  apply incircle_scale_sign.
Qed.

(* decode_points of Num/Decode.v produces integers in the relation coord_scaled *)
Lemma decode_all_Forall2 : forall (l : list Z) (ds : list dy),
  decode_all l = Some ds -> Forall2 (fun bits d => decode bits = Some d) l ds.
Proof.
  induction l as [| b t IH]; intros ds H; cbn [decode_all] in H.
  - injection H as <-. constructor.
  - destruct (decode b) as [d|] eqn:Eb; [|discriminate].
    destruct (decode_all t) as [r|] eqn:Et; [|discriminate].
    injection H as <-. constructor; [exact Eb | apply IH; reflexivity].
Qed.

Lemma decode_coord_scaled : forall emin bits d, decode bits = Some d ->
  (fst d = 0 \/ emin <= snd d)%Z -> coord_scaled emin (f_of_bits bits) (scale emin d).
Proof.
  intros emin bits d H Hle. unfold decode in H.
  destruct (dyadic (f_of_bits bits)) as [d0|] eqn:E; [|discriminate]. injection H as <-.
  exists d0. split; [exact E | split; [exact Hle | reflexivity]].
Qed.

Theorem decode_all_coord_scaled : forall (l : list Z) (ds : list dy),
  decode_all l = Some ds ->
  Forall2 (fun bits z => coord_scaled (emin_of ds) (f_of_bits bits) z) l (map (scale (emin_of ds)) ds).
Proof.
  intros l ds H. apply decode_all_Forall2 in H.
  assert (G : forall em, (forall d, In d ds -> (fst d = 0 \/ em <= snd d)%Z) ->
            Forall2 (fun bits z => coord_scaled em (f_of_bits bits) z) l (map (scale em) ds)).
  { intros em. induction H as [| b d l' ds' Hbd Hrest IH]; intros Hall; cbn [map]; constructor.
    - apply decode_coord_scaled; [exact Hbd | apply Hall; left; reflexivity].
    - apply IH. intros d' Hin. apply Hall. right. exact Hin. }
  apply G. intros d Hin. apply emin_of_le, Hin.
Qed.

Section OracleChecker.
Variable D : pt -> Prop.
Variable robust_orient2d : pt -> pt -> pt -> F.
Variable robust_incircle : pt -> pt -> pt -> pt -> F.

Hypothesis Horient : forall a b c, D a -> D b -> D c ->
  is_finite (robust_orient2d a b c) = true /\
  Rcompare (B2R (robust_orient2d a b c)) 0 = Rcompare (orientR a b c) 0.
Hypothesis Hincircle : forall a b c d, D a -> D b -> D c -> D d ->
  is_finite (robust_incircle a b c d) = true /\
  Rcompare (B2R (robust_incircle a b c d)) 0 = Rcompare (incircleR a b c d) 0.

Notation sq := (side_query robust_orient2d).

Lemma Rcompare_Zcompare_transfer : forall (r : R) (z : Z), Rcompare r 0 = (z ?= 0)%Z ->
  (r > 0 <-> (0 < z)%Z) /\ (r < 0 <-> (z < 0)%Z) /\ (r = 0 <-> z = 0%Z) /\
  (r >= 0 <-> (0 <= z)%Z) /\ (r <= 0 <-> (z <= 0)%Z).
Proof.
  intros r z H. destruct (Rcompare_spec r 0) as [A | A | A]; destruct (Z.compare_spec z 0) as [B | B | B];
    try discriminate; repeat split; intros; try lra; try lia.
Qed.

(* the wrappers of spade and the checker's integer predicates agree on the stored coordinates *)
Theorem side_query_checker : forall emin p1 p2 q a b c,
  D p1 -> D p2 -> D q -> pt_scaled emin p1 a -> pt_scaled emin p2 b -> pt_scaled emin q c ->
  (is_on_left_side (sq p1 p2 q) = true <-> (0 < orient a b c)%Z) /\
  (is_on_right_side (sq p1 p2 q) = true <-> (orient a b c < 0)%Z) /\
  (is_on_line (sq p1 p2 q) = true <-> orient a b c = 0%Z) /\
  (is_on_left_side_or_on_line (sq p1 p2 q) = true <-> (0 <= orient a b c)%Z) /\
  (is_on_right_side_or_on_line (sq p1 p2 q) = true <-> (orient a b c <= 0)%Z) /\
  (is_ordered_ccw robust_orient2d p1 p2 q = true <-> (0 <= orient a b c)%Z).
Proof.
  intros emin p1 p2 q a b c D1 D2 D3 S1 S2 S3.
  destruct (Rcompare_Zcompare_transfer _ _ (stored_orient_sign _ _ _ _ _ _ _ S1 S2 S3))
    as (T1 & T2 & T3 & T4 & T5).
  rewrite <- T1, <- T2, <- T3, <- T4, <- T5.
  repeat split.
  - apply (side_query_left_on D _ Horient); assumption.
  - apply (side_query_left_on D _ Horient); assumption.
  - apply (side_query_right_on D _ Horient); assumption.
  - apply (side_query_right_on D _ Horient); assumption.
  - apply (side_query_on_line_on D _ Horient); assumption.
  - apply (side_query_on_line_on D _ Horient); assumption.
  - apply (side_query_left_or_on_on D _ Horient); assumption.
  - apply (side_query_left_or_on_on D _ Horient); assumption.
  - apply (side_query_right_or_on_on D _ Horient); assumption.
  - apply (side_query_right_or_on_on D _ Horient); assumption.
  - apply (is_ordered_ccw_spec_on D _ Horient); assumption.
  - apply (is_ordered_ccw_spec_on D _ Horient); assumption.
Qed.

Theorem contained_in_circumference_checker : forall emin v1 v2 v3 p a b c d,
  D v1 -> D v2 -> D v3 -> D p ->
  pt_scaled emin v1 a -> pt_scaled emin v2 b -> pt_scaled emin v3 c -> pt_scaled emin p d ->
  (contained_in_circumference robust_incircle v1 v2 v3 p = true <-> (0 < incircle a b c d)%Z).
Proof.
  intros emin v1 v2 v3 p a b c d D1 D2 D3 D4 S1 S2 S3 S4.
  destruct (Rcompare_Zcompare_transfer _ _ (stored_incircle_sign _ _ _ _ _ _ _ _ _ S1 S2 S3 S4))
    as (T1 & _).
  rewrite <- T1. apply (contained_in_circumference_spec_on D _ Hincircle); assumption.
Qed.

End OracleChecker.

Print Assumptions side_query_left.
Print Assumptions side_query_right.
Print Assumptions side_query_on_line.
Print Assumptions lsi_eq_spec.
Print Assumptions reversed_spec.
Print Assumptions is_ordered_ccw_spec.
Print Assumptions contained_in_circumference_spec.
Print Assumptions dyadic_value.
Print Assumptions normalize_value.
Print Assumptions scale_value.
Print Assumptions orient_scale_sign.
Print Assumptions incircle_scale_sign.
Print Assumptions stored_orient_sign.
Print Assumptions stored_incircle_sign.
Print Assumptions side_query_checker.
Print Assumptions contained_in_circumference_checker.
