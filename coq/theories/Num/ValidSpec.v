(* Num/ValidSpec.v -- a computable form of the validation specification (used by the checker as the
   oracle, independent of the repository's code) and the proof that it is the real-number
   specification `classify` of Num/Validate.v. *)
From Coq Require Import ZArith Reals Bool Lia Lra.
From Coq Require Import Floats.SpecFloat.
From Flocq Require Import Core.Core IEEE754.BinarySingleNaN.
From SpadeV Require Import Num.F64 Gen.Prelude.

(* m * 2^e < 2^k *)
Definition lt_pow2 (m : positive) (e k : Z) : bool :=
  if (e <=? k)%Z then (Z.pos m <? 2 ^ (k - e))%Z else false.
(* m * 2^e > 2^k *)
Definition gt_pow2 (m : positive) (e k : Z) : bool :=
  if (k <=? e)%Z then negb ((Z.pos m =? 1)%Z && (e =? k)%Z) else (2 ^ (k - e) <? Z.pos m)%Z.

Definition classify_c (x : F) : result unit InsertionError :=
  match x with
  | B754_nan => Err NAN
  | B754_infinity _ => Err TooLarge
  | B754_zero _ => Ok tt
  | B754_finite _ m e _ =>
      if lt_pow2 m e (-142) then Err TooSmall
      else if gt_pow2 m e 201 then Err TooLarge
      else Ok tt
  end.

Definition validate_vertex_c (x y : F) : result unit InsertionError :=
  match classify_c x with Err e => Err e | Ok _ => classify_c y end.

Definition mitigate_c (x : F) : F :=
  match classify_c x with Err TooSmall => f_zero | _ => x end.
