From Coq Require Import ZArith Reals Bool Lia Lra.
From Coq Require Import Floats.SpecFloat.
From Flocq Require Import Core.Core IEEE754.BinarySingleNaN.
From SpadeV Require Import Num.F64 Gen.Prelude Gen.Math Num.Validate Num.ValidSpec.
Local Open Scope R_scope.

Lemma Rabs_B2R_finite : forall s m e H,
  Rabs (B2R (B754_finite s m e H : F)) = IZR (Z.pos m) * bpow radix2 e.
Proof.
  intros s m e H. cbn [B2R]. rewrite <- F2R_Zabs. cbn [Fnum Fexp]. rewrite abs_cond_Zopp.
  reflexivity.
Qed.

Lemma lt_pow2_spec : forall m e k,
  Rlt_bool (IZR (Z.pos m) * bpow radix2 e) (bpow radix2 k) = lt_pow2 m e k.
Proof.
  intros m e k. unfold lt_pow2. destruct (Z.leb_spec e k) as [Hle | Hgt].
  - replace (bpow radix2 k) with (bpow radix2 (k - e) * bpow radix2 e)
      by (rewrite <- bpow_plus; f_equal; lia).
    assert (Hp : 0 < bpow radix2 e) by apply bpow_gt_0.
    rewrite <- (IZR_Zpower radix2 (k - e)) by lia. change (radix_val radix2) with 2%Z.
    destruct (Z.ltb_spec (Z.pos m) (2 ^ (k - e))) as [H1 | H1].
    + apply Rlt_bool_true. apply Rmult_lt_compat_r; [exact Hp | apply IZR_lt; exact H1].
    + apply Rlt_bool_false. apply Rmult_le_compat_r; [lra | apply IZR_le; exact H1].
  - apply Rlt_bool_false.
    assert (bpow radix2 k < bpow radix2 e) by (apply bpow_lt; lia).
    assert (1 <= IZR (Z.pos m)) by (apply IZR_le; lia).
    assert (0 < bpow radix2 e) by apply bpow_gt_0. nra.
Qed.

Lemma gt_pow2_spec : forall m e k,
  Rlt_bool (bpow radix2 k) (IZR (Z.pos m) * bpow radix2 e) = gt_pow2 m e k.
Proof.
  intros m e k. unfold gt_pow2. destruct (Z.leb_spec k e) as [Hle | Hgt].
  - assert (Hp : 0 < bpow radix2 e) by apply bpow_gt_0.
    assert (Hke : bpow radix2 k <= bpow radix2 e) by (apply bpow_le; lia).
    assert (Hm : 1 <= IZR (Z.pos m)) by (apply IZR_le; lia).
    destruct (Z.eqb_spec (Z.pos m) 1) as [E1 | N1]; cbn [andb negb].
    + destruct (Z.eqb_spec e k) as [E2 | N2]; cbn [negb].
      * apply Rlt_bool_false. rewrite E1, E2. lra.
      * apply Rlt_bool_true. rewrite E1. assert (bpow radix2 k < bpow radix2 e) by (apply bpow_lt; lia). lra.
    + apply Rlt_bool_true. assert (2 <= IZR (Z.pos m)) by (apply IZR_le; lia). nra.
  - replace (bpow radix2 k) with (bpow radix2 (k - e) * bpow radix2 e)
      by (rewrite <- bpow_plus; f_equal; lia).
    assert (Hp : 0 < bpow radix2 e) by apply bpow_gt_0.
    rewrite <- (IZR_Zpower radix2 (k - e)) by lia. change (radix_val radix2) with 2%Z.
    destruct (Z.ltb_spec (2 ^ (k - e)) (Z.pos m)) as [H1 | H1].
    + apply Rlt_bool_true. apply Rmult_lt_compat_r; [exact Hp | apply IZR_lt; exact H1].
    + apply Rlt_bool_false. apply Rmult_le_compat_r; [lra | apply IZR_le; exact H1].
Qed.

Theorem classify_c_correct : forall x : F, classify_c x = classify x.
Proof.
  intros x. destruct x as [s | s | | s m e H]; try reflexivity.
  unfold classify_c, classify. rewrite Rabs_B2R_finite. unfold two_pow.
  rewrite lt_pow2_spec, gt_pow2_spec. reflexivity.
Qed.

(* The generated code computes the computable specification, for every binary64 value. *)
Theorem validate_coordinate_computable : forall x : F, validate_coordinate x = classify_c x.
Proof. intros x. rewrite classify_c_correct. apply validate_coordinate_classify. Qed.

Theorem validate_vertex_computable : forall v : pt, validate_vertex v = validate_vertex_c (px v) (py v).
Proof.
  intros v. rewrite validate_vertex_spec. unfold validate_vertex_c. rewrite !classify_c_correct. reflexivity.
Qed.

Theorem mitigate_computable : forall x : F, mitigate_underflow_for_coordinate x = mitigate_c x \/
  (exists s, x = B754_zero s /\ mitigate_c x = x /\ mitigate_underflow_for_coordinate x = x).
Proof.
  intros x. left. unfold mitigate_c. rewrite classify_c_correct. apply mitigate_cases.
Qed.
