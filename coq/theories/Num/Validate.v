(* Num/Validate.v -- the specification of coordinate validation over all binary64 values and
   the proof that the GENERATED validate_coordinate (Gen/Math.v) meets it.  (C08) *)
From Coq Require Import ZArith Reals Bool Lia Lra.
From Coq Require Import Floats.SpecFloat.
From Flocq Require Import Core.Core IEEE754.BinarySingleNaN.
From SpadeV Require Import Num.F64 Gen.Prelude Gen.Math.
Local Open Scope R_scope.

Definition two_pow (e : Z) : R := bpow radix2 e.

(* Classification of a binary64 value by its real value, as documented in math.rs. *)
Definition classify (x : F) : result unit InsertionError :=
  match x with
  | B754_nan => Err NAN
  | B754_infinity _ => Err TooLarge
  | B754_zero _ => Ok tt
  | B754_finite _ _ _ _ =>
      if Rlt_bool (Rabs (B2R x)) (two_pow (-142)) then Err TooSmall
      else if Rlt_bool (two_pow 201) (Rabs (B2R x)) then Err TooLarge
      else Ok tt
  end.

Lemma SF2R_pow2 : forall (p : positive) (k e : Z), Z.pos p = (2 ^ k)%Z -> (0 <= k)%Z ->
  SF2R radix2 (S754_finite false p e) = two_pow (k + e).
Proof.
  intros p k e Hp Hk. unfold SF2R, F2R, two_pow; cbn [cond_Zopp Fnum Fexp].
  rewrite Hp. change 2%Z with (radix_val radix2). rewrite IZR_Zpower by exact Hk.
  rewrite <- bpow_plus. reflexivity.
Qed.

Lemma MIN_finite : is_finite MIN_ALLOWED_VALUE = true. Proof. vm_compute. reflexivity. Qed.
Lemma MAX_finite : is_finite MAX_ALLOWED_VALUE = true. Proof. vm_compute. reflexivity. Qed.

Theorem MIN_is_2_pow_m142 : B2R MIN_ALLOWED_VALUE = two_pow (-142).
Proof.
  rewrite <- SF2R_B2SF.
  replace (B2SF MIN_ALLOWED_VALUE) with (S754_finite false 4503599627370496 (-194)) by (vm_compute; reflexivity).
  rewrite (SF2R_pow2 _ 52) by (vm_compute; congruence || reflexivity). reflexivity.
Qed.

Theorem MAX_is_2_pow_201 : B2R MAX_ALLOWED_VALUE = two_pow 201.
Proof.
  rewrite <- SF2R_B2SF.
  replace (B2SF MAX_ALLOWED_VALUE) with (S754_finite false 4503599627370496 149) by (vm_compute; reflexivity).
  rewrite (SF2R_pow2 _ 52) by (vm_compute; congruence || reflexivity). reflexivity.
Qed.

Lemma zero_bits : f_of_bits 0 = B754_zero false. Proof. vm_compute. reflexivity. Qed.

Lemma finite_nonzero : forall s m e H, B2R (B754_finite s m e H : F) <> 0.
Proof.
  intros s m e H. cbn [B2R]. intro E. apply eq_0_F2R in E. destruct s; cbn in E; discriminate.
Qed.

(* ---- a proof that does not depend on how the conditions of validate_coordinate are arranged in the source:
   every floating-point comparison between finite values is turned into the comparison of the real values, then all
   comparisons are case-split and each leaf is closed by linear real arithmetic. ---- *)
Lemma f_lt_R : forall u v : F, is_finite u = true -> is_finite v = true -> f_lt u v = Rlt_bool (B2R u) (B2R v).
Proof. intros u v Hu Hv. unfold f_lt. apply Bltb_correct; assumption. Qed.
Lemma f_gt_R : forall u v : F, is_finite u = true -> is_finite v = true -> f_gt u v = Rlt_bool (B2R v) (B2R u).
Proof. intros u v Hu Hv. unfold f_gt. apply Bltb_correct; assumption. Qed.
Lemma f_le_R : forall u v : F, is_finite u = true -> is_finite v = true -> f_le u v = Rle_bool (B2R u) (B2R v).
Proof. intros u v Hu Hv. unfold f_le. apply Bleb_correct; assumption. Qed.
Lemma f_ge_R : forall u v : F, is_finite u = true -> is_finite v = true -> f_ge u v = Rle_bool (B2R v) (B2R u).
Proof. intros u v Hu Hv. unfold f_ge. apply Bleb_correct; assumption. Qed.
Lemma f_eq_R : forall u v : F, is_finite u = true -> is_finite v = true -> f_eq u v = Req_bool (B2R u) (B2R v).
Proof. intros u v Hu Hv. unfold f_eq. apply Beqb_correct; assumption. Qed.
Lemma f_ne_R : forall u v : F, is_finite u = true -> is_finite v = true -> f_ne u v = negb (Req_bool (B2R u) (B2R v)).
Proof. intros u v Hu Hv. unfold f_ne. f_equal. apply Beqb_correct; assumption. Qed.
Lemma finite_abs : forall u : F, is_finite u = true -> is_finite (f_abs u) = true.
Proof. intros u H. unfold f_abs. rewrite is_finite_Babs. exact H. Qed.
Lemma finite_zero_bits : is_finite (f_of_bits 0) = true. Proof. rewrite zero_bits. reflexivity. Qed.
Lemma finite_f_zero : is_finite f_zero = true. Proof. reflexivity. Qed.
Lemma B2R_zero_bits : B2R (f_of_bits 0) = 0. Proof. rewrite zero_bits. reflexivity. Qed.
Lemma B2R_f_zero : B2R f_zero = 0. Proof. reflexivity. Qed.
Lemma B2R_f_abs : forall u : F, B2R (f_abs u) = Rabs (B2R u). Proof. intros u. unfold f_abs. apply B2R_Babs. Qed.
Lemma pow_m142_lt_201 : two_pow (-142) < two_pow 201. Proof. apply bpow_lt; lia. Qed.
Lemma pow_m142_pos : 0 < two_pow (-142). Proof. apply bpow_gt_0. Qed.

Ltac finite_side :=
  first [ assumption | exact MIN_finite | exact MAX_finite | exact finite_zero_bits | exact finite_f_zero
        | apply finite_abs; assumption ].
Ltac to_reals :=
  repeat first
    [ rewrite f_lt_R by finite_side | rewrite f_gt_R by finite_side | rewrite f_le_R by finite_side
    | rewrite f_ge_R by finite_side | rewrite f_eq_R by finite_side | rewrite f_ne_R by finite_side ];
  rewrite ?B2R_f_abs, ?MIN_is_2_pow_m142, ?MAX_is_2_pow_201, ?B2R_zero_bits, ?B2R_f_zero.
Ltac split_comparisons :=
  repeat match goal with
         | |- context [Rlt_bool ?a ?b] => destruct (Rlt_bool_spec a b)
         | |- context [Rle_bool ?a ?b] => destruct (Rle_bool_spec a b)
         | |- context [Req_bool ?a ?b] => destruct (Req_bool_spec a b)
         end.

Theorem validate_coordinate_classify : forall x : F, validate_coordinate x = classify x.
Proof.
  intros x. unfold validate_coordinate, classify.
  destruct x as [s | s | | s m e H].
  - destruct s; vm_compute; reflexivity.
  - destruct s; vm_compute; reflexivity.
  - vm_compute; reflexivity.
  - set (x := B754_finite s m e H : F).
    assert (Hf : is_finite x = true) by reflexivity.
    assert (Hnz : B2R x <> 0) by (apply finite_nonzero).
    assert (Hpos : 0 < Rabs (B2R x)) by (apply Rabs_pos_lt; exact Hnz).
    pose proof pow_m142_lt_201 as Hlt. pose proof pow_m142_pos as Hp0.
    change (f_is_nan x) with false. cbv iota zeta.
    to_reals.
    split_comparisons; cbn [negb andb orb]; try reflexivity; try (exfalso; lra); try (exfalso; congruence).
Qed.

(* The documented statement in `iff` form. *)
Definition in_range (x : F) : Prop :=
  is_finite x = true /\ (B2R x = 0 \/ (two_pow (-142) <= Rabs (B2R x) <= two_pow 201)).

Theorem validate_coordinate_ok_iff : forall x : F, validate_coordinate x = Ok tt <-> in_range x.
Proof.
  intros x. rewrite validate_coordinate_classify. unfold classify, in_range.
  destruct x as [s | s | | s m e H]; cbn [is_finite].
  - split; [intros _; split; [reflexivity | left; reflexivity] | reflexivity].
  - split; [discriminate | intros [E _]; discriminate].
  - split; [discriminate | intros [E _]; discriminate].
  - set (x := B754_finite s m e H : F).
    destruct (Rlt_bool_spec (Rabs (B2R x)) (two_pow (-142))) as [H1 | H1].
    + split; [discriminate|]. intros [_ [E | [E _]]]; [exfalso; revert E; apply finite_nonzero | lra].
    + destruct (Rlt_bool_spec (two_pow 201) (Rabs (B2R x))) as [H2 | H2].
      * split; [discriminate|]. intros [_ [E | [_ E]]]; [exfalso; revert E; apply finite_nonzero | lra].
      * split; [intros _; split; [reflexivity | right; lra] | reflexivity].
Qed.

Theorem validate_coordinate_nan_iff : forall x : F, validate_coordinate x = Err NAN <-> is_nan x = true.
Proof.
  intros x. rewrite validate_coordinate_classify. unfold classify.
  destruct x as [s | s | | s m e H]; cbn [is_nan]; try (split; discriminate); try (split; reflexivity).
  destruct (Rlt_bool _ _); [split; discriminate|]. destruct (Rlt_bool _ _); split; discriminate.
Qed.

Theorem validate_coordinate_too_small_iff : forall x : F,
  validate_coordinate x = Err TooSmall <-> (is_finite x = true /\ 0 < Rabs (B2R x) < two_pow (-142)).
Proof.
  intros x. rewrite validate_coordinate_classify. unfold classify.
  destruct x as [s | s | | s m e H]; cbn [is_finite].
  - split; [discriminate|]. intros [_ [E _]]. cbn [B2R] in E. rewrite Rabs_R0 in E. lra.
  - split; [discriminate | intros [E _]; discriminate].
  - split; [discriminate | intros [E _]; discriminate].
  - set (x := B754_finite s m e H : F).
    assert (0 < Rabs (B2R x)) by (apply Rabs_pos_lt, finite_nonzero).
    destruct (Rlt_bool_spec (Rabs (B2R x)) (two_pow (-142))) as [H1 | H1].
    + split; [intros _; split; [reflexivity | lra] | reflexivity].
    + destruct (Rlt_bool _ _); (split; [discriminate | intros [_ E]; lra]).
Qed.

Theorem validate_coordinate_too_large_iff : forall x : F,
  validate_coordinate x = Err TooLarge <->
  (is_nan x = false /\ (is_finite x = false \/ two_pow 201 < Rabs (B2R x))).
Proof.
  intros x. rewrite validate_coordinate_classify. unfold classify.
  destruct x as [s | s | | s m e H]; cbn [is_finite is_nan].
  - split; [discriminate|]. intros [_ [E | E]]; [discriminate|]. cbn [B2R] in E. rewrite Rabs_R0 in E.
    pose proof (bpow_gt_0 radix2 201). unfold two_pow in E. lra.
  - split; [intros _; split; [reflexivity | left; reflexivity] | reflexivity].
  - split; [discriminate | intros [E _]; discriminate].
  - set (x := B754_finite s m e H : F).
    assert (Hlt : two_pow (-142) < two_pow 201) by (apply bpow_lt; lia).
    destruct (Rlt_bool_spec (Rabs (B2R x)) (two_pow (-142))) as [H1 | H1].
    + split; [discriminate | intros [_ [E | E]]; [discriminate | lra]].
    + destruct (Rlt_bool_spec (two_pow 201) (Rabs (B2R x))) as [H2 | H2].
      * split; [intros _; split; [reflexivity | right; exact H2] | reflexivity].
      * split; [discriminate | intros [_ [E | E]]; [discriminate | lra]].
Qed.

(* validate_vertex reports x before y and fails exactly when one coordinate fails. *)
Theorem validate_vertex_spec : forall v : pt,
  validate_vertex v =
  match classify (px v) with Err e => Err e | Ok _ => classify (py v) end.
Proof.
  intros v. unfold validate_vertex, position. rewrite !validate_coordinate_classify.
  destruct (classify (px v)) as [[]|e]; [|reflexivity].
  destruct (classify (py v)) as [[]|e]; reflexivity.
Qed.

(* mitigate_underflow never yields a value that fails with TooSmall, and changes nothing else. *)
Lemma mitigate_cases : forall x : F,
  mitigate_underflow_for_coordinate x = (match classify x with Err TooSmall => f_zero | _ => x end).
Proof.
  intros x. unfold mitigate_underflow_for_coordinate, classify.
  destruct x as [s | s | | s m e H].
  - destruct s; vm_compute; reflexivity.
  - destruct s; vm_compute; reflexivity.
  - vm_compute; reflexivity.
  - set (x := B754_finite s m e H : F).
    assert (Hf : is_finite x = true) by reflexivity.
    assert (Hnz : B2R x <> 0) by (apply finite_nonzero).
    assert (Hpos : 0 < Rabs (B2R x)) by (apply Rabs_pos_lt; exact Hnz).
    pose proof pow_m142_lt_201 as Hlt. pose proof pow_m142_pos as Hp0.
    cbv zeta. to_reals.
    split_comparisons; cbn [negb andb orb]; try reflexivity; try (exfalso; lra); try (exfalso; congruence).
Qed.

Theorem mitigate_never_too_small : forall x : F,
  validate_coordinate (mitigate_underflow_for_coordinate x) <> Err TooSmall.
Proof.
  intros x. rewrite mitigate_cases, validate_coordinate_classify.
  destruct (classify x) as [[]|[]] eqn:E; try (rewrite E; discriminate).
  vm_compute; discriminate.
Qed.

Theorem mitigate_identity_when_valid : forall x : F,
  validate_coordinate x = Ok tt -> mitigate_underflow_for_coordinate x = x \/ (B2R x = 0 /\ mitigate_underflow_for_coordinate x = x).
Proof.
  intros x Hv. left. rewrite mitigate_cases. rewrite validate_coordinate_classify in Hv. rewrite Hv. reflexivity.
Qed.
