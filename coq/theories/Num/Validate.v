(* Num/Validate.v -- the specification of coordinate validation over all binary64 values and
   the proof that the GENERATED validate_coordinate (Gen/Math.v) meets it.  (C08) *)
From Coq Require Import ZArith Reals Bool Lia Lra.
From Coq Require Import Floats.SpecFloat.
From Flocq Require Import Core.Core IEEE754.BinarySingleNaN.
From SpadeV Require Import Num.F64 Gen.Prelude Gen.Math.
Local Open Scope R_scope.

Definition two_pow (e : Z) : R := bpow radix2 e.

(* Classification of a binary64 value by its real value, as documented in math.rs. *)
Definition classify (x : F) : result unit InsertionError :=
  match x with
  | B754_nan => Err NAN
  | B754_infinity _ => Err TooLarge
  | B754_zero _ => Ok tt
  | B754_finite _ _ _ _ =>
      if Rlt_bool (Rabs (B2R x)) (two_pow (-142)) then Err TooSmall
      else if Rlt_bool (two_pow 201) (Rabs (B2R x)) then Err TooLarge
      else Ok tt
  end.

Lemma SF2R_pow2 : forall (p : positive) (k e : Z), Z.pos p = (2 ^ k)%Z -> (0 <= k)%Z ->
  SF2R radix2 (S754_finite false p e) = two_pow (k + e).
Proof.
  intros p k e Hp Hk. unfold SF2R, F2R, two_pow; cbn [cond_Zopp Fnum Fexp].
  rewrite Hp. change 2%Z with (radix_val radix2). rewrite IZR_Zpower by exact Hk.
  rewrite <- bpow_plus. reflexivity.
Qed.

Lemma MIN_finite : is_finite MIN_ALLOWED_VALUE = true. Proof. vm_compute. reflexivity. Qed.
Lemma MAX_finite : is_finite MAX_ALLOWED_VALUE = true. Proof. vm_compute. reflexivity. Qed.

Theorem MIN_is_2_pow_m142 : B2R MIN_ALLOWED_VALUE = two_pow (-142).
Proof.
  rewrite <- SF2R_B2SF.
  replace (B2SF MIN_ALLOWED_VALUE) with (S754_finite false 4503599627370496 (-194)) by (vm_compute; reflexivity).
  rewrite (SF2R_pow2 _ 52) by (vm_compute; congruence || reflexivity). reflexivity.
Qed.

Theorem MAX_is_2_pow_201 : B2R MAX_ALLOWED_VALUE = two_pow 201.
Proof.
  rewrite <- SF2R_B2SF.
  replace (B2SF MAX_ALLOWED_VALUE) with (S754_finite false 4503599627370496 149) by (vm_compute; reflexivity).
  rewrite (SF2R_pow2 _ 52) by (vm_compute; congruence || reflexivity). reflexivity.
Qed.

Lemma zero_bits : f_of_bits 0 = B754_zero false. Proof. vm_compute. reflexivity. Qed.

Lemma finite_nonzero : forall s m e H, B2R (B754_finite s m e H : F) <> 0.
Proof.
  intros s m e H. cbn [B2R]. intro E. apply eq_0_F2R in E. destruct s; cbn in E; discriminate.
Qed.

Theorem validate_coordinate_classify : forall x : F, validate_coordinate x = classify x.
Proof.
  intros x. unfold validate_coordinate, classify.
  destruct x as [s | s | | s m e H].
  - destruct s; vm_compute; reflexivity.
  - destruct s; vm_compute; reflexivity.
  - reflexivity.
  - set (x := B754_finite s m e H : F).
    assert (Hf : is_finite x = true) by reflexivity.
    assert (Hfa : is_finite (f_abs x) = true) by reflexivity.
    change (f_is_nan x) with false. cbv iota.
    unfold f_lt, f_gt, f_ne.
    rewrite (Bltb_correct _ _ _ _ Hfa MIN_finite).
    rewrite (Bltb_correct _ _ _ _ MAX_finite Hfa).
    rewrite zero_bits.
    rewrite (Beqb_correct _ _ x (B754_zero false) Hf eq_refl).
    unfold f_abs. rewrite B2R_Babs, MIN_is_2_pow_m142, MAX_is_2_pow_201.
    change (B2R (B754_zero false)) with 0.
    rewrite Req_bool_false by (apply finite_nonzero).
    cbn [negb]. rewrite andb_true_r. reflexivity.
Qed.

(* The documented statement in `iff` form. *)
Definition in_range (x : F) : Prop :=
  is_finite x = true /\ (B2R x = 0 \/ (two_pow (-142) <= Rabs (B2R x) <= two_pow 201)).

Theorem validate_coordinate_ok_iff : forall x : F, validate_coordinate x = Ok tt <-> in_range x.
Proof.
  intros x. rewrite validate_coordinate_classify. unfold classify, in_range.
  destruct x as [s | s | | s m e H]; cbn [is_finite].
  - split; [intros _; split; [reflexivity | left; reflexivity] | reflexivity].
  - split; [discriminate | intros [E _]; discriminate].
  - split; [discriminate | intros [E _]; discriminate].
  - set (x := B754_finite s m e H : F).
    destruct (Rlt_bool_spec (Rabs (B2R x)) (two_pow (-142))) as [H1 | H1].
    + split; [discriminate|]. intros [_ [E | [E _]]]; [exfalso; revert E; apply finite_nonzero | lra].
    + destruct (Rlt_bool_spec (two_pow 201) (Rabs (B2R x))) as [H2 | H2].
      * split; [discriminate|]. intros [_ [E | [_ E]]]; [exfalso; revert E; apply finite_nonzero | lra].
      * split; [intros _; split; [reflexivity | right; lra] | reflexivity].
Qed.

Theorem validate_coordinate_nan_iff : forall x : F, validate_coordinate x = Err NAN <-> is_nan x = true.
Proof.
  intros x. rewrite validate_coordinate_classify. unfold classify.
  destruct x as [s | s | | s m e H]; cbn [is_nan]; try (split; discriminate); try (split; reflexivity).
  destruct (Rlt_bool _ _); [split; discriminate|]. destruct (Rlt_bool _ _); split; discriminate.
Qed.

Theorem validate_coordinate_too_small_iff : forall x : F,
  validate_coordinate x = Err TooSmall <-> (is_finite x = true /\ 0 < Rabs (B2R x) < two_pow (-142)).
Proof.
  intros x. rewrite validate_coordinate_classify. unfold classify.
  destruct x as [s | s | | s m e H]; cbn [is_finite].
  - split; [discriminate|]. intros [_ [E _]]. cbn [B2R] in E. rewrite Rabs_R0 in E. lra.
  - split; [discriminate | intros [E _]; discriminate].
  - split; [discriminate | intros [E _]; discriminate].
  - set (x := B754_finite s m e H : F).
    assert (0 < Rabs (B2R x)) by (apply Rabs_pos_lt, finite_nonzero).
    destruct (Rlt_bool_spec (Rabs (B2R x)) (two_pow (-142))) as [H1 | H1].
    + split; [intros _; split; [reflexivity | lra] | reflexivity].
    + destruct (Rlt_bool _ _); (split; [discriminate | intros [_ E]; lra]).
Qed.

Theorem validate_coordinate_too_large_iff : forall x : F,
  validate_coordinate x = Err TooLarge <->
  (is_nan x = false /\ (is_finite x = false \/ two_pow 201 < Rabs (B2R x))).
Proof.
  intros x. rewrite validate_coordinate_classify. unfold classify.
  destruct x as [s | s | | s m e H]; cbn [is_finite is_nan].
  - split; [discriminate|]. intros [_ [E | E]]; [discriminate|]. cbn [B2R] in E. rewrite Rabs_R0 in E.
    pose proof (bpow_gt_0 radix2 201). unfold two_pow in E. lra.
  - split; [intros _; split; [reflexivity | left; reflexivity] | reflexivity].
  - split; [discriminate | intros [E _]; discriminate].
  - set (x := B754_finite s m e H : F).
    assert (Hlt : two_pow (-142) < two_pow 201) by (apply bpow_lt; lia).
    destruct (Rlt_bool_spec (Rabs (B2R x)) (two_pow (-142))) as [H1 | H1].
    + split; [discriminate | intros [_ [E | E]]; [discriminate | lra]].
    + destruct (Rlt_bool_spec (two_pow 201) (Rabs (B2R x))) as [H2 | H2].
      * split; [intros _; split; [reflexivity | right; exact H2] | reflexivity].
      * split; [discriminate | intros [_ [E | E]]; [discriminate | lra]].
Qed.

(* validate_vertex reports x before y and fails exactly when one coordinate fails. *)
Theorem validate_vertex_spec : forall v : pt,
  validate_vertex v =
  match classify (px v) with Err e => Err e | Ok _ => classify (py v) end.
Proof.
  intros v. unfold validate_vertex, position. rewrite !validate_coordinate_classify.
  destruct (classify (px v)) as [[]|e]; [|reflexivity].
  destruct (classify (py v)) as [[]|e]; reflexivity.
Qed.

(* mitigate_underflow never yields a value that fails with TooSmall, and changes nothing else. *)
Theorem mitigate_never_too_small : forall x : F,
  validate_coordinate (mitigate_underflow_for_coordinate x) <> Err TooSmall.
Proof.
  intros x. rewrite validate_coordinate_classify. unfold mitigate_underflow_for_coordinate.
  destruct x as [s | s | | s m e H].
  - destruct s; vm_compute; discriminate.
  - destruct s; vm_compute; discriminate.
  - vm_compute; discriminate.
  - set (x := B754_finite s m e H : F).
    assert (Hf : is_finite x = true) by reflexivity.
    assert (Hfa : is_finite (f_abs x) = true) by reflexivity.
    unfold f_ne, f_lt.
    rewrite (Beqb_correct _ _ x f_zero Hf eq_refl).
    change (B2R f_zero) with 0. rewrite Req_bool_false by (apply finite_nonzero). cbn [negb andb].
    rewrite (Bltb_correct _ _ _ _ Hfa MIN_finite). unfold f_abs. rewrite B2R_Babs, MIN_is_2_pow_m142.
    destruct (Rlt_bool_spec (Rabs (B2R x)) (two_pow (-142))) as [H1 | H1].
    + vm_compute; discriminate.
    + unfold classify. fold x. rewrite Rlt_bool_false by exact H1.
      destruct (Rlt_bool _ _); discriminate.
Qed.

Theorem mitigate_identity_when_valid : forall x : F,
  validate_coordinate x = Ok tt -> mitigate_underflow_for_coordinate x = x \/ (B2R x = 0 /\ mitigate_underflow_for_coordinate x = x).
Proof.
  intros x Hv. left. unfold mitigate_underflow_for_coordinate.
  rewrite validate_coordinate_classify in Hv. unfold classify in Hv.
  destruct x as [s | s | | s m e H]; try discriminate.
  - destruct s; reflexivity.
  - set (x := B754_finite s m e H : F) in *.
    assert (Hfa : is_finite (f_abs x) = true) by reflexivity.
    unfold f_lt. rewrite (Bltb_correct _ _ _ _ Hfa MIN_finite). unfold f_abs. rewrite B2R_Babs, MIN_is_2_pow_m142.
    destruct (Rlt_bool (Rabs (B2R x)) (two_pow (-142))); [discriminate|].
    rewrite andb_false_r. reflexivity.
Qed.
