(* Obs/LineSpec.v -- executable specification of LineIntersectionIterator (C17). Definitions only. *)
From Coq Require Import ZArith List Bool Arith.
From SpadeV Require Import Geom.Pred Obs.State Obs.Spec Obs.Query.
Import ListNotations.

Inductive litem := IX (e : nat) | IV (v : nat) | IO (e : nat).      (* EdgeIntersection / VertexIntersection / EdgeOverlap *)

Section LS.
Variable s : obs.
Variable pts : list pnt.
Variable p q : pnt.
Notation pos := (pos pts).
Notation eorg := (eorg s pts).
Notation edst := (edst s pts).
Local Open Scope Z_scope.

Definition L2 : Z := dist2 p q.
Definition vertex_on (v : nat) : bool := on_seg p q (pos v).
Definition edge_crossed (e : nat) : bool := proper_cross p q (eorg e) (edst e).
(* an edge (not collinear with pq) whose relative interior contains the start or the end point: may be reported *)
Definition edge_touched_by_end (e : nat) : bool :=
  negb ((orient p q (eorg e) =? 0) && (orient p q (edst e) =? 0)) &&
  (strictly_between (eorg e) (edst e) p || strictly_between (eorg e) (edst e) q).
(* collinear with pq and sharing more than one point with the closed segment *)
Definition edge_overlaps (e : nat) : bool :=
  negb (pnt_eqb p q) && (orient p q (eorg e) =? 0) && (orient p q (edst e) =? 0) &&
  let t1 := Z.min (dot p q (eorg e)) (dot p q (edst e)) in
  let t2 := Z.max (dot p q (eorg e)) (dot p q (edst e)) in
  (Z.max 0 t1 <? Z.min L2 t2).

(* a zero-length segment lying in the relative interior of an edge: that edge may be reported (either way) *)
Definition edge_under_point (e : nat) : bool := pnt_eqb p q && strictly_between (eorg e) (edst e) p.

Definition item_valid (it : litem) : bool :=
  match it with
  | IV v => (v <? nV s)%nat && vertex_on v
  | IX e => (e <? nH s)%nat && (edge_crossed e || edge_touched_by_end e || edge_under_point e) && (0 <=? orient (eorg e) (edst e) q)
  | IO e => (e <? nH s)%nat && ((edge_overlaps e && (dot p q (eorg e) <? dot p q (edst e))) || edge_under_point e)
  end.

(* position along the line as a fraction (numerator, positive denominator) *)
Definition item_param (it : litem) : Z * Z :=
  match it with
  | IV v => (dot p q (pos v), Z.max 1 L2)
  | IO e => (dot p q (eorg e), Z.max 1 L2)
  | IX e =>
      let a := orient (eorg e) (edst e) p in
      let b := orient (eorg e) (edst e) q in
      let d := a - b in
      if d =? 0 then (0, 1) else if 0 <? d then (a, d) else (- a, - d)
  end.
Definition frac_leb (x y : Z * Z) : bool := (fst x * snd y <=? fst y * snd x).
Fixpoint ordered (l : list litem) : bool :=
  match l with
  | a :: ((b :: _) as t) => frac_leb (item_param a) (item_param b) && ordered t
  | _ => true
  end.

Definition count_item (f : litem -> bool) (l : list litem) : nat := length (filter f l).
Definition is_v (v : nat) (it : litem) : bool := match it with IV w => (w =? v)%nat | _ => false end.
Definition is_x_und (k : nat) (it : litem) : bool := match it with IX e => (Nat.div2 e =? k)%nat | _ => false end.
Definition is_o_und (k : nat) (it : litem) : bool := match it with IO e => (Nat.div2 e =? k)%nat | _ => false end.

Definition complete (l : list litem) : bool :=
  all_below (nV s) (fun v => (count_item (is_v v) l =? (if vertex_on v then 1 else 0))%nat) &&
  all_below (o_ne s) (fun k =>
     let e := (2 * k)%nat in
     (if edge_crossed e then (count_item (is_x_und k) l =? 1)%nat
      else if edge_touched_by_end e then (count_item (is_x_und k) l <=? 1)%nat
      else (count_item (is_x_und k) l =? 0)%nat) &&
     (if edge_under_point e then (count_item (is_o_und k) l + count_item (is_x_und k) l <=? 1)%nat
      else (count_item (is_o_und k) l =? (if edge_overlaps e then 1 else 0))%nat)).

Definition linespec_b (l : list litem) : bool := forallb item_valid l && complete l && ordered l.
End LS.
