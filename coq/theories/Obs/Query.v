(* Obs/Query.v -- executable specifications of the read-only queries (C09, C15, C16, C12) over an
   observed state with exact integer coordinates. Definitions only. *)
From Coq Require Import ZArith List Bool Arith.
From SpadeV Require Import Num.Decode Num.Decode2 Geom.Pred Obs.State Obs.Spec.
Import ListNotations.

Section Q.
Variable s : obs.
Variable pts : list pnt.
Notation pos := (pos pts).
Notation eorg := (eorg s pts).
Notation edst := (edst s pts).

(* ------------------------------------------------------------------ C09: point location *)
Inductive locres := LVertex (v : nat) | LEdge (e : nat) | LFace (f : nat) | LOutside (e : nat) | LNone.

Definition on_some_edge_closed (q : pnt) : bool :=
  existsb (fun e => on_segment (eorg e) (edst e) q) (seq 0 (nH s)).

Definition locspec_b (q : pnt) (r : locres) : bool :=
  match r with
  | LVertex v => (v <? nV s) && pnt_eqb (pos v) q
  | LEdge e => (e <? nH s) && strictly_between (eorg e) (edst e) q
  | LFace f =>
      (1 <=? f) && (f <? nF s) &&
      let '(a, b, c) := face_tri s pts f in
      (0 <? orient a b q)%Z && (0 <? orient b c q)%Z && (0 <? orient c a q)%Z
  | LOutside e =>
      (e <? nH s) && (face s e =? 0) &&
      (if nF s =? 1
       then (* collinear vertex set: strictly on the left of the returned edge, or on the supporting line beyond the chain *)
            (0 <? orient (eorg e) (edst e) q)%Z ||
            ((orient (eorg e) (edst e) q =? 0)%Z && negb (on_some_edge_closed q))
       else (0 <? orient (eorg e) (edst e) q)%Z)
  | LNone => (nV s <? 2) && negb (existsb (fun v => pnt_eqb (pos v) q) (seq 0 (nV s)))
  end.

(* ------------------------------------------------------------------ C15: nearest neighbour *)
Definition nn_b (q : pnt) (r : option nat) : bool :=
  match r with
  | None => nV s =? 0
  | Some v => (v <? nV s) && all_below (nV s) (fun u => (dist2 (pos v) q <=? dist2 (pos u) q)%Z)
  end.

(* ------------------------------------------------------------------ C16: shapes *)
Definition in_rect (lo hi p : pnt) : bool :=
  (fst lo <=? fst p)%Z && (fst p <=? fst hi)%Z && (snd lo <=? snd p)%Z && (snd p <=? snd hi)%Z.

(* closed segment ab, proper or improper intersection with closed segment cd; degenerate segments allowed *)
Definition on_seg (a b c : pnt) : bool := if pnt_eqb a b then pnt_eqb a c else on_segment a b c.
Definition seg_meet (a b c d : pnt) : bool :=
  proper_cross a b c d || on_seg a b c || on_seg a b d || on_seg c d a || on_seg c d b.

Definition edge_meets_rect (lo hi a b : pnt) : bool :=
  (fst lo <=? fst hi)%Z && (snd lo <=? snd hi)%Z &&
  (in_rect lo hi a || in_rect lo hi b ||
   let p1 := lo in let p2 := (fst hi, snd lo) in let p3 := hi in let p4 := (fst lo, snd hi) in
   seg_meet a b p1 p2 || seg_meet a b p2 p3 || seg_meet a b p3 p4 || seg_meet a b p4 p1).

(* r2 is given on the squared scale as an exact dyadic relative to the points' scale: r2 = rm * 2^re *)
Definition in_circle (c : pnt) (r2 : dy) (p : pnt) : bool := dy_leb (dist2 c p, 0%Z) r2.

(* squared distance from c to the closed segment ab is <= r2 *)
Definition edge_meets_circle (c : pnt) (r2 : dy) (a b : pnt) : bool :=
  let t := dot a b c in
  let l2 := dist2 a b in
  if (t <=? 0)%Z then in_circle c r2 a
  else if (l2 <=? t)%Z then in_circle c r2 b
  else (* dist^2 = orient^2 / l2  <= r2   <->   orient^2 <= r2 * l2 *)
    dy_leb ((orient a b c * orient a b c)%Z, 0%Z) ((fst r2 * l2)%Z, snd r2).

(* The implementation evaluates the point-segment distance in floating point (a division is involved when the
   nearest point is interior to the edge).  Exact tangency in the interior of an edge that is not axis-parallel
   cannot be decided by it; there both answers are accepted. *)
Definition edge_circle_borderline (c : pnt) (r2 : dy) (a b : pnt) : bool :=
  let t := dot a b c in
  let l2 := dist2 a b in
  (0 <? t)%Z && (t <? l2)%Z &&
  negb ((fst a =? fst b)%Z || (snd a =? snd b)%Z) &&
  dy_leb ((orient a b c * orient a b c)%Z, 0%Z) ((fst r2 * l2)%Z, snd r2) &&
  dy_leb ((fst r2 * l2)%Z, snd r2) ((orient a b c * orient a b c)%Z, 0%Z).

Fixpoint nodup_nat (l : list nat) : bool :=
  match l with [] => true | x :: t => negb (memb x t) && nodup_nat t end.

Definition same_set (expected : nat -> bool) (n : nat) (got : list nat) : bool :=
  nodup_nat got && forallb (fun x => (x <? n) && expected x) got
  && all_below n (fun x => negb (expected x) || memb x got).

Definition vertices_in_rect_ok (lo hi : pnt) (got : list nat) : bool :=
  same_set (fun v => in_rect lo hi (pos v)) (nV s) got.
Definition vertices_in_circle_ok (c : pnt) (r2 : dy) (got : list nat) : bool :=
  same_set (fun v => in_circle c r2 (pos v)) (nV s) got.
(* undirected edge k <-> half-edge 2k *)
Definition edges_in_rect_ok (lo hi : pnt) (got : list nat) : bool :=
  same_set (fun k => edge_meets_rect lo hi (eorg (2 * k)) (edst (2 * k))) (o_ne s) got.
Definition same_set_tol (expected optional : nat -> bool) (n : nat) (got : list nat) : bool :=
  nodup_nat got && forallb (fun x => (x <? n) && (expected x || optional x)) got
  && all_below n (fun x => negb (expected x) || optional x || memb x got).
Definition edges_in_circle_ok (c : pnt) (r2 : dy) (got : list nat) : bool :=
  same_set_tol (fun k => edge_meets_circle c r2 (eorg (2 * k)) (edst (2 * k)))
               (fun k => edge_circle_borderline c r2 (eorg (2 * k)) (edst (2 * k))) (o_ne s) got.

(* ------------------------------------------------------------------ C12: constraint admission *)
Definition crosses_constraint (a b : pnt) (k : nat) : bool :=
  flag s (2 * k) && proper_cross a b (eorg (2 * k)) (edst (2 * k)).
Definition crossspec_b (a b : pnt) : bool :=
  existsb (crosses_constraint a b) (seq 0 (o_ne s)).
(* a flagged edge touched by a free end point of the query segment (may be reported) *)
Definition touched_by_endpoint (a b : pnt) (k : nat) : bool :=
  flag s (2 * k) && (on_seg (eorg (2 * k)) (edst (2 * k)) a || on_seg (eorg (2 * k)) (edst (2 * k)) b).
(* reported conflicting edges (as directed edge indices): must contain every properly crossed constraint edge,
   may contain edges touched by an end point, nothing else, no duplicates *)
Definition conflicts_ok (a b : pnt) (got : list nat) : bool :=
  let und := map Nat.div2 got in
  nodup_nat und &&
  forallb (fun k => (k <? o_ne s) && (crosses_constraint a b k || touched_by_endpoint a b k)) und &&
  all_below (o_ne s) (fun k => negb (crosses_constraint a b k) || memb k und).

(* a returned chain of directed edges leads from vertex va to vertex vb along the segment, all flagged *)
Fixpoint chain_from (cur : nat) (l : list nat) (vb : nat) (a b : pnt) : bool :=
  match l with
  | [] => cur =? vb
  | e :: t => (e <? nH s) && (org s e =? cur) && flag s e
              && on_segment a b (edst e) && chain_from (dest s e) t vb a b
  end.
Definition chain_ok (va vb : nat) (l : list nat) : bool :=
  chain_from va l vb (pos va) (pos vb).

End Q.
