(* Obs/QueryProofs.v -- reflection theorems: each boolean specification of Obs/Query.v decides the
   declarative specification of Obs/QueryProp.v. *)
From Coq Require Import ZArith List Bool Arith Lia.
From SpadeV Require Import Num.Decode Num.Decode2 Geom.Pred Geom.Lemmas Obs.State Obs.Spec Obs.SpecProp
  Obs.SpecProofs Obs.Query Obs.QueryProp.
Import ListNotations.

(* ------------------------------------------------------------------ generic lemmas *)
Lemma existsb_below : forall n p, existsb p (seq 0 n) = true <-> exists i, i < n /\ p i = true.
Proof.
  intros n p. rewrite existsb_exists. split.
  - intros [i [Hi Hp]]. apply in_seq in Hi. exists i. split; [lia | exact Hp].
  - intros [i [Hi Hp]]. exists i. split; [apply in_seq; lia | exact Hp].
Qed.

Lemma nodup_nat_spec : forall l, nodup_nat l = true <-> NoDup l.
Proof.
  induction l as [|x t IH].
  - cbn [nodup_nat]. split; [intros _; constructor | reflexivity].
  - cbn [nodup_nat]. rewrite andb_true_iff, negb_true_iff, IH. split.
    + intros [Hx Ht]. constructor; [| exact Ht].
      intros Hin. apply memb_spec in Hin. rewrite Hin in Hx. discriminate Hx.
    + intros H. inversion H as [| x' t' Hx Ht]; subst. split; [| exact Ht].
      destruct (memb x t) eqn:E; [| reflexivity]. apply memb_spec in E. contradiction.
Qed.

Lemma bool_true_iff_compat : forall (b : bool) (P : Prop), (b = true <-> P) -> (b = false <-> ~ P).
Proof.
  intros b P H. destruct b; split; intros H1; try discriminate H1; try reflexivity.
  - exfalso. apply H1. apply H. reflexivity.
  - intros HP. apply H in HP. discriminate HP.
Qed.

(* ------------------------------------------------------------------ elementary geometry *)
Lemma OnSegment_spec : forall a b c, on_segment a b c = true <-> OnSegment a b c.
Proof. intros a b c. unfold OnSegment. apply on_segment_spec. Qed.

Lemma StrictlyBetween_spec : forall a b c, strictly_between a b c = true <-> StrictlyBetween a b c.
Proof. intros a b c. unfold StrictlyBetween. apply strictly_between_spec. Qed.

Lemma ProperCross_spec : forall a b c d, proper_cross a b c d = true <-> ProperCross a b c d.
Proof. intros a b c d. unfold ProperCross. apply proper_cross_spec. Qed.

Lemma on_seg_spec : forall a b c, on_seg a b c = true <-> OnSeg a b c.
Proof.
  intros a b c. unfold on_seg, OnSeg.
  destruct (pnt_eqb a b) eqn:E.
  - apply Geom.Lemmas.pnt_eqb_spec in E. subst b.
    rewrite Geom.Lemmas.pnt_eqb_spec. split.
    + intros H. subst c. unfold orient, dot, dist2. split; [ring |]. split; [lia |]. intros _. reflexivity.
    + intros [_ [_ H]]. symmetry. apply H. reflexivity.
  - apply pnt_eqb_neq in E. rewrite on_segment_spec. split.
    + intros [H1 H2]. split; [exact H1 |]. split; [exact H2 |]. intros H. contradiction.
    + intros [H1 [H2 _]]. split; assumption.
Qed.

(* ------------------------------------------------------------------ segments: parametric form *)
Section SegGeom.
Local Open Scope Z_scope.

Lemma pnt_scale_inj : forall (n : Z) (p q : pnt),
  0 < n -> n * fst p = n * fst q -> n * snd p = n * snd q -> p = q.
Proof.
  intros n [px py] [qx qy] Hn H1 H2. cbn [fst snd] in *.
  f_equal; nia.
Qed.

(* a point given by a parameter t/n in [0,1] along ab lies on the closed segment ab *)
Lemma param_OnSeg : forall a b c n t,
  0 < n -> 0 <= t <= n ->
  n * fst c = n * fst a + t * (fst b - fst a) ->
  n * snd c = n * snd a + t * (snd b - snd a) ->
  OnSeg a b c.
Proof.
  intros [ax ay] [bx by_] [cx cy] n t Hn Ht Ex Ey. unfold OnSeg. cbn [fst snd] in *.
  assert (Ho : n * orient (ax, ay) (bx, by_) (cx, cy) = 0).
  { unfold orient. cbn [fst snd].
    replace (n * ((bx - ax) * (cy - ay) - (by_ - ay) * (cx - ax)))
      with ((bx - ax) * (n * cy - n * ay) - (by_ - ay) * (n * cx - n * ax)) by ring.
    rewrite Ex, Ey. ring. }
  assert (Hd : n * dot (ax, ay) (bx, by_) (cx, cy) = t * dist2 (ax, ay) (bx, by_)).
  { unfold dot, dist2. cbn [fst snd].
    replace (n * ((bx - ax) * (cx - ax) + (by_ - ay) * (cy - ay)))
      with ((bx - ax) * (n * cx - n * ax) + (by_ - ay) * (n * cy - n * ay)) by ring.
    rewrite Ex, Ey. ring. }
  pose proof (dist2_nonneg (ax, ay) (bx, by_)) as HL.
  revert Ho Hd HL.
  generalize (orient (ax, ay) (bx, by_) (cx, cy)) (dot (ax, ay) (bx, by_) (cx, cy)) (dist2 (ax, ay) (bx, by_)).
  intros o d L Ho Hd HL.
  split; [nia |]. split; [nia |].
  intros Hab. inversion Hab; subst bx by_.
  apply (pnt_scale_inj n); cbn [fst snd]; [exact Hn | lia | lia].
Qed.

Lemma OnSeg_param : forall a b c, OnSeg a b c <-> OnSegParam a b c.
Proof.
  intros a b c. split.
  - intros [Ho [Hd Hdeg]].
    destruct (Z.eq_dec (dist2 a b) 0) as [HL | HL].
    + apply dist2_zero_iff in HL. specialize (Hdeg HL). subst b c.
      exists 1, 0. repeat split; try lia.
    + pose proof (dist2_nonneg a b) as HL0.
      exists (dist2 a b), (dot a b c). split; [lia |]. split; [exact Hd |].
      destruct a as [ax ay], b as [bx by_], c as [cx cy].
      unfold orient, dot, dist2 in *. cbn [fst snd] in *. split.
      * replace (((ax - bx) * (ax - bx) + (ay - by_) * (ay - by_)) * cx)
          with (((ax - bx) * (ax - bx) + (ay - by_) * (ay - by_)) * ax
                + ((bx - ax) * (cx - ax) + (by_ - ay) * (cy - ay)) * (bx - ax)
                - (by_ - ay) * ((bx - ax) * (cy - ay) - (by_ - ay) * (cx - ax))) by ring.
        rewrite Ho. ring.
      * replace (((ax - bx) * (ax - bx) + (ay - by_) * (ay - by_)) * cy)
          with (((ax - bx) * (ax - bx) + (ay - by_) * (ay - by_)) * ay
                + ((bx - ax) * (cx - ax) + (by_ - ay) * (cy - ay)) * (by_ - ay)
                + (bx - ax) * ((bx - ax) * (cy - ay) - (by_ - ay) * (cx - ax))) by ring.
        rewrite Ho. ring.
  - intros [n [t [Hn [Ht [Ex Ey]]]]]. eapply param_OnSeg; eassumption.
Qed.

End SegGeom.

(* ------------------------------------------------------------------ C16: seg_meet *)
Section SegMeetSec.
Local Open Scope Z_scope.

Lemma SegMeetSigns_SegMeet : forall a b c d, SegMeetSigns a b c d -> SegMeet a b c d.
Proof.
  intros a b c d [H | [H | [H | [H | H]]]].
  - (* proper crossing: Cramer's rule *)
    destruct H as [H12 H34].
    destruct a as [ax ay], b as [bx by_], c as [cx cy], d as [dx dy].
    assert (Hid : orient (ax, ay) (bx, by_) (cx, cy) - orient (ax, ay) (bx, by_) (dx, dy)
                  = - (orient (cx, cy) (dx, dy) (ax, ay) - orient (cx, cy) (dx, dy) (bx, by_))).
    { unfold orient. cbn [fst snd]. ring. }
    destruct (Z_lt_le_dec 0 (orient (cx, cy) (dx, dy) (ax, ay))) as [Hpos | Hneg].
    + exists (orient (cx, cy) (dx, dy) (ax, ay) - orient (cx, cy) (dx, dy) (bx, by_)),
             (orient (cx, cy) (dx, dy) (ax, ay)),
             (- orient (ax, ay) (bx, by_) (cx, cy)).
      split; [lia |]. split; [lia |]. split; [lia |].
      unfold orient. cbn [fst snd]. split; ring.
    + exists (- (orient (cx, cy) (dx, dy) (ax, ay) - orient (cx, cy) (dx, dy) (bx, by_))),
             (- orient (cx, cy) (dx, dy) (ax, ay)),
             (orient (ax, ay) (bx, by_) (cx, cy)).
      split; [lia |]. split; [lia |]. split; [lia |].
      unfold orient. cbn [fst snd]. split; ring.
  - apply OnSeg_param in H. destruct H as [n [t [Hn [Ht [Ex Ey]]]]].
    exists n, t, 0. split; [exact Hn |]. split; [exact Ht |]. split; [lia |]. split; lia.
  - apply OnSeg_param in H. destruct H as [n [t [Hn [Ht [Ex Ey]]]]].
    exists n, t, n. split; [exact Hn |]. split; [exact Ht |]. split; [lia |]. split; lia.
  - apply OnSeg_param in H. destruct H as [n [u [Hn [Hu [Ex Ey]]]]].
    exists n, 0, u. split; [exact Hn |]. split; [lia |]. split; [exact Hu |]. split; lia.
  - apply OnSeg_param in H. destruct H as [n [u [Hn [Hu [Ex Ey]]]]].
    exists n, n, u. split; [exact Hn |]. split; [lia |]. split; [exact Hu |]. split; lia.
Qed.

(* all four points on one line, the common point interior to both parametrisations *)
Lemma collinear_overlap : forall a b c d n t u,
  0 < n -> 0 < t < n -> 0 < u < n ->
  n * fst a + t * (fst b - fst a) = n * fst c + u * (fst d - fst c) ->
  n * snd a + t * (snd b - snd a) = n * snd c + u * (snd d - snd c) ->
  orient a b c = 0 -> orient a b d = 0 -> orient c d a = 0 -> a <> b ->
  OnSeg a b c \/ OnSeg a b d \/ OnSeg c d a.
Proof.
  intros a b c d n t u Hn Ht Hu Ex Ey Ho1 Ho2 Ho3 Hab.
  pose proof (dist2_pos a b Hab) as HL.
  assert (H4 : (n - u) * dot a b c + u * dot a b d = t * dist2 a b).
  { destruct a as [ax ay], b as [bx by_], c as [cx cy], d as [dx dy].
    unfold dot, dist2. cbn [fst snd] in *.
    replace ((n - u) * ((bx - ax) * (cx - ax) + (by_ - ay) * (cy - ay))
             + u * ((bx - ax) * (dx - ax) + (by_ - ay) * (dy - ay)))
      with ((bx - ax) * ((n * cx + u * (dx - cx)) - n * ax)
            + (by_ - ay) * ((n * cy + u * (dy - cy)) - n * ay)) by ring.
    rewrite <- Ex, <- Ey. ring. }
  assert (I1 : dist2 a b * dot c d a
               = (dot a b d - dot a b c) * (- dot a b c)
                 + (orient a b c - orient a b d) * orient a b c).
  { destruct a as [ax ay], b as [bx by_], c as [cx cy], d as [dx dy].
    unfold dot, dist2, orient. cbn [fst snd]. ring. }
  assert (I2 : dist2 a b * dist2 c d
               = (dot a b d - dot a b c) * (dot a b d - dot a b c)
                 + (orient a b c - orient a b d) * (orient a b c - orient a b d)).
  { destruct a as [ax ay], b as [bx by_], c as [cx cy], d as [dx dy].
    unfold dot, dist2, orient. cbn [fst snd]. ring. }
  rewrite Ho1, Ho2 in I1, I2.
  destruct (Z_le_dec 0 (dot a b c)) as [Hc0 | Hc0];
    [destruct (Z_le_dec (dot a b c) (dist2 a b)) as [Hc1 | Hc1] |].
  - left. unfold OnSeg. split; [exact Ho1 |]. split; [lia |]. intros E; contradiction.
  - (* fc > L *)
    destruct (Z_le_dec 0 (dot a b d)) as [Hd0 | Hd0];
      [destruct (Z_le_dec (dot a b d) (dist2 a b)) as [Hd1 | Hd1] |].
    + right; left. unfold OnSeg. split; [exact Ho2 |]. split; [lia |]. intros E; contradiction.
    + exfalso. revert H4 HL Hc1 Hd1. generalize (dot a b c) (dot a b d) (dist2 a b).
      intros fc fd L H4 HL Hc1 Hd1. nia.
    + right; right. unfold OnSeg. split; [exact Ho3 |].
      assert (Hne : c <> d).
      { intros E. subst d. lia. }
      pose proof (dist2_pos c d Hne) as HM.
      revert H4 HL Hc1 Hd0 I1 I2 HM.
      generalize (dot a b c) (dot a b d) (dist2 a b) (dot c d a) (dist2 c d).
      intros fc fd L x M H4 HL Hc1 Hd0 I1 I2 HM.
      split; [nia |]. intros E; contradiction.
  - (* fc < 0 *)
    destruct (Z_le_dec 0 (dot a b d)) as [Hd0 | Hd0];
      [destruct (Z_le_dec (dot a b d) (dist2 a b)) as [Hd1 | Hd1] |].
    + right; left. unfold OnSeg. split; [exact Ho2 |]. split; [lia |]. intros E; contradiction.
    + right; right. unfold OnSeg. split; [exact Ho3 |].
      assert (Hne : c <> d).
      { intros E. subst d. lia. }
      pose proof (dist2_pos c d Hne) as HM.
      revert H4 HL Hc0 Hd1 I1 I2 HM.
      generalize (dot a b c) (dot a b d) (dist2 a b) (dot c d a) (dist2 c d).
      intros fc fd L x M H4 HL Hc0 Hd1 I1 I2 HM.
      split; [nia |]. intros E; contradiction.
    + exfalso. revert H4 HL Hc0 Hd0. generalize (dot a b c) (dot a b d) (dist2 a b).
      intros fc fd L H4 HL Hc0 Hd0. nia.
Qed.

Lemma SegMeet_sym : forall a b c d, SegMeet a b c d -> SegMeet c d a b.
Proof.
  intros a b c d [n [t [u [Hn [Ht [Hu [Ex Ey]]]]]]].
  exists n, u, t. split; [exact Hn |]. split; [exact Hu |]. split; [exact Ht |].
  split; symmetry; assumption.
Qed.

Lemma SegMeet_SegMeetSigns : forall a b c d, SegMeet a b c d -> SegMeetSigns a b c d.
Proof.
  intros a b c d [n [t [u [Hn [Ht [Hu [Ex Ey]]]]]]]. unfold SegMeetSigns.
  (* the common point is an end point of one of the segments *)
  destruct (Z.eq_dec u 0) as [Hu0 | Hu0].
  { right; left. subst u. apply (param_OnSeg a b c n t); lia. }
  destruct (Z.eq_dec u n) as [Hun | Hun].
  { right; right; left. subst u. apply (param_OnSeg a b d n t); lia. }
  destruct (Z.eq_dec t 0) as [Ht0 | Ht0].
  { right; right; right; left. subst t. apply (param_OnSeg c d a n u); lia. }
  destruct (Z.eq_dec t n) as [Htn | Htn].
  { right; right; right; right. subst t. apply (param_OnSeg c d b n u); lia. }
  assert (H1 : (n - u) * orient a b c + u * orient a b d = 0).
  { destruct a as [ax ay], b as [bx by_], c as [cx cy], d as [dx dy].
    unfold orient. cbn [fst snd] in *.
    replace ((n - u) * ((bx - ax) * (cy - ay) - (by_ - ay) * (cx - ax))
             + u * ((bx - ax) * (dy - ay) - (by_ - ay) * (dx - ax)))
      with ((bx - ax) * ((n * cy + u * (dy - cy)) - n * ay)
            - (by_ - ay) * ((n * cx + u * (dx - cx)) - n * ax)) by ring.
    rewrite <- Ex, <- Ey. ring. }
  assert (H2 : (n - t) * orient c d a + t * orient c d b = 0).
  { destruct a as [ax ay], b as [bx by_], c as [cx cy], d as [dx dy].
    unfold orient. cbn [fst snd] in *.
    replace ((n - t) * ((dx - cx) * (ay - cy) - (dy - cy) * (ax - cx))
             + t * ((dx - cx) * (by_ - cy) - (dy - cy) * (bx - cx)))
      with ((dx - cx) * ((n * ay + t * (by_ - ay)) - n * cy)
            - (dy - cy) * ((n * ax + t * (bx - ax)) - n * cx)) by ring.
    rewrite Ex, Ey. ring. }
  assert (H3 : orient a b c - orient a b d = - (orient c d a - orient c d b)).
  { destruct a as [ax ay], b as [bx by_], c as [cx cy], d as [dx dy].
    unfold orient. cbn [fst snd]. ring. }
  assert (S1 : (0 < orient a b c /\ orient a b d < 0) \/ (orient a b c < 0 /\ 0 < orient a b d)
               \/ (orient a b c = 0 /\ orient a b d = 0)).
  { revert H1. generalize (orient a b c) (orient a b d). intros o1 o2 H1. nia. }
  assert (S2 : (0 < orient c d a /\ orient c d b < 0) \/ (orient c d a < 0 /\ 0 < orient c d b)
               \/ (orient c d a = 0 /\ orient c d b = 0)).
  { revert H2. generalize (orient c d a) (orient c d b). intros o3 o4 H2. nia. }
  destruct S1 as [S1 | [S1 | [Z1 Z2]]].
  - destruct S2 as [S2 | [S2 | [Z3 Z4]]].
    + left. unfold ProperCross. tauto.
    + left. unfold ProperCross. tauto.
    + exfalso. lia.
  - destruct S2 as [S2 | [S2 | [Z3 Z4]]].
    + left. unfold ProperCross. tauto.
    + left. unfold ProperCross. tauto.
    + exfalso. lia.
  - destruct S2 as [S2 | [S2 | [Z3 Z4]]].
    + exfalso. lia.
    + exfalso. lia.
    + (* all four points on one line *)
      destruct (pnt_eqb a b) eqn:Eab.
      * apply Geom.Lemmas.pnt_eqb_spec in Eab. subst b.
        right; right; right; left. apply (param_OnSeg c d a n u); [lia | lia | |].
        -- rewrite <- Ex. ring.
        -- rewrite <- Ey. ring.
      * apply pnt_eqb_neq in Eab.
        destruct (collinear_overlap a b c d n t u) as [H | [H | H]];
          try assumption; try lia; tauto.
Qed.

Theorem SegMeet_iff_signs : forall a b c d, SegMeet a b c d <-> SegMeetSigns a b c d.
Proof.
  intros a b c d. split; [apply SegMeet_SegMeetSigns | apply SegMeetSigns_SegMeet].
Qed.

End SegMeetSec.

Lemma seg_meet_signs_spec : forall a b c d, seg_meet a b c d = true <-> SegMeetSigns a b c d.
Proof.
  intros a b c d. unfold seg_meet, SegMeetSigns.
  rewrite !orb_true_iff, ProperCross_spec, !on_seg_spec. tauto.
Qed.

(* the closed segments ab and cd have a point in common *)
Theorem seg_meet_spec : forall a b c d, seg_meet a b c d = true <-> SegMeet a b c d.
Proof.
  intros a b c d. rewrite seg_meet_signs_spec. symmetry. apply SegMeet_iff_signs.
Qed.

(* ------------------------------------------------------------------ exact dyadic comparison *)
Section Dyadic.
Local Open Scope Z_scope.

Lemma dyle_shift : forall ma ea mb eb e e',
  e' <= e -> e <= ea -> e <= eb ->
  (ma * 2 ^ (ea - e) <= mb * 2 ^ (eb - e) <-> ma * 2 ^ (ea - e') <= mb * 2 ^ (eb - e')).
Proof.
  intros ma ea mb eb e e' H1 H2 H3.
  replace (ea - e') with ((ea - e) + (e - e')) by ring.
  replace (eb - e') with ((eb - e) + (e - e')) by ring.
  rewrite !Z.pow_add_r by lia.
  assert (Hp : 0 < 2 ^ (e - e')) by (apply Z.pow_pos_nonneg; lia).
  revert Hp. generalize (2 ^ (e - e')) (2 ^ (ea - e)) (2 ^ (eb - e)). intros k pa pb Hp.
  split; intros H; nia.
Qed.

(* the common shift is irrelevant *)
Lemma DyLe_any : forall a b,
  DyLe a b <-> forall e, e <= snd a -> e <= snd b -> fst a * 2 ^ (snd a - e) <= fst b * 2 ^ (snd b - e).
Proof.
  intros a b. unfold DyLe. split.
  - intros [e0 [H1 [H2 H]]] e He1 He2.
    assert (Hm : fst a * 2 ^ (snd a - Z.min e0 e) <= fst b * 2 ^ (snd b - Z.min e0 e)).
    { apply (proj1 (dyle_shift (fst a) (snd a) (fst b) (snd b) e0 (Z.min e0 e)
                      ltac:(lia) ltac:(lia) ltac:(lia))). exact H. }
    apply (proj2 (dyle_shift (fst a) (snd a) (fst b) (snd b) e (Z.min e0 e)
                    ltac:(lia) ltac:(lia) ltac:(lia))). exact Hm.
  - intros H. exists (Z.min (snd a) (snd b)). split; [lia |]. split; [lia |]. apply H; lia.
Qed.

Theorem dy_leb_spec : forall a b, dy_leb a b = true <-> DyLe a b.
Proof.
  intros a b. unfold dy_leb. cbv zeta. rewrite Z.leb_le.
  rewrite !Z.shiftl_mul_pow2 by lia. split.
  - intros H. exists (Z.min (snd a) (snd b)). split; [lia |]. split; [lia |]. exact H.
  - intros H. apply DyLe_any; [exact H | lia | lia].
Qed.

(* after clearing exponents, for explicit mantissa/exponent pairs *)
Corollary dy_leb_spec_Z : forall m1 e1 m2 e2 e, e <= e1 -> e <= e2 ->
  (dy_leb (m1, e1) (m2, e2) = true <-> m1 * 2 ^ (e1 - e) <= m2 * 2 ^ (e2 - e)).
Proof.
  intros m1 e1 m2 e2 e H1 H2. rewrite dy_leb_spec. split.
  - intros H. apply (proj1 (DyLe_any (m1, e1) (m2, e2)) H e); cbn [fst snd]; assumption.
  - intros H. exists e. cbn [fst snd]. split; [exact H1 |]. split; [exact H2 | exact H].
Qed.

End Dyadic.

(* ------------------------------------------------------------------ C16: shapes *)
Theorem in_rect_spec : forall lo hi p, in_rect lo hi p = true <-> InRect lo hi p.
Proof.
  intros lo hi p. unfold in_rect, InRect. rewrite !andb_true_iff, !Z.leb_le. tauto.
Qed.

Theorem edge_meets_rect_spec : forall lo hi a b,
  edge_meets_rect lo hi a b = true <-> EdgeMeetsRect lo hi a b.
Proof.
  intros lo hi a b. unfold edge_meets_rect, EdgeMeetsRect. cbv zeta.
  rewrite !andb_true_iff, !orb_true_iff, !Z.leb_le, !in_rect_spec, !seg_meet_spec. tauto.
Qed.

Theorem in_circle_spec : forall c r2 p, in_circle c r2 p = true <-> InCircle c r2 p.
Proof. intros c r2 p. unfold in_circle, InCircle. apply dy_leb_spec. Qed.

Theorem edge_meets_circle_spec : forall c r2 a b,
  edge_meets_circle c r2 a b = true <-> EdgeMeetsCircle c r2 a b.
Proof.
  intros c r2 a b. unfold edge_meets_circle, EdgeMeetsCircle. cbv zeta.
  destruct (Z.leb_spec (dot a b c) 0) as [H1 | H1].
  - rewrite in_circle_spec. split.
    + intros H. left. split; assumption.
    + intros [[_ H] | [[H _] | [[H _] _]]]; [exact H | lia | lia].
  - destruct (Z.leb_spec (dist2 a b) (dot a b c)) as [H2 | H2].
    + rewrite in_circle_spec. split.
      * intros H. right; left. repeat split; assumption.
      * intros [[H _] | [[_ [_ H]] | [[_ H] _]]]; [lia | exact H | lia].
    + rewrite dy_leb_spec. split.
      * intros H. right; right. split; [lia | exact H].
      * intros [[H _] | [[_ [H _]] | [_ H]]]; [lia | lia | exact H].
Qed.

Lemma edge_circle_borderline_spec : forall c r2 a b,
  edge_circle_borderline c r2 a b = true <-> EdgeCircleBorderline c r2 a b.
Proof.
  intros c r2 a b. unfold edge_circle_borderline, EdgeCircleBorderline. cbv zeta.
  rewrite !andb_true_iff, negb_true_iff, orb_false_iff, !Z.ltb_lt, !Z.eqb_neq, !dy_leb_spec. tauto.
Qed.

(* ------------------------------------------------------------------ C16: result lists *)
Theorem same_set_spec : forall expected n got,
  same_set expected n got = true <-> SameSet expected n got.
Proof.
  intros expected n got. unfold same_set, SameSet.
  rewrite !andb_true_iff, nodup_nat_spec, forallb_forall, all_below_spec. split.
  - intros [[Hnd Hsound] Hcompl]. split; [exact Hnd |]. intros x. split.
    + intros Hin. specialize (Hsound x Hin). rewrite andb_true_iff, Nat.ltb_lt in Hsound. exact Hsound.
    + intros [Hx He]. specialize (Hcompl x Hx). rewrite He in Hcompl. cbn [negb orb] in Hcompl.
      apply memb_spec. exact Hcompl.
  - intros [Hnd H]. split; [split; [exact Hnd |] |].
    + intros x Hin. rewrite andb_true_iff, Nat.ltb_lt. apply H. exact Hin.
    + intros x Hx. destruct (expected x) eqn:E; [| reflexivity]. cbn [negb orb].
      apply memb_spec. apply H. split; assumption.
Qed.

Theorem same_set_tol_spec : forall expected optional n got,
  same_set_tol expected optional n got = true <-> SameSetTol expected optional n got.
Proof.
  intros expected optional n got. unfold same_set_tol, SameSetTol.
  rewrite !andb_true_iff, nodup_nat_spec, forallb_forall, all_below_spec. split.
  - intros [[Hnd Hsound] Hcompl]. split; [exact Hnd |]. split.
    + intros x Hin. specialize (Hsound x Hin).
      rewrite andb_true_iff, Nat.ltb_lt, orb_true_iff in Hsound. exact Hsound.
    + intros x Hx He. specialize (Hcompl x Hx). rewrite He in Hcompl. cbn [negb orb] in Hcompl.
      rewrite orb_true_iff, memb_spec in Hcompl. exact Hcompl.
  - intros [Hnd [Hsound Hcompl]]. split; [split; [exact Hnd |] |].
    + intros x Hin. rewrite andb_true_iff, Nat.ltb_lt, orb_true_iff. apply Hsound. exact Hin.
    + intros x Hx. destruct (expected x) eqn:E; [| reflexivity]. cbn [negb orb].
      rewrite orb_true_iff, memb_spec. apply Hcompl; assumption.
Qed.

Lemma SameSet_P : forall (expected : nat -> bool) (P : nat -> Prop) n got,
  (forall x, x < n -> (expected x = true <-> P x)) ->
  (SameSet expected n got <-> SameSetP P n got).
Proof.
  intros expected P n got HP. unfold SameSet, SameSetP. split.
  - intros [Hnd H]. split; [exact Hnd |]. intros x. rewrite H. split.
    + intros [Hx He]. split; [exact Hx |]. apply HP; assumption.
    + intros [Hx He]. split; [exact Hx |]. apply HP; assumption.
  - intros [Hnd H]. split; [exact Hnd |]. intros x. rewrite H. split.
    + intros [Hx He]. split; [exact Hx |]. apply HP; assumption.
    + intros [Hx He]. split; [exact Hx |]. apply HP; assumption.
Qed.

Lemma SameSetTol_P : forall (expected optional : nat -> bool) (P O : nat -> Prop) n got,
  (forall x, x < n -> (expected x = true <-> P x)) ->
  (forall x, x < n -> (optional x = true <-> O x)) ->
  (SameSetTol expected optional n got <-> SameSetTolP P O n got).
Proof.
  intros expected optional P O n got HP HO. unfold SameSetTol, SameSetTolP. split.
  - intros [Hnd [Hs Hc]]. split; [exact Hnd |]. split.
    + intros x Hin. destruct (Hs x Hin) as [Hx [H | H]].
      * split; [exact Hx |]. left. apply HP; assumption.
      * split; [exact Hx |]. right. apply HO; assumption.
    + intros x Hx Hp. destruct (Hc x Hx) as [H | H].
      * apply HP; assumption.
      * left. apply HO; assumption.
      * right. exact H.
  - intros [Hnd [Hs Hc]]. split; [exact Hnd |]. split.
    + intros x Hin. destruct (Hs x Hin) as [Hx [H | H]].
      * split; [exact Hx |]. left. apply HP; assumption.
      * split; [exact Hx |]. right. apply HO; assumption.
    + intros x Hx Hp. destruct (Hc x Hx) as [H | H].
      * apply HP; assumption.
      * left. apply HO; assumption.
      * right. exact H.
Qed.

Theorem vertices_in_rect_ok_spec : forall s pts lo hi got,
  vertices_in_rect_ok s pts lo hi got = true <-> VerticesInRectOk s pts lo hi got.
Proof.
  intros s pts lo hi got. unfold vertices_in_rect_ok, VerticesInRectOk.
  rewrite same_set_spec. apply SameSet_P. intros x _. apply in_rect_spec.
Qed.

Theorem vertices_in_circle_ok_spec : forall s pts c r2 got,
  vertices_in_circle_ok s pts c r2 got = true <-> VerticesInCircleOk s pts c r2 got.
Proof.
  intros s pts c r2 got. unfold vertices_in_circle_ok, VerticesInCircleOk.
  rewrite same_set_spec. apply SameSet_P. intros x _. apply in_circle_spec.
Qed.

Theorem edges_in_rect_ok_spec : forall s pts lo hi got,
  edges_in_rect_ok s pts lo hi got = true <-> EdgesInRectOk s pts lo hi got.
Proof.
  intros s pts lo hi got. unfold edges_in_rect_ok, EdgesInRectOk.
  rewrite same_set_spec. apply SameSet_P. intros x _. apply edge_meets_rect_spec.
Qed.

Theorem edges_in_circle_ok_spec : forall s pts c r2 got,
  edges_in_circle_ok s pts c r2 got = true <-> EdgesInCircleOk s pts c r2 got.
Proof.
  intros s pts c r2 got. unfold edges_in_circle_ok, EdgesInCircleOk.
  rewrite same_set_tol_spec. apply SameSetTol_P.
  - intros x _. apply edge_meets_circle_spec.
  - intros x _. apply edge_circle_borderline_spec.
Qed.

(* ------------------------------------------------------------------ C09: point location *)
Theorem locspec_b_spec : forall s pts q r, locspec_b s pts q r = true <-> LocSpec s pts q r.
Proof.
  intros s pts q r. destruct r as [v | e | f | e |]; unfold locspec_b, LocSpec.
  - unfold vertex. rewrite andb_true_iff, Nat.ltb_lt, Geom.Lemmas.pnt_eqb_spec. tauto.
  - rewrite andb_true_iff, Nat.ltb_lt, StrictlyBetween_spec. tauto.
  - unfold inner_face, tri_a, tri_b, tri_c.
    destruct (face_tri s pts f) as [[a b] c]. cbn [fst snd].
    rewrite !andb_true_iff, Nat.leb_le, Nat.ltb_lt, !Z.ltb_lt. tauto.
  - unfold outer_edge. rewrite !andb_true_iff, Nat.ltb_lt, Nat.eqb_eq.
    destruct (Nat.eqb_spec (nF s) 1) as [HF | HF].
    + rewrite orb_true_iff, andb_true_iff, negb_true_iff, Z.ltb_lt, Z.eqb_eq.
      assert (Hon : on_some_edge_closed s pts q = false <->
                    forall e', e' < nH s -> ~ OnSegment (eorg s pts e') (edst s pts e') q).
      { unfold on_some_edge_closed. split.
        - intros H e' He' Hseg. apply OnSegment_spec in Hseg.
          assert (Ht : existsb (fun e0 => on_segment (eorg s pts e0) (edst s pts e0) q) (seq 0 (nH s)) = true).
          { apply existsb_below. exists e'. split; assumption. }
          rewrite Ht in H. discriminate H.
        - intros H.
          destruct (existsb (fun e0 => on_segment (eorg s pts e0) (edst s pts e0) q) (seq 0 (nH s))) eqn:E;
            [| reflexivity].
          apply existsb_below in E. destruct E as [e' [He' Hseg]].
          apply OnSegment_spec in Hseg. exfalso. exact (H e' He' Hseg). }
      rewrite Hon. split.
      * intros [[He Hf] H]. split; [split; assumption |]. split; [intros Hne; contradiction |].
        intros _. exact H.
      * intros [[He Hf] [_ H]]. split; [split; assumption |]. apply H. exact HF.
    + rewrite Z.ltb_lt. split.
      * intros [[He Hf] H]. split; [split; assumption |]. split; [intros _; exact H |].
        intros Heq; contradiction.
      * intros [[He Hf] [H _]]. split; [split; assumption |]. apply H. exact HF.
  - unfold vertex. rewrite andb_true_iff, Nat.ltb_lt, negb_true_iff. split.
    + intros [Hn H]. split; [exact Hn |]. intros v Hv Hp.
      assert (Ht : existsb (fun v0 => pnt_eqb (pos pts v0) q) (seq 0 (nV s)) = true).
      { apply existsb_below. exists v. split; [exact Hv |]. apply Geom.Lemmas.pnt_eqb_spec. exact Hp. }
      rewrite Ht in H. discriminate H.
    + intros [Hn H]. split; [exact Hn |].
      destruct (existsb (fun v0 => pnt_eqb (pos pts v0) q) (seq 0 (nV s))) eqn:E; [| reflexivity].
      apply existsb_below in E. destruct E as [v [Hv Hp]].
      apply Geom.Lemmas.pnt_eqb_spec in Hp. exfalso. exact (H v Hv Hp).
Qed.

(* ------------------------------------------------------------------ C15: nearest neighbour *)
Theorem nn_b_spec : forall s pts q r, nn_b s pts q r = true <-> NNSpec s pts q r.
Proof.
  intros s pts q r. destruct r as [v |]; unfold nn_b, NNSpec, vertex.
  - rewrite andb_true_iff, Nat.ltb_lt, all_below_spec. split.
    + intros [Hv H]. split; [exact Hv |]. intros u Hu. apply Z.leb_le. apply H. exact Hu.
    + intros [Hv H]. split; [exact Hv |]. intros u Hu. apply Z.leb_le. apply H. exact Hu.
  - apply Nat.eqb_eq.
Qed.

(* ------------------------------------------------------------------ C12: constraint admission *)
Lemma crosses_constraint_spec : forall s pts a b k,
  crosses_constraint s pts a b k = true <-> CrossesConstraint s pts a b k.
Proof.
  intros s pts a b k. unfold crosses_constraint, CrossesConstraint.
  rewrite andb_true_iff, ProperCross_spec. tauto.
Qed.

Lemma touched_by_endpoint_spec : forall s pts a b k,
  touched_by_endpoint s pts a b k = true <-> TouchedByEndpoint s pts a b k.
Proof.
  intros s pts a b k. unfold touched_by_endpoint, TouchedByEndpoint.
  rewrite andb_true_iff, orb_true_iff, !on_seg_spec. tauto.
Qed.

Theorem crossspec_b_spec : forall s pts a b, crossspec_b s pts a b = true <-> CrossSpec s pts a b.
Proof.
  intros s pts a b. unfold crossspec_b, CrossSpec. rewrite existsb_below. split.
  - intros [k [Hk H]]. exists k. split; [exact Hk |]. apply crosses_constraint_spec. exact H.
  - intros [k [Hk H]]. exists k. split; [exact Hk |]. apply crosses_constraint_spec. exact H.
Qed.

Theorem conflicts_ok_spec : forall s pts a b got,
  conflicts_ok s pts a b got = true <-> ConflictsOk s pts a b got.
Proof.
  intros s pts a b got. unfold conflicts_ok, ConflictsOk. cbv zeta.
  rewrite !andb_true_iff, nodup_nat_spec, forallb_forall, all_below_spec. split.
  - intros [[Hnd Hs] Hc]. split; [exact Hnd |]. split.
    + intros k Hin. specialize (Hs k Hin).
      rewrite andb_true_iff, Nat.ltb_lt, orb_true_iff, crosses_constraint_spec,
        touched_by_endpoint_spec in Hs. exact Hs.
    + intros k Hk Hx. specialize (Hc k Hk). apply crosses_constraint_spec in Hx.
      rewrite Hx in Hc. cbn [negb orb] in Hc. apply memb_spec. exact Hc.
  - intros [Hnd [Hs Hc]]. split; [split; [exact Hnd |] |].
    + intros k Hin. rewrite andb_true_iff, Nat.ltb_lt, orb_true_iff, crosses_constraint_spec,
        touched_by_endpoint_spec. apply Hs. exact Hin.
    + intros k Hk. destruct (crosses_constraint s pts a b k) eqn:E; [| reflexivity].
      cbn [negb orb]. apply memb_spec. apply Hc; [exact Hk |]. apply crosses_constraint_spec. exact E.
Qed.

Lemma chain_from_spec : forall s pts l cur vb a b,
  chain_from s pts cur l vb a b = true <-> ChainFrom s pts cur l vb a b.
Proof.
  intros s pts l. induction l as [| e t IH]; intros cur vb a b.
  - cbn [chain_from]. unfold ChainFrom. rewrite Nat.eqb_eq. split.
    + intros H. split; [intros e [] |]. split; [| exact H]. intros i Hi. cbn [length] in Hi. lia.
    + intros [_ [_ H]]. exact H.
  - cbn [chain_from]. rewrite !andb_true_iff, Nat.ltb_lt, Nat.eqb_eq, OnSegment_spec, IH.
    unfold ChainFrom. split.
    + intros [[[[He Ho] Hf] Hseg] [Hall [Hadj Hend]]]. split; [| split].
      * intros e' [E | Hin]; [subst e'; tauto | apply Hall; exact Hin].
      * intros i Hi. destruct i as [| i].
        -- destruct t as [| e1 t']; [cbn [length] in Hi; lia |]. cbn [nth]. apply Hend.
        -- cbn [nth]. apply Hadj. cbn [length] in Hi. lia.
      * split; [exact Ho |]. destruct t as [| e1 t'].
        -- cbn [last]. exact Hend.
        -- destruct Hend as [_ Hend]. exact Hend.
    + intros [Hall [Hadj [Ho Hend]]].
      destruct (Hall e (or_introl eq_refl)) as [He [Hf Hseg]].
      split; [tauto |]. split; [| split].
      * intros e' Hin. apply Hall. right. exact Hin.
      * intros i Hi. apply (Hadj (S i)). cbn [length]. lia.
      * destruct t as [| e1 t'].
        -- cbn [last] in Hend. exact Hend.
        -- split; [| exact Hend]. apply (Hadj 0). cbn [length]. lia.
Qed.

Theorem chain_ok_spec : forall s pts va vb l,
  Query.chain_ok s pts va vb l = true <-> ChainOk s pts va vb l.
Proof.
  intros s pts va vb l. unfold Query.chain_ok, ChainOk. apply chain_from_spec.
Qed.

(* ------------------------------------------------------------------ C16 (supplement): a segment meets a rectangle
   iff it contains a point of it *)
Section RectClip.
Local Open Scope Z_scope.

(* affine constraint p + tau q >= 0 at tau = t/n, cleared of the denominator *)
Definition csat (n t : Z) (c : Z * Z) : Prop := 0 <= n * fst c + t * snd c.

(* clipping: moving from parameter t/n towards 0 while all constraints stay satisfied, one either reaches 0
   or a parameter where one constraint is tight *)
Lemma clip : forall (cs : list (Z * Z)) n t, 0 < n -> 0 <= t ->
  (forall c, In c cs -> csat n t c) ->
  exists n' t', 0 < n' /\ 0 <= t' /\ t' * n <= t * n' /\
    (forall c, In c cs -> csat n' t' c) /\
    (t' = 0 \/ exists c, In c cs /\ n' * fst c + t' * snd c = 0).
Proof.
  intros cs n t Hn Ht. induction cs as [| c rest IH]; intros Hall.
  - exists 1, 0. split; [lia |]. split; [lia |]. split; [lia |]. split; [intros c [] | left; reflexivity].
  - destruct IH as [n' [t' [Hn' [Ht' [Hle [Hsat Hb]]]]]].
    { intros c' Hin. apply Hall. right. exact Hin. }
    assert (Hc : csat n t c) by (apply Hall; left; reflexivity).
    destruct c as [p q]. unfold csat in Hc. cbn [fst snd] in Hc.
    destruct (Z_le_dec 0 (n' * p + t' * q)) as [Hok | Hbad].
    + exists n', t'. split; [exact Hn' |]. split; [exact Ht' |]. split; [exact Hle |]. split.
      * intros c' [E | Hin]; [subst c'; exact Hok | apply Hsat; exact Hin].
      * destruct Hb as [Hb | [c' [Hin Hz]]]; [left; exact Hb | right; exists c'; split; [right; exact Hin | exact Hz]].
    + assert (Hq : 0 < q) by nia.
      assert (Hp : p < 0) by nia.
      exists q, (- p). split; [exact Hq |]. split; [lia |]. split; [nia |]. split.
      * intros c' [E | Hin].
        -- subst c'. unfold csat. cbn [fst snd]. lia.
        -- specialize (Hsat c' Hin). assert (Hc' : csat n t c') by (apply Hall; right; exact Hin).
           destruct c' as [p' q']. unfold csat in *. cbn [fst snd] in *.
           destruct (Z_le_dec 0 q') as [Hq' | Hq'].
           ++ assert (E : n' * (q * p' + - p * q') = q * (n' * p' + t' * q') + q' * (- (n' * p + t' * q)))
                by ring.
              assert (0 <= q * (n' * p' + t' * q')) by (apply Z.mul_nonneg_nonneg; lia).
              assert (0 <= q' * (- (n' * p + t' * q))) by (apply Z.mul_nonneg_nonneg; lia).
              nia.
           ++ assert (E : n * (q * p' + - p * q') = q * (n * p' + t * q') + (- q') * (n * p + t * q))
                by ring.
              assert (0 <= q * (n * p' + t * q')) by (apply Z.mul_nonneg_nonneg; lia).
              assert (0 <= (- q') * (n * p + t * q)) by (apply Z.mul_nonneg_nonneg; lia).
              nia.
      * right. exists (p, q). split; [left; reflexivity |]. cbn [fst snd]. ring.
Qed.

(* a point of ab, scaled by the denominator of its parameter, that lies on the scaled segment cd *)
Lemma SegMeet_scaled : forall a b c d n t,
  0 < n -> 0 <= t <= n ->
  OnSeg (n * fst c, n * snd c) (n * fst d, n * snd d)
        (n * fst a + t * (fst b - fst a), n * snd a + t * (snd b - snd a)) ->
  SegMeet a b c d.
Proof.
  intros a b c d n t Hn Ht H. apply OnSeg_param in H.
  destruct H as [m [u [Hm [Hu [Ex Ey]]]]]. cbn [fst snd] in Ex, Ey.
  exists (m * n), (m * t), (u * n).
  split; [nia |]. split; [nia |]. split; [nia |]. split.
  - replace (m * n * fst a + m * t * (fst b - fst a)) with (m * (n * fst a + t * (fst b - fst a))) by ring.
    rewrite Ex. ring.
  - replace (m * n * snd a + m * t * (snd b - snd a)) with (m * (n * snd a + t * (snd b - snd a))) by ring.
    rewrite Ey. ring.
Qed.

Lemma OnSeg_vertical : forall x y0 y1 y, (y0 <= y <= y1 \/ y1 <= y <= y0) -> OnSeg (x, y0) (x, y1) (x, y).
Proof.
  intros x y0 y1 y H. unfold OnSeg, orient, dot, dist2. cbn [fst snd].
  split; [ring |]. split; [nia |]. intros E. inversion E. f_equal. lia.
Qed.

Lemma OnSeg_horizontal : forall y x0 x1 x, (x0 <= x <= x1 \/ x1 <= x <= x0) -> OnSeg (x0, y) (x1, y) (x, y).
Proof.
  intros y x0 x1 x H. unfold OnSeg, orient, dot, dist2. cbn [fst snd].
  split; [ring |]. split; [nia |]. intros E. inversion E. f_equal. lia.
Qed.

Theorem EdgeMeetsRect_iff_point : forall lo hi a b, EdgeMeetsRect lo hi a b <-> SegHitsRect lo hi a b.
Proof.
  intros [lx ly] [hx hy] [ax ay] [bx by_]. unfold EdgeMeetsRect, SegHitsRect, InRect. cbn [fst snd]. split.
  - intros [Hx [Hy H]]. destruct H as [H | [H | [H | [H | [H | H]]]]].
    + exists 1, 0. lia.
    + exists 1, 1. lia.
    + destruct H as [n [t [u [Hn [Ht [Hu [Ex Ey]]]]]]]. cbn [fst snd] in Ex, Ey.
      exists n, t. split; [exact Hn |]. split; [exact Ht |]. rewrite Ex, Ey. nia.
    + destruct H as [n [t [u [Hn [Ht [Hu [Ex Ey]]]]]]]. cbn [fst snd] in Ex, Ey.
      exists n, t. split; [exact Hn |]. split; [exact Ht |]. rewrite Ex, Ey. nia.
    + destruct H as [n [t [u [Hn [Ht [Hu [Ex Ey]]]]]]]. cbn [fst snd] in Ex, Ey.
      exists n, t. split; [exact Hn |]. split; [exact Ht |]. rewrite Ex, Ey. nia.
    + destruct H as [n [t [u [Hn [Ht [Hu [Ex Ey]]]]]]]. cbn [fst snd] in Ex, Ey.
      exists n, t. split; [exact Hn |]. split; [exact Ht |]. rewrite Ex, Ey. nia.
  - intros [n [t [Hn [Ht [[Hx1 Hx2] [Hy1 Hy2]]]]]].
    split; [nia |]. split; [nia |].
    destruct (clip [(ax - lx, bx - ax); (hx - ax, - (bx - ax)); (ay - ly, by_ - ay); (hy - ay, - (by_ - ay))] n t)
      as [n' [t' [Hn' [Ht' [Hle [Hsat Hb]]]]]]; [exact Hn | lia | |].
    { intros c [E | [E | [E | [E | []]]]]; subst c; unfold csat; cbn [fst snd]; lia. }
    assert (S1 : csat n' t' (ax - lx, bx - ax)) by (apply Hsat; cbn [In]; tauto).
    assert (S2 : csat n' t' (hx - ax, - (bx - ax))) by (apply Hsat; cbn [In]; tauto).
    assert (S3 : csat n' t' (ay - ly, by_ - ay)) by (apply Hsat; cbn [In]; tauto).
    assert (S4 : csat n' t' (hy - ay, - (by_ - ay))) by (apply Hsat; cbn [In]; tauto).
    unfold csat in S1, S2, S3, S4. cbn [fst snd] in S1, S2, S3, S4.
    assert (Htn : t' <= n') by nia.
    destruct Hb as [Hb | [c [Hin Hz]]].
    + subst t'. left. nia.
    + right; right.
      destruct Hin as [E | [E | [E | [E | []]]]]; subst c; cbn [fst snd] in Hz.
      * (* left side, x = lx *)
        right; right; right. apply (SegMeet_scaled _ _ _ _ n' t'); [exact Hn' | lia |]. cbn [fst snd].
        replace (n' * ax + t' * (bx - ax)) with (n' * lx) by lia.
        apply OnSeg_vertical. right. lia.
      * (* right side, x = hx *)
        right; left. apply (SegMeet_scaled _ _ _ _ n' t'); [exact Hn' | lia |]. cbn [fst snd].
        replace (n' * ax + t' * (bx - ax)) with (n' * hx) by lia.
        apply OnSeg_vertical. left. lia.
      * (* bottom side, y = ly *)
        left. apply (SegMeet_scaled _ _ _ _ n' t'); [exact Hn' | lia |]. cbn [fst snd].
        replace (n' * ay + t' * (by_ - ay)) with (n' * ly) by lia.
        apply OnSeg_horizontal. left. lia.
      * (* top side, y = hy *)
        right; right; left. apply (SegMeet_scaled _ _ _ _ n' t'); [exact Hn' | lia |]. cbn [fst snd].
        replace (n' * ay + t' * (by_ - ay)) with (n' * hy) by lia.
        apply OnSeg_horizontal. right. lia.
Qed.

(* edge_meets_rect decides: the closed segment ab and the closed rectangle [lo,hi] have a point in common *)
Theorem edge_meets_rect_point_spec : forall lo hi a b,
  edge_meets_rect lo hi a b = true <-> SegHitsRect lo hi a b.
Proof.
  intros lo hi a b. rewrite edge_meets_rect_spec. apply EdgeMeetsRect_iff_point.
Qed.

End RectClip.

(* ------------------------------------------------------------------ exact dyadic comparison, over Q (supplement):
   dy_leb (m1,e1) (m2,e2) = true  <->  m1 * 2^e1 <= m2 * 2^e2 as rational numbers *)
From Coq Require Import QArith Qpower.

(* the rational number denoted by a dyadic *)
Definition dyQ (a : dy) : Q := inject_Z (fst a) * (2 # 1) ^ (snd a).

Lemma dyQ_shift : forall m e e0, (e0 <= e)%Z ->
  inject_Z (m * 2 ^ (e - e0)) * (2 # 1) ^ e0 == dyQ (m, e).
Proof.
  intros m e e0 H. unfold dyQ. cbn [fst snd].
  rewrite inject_Z_mult, Zpower_Qpower by lia.
  replace e with ((e - e0) + e0)%Z at 2 by ring.
  rewrite Qpower_plus by discriminate.
  change (inject_Z 2) with (2 # 1). ring.
Qed.

Theorem DyLe_Q : forall a b, DyLe a b <-> dyQ a <= dyQ b.
Proof.
  intros [m1 e1] [m2 e2]. 
  assert (Hpos : forall e, 0 < (2 # 1) ^ e) by (intros e; apply Qpower_0_lt; reflexivity).
  split.
  - intros [e [H1 [H2 H]]]. cbn [fst snd] in *.
    rewrite <- (dyQ_shift m1 e1 e H1), <- (dyQ_shift m2 e2 e H2).
    apply Qmult_le_r; [apply Hpos |]. rewrite <- Zle_Qle. exact H.
  - intros H. exists (Z.min e1 e2). cbn [fst snd]. split; [lia |]. split; [lia |].
    rewrite <- (dyQ_shift m1 e1 (Z.min e1 e2)), <- (dyQ_shift m2 e2 (Z.min e1 e2)) in H by lia.
    apply Qmult_le_r in H; [| apply Hpos]. rewrite <- Zle_Qle in H. exact H.
Qed.

Theorem dy_leb_Q : forall a b, dy_leb a b = true <-> dyQ a <= dyQ b.
Proof. intros a b. rewrite dy_leb_spec. apply DyLe_Q. Qed.

Print Assumptions locspec_b_spec.
Print Assumptions nn_b_spec.
Print Assumptions same_set_spec.
Print Assumptions crossspec_b_spec.
Print Assumptions chain_ok_spec.
Print Assumptions seg_meet_spec.
Print Assumptions edge_meets_rect_point_spec.
Print Assumptions edges_in_circle_ok_spec.
Print Assumptions conflicts_ok_spec.
Print Assumptions dy_leb_Q.
