(* Obs/QueryProp.v -- declarative (Prop) forms of the query specifications whose boolean forms are in
   Obs/Query.v (properties C09, C15, C16, C12).  Definitions only; the reflection theorems
   (x_b ... = true <-> X ...) are in Obs/QueryProofs.v. *)
From Coq Require Import ZArith List Bool Arith.
From SpadeV Require Import Num.Decode Num.Decode2 Geom.Pred Obs.State Obs.Spec Obs.SpecProp Obs.Query.
Import ListNotations.
Local Open Scope Z_scope.

(* ------------------------------------------------------------------ elementary geometry *)

(* c is collinear with a,b and its orthogonal projection on the line ab falls within [a,b] (closed).
   For a = b this holds for every c (both sides of every inequality are 0). *)
Definition OnSegment (a b c : pnt) : Prop :=
  orient a b c = 0 /\ 0 <= dot a b c <= dist2 a b.

(* c lies in the relative interior of the segment ab (which is then non-degenerate) *)
Definition StrictlyBetween (a b c : pnt) : Prop :=
  orient a b c = 0 /\ 0 < dot a b c < dist2 a b.

(* c is a point of the closed segment ab; the segment may be degenerate (a = b), then c = a *)
Definition OnSeg (a b c : pnt) : Prop :=
  orient a b c = 0 /\ 0 <= dot a b c <= dist2 a b /\ (a = b -> c = a).

(* the same, by a rational parameter t/n in [0,1]:  c = a + (t/n) (b - a) *)
Definition OnSegParam (a b c : pnt) : Prop :=
  exists n t : Z, 0 < n /\ 0 <= t <= n /\
    n * fst c = n * fst a + t * (fst b - fst a) /\
    n * snd c = n * snd a + t * (snd b - snd a).

(* c and d lie strictly on opposite sides of the line ab, and a and b strictly on opposite sides of the line cd *)
Definition ProperCross (a b c d : pnt) : Prop :=
  ((0 < orient a b c /\ orient a b d < 0) \/ (orient a b c < 0 /\ 0 < orient a b d)) /\
  ((0 < orient c d a /\ orient c d b < 0) \/ (orient c d a < 0 /\ 0 < orient c d b)).

(* the closed segments ab and cd have a point in common: the (rational) point
   a + (t/n) (b - a) = c + (u/n) (d - c)   with 0 <= t/n <= 1 and 0 <= u/n <= 1.
   (Two segments with integer end points that meet, meet in a rational point.) *)
Definition SegMeet (a b c d : pnt) : Prop :=
  exists n t u : Z, 0 < n /\ 0 <= t <= n /\ 0 <= u <= n /\
    n * fst a + t * (fst b - fst a) = n * fst c + u * (fst d - fst c) /\
    n * snd a + t * (snd b - snd a) = n * snd c + u * (snd d - snd c).

(* the characterisation by orientation signs; equivalent to SegMeet (QueryProofs.SegMeet_iff_signs) *)
Definition SegMeetSigns (a b c d : pnt) : Prop :=
  ProperCross a b c d \/ OnSeg a b c \/ OnSeg a b d \/ OnSeg c d a \/ OnSeg c d b.

(* ------------------------------------------------------------------ exact dyadics *)

(* m1 * 2^e1 <= m2 * 2^e2, after clearing the exponents by a common shift 2^-e (e <= e1, e <= e2);
   the choice of e is irrelevant (QueryProofs.DyLe_any) *)
Definition DyLe (a b : dy) : Prop :=
  exists e : Z, e <= snd a /\ e <= snd b /\ fst a * 2 ^ (snd a - e) <= fst b * 2 ^ (snd b - e).

(* ------------------------------------------------------------------ C16: shapes *)

Definition InRect (lo hi p : pnt) : Prop :=
  fst lo <= fst p <= fst hi /\ snd lo <= snd p <= snd hi.

(* the rectangle is non-empty and the closed segment ab has an end point in it or meets one of its four sides *)
Definition EdgeMeetsRect (lo hi a b : pnt) : Prop :=
  fst lo <= fst hi /\ snd lo <= snd hi /\
  (InRect lo hi a \/ InRect lo hi b \/
   SegMeet a b lo (fst hi, snd lo) \/ SegMeet a b (fst hi, snd lo) hi \/
   SegMeet a b hi (fst lo, snd hi) \/ SegMeet a b (fst lo, snd hi) lo).

(* the closed segment ab contains a point (a + (t/n)(b-a)) of the closed rectangle;
   equivalent to EdgeMeetsRect (QueryProofs.EdgeMeetsRect_iff_point) *)
Definition SegHitsRect (lo hi a b : pnt) : Prop :=
  exists n t : Z, 0 < n /\ 0 <= t <= n /\
    n * fst lo <= n * fst a + t * (fst b - fst a) <= n * fst hi /\
    n * snd lo <= n * snd a + t * (snd b - snd a) <= n * snd hi.

(* |cp|^2 <= r2, r2 an exact dyadic on the squared scale of the points *)
Definition InCircle (c : pnt) (r2 : dy) (p : pnt) : Prop := DyLe (dist2 c p, 0) r2.

(* squared distance from c to the closed segment ab is <= r2:
   the foot of the perpendicular from c lies before a        -> distance to a,
                                          beyond b           -> distance to b,
                                          in the interior    -> distance to the line, orient^2 / |ab|^2 *)
Definition EdgeMeetsCircle (c : pnt) (r2 : dy) (a b : pnt) : Prop :=
  (dot a b c <= 0 /\ InCircle c r2 a) \/
  (0 < dot a b c /\ dist2 a b <= dot a b c /\ InCircle c r2 b) \/
  (0 < dot a b c < dist2 a b /\
   DyLe (orient a b c * orient a b c, 0) (fst r2 * dist2 a b, snd r2)).

(* exact tangency in the interior of an edge that is not axis-parallel *)
Definition EdgeCircleBorderline (c : pnt) (r2 : dy) (a b : pnt) : Prop :=
  0 < dot a b c < dist2 a b /\ fst a <> fst b /\ snd a <> snd b /\
  DyLe (orient a b c * orient a b c, 0) (fst r2 * dist2 a b, snd r2) /\
  DyLe (fst r2 * dist2 a b, snd r2) (orient a b c * orient a b c, 0).

Local Close Scope Z_scope.

(* result lists *)
Definition SameSet (expected : nat -> bool) (n : nat) (got : list nat) : Prop :=
  NoDup got /\ (forall x, In x got <-> x < n /\ expected x = true).

Definition SameSetTol (expected optional : nat -> bool) (n : nat) (got : list nat) : Prop :=
  NoDup got /\
  (forall x, In x got -> x < n /\ (expected x = true \/ optional x = true)) /\
  (forall x, x < n -> expected x = true -> optional x = true \/ In x got).

(* the same with the expected set given as a predicate *)
Definition SameSetP (P : nat -> Prop) (n : nat) (got : list nat) : Prop :=
  NoDup got /\ (forall x, In x got <-> x < n /\ P x).

Definition SameSetTolP (P O : nat -> Prop) (n : nat) (got : list nat) : Prop :=
  NoDup got /\
  (forall x, In x got -> x < n /\ (P x \/ O x)) /\
  (forall x, x < n -> P x -> O x \/ In x got).

Section QP.
Variable s : obs.
Variable pts : list pnt.
Notation pos := (pos pts).
Notation eorg := (eorg s pts).
Notation edst := (edst s pts).

(* ------------------------------------------------------------------ C09: point location *)
Definition LocSpec (q : pnt) (r : locres) : Prop :=
  match r with
  | LVertex v => vertex s v /\ pos v = q
  | LEdge e => e < nH s /\ StrictlyBetween (eorg e) (edst e) q
  | LFace f =>
      inner_face s f /\
      (0 < orient (tri_a s pts f) (tri_b s pts f) q)%Z /\
      (0 < orient (tri_b s pts f) (tri_c s pts f) q)%Z /\
      (0 < orient (tri_c s pts f) (tri_a s pts f) q)%Z
  | LOutside e =>
      outer_edge s e /\
      (nF s <> 1 -> (0 < orient (eorg e) (edst e) q)%Z) /\
      (nF s = 1 ->
         (0 < orient (eorg e) (edst e) q)%Z \/
         (orient (eorg e) (edst e) q = 0%Z /\
          forall e', e' < nH s -> ~ OnSegment (eorg e') (edst e') q))
  | LNone => nV s < 2 /\ forall v, vertex s v -> pos v <> q
  end.

(* ------------------------------------------------------------------ C15: nearest neighbour *)
Definition NNSpec (q : pnt) (r : option nat) : Prop :=
  match r with
  | None => nV s = 0
  | Some v => vertex s v /\ forall u, vertex s u -> (dist2 (pos v) q <= dist2 (pos u) q)%Z
  end.

(* ------------------------------------------------------------------ C16: range queries *)
Definition VerticesInRectOk (lo hi : pnt) (got : list nat) : Prop :=
  SameSetP (fun v => InRect lo hi (pos v)) (nV s) got.

Definition VerticesInCircleOk (c : pnt) (r2 : dy) (got : list nat) : Prop :=
  SameSetP (fun v => InCircle c r2 (pos v)) (nV s) got.

(* undirected edge k <-> half-edge 2k *)
Definition EdgesInRectOk (lo hi : pnt) (got : list nat) : Prop :=
  SameSetP (fun k => EdgeMeetsRect lo hi (eorg (2 * k)) (edst (2 * k))) (o_ne s) got.

Definition EdgesInCircleOk (c : pnt) (r2 : dy) (got : list nat) : Prop :=
  SameSetTolP (fun k => EdgeMeetsCircle c r2 (eorg (2 * k)) (edst (2 * k)))
              (fun k => EdgeCircleBorderline c r2 (eorg (2 * k)) (edst (2 * k))) (o_ne s) got.

(* ------------------------------------------------------------------ C12: constraint admission *)
Definition CrossesConstraint (a b : pnt) (k : nat) : Prop :=
  flag s (2 * k) = true /\ ProperCross a b (eorg (2 * k)) (edst (2 * k)).

Definition CrossSpec (a b : pnt) : Prop :=
  exists k, k < o_ne s /\ CrossesConstraint a b k.

Definition TouchedByEndpoint (a b : pnt) (k : nat) : Prop :=
  flag s (2 * k) = true /\
  (OnSeg (eorg (2 * k)) (edst (2 * k)) a \/ OnSeg (eorg (2 * k)) (edst (2 * k)) b).

(* the reported directed edges, as undirected edges: no duplicates, each one a constraint edge that is
   properly crossed or touched by an end point of ab, and every properly crossed constraint edge is reported *)
Definition ConflictsOk (a b : pnt) (got : list nat) : Prop :=
  NoDup (map Nat.div2 got) /\
  (forall k, In k (map Nat.div2 got) ->
     k < o_ne s /\ (CrossesConstraint a b k \/ TouchedByEndpoint a b k)) /\
  (forall k, k < o_ne s -> CrossesConstraint a b k -> In k (map Nat.div2 got)).

(* l is a path of half-edges from vertex `cur` to vertex vb: every edge exists, is flagged and ends on the
   closed segment ab; consecutive edges are head-to-tail; the first starts at cur, the last ends at vb
   (the empty path: cur = vb) *)
Definition ChainFrom (cur : nat) (l : list nat) (vb : nat) (a b : pnt) : Prop :=
  (forall e, In e l -> e < nH s /\ flag s e = true /\ OnSegment a b (edst e)) /\
  (forall i, S i < length l -> org s (nth (S i) l 0) = dest s (nth i l 0)) /\
  match l with
  | [] => cur = vb
  | e0 :: _ => org s e0 = cur /\ dest s (last l 0) = vb
  end.

Definition ChainOk (va vb : nat) (l : list nat) : Prop :=
  ChainFrom va l vb (pos va) (pos vb).

End QP.
