(* Obs/RemoveProofs.v -- reflection theorems for the comparisons of Check/Run.v behind the tags remove / remove_cons (C11) and
   bulk_edges / bulk_equiv (C10): pairs_same / kpairs_same are equality of sets of undirected pairs; cons_pairs / edge_pairs list the
   constraint edges / edges; unique_b is Unique; the verdicts are their declarative statements (Obs/RemoveProp.v). *)
From Coq Require Import ZArith List Bool Arith Lia.
From SpadeV Require Import Num.Decode Geom.Pred Obs.State Obs.Spec Obs.SpecProp Obs.SpecProofs Obs.QueryProofs Vmap.Model Vmap.Proofs
  Cdt.SegSpecProofs Check.Codes Check.Run Obs.RemoveProp.
Import ListNotations.

(* ------------------------------------------------------------------ sets of undirected pairs *)
Lemma exists_upair_UIn : forall (l : list (nat * nat)) u v,
  (exists q, In q l /\ upair_eqb (u, v) q = true) <-> UIn l u v.
Proof.
  intros l u v. unfold UIn. split.
  - intros [[a b] [Hq E]]. apply upair_eqb_spec in E. cbn [fst snd] in E.
    destruct E as [[E1 E2] | [E1 E2]]; subst; [left | right]; exact Hq.
  - intros [H | H].
    + exists (u, v). split; [exact H | apply upair_eqb_refl].
    + exists (v, u). split; [exact H |]. apply upair_eqb_spec. right. split; reflexivity.
Qed.

Theorem pairs_same_sets : forall a b, pairs_same a b = true <-> SameUPairs a b.
Proof.
  intros a b. rewrite pairs_same_spec. unfold SameUPairs. split.
  - intros H u v. rewrite <- !exists_upair_UIn. apply H.
  - intros H [u v]. rewrite !exists_upair_UIn. apply H.
Qed.

Lemma kpair_eqb_spec : forall p q : key * key,
  kpair_eqb p q = true <-> (fst p = fst q /\ snd p = snd q) \/ (fst p = snd q /\ snd p = fst q).
Proof.
  intros p q. unfold kpair_eqb. rewrite orb_true_iff, !andb_true_iff, !key_eqb_eq. tauto.
Qed.

Lemma exists_kpair_UIn : forall (l : list (key * key)) x,
  existsb (kpair_eqb x) l = true <-> UIn l (fst x) (snd x).
Proof.
  intros l [u v]. cbn [fst snd]. rewrite existsb_exists. unfold UIn. split.
  - intros [[a b] [Hq E]]. apply kpair_eqb_spec in E. cbn [fst snd] in E.
    destruct E as [[E1 E2] | [E1 E2]]; subst; [left | right]; exact Hq.
  - intros [H | H].
    + exists (u, v). split; [exact H |]. apply kpair_eqb_spec. left. split; reflexivity.
    + exists (v, u). split; [exact H |]. apply kpair_eqb_spec. right. split; reflexivity.
Qed.

Lemma UIn_sym : forall (A : Type) (l : list (A * A)) u v, UIn l u v <-> UIn l v u.
Proof. intros A l u v. unfold UIn. tauto. Qed.

Theorem kpairs_same_sets : forall a b, kpairs_same a b = true <-> SameUPairs a b.
Proof.
  intros a b. unfold kpairs_same, SameUPairs. rewrite andb_true_iff, !forallb_forall. split.
  - intros [H1 H2] u v. split; intros [H | H].
    + apply (exists_kpair_UIn b (u, v)). apply H1. exact H.
    + apply UIn_sym. apply (exists_kpair_UIn b (v, u)). apply H1. exact H.
    + apply (exists_kpair_UIn a (u, v)). apply H2. exact H.
    + apply UIn_sym. apply (exists_kpair_UIn a (v, u)). apply H2. exact H.
  - intros H. split; intros [u v] Hx; apply exists_kpair_UIn; cbn [fst snd]; apply H; left; exact Hx.
Qed.

(* ------------------------------------------------------------------ edge sets of an observed state *)
Lemma edge_pairs_spec : forall s u v,
  In (u, v) (edge_pairs s) <-> exists k, k < o_ne s /\ org s (2 * k) = u /\ dest s (2 * k) = v.
Proof.
  intros s u v. unfold edge_pairs. rewrite in_map_iff. split.
  - intros [k [E Hk]]. apply in_seq in Hk. injection E as E1 E2. exists k. repeat split; [lia | exact E1 | exact E2].
  - intros [k [Hk [E1 E2]]]. exists k. split; [rewrite E1, E2; reflexivity | apply in_seq; lia].
Qed.

Lemma cons_pairs_spec : forall s u v,
  In (u, v) (cons_pairs s) <-> exists k, k < o_ne s /\ flag s (2 * k) = true /\ org s (2 * k) = u /\ dest s (2 * k) = v.
Proof.
  intros s u v. unfold cons_pairs. rewrite in_map_iff. split.
  - intros [k [E Hk]]. apply filter_In in Hk. destruct Hk as [Hk Hf]. apply in_seq in Hk. injection E as E1 E2.
    exists k. repeat split; [lia | exact Hf | exact E1 | exact E2].
  - intros [k [Hk [Hf [E1 E2]]]]. exists k. split; [rewrite E1, E2; reflexivity |].
    apply filter_In. split; [apply in_seq; lia | exact Hf].
Qed.

Theorem edge_pairs_UIn : forall s u v, UIn (edge_pairs s) u v <-> EdgeBetween s u v.
Proof.
  intros s u v. unfold UIn, EdgeBetween. rewrite !edge_pairs_spec. split.
  - intros [[k [Hk H]] | [k [Hk H]]]; exists k; tauto.
  - intros [k [Hk [H | H]]]; [left | right]; exists k; tauto.
Qed.

Theorem cons_pairs_UIn : forall s u v, UIn (cons_pairs s) u v <-> ConstraintBetween s u v.
Proof.
  intros s u v. unfold UIn, ConstraintBetween. rewrite !cons_pairs_spec. split.
  - intros [[k [Hk H]] | [k [Hk H]]]; exists k; tauto.
  - intros [k [Hk [Hf [H | H]]]]; [left | right]; exists k; tauto.
Qed.

Theorem unique_b_spec : forall s pts, unique_b s pts = true <-> Unique s pts.
Proof.
  intros s pts. unfold unique_b, Unique. rewrite all_below_spec. split.
  - intros H e He Hf Hfr Hfl. specialize (H e He).
    rewrite !orb_true_iff, !Nat.eqb_eq, negb_true_iff, Z.eqb_neq in H.
    destruct H as [[[H | H] | H] | H]; [contradiction | contradiction | congruence | exact H].
  - intros H e He. rewrite !orb_true_iff, !Nat.eqb_eq, negb_true_iff, Z.eqb_neq.
    destruct (Nat.eq_dec (face s e) 0) as [E1 | N1]; [tauto |].
    destruct (Nat.eq_dec (face s (rev e)) 0) as [E2 | N2]; [tauto |].
    destruct (flag s e) eqn:Ef; [tauto |]. right. apply H; assumption.
Qed.

(* ------------------------------------------------------------------ comparison with the reference *)
Theorem ref_verdict_spec : forall n pts res rcs, ref_verdict n pts res rcs = true <-> RefOk n pts res rcs.
Proof.
  intros n pts res rcs. unfold ref_verdict, RefOk.
  rewrite andb_true_iff, orb_true_iff, negb_true_iff, !pairs_same_sets. unfold SameUPairs. split.
  - intros [Hc He]. split.
    + intros u v. rewrite <- cons_pairs_UIn. apply Hc.
    + intros Hu u v. rewrite <- edge_pairs_UIn. destruct He as [He | He]; [| apply He].
      apply unique_b_spec in Hu. congruence.
  - intros [Hc He]. split.
    + intros u v. rewrite cons_pairs_UIn. apply Hc.
    + destruct (unique_b n pts) eqn:Eu; [right | left; reflexivity].
      intros u v. rewrite edge_pairs_UIn. apply He. apply unique_b_spec. exact Eu.
Qed.

(* check_ref of Check/Run.v is ref_verdict applied to the parsed reference and the decoded positions *)
Lemma check_ref_unfold : forall t n a res rcs pts,
  parse_ref a = Some (res, rcs) -> obs_points n = Some pts ->
  check_ref t n (Some a) = [(t, ref_verdict n pts res rcs)].
Proof. intros t n a res rcs pts Hp Ho. unfold check_ref. rewrite Hp, Ho. reflexivity. Qed.

(* ------------------------------------------------------------------ constraints after a removal *)
Theorem remove_cons_verdict_spec : forall kp kn rk, remove_cons_verdict kp kn rk = true <-> RemoveConsOk kp kn rk.
Proof.
  intros kp kn rk. unfold remove_cons_verdict, RemoveConsOk. rewrite kpairs_same_sets. unfold SameUPairs.
  assert (Hf : forall k1 k2,
            UIn (filter (fun pr => negb (key_eqb (fst pr) rk || key_eqb (snd pr) rk)) kp) k1 k2
            <-> UIn kp k1 k2 /\ k1 <> rk /\ k2 <> rk).
  { intros k1 k2. unfold UIn. rewrite !filter_In. cbn [fst snd].
    rewrite !negb_true_iff, !orb_false_iff, !key_eqb_neq. tauto. }
  split.
  - intros H k1 k2. rewrite <- Hf. symmetry. apply H.
  - intros H k1 k2. rewrite Hf. symmetry. apply H.
Qed.

(* check_remove_cons of Check/Run.v is remove_cons_verdict applied to the position pairs of the constraint edges *)
Lemma key_pairs_unfold : forall s vs, vstate_of (o_verts s) = Some vs -> key_pairs s = Some (key_pairs_of (map fst vs) s).
Proof. intros s vs H. unfold key_pairs, key_pairs_of. rewrite H. reflexivity. Qed.

Lemma check_remove_cons_unfold : forall p n rx ry vp vn rk,
  vstate_of (o_verts p) = Some vp -> vstate_of (o_verts n) = Some vn -> key_of rx ry = Some rk ->
  check_remove_cons p n rx ry =
  [(T_remove_cons, remove_cons_verdict (key_pairs_of (map fst vp) p) (key_pairs_of (map fst vn) n) rk)].
Proof.
  intros p n rx ry vp vn rk Hp Hn Hk. unfold check_remove_cons.
  rewrite (key_pairs_unfold p vp Hp), (key_pairs_unfold n vn Hn), Hk. reflexivity.
Qed.

(* the position pairs: an undirected position pair occurs iff it is the pair of positions of a constraint edge *)
Theorem key_pairs_of_UIn : forall ks s k1 k2,
  UIn (key_pairs_of ks s) k1 k2 <->
  exists u v, ConstraintBetween s u v /\ nth u ks ((0,0),(0,0))%Z = k1 /\ nth v ks ((0,0),(0,0))%Z = k2.
Proof.
  intros ks s k1 k2. unfold UIn, key_pairs_of. rewrite !in_map_iff. split.
  - intros [[[u v] [E H]] | [[u v] [E H]]]; cbn [fst snd] in E; injection E as E1 E2.
    + exists u, v. split; [apply cons_pairs_UIn; left; exact H | split; assumption].
    + exists v, u. split; [apply cons_pairs_UIn; right; exact H | split; assumption].
  - intros [u [v [Hc [E1 E2]]]]. apply cons_pairs_UIn in Hc. destruct Hc as [H | H].
    + left. exists (u, v). split; [cbn [fst snd]; rewrite E1, E2; reflexivity | exact H].
    + right. exists (v, u). split; [cbn [fst snd]; rewrite E1, E2; reflexivity | exact H].
Qed.

(* ------------------------------------------------------------------ bulk loading: the vertex set *)
Theorem bulk_equiv_verdict_spec : forall kof ts ks vn,
  bulk_equiv_verdict kof ts ks vn = true <-> BulkEquivOk kof ts ks vn.
Proof.
  intros kof ts ks vn. unfold bulk_equiv_verdict, BulkEquivOk.
  rewrite !andb_true_iff, same_key_set_spec, nodup_keys_spec, forallb_forall.
  assert (H : (forall kd, In kd vn ->
                 existsb (fun t => match kof (fst (fst t)) (snd (fst t)) with
                                   | Some k' => key_eqb k' (fst kd) && (snd t =? snd kd)%Z
                                   | None => false end) ts = true)
              <-> (forall k d, In (k, d) vn -> exists x y, In (x, y, d) ts /\ kof x y = Some k)).
  { split.
    - intros H k d Hin. specialize (H (k, d) Hin). apply existsb_exists in H.
      destruct H as [[[x y] d'] [Ht Hb]]. cbn [fst snd] in Hb. destruct (kof x y) as [k' |] eqn:Ek; [| discriminate Hb].
      apply andb_true_iff in Hb. destruct Hb as [Hk Hd]. apply key_eqb_eq in Hk. apply Z.eqb_eq in Hd. subst k' d'.
      exists x, y. split; [exact Ht | exact Ek].
    - intros H [k d] Hin. destruct (H k d Hin) as [x [y [Ht Ek]]]. apply existsb_exists.
      exists (x, y, d). split; [exact Ht |]. cbn [fst snd]. rewrite Ek, key_eqb_refl, Z.eqb_refl. reflexivity. }
  rewrite H. tauto.
Qed.

(* check_bulk of Check/Run.v reports bulk_equiv_verdict (with Run.key_of as decoding) under tag bulk_equiv *)
Lemma check_bulk_unfold : forall p n stable cnt rest r0 rt ks vn,
  let ts := triples (firstn (3 * Z.to_nat cnt) rest) in
  (r0 =? K_err)%Z = false -> keys_of_triples ts = Some ks -> vstate_of (o_verts n) = Some vn ->
  check_bulk p n stable (cnt :: rest) (r0 :: rt) =
  (T_validate, (fst (first_invalid ts) =? K_ok)%Z)
  :: (T_bulk_equiv, bulk_equiv_verdict key_of ts ks vn)
  :: (if stable then [(T_bulk_stable, is_subseq (map fst vn) ks)] else []).
Proof.
  intros p n stable cnt rest r0 rt ks vn ts Hr Hk Hv. unfold check_bulk. fold ts.
  destruct (first_invalid ts) as [k e]. rewrite Hr, Hk, Hv. reflexivity.
Qed.

(* ------------------------------------------------------------------ the hypotheses are satisfiable: concrete non-trivial instances *)
(* the square (0,0) (4,0) (4,4) (0,4) with the constrained diagonal 0-2 (a real run, see Cdt/SplitProofs.v): edge and constraint sets *)
Definition ex_rm_n : obs := Eval vm_compute in
  match parse_obs [4; 5; 3; 1; 4; 2; 0; 0; 0; 10; 0; 4616189618054758400; 0; 11; 1; 4616189618054758400; 4616189618054758400; 12; 4; 0; 4616189618054758400; 13; 8; 2; 4; 1; 0; 9; 3; 0; 1; 4; 0; 1; 1; 1; 7; 0; 2; 0; 2; 1; 2; 6; 8; 2; 0; 8; 5; 2; 2; 3; 9; 0; 3; 5; 6; 2; 3; 7; 1; 0; 0; 9; 0; 5; 0; 0; 1; 0; 0; 4; 9; 7; 3; 1]%Z
  with Some s => s | None => empty_obs end.
Definition ex_rm_pts : list pnt := [(0, 0); (4, 0); (4, 4); (0, 4)]%Z.
Example ex_rm_ref : ref_verdict ex_rm_n ex_rm_pts [(1, 0); (2, 1); (0, 2); (3, 2); (0, 3)] [(2, 0)] = true.
Proof. vm_compute. reflexivity. Qed.
Example ex_rm_ref_ok : RefOk ex_rm_n ex_rm_pts [(1, 0); (2, 1); (0, 2); (3, 2); (0, 3)] [(2, 0)].
Proof. apply ref_verdict_spec. exact ex_rm_ref. Qed.
(* the square is cocircular, but its diagonal is a constraint edge: the triangulation is unique *)
Example ex_rm_unique : Unique ex_rm_n ex_rm_pts.
Proof. apply unique_b_spec. vm_compute. reflexivity. Qed.
Example ex_rm_cons : ConstraintBetween ex_rm_n 2 0 /\ ~ ConstraintBetween ex_rm_n 1 3.
Proof.
  split.
  - apply cons_pairs_UIn. vm_compute. tauto.
  - intros H. apply cons_pairs_UIn in H. vm_compute in H. destruct H as [[H | []] | [H | []]]; discriminate H.
Qed.
(* removing the vertex at position c from constraints {a-b, b-c, d-a} leaves {a-b, d-a} *)
Example ex_rm_keys : let a := ((1, 0), (0, 0))%Z in let b := ((1, 2), (0, 0))%Z in let c := ((1, 2), (1, 2))%Z in let d := ((0, 0), (1, 2))%Z in
  RemoveConsOk [(a, b); (b, c); (d, a)] [(a, d); (b, a)] c.
Proof. cbv zeta. apply remove_cons_verdict_spec. vm_compute. reflexivity. Qed.
Example ex_bulk_equiv : let kof := fun x y : Z => Some ((x, 0), (y, 0))%Z in
  BulkEquivOk kof [(1, 1, 7); (2, 3, 8); (1, 1, 9)]%Z [((1, 0), (1, 0)); ((2, 0), (3, 0)); ((1, 0), (1, 0))]%Z
              [(((2, 0), (3, 0)), 8); (((1, 0), (1, 0)), 9)]%Z.
Proof. cbv zeta. apply bulk_equiv_verdict_spec. vm_compute. reflexivity. Qed.

Print Assumptions pairs_same_sets.
Print Assumptions kpairs_same_sets.
Print Assumptions ref_verdict_spec.
Print Assumptions remove_cons_verdict_spec.
Print Assumptions key_pairs_of_UIn.
Print Assumptions bulk_equiv_verdict_spec.
