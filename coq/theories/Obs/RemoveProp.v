(* Obs/RemoveProp.v -- declarative (Prop) forms of the comparisons Check/Run.v uses for removal (C11: tags remove, remove_cons) and
   bulk loading (C10: tags bulk_edges, bulk_equiv): equality of sets of undirected pairs (of vertex indices / of positions), the
   constraint / edge sets of an observed state, the uniqueness test, and the verdicts built from them.
   Definitions only; the reflection theorems are in Obs/RemoveProofs.v. *)
From Coq Require Import ZArith List Bool Arith.
From SpadeV Require Import Num.Decode Geom.Pred Obs.State Obs.Spec Vmap.Model Check.Run.
Import ListNotations.

(* ------------------------------------------------------------------ sets of undirected pairs *)
(* the undirected pair {u,v} occurs in the list (in either orientation) *)
Definition UIn {A : Type} (l : list (A * A)) (u v : A) : Prop := In (u, v) l \/ In (v, u) l.
(* two lists denote the same set of undirected pairs *)
Definition SameUPairs {A : Type} (a b : list (A * A)) : Prop := forall u v, UIn a u v <-> UIn b u v.

(* ------------------------------------------------------------------ edge sets of an observed state *)
Section EdgeSets.
Variable s : obs.
Variable pts : list pnt.
(* vertices u and v are joined by an edge / by a constraint edge *)
Definition EdgeBetween (u v : nat) : Prop :=
  exists k, k < o_ne s /\ ((org s (2 * k) = u /\ dest s (2 * k) = v) \/ (org s (2 * k) = v /\ dest s (2 * k) = u)).
Definition ConstraintBetween (u v : nat) : Prop :=
  exists k, k < o_ne s /\ flag s (2 * k) = true /\
            ((org s (2 * k) = u /\ dest s (2 * k) = v) \/ (org s (2 * k) = v /\ dest s (2 * k) = u)).

(* the sufficient uniqueness test of the (constrained) Delaunay triangulation: no free edge between two inner faces has its four
   vertices exactly cocircular *)
Definition Unique : Prop :=
  forall e, e < nH s -> face s e <> 0 -> face s (rev e) <> 0 -> flag s e = false ->
    incircle (eorg s pts e) (edst s pts e) (pos pts (opposite s e)) (pos pts (opposite s (rev e))) <> 0%Z.
End EdgeSets.

(* ------------------------------------------------------------------ comparison with a reference triangulation (remove, bulk_edges) *)
(* res / rcs: the edges / constraint edges of the reference (built incrementally by the implementation), as pairs of vertex indices of
   the state under test (the harness matches vertices by position) *)
Definition ref_verdict (n : obs) (pts : list pnt) (res rcs : list (nat * nat)) : bool :=
  pairs_same (cons_pairs n) rcs && (negb (unique_b n pts) || pairs_same (edge_pairs n) res).

Definition RefOk (n : obs) (pts : list pnt) (res rcs : list (nat * nat)) : Prop :=
  (forall u v, ConstraintBetween n u v <-> UIn rcs u v) /\
  (Unique n pts -> forall u v, EdgeBetween n u v <-> UIn res u v).

(* ------------------------------------------------------------------ constraints after a removal, by position (remove_cons) *)
(* kp / kn: the constraint edges of the state before / after, as pairs of positions; rk: the position of the removed vertex *)
Definition remove_cons_verdict (kp kn : list (key * key)) (rk : key) : bool :=
  kpairs_same (filter (fun pr => negb (key_eqb (fst pr) rk || key_eqb (snd pr) rk)) kp) kn.

(* the constraints afterwards are exactly the former ones that do not touch the removed position *)
Definition RemoveConsOk (kp kn : list (key * key)) (rk : key) : Prop :=
  forall k1 k2, UIn kn k1 k2 <-> (UIn kp k1 k2 /\ k1 <> rk /\ k2 <> rk).

(* the position pairs of a state's constraint edges, given the positions of its vertices *)
Definition key_pairs_of (ks : list key) (s : obs) : list (key * key) :=
  map (fun pr => (nth (fst pr) ks ((0,0),(0,0))%Z, nth (snd pr) ks ((0,0),(0,0))%Z)) (cons_pairs s).

(* ------------------------------------------------------------------ bulk loading: vertex set (bulk_equiv) *)
(* ts: the input triples (x bits, y bits, payload); ks: their positions; vn: the resulting vertex array (position, payload);
   kof: the decoding of a position from its bit patterns (Run.key_of) *)
Definition bulk_equiv_verdict (kof : Z -> Z -> option key) (ts : list (Z * Z * Z)) (ks : list key) (vn : vstate) : bool :=
  same_key_set ks (map fst vn) && nodup_keys (map fst vn)
  && forallb (fun kd => existsb (fun t => match kof (fst (fst t)) (snd (fst t)) with
                                          | Some k' => key_eqb k' (fst kd) && (snd t =? snd kd)%Z
                                          | None => false end) ts) vn.

(* one vertex per distinct input position, and every vertex carries the payload of an input element at its position *)
Definition BulkEquivOk (kof : Z -> Z -> option key) (ts : list (Z * Z * Z)) (ks : list key) (vn : vstate) : Prop :=
  (forall k, In k ks <-> In k (map fst vn)) /\
  NoDup (map fst vn) /\
  (forall k d, In (k, d) vn -> exists x y, In (x, y, d) ts /\ kof x y = Some k).
