(* Obs/Spec.v -- executable (boolean) forms of the structural and geometric specifications over
   an observed state.  The declarative (Prop) forms and the reflection theorems are in
   Obs/SpecProofs.v; nothing here is proved, so the checkers run even when a proof breaks. *)
From Coq Require Import ZArith List Bool Arith.
From SpadeV Require Import Geom.Pred Obs.State.
Import ListNotations.

Definition all_below (n : nat) (p : nat -> bool) : bool := forallb p (seq 0 n).

Definition opt_lt (o : option nat) (n : nat) : bool :=
  match o with Some e => e <? n | None => true end.

(* ---------------------------------------------------------------- topological validity (C02) *)
Definition wf_counts (s : obs) : bool :=
  (o_nv s =? nV s) && (o_ne s * 2 =? nH s) && (o_nf s =? nF s) && (length (o_flags s) =? o_ne s)
  && (1 <=? nF s).

Definition wf_ranges (s : obs) : bool :=
  all_below (nH s) (fun e => (next s e <? nH s) && (prev s e <? nH s) && (face s e <? nF s) && (org s e <? nV s))
  && all_below (nV s) (fun v => opt_lt (vout s v) (nH s))
  && all_below (nF s) (fun f => opt_lt (adj s f) (nH s)).

Definition wf_links (s : obs) : bool :=
  all_below (nH s) (fun e =>
    (prev s (next s e) =? e) && (next s (prev s e) =? e)
    && (face s (next s e) =? face s e)
    && (org s (next s e) =? dest s e)
    && negb (org s e =? dest s e)).

Definition wf_face_ptrs (s : obs) : bool :=
  all_below (nF s) (fun f =>
    match adj s f with
    | Some e => face s e =? f
    | None => (f =? 0) && (nH s =? 0)
    end).

Definition wf_vertex_ptrs (s : obs) : bool :=
  all_below (nV s) (fun v =>
    match vout s v with
    | Some e => org s e =? v
    | None => nH s =? 0
    end).

(* inner faces are triangles, and every half-edge of an inner face lies on the 3-cycle of the
   face's representative edge *)
Definition wf_triangles (s : obs) : bool :=
  all_below (nH s) (fun e =>
    (face s e =? 0) ||
    ((next s (next s (next s e)) =? e) &&
     match adj s (face s e) with
     | Some a => (e =? a) || (e =? next s a) || (e =? next s (next s a))
     | None => false
     end)).

Definition outer_edges (s : obs) : list nat := filter (fun e => face s e =? 0) (seq 0 (nH s)).

(* the half-edges of the outer face form one `next` orbit through its representative edge *)
Definition wf_outer_orbit (s : obs) : bool :=
  match adj s 0 with
  | None => nH s =? 0
  | Some a =>
      let oe := outer_edges s in
      let orbit := iter_n (next s) (length oe) a in
      forallb (fun e => memb e orbit) oe
  end.

(* the out-edges of each vertex form one `ccw` orbit through the vertex' representative edge *)
Definition wf_vertex_orbits (s : obs) : bool :=
  all_below (nV s) (fun v =>
    match vout s v with
    | None => true
    | Some a =>
        let oe := filter (fun e => org s e =? v) (seq 0 (nH s)) in
        let orbit := iter_n (ccw s) (length oe) a in
        forallb (fun e => memb e orbit) oe
    end).

(* no two distinct half-edges join the same ordered vertex pair *)
Definition wf_simple (s : obs) : bool :=
  all_below (nH s) (fun e => all_below (nH s) (fun e' =>
    (e =? e') || negb ((org s e =? org s e') && (dest s e =? dest s e')))).

(* Euler's relation / documented size formulas *)
Definition wf_euler (s : obs) : bool :=
  (o_ni s + 1 =? nF s) && (Bool.eqb (o_line s) (nF s =? 1)) &&
  (o_hs s =? length (outer_edges s)) &&
  (if nF s =? 1
   then (* degenerate chain: n-1 edges, only the outer face *)
        (if nV s <=? 1 then nH s =? 0 else nH s =? 2 * (nV s - 1))
   else (nV s + nF s =? o_ne s + 2) && (length (outer_edges s) + 3 * (nF s - 1) =? nH s) && (3 <=? nV s)).

Definition wf_b (s : obs) : bool :=
  wf_counts s && wf_ranges s && wf_links s && wf_face_ptrs s && wf_vertex_ptrs s && wf_triangles s
  && wf_outer_orbit s && wf_vertex_orbits s && wf_simple s && wf_euler s.

(* ---------------------------------------------------------------- geometric validity (C02, C14) *)
Section Geo.
Variable s : obs.
Variable pts : list pnt.
Definition pos (v : nat) : pnt := nth v pts (0%Z, 0%Z).
Definition eorg (e : nat) : pnt := pos (org s e).
Definition edst (e : nat) : pnt := pos (dest s e).

Definition inner_face_ids : list nat := seq 1 (nF s - 1).
Definition face_tri (f : nat) : (pnt * pnt * pnt) :=
  match adj s f with
  | Some a => (eorg a, eorg (next s a), eorg (next s (next s a)))
  | None => ((0%Z,0%Z),(0%Z,0%Z),(0%Z,0%Z))
  end.

Definition positions_distinct : bool :=
  all_below (nV s) (fun i => all_below (nV s) (fun j => (i =? j) || negb (pnt_eqb (pos i) (pos j)))).

Definition faces_ccw : bool :=
  forallb (fun f => let '(a, b, c) := face_tri f in (0 <? orient a b c)%Z) inner_face_ids.

(* every vertex lies on or to the right of every outer half-edge (outer edges run clockwise) *)
Definition hull_contains_all : bool :=
  forallb (fun e => all_below (nV s) (fun v => (orient (eorg e) (edst e) (pos v) <=? 0)%Z)) (outer_edges s).

(* a vertex that lies on the supporting line of an outer edge within its closed segment is an end point
   of it: vertices on the hull boundary are hull vertices *)
Definition hull_boundary_vertices : bool :=
  forallb (fun e => all_below (nV s) (fun v =>
      negb (on_segment (eorg e) (edst e) (pos v)) || (v =? org s e) || (v =? dest s e))) (outer_edges s).

Definition hull_vertices_distinct : bool :=
  let hv := map (org s) (outer_edges s) in
  forallb (fun v => (count_occ Nat.eq_dec hv v =? 1)) hv.

(* doubled areas: sum over inner faces = doubled area of the hull polygon (shoelace; the outer cycle is clockwise) *)
Definition cross0 (a b : pnt) : Z := (fst a * snd b - snd a * fst b)%Z.
Definition area_identity : bool :=
  let inner := fold_right (fun f acc => (let '(a, b, c) := face_tri f in orient a b c + acc)%Z) 0%Z inner_face_ids in
  let outer := fold_right (fun e acc => (cross0 (eorg e) (edst e) + acc)%Z) 0%Z (outer_edges s) in
  (inner + outer =? 0)%Z.

(* degenerate state: all vertices collinear and every edge joins neighbours on the line *)
Definition chain_ok : bool :=
  match pts with
  | [] => true
  | p0 :: _ =>
    all_below (nV s) (fun i => all_below (nV s) (fun j => all_below (nV s) (fun k =>
        (orient (pos i) (pos j) (pos k) =? 0)%Z)))
    && all_below (nH s) (fun e => all_below (nV s) (fun v => negb (strictly_between (eorg e) (edst e) (pos v))))
  end.

Definition geo_b : bool :=
  (length pts =? nV s) && positions_distinct &&
  (if nF s =? 1 then chain_ok
   else faces_ccw && hull_contains_all && hull_boundary_vertices && hull_vertices_distinct && area_identity).

(* ---------------------------------------------------------------- Delaunay (C01) / constrained Delaunay (C03) *)
Definition delaunay_b : bool :=
  forallb (fun f => let '(a, b, c) := face_tri f in
    all_below (nV s) (fun v => (incircle a b c (pos v) <=? 0)%Z)) inner_face_ids.

(* edge e (with inner faces on both sides): the apex of the face right of e is not strictly inside the
   circumcircle of the face left of e *)
Definition locally_delaunay_edge (e : nat) : bool :=
  (face s e =? 0) || (face s (rev e) =? 0) ||
  (incircle (eorg e) (edst e) (pos (opposite s e)) (pos (opposite s (rev e))) <=? 0)%Z.

Definition cdtlocal_b : bool :=
  all_below (nH s) (fun e => flag s e || locally_delaunay_edge e).

Definition all_locally_delaunay_b : bool := all_below (nH s) locally_delaunay_edge.

(* no two constraint edges cross in an interior point *)
Definition constraints_noncrossing : bool :=
  all_below (nH s) (fun e => all_below (nH s) (fun e' =>
    negb (flag s e && flag s e') || negb (proper_cross (eorg e) (edst e) (eorg e') (edst e')))).

Definition count_flags : nat := length (filter (fun b : bool => b) (o_flags s)).
Definition ncons_ok : bool := o_nc s =? count_flags.

(* is the (constrained) Delaunay triangulation of this point set unique?  Sufficient test: no inner edge
   between two inner faces has its four vertices exactly cocircular (unless flagged). *)
Definition unique_b : bool :=
  all_below (nH s) (fun e =>
    (face s e =? 0) || (face s (rev e) =? 0) || flag s e ||
    negb (incircle (eorg e) (edst e) (pos (opposite s e)) (pos (opposite s (rev e))) =? 0)%Z).

(* ---------------------------------------------------------------- convex_hull() iterator (C14) *)
Definition hull_iter_ok : bool :=
  let h := o_hull s in
  (length h =? o_hs s) &&
  (length h =? length (outer_edges s)) &&
  forallb (fun e => (e <? nH s) && (face s e =? 0)) h &&
  forallb (fun e => memb e h) (outer_edges s) &&
  (* closed chain in iteration order: each edge ends where its successor starts *)
  (match h with
   | [] => true
   | e0 :: _ =>
     (fix chain (l : list nat) : bool :=
        match l with
        | [] => true
        | [e] => dest s e =? org s e0
        | e :: ((e' :: _) as tl) => (dest s e =? org s e') && chain tl
        end) h
   end).

End Geo.
