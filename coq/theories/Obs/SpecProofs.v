(* Obs/SpecProofs.v -- reflection theorems: each boolean checker of Obs/Spec.v decides the
   declarative specification of Obs/SpecProp.v. *)
From Coq Require Import ZArith List Bool Arith Lia.
From SpadeV Require Import Geom.Pred Obs.State Obs.Spec Obs.SpecProp.
Import ListNotations.

(* ---------------------------------------------------------------- generic lemmas *)
Lemma all_below_spec : forall n p, all_below n p = true <-> (forall i, i < n -> p i = true).
Proof.
  intros n p. unfold all_below. rewrite forallb_forall. split.
  - intros H i Hi. apply H. apply in_seq. lia.
  - intros H i Hi. apply in_seq in Hi. apply H. lia.
Qed.

Lemma memb_spec : forall x l, memb x l = true <-> In x l.
Proof.
  intros x l. unfold memb. rewrite existsb_exists. split.
  - intros [y [Hy Heq]]. apply Nat.eqb_eq in Heq. subst. exact Hy.
  - intros H. exists x. split; [exact H | apply Nat.eqb_refl].
Qed.

Lemma iter_shift : forall (A : Type) (f : A -> A) k x, Nat.iter k f (f x) = f (Nat.iter k f x).
Proof.
  intros A f k x. induction k as [|k IH].
  - reflexivity.
  - cbn [Nat.iter nat_rect]. unfold Nat.iter in IH. rewrite IH. reflexivity.
Qed.

Lemma iter_n_spec : forall (A : Type) (f : A -> A) n x e,
  In e (iter_n f n x) <-> exists k, k < n /\ Nat.iter k f x = e.
Proof.
  intros A f n. induction n as [|n IH]; intros x e.
  - cbn [iter_n In]. split; [intros [] | intros [k [Hk _]]; lia].
  - cbn [iter_n In]. rewrite IH. split.
    + intros [H | [k [Hk H]]].
      * exists 0. split; [lia | exact H].
      * exists (S k). split; [lia |]. rewrite iter_shift in H. exact H.
    + intros [k [Hk H]]. destruct k as [|k].
      * left. exact H.
      * right. exists k. split; [lia |]. rewrite iter_shift. exact H.
Qed.

Lemma opt_lt_spec : forall o n, opt_lt o n = true <-> opt_below o n.
Proof.
  intros o n. unfold opt_lt, opt_below. destruct o as [e|].
  - rewrite Nat.ltb_lt. split.
    + intros H e' He'. inversion He'. subst. exact H.
    + intros H. apply H. reflexivity.
  - split; [intros _ e He; discriminate He | reflexivity].
Qed.

Lemma pnt_eqb_spec : forall a b : pnt, pnt_eqb a b = true <-> a = b.
Proof.
  intros [ax ay] [bx by_]. unfold pnt_eqb. cbn [fst snd].
  rewrite andb_true_iff, !Z.eqb_eq. split.
  - intros [H1 H2]. subst. reflexivity.
  - intros H. inversion H. split; reflexivity.
Qed.

Lemma outer_edges_spec : forall s e, In e (outer_edges s) <-> outer_edge s e.
Proof.
  intros s e. unfold outer_edges, outer_edge. rewrite filter_In, in_seq, Nat.eqb_eq.
  split; intros [H1 H2]; split; try assumption; lia.
Qed.

Lemma inner_face_ids_spec : forall s f, In f (inner_face_ids s) <-> inner_face s f.
Proof.
  intros s f. unfold inner_face_ids, inner_face. rewrite in_seq. lia.
Qed.

(* ---------------------------------------------------------------- topological checkers *)
Theorem wf_counts_spec : forall s, wf_counts s = true <-> WfCounts s.
Proof.
  intros s. unfold wf_counts, WfCounts.
  rewrite !andb_true_iff, !Nat.eqb_eq, Nat.leb_le. tauto.
Qed.

Theorem wf_ranges_spec : forall s, wf_ranges s = true <-> WfRanges s.
Proof.
  intros s. unfold wf_ranges, WfRanges, HE.
  rewrite !andb_true_iff, !all_below_spec.
  split.
  - intros [[H1 H2] H3]. repeat split.
    + specialize (H1 e H). rewrite !andb_true_iff, !Nat.ltb_lt in H1. tauto.
    + specialize (H1 e H). rewrite !andb_true_iff, !Nat.ltb_lt in H1. tauto.
    + specialize (H1 e H). rewrite !andb_true_iff, !Nat.ltb_lt in H1. tauto.
    + specialize (H1 e H). rewrite !andb_true_iff, !Nat.ltb_lt in H1. tauto.
    + intros v Hv. apply opt_lt_spec. apply H2. exact Hv.
    + intros f Hf. apply opt_lt_spec. apply H3. exact Hf.
  - intros [H1 [H2 H3]]. repeat split.
    + intros e He. rewrite !andb_true_iff, !Nat.ltb_lt. specialize (H1 e He). tauto.
    + intros v Hv. apply opt_lt_spec. apply H2. exact Hv.
    + intros f Hf. apply opt_lt_spec. apply H3. exact Hf.
Qed.

Theorem wf_links_spec : forall s, wf_links s = true <-> WfLinks s.
Proof.
  intros s. unfold wf_links, WfLinks, HE. rewrite all_below_spec.
  split; intros H e He; specialize (H e He);
    rewrite !andb_true_iff, negb_true_iff, Nat.eqb_neq, !Nat.eqb_eq in *; tauto.
Qed.

Theorem wf_face_ptrs_spec : forall s, wf_face_ptrs s = true <-> WfFacePtrs s.
Proof.
  intros s. unfold wf_face_ptrs, WfFacePtrs. rewrite all_below_spec.
  split; intros H f Hf; specialize (H f Hf); destruct (adj s f) as [e|].
  - apply Nat.eqb_eq. exact H.
  - rewrite andb_true_iff, !Nat.eqb_eq in H. exact H.
  - apply Nat.eqb_eq. exact H.
  - rewrite andb_true_iff, !Nat.eqb_eq. exact H.
Qed.

Theorem wf_vertex_ptrs_spec : forall s, wf_vertex_ptrs s = true <-> WfVertexPtrs s.
Proof.
  intros s. unfold wf_vertex_ptrs, WfVertexPtrs. rewrite all_below_spec.
  split; intros H v Hv; specialize (H v Hv); destruct (vout s v) as [e|];
    try (apply Nat.eqb_eq; exact H).
Qed.

Theorem wf_triangles_spec : forall s, wf_triangles s = true <-> WfTriangles s.
Proof.
  intros s. unfold wf_triangles, WfTriangles, HE. rewrite all_below_spec.
  split.
  - intros H e He Hf. specialize (H e He).
    rewrite orb_true_iff, andb_true_iff, !Nat.eqb_eq in H.
    destruct H as [H | [H1 H2]]; [contradiction |].
    split; [exact H1 |].
    destruct (adj s (face s e)) as [a|]; [| discriminate H2].
    exists a. split; [reflexivity |].
    rewrite !orb_true_iff, !Nat.eqb_eq in H2. tauto.
  - intros H e He. rewrite orb_true_iff, andb_true_iff, !Nat.eqb_eq.
    destruct (Nat.eq_dec (face s e) 0) as [Hf | Hf]; [left; exact Hf | right].
    destruct (H e He Hf) as [H1 [a [Ha H2]]].
    split; [exact H1 |]. rewrite Ha.
    rewrite !orb_true_iff, !Nat.eqb_eq. tauto.
Qed.

Theorem wf_outer_orbit_spec : forall s, wf_outer_orbit s = true <-> WfOuterOrbit s.
Proof.
  intros s. unfold wf_outer_orbit, WfOuterOrbit, HE.
  destruct (adj s 0) as [a|]; [| apply Nat.eqb_eq].
  cbv zeta. rewrite forallb_forall. split.
  - intros H e He Hf. apply iter_n_spec. apply memb_spec. apply H.
    apply outer_edges_spec. split; assumption.
  - intros H e He. apply outer_edges_spec in He. destruct He as [He Hf].
    apply memb_spec. apply iter_n_spec. apply H; assumption.
Qed.

Theorem wf_vertex_orbits_spec : forall s, wf_vertex_orbits s = true <-> WfVertexOrbits s.
Proof.
  intros s. unfold wf_vertex_orbits, WfVertexOrbits, HE, out_edges_of.
  rewrite all_below_spec. split.
  - intros H v Hv a Ha e He Ho. specialize (H v Hv). rewrite Ha in H. cbv zeta in H.
    rewrite forallb_forall in H. apply iter_n_spec. apply memb_spec. apply H.
    apply filter_In. split; [apply in_seq; lia | apply Nat.eqb_eq; exact Ho].
  - intros H v Hv. specialize (H v Hv). destruct (vout s v) as [a|]; [| reflexivity].
    cbv zeta. rewrite forallb_forall. intros e He.
    apply filter_In in He. destruct He as [He Ho].
    apply in_seq in He. apply Nat.eqb_eq in Ho.
    apply memb_spec. apply iter_n_spec. apply (H a eq_refl e); [lia | exact Ho].
Qed.

Theorem wf_simple_spec : forall s, wf_simple s = true <-> WfSimple s.
Proof.
  intros s. unfold wf_simple, WfSimple, HE. rewrite all_below_spec. split.
  - intros H e e' He He' Ho Hd. specialize (H e He). rewrite all_below_spec in H.
    specialize (H e' He').
    rewrite orb_true_iff, negb_true_iff, andb_false_iff, Nat.eqb_eq, !Nat.eqb_neq in H.
    destruct H as [H | [H | H]]; [exact H | contradiction | contradiction].
  - intros H e He. rewrite all_below_spec. intros e' He'.
    rewrite orb_true_iff, negb_true_iff, andb_false_iff, Nat.eqb_eq, !Nat.eqb_neq.
    destruct (Nat.eq_dec e e') as [Hee | Hee]; [left; exact Hee | right].
    destruct (Nat.eq_dec (org s e) (org s e')) as [Ho | Ho]; [| left; exact Ho].
    destruct (Nat.eq_dec (dest s e) (dest s e')) as [Hd | Hd]; [| right; exact Hd].
    exfalso. apply Hee. apply H; assumption.
Qed.

Lemma eqb_bool_iff : forall (b c : bool) (P : Prop),
  (c = true <-> P) -> (Bool.eqb b c = true <-> (b = true <-> P)).
Proof.
  intros b c P HP. rewrite Bool.eqb_true_iff. split.
  - intros H. subst. exact HP.
  - intros H. destruct b, c; try reflexivity.
    + symmetry. apply HP. apply H. reflexivity.
    + apply H. apply HP. reflexivity.
Qed.

Theorem wf_euler_spec : forall s, wf_euler s = true <-> WfEuler s.
Proof.
  intros s. unfold wf_euler, WfEuler.
  rewrite !andb_true_iff, !Nat.eqb_eq.
  rewrite (eqb_bool_iff (o_line s) (nF s =? 1) (nF s = 1) (Nat.eqb_eq _ _)).
  destruct (Nat.eqb_spec (nF s) 1) as [HF | HF].
  - destruct (Nat.leb_spec (nV s) 1) as [HV | HV]; rewrite Nat.eqb_eq.
    + split.
      * intros [[[H1 H2] H3] H4]. repeat split; try tauto; try lia.
      * intros [H1 [H2 [H3 [H4 H5]]]]. destruct (H4 HF) as [H4a H4b].
        repeat split; try tauto; auto.
    + split.
      * intros [[[H1 H2] H3] H4]. repeat split; try tauto; try lia.
      * intros [H1 [H2 [H3 [H4 H5]]]]. destruct (H4 HF) as [H4a H4b].
        repeat split; try tauto; auto.
  - rewrite !andb_true_iff, !Nat.eqb_eq, Nat.leb_le. split.
    + intros [[[H1 H2] H3] H4]. repeat split; try tauto; try lia.
    + intros [H1 [H2 [H3 [H4 H5]]]]. destruct (H5 HF) as [H5a [H5b H5c]].
      repeat split; try tauto; auto.
Qed.

Theorem wf_b_spec : forall s, wf_b s = true <-> Wf s.
Proof.
  intros s. unfold wf_b, Wf. rewrite !andb_true_iff.
  rewrite wf_counts_spec, wf_ranges_spec, wf_links_spec, wf_face_ptrs_spec, wf_vertex_ptrs_spec,
    wf_triangles_spec, wf_outer_orbit_spec, wf_vertex_orbits_spec, wf_simple_spec, wf_euler_spec.
  tauto.
Qed.

(* ---------------------------------------------------------------- geometric checkers *)
Theorem positions_distinct_spec : forall s pts, positions_distinct s pts = true <-> PositionsDistinct s pts.
Proof.
  intros s pts. unfold positions_distinct, PositionsDistinct, vertex. rewrite all_below_spec. split.
  - intros H i j Hi Hj Hp. specialize (H i Hi). rewrite all_below_spec in H. specialize (H j Hj).
    rewrite orb_true_iff, negb_true_iff, Nat.eqb_eq in H. destruct H as [H | H]; [exact H |].
    apply pnt_eqb_spec in Hp. rewrite Hp in H. discriminate H.
  - intros H i Hi. rewrite all_below_spec. intros j Hj.
    rewrite orb_true_iff, negb_true_iff, Nat.eqb_eq.
    destruct (pnt_eqb (pos pts i) (pos pts j)) eqn:E; [left | right; reflexivity].
    apply pnt_eqb_spec in E. apply H; assumption.
Qed.

Theorem faces_ccw_spec : forall s pts, faces_ccw s pts = true <-> FacesCcw s pts.
Proof.
  intros s pts. unfold faces_ccw, FacesCcw, tri_a, tri_b, tri_c. rewrite forallb_forall. split.
  - intros H f Hf. apply inner_face_ids_spec in Hf. specialize (H f Hf).
    destruct (face_tri s pts f) as [[a b] c]. cbn [fst snd]. apply Z.ltb_lt. exact H.
  - intros H f Hf. apply inner_face_ids_spec in Hf. specialize (H f Hf).
    destruct (face_tri s pts f) as [[a b] c]. cbn [fst snd] in H. apply Z.ltb_lt. exact H.
Qed.

Theorem hull_contains_all_spec : forall s pts, hull_contains_all s pts = true <-> HullContainsAll s pts.
Proof.
  intros s pts. unfold hull_contains_all, HullContainsAll, vertex. rewrite forallb_forall. split.
  - intros H e v He Hv. apply outer_edges_spec in He. specialize (H e He).
    rewrite all_below_spec in H. apply Z.leb_le. apply H. exact Hv.
  - intros H e He. apply outer_edges_spec in He. rewrite all_below_spec. intros v Hv.
    apply Z.leb_le. apply H; assumption.
Qed.

Theorem hull_boundary_vertices_spec : forall s pts,
  hull_boundary_vertices s pts = true <-> HullBoundaryVertices s pts.
Proof.
  intros s pts. unfold hull_boundary_vertices, HullBoundaryVertices, vertex. rewrite forallb_forall. split.
  - intros H e v He Hv Hon. apply outer_edges_spec in He. specialize (H e He).
    rewrite all_below_spec in H. specialize (H v Hv).
    rewrite !orb_true_iff, negb_true_iff, !Nat.eqb_eq in H.
    destruct H as [[H | H] | H]; [rewrite Hon in H; discriminate H | left; exact H | right; exact H].
  - intros H e He. apply outer_edges_spec in He. rewrite all_below_spec. intros v Hv.
    rewrite !orb_true_iff, negb_true_iff, !Nat.eqb_eq.
    destruct (on_segment (eorg s pts e) (edst s pts e) (pos pts v)) eqn:E.
    + destruct (H e v He Hv E) as [H1 | H1]; [left; right; exact H1 | right; exact H1].
    + left; left; reflexivity.
Qed.

Theorem delaunay_b_spec : forall s pts, delaunay_b s pts = true <-> Delaunay s pts.
Proof.
  intros s pts. unfold delaunay_b, Delaunay, tri_a, tri_b, tri_c, vertex. rewrite forallb_forall. split.
  - intros H f v Hf Hv. apply inner_face_ids_spec in Hf. specialize (H f Hf).
    destruct (face_tri s pts f) as [[a b] c]. cbn [fst snd].
    rewrite all_below_spec in H. apply Z.leb_le. apply H. exact Hv.
  - intros H f Hf. apply inner_face_ids_spec in Hf. specialize (H f).
    destruct (face_tri s pts f) as [[a b] c]. cbn [fst snd] in H.
    rewrite all_below_spec. intros v Hv. apply Z.leb_le. apply H; assumption.
Qed.

Lemma locally_delaunay_edge_spec : forall s pts e,
  locally_delaunay_edge s pts e = true <-> LocallyDelaunayEdge s pts e.
Proof.
  intros s pts e. unfold locally_delaunay_edge, LocallyDelaunayEdge.
  rewrite !orb_true_iff, !Nat.eqb_eq, Z.leb_le. split.
  - intros [[H | H] | H] H1 H2; [contradiction | contradiction | exact H].
  - intros H.
    destruct (Nat.eq_dec (face s e) 0) as [H1 | H1]; [left; left; exact H1 |].
    destruct (Nat.eq_dec (face s (rev e)) 0) as [H2 | H2]; [left; right; exact H2 |].
    right. apply H; assumption.
Qed.

Theorem cdtlocal_b_spec : forall s pts, cdtlocal_b s pts = true <-> CDTLocal s pts.
Proof.
  intros s pts. unfold cdtlocal_b, CDTLocal. rewrite all_below_spec. split.
  - intros H e He Hfl. specialize (H e He). rewrite Hfl in H. cbn [orb] in H.
    apply locally_delaunay_edge_spec. exact H.
  - intros H e He. destruct (flag s e) eqn:E; [reflexivity |]. cbn [orb].
    apply locally_delaunay_edge_spec. apply H; assumption.
Qed.

Theorem constraints_noncrossing_spec : forall s pts,
  constraints_noncrossing s pts = true <-> ConstraintsNonCrossing s pts.
Proof.
  intros s pts. unfold constraints_noncrossing, ConstraintsNonCrossing. rewrite all_below_spec. split.
  - intros H e e' He He' Hf Hf'. specialize (H e He). rewrite all_below_spec in H.
    specialize (H e' He'). rewrite Hf, Hf' in H. cbn [andb negb orb] in H.
    apply negb_true_iff. exact H.
  - intros H e He. rewrite all_below_spec. intros e' He'.
    destruct (flag s e) eqn:E; [| reflexivity].
    destruct (flag s e') eqn:E'; [| reflexivity].
    cbn [andb negb orb]. apply negb_true_iff. apply H; assumption.
Qed.

Print Assumptions wf_counts_spec.
Print Assumptions wf_ranges_spec.
Print Assumptions wf_links_spec.
Print Assumptions wf_face_ptrs_spec.
Print Assumptions wf_vertex_ptrs_spec.
Print Assumptions wf_triangles_spec.
Print Assumptions wf_outer_orbit_spec.
Print Assumptions wf_vertex_orbits_spec.
Print Assumptions wf_simple_spec.
Print Assumptions wf_euler_spec.
Print Assumptions wf_b_spec.
Print Assumptions positions_distinct_spec.
Print Assumptions faces_ccw_spec.
Print Assumptions hull_contains_all_spec.
Print Assumptions hull_boundary_vertices_spec.
Print Assumptions delaunay_b_spec.
Print Assumptions cdtlocal_b_spec.
Print Assumptions constraints_noncrossing_spec.
