(* Obs/SpecProp.v -- declarative (Prop) forms of the specifications whose boolean forms are in
   Obs/Spec.v.  The reflection theorems (X_b s = true <-> X s) are in Obs/SpecProofs.v. *)
From Coq Require Import ZArith List Bool Arith.
From SpadeV Require Import Geom.Pred Obs.State Obs.Spec.
Import ListNotations.

Section Topo.
Variable s : obs.

Definition HE (e : nat) : Prop := e < nH s.

Definition WfCounts : Prop :=
  o_nv s = nV s /\ o_ne s * 2 = nH s /\ o_nf s = nF s /\ length (o_flags s) = o_ne s /\ 1 <= nF s.

Definition opt_below (o : option nat) (n : nat) : Prop := forall e, o = Some e -> e < n.

Definition WfRanges : Prop :=
  (forall e, HE e -> next s e < nH s /\ prev s e < nH s /\ face s e < nF s /\ org s e < nV s)
  /\ (forall v, v < nV s -> opt_below (vout s v) (nH s))
  /\ (forall f, f < nF s -> opt_below (adj s f) (nH s)).

Definition WfLinks : Prop :=
  forall e, HE e ->
    prev s (next s e) = e /\ next s (prev s e) = e /\
    face s (next s e) = face s e /\
    org s (next s e) = dest s e /\
    org s e <> dest s e.

Definition WfFacePtrs : Prop :=
  forall f, f < nF s ->
    match adj s f with
    | Some e => face s e = f
    | None => f = 0 /\ nH s = 0
    end.

Definition WfVertexPtrs : Prop :=
  forall v, v < nV s ->
    match vout s v with
    | Some e => org s e = v
    | None => nH s = 0
    end.

Definition WfTriangles : Prop :=
  forall e, HE e -> face s e <> 0 ->
    next s (next s (next s e)) = e /\
    exists a, adj s (face s e) = Some a /\ (e = a \/ e = next s a \/ e = next s (next s a)).

(* every half-edge of the outer face is reached from the outer face's representative edge by
   fewer than (number of outer half-edges) applications of `next` *)
Definition WfOuterOrbit : Prop :=
  match adj s 0 with
  | None => nH s = 0
  | Some a => forall e, HE e -> face s e = 0 ->
      exists k, k < length (outer_edges s) /\ Nat.iter k (next s) a = e
  end.

Definition out_edges_of (v : nat) : list nat := filter (fun e => org s e =? v) (seq 0 (nH s)).

Definition WfVertexOrbits : Prop :=
  forall v, v < nV s -> forall a, vout s v = Some a ->
    forall e, HE e -> org s e = v ->
      exists k, k < length (out_edges_of v) /\ Nat.iter k (ccw s) a = e.

Definition WfSimple : Prop :=
  forall e e', HE e -> HE e' -> org s e = org s e' -> dest s e = dest s e' -> e = e'.

Definition WfEuler : Prop :=
  o_ni s + 1 = nF s /\ (o_line s = true <-> nF s = 1) /\
  o_hs s = length (outer_edges s) /\
  (nF s = 1 -> (nV s <= 1 -> nH s = 0) /\ (1 < nV s -> nH s = 2 * (nV s - 1))) /\
  (nF s <> 1 -> nV s + nF s = o_ne s + 2 /\ length (outer_edges s) + 3 * (nF s - 1) = nH s /\ 3 <= nV s).

Definition Wf : Prop :=
  WfCounts /\ WfRanges /\ WfLinks /\ WfFacePtrs /\ WfVertexPtrs /\ WfTriangles /\
  WfOuterOrbit /\ WfVertexOrbits /\ WfSimple /\ WfEuler.
End Topo.

Section GeoP.
Variable s : obs.
Variable pts : list pnt.
Notation pos := (pos pts).
Notation eorg := (eorg s pts).
Notation edst := (edst s pts).

Definition inner_face (f : nat) : Prop := 1 <= f < nF s.
Definition vertex (v : nat) : Prop := v < nV s.
Definition outer_edge (e : nat) : Prop := e < nH s /\ face s e = 0.

Definition PositionsDistinct : Prop :=
  forall i j, vertex i -> vertex j -> pos i = pos j -> i = j.

Definition tri_a (f : nat) : pnt := fst (fst (face_tri s pts f)).
Definition tri_b (f : nat) : pnt := snd (fst (face_tri s pts f)).
Definition tri_c (f : nat) : pnt := snd (face_tri s pts f).

Definition FacesCcw : Prop :=
  forall f, inner_face f -> (0 < orient (tri_a f) (tri_b f) (tri_c f))%Z.

Definition HullContainsAll : Prop :=
  forall e v, outer_edge e -> vertex v -> (orient (eorg e) (edst e) (pos v) <= 0)%Z.

Definition HullBoundaryVertices : Prop :=
  forall e v, outer_edge e -> vertex v ->
    on_segment (eorg e) (edst e) (pos v) = true -> v = org s e \/ v = dest s e.

(* the empty-circumcircle property (C01) *)
Definition Delaunay : Prop :=
  forall f v, inner_face f -> vertex v -> (incircle (tri_a f) (tri_b f) (tri_c f) (pos v) <= 0)%Z.

Definition LocallyDelaunayEdge (e : nat) : Prop :=
  face s e <> 0 -> face s (rev e) <> 0 ->
  (incircle (eorg e) (edst e) (pos (opposite s e)) (pos (opposite s (rev e))) <= 0)%Z.

(* every free edge with two inner faces is locally Delaunay (C03) *)
Definition CDTLocal : Prop :=
  forall e, e < nH s -> flag s e = false -> LocallyDelaunayEdge e.

Definition ConstraintsNonCrossing : Prop :=
  forall e e', e < nH s -> e' < nH s -> flag s e = true -> flag s e' = true ->
    proper_cross (eorg e) (edst e) (eorg e') (edst e') = false.

End GeoP.
