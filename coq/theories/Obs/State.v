(* Obs/State.v -- the observed state of a triangulation, exactly as read through spade's public
   handle API by the harness: per vertex position bits / payload / out edge, per directed edge
   next / prev / face / origin, per face the adjacent edge, per undirected edge the constraint
   flag, plus the counters the API reports. *)
From Coq Require Import ZArith List Bool Arith.
Import ListNotations.

Record vrec := mkv { v_x : Z; v_y : Z; v_data : Z; v_out : option nat }.
Record hrec := mkh { h_next : nat; h_prev : nat; h_face : nat; h_org : nat }.

Record obs := mkobs {
  o_nv : nat; o_ne : nat; o_nf : nat; o_nc : nat;   (* counters reported by the API *)
  o_hs : nat;                                       (* convex_hull_size() *)
  o_ni : nat;                                       (* num_inner_faces() *)
  o_line : bool;                                    (* all_vertices_on_line() *)
  o_verts : list vrec;
  o_hedges : list hrec;
  o_faces : list (option nat);
  o_flags : list bool;
  o_hull : list nat                                 (* convex_hull() iterator output *)
}.

Definition empty_obs : obs := mkobs 0 0 1 0 0 0 true [] [] [None] [] [].

Definition dflt_h : hrec := mkh 0 0 0 0.
Definition dflt_v : vrec := mkv 0 0 0 None.

Definition nH (s : obs) : nat := length (o_hedges s).
Definition nV (s : obs) : nat := length (o_verts s).
Definition nF (s : obs) : nat := length (o_faces s).

Definition hd_ (s : obs) (e : nat) : hrec := nth e (o_hedges s) dflt_h.
Definition next (s : obs) (e : nat) : nat := h_next (hd_ s e).
Definition prev (s : obs) (e : nat) : nat := h_prev (hd_ s e).
Definition face (s : obs) (e : nat) : nat := h_face (hd_ s e).
Definition org (s : obs) (e : nat) : nat := h_org (hd_ s e).
Definition rev (e : nat) : nat := if Nat.even e then S e else Nat.pred e.
Definition dest (s : obs) (e : nat) : nat := org s (rev e).
Definition adj (s : obs) (f : nat) : option nat := nth f (o_faces s) None.
Definition vout (s : obs) (v : nat) : option nat := v_out (nth v (o_verts s) dflt_v).
Definition flag (s : obs) (e : nat) : bool := nth (Nat.div2 e) (o_flags s) false.
(* spade: ccw = prev.rev, cw = rev.next *)
Definition ccw (s : obs) (e : nat) : nat := rev (prev s e).
Definition cw (s : obs) (e : nat) : nat := next s (rev e).
Definition opposite (s : obs) (e : nat) : nat := org s (prev s e). (* apex of the face left of e *)

Fixpoint iter_n {A} (f : A -> A) (n : nat) (x : A) : list A :=
  match n with O => [] | S n' => x :: iter_n f n' (f x) end.

Definition memb (x : nat) (l : list nat) : bool := existsb (Nat.eqb x) l.
