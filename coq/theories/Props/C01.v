(* Props/C01.v -- Delaunay triangulations satisfy the empty-circumcircle property.
   Full statement: for every reachable state s of a DelaunayTriangulation, Delaunay s (exact coordinates).
   Proved here: (i) the run-time checker is exactly that statement; (ii) the flip decision taken by the legalization
   code is the right one: flipping an edge whose opposite apex is strictly inside the circumcircle yields two
   counter-clockwise faces and a strictly locally Delaunay edge, not flipping is legal otherwise; (iii) the argument order
   in which the source calls robust::incircle is justified.  NOT proved (classical theory, stated in DESIGN.md):
   preservation of local Delaunayhood by whole insert/remove, and local => global (Delaunay lemma); termination of Lawson flipping IS
   proved on the geometric level (iv: every flip lowers the lifted-paraboloid potential by the in-circle determinant); the global
   statement is therefore decided per implementation state by C01_checker_is_spec's checker. *)
From Coq Require Import ZArith List Bool Arith Lia.
From SpadeV Require Import Geom.Pred Geom.Lemmas Geom.Potential Obs.State Obs.Spec Obs.SpecProp Obs.SpecProofs Dcel.Raw Dcel.WfCore Gen.DcelOps Dcel.ProofsFlip Tri.Legalize Tri.LegalizeProofs Tri.LegalizePotential.
Import ListNotations.
Local Open Scope Z_scope.

Theorem C01_checker_is_spec : forall s pts, delaunay_b s pts = true <-> Delaunay s pts.
Proof. exact delaunay_b_spec. Qed.

Theorem C01_flip_yields_ccw_faces : forall a b c d : pnt,
  0 < orient a b c -> 0 < orient b a d -> 0 < incircle a b c d -> 0 < orient a d c /\ 0 < orient d b c.
Proof. exact flip_convex. Qed.

Theorem C01_flipped_edge_is_legal : forall a b c d : pnt,
  0 < incircle a b c d -> incircle d c a b < 0 /\ incircle c d b a < 0.
Proof. exact flip_new_edge_legal. Qed.

Theorem C01_test_is_symmetric : forall a b c d : pnt, incircle b a d c = incircle a b c d.
Proof. exact flip_symmetric. Qed.

Theorem C01_unflipped_edge_is_legal : forall a b c d : pnt, incircle a b c d <= 0 -> incircle b a d c <= 0.
Proof. exact no_flip_legal. Qed.

Theorem C01_incircle_argument_order : forall a b c d : pnt, incircle c b a d = - incircle a b c d.
Proof. exact incircle_reverse. Qed.

(* non-vacuity: a concrete configuration in which the flip is required *)
Example C01_flip_instance :
  let a := (0, 0) in let b := (4, 0) in let c := (2, 1) in let d := (2, -1) in
  0 < orient a b c /\ 0 < orient b a d /\ 0 < incircle a b c d.
Proof. vm_compute. repeat split; reflexivity. Qed.

(* (iv) termination of Lawson flipping, for every point set: a flip taken under the code's condition (apex strictly inside the
   circumcircle) lowers the integer potential  sum over faces of orient(a,b,c) * (|a|^2+|b|^2+|c|^2)  by exactly incircle a b c d >= 1,
   counter-clockwise faces stay counter-clockwise and their potential is never negative; so no flip sequence from a face set l is
   longer than pot l.  (The link of this bound to the executable legalize model is (v) below.) *)
Theorem C01_flip_lowers_potential_by_incircle : forall a b c d : pnt,
  tri_pot (a, d, c) + tri_pot (d, b, c) - (tri_pot (a, b, c) + tri_pot (b, a, d)) = - incircle a b c d.
Proof. exact flip_pot_identity. Qed.

Theorem C01_lawson_flipping_terminates : forall n l l', AllCcw l -> lawson_steps n l l' ->
  AllCcw l' /\ 0 <= pot l' /\ Z.of_nat n <= pot l - pot l' /\ Z.of_nat n <= pot l.
Proof. exact lawson_flips_bounded. Qed.

Example C01_lawson_step_instance :
  let a := (0, 0) in let b := (4, 0) in let c := (2, 1) in let d := (2, -1) in
  lawson_step [(a, b, c); (b, a, d)] [(a, d, c); (d, b, c)] /\ AllCcw [(a, b, c); (b, a, d)]
  /\ pot [(a, b, c); (b, a, d)] - pot [(a, d, c); (d, b, c)] = incircle a b c d.
Proof. exact lawson_step_instance. Qed.
Print Assumptions C01_flip_lowers_potential_by_incircle.
Print Assumptions C01_lawson_flipping_terminates.


Local Close Scope Z_scope.
(* ---- the legalization loop (model of TriangulationExt::legalize_edge over the GENERATED flip_cw; tied to the code by
   index-exact comparison of the whole DCEL after calls of the real legalize_edge, tag `corr`) ---- *)
(* whenever it terminates it leaves a well-formed triangulation whose inner faces are all counter-clockwise, with the same
   vertices, counts, flags and outer face *)
Theorem C01_legalize_preserves_valid_ccw_triangulation : forall pts fuel fully d stack b d' b',
  DWf d -> FacesCcw (obs_of_dcel d) pts -> (forall e, In e stack -> e < length (d_hedges d)) ->
  legalize pts fuel fully d stack b = Some (d', b') ->
     DWf d' /\ FacesCcw (obs_of_dcel d') pts
  /\ Raw.num_vertices d' = Raw.num_vertices d /\ Raw.num_undirected_edges d' = Raw.num_undirected_edges d /\ Raw.num_faces d' = Raw.num_faces d
  /\ d_flags d' = d_flags d
  /\ (forall v, v < Raw.num_vertices d -> let a := nth v (d_verts d') dflt_v in let b0 := nth v (d_verts d) dflt_v in
                v_x a = v_x b0 /\ v_y a = v_y b0 /\ v_data a = v_data b0)
  /\ (forall x, x < length (d_hedges d) -> (e_face d' x = 0 <-> e_face d x = 0)).
Proof. exact legalize_invariant. Qed.


(* (v) the link of the geometric bound to the executable model: the potential of a DCEL state (sum over the half-edges of inner faces,
   = 3 x the potential of its inner face set) drops by exactly 3 * incircle at every flip the model takes, never rises during
   legalize and stays non-negative; hence the model NEVER runs out of fuel once fuel > |stack| + 2 * dcel_pot: legalize_edge
   terminates on every well-formed counter-clockwise state, whatever the point set (no `= Some` hypothesis left). *)
Theorem C01_model_flip_lowers_potential : forall pts d e, ProofsFlip.DW d -> EdgesCcw pts d -> e < length (d_hedges d) ->
  is_flagged d e = false -> inner d e -> inner d (rev e) -> should_flip pts d e = true ->
  (dcel_pot pts (fst (DcelOps.flip_cw d (as_undirected e))) =
   dcel_pot pts d - 3 * incircle (vpos pts (e_origin d e)) (vpos pts (e_to d e)) (vpos pts (apex d e))
                                 (vpos pts (apex d (e_rev e))))%Z.
Proof. exact flip_lowers_dcel_pot_exact. Qed.

Theorem C01_legalize_potential_monotone : forall pts fuel fully d stack b d' b',
  DWf d -> FacesCcw (obs_of_dcel d) pts -> (forall e, In e stack -> e < length (d_hedges d)) ->
  legalize pts fuel fully d stack b = Some (d', b') ->
  (0 <= dcel_pot pts d' <= dcel_pot pts d)%Z.
Proof. exact legalize_pot_monotone_wf. Qed.

Theorem C01_legalize_terminates : forall pts fuel fully d stack b,
  DWf d -> FacesCcw (obs_of_dcel d) pts -> (forall e, In e stack -> e < length (d_hedges d)) ->
  (Z.of_nat (length stack) + 2 * dcel_pot pts d < Z.of_nat fuel)%Z ->
  exists r, legalize pts fuel fully d stack b = Some r.
Proof. exact legalize_terminates_wf. Qed.
Print Assumptions C01_model_flip_lowers_potential.
Print Assumptions C01_legalize_potential_monotone.
Print Assumptions C01_legalize_terminates.

Print Assumptions C01_legalize_preserves_valid_ccw_triangulation.
Print Assumptions C01_checker_is_spec.
Print Assumptions C01_flip_yields_ccw_faces.
Print Assumptions C01_flipped_edge_is_legal.
Print Assumptions C01_unflipped_edge_is_legal.
