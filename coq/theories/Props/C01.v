(* Props/C01.v -- Delaunay triangulations satisfy the empty-circumcircle property.
   Full statement: for every reachable state s of a DelaunayTriangulation, Delaunay s (exact coordinates).
   Proved here: (i) the run-time checker is exactly that statement; (ii) the flip decision taken by the legalization
   code is the right one: flipping an edge whose opposite apex is strictly inside the circumcircle yields two
   counter-clockwise faces and a strictly locally Delaunay edge, not flipping is legal otherwise; (iii) the argument order
   in which the source calls robust::incircle is justified.  NOT proved (classical theory, stated in DESIGN.md):
   preservation of local Delaunayhood by whole insert/remove, and local => global (Delaunay lemma); the global
   statement is therefore decided per implementation state by C01_checker_is_spec's checker. *)
From Coq Require Import ZArith List Bool Arith Lia.
From SpadeV Require Import Geom.Pred Geom.Lemmas Obs.State Obs.Spec Obs.SpecProp Obs.SpecProofs.
Local Open Scope Z_scope.

Theorem C01_checker_is_spec : forall s pts, delaunay_b s pts = true <-> Delaunay s pts.
Proof. exact delaunay_b_spec. Qed.

Theorem C01_flip_yields_ccw_faces : forall a b c d : pnt,
  0 < orient a b c -> 0 < orient b a d -> 0 < incircle a b c d -> 0 < orient a d c /\ 0 < orient d b c.
Proof. exact flip_convex. Qed.

Theorem C01_flipped_edge_is_legal : forall a b c d : pnt,
  0 < incircle a b c d -> incircle d c a b < 0 /\ incircle c d b a < 0.
Proof. exact flip_new_edge_legal. Qed.

Theorem C01_test_is_symmetric : forall a b c d : pnt, incircle b a d c = incircle a b c d.
Proof. exact flip_symmetric. Qed.

Theorem C01_unflipped_edge_is_legal : forall a b c d : pnt, incircle a b c d <= 0 -> incircle b a d c <= 0.
Proof. exact no_flip_legal. Qed.

Theorem C01_incircle_argument_order : forall a b c d : pnt, incircle c b a d = - incircle a b c d.
Proof. exact incircle_reverse. Qed.

(* non-vacuity: a concrete configuration in which the flip is required *)
Example C01_flip_instance :
  let a := (0, 0) in let b := (4, 0) in let c := (2, 1) in let d := (2, -1) in
  0 < orient a b c /\ 0 < orient b a d /\ 0 < incircle a b c d.
Proof. vm_compute. repeat split; reflexivity. Qed.

Print Assumptions C01_checker_is_spec.
Print Assumptions C01_flip_yields_ccw_faces.
Print Assumptions C01_flipped_edge_is_legal.
Print Assumptions C01_unflipped_edge_is_legal.
