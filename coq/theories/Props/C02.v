(* Props/C02.v -- Every reachable state is a valid planar triangulation of the convex hull.
   Proved: the topological checker wf_b is exactly Wf (10 clauses incl. Euler's relation and the documented size formulas),
   the geometric clauses are exactly their statements; (more: per-primitive preservation theorems over the GENERATED
   primitives, Dcel/Proofs*.v, are added to this file as they are completed). *)
From Coq Require Import ZArith List Bool Arith.
From SpadeV Require Import Geom.Pred Obs.State Obs.Spec Obs.SpecProp Obs.SpecProofs.

Theorem C02_wf_checker_is_spec : forall s, wf_b s = true <-> Wf s.
Proof. exact wf_b_spec. Qed.
Theorem C02_faces_ccw_checker_is_spec : forall s pts, faces_ccw s pts = true <-> FacesCcw s pts.
Proof. exact faces_ccw_spec. Qed.
Theorem C02_positions_distinct_checker_is_spec : forall s pts, positions_distinct s pts = true <-> PositionsDistinct s pts.
Proof. exact positions_distinct_spec. Qed.
Theorem C02_hull_contains_all_checker_is_spec : forall s pts, hull_contains_all s pts = true <-> HullContainsAll s pts.
Proof. exact hull_contains_all_spec. Qed.

Print Assumptions C02_wf_checker_is_spec.
Print Assumptions C02_faces_ccw_checker_is_spec.
