(* Props/C02.v -- Every reachable state is a valid planar triangulation of the convex hull.
   Proved: the topological checker wf_b is exactly Wf (10 clauses incl. Euler's relation and the documented size formulas),
   the geometric clauses are exactly their statements; (more: per-primitive preservation theorems over the GENERATED
   primitives, Dcel/Proofs*.v, are added to this file as they are completed). *)
From Coq Require Import ZArith List Bool Arith.
Import ListNotations.
From SpadeV Require Props.C02c.   (* constraint insertion model preserves link-level well-formedness *)
From SpadeV Require Import Geom.Pred Obs.State Obs.Spec Obs.SpecProp Obs.SpecProofs Vmap.Model Dcel.Raw Dcel.WfCore Gen.DcelOps.
From SpadeV Require Dcel.ProofsInsertTriangle Dcel.ProofsSplit Dcel.ProofsFlip Dcel.ProofsHull.
From SpadeV Require Props.C02b.   (* whole insertions: C02_insert_into_face, C02_insert_on_inner_edge, C02_insert_on_hull_edge, C02_insert_outside_hull, C02_insert_existing_position *)

Theorem C02_wf_checker_is_spec : forall s, wf_b s = true <-> Wf s.
Proof. exact wf_b_spec. Qed.
Theorem C02_faces_ccw_checker_is_spec : forall s pts, faces_ccw s pts = true <-> FacesCcw s pts.
Proof. exact faces_ccw_spec. Qed.
Theorem C02_positions_distinct_checker_is_spec : forall s pts, positions_distinct s pts = true <-> PositionsDistinct s pts.
Proof. exact positions_distinct_spec. Qed.
Theorem C02_hull_contains_all_checker_is_spec : forall s pts, hull_contains_all s pts = true <-> HullContainsAll s pts.
Proof. exact hull_contains_all_spec. Qed.

(* ---- the DCEL primitives, GENERATED from dcel_operations.rs (Gen/DcelOps.v), preserve link-level well-formedness ---- *)
Theorem C02_insert_into_triangle : forall d v f0, DWf d -> 1 <= f0 -> f0 < Raw.num_faces d ->
   let r := DcelOps.insert_into_triangle d v f0 in let d' := fst r in
      DWf d'
   /\ snd r = Raw.num_vertices d
   /\ Raw.num_vertices d' = S (Raw.num_vertices d) /\ Raw.num_undirected_edges d' = Raw.num_undirected_edges d + 3
   /\ Raw.num_faces d' = Raw.num_faces d + 2 /\ length (d_hedges d') = length (d_hedges d) + 6
   /\ d_flags d' = d_flags d ++ [false; false; false]
   /\ (forall u, u < Raw.num_vertices d -> let a := nth u (d_verts d') dflt_v in let b := nth u (d_verts d) dflt_v in
                 v_x a = v_x b /\ v_y a = v_y b /\ v_data a = v_data b)
   /\ (let a := nth (Raw.num_vertices d) (d_verts d') dflt_v in v_x a = vd_x v /\ v_y a = vd_y v /\ v_data a = vd_d v)
   /\ (forall x, x < length (d_hedges d) -> (e_face d' x = 0 <-> e_face d x = 0))
   /\ (forall x, length (d_hedges d) <= x -> x < length (d_hedges d') -> e_face d' x <> 0).
Proof. exact ProofsInsertTriangle.insert_into_triangle_wf. Qed.

Theorem C02_split_edge : forall d e v, DWf d -> e < length (d_hedges d) -> inner d e -> inner d (rev e) ->
   let r := DcelOps.split_edge d e v in let d' := fst r in
      DWf d' /\ fst (snd r) = Raw.num_vertices d
   /\ Raw.num_vertices d' = S (Raw.num_vertices d) /\ Raw.num_undirected_edges d' = Raw.num_undirected_edges d + 3
   /\ Raw.num_faces d' = Raw.num_faces d + 2 /\ d_flags d' = d_flags d ++ [false; false; false]
   /\ (forall u, u < Raw.num_vertices d -> let a := nth u (d_verts d') dflt_v in let b := nth u (d_verts d) dflt_v in
                 v_x a = v_x b /\ v_y a = v_y b /\ v_data a = v_data b)
   /\ (forall x, x < length (d_hedges d) -> (e_face d' x = 0 <-> e_face d x = 0))
   /\ (let '(h0, h1) := snd (snd r) in
         (e_origin d' h0 = e_origin d e /\ e_to d' h0 = Raw.num_vertices d /\ e_origin d' h1 = Raw.num_vertices d /\ e_to d' h1 = e_to d e)).
Proof. exact ProofsSplit.split_edge_wf. Qed.

(* flip_cw: needs the two apexes to be different vertices (true for any two faces of a triangulation with distinct
   positions; without it the statement is FALSE -- C02_flip_cw_needs_distinct_apexes exhibits a well-formed DCEL on which
   the flipped edge becomes a loop). *)
Theorem C02_flip_cw : forall d e, DWf d -> e < Raw.num_undirected_edges d ->
  inner d (2 * e) -> inner d (2 * e + 1) ->
  e_origin d (e_prev d (2 * e)) <> e_origin d (e_prev d (2 * e + 1)) ->
  let d' := fst (DcelOps.flip_cw d e) in
     DWf d'
  /\ Raw.num_vertices d' = Raw.num_vertices d /\ Raw.num_undirected_edges d' = Raw.num_undirected_edges d
  /\ Raw.num_faces d' = Raw.num_faces d /\ length (d_hedges d') = length (d_hedges d)
  /\ d_flags d' = d_flags d
  /\ (forall v, v < Raw.num_vertices d -> let a := nth v (d_verts d') dflt_v in let b := nth v (d_verts d) dflt_v in
                v_x a = v_x b /\ v_y a = v_y b /\ v_data a = v_data b)
  /\ (forall x, x < length (d_hedges d) -> (e_face d' x = 0 <-> e_face d x = 0))
  /\ e_origin d' (2 * e) = e_origin d (e_prev d (2 * e)) /\ e_origin d' (2 * e + 1) = e_origin d (e_prev d (2 * e + 1)).
Proof. exact ProofsFlip.flip_cw_wf_partial. Qed.

Theorem C02_flip_cw_needs_distinct_apexes :
  exists d e, DWf d /\ e < Raw.num_undirected_edges d /\ inner d (2 * e) /\ inner d (2 * e + 1) /\
              ~ DWf (fst (DcelOps.flip_cw d e)).
Proof. exact ProofsFlip.flip_cw_wf_counterexample. Qed.

Print Assumptions C02_flip_cw.
Print Assumptions C02_insert_into_triangle.
Print Assumptions C02_split_edge.
Print Assumptions C02_wf_checker_is_spec.
Print Assumptions C02_faces_ccw_checker_is_spec.
