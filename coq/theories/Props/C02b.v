(* Props/C02b.v -- continuation of Props/C02.v: whole insertions.
   Tri/Insert.v is a hand-written model of what spade's insert does after point location (insert_into_face, insert_on_edge incl. hull
   edges and constraint edges, insert_outside_of_convex_hull with its two hull walks, legalize_vertex), written over the GENERATED
   primitives; it reproduces the implementation's DCEL index for index on every generated insertion (tag corr, about 8000 inserts per
   quick run).  For every location whose exact geometric precondition holds -- which is what Props/C09.v proves about the answers of
   the point-location model -- an insertion that terminates turns a well-formed triangulation with counter-clockwise faces into a
   well-formed triangulation with counter-clockwise faces, adds exactly one vertex carrying the given position and data at index =
   old vertex count (or overwrites exactly one record when the position exists), and changes no other vertex.  (C02, C05, C01) *)
From Coq Require Import ZArith List Bool Arith.
Import ListNotations.
From SpadeV Require Import Geom.Pred Obs.State Obs.Spec Obs.SpecProp Vmap.Model Dcel.Raw Dcel.WfCore Gen.DcelOps Tri.Legalize Tri.Insert.
From SpadeV Require Tri.InsertProofs.

Theorem C02_insert_into_face : forall pts fuel d f v d',
  DWf d -> FacesCcw (obs_of_dcel d) pts -> 1 <= f -> f < Raw.num_faces d ->
  (0 < orient (tri_a (obs_of_dcel d) pts f) (tri_b (obs_of_dcel d) pts f) (vpos pts (Raw.num_vertices d)))%Z ->
  (0 < orient (tri_b (obs_of_dcel d) pts f) (tri_c (obs_of_dcel d) pts f) (vpos pts (Raw.num_vertices d)))%Z ->
  (0 < orient (tri_c (obs_of_dcel d) pts f) (tri_a (obs_of_dcel d) pts f) (vpos pts (Raw.num_vertices d)))%Z ->
  insert_2d pts fuel d (IOnFace f) v = Some d' ->
     DWf d' /\ FacesCcw (obs_of_dcel d') pts
  /\ Raw.num_vertices d' = S (Raw.num_vertices d) /\ Raw.num_undirected_edges d' = Raw.num_undirected_edges d + 3
  /\ Raw.num_faces d' = Raw.num_faces d + 2
  /\ d_flags d' = d_flags d ++ [false; false; false]
  /\ (forall u, u < Raw.num_vertices d -> let a := nth u (d_verts d') dflt_v in let b := nth u (d_verts d) dflt_v in
                v_x a = v_x b /\ v_y a = v_y b /\ v_data a = v_data b)
  /\ (let a := nth (Raw.num_vertices d) (d_verts d') dflt_v in v_x a = vd_x v /\ v_y a = vd_y v /\ v_data a = vd_d v)
  /\ (forall x, x < length (d_hedges d) -> (e_face d' x = 0 <-> e_face d x = 0)).
Proof. exact InsertProofs.insert_on_face_invariant. Qed.

Theorem C02_insert_on_inner_edge : forall pts fuel d e v d',
  DWf d -> FacesCcw (obs_of_dcel d) pts -> e < length (d_hedges d) -> inner d e -> inner d (rev e) ->
  strictly_between (vpos pts (e_origin d e)) (vpos pts (e_to d e)) (vpos pts (Raw.num_vertices d)) = true ->
  insert_2d pts fuel d (IOnEdge e) v = Some d' ->
     DWf d' /\ FacesCcw (obs_of_dcel d') pts
  /\ Raw.num_vertices d' = S (Raw.num_vertices d) /\ Raw.num_undirected_edges d' = Raw.num_undirected_edges d + 3
  /\ Raw.num_faces d' = Raw.num_faces d + 2
  /\ d_flags d' = d_flags d ++ (if is_flagged d e then [false; true; false] else [false; false; false])
  /\ (forall u, u < Raw.num_vertices d -> let a := nth u (d_verts d') dflt_v in let b := nth u (d_verts d) dflt_v in
                v_x a = v_x b /\ v_y a = v_y b /\ v_data a = v_data b)
  /\ (let a := nth (Raw.num_vertices d) (d_verts d') dflt_v in v_x a = vd_x v /\ v_y a = vd_y v /\ v_data a = vd_d v)
  /\ (forall x, x < length (d_hedges d) -> (e_face d' x = 0 <-> e_face d x = 0)).
Proof. exact InsertProofs.insert_on_edge_invariant. Qed.

Theorem C02_insert_on_hull_edge : forall pts fuel d e v d',
  DWf d -> FacesCcw (obs_of_dcel d) pts -> e < length (d_hedges d) ->
  (inner d e /\ outer d (rev e)) \/ (outer d e /\ inner d (rev e)) ->
  strictly_between (vpos pts (e_origin d e)) (vpos pts (e_to d e)) (vpos pts (Raw.num_vertices d)) = true ->
  insert_2d pts fuel d (IOnEdge e) v = Some d' ->
     DWf d' /\ FacesCcw (obs_of_dcel d') pts
  /\ Raw.num_vertices d' = S (Raw.num_vertices d) /\ Raw.num_undirected_edges d' = Raw.num_undirected_edges d + 2
  /\ Raw.num_faces d' = Raw.num_faces d + 1
  /\ d_flags d' = d_flags d ++ (if is_flagged d e then [false; true] else [false; false])
  /\ (forall u, u < Raw.num_vertices d -> let a := nth u (d_verts d') dflt_v in let b := nth u (d_verts d) dflt_v in
                v_x a = v_x b /\ v_y a = v_y b /\ v_data a = v_data b)
  /\ (let a := nth (Raw.num_vertices d) (d_verts d') dflt_v in v_x a = vd_x v /\ v_y a = vd_y v /\ v_data a = vd_d v)
  /\ (forall x, x < length (d_hedges d) -> (e_face d' x = 0 <-> e_face d x = 0)).
Proof. exact InsertProofs.insert_on_edge_hull_invariant. Qed.

Theorem C02_insert_outside_hull : forall pts fuel d e v d',
  DWf d -> FacesCcw (obs_of_dcel d) pts -> e < length (d_hedges d) -> outer d e ->
  left_of pts d e (vpos pts (Raw.num_vertices d)) = true ->
  insert_2d pts fuel d (IOutside e) v = Some d' ->
     DWf d' /\ FacesCcw (obs_of_dcel d') pts
  /\ Raw.num_vertices d' = S (Raw.num_vertices d)
  /\ (exists k, Raw.num_undirected_edges d' = Raw.num_undirected_edges d + 2 + k /\
                Raw.num_faces d' = Raw.num_faces d + 1 + k /\
                d_flags d' = d_flags d ++ repeat false (2 + k))
  /\ (forall u, u < Raw.num_vertices d -> let a := nth u (d_verts d') dflt_v in let b := nth u (d_verts d) dflt_v in
                v_x a = v_x b /\ v_y a = v_y b /\ v_data a = v_data b)
  /\ (let a := nth (Raw.num_vertices d) (d_verts d') dflt_v in v_x a = vd_x v /\ v_y a = vd_y v /\ v_data a = vd_d v)
  /\ (forall x, x < length (d_hedges d) -> e_face d x <> 0 -> e_face d' x <> 0).
Proof. exact InsertProofs.insert_outside_invariant. Qed.

Theorem C02_insert_existing_position : forall pts fuel d u v d',
  DWf d -> u < Raw.num_vertices d ->
  insert_2d pts fuel d (IOnVertex u) v = Some d' ->
     DWf d'
  /\ (FacesCcw (obs_of_dcel d) pts -> FacesCcw (obs_of_dcel d') pts)
  /\ d_hedges d' = d_hedges d /\ d_faces d' = d_faces d /\ d_flags d' = d_flags d
  /\ Raw.num_vertices d' = Raw.num_vertices d
  /\ nth u (d_verts d') dflt_v = mkv (vd_x v) (vd_y v) (vd_d v) (v_out_edge d u)
  /\ (forall w, w <> u -> nth w (d_verts d') dflt_v = nth w (d_verts d) dflt_v).
Proof. exact InsertProofs.insert_on_vertex_invariant. Qed.

Print Assumptions C02_insert_into_face.
Print Assumptions C02_insert_on_inner_edge.
Print Assumptions C02_insert_on_hull_edge.
Print Assumptions C02_insert_outside_hull.
Print Assumptions C02_insert_existing_position.
