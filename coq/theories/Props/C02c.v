(* Props/C02c.v -- C02 for the executable model of constraint insertion (Tri/AddConstraint.v): every accepted add_constraint between two
   vertices of a link-level well-formed triangulation with counter-clockwise faces preserves link-level well-formedness, through any
   number of conflict regions (edge rotations, temporary border flags, legalization of the region).  `exact` restatement only. *)
From Coq Require Import List Arith.
From SpadeV Require Import Geom.Pred Obs.LineSpec Dcel.Raw Dcel.WfCore Tri.Legalize Tri.LegalizeProofs Tri.LineIter
  Tri.AddConstraint Tri.AddConstraintProofs Tri.AddConstraintRegionProofs Tri.AddConstraintIterProofs Tri.AddConstraintChainProofs.

Theorem C02_add_constraint_preserves_wf : forall pts fuel d va vb items d' nc edges,
  DWf d -> EdgesCcw pts d ->
  (forall e, e < length (d_hedges d) -> vpos pts (e_origin d e) <> vpos pts (e_to d e)) ->
  va < length (d_verts d) ->
  line_iter_handles pts fuel d va vb = Some items ->
  try_add_constraint_inner pts fuel d va vb = Some (Added d' nc edges) -> DWf d'.
Proof. exact add_constraint_DWf. Qed.
Print Assumptions C02_add_constraint_preserves_wf.
