(* Props/C03.v -- CDTs stay constrained Delaunay: every free edge is locally Delaunay.
   Proved: the checker is the statement; the flip lemmas shared with C01.  Not proved: preservation by the CDT operations. *)
From Coq Require Import ZArith List Bool Arith.
From SpadeV Require Import Geom.Pred Geom.Lemmas Obs.State Obs.Spec Obs.SpecProp Obs.SpecProofs.

Theorem C03_checker_is_spec : forall s pts, cdtlocal_b s pts = true <-> CDTLocal s pts.
Proof. exact cdtlocal_b_spec. Qed.

(* with no constraint flags set, CDTLocal says every edge with two inner faces is locally Delaunay *)
Theorem C03_no_constraints : forall s pts,
  (forall e, e < nH s -> flag s e = false) -> CDTLocal s pts -> forall e, e < nH s -> LocallyDelaunayEdge s pts e.
Proof. intros s pts Hf H e He. apply H; [exact He | apply Hf; exact He]. Qed.

Print Assumptions C03_checker_is_spec.
Print Assumptions C03_no_constraints.
