(* Props/C03.v -- CDTs stay constrained Delaunay: every free edge is locally Delaunay.
   Proved: the checker is the statement; the flip lemmas shared with C01.  Not proved: preservation by the CDT operations. *)
From Coq Require Import ZArith List Bool Arith.
From SpadeV Require Import Geom.Pred Geom.Lemmas Obs.State Obs.Spec Obs.SpecProp Obs.SpecProofs Dcel.Raw Dcel.WfCore Gen.DcelOps Tri.Legalize Tri.LegalizeProofs Tri.LegalizePotential.

Theorem C03_checker_is_spec : forall s pts, cdtlocal_b s pts = true <-> CDTLocal s pts.
Proof. exact cdtlocal_b_spec. Qed.

(* with no constraint flags set, CDTLocal says every edge with two inner faces is locally Delaunay *)
Theorem C03_no_constraints : forall s pts,
  (forall e, e < nH s -> flag s e = false) -> CDTLocal s pts -> forall e, e < nH s -> LocallyDelaunayEdge s pts e.
Proof. intros s pts Hf H e He. apply H; [exact He | apply Hf; exact He]. Qed.

(* the legalization loop never flips a constraint edge and never changes a flag (model of legalize_edge, see Props/C01.v) *)
Theorem C03_legalize_respects_constraints : forall pts fuel fully d stack b d' b',
  DWf d -> FacesCcw (obs_of_dcel d) pts -> (forall e, In e stack -> e < length (d_hedges d)) ->
  legalize pts fuel fully d stack b = Some (d', b') ->
  d_flags d' = d_flags d /\
  forall k, k < Raw.num_undirected_edges d -> nth k (d_flags d) false = true ->
    e_origin d' (2 * k) = e_origin d (2 * k) /\ e_origin d' (2 * k + 1) = e_origin d (2 * k + 1).
Proof. exact legalize_never_flips_constraints. Qed.

(* CDT legalization is total: with fuel above |stack| + 2 * dcel_pot (the lifted-paraboloid potential of the state, Tri/LegalizePotential.v)
   the model returns, keeps every flag, moves no constraint edge and does not raise the potential *)
Theorem C03_legalize_total_and_respects_constraints : forall pts fuel fully d stack b,
  DWf d -> FacesCcw (obs_of_dcel d) pts -> (forall e, In e stack -> e < length (d_hedges d)) ->
  (Z.of_nat (length stack) + 2 * dcel_pot pts d < Z.of_nat fuel)%Z ->
  exists d' b', legalize pts fuel fully d stack b = Some (d', b') /\
    d_flags d' = d_flags d /\
    (forall k, k < Raw.num_undirected_edges d -> nth k (d_flags d) false = true ->
       e_origin d' (2 * k) = e_origin d (2 * k) /\ e_origin d' (2 * k + 1) = e_origin d (2 * k + 1)) /\
    (0 <= dcel_pot pts d' <= dcel_pot pts d)%Z.
Proof. exact legalize_total_respects_constraints. Qed.
Print Assumptions C03_legalize_total_and_respects_constraints.

(* an edge is flipped only if it is free, has two inner faces and the opposite apex lies strictly inside the circumcircle *)
Check legalize_flip_only_if_illegal.

Print Assumptions C03_legalize_respects_constraints.
Print Assumptions C03_checker_is_spec.
Print Assumptions C03_no_constraints.
