(* Props/C04.v -- The set of constraint edges is exactly what the caller asked for (partial: counting and non-crossing). *)
From Coq Require Import ZArith List Bool Arith.
From SpadeV Require Props.C04b.   (* constraint insertion model: refused additions change nothing, frame, new flags only on the segment *)
From SpadeV Require Import Geom.Pred Geom.Lemmas Obs.State Obs.Spec Obs.SpecProp Obs.SpecProofs.
From SpadeV Require Cdt.SegSpec Cdt.SegSpecProofs.

Theorem C04_noncrossing_checker_is_spec : forall s pts,
  constraints_noncrossing s pts = true <-> ConstraintsNonCrossing s pts.
Proof. exact constraints_noncrossing_spec. Qed.

Theorem C04_ncons_checker : forall s, ncons_ok s = true <-> o_nc s = count_flags s.
Proof. intros s. unfold ncons_ok. apply Nat.eqb_eq. Qed.

Theorem C04_crossing_is_symmetric : forall a b c d : pnt, proper_cross a b c d = proper_cross c d a b.
Proof. exact proper_cross_sym. Qed.

(* the independent set-of-segments model stays non-crossing for every history; a refused addition changes nothing *)
Theorem C04_model_noncrossing_reachable : forall ops, SegSpecProofs.NonCrossing (fold_left SegSpecProofs.sstep ops nil).
Proof. exact SegSpecProofs.noncrossing_reachable. Qed.
Theorem C04_refused_addition_changes_nothing : forall verts r a b, SegSpec.blocked r a b = true -> SegSpec.add_constraint verts r a b = r.
Proof. exact SegSpecProofs.add_constraint_refused. Qed.
Print Assumptions C04_model_noncrossing_reachable.
Print Assumptions C04_noncrossing_checker_is_spec.
Print Assumptions C04_ncons_checker.
