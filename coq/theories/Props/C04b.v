(* Props/C04b.v -- C04 for the executable model of constraint insertion (Tri/AddConstraint.v, tied to cdt.rs by index-exact
   correspondence on every add_constraint / try_add_constraint / can_add_constraint / add_constraint_edge call, Check/RunModel.v).
   Only `exact` restatements of theorems proved in Tri/AddConstraint*Proofs.v. *)
From Coq Require Import List Arith.
From SpadeV Require Import Geom.Pred Obs.LineSpec Obs.Query Dcel.Raw Dcel.WfCore Dcel.ProofsFlip Tri.Legalize Tri.LegalizeProofs Tri.LineIter Tri.RemoveProofs
  Tri.AddConstraint Tri.AddConstraintProofs Tri.AddConstraintRegionProofs Tri.AddConstraintIterProofs Tri.AddConstraintChainProofs Tri.AddConstraintFlagsProofs.

(* a refused addition (the segment crosses a constraint) returns exactly the input state and no edges *)
Theorem C04_model_refused_addition_changes_nothing : forall pts fuel d va vb,
  try_add_constraint_inner pts fuel d va vb = Some Refused ->
  add_constraint pts fuel d va vb = Some (d, nil) /\ add_constraint_bool pts fuel d va vb = None.
Proof. exact add_constraint_refused_unchanged. Qed.
Print Assumptions C04_model_refused_addition_changes_nothing.

(* refused exactly when can_add_constraint answers false *)
Theorem C04_model_refused_iff_cannot_add : forall pts fuel d va vb,
  try_add_constraint_inner pts fuel d va vb = Some Refused <-> can_add_constraint pts fuel d va vb = Some false.
Proof. exact refused_iff_cannot_add. Qed.
Print Assumptions C04_model_refused_iff_cannot_add.

(* an accepted addition never touches the vertex table nor any table length, and never clears a flag *)
Theorem C04_model_frame : forall pts fuel d va vb d' nc edges,
  try_add_constraint_inner pts fuel d va vb = Some (Added d' nc edges) -> Keep d d'.
Proof. exact add_constraint_Keep. Qed.
Print Assumptions C04_model_frame.

Theorem C04_model_flags_monotone : forall pts fuel d va vb d' nc edges,
  try_add_constraint_inner pts fuel d va vb = Some (Added d' nc edges) -> forall u, fl d u = true -> fl d' u = true.
Proof. exact add_constraint_flags_monotone. Qed.
Print Assumptions C04_model_flags_monotone.

(* every newly flagged edge has both end points on the closed segment va-vb: nothing the caller did not ask for becomes a constraint *)
Theorem C04_model_new_flags_on_segment : forall pts fuel d va vb items d' nc edges,
  DW d -> EdgesCcw pts d ->
  (forall e, e < length (d_hedges d) -> vpos pts (e_origin d e) <> vpos pts (e_to d e)) ->
  va < length (d_verts d) ->
  line_iter_handles pts fuel d va vb = Some items ->
  (forall e, last items (IV va) <> IO e) ->
  try_add_constraint_inner pts fuel d va vb = Some (Added d' nc edges) ->
  forall u, fl d' u = true ->
    fl d u = true \/
    exists x, x < length (d_hedges d) /\ as_undirected x = u /\
      on_seg (vpos pts va) (vpos pts vb) (vpos pts (e_origin d' x)) = true /\
      on_seg (vpos pts va) (vpos pts vb) (vpos pts (e_to d' x)) = true.
Proof. exact add_constraint_flags_on_segment. Qed.
Print Assumptions C04_model_new_flags_on_segment.
