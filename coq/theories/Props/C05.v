(* Props/C05.v -- Vertex set, vertex data and handles follow the documented map semantics.
   Model: Vmap/Model.v (vertex array in index order; insert = overwrite-in-place | push; remove = swap_remove).
   The tie to the implementation is the index-exact comparison of the whole vertex array and of every returned
   handle / payload after each operation (tag `vmap` of the checker), for DT/CDT, all hint generators, all states. *)
From Coq Require Import ZArith List Bool Arith.
From SpadeV Require Import Num.Decode Vmap.Model Vmap.Proofs.
Import ListNotations.

(* inserting a new position adds exactly one vertex at index = old length and changes no existing handle or payload *)
Theorem C05_insert_fresh : forall st k d, find_key k st = None ->
     vm_insert st k d = (st ++ [(k, d)], length st)
  /\ (forall i, i < length st -> nth_error (fst (vm_insert st k d)) i = nth_error st i)
  /\ length (fst (vm_insert st k d)) = S (length st).
Proof. exact vm_insert_fresh. Qed.

(* inserting an existing position overwrites exactly that vertex' data and returns its existing handle *)
Theorem C05_insert_existing : forall st k d i, find_key k st = Some i ->
     snd (vm_insert st k d) = i
  /\ nth_error (fst (vm_insert st k d)) i = Some (k, d)
  /\ (forall j, j <> i -> nth_error (fst (vm_insert st k d)) j = nth_error st j)
  /\ length (fst (vm_insert st k d)) = length st.
Proof. exact vm_insert_existing. Qed.

(* remove returns the stored data, deletes exactly that vertex; only the highest index moves, into the freed slot *)
Theorem C05_remove : forall st i x, nth_error st i = Some x ->
     exists st', vm_remove st i = Some (st', x)
  /\ length st' = length st - 1
  /\ (forall j, j < length st - 1 -> j <> i -> nth_error st' j = nth_error st j)
  /\ (i < length st - 1 -> nth_error st' i = nth_error st (length st - 1)).
Proof. exact vm_remove_spec. Qed.

(* positions stay pairwise distinct in every reachable state, for every history *)
Theorem C05_unique_reachable : forall ops, Unique (fold_left vstep ops []).
Proof. exact unique_reachable. Qed.

(* refinement to the abstract map position -> data *)
Theorem C05_refines_insert : forall st k d, Unique st ->
  forall k', vm_lookup (fst (vm_insert st k d)) k' = m_insert (vm_lookup st) k d k'.
Proof. intros st k d H. exact (lookup_insert st k d H). Qed.

Theorem C05_refines_remove : forall st i k d st', Unique st -> nth_error st i = Some (k, d) ->
  vm_remove st i = Some (st', (k, d)) -> forall k', vm_lookup st' k' = m_remove (vm_lookup st) k k'.
Proof. intros st i k d st' H1 H2 H3. exact (lookup_remove st i k d st' H1 H2 H3). Qed.

Print Assumptions C05_insert_fresh.
Print Assumptions C05_insert_existing.
Print Assumptions C05_remove.
Print Assumptions C05_unique_reachable.
Print Assumptions C05_refines_insert.
Print Assumptions C05_refines_remove.
