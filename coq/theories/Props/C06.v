(* Props/C06.v -- Geometric decisions are exact for every representable input.
   side_query, is_ordered_ccw, contained_in_circumference and the LineSideInfo methods are GENERATED from math.rs /
   line_side_info.rs (Gen/Math.v).  robust::orient2d / robust::incircle live outside the repository: they are Section
   variables, assumed (Horient / Hincircle) to return a finite value with the sign of the exact determinant of the stored
   coordinates -- Shewchuk's guarantee, recorded in the trusted base and exercised on every run by the differential
   checks (tags sidequery, delaunay, locate).  Under these two hypotheses: *)
From Coq Require Import ZArith Reals Bool.
From Flocq Require Import Core.Core IEEE754.BinarySingleNaN.
From SpadeV Require Import Num.F64 Gen.Prelude Gen.Math Num.Decode Geom.Pred Num.PredSpec.
Local Open Scope R_scope.

Section C06.
Variable ro : pt -> pt -> pt -> F.
Variable ri : pt -> pt -> pt -> pt -> F.
Hypothesis Horient : forall a b c, is_finite (ro a b c) = true /\ Rcompare (B2R (ro a b c)) 0 = Rcompare (orientR a b c) 0.
Hypothesis Hincircle : forall a b c d, is_finite (ri a b c d) = true /\ Rcompare (B2R (ri a b c d)) 0 = Rcompare (incircleR a b c d) 0.

(* a point is reported left / right / on the line exactly when it is, in exact real arithmetic on the stored coordinates *)
Theorem C06_left : forall p1 p2 q, is_on_left_side (side_query ro p1 p2 q) = true <-> orientR p1 p2 q > 0.
Proof. exact (side_query_left ro Horient). Qed.
Theorem C06_right : forall p1 p2 q, is_on_right_side (side_query ro p1 p2 q) = true <-> orientR p1 p2 q < 0.
Proof. exact (side_query_right ro Horient). Qed.
Theorem C06_on_line_only_if_collinear : forall p1 p2 q, is_on_line (side_query ro p1 p2 q) = true <-> orientR p1 p2 q = 0.
Proof. exact (side_query_on_line ro Horient). Qed.
Theorem C06_is_ordered_ccw : forall p1 p2 q, is_ordered_ccw ro p1 p2 q = true <-> orientR p1 p2 q >= 0.
Proof. exact (is_ordered_ccw_spec ro Horient). Qed.
(* the in-circle wrapper (called with reversed argument order in the source) decides the exact in-circle determinant *)
Theorem C06_in_circle : forall v1 v2 v3 p, contained_in_circumference ri v1 v2 v3 p = true <-> incircleR v1 v2 v3 p > 0.
Proof. exact (contained_in_circumference_spec ri Hincircle). Qed.
End C06.

(* the integer determinants evaluated by the run-time checker have the sign of the exact real determinants *)
Check orient_scale_sign.
Check incircle_scale_sign.
Check stored_orient_sign.
Check stored_incircle_sign.

Print Assumptions C06_on_line_only_if_collinear.
Print Assumptions C06_in_circle.
Print Assumptions stored_orient_sign.
Print Assumptions stored_incircle_sign.
