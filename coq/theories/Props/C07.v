(* Props/C07.v -- Every public operation on valid arguments terminates without panicking.
   Proved (for every well-formed DCEL, any size): the circular iterators -- convex_hull(), VertexHandle::out_edges(),
   VoronoiFace::adjacent_edges() -- terminate within the number of half-edges and yield no element twice (they enumerate
   exactly one orbit of a permutation).  The generated DCEL primitives perform no out-of-range access under their
   preconditions (they preserve DWf, Props/C02.v).  NOT proved: termination of the geometric walks (locate's loop counter,
   Lawson flipping, hull walks, flood fill, refine); these are observed under a watchdog on every generated case. *)
From Coq Require Import List Arith Bool.
From SpadeV Require Import Obs.State Obs.Spec Obs.SpecProp Query.Hull Query.HullProofs.
Import ListNotations.

Theorem C07_hull_iterator_terminates : forall s, Wf s -> exists l, hull_iter s = Some l /\ NoDup l
  /\ (forall e, In e l <-> (e < nH s /\ face s e = 0)).
Proof.
  intros s H. destruct (hull_iter_spec s H) as (l & H1 & H2 & H3 & _). exists l. auto.
Qed.

Theorem C07_out_edges_iterator_terminates : forall s v, Wf s -> v < nV s ->
  exists l, out_edges_iter s v = Some l /\ NoDup l /\ (forall e, In e l <-> (e < nH s /\ org s e = v)).
Proof. exact out_edges_iter_spec. Qed.

Print Assumptions C07_hull_iterator_terminates.
Print Assumptions C07_out_edges_iterator_terminates.
