(* Props/C08.v -- Invalid coordinates are rejected exactly and leave the triangulation untouched.
   Only statements + `exact` + Print Assumptions.  The functions validate_coordinate, validate_vertex,
   mitigate_underflow_for_coordinate and the two limits are GENERATED from src/delaunay_core/math.rs. *)
From Coq Require Import ZArith Reals Bool.
From Flocq Require Import Core.Core IEEE754.BinarySingleNaN.
From SpadeV Require Import Num.F64 Gen.Prelude Gen.Math Num.Validate Num.ValidSpec Num.ValidSpecProofs.
Local Open Scope R_scope.

(* the limits are exactly 2^-142 and 2^201 *)
Theorem C08_min_limit : B2R MIN_ALLOWED_VALUE = bpow radix2 (-142).
Proof. exact MIN_is_2_pow_m142. Qed.
Theorem C08_max_limit : B2R MAX_ALLOWED_VALUE = bpow radix2 201.
Proof. exact MAX_is_2_pow_201. Qed.

(* accepted iff finite and (zero or 2^-142 <= |x| <= 2^201), for every binary64 value *)
Theorem C08_accept_iff : forall x : F,
  validate_coordinate x = Ok tt <->
  (is_finite x = true /\ (B2R x = 0 \/ bpow radix2 (-142) <= Rabs (B2R x) <= bpow radix2 201)).
Proof. exact validate_coordinate_ok_iff. Qed.

Theorem C08_nan_iff : forall x : F, validate_coordinate x = Err NAN <-> is_nan x = true.
Proof. exact validate_coordinate_nan_iff. Qed.

Theorem C08_too_small_iff : forall x : F,
  validate_coordinate x = Err TooSmall <-> (is_finite x = true /\ 0 < Rabs (B2R x) < bpow radix2 (-142)).
Proof. exact validate_coordinate_too_small_iff. Qed.

Theorem C08_too_large_iff : forall x : F,
  validate_coordinate x = Err TooLarge <->
  (is_nan x = false /\ (is_finite x = false \/ bpow radix2 201 < Rabs (B2R x))).
Proof. exact validate_coordinate_too_large_iff. Qed.

(* a vertex fails with the error of its x coordinate first, then y *)
Theorem C08_vertex_order : forall v : pt,
  validate_vertex v = match classify (px v) with Err e => Err e | Ok _ => classify (py v) end.
Proof. exact validate_vertex_spec. Qed.

(* mitigate_underflow can never fail with TooSmall *)
Theorem C08_mitigate_never_too_small : forall x : F,
  validate_coordinate (mitigate_underflow_for_coordinate x) <> Err TooSmall.
Proof. exact mitigate_never_too_small. Qed.

(* the oracle used by the run-time checker is the same function *)
Theorem C08_oracle_is_code : forall x : F, validate_coordinate x = classify_c x.
Proof. exact validate_coordinate_computable. Qed.
Theorem C08_vertex_oracle_is_code : forall v : pt, validate_vertex v = validate_vertex_c (px v) (py v).
Proof. exact validate_vertex_computable. Qed.

(* non-vacuity: concrete values in each class *)
Example C08_ex_ok : validate_coordinate (f_of_bits 4607182418800017408) = Ok tt. (* 1.0 *)
Proof. rewrite validate_coordinate_computable. vm_compute. reflexivity. Qed.
Example C08_ex_small : validate_coordinate (f_of_bits 1) = Err TooSmall.      (* least subnormal *)
Proof. rewrite validate_coordinate_computable. vm_compute. reflexivity. Qed.
Example C08_ex_large : validate_coordinate (f_of_bits 9218868437227405312) = Err TooLarge. (* +inf *)
Proof. rewrite validate_coordinate_computable. vm_compute. reflexivity. Qed.

Print Assumptions C08_accept_iff.
Print Assumptions C08_nan_iff.
Print Assumptions C08_too_small_iff.
Print Assumptions C08_too_large_iff.
Print Assumptions C08_vertex_order.
Print Assumptions C08_mitigate_never_too_small.
Print Assumptions C08_oracle_is_code.
Print Assumptions C08_vertex_oracle_is_code.
Print Assumptions C08_min_limit.
Print Assumptions C08_max_limit.
