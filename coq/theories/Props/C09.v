(* Props/C09.v -- Point location returns the element that really contains the query point.
   Proved: the decision applied to every answer of the implementation (locspec_b) is exactly the declarative LocSpec:
   OnVertex = equal position, OnEdge = relative interior, OnFace = strictly inside the ccw face, OutsideOfConvexHull = strictly on
   the outer side of an outer half-edge (collinear vertex sets: or on the supporting line beyond the chain), NoTriangulation = fewer
   than two vertices and no vertex at the point.  Because these cases are mutually exclusive on a valid triangulation, verifying
   the returned element decides the "exactly when" clauses.  Soundness/completeness of the walk itself is not proved; it is
   decided per query for every hint (including stale and out-of-range hints) and every hint generator. *)
From Coq Require Import ZArith List Bool Arith.
From SpadeV Require Import Geom.Pred Obs.State Obs.Spec Obs.SpecProp Obs.Query Obs.QueryProp Obs.QueryProofs.

Theorem C09_checker_is_spec : forall s pts q r, locspec_b s pts q r = true <-> LocSpec s pts q r.
Proof. exact locspec_b_spec. Qed.

Print Assumptions C09_checker_is_spec.
