(* Props/C09.v -- Point location returns the element that really contains the query point.
   Proved: the decision applied to every answer of the implementation (locspec_b) is exactly the declarative LocSpec:
   OnVertex = equal position, OnEdge = relative interior, OnFace = strictly inside the ccw face, OutsideOfConvexHull = strictly on
   the outer side of an outer half-edge (collinear vertex sets: or on the supporting line beyond the chain), NoTriangulation = fewer
   than two vertices and no vertex at the point.  Because these cases are mutually exclusive on a valid triangulation, verifying
   the returned element decides the "exactly when" clauses.  Soundness/completeness of the walk itself is not proved; it is
   decided per query for every hint (including stale and out-of-range hints) and every hint generator. *)
From Coq Require Import ZArith List Bool Arith.
From SpadeV Require Import Geom.Pred Obs.State Obs.Spec Obs.SpecProp Obs.Query Obs.QueryProp Obs.QueryProofs Dcel.Raw Dcel.WfCore Tri.Locate Tri.LocateProofs.

Theorem C09_checker_is_spec : forall s pts q r, locspec_b s pts q r = true <-> LocSpec s pts q r.
Proof. exact locspec_b_spec. Qed.

(* ---- SOUNDNESS of the walk: a model of walk_to_nearest_neighbor + the rotation loop of locate_with_hint_fixed_core (Tri/Locate.v; tied to the
   code by element-for-element comparison of its answers with the implementation's, tag corr).  On every well-formed DCEL whose inner faces are
   counter-clockwise, for every query point, every hint and every amount of fuel, whatever the model returns satisfies LocSpec:
   OnVertex only at an equal position, OnEdge only strictly between the end points, OnFace only strictly inside, OutsideOfConvexHull only
   strictly left of an outer half-edge.  (RPanic = the code's own loop counter ran out; completeness/termination of the loop is not proved.) ---- *)
Theorem C09_locate_sound : forall pts d q hint r,
  DWf d -> FacesCcw (obs_of_dcel d) pts ->
  locate_with_hint pts d q hint = r -> r <> RPanic ->
  LocSpec (obs_of_dcel d) pts q (lres_to_locres r).
Proof. exact locate_result_matches_LocSpec. Qed.

(* the answer does not depend on the hint being valid: any number is accepted (validate_vertex_handle) -- the statement above quantifies over all hints *)

Print Assumptions C09_locate_sound.
Print Assumptions C09_checker_is_spec.
