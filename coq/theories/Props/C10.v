(* Props/C10.v -- Bulk loading is equivalent to incremental insertion.
   The circle sweep of bulk_load.rs is NOT modelled (sorting by rounded distances, pseudo-angle buckets).  Decided per input: the
   result of each loader is compared with an incremental construction by the implementation (same constraint set; same edge set
   when the (constrained) Delaunay triangulation is unique) and must satisfy all state invariants (Props/C01-C04).  Proved here:
   the list-level decisions used for "exactly one vertex per distinct position" and "order-preserving subsequence" are exactly
   their declarative statements; the verdict `bulk_equiv` (one vertex per distinct input position, every vertex carries the payload of
   an input element at its position) and the verdict `bulk_edges` (same constraint edges as the incremental construction, same edges
   when unique) are their declarative statements (Obs/RemoveProp.v, Obs/RemoveProofs.v). *)
From Coq Require Import ZArith List Bool Arith.
From SpadeV Require Import Num.Decode Geom.Pred Obs.State Obs.Spec Vmap.Model Check.Codes Check.Run Cdt.SegSpecProofs Obs.RemoveProp Obs.RemoveProofs.
Import ListNotations.

Theorem C10_stable_order_is_subsequence : forall a b, is_subseq a b = true <-> Subseq a b.
Proof. exact is_subseq_spec. Qed.
Theorem C10_one_vertex_per_position : forall l, nodup_keys l = true <-> NoDup l.
Proof. exact nodup_keys_spec. Qed.
Theorem C10_same_position_set : forall a b, same_key_set a b = true <-> (forall k, In k a <-> In k b).
Proof. exact same_key_set_spec. Qed.

(* the verdict `bulk_equiv` *)
Theorem C10_bulk_equiv_verdict : forall kof ts ks vn, bulk_equiv_verdict kof ts ks vn = true <-> BulkEquivOk kof ts ks vn.
Proof. exact bulk_equiv_verdict_spec. Qed.

(* the verdict `bulk_edges`: comparison with the incremental construction *)
Theorem C10_edge_sets_equal : forall a b, pairs_same a b = true <-> SameUPairs a b.
Proof. exact pairs_same_sets. Qed.
Theorem C10_reference_verdict : forall n pts res rcs, ref_verdict n pts res rcs = true <-> RefOk n pts res rcs.
Proof. exact ref_verdict_spec. Qed.

(* check_bulk / check_ref of Check/Run.v report these verdicts.  (Their statements mention key_of / obs_points, i.e. the binary64
   decoding through Flocq, hence the four Flocq/Reals axioms in their assumptions.) *)
Theorem C10_check_bulk_reports_bulk_equiv : forall p n stable cnt rest r0 rt ks vn,
  let ts := triples (firstn (3 * Z.to_nat cnt) rest) in
  (r0 =? K_err)%Z = false -> keys_of_triples ts = Some ks -> vstate_of (o_verts n) = Some vn ->
  check_bulk p n stable (cnt :: rest) (r0 :: rt) =
  (T_validate, (fst (first_invalid ts) =? K_ok)%Z)
  :: (T_bulk_equiv, bulk_equiv_verdict key_of ts ks vn)
  :: (if stable then [(T_bulk_stable, is_subseq (map fst vn) ks)] else []).
Proof. exact check_bulk_unfold. Qed.
Theorem C10_check_ref_is_ref_verdict : forall t n a res rcs pts,
  parse_ref a = Some (res, rcs) -> obs_points n = Some pts ->
  check_ref t n (Some a) = [(t, ref_verdict n pts res rcs)].
Proof. exact check_ref_unfold. Qed.

Print Assumptions C10_stable_order_is_subsequence.
Print Assumptions C10_one_vertex_per_position.
Print Assumptions C10_same_position_set.
Print Assumptions C10_bulk_equiv_verdict.
Print Assumptions C10_edge_sets_equal.
Print Assumptions C10_reference_verdict.
Print Assumptions C10_check_bulk_reports_bulk_equiv.
Print Assumptions C10_check_ref_is_ref_verdict.
