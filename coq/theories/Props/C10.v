(* Props/C10.v -- Bulk loading is equivalent to incremental insertion.
   The circle sweep of bulk_load.rs is NOT modelled (sorting by rounded distances, pseudo-angle buckets).  Decided per input: the
   result of each loader is compared with an incremental construction by the implementation (same constraint set; same edge set
   when the (constrained) Delaunay triangulation is unique) and must satisfy all state invariants (Props/C01-C04).  Proved here:
   the list-level decisions used for "exactly one vertex per distinct position" and "order-preserving subsequence" are exactly
   their declarative statements. *)
From Coq Require Import ZArith List Bool Arith.
From SpadeV Require Import Num.Decode Vmap.Model Check.Run Cdt.SegSpecProofs.

Theorem C10_stable_order_is_subsequence : forall a b, is_subseq a b = true <-> Subseq a b.
Proof. exact is_subseq_spec. Qed.
Theorem C10_one_vertex_per_position : forall l, nodup_keys l = true <-> NoDup l.
Proof. exact nodup_keys_spec. Qed.
Theorem C10_same_position_set : forall a b, same_key_set a b = true <-> (forall k, In k a <-> In k b).
Proof. exact same_key_set_spec. Qed.

Print Assumptions C10_stable_order_is_subsequence.
Print Assumptions C10_one_vertex_per_position.
Print Assumptions C10_same_position_set.
