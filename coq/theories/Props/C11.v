(* Props/C11.v -- Removing a vertex yields the triangulation that never contained it.
   Proved: the vertex-array effect of remove (Props/C05.v: returns the stored data, only the last index moves); the legalization
   used after removal preserves a valid counter-clockwise triangulation and never flips constraint edges (Props/C01.v, C03.v);
   the edge-set comparison used against the rebuilt triangulation is exactly set equality of unordered pairs.
   NOT proved: uniqueness of the Delaunay triangulation / the round trip; decided per case by comparison with a triangulation
   rebuilt from scratch by the implementation whenever no two adjacent faces are cocircular. *)
From Coq Require Import ZArith List Bool Arith.
From SpadeV Require Import Num.Decode Vmap.Model Vmap.Proofs Check.Run Cdt.SegSpecProofs.
From SpadeV Require Props.C11b.   (* the executable model of removal: vertex table, count deltas, degenerate well-formedness *)

Theorem C11_removed_vertex_and_swap : forall st i x, nth_error st i = Some x ->
     exists st', vm_remove st i = Some (st', x)
  /\ length st' = length st - 1
  /\ (forall j, j < length st - 1 -> j <> i -> nth_error st' j = nth_error st j)
  /\ (i < length st - 1 -> nth_error st' i = nth_error st (length st - 1)).
Proof. exact vm_remove_spec. Qed.

Theorem C11_edge_set_comparison : forall a b, pairs_same a b = true <->
  (forall p, (exists q, In q a /\ upair_eqb p q = true) <-> (exists q, In q b /\ upair_eqb p q = true)).
Proof. exact pairs_same_spec. Qed.

Print Assumptions C11_removed_vertex_and_swap.
Print Assumptions C11_edge_set_comparison.
