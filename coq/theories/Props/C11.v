(* Props/C11.v -- Removing a vertex yields the triangulation that never contained it.
   Proved: the vertex-array effect of remove (Props/C05.v: returns the stored data, only the last index moves); the legalization
   used after removal preserves a valid counter-clockwise triangulation and never flips constraint edges (Props/C01.v, C03.v);
   the comparisons applied to every removal (Check/Run.v check_ref, check_remove_cons) are exactly their declarative statements
   (Obs/RemoveProp.v, Obs/RemoveProofs.v): the edge-set comparison is equality of sets of undirected pairs; the verdict `remove` says
   that the constraint edges are those of the rebuilt triangulation and, whenever no free edge between two inner faces is cocircular,
   so are all edges; the verdict `remove_cons` says that, by position, the constraints afterwards are exactly the former constraints
   that do not touch the removed position.
   NOT proved: uniqueness of the Delaunay triangulation / the round trip; decided per case by comparison with a triangulation
   rebuilt from scratch by the implementation whenever no two adjacent faces are cocircular. *)
From SpadeV Require Props.C11b.   (* the executable model of removal: vertex table, count deltas, degenerate well-formedness *)
From Coq Require Import ZArith List Bool Arith.
From SpadeV Require Import Num.Decode Geom.Pred Obs.State Obs.Spec Vmap.Model Vmap.Proofs Check.Codes Check.Run Cdt.SegSpecProofs
  Obs.RemoveProp Obs.RemoveProofs.
Import ListNotations.

Theorem C11_removed_vertex_and_swap : forall st i x, nth_error st i = Some x ->
     exists st', vm_remove st i = Some (st', x)
  /\ length st' = length st - 1
  /\ (forall j, j < length st - 1 -> j <> i -> nth_error st' j = nth_error st j)
  /\ (i < length st - 1 -> nth_error st' i = nth_error st (length st - 1)).
Proof. exact vm_remove_spec. Qed.

Theorem C11_edge_set_comparison : forall a b, pairs_same a b = true <->
  (forall p, (exists q, In q a /\ upair_eqb p q = true) <-> (exists q, In q b /\ upair_eqb p q = true)).
Proof. exact pairs_same_spec. Qed.

(* the same, as equality of sets of undirected pairs: {u,v} occurs in a iff it occurs in b *)
Theorem C11_edge_sets_equal : forall a b, pairs_same a b = true <-> SameUPairs a b.
Proof. exact pairs_same_sets. Qed.

Theorem C11_position_pair_sets_equal : forall a b, kpairs_same a b = true <-> SameUPairs a b.
Proof. exact kpairs_same_sets. Qed.

(* what the compared lists are *)
Theorem C11_edges_of_state : forall s u v, UIn (edge_pairs s) u v <-> EdgeBetween s u v.
Proof. exact edge_pairs_UIn. Qed.
Theorem C11_constraints_of_state : forall s u v, UIn (cons_pairs s) u v <-> ConstraintBetween s u v.
Proof. exact cons_pairs_UIn. Qed.
Theorem C11_constraint_positions_of_state : forall ks s k1 k2,
  UIn (key_pairs_of ks s) k1 k2 <->
  exists u v, ConstraintBetween s u v /\ nth u ks ((0,0),(0,0))%Z = k1 /\ nth v ks ((0,0),(0,0))%Z = k2.
Proof. exact key_pairs_of_UIn. Qed.

(* the uniqueness test under which edge sets are compared *)
Theorem C11_uniqueness_test : forall s pts, unique_b s pts = true <-> Unique s pts.
Proof. exact unique_b_spec. Qed.

(* the verdicts `remove` (also `bulk_edges`, C10) and `remove_cons` *)
Theorem C11_reference_verdict : forall n pts res rcs, ref_verdict n pts res rcs = true <-> RefOk n pts res rcs.
Proof. exact ref_verdict_spec. Qed.
Theorem C11_remaining_constraints_verdict : forall kp kn rk, remove_cons_verdict kp kn rk = true <-> RemoveConsOk kp kn rk.
Proof. exact remove_cons_verdict_spec. Qed.

(* check_ref / check_remove_cons of Check/Run.v are these verdicts applied to the parsed / decoded inputs.  (Their statements mention
   obs_points / key_of, i.e. the binary64 decoding through Flocq, hence the four Flocq/Reals axioms in their assumptions.) *)
Theorem C11_check_ref_is_ref_verdict : forall t n a res rcs pts,
  parse_ref a = Some (res, rcs) -> obs_points n = Some pts ->
  check_ref t n (Some a) = [(t, ref_verdict n pts res rcs)].
Proof. exact check_ref_unfold. Qed.
Theorem C11_check_remove_cons_is_verdict : forall p n rx ry vp vn rk,
  vstate_of (o_verts p) = Some vp -> vstate_of (o_verts n) = Some vn -> key_of rx ry = Some rk ->
  check_remove_cons p n rx ry =
  [(T_remove_cons, remove_cons_verdict (key_pairs_of (map fst vp) p) (key_pairs_of (map fst vn) n) rk)].
Proof. exact check_remove_cons_unfold. Qed.

Print Assumptions C11_removed_vertex_and_swap.
Print Assumptions C11_edge_set_comparison.
Print Assumptions C11_edge_sets_equal.
Print Assumptions C11_position_pair_sets_equal.
Print Assumptions C11_edges_of_state.
Print Assumptions C11_constraints_of_state.
Print Assumptions C11_constraint_positions_of_state.
Print Assumptions C11_uniqueness_test.
Print Assumptions C11_reference_verdict.
Print Assumptions C11_remaining_constraints_verdict.
Print Assumptions C11_check_ref_is_ref_verdict.
Print Assumptions C11_check_remove_cons_is_verdict.
