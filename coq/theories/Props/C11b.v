(* Props/C11b.v -- continuation of Props/C11.v: the executable model of vertex removal.
   Tri/Remove.v is a hand-written model of `remove` as a whole function (remove_core with its degenerate branches, the border loop,
   isolate_vertex_and_fill_hole / remesh_edge_ring, isolate_convex_hull_vertex / disconnect_edge_strip, legalize_edges_after_removal,
   cleanup_isolated_vertex with the swap_remove bookkeeping of edges, faces and the vertex, and CDT::remove's release of constraints),
   written over the raw DCEL API and the GENERATED flip_cw; it needs no parameter (the result is a function of the observed state) and
   reproduces the implementation's DCEL index for index on every generated removal (tag corr; about 30 000 removals per quick run of C11:
   interior / hull vertices of every degree, cocircular neighbours, chain ends and inner chain vertices, the last 3 / 2 / 1 vertices,
   vertices carrying constraints).  Proved for every input on which the model terminates normally: *)
From Coq Require Import ZArith List Bool Arith.
Import ListNotations.
From SpadeV Require Import Geom.Pred Obs.State Vmap.Model Dcel.Raw Dcel.WfCore Query.Hull Tri.Insert Tri.Remove.
From SpadeV Require Tri.RemoveProofs.
From SpadeV Require Dcel.ProofsFlip Dcel.WfLive Dcel.WfLiveOrbit Tri.RemoveWfProofs Tri.RemoveWfOrbitProofs Tri.RemoveWfCdtProofs.
From SpadeV Require Tri.Legalize.
From SpadeV Require Obs.SpecProp.

(* the vertex table of the result is Vec::swap_remove of the vertex table (positions and payloads), the returned vertex is entry v *)
Theorem C11_remove_vertex_table : forall pts fuel d v d' r,
  remove_vertex_full pts fuel d v = Some (d', r) -> RemoveProofs.RemovalSpecP d v d' r.
Proof. exact RemoveProofs.remove_vertex_full_vtable. Qed.

Theorem C11_cdt_remove_vertex_table : forall pts fuel d v d' r,
  cdt_remove_vertex pts fuel d v = Some (d', r) -> RemoveProofs.RemovalSpecP d v d' r.
Proof. exact RemoveProofs.cdt_remove_vertex_vtable. Qed.

(* ... which is exactly the vertex-array model of C05 *)
Theorem C11_remove_is_vm_remove : forall pts fuel d v d' r (key_of : Z * Z -> key),
  remove_vertex_full pts fuel d v = Some (d', r) ->
  let view := fun t : Z * Z * Z => (key_of (fst (fst t), snd (fst t)), snd t) in
  vm_remove (map view (RemoveProofs.vtable d)) v = Some (map view (RemoveProofs.vtable d'), view (RemoveProofs.vproj r)).
Proof. exact RemoveProofs.remove_vertex_vm_remove. Qed.

(* exact count deltas *)
Theorem C11_remove_interior_counts : forall pts fuel d v a bl d' r,
  DWf d -> 1 < Raw.num_faces d ->
  v_out_edge d v = Some a -> border_scan fuel d a a [] = Some (bl, None) ->
  remove_vertex_full pts fuel d v = Some (d', r) ->
  Raw.num_vertices d' + 1 = Raw.num_vertices d /\
  Raw.num_undirected_edges d' + 3 = Raw.num_undirected_edges d /\
  Raw.num_directed_edges d' + 6 = Raw.num_directed_edges d /\
  Raw.num_faces d' + 2 = Raw.num_faces d.
Proof. exact RemoveProofs.remove_interior_counts. Qed.

Theorem C11_remove_hull_counts : forall pts fuel d v a bl che d' r,
  1 < Raw.num_faces d ->
  v_out_edge d v = Some a -> border_scan fuel d a a [] = Some (bl, Some che) ->
  remove_vertex_full pts fuel d v = Some (d', r) ->
  exists ne nf, 1 <= ne /\ nf <= ne /\
  Raw.num_vertices d' + 1 = Raw.num_vertices d /\
  Raw.num_undirected_edges d' + ne = Raw.num_undirected_edges d /\
  Raw.num_directed_edges d' = Raw.num_directed_edges d - 2 * ne /\
  Raw.num_faces d' + nf = Raw.num_faces d.
Proof. exact RemoveProofs.remove_hull_counts. Qed.

Theorem C11_remove_degenerate_counts : forall pts fuel d v d' r,
  Raw.num_faces d <= 1 -> remove_vertex_full pts fuel d v = Some (d', r) ->
  Raw.num_vertices d' + 1 = Raw.num_vertices d /\ Raw.num_faces d' = Raw.num_faces d /\
  (Raw.num_vertices d = 1 -> d_hedges d' = d_hedges d /\ d_flags d' = d_flags d /\ d_faces d' = d_faces d) /\
  (Raw.num_vertices d = 2 -> d_hedges d' = [] /\ d_flags d' = []) /\
  (3 <= Raw.num_vertices d ->
     Raw.num_undirected_edges d' + 1 = Raw.num_undirected_edges d /\
     Raw.num_directed_edges d' = Raw.num_directed_edges d - 2).
Proof. exact RemoveProofs.remove_degenerate_counts. Qed.

(* link-level well-formedness of the results of the last two removals; for chains DWf alone is not enough (counterexample) *)
Theorem C11_remove_last_vertex_wf : forall pts fuel d v d' r,
  DWf d -> Raw.num_faces d <= 1 -> Raw.num_vertices d = 1 ->
  remove_vertex_full pts fuel d v = Some (d', r) -> DWf d'.
Proof. exact RemoveProofs.remove_last_vertex_DWf. Qed.

Theorem C11_remove_two_vertices_left_wf : forall pts fuel d v d' r,
  DWf d -> Raw.num_faces d <= 1 -> Raw.num_vertices d = 2 ->
  remove_vertex_full pts fuel d v = Some (d', r) -> DWf d'.
Proof. exact RemoveProofs.remove_two_vertices_left_DWf. Qed.

Theorem C11_remove_chain_needs_connectivity :
  exists d v d' r, DWf d /\ Raw.num_faces d <= 1 /\ 3 <= Raw.num_vertices d /\
    remove_vertex_full [] 10 d v = Some (d', r) /\ ~ DWf d'.
Proof. exact RemoveProofs.remove_line_DWf_counterexample. Qed.

(* the swap_remove bookkeeping of edges: removing undirected edge k (not the last one, L) from a DCEL in which no surviving half-edge
   refers to it and next / prev are mutually inverse on the survivors yields the same DCEL with half-edges 2L, 2L+1 renamed to 2k, 2k+1
   in every entry and every next / prev field (fix_handle_swap's two calls), the flag moved along, and the out_edge / adjacent_edge of
   the moved edge's origins / faces redirected to it *)
Theorem C11_edge_swap_remove_is_a_relabeling : forall d k L,
  Raw.num_undirected_edges d = S L -> length (d_hedges d) = 2 * L + 2 -> k < L ->
  (forall e, e < 2 * L + 2 -> e <> 2 * k -> e <> 2 * k + 1 ->
      e_next d e < 2 * L + 2 /\ e_next d e <> 2 * k /\ e_next d e <> 2 * k + 1 /\
      e_prev d e < 2 * L + 2 /\ e_prev d e <> 2 * k /\ e_prev d e <> 2 * k + 1 /\
      e_prev d (e_next d e) = e /\ e_next d (e_prev d e) = e) ->
  exists d', swap_remove_undirected_edge d k = Some d' /\
    length (d_hedges d') = 2 * L /\ length (d_flags d') = L /\
    length (d_verts d') = length (d_verts d) /\ length (d_faces d') = length (d_faces d) /\
    (forall j, j < 2 * L ->
        e_next d' j = RemoveProofs.rho L k (e_next d (RemoveProofs.sigma L k j)) /\
        e_prev d' j = RemoveProofs.rho L k (e_prev d (RemoveProofs.sigma L k j)) /\
        e_face d' j = e_face d (RemoveProofs.sigma L k j) /\ e_origin d' j = e_origin d (RemoveProofs.sigma L k j)) /\
    (forall u, u < L -> nth u (d_flags d') false = nth (if u =? k then L else u) (d_flags d) false) /\
    (forall w, v_out_edge d' w =
        if (e_origin d (2 * L) =? w) && (e_origin d (2 * L) <? length (d_verts d)) then Some (2 * k)
        else if (e_origin d (2 * L + 1) =? w) && (e_origin d (2 * L + 1) <? length (d_verts d)) then Some (2 * k + 1)
        else v_out_edge d w) /\
    (forall f, f_adjacent d' f =
        if (e_face d (2 * L) =? f) && (e_face d (2 * L) <? length (d_faces d)) then Some (2 * k)
        else if (e_face d (2 * L + 1) =? f) && (e_face d (2 * L + 1) <? length (d_faces d)) then Some (2 * k + 1)
        else f_adjacent d f).
Proof. exact RemoveProofs.swap_remove_undirected_edge_relabels. Qed.

(* the swap_remove bookkeeping of the vertex: Vec::swap_remove on the vertex table, and -- when the half-edges leaving the last vertex
   are exactly the counterclockwise orbit of its out_edge -- the renaming last -> v of every origin field, nothing else *)
Theorem C11_vertex_swap_remove_is_a_relabeling : forall fuel d v a,
  let last := Raw.num_vertices d - 1 in
  let nH := length (d_hedges d) in
  v < last ->
  v_out_edge d last = Some a -> a < nH -> e_origin d a = last ->
  (forall e, e < nH -> e_prev d e < nH /\ e_next d (e_prev d e) = e /\ e_origin d (e_next d e) = e_origin d (rev e)) ->
  (forall e, e < nH -> rev e < nH) ->
  forall es, Query.Hull.circ_iter (Tri.Insert.d_ccw d) fuel a a = Some es ->
  (forall e, e < nH -> e_origin d e = last -> In e es) ->
  exists d' r, swap_remove_vertex fuel d v = Some (d', r) /\ r = nth v (d_verts d) dflt_v /\
    d_verts d' = swap_remove_list dflt_v v (d_verts d) /\
    length (d_hedges d') = nH /\ d_faces d' = d_faces d /\ d_flags d' = d_flags d /\
    (forall e, e < nH ->
       e_origin d' e = (if e_origin d e =? last then v else e_origin d e) /\
       e_next d' e = e_next d e /\ e_prev d' e = e_prev d e /\ e_face d' e = e_face d e).
Proof. exact RemoveProofs.swap_remove_vertex_relabels. Qed.

(* ---- link-level well-formedness of the removal of an INTERIOR vertex of a two-dimensional state (Tri/RemoveWfProofs.v) ----
   remove_core's inner branch: isolate_vertex_and_fill_hole (fan re-triangulation of the hole) + legalize_edges_after_removal +
   cleanup_isolated_vertex (swap-removes of the spokes and the faces) + swap_remove_vertex.  Between the first and the last step the
   tables contain unreferenced garbage; the invariant is DW of the LIVE part (Dcel/WfLive.v `DWX`).
   Hypotheses: the input is DWf, no out-edge of v is an outer edge (border_scan returns no hull edge), the out-edges of v are the
   counterclockwise orbit of its out_edge, the neighbours of v are pairwise different vertices (degree >= 3 follows from the success
   of the model).  Conclusion: the state d3 before swap_remove_vertex is well-formed except that vertex v is isolated, and the result
   is DWf if v is the last vertex or if the half-edges leaving the last vertex of d3 are the counterclockwise orbit of its out_edge. *)
Theorem C11_remove_interior_wf_partial : forall pts fuel d v a bl es d' r,
  DWf d ->
  v_out_edge d v = Some a -> border_scan fuel d a a [] = Some (bl, None) ->
  out_edges fuel d v = Some es ->
  (forall e, e < length (d_hedges d) -> e_origin d e = v -> In e es) ->
  NoDup (map (e_to d) es) ->
  remove_vertex_full pts fuel d v = Some (d', r) ->
  exists d3,
    swap_remove_vertex fuel d3 v = Some (d', r) /\
    WfLive.DWX d3 (WfLive.all_he d3) (WfLive.all_f d3) (fun w => w < length (d_verts d3) /\ w <> v) /\
    length (d_verts d3) = length (d_verts d) /\
    (S v = length (d_verts d) \/ RemoveWfProofs.OrbitCovers fuel d3 (length (d_verts d) - 1) -> DWf d').
Proof. exact RemoveWfProofs.remove_interior_DWf_partial. Qed.

(* unconditional when the removed vertex is the last one of the vertex table *)
Theorem C11_remove_interior_last_wf : forall pts fuel d v a bl es d' r,
  DWf d ->
  v_out_edge d v = Some a -> border_scan fuel d a a [] = Some (bl, None) ->
  out_edges fuel d v = Some es ->
  (forall e, e < length (d_hedges d) -> e_origin d e = v -> In e es) ->
  NoDup (map (e_to d) es) ->
  S v = Raw.num_vertices d ->
  remove_vertex_full pts fuel d v = Some (d', r) ->
  DWf d'.
Proof. exact RemoveWfProofs.remove_interior_last_DWf. Qed.

(* the hypothesis on the last vertex cannot be dropped: a DWf dcel whose last vertex is the apex of two separate fans *)
Theorem C11_remove_interior_needs_vertex_orbit :
  exists d v a bl es d' r,
    DWf d /\ v_out_edge d v = Some a /\ border_scan 50 d a a [] = Some (bl, None) /\
    out_edges 50 d v = Some es /\
    (forall e, e < length (d_hedges d) -> e_origin d e = v -> In e es) /\
    NoDup (map (e_to d) es) /\ 3 <= length es /\
    remove_vertex_full [] 50 d v = Some (d', r) /\ ~ DWf d'.
Proof. exact RemoveWfProofs.remove_interior_DWf_counterexample. Qed.

(* THE THEOREM.  The hypothesis on the last vertex is discharged by carrying the vertex-orbit clause through the whole removal
   (Tri/RemoveWfOrbitProofs.v): `Conn d LE w` = the live half-edges leaving w are mutually reachable by counterclockwise rotation.
   Removing an interior vertex with pairwise different neighbours from a DWf dcel that satisfies the vertex-orbit clause gives a DWf dcel
   that satisfies the vertex-orbit clause. *)
Theorem C11_remove_interior_wf : forall pts fuel d v a bl es d' r,
  DWf d -> (forall w, WfLiveOrbit.Conn d (WfLive.all_he d) w) ->
  v_out_edge d v = Some a -> border_scan fuel d a a [] = Some (bl, None) ->
  out_edges fuel d v = Some es ->
  NoDup (map (e_to d) es) ->
  remove_vertex_full pts fuel d v = Some (d', r) ->
  DWf d' /\ (forall w, WfLiveOrbit.Conn d' (WfLive.all_he d') w).
Proof. exact RemoveWfOrbitProofs.remove_interior_DWf. Qed.

(* the same with the vertex-orbit clause of the full Wf (Obs/SpecProp.v WfVertexOrbits, decided by wf_b on every implementation state) *)
Theorem C11_remove_interior_preserves_wf_and_vertex_orbits : forall pts fuel d v a bl es d' r,
  DWf d -> SpecProp.WfVertexOrbits (obs_of_dcel d) ->
  v_out_edge d v = Some a -> border_scan fuel d a a [] = Some (bl, None) ->
  out_edges fuel d v = Some es ->
  NoDup (map (e_to d) es) ->
  remove_vertex_full pts fuel d v = Some (d', r) ->
  DWf d' /\ SpecProp.WfVertexOrbits (obs_of_dcel d').
Proof. exact RemoveWfOrbitProofs.remove_interior_preserves_DWf_and_vertex_orbits. Qed.

(* ... and with the hypotheses stated as clauses of the full Wf only: link-level clauses, vertex orbits, simplicity (which gives the
   pairwise different neighbours); v interior (the scan of remove_core meets no outer edge) *)
Theorem C11_remove_interior_preserves_wf_clauses : forall pts fuel d v a bl d' r,
  DWf d -> SpecProp.WfVertexOrbits (obs_of_dcel d) -> SpecProp.WfSimple (obs_of_dcel d) ->
  v_out_edge d v = Some a -> border_scan fuel d a a [] = Some (bl, None) ->
  remove_vertex_full pts fuel d v = Some (d', r) ->
  DWf d' /\ SpecProp.WfVertexOrbits (obs_of_dcel d').
Proof. exact RemoveWfOrbitProofs.remove_interior_preserves_Wf_clauses. Qed.

Theorem C11_vertex_orbits_iff_conn : forall d, DWf d ->
  (SpecProp.WfVertexOrbits (obs_of_dcel d) <-> forall w, WfLiveOrbit.Conn d (WfLive.all_he d) w).
Proof.
  intros d H. apply ProofsFlip.DWf_DW in H. split.
  - apply RemoveWfOrbitProofs.WfVertexOrbits_Conn. exact H.
  - apply RemoveWfOrbitProofs.Conn_WfVertexOrbits. exact H.
Qed.

(* ---- constrained triangulations ---- *)
(* the Lawson loop (Tri/Legalize.v, model of legalize_edge; used by insertion, remove_constraint_edge, CDT::remove) keeps DWf and the
   vertex-orbit clause without any geometric hypothesis: it flips only edges with two inner faces and a positive in-circle test, and the
   in-circle determinant of a repeated point is 0, so the apexes of a flipped edge are different vertices *)
Theorem C11_legalize_wf_without_geometry : forall pts fuel fully d stack b d' b',
  ProofsFlip.DW d -> (forall w, WfLiveOrbit.Conn d (WfLive.all_he d) w) -> (forall e, In e stack -> e < length (d_hedges d)) ->
  Legalize.legalize pts fuel fully d stack b = Some (d', b') ->
  ProofsFlip.DW d' /\ (forall w, WfLiveOrbit.Conn d' (WfLive.all_he d') w).
Proof. exact RemoveWfCdtProofs.legalize_DW_Conn. Qed.

(* remove_constraint_edge (the model hooked as `rmc` in Check/RunModel.v) *)
Theorem C11_remove_constraint_edge_wf : forall pts fuel d u d' b,
  DWf d -> (forall w, WfLiveOrbit.Conn d (WfLive.all_he d) w) -> u < Raw.num_undirected_edges d ->
  remove_constraint_edge pts fuel d u = Some (d', b) ->
  DWf d' /\ (forall w, WfLiveOrbit.Conn d' (WfLive.all_he d') w).
Proof. exact RemoveWfCdtProofs.remove_constraint_edge_DWf. Qed.

(* ConstrainedDelaunayTriangulation::remove: the constraints of v are released (state d0), then v is removed; the hypotheses on the
   neighbourhood of v concern d0 *)
Theorem C11_cdt_remove_interior_wf : forall pts fuel d v d' r,
  DWf d -> (forall w, WfLiveOrbit.Conn d (WfLive.all_he d) w) ->
  cdt_remove_vertex pts fuel d v = Some (d', r) ->
  exists d0, release_constraints pts fuel fuel d v = Some d0 /\
    DWf d0 /\ (forall w, WfLiveOrbit.Conn d0 (WfLive.all_he d0) w) /\
    remove_vertex_full pts fuel d0 v = Some (d', r) /\
    (forall a bl es, v_out_edge d0 v = Some a -> border_scan fuel d0 a a [] = Some (bl, None) ->
       out_edges fuel d0 v = Some es -> NoDup (map (e_to d0) es) ->
       DWf d' /\ (forall w, WfLiveOrbit.Conn d' (WfLive.all_he d') w)).
Proof. exact RemoveWfCdtProofs.cdt_remove_interior_DWf. Qed.

(* the three stages, separately *)
(* (1) the fan re-triangulation turns a hole (DW of the live part with the boundary of the hole pending) into DW of the live part *)
Theorem C11_remesh_edge_ring_wf : forall (dead deadF : nat -> Prop) (v fo H0 : nat),
  (forall e, dead e -> dead (rev e)) ->
  forall d b0 bl etr ftr d1 iso,
  RemoveWfProofs.Hole dead deadF v fo H0 d b0 bl -> H0 <= length (d_hedges d) -> 2 <= length bl ->
  remesh_edge_ring d (b0 :: bl) etr ftr = Some (d1, iso) ->
  WfLive.DWX d1 (RemoveWfProofs.LEh dead d1) (RemoveWfProofs.LFh deadF d1) (RemoveWfProofs.LVh v d1) /\
  (forall e, H0 <= e -> RemoveWfProofs.LEh dead d1 e -> e_face d1 e <> 0) /\
  (forall e, dead e -> e < length (d_hedges d1)) /\ (forall f, deadF f -> f < length (d_faces d1)) /\
  length (d_hedges d) <= length (d_hedges d1) /\
  iso_edges_to_remove iso = etr /\ iso_faces_to_remove iso = ftr /\
  iso_smallest_new_edge iso = length (d_flags d) /\
  (forall u, In u (iso_new_edges iso) -> length (d_flags d) <= u /\ u < length (d_flags d1)).
Proof. exact RemoveWfProofs.remesh_DWX. Qed.

(* (2) legalize_edges_after_removal flips only edges from `smallest` on, which have inner faces on both sides, and only when the
   apexes differ (the in-circle test of a repeated point is 0): DW of the live part is kept *)
Theorem C11_legalize_after_removal_wf : forall pts (LE LF LV : nat -> Prop) smallest k d stack d',
  WfLive.DWX d LE LF LV -> RemoveWfProofs.NewInner LE smallest d ->
  (forall u, In u stack -> u < length (d_flags d)) ->
  legalize_after_removal pts k d stack smallest = Some d' ->
  WfLive.DWX d' LE LF LV /\ RemoveWfProofs.NewInner LE smallest d'.
Proof. exact RemoveWfProofs.legalize_after_removal_DWX. Qed.

(* (3) the swap-removes of cleanup_isolated_vertex are relabellings of the live part *)
Theorem C11_cleanup_edges_wf : forall l d (LF LV : nat -> Prop) d',
  Sorted.StronglySorted gt l ->
  (forall u, In u l -> u < Raw.num_undirected_edges d) ->
  WfLive.DWX d (fun e => e < length (d_hedges d) /\ ~ In (Nat.div2 e) l) LF LV ->
  fold_opt swap_remove_undirected_edge l d = Some d' ->
  WfLive.DWX d' (fun e => e < length (d_hedges d')) LF LV.
Proof. exact RemoveWfCleanupProofs.cleanup_edges_DWX. Qed.

Theorem C11_cleanup_faces_wf : forall l d (LE LV : nat -> Prop) d',
  Sorted.StronglySorted gt l ->
  (forall f, In f l -> 0 < f /\ f < Raw.num_faces d) ->
  WfLive.DWX d LE (fun g => g < length (d_faces d) /\ ~ In g l) LV ->
  fold_opt swap_remove_face l d = Some d' ->
  WfLive.DWX d' LE (fun g => g < length (d_faces d')) LV /\
  d_verts d' = d_verts d /\ d_flags d' = d_flags d /\ length (d_hedges d') = length (d_hedges d).
Proof. exact RemoveWfCleanupProofs.cleanup_faces_DWX. Qed.

(* DW of the live part with every entry live is DW; flip_cw keeps DW of the live part *)
Theorem C11_live_wf_is_wf : forall d, DWf d <-> WfLive.DWX d (WfLive.all_he d) (WfLive.all_f d) (WfLive.all_v d).
Proof.
  intros d. split.
  - intros H. apply WfLive.DW_DWX_full. apply ProofsFlip.DWf_DW. exact H.
  - intros H. apply ProofsFlip.DWf_DW. apply (WfLive.DWX_full_DW d _ _ _ H); intros x Hx; exact Hx.
Qed.

Print Assumptions C11_remove_vertex_table.
Print Assumptions C11_cdt_remove_vertex_table.
Print Assumptions C11_remove_is_vm_remove.
Print Assumptions C11_remove_interior_counts.
Print Assumptions C11_remove_hull_counts.
Print Assumptions C11_remove_degenerate_counts.
Print Assumptions C11_remove_last_vertex_wf.
Print Assumptions C11_remove_two_vertices_left_wf.
Print Assumptions C11_remove_chain_needs_connectivity.
Print Assumptions C11_edge_swap_remove_is_a_relabeling.
Print Assumptions C11_vertex_swap_remove_is_a_relabeling.
Print Assumptions C11_remove_interior_wf_partial.
Print Assumptions C11_remove_interior_last_wf.
Print Assumptions C11_remove_interior_needs_vertex_orbit.
Print Assumptions C11_remesh_edge_ring_wf.
Print Assumptions C11_legalize_after_removal_wf.
Print Assumptions C11_cleanup_edges_wf.
Print Assumptions C11_cleanup_faces_wf.
Print Assumptions C11_live_wf_is_wf.
Print Assumptions C11_remove_interior_wf.
Print Assumptions C11_remove_interior_preserves_wf_and_vertex_orbits.
Print Assumptions C11_vertex_orbits_iff_conn.
Print Assumptions C11_legalize_wf_without_geometry.
Print Assumptions C11_remove_constraint_edge_wf.
Print Assumptions C11_cdt_remove_interior_wf.
Print Assumptions C11_remove_interior_preserves_wf_clauses.
