(* Props/C11b.v -- continuation of Props/C11.v: the executable model of vertex removal.
   Tri/Remove.v is a hand-written model of `remove` as a whole function (remove_core with its degenerate branches, the border loop,
   isolate_vertex_and_fill_hole / remesh_edge_ring, isolate_convex_hull_vertex / disconnect_edge_strip, legalize_edges_after_removal,
   cleanup_isolated_vertex with the swap_remove bookkeeping of edges, faces and the vertex, and CDT::remove's release of constraints),
   written over the raw DCEL API and the GENERATED flip_cw; it needs no parameter (the result is a function of the observed state) and
   reproduces the implementation's DCEL index for index on every generated removal (tag corr; about 30 000 removals per quick run of C11:
   interior / hull vertices of every degree, cocircular neighbours, chain ends and inner chain vertices, the last 3 / 2 / 1 vertices,
   vertices carrying constraints).  Proved for every input on which the model terminates normally: *)
From Coq Require Import ZArith List Bool Arith.
Import ListNotations.
From SpadeV Require Import Geom.Pred Obs.State Vmap.Model Dcel.Raw Dcel.WfCore Query.Hull Tri.Insert Tri.Remove.
From SpadeV Require Tri.RemoveProofs.

(* the vertex table of the result is Vec::swap_remove of the vertex table (positions and payloads), the returned vertex is entry v *)
Theorem C11_remove_vertex_table : forall pts fuel d v d' r,
  remove_vertex_full pts fuel d v = Some (d', r) -> RemoveProofs.RemovalSpecP d v d' r.
Proof. exact RemoveProofs.remove_vertex_full_vtable. Qed.

Theorem C11_cdt_remove_vertex_table : forall pts fuel d v d' r,
  cdt_remove_vertex pts fuel d v = Some (d', r) -> RemoveProofs.RemovalSpecP d v d' r.
Proof. exact RemoveProofs.cdt_remove_vertex_vtable. Qed.

(* ... which is exactly the vertex-array model of C05 *)
Theorem C11_remove_is_vm_remove : forall pts fuel d v d' r (key_of : Z * Z -> key),
  remove_vertex_full pts fuel d v = Some (d', r) ->
  let view := fun t : Z * Z * Z => (key_of (fst (fst t), snd (fst t)), snd t) in
  vm_remove (map view (RemoveProofs.vtable d)) v = Some (map view (RemoveProofs.vtable d'), view (RemoveProofs.vproj r)).
Proof. exact RemoveProofs.remove_vertex_vm_remove. Qed.

(* exact count deltas *)
Theorem C11_remove_interior_counts : forall pts fuel d v a bl d' r,
  DWf d -> 1 < Raw.num_faces d ->
  v_out_edge d v = Some a -> border_scan fuel d a a [] = Some (bl, None) ->
  remove_vertex_full pts fuel d v = Some (d', r) ->
  Raw.num_vertices d' + 1 = Raw.num_vertices d /\
  Raw.num_undirected_edges d' + 3 = Raw.num_undirected_edges d /\
  Raw.num_directed_edges d' + 6 = Raw.num_directed_edges d /\
  Raw.num_faces d' + 2 = Raw.num_faces d.
Proof. exact RemoveProofs.remove_interior_counts. Qed.

Theorem C11_remove_hull_counts : forall pts fuel d v a bl che d' r,
  1 < Raw.num_faces d ->
  v_out_edge d v = Some a -> border_scan fuel d a a [] = Some (bl, Some che) ->
  remove_vertex_full pts fuel d v = Some (d', r) ->
  exists ne nf, 1 <= ne /\ nf <= ne /\
  Raw.num_vertices d' + 1 = Raw.num_vertices d /\
  Raw.num_undirected_edges d' + ne = Raw.num_undirected_edges d /\
  Raw.num_directed_edges d' = Raw.num_directed_edges d - 2 * ne /\
  Raw.num_faces d' + nf = Raw.num_faces d.
Proof. exact RemoveProofs.remove_hull_counts. Qed.

Theorem C11_remove_degenerate_counts : forall pts fuel d v d' r,
  Raw.num_faces d <= 1 -> remove_vertex_full pts fuel d v = Some (d', r) ->
  Raw.num_vertices d' + 1 = Raw.num_vertices d /\ Raw.num_faces d' = Raw.num_faces d /\
  (Raw.num_vertices d = 1 -> d_hedges d' = d_hedges d /\ d_flags d' = d_flags d /\ d_faces d' = d_faces d) /\
  (Raw.num_vertices d = 2 -> d_hedges d' = [] /\ d_flags d' = []) /\
  (3 <= Raw.num_vertices d ->
     Raw.num_undirected_edges d' + 1 = Raw.num_undirected_edges d /\
     Raw.num_directed_edges d' = Raw.num_directed_edges d - 2).
Proof. exact RemoveProofs.remove_degenerate_counts. Qed.

(* link-level well-formedness of the results of the last two removals; for chains DWf alone is not enough (counterexample) *)
Theorem C11_remove_last_vertex_wf : forall pts fuel d v d' r,
  DWf d -> Raw.num_faces d <= 1 -> Raw.num_vertices d = 1 ->
  remove_vertex_full pts fuel d v = Some (d', r) -> DWf d'.
Proof. exact RemoveProofs.remove_last_vertex_DWf. Qed.

Theorem C11_remove_two_vertices_left_wf : forall pts fuel d v d' r,
  DWf d -> Raw.num_faces d <= 1 -> Raw.num_vertices d = 2 ->
  remove_vertex_full pts fuel d v = Some (d', r) -> DWf d'.
Proof. exact RemoveProofs.remove_two_vertices_left_DWf. Qed.

Theorem C11_remove_chain_needs_connectivity :
  exists d v d' r, DWf d /\ Raw.num_faces d <= 1 /\ 3 <= Raw.num_vertices d /\
    remove_vertex_full [] 10 d v = Some (d', r) /\ ~ DWf d'.
Proof. exact RemoveProofs.remove_line_DWf_counterexample. Qed.

(* the swap_remove bookkeeping of edges: removing undirected edge k (not the last one, L) from a DCEL in which no surviving half-edge
   refers to it and next / prev are mutually inverse on the survivors yields the same DCEL with half-edges 2L, 2L+1 renamed to 2k, 2k+1
   in every entry and every next / prev field (fix_handle_swap's two calls), the flag moved along, and the out_edge / adjacent_edge of
   the moved edge's origins / faces redirected to it *)
Theorem C11_edge_swap_remove_is_a_relabeling : forall d k L,
  Raw.num_undirected_edges d = S L -> length (d_hedges d) = 2 * L + 2 -> k < L ->
  (forall e, e < 2 * L + 2 -> e <> 2 * k -> e <> 2 * k + 1 ->
      e_next d e < 2 * L + 2 /\ e_next d e <> 2 * k /\ e_next d e <> 2 * k + 1 /\
      e_prev d e < 2 * L + 2 /\ e_prev d e <> 2 * k /\ e_prev d e <> 2 * k + 1 /\
      e_prev d (e_next d e) = e /\ e_next d (e_prev d e) = e) ->
  exists d', swap_remove_undirected_edge d k = Some d' /\
    length (d_hedges d') = 2 * L /\ length (d_flags d') = L /\
    length (d_verts d') = length (d_verts d) /\ length (d_faces d') = length (d_faces d) /\
    (forall j, j < 2 * L ->
        e_next d' j = RemoveProofs.rho L k (e_next d (RemoveProofs.sigma L k j)) /\
        e_prev d' j = RemoveProofs.rho L k (e_prev d (RemoveProofs.sigma L k j)) /\
        e_face d' j = e_face d (RemoveProofs.sigma L k j) /\ e_origin d' j = e_origin d (RemoveProofs.sigma L k j)) /\
    (forall u, u < L -> nth u (d_flags d') false = nth (if u =? k then L else u) (d_flags d) false) /\
    (forall w, v_out_edge d' w =
        if (e_origin d (2 * L) =? w) && (e_origin d (2 * L) <? length (d_verts d)) then Some (2 * k)
        else if (e_origin d (2 * L + 1) =? w) && (e_origin d (2 * L + 1) <? length (d_verts d)) then Some (2 * k + 1)
        else v_out_edge d w) /\
    (forall f, f_adjacent d' f =
        if (e_face d (2 * L) =? f) && (e_face d (2 * L) <? length (d_faces d)) then Some (2 * k)
        else if (e_face d (2 * L + 1) =? f) && (e_face d (2 * L + 1) <? length (d_faces d)) then Some (2 * k + 1)
        else f_adjacent d f).
Proof. exact RemoveProofs.swap_remove_undirected_edge_relabels. Qed.

(* the swap_remove bookkeeping of the vertex: Vec::swap_remove on the vertex table, and -- when the half-edges leaving the last vertex
   are exactly the counterclockwise orbit of its out_edge -- the renaming last -> v of every origin field, nothing else *)
Theorem C11_vertex_swap_remove_is_a_relabeling : forall fuel d v a,
  let last := Raw.num_vertices d - 1 in
  let nH := length (d_hedges d) in
  v < last ->
  v_out_edge d last = Some a -> a < nH -> e_origin d a = last ->
  (forall e, e < nH -> e_prev d e < nH /\ e_next d (e_prev d e) = e /\ e_origin d (e_next d e) = e_origin d (rev e)) ->
  (forall e, e < nH -> rev e < nH) ->
  forall es, Query.Hull.circ_iter (Tri.Insert.d_ccw d) fuel a a = Some es ->
  (forall e, e < nH -> e_origin d e = last -> In e es) ->
  exists d' r, swap_remove_vertex fuel d v = Some (d', r) /\ r = nth v (d_verts d) dflt_v /\
    d_verts d' = swap_remove_list dflt_v v (d_verts d) /\
    length (d_hedges d') = nH /\ d_faces d' = d_faces d /\ d_flags d' = d_flags d /\
    (forall e, e < nH ->
       e_origin d' e = (if e_origin d e =? last then v else e_origin d e) /\
       e_next d' e = e_next d e /\ e_prev d' e = e_prev d e /\ e_face d' e = e_face d e).
Proof. exact RemoveProofs.swap_remove_vertex_relabels. Qed.

Print Assumptions C11_remove_vertex_table.
Print Assumptions C11_cdt_remove_vertex_table.
Print Assumptions C11_remove_is_vm_remove.
Print Assumptions C11_remove_interior_counts.
Print Assumptions C11_remove_hull_counts.
Print Assumptions C11_remove_degenerate_counts.
Print Assumptions C11_remove_last_vertex_wf.
Print Assumptions C11_remove_two_vertices_left_wf.
Print Assumptions C11_remove_chain_needs_connectivity.
Print Assumptions C11_edge_swap_remove_is_a_relabeling.
Print Assumptions C11_vertex_swap_remove_is_a_relabeling.
