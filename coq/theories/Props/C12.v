(* Props/C12.v -- Constraint admission checks are exact and failed additions change nothing.
   Proved: crossspec_b is exactly "some constraint edge is properly crossed by the open segment"; the reported conflict lists and
   the returned chains are decided by checkers that are exactly their declarative statements.  The admission algorithm
   (line iterator + conflict resolution) is not modelled; unchanged state after a refused addition is observed (full snapshot). *)
From Coq Require Import ZArith List Bool Arith.
From SpadeV Require Import Geom.Pred Obs.State Obs.Spec Obs.SpecProp Obs.Query Obs.QueryProp Obs.QueryProofs.

Theorem C12_crossing_checker_is_spec : forall s pts a b, crossspec_b s pts a b = true <-> CrossSpec s pts a b.
Proof. exact crossspec_b_spec. Qed.
Theorem C12_conflict_list_checker_is_spec : forall s pts a b got,
  conflicts_ok s pts a b got = true <-> ConflictsOk s pts a b got.
Proof. exact conflicts_ok_spec. Qed.
Theorem C12_chain_checker_is_spec : forall s pts va vb l, Query.chain_ok s pts va vb l = true <-> ChainOk s pts va vb l.
Proof. exact chain_ok_spec. Qed.

Print Assumptions C12_crossing_checker_is_spec.
Print Assumptions C12_conflict_list_checker_is_spec.
Print Assumptions C12_chain_checker_is_spec.
