(* Props/C12.v -- Constraint admission checks are exact and failed additions change nothing.
   Proved: crossspec_b is exactly "some constraint edge is properly crossed by the open segment"; the reported conflict lists and
   the returned chains are decided by checkers that are exactly their declarative statements.  The admission algorithm
   The admission algorithm is modelled (Tri/LineIter.v, Tri/AddConstraint.v) and tied to the code index-exactly (Check/RunModel.v, tag corr);
   over that model: an addition is refused exactly when can_add_constraint answers false, and then the state is returned unchanged; an accepted
   addition never changes a vertex position / payload or a table length and never clears a flag; one conflict region given as a strip is
   re-triangulated with link-level well-formedness preserved, everything outside its faces untouched and flags added only on edges from its
   first vertex to its target; a constraint that crosses free edges only (no vertex in between) preserves well-formedness and flags only edges
   va -> vb; every accepted insertion between two vertices of a well-formed triangulation with counter-clockwise faces (through vertices,
   along edges, across free edges) preserves link-level well-formedness, and sets flags only on edges whose two end points lie on the closed
   segment va-vb (when the iteration does not end inside an overlapped edge). *)
From Coq Require Import ZArith List Bool Arith.
From SpadeV Require Import Geom.Pred Obs.State Obs.Spec Obs.SpecProp Obs.Query Obs.QueryProp Obs.QueryProofs.
From SpadeV Require Import Obs.LineSpec Dcel.Raw Dcel.ProofsFlip Tri.Legalize Tri.LegalizeProofs Tri.LineIter Tri.LineIterProofs Tri.RemoveProofs
  Tri.AddConstraint Tri.AddConstraintProofs Tri.AddConstraintRegionProofs Tri.AddConstraintIterProofs Tri.AddConstraintChainProofs Tri.AddConstraintFlagsProofs.
Import ListNotations.

Theorem C12_crossing_checker_is_spec : forall s pts a b, crossspec_b s pts a b = true <-> CrossSpec s pts a b.
Proof. exact crossspec_b_spec. Qed.
Theorem C12_conflict_list_checker_is_spec : forall s pts a b got,
  conflicts_ok s pts a b got = true <-> ConflictsOk s pts a b got.
Proof. exact conflicts_ok_spec. Qed.
Theorem C12_chain_checker_is_spec : forall s pts va vb l, Query.chain_ok s pts va vb l = true <-> ChainOk s pts va vb l.
Proof. exact chain_ok_spec. Qed.


Theorem C12_refused_iff_cannot_add : forall pts fuel d va vb,
  try_add_constraint_inner pts fuel d va vb = Some Refused <-> can_add_constraint pts fuel d va vb = Some false.
Proof. exact refused_iff_cannot_add. Qed.
Theorem C12_refused_unchanged : forall pts fuel d va vb,
  try_add_constraint_inner pts fuel d va vb = Some Refused ->
  add_constraint pts fuel d va vb = Some (d, []) /\ add_constraint_bool pts fuel d va vb = None.
Proof. exact add_constraint_refused_unchanged. Qed.
Theorem C12_accepted_keeps_vertices_and_sizes : forall pts fuel d va vb d' nc edges,
  try_add_constraint_inner pts fuel d va vb = Some (Added d' nc edges) -> Keep d d'.
Proof. exact add_constraint_Keep. Qed.
Theorem C12_accepted_keeps_flags : forall pts fuel d va vb d' nc edges,
  try_add_constraint_inner pts fuel d va vb = Some (Added d' nc edges) -> forall u, fl d u = true -> fl d' u = true.
Proof. exact add_constraint_flags_monotone. Qed.
Theorem C12_region_preserves_wellformedness : forall pts fuel d nc e0 rest v0 target d' nc' res,
  DW d -> Strip d v0 e0 rest ->
  resolve_conflict_region pts fuel d nc (e0 :: rest) target = Some (d', nc', res) ->
  let F := e_face d (rev e0) :: map (e_face d) (e0 :: rest) in
  DW d' /\
  (forall x, ~ In (e_face d x) F -> half_edge d' x = half_edge d x) /\
  (forall x, x < length (d_hedges d) -> In (e_face d x) F -> In (e_face d' x) F) /\
  (forall u, fl d u = true -> fl d' u = true) /\
  (forall u, fl d' u = true -> fl d u = true \/
             exists x, x < length (d_hedges d) /\ as_undirected x = u /\ e_origin d' x = v0 /\ e_to d' x = target) /\
  (forall e, res = Some e -> e < length (d_hedges d) /\ e_origin d' e = v0 /\ e_to d' e = target) /\
  (forall x, fl d (as_undirected x) = true -> (forall e, In e (e0 :: rest) -> x <> e /\ x <> rev e) -> e_origin d' x = e_origin d x) /\
  (forall e, res = Some e -> fl d' (as_undirected e) = true \/ e_to d e0 = target).
Proof. exact resolve_conflict_region_DW. Qed.
Theorem C12_crossing_constraint_preserves_wellformedness : forall pts fuel d va vb e0 rest d' nc edges,
  DW d -> EdgesCcw pts d -> (forall e, e < length (d_hedges d) -> vpos pts (e_origin d e) <> vpos pts (e_to d e)) ->
  va < length (d_verts d) ->
  line_iter_handles pts fuel d va vb = Some (IV va :: map IX (e0 :: rest) ++ [IV vb]) ->
  (forall e, In e (e0 :: rest) -> is_flagged d e = false) ->
  try_add_constraint_inner pts fuel d va vb = Some (Added d' nc edges) ->
  let F := e_face d (rev e0) :: map (e_face d) (e0 :: rest) in
  DW d' /\
  (forall x, ~ In (e_face d x) F -> half_edge d' x = half_edge d x) /\
  (forall u, fl d u = true -> fl d' u = true) /\
  (forall u, fl d' u = true -> fl d u = true \/
             exists x, x < length (d_hedges d) /\ as_undirected x = u /\ e_origin d' x = va /\ e_to d' x = vb) /\
  (forall e, In e edges -> e < length (d_hedges d) /\ e_origin d' e = va /\ e_to d' e = vb /\ is_flagged d' e = true).
Proof. exact add_constraint_crossing_DW. Qed.
Theorem C12_constraint_insertion_preserves_wellformedness : forall pts fuel d va vb items d' nc edges,
  DW d -> EdgesCcw pts d -> (forall e, e < length (d_hedges d) -> vpos pts (e_origin d e) <> vpos pts (e_to d e)) ->
  va < length (d_verts d) ->
  line_iter_handles pts fuel d va vb = Some items ->
  try_add_constraint_inner pts fuel d va vb = Some (Added d' nc edges) -> DW d'.
Proof. exact add_constraint_DW. Qed.
Theorem C12_flags_only_on_the_segment : forall pts fuel d va vb items d' nc edges,
  DW d -> EdgesCcw pts d -> (forall e, e < length (d_hedges d) -> vpos pts (e_origin d e) <> vpos pts (e_to d e)) ->
  va < length (d_verts d) ->
  line_iter_handles pts fuel d va vb = Some items -> (forall e, last items (IV va) <> IO e) ->
  try_add_constraint_inner pts fuel d va vb = Some (Added d' nc edges) ->
  forall u, fl d' u = true ->
    fl d u = true \/
    exists x, x < length (d_hedges d) /\ as_undirected x = u /\
              on_seg (vpos pts va) (vpos pts vb) (vpos pts (e_origin d' x)) = true /\
              on_seg (vpos pts va) (vpos pts vb) (vpos pts (e_to d' x)) = true.
Proof. exact add_constraint_flags_on_segment. Qed.

Print Assumptions C12_crossing_checker_is_spec.
Print Assumptions C12_conflict_list_checker_is_spec.
Print Assumptions C12_chain_checker_is_spec.
Print Assumptions C12_refused_iff_cannot_add.
Print Assumptions C12_refused_unchanged.
Print Assumptions C12_accepted_keeps_vertices_and_sizes.
Print Assumptions C12_accepted_keeps_flags.
Print Assumptions C12_region_preserves_wellformedness.
Print Assumptions C12_crossing_constraint_preserves_wellformedness.
Print Assumptions C12_constraint_insertion_preserves_wellformedness.
Print Assumptions C12_flags_only_on_the_segment.
