(* Props/C13.v -- add_constraint_and_split connects its end points and splits what it crosses.
   The algorithm is not modelled.  Decided per call on the implementation's before/after states (Refine/Outer.v): existing vertices
   keep index, position and data; the returned edges form a connected chain of constraint edges from a to b; every previously
   existing constraint edge is still covered by a chain of constraint edges whose interior vertices are vertices created by this
   call or existing vertices lying exactly on it.  Proved: the underlying segment model keeps constraints non-crossing (C04). *)
From Coq Require Import ZArith List Bool Arith.
From SpadeV Require Import Geom.Pred Cdt.SegSpec Cdt.SegSpecProofs.

Theorem C13_sub_segment_crossing : forall a b p q c d, a <> b -> on_segment a b p = true -> on_segment a b q = true ->
  proper_cross p q c d = true -> proper_cross a b c d = true.
Proof. exact sub_cross. Qed.

Print Assumptions C13_sub_segment_crossing.
