(* Props/C13.v -- add_constraint_and_split connects its end points and splits what it crosses.
   The algorithm is not modelled.  Decided per call on the implementation's before/after states (Check/Run.v check_split, Refine/Outer.v):
   existing vertices keep index, position and data; the returned edges form a connected chain of constraint edges from a to b; every
   previously existing constraint edge is still covered by a walk of constraint edges whose interior vertices are vertices created by
   this call, vertices of the returned chain, existing vertices lying strictly between two anchors, or existing vertices lying strictly
   inside the covered segment.
   Proved here (Cdt/SplitProp.v, Cdt/SplitProofs.v): each of these executable decisions is exactly its declarative statement.  In
   particular the depth-first search `covered` decides the existence of an (arbitrary, not necessarily simple) walk: loops can be
   removed, a simple walk has at most nV vertices, so the fuel nV + 1 used by the checker is sufficient (no fuel hypothesis).
   The only hypothesis is the range fact DestInRange, which follows from well-formedness (C13_wf_gives_range) and is itself decided on
   every state (tag wf).  Satisfiability of all hypotheses on a real run: SplitProofs.ex_split_*.
   Also proved: the underlying segment model keeps constraints non-crossing (C04). *)
From Coq Require Import ZArith List Bool Arith.
From SpadeV Require Import Geom.Pred Cdt.SegSpec Cdt.SegSpecProofs Obs.State Obs.Spec Obs.SpecProp Obs.Query Obs.QueryProp Refine.Outer
  Check.Codes Check.Run Cdt.SplitProp Cdt.SplitProofs.
Import ListNotations.
From SpadeV Require Props.C13b.

Theorem C13_sub_segment_crossing : forall a b p q c d, a <> b -> on_segment a b p = true -> on_segment a b q = true ->
  proper_cross p q c d = true -> proper_cross a b c d = true.
Proof. exact sub_cross. Qed.

(* existing vertices keep index, position bits and payload *)
Theorem C13_prefix_unchanged : forall p n, prefix_unchanged p n = true <-> PrefixUnchanged p n.
Proof. exact prefix_unchanged_spec. Qed.

(* the returned list is a head-to-tail path of existing constraint half-edges from va to vb *)
Theorem C13_chain_connectivity : forall n vb l cur, chain_conn n vb cur l = true <-> ChainFromTo n cur vb l.
Proof. exact chain_conn_spec. Qed.

(* the search with explicit fuel finds exactly the simple walks that avoid the visited vertices and are shorter than the fuel *)
Theorem C13_search_with_fuel : forall s pts old_nv allowed fuel a b t vis u,
  cover_dfs s pts old_nv allowed fuel a b t vis u = true <->
  exists l, Walk s pts old_nv allowed a b t u l /\ NoDup l /\ (forall x, In x l -> ~ In x vis) /\ length l < fuel.
Proof. exact cover_dfs_spec. Qed.

(* loop removal: every walk contains a simple walk that does not return to its start *)
Theorem C13_walk_simple : forall s pts old_nv allowed a b t u l, Walk s pts old_nv allowed a b t u l ->
  exists l', Walk s pts old_nv allowed a b t u l' /\ NoDup l' /\ ~ In u l' /\ incl l' l.
Proof. exact Walk_simple. Qed.

(* fuel sufficiency: with the checker's fuel the search decides the existence of a covering walk *)
Theorem C13_covered : forall s pts old_nv allowed, DestInRange s -> forall u v,
  covered s pts old_nv allowed u v = true <-> Covered s pts old_nv allowed u v.
Proof. exact covered_spec. Qed.

Theorem C13_constraints_covered_via : forall allowed p n npts, DestInRange n ->
  (constraints_covered_via allowed p n npts = true <-> ConstraintsCoveredVia allowed p n npts).
Proof. exact constraints_covered_via_spec. Qed.

(* coverage is symmetric (a covering walk can be reversed), so deciding the half-edges 2k decides every constraint half-edge of the
   old state in its own direction *)
Theorem C13_covered_symmetric : forall s pts old_nv allowed, TwinsInRange s -> forall u v,
  Covered s pts old_nv allowed u v -> Covered s pts old_nv allowed v u.
Proof. exact Covered_sym. Qed.

Theorem C13_constraints_covered_all_halfedges : forall al p n npts, TwinsInRange p -> o_ne p * 2 = nH p -> TwinsInRange n ->
  (ConstraintsCoveredVia al p n npts <-> ConstraintsCoveredHalfEdges al p n npts).
Proof. exact ConstraintsCoveredVia_halfedges. Qed.

Theorem C13_wf_gives_twins : forall s, Wf s -> TwinsInRange s.
Proof. exact Wf_TwinsInRange. Qed.

(* the old vertices at which check_split lets the operation subdivide *)
Theorem C13_allowed_vertices : forall p n npts va vb chain w,
  In w (split_allowed p n npts va vb chain) <-> SplitAllowed p n npts va vb chain w.
Proof. exact split_allowed_spec. Qed.

(* the verdict reported under tag `split` *)
Theorem C13_split_verdict : forall p n npts va vb chain, DestInRange n ->
  (split_verdict p n npts va vb chain = true <-> SplitOk p n npts va vb chain).
Proof. exact split_verdict_spec. Qed.

Theorem C13_wf_gives_range : forall s, Wf s -> DestInRange s.
Proof. exact Wf_DestInRange. Qed.

(* check_split of Check/Run.v is literally split_verdict applied to the decoded positions and the parsed chain.  (Its statement mentions
   obs_points, i.e. the binary64 decoding through Flocq, hence the four Flocq/Reals axioms in its assumptions; its proof is reflexivity.) *)
Theorem C13_check_split_is_split_verdict : forall p n a b res,
  check_split p n a b res =
  match obs_points n, counted res with
  | Some npts, Some chain => [(T_split, split_verdict p n npts (Z.to_nat a) (Z.to_nat b) chain)]
  | _, _ => [(T_parse, false)]
  end.
Proof. exact check_split_unfold. Qed.

Print Assumptions C13_sub_segment_crossing.
Print Assumptions C13_prefix_unchanged.
Print Assumptions C13_chain_connectivity.
Print Assumptions C13_search_with_fuel.
Print Assumptions C13_walk_simple.
Print Assumptions C13_covered.
Print Assumptions C13_constraints_covered_via.
Print Assumptions C13_covered_symmetric.
Print Assumptions C13_constraints_covered_all_halfedges.
Print Assumptions C13_wf_gives_twins.
Print Assumptions C13_allowed_vertices.
Print Assumptions C13_split_verdict.
Print Assumptions C13_wf_gives_range.
Print Assumptions C13_check_split_is_split_verdict.
