(* Props/C13b.v -- add_constraint_and_split, the executable model (task M8).
   Tri/AddSplit.v + Tri/AddSplitFloat.v model the whole function: the Split conflict resolver (floating-point line intersection in IEEE
   arithmetic, operation for operation; NumCast; mitigate_underflow; vertex constructor), get_conflict_resolutions with
   verify_split_position / all_regions_intact, resolve_conflict_groups with ConstraintEdgeSplit regions (ending with legalize_vertex of every
   split vertex and then the full legalization of every edge that starts at a split vertex), and the fallback routine.  The model
   is compared index-exactly with the implementation on every `split` operation (Check/RunModel.v check_split_model, tag corr).
   Proved here for the model, for every input (no well-formedness hypothesis):
     * when the addition without splitting is not refused -- no constraint edge is crossed -- the split model has exactly one outcome,
       the result of the constraint-insertion model of Tri/AddConstraint.v (same DCEL, same counter change, same edges), and fails when that
       fails;
     * the vertex table only grows: on the fast path the old (position, payload) table is a prefix of the new one and the new entries are
       the split positions computed by the resolver with the constructor's payload (`PrefixUnchanged` of Cdt/SplitProp.v follows); on the
       fallback path an old entry can in addition be overwritten by `insert` with a vertex made by the constructor (the code's
       update_vertex when a split position is an existing position), nothing else;
     * every returned edge is a constraint edge of the resulting state;
     * every new vertex of the fast path is the resolver's answer for a constraint edge of the old state met by the iterator;
     * the model's bit-pattern output function is Flocq's bits_of_b64 and inverts f_of_bits. *)
From Coq Require Import ZArith List Bool Arith.
From SpadeV Require Import Num.Decode Geom.Pred Obs.State Dcel.Raw Tri.Legalize Tri.RemoveProofs Tri.AddConstraint Tri.AddSplit
  Tri.AddSplitProofs Cdt.SplitProp.
From SpadeV Require Num.F64 Tri.AddSplitFloat Tri.AddSplitFloatProofs.
Import ListNotations.

(* no crossing: add_constraint_and_split = add_constraint *)
Theorem C13b_no_crossing_is_add_constraint : forall f32 payload fuel starts pts d va vb,
  pts_of d = Some pts ->
  try_add_constraint_inner pts fuel d va vb <> Some Refused ->
  split_outcomes f32 payload fuel starts d va vb =
  match try_add_constraint_inner pts fuel d va vb with
  | Some (Added d' nc edges) => Some [(d', Z.of_nat nc, edges)]
  | _ => None
  end.
Proof. exact split_eq_add_constraint. Qed.

Theorem C13b_no_crossing_deliverable : forall f32 payload fuel pts d va vb d' edges,
  pts_of d = Some pts ->
  can_add_constraint pts fuel d va vb = Some true ->
  add_constraint pts fuel d va vb = Some (d', edges) ->
  add_constraint_and_split_with f32 payload fuel d va vb = Some (d', bits_of_dcel d, edges).
Proof. exact add_constraint_and_split_no_crossing. Qed.

(* the vertex table only grows *)
Theorem C13b_vertex_table_grows : forall f32 payload fuel starts d va vb outs d' nc edges,
  split_outcomes f32 payload fuel starts d va vb = Some outs -> In (d', nc, edges) outs -> VGrow payload d d'.
Proof. exact split_outcomes_vertices. Qed.

Theorem C13b_fast_path_prefix : forall f32 payload fuel starts pts d va vb regions outs,
  pts_of d = Some pts -> get_conflict_resolutions_split f32 fuel pts d va vb = Some (regions, true) ->
  split_outcomes f32 payload fuel starts d va vb = Some outs ->
  exists d' nc edges, outs = [(d', nc, edges)] /\ vtable d' = vtable d ++ split_entries payload regions.
Proof. exact split_outcomes_fast_prefix. Qed.

Theorem C13b_prefix_unchanged : forall (p n : obs) l,
  vtable (dcel_of_obs n) = vtable (dcel_of_obs p) ++ l -> PrefixUnchanged p n.
Proof. exact prefix_unchanged_of_vtable_app. Qed.

(* every returned edge is flagged *)
Theorem C13b_returned_edges_flagged : forall f32 payload fuel starts d va vb outs d' nc edges,
  split_outcomes f32 payload fuel starts d va vb = Some outs -> In (d', nc, edges) outs ->
  forall e, In e edges -> as_undirected e < length (d_flags d') -> is_flagged d' e = true.
Proof. exact split_outcomes_returned_flagged. Qed.

(* the new vertices are the IEEE intersections of crossed constraint edges *)
Theorem C13b_split_positions : forall f32 fuel pts d va vb regions intact,
  get_conflict_resolutions_split f32 fuel pts d va vb = Some (regions, intact) ->
  forall g p e, In (g, SESplit (inl p) e) regions -> SplitAt f32 d va vb p e.
Proof. exact split_regions_positions. Qed.

(* the deliverable's function *)
Theorem C13b_deliverable : forall f32 payload fuel d va vb d' bits edges,
  add_constraint_and_split_with f32 payload fuel d va vb = Some (d', bits, edges) ->
  VGrow payload d d' /\ bits = bits_of_dcel d' /\
  forall e, In e edges -> as_undirected e < length (d_flags d') -> is_flagged d' e = true.
Proof. exact add_constraint_and_split_with_props. Qed.

(* the bit patterns the model writes into the vertex table are IEEE754.Bits' (Flocq) and invert the decoding used by every checker *)
Theorem C13b_bits_roundtrip : forall z, (0 <= z < 2 ^ 64)%Z -> Num.F64.f_is_nan (Num.F64.f_of_bits z) = false ->
  Tri.AddSplitFloat.bits_of_F (Num.F64.f_of_bits z) = Some z.
Proof. exact Tri.AddSplitFloatProofs.bits_roundtrip. Qed.

Theorem C13b_deliverable_signature : forall f32 bits fuel d va vb d' bits' edges,
  add_constraint_and_split f32 bits fuel d va vb = Some (d', bits', edges) ->
  VGrow 888000 d d' /\ bits' = bits_of_dcel d' /\
  forall e, In e edges -> as_undirected e < length (d_flags d') -> is_flagged d' e = true.
Proof. exact add_constraint_and_split_props. Qed.

Print Assumptions C13b_no_crossing_is_add_constraint.
Print Assumptions C13b_no_crossing_deliverable.
Print Assumptions C13b_vertex_table_grows.
Print Assumptions C13b_fast_path_prefix.
Print Assumptions C13b_prefix_unchanged.
Print Assumptions C13b_returned_edges_flagged.
Print Assumptions C13b_split_positions.
Print Assumptions C13b_deliverable.
Print Assumptions C13b_bits_roundtrip.
Print Assumptions C13b_deliverable_signature.
