(* Props/C14.v -- convex_hull() is the exact convex hull boundary, in clockwise order.
   Model: Query/Hull.v (CircularIterator / HullIterator), Gen/Sizes.v (convex_hull_size, GENERATED from triangulation.rs). *)
From Coq Require Import ZArith List Bool Arith.
From SpadeV Require Import Geom.Pred Obs.State Obs.Spec Obs.SpecProp Obs.SpecProofs Query.Hull Query.HullProofs Gen.Prelude Gen.Sizes.
Import ListNotations.

(* On every well-formed DCEL the hull iterator terminates and yields each half-edge of the outer face exactly once,
   as a closed chain, and convex_hull_size() -- the O(1) formula of the source -- is its length. *)
Theorem C14_hull_iter : forall s, Wf s -> exists l, hull_iter s = Some l
  /\ NoDup l
  /\ (forall e, In e l <-> (e < nH s /\ face s e = 0))
  /\ length l = length (outer_edges s)
  /\ length l = convex_hull_size (sizes_of s)
  /\ (forall i, S i < length l -> dest s (nth i l 0) = org s (nth (S i) l 0))
  /\ (l <> [] -> dest s (last l 0) = org s (hd 0 l)).
Proof. exact hull_iter_spec. Qed.

(* the geometric part is decided per observed state by checkers that are exactly their declarative statements *)
Theorem C14_all_vertices_right_or_on : forall s pts, hull_contains_all s pts = true <-> HullContainsAll s pts.
Proof. exact hull_contains_all_spec. Qed.
Theorem C14_boundary_vertices_are_endpoints : forall s pts, hull_boundary_vertices s pts = true <-> HullBoundaryVertices s pts.
Proof. exact hull_boundary_vertices_spec. Qed.
Theorem C14_wf_decided : forall s, wf_b s = true <-> Wf s.
Proof. exact wf_b_spec. Qed.

Print Assumptions C14_hull_iter.
Print Assumptions C14_all_vertices_right_or_on.
Print Assumptions C14_boundary_vertices_are_endpoints.
