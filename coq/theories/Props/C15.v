(* Props/C15.v -- nearest_neighbor returns a vertex at minimal distance.
   Proved: the decision applied to every answer (nn_b, exact integer squared distances) is exactly NNSpec.
   The greedy-walk argument (local minimum on a Delaunay triangulation is global) is classical and not proved. *)
From Coq Require Import ZArith List Bool Arith.
From SpadeV Require Import Geom.Pred Obs.State Obs.Spec Obs.SpecProp Obs.Query Obs.QueryProp Obs.QueryProofs Dcel.Raw Dcel.WfCore Tri.Legalize Tri.Locate Tri.LocateProofs.

Theorem C15_checker_is_spec : forall s pts q r, nn_b s pts q r = true <-> NNSpec s pts q r.
Proof. exact nn_b_spec. Qed.

(* the greedy walk (model of walk_to_nearest_neighbor with exact distances) terminates on every well-formed DCEL and stops at a vertex
   none of whose neighbours is strictly closer *)
Theorem C15_walk_terminates : forall pts d q start,
  DWf d -> start < Raw.num_vertices d -> walk_to_nearest pts d q start <> None.
Proof. exact walk_to_nearest_terminates. Qed.
Theorem C15_walk_stops_at_local_minimum : forall pts d q start v,
  walk_to_nearest pts d q start = Some v ->
  forall e, In e (Locate.out_edges_of d v) -> (dist2 (vpos pts v) q <= dist2 (vpos pts (e_to d e)) q)%Z.
Proof. exact walk_local_min. Qed.

Print Assumptions C15_walk_terminates.
Print Assumptions C15_walk_stops_at_local_minimum.
Print Assumptions C15_checker_is_spec.
