(* Props/C15.v -- nearest_neighbor returns a vertex at minimal distance.
   Proved: the decision applied to every answer (nn_b, exact integer squared distances) is exactly NNSpec.
   The greedy-walk argument (local minimum on a Delaunay triangulation is global) is classical and not proved. *)
From Coq Require Import ZArith List Bool Arith.
From SpadeV Require Import Geom.Pred Obs.State Obs.Spec Obs.SpecProp Obs.Query Obs.QueryProp Obs.QueryProofs.

Theorem C15_checker_is_spec : forall s pts q r, nn_b s pts q r = true <-> NNSpec s pts q r.
Proof. exact nn_b_spec. Qed.

Print Assumptions C15_checker_is_spec.
