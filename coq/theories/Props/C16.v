(* Props/C16.v -- Rectangle and circle queries return exactly the elements inside the shape.
   Proved: each result-list decision is exactly its declarative statement: the list has no duplicates and contains x iff x is a
   vertex inside the closed shape / an edge having a point in common with it.  "Having a point in common" is proved equivalent to
   the existence of a rational point on the segment and in the rectangle (SegHitsRect) resp. squared distance <= r^2 (exact dyadic
   comparison).  The flood fill itself is not modelled. *)
From Coq Require Import ZArith List Bool Arith.
From SpadeV Require Import Geom.Pred Obs.State Obs.Spec Obs.SpecProp Obs.Query Obs.QueryProp Obs.QueryProofs.

Theorem C16_vertices_in_rectangle : forall s pts lo hi got,
  vertices_in_rect_ok s pts lo hi got = true <-> VerticesInRectOk s pts lo hi got.
Proof. exact vertices_in_rect_ok_spec. Qed.
Theorem C16_edges_in_rectangle : forall s pts lo hi got,
  edges_in_rect_ok s pts lo hi got = true <-> EdgesInRectOk s pts lo hi got.
Proof. exact edges_in_rect_ok_spec. Qed.
Theorem C16_vertices_in_circle : forall s pts c r2 got,
  vertices_in_circle_ok s pts c r2 got = true <-> VerticesInCircleOk s pts c r2 got.
Proof. exact vertices_in_circle_ok_spec. Qed.
Theorem C16_edges_in_circle : forall s pts c r2 got,
  edges_in_circle_ok s pts c r2 got = true <-> EdgesInCircleOk s pts c r2 got.
Proof. exact edges_in_circle_ok_spec. Qed.
Theorem C16_edge_meets_rectangle_means_common_point : forall lo hi a b,
  edge_meets_rect lo hi a b = true <-> SegHitsRect lo hi a b.
Proof. exact edge_meets_rect_point_spec. Qed.
Theorem C16_segments_meet_means_common_point : forall a b c d, seg_meet a b c d = true <-> SegMeet a b c d.
Proof. exact seg_meet_spec. Qed.

Print Assumptions C16_vertices_in_rectangle.
Print Assumptions C16_edges_in_rectangle.
Print Assumptions C16_edges_in_circle.
Print Assumptions C16_edge_meets_rectangle_means_common_point.
