(* Props/C16.v -- Rectangle and circle queries return exactly the elements inside the shape.
   Proved: each result-list decision is exactly its declarative statement: the list has no duplicates and contains x iff x is a
   vertex inside the closed shape / an edge having a point in common with it.  "Having a point in common" is proved equivalent to
   the existence of a rational point on the segment and in the rectangle (SegHitsRect) resp. squared distance <= r^2 (exact dyadic
   comparison).
   The flood fill is modelled (Query/FloodFill.v: FloodFillIterator::new / next, the two shape iterators, both metrics; tied to the code by
   the order-exact correspondence of Check/RunModel.v).  Proved about the model (Query/FloodFillProofs.v, FloodFillMetricProofs.v):
   the code-shaped exact metrics ARE the declarative predicates; on a well-formed state whatever the model yields is a handle in range that
   satisfies the specification (C16_model_sound); in degenerate states (all vertices on a line) the model terminates within its fuel and its
   answer satisfies the whole specification (C16_model_line_rect, _circle, _vertices_rect, _vertices_circle); in two-dimensional states a terminating run has yielded every edge / corner
   inside the shape of every triangle that can be reached from the start triangle by crossing inside edges (C16_model_complete_partial;
   connectivity of the triangles meeting a convex shape is the hypothesis of C16_model_complete_connected).  Termination and absence of
   duplicates in two-dimensional states are not proved (false for arbitrary metrics; decided per answer). *)
From Coq Require Import ZArith List Bool Arith.
From SpadeV Require Import Geom.Pred Num.Decode Obs.State Obs.Spec Obs.SpecProp Obs.Query Obs.QueryProp Obs.QueryProofs.
From SpadeV Require Import Dcel.Raw Dcel.ProofsFlip Tri.Locate Query.FloodFill Query.FloodFillMetricProofs Query.FloodFillProofs.

Theorem C16_vertices_in_rectangle : forall s pts lo hi got,
  vertices_in_rect_ok s pts lo hi got = true <-> VerticesInRectOk s pts lo hi got.
Proof. exact vertices_in_rect_ok_spec. Qed.
Theorem C16_edges_in_rectangle : forall s pts lo hi got,
  edges_in_rect_ok s pts lo hi got = true <-> EdgesInRectOk s pts lo hi got.
Proof. exact edges_in_rect_ok_spec. Qed.
Theorem C16_vertices_in_circle : forall s pts c r2 got,
  vertices_in_circle_ok s pts c r2 got = true <-> VerticesInCircleOk s pts c r2 got.
Proof. exact vertices_in_circle_ok_spec. Qed.
Theorem C16_edges_in_circle : forall s pts c r2 got,
  edges_in_circle_ok s pts c r2 got = true <-> EdgesInCircleOk s pts c r2 got.
Proof. exact edges_in_circle_ok_spec. Qed.
Theorem C16_edge_meets_rectangle_means_common_point : forall lo hi a b,
  edge_meets_rect lo hi a b = true <-> SegHitsRect lo hi a b.
Proof. exact edge_meets_rect_point_spec. Qed.
Theorem C16_segments_meet_means_common_point : forall a b c d, seg_meet a b c d = true <-> SegMeet a b c d.
Proof. exact seg_meet_spec. Qed.

(* ---- the executable model of the flood fill (Query/FloodFill.v) ---- *)
Theorem C16_metric_rect_edge : forall lo hi a b, pnt_eqb a b = false -> rect_is_edge_inside lo hi a b = edge_meets_rect lo hi a b.
Proof. exact rect_is_edge_inside_spec. Qed.
Theorem C16_metric_rect_point : forall lo hi p, rect_is_point_inside lo hi p = in_rect lo hi p.
Proof. exact rect_is_point_inside_spec. Qed.
Theorem C16_metric_circle_edge : forall c r2 a b, pnt_eqb a b = false -> circle_is_edge_inside c r2 a b = edge_meets_circle c r2 a b.
Proof. exact circle_is_edge_inside_spec. Qed.
Theorem C16_metric_circle_point : forall c r2 p, circle_is_point_inside c r2 p = in_circle c r2 p.
Proof. exact circle_is_point_inside_spec. Qed.

(* whatever the model yields is in range and satisfies the declarative specification *)
Theorem C16_model_sound : forall s pts, DW (dcel_of_obs s) ->
  (forall e, e < nH s -> pnt_eqb (eorg s pts e) (edst s pts e) = false) ->
  forall fuel lo hi loc l, get_edges_in_rectangle pts (dcel_of_obs s) fuel lo hi loc = Some l ->
  forall k, In k l -> k < num_undirected_edges (dcel_of_obs s) /\ EdgeMeetsRect lo hi (eorg s pts (2 * k)) (edst s pts (2 * k)).
Proof. exact model_edges_in_rectangle_sound. Qed.
Theorem C16_model_sound_vertices_rect : forall s pts, DW (dcel_of_obs s) ->
  forall fuel lo hi loc l, get_vertices_in_rectangle pts (dcel_of_obs s) fuel lo hi loc = Some l ->
  forall v, In v l -> v < nV s /\ InRect lo hi (pos pts v).
Proof. exact model_vertices_in_rectangle_sound. Qed.
Theorem C16_model_sound_edges_circle : forall s pts, DW (dcel_of_obs s) ->
  (forall e, e < nH s -> pnt_eqb (eorg s pts e) (edst s pts e) = false) ->
  forall fuel c r2 loc l, get_edges_in_circle pts (dcel_of_obs s) fuel c r2 loc = Some l ->
  forall k, In k l -> k < num_undirected_edges (dcel_of_obs s) /\ EdgeMeetsCircle c r2 (eorg s pts (2 * k)) (edst s pts (2 * k)).
Proof. exact model_edges_in_circle_sound. Qed.
Theorem C16_model_sound_vertices_circle : forall s pts, DW (dcel_of_obs s) ->
  forall fuel c r2 loc l, get_vertices_in_circle pts (dcel_of_obs s) fuel c r2 loc = Some l ->
  forall v, In v l -> v < nV s /\ InCircle c r2 (pos pts v).
Proof. exact model_vertices_in_circle_sound. Qed.
(* every metric: what is yielded passed the metric's test; more fuel never changes an answer *)
Theorem C16_model_inside : forall d m fuel loc l, edges_in_shape d m fuel loc = Some l -> forall k, In k l -> m_edge m k = true.
Proof. exact edges_in_shape_sound. Qed.
Theorem C16_model_fuel_mono : forall d m fuel loc l, edges_in_shape d m fuel loc = Some l ->
  forall fuel', fuel <= fuel' -> edges_in_shape d m fuel' loc = Some l.
Proof. exact edges_in_shape_mono. Qed.
(* degenerate states: termination within ff_fuel, and the whole specification *)
Theorem C16_model_line_terminates : forall d m loc,
  num_faces d = 1 -> m_start m = true -> num_undirected_edges d <= num_directed_edges d ->
  edges_in_shape d m (ff_fuel d) loc = Some (inside_edges d m).
Proof. exact edges_in_shape_line. Qed.
Theorem C16_model_line_rect : forall s pts, DW (dcel_of_obs s) ->
  (forall e, e < nH s -> pnt_eqb (eorg s pts e) (edst s pts e) = false) ->
  forall lo hi loc, num_faces (dcel_of_obs s) = 1 -> o_ne s = num_undirected_edges (dcel_of_obs s) ->
  exists l, get_edges_in_rectangle pts (dcel_of_obs s) (ff_fuel (dcel_of_obs s)) lo hi loc = Some l /\ EdgesInRectOk s pts lo hi l.
Proof. exact model_edges_in_rectangle_line_spec. Qed.
Theorem C16_model_line_circle : forall s pts, DW (dcel_of_obs s) ->
  (forall e, e < nH s -> pnt_eqb (eorg s pts e) (edst s pts e) = false) ->
  forall c r2 loc, num_faces (dcel_of_obs s) = 1 -> o_ne s = num_undirected_edges (dcel_of_obs s) -> (0 <= fst r2)%Z ->
  exists l, get_edges_in_circle pts (dcel_of_obs s) (ff_fuel (dcel_of_obs s)) c r2 loc = Some l /\ EdgesInCircleOk s pts c r2 l.
Proof. exact model_edges_in_circle_line_spec. Qed.
Theorem C16_model_line_vertices_rect : forall s pts, DW (dcel_of_obs s) -> (2 <= nV s -> nH s <> 0) ->
  forall lo hi loc, num_faces (dcel_of_obs s) = 1 ->
  exists l, get_vertices_in_rectangle pts (dcel_of_obs s) (ff_fuel (dcel_of_obs s)) lo hi loc = Some l /\ VerticesInRectOk s pts lo hi l.
Proof. exact model_vertices_in_rectangle_line_spec. Qed.
Theorem C16_model_line_vertices_circle : forall s pts, DW (dcel_of_obs s) ->
  (forall e, e < nH s -> pnt_eqb (eorg s pts e) (edst s pts e) = false) -> (2 <= nV s -> nH s <> 0) ->
  forall c r2 loc, num_faces (dcel_of_obs s) = 1 -> (0 <= fst r2)%Z ->
  exists l, get_vertices_in_circle pts (dcel_of_obs s) (ff_fuel (dcel_of_obs s)) c r2 loc = Some l /\ VerticesInCircleOk s pts c r2 l.
Proof. exact model_vertices_in_circle_line_spec. Qed.
(* two-dimensional states, terminating runs: completeness relative to reachability through inside edges *)
Theorem C16_model_complete_partial : forall d m, DW d -> forall fuel loc f a l,
  (num_faces d =? 1) = false -> m_start m = true ->
  start_face d m loc = Some (Some f) -> f_adjacent d f = Some a -> a < length (d_hedges d) -> Dcel.WfCore.inner d a ->
  edges_in_shape d m fuel loc = Some l ->
  forall x, reach d m a x -> ine m x = true -> In (as_undirected x) l.
Proof. exact edges_in_shape_complete_partial. Qed.
Theorem C16_model_complete_partial_vertices : forall d m, DW d -> forall fuel loc f a l,
  (num_faces d =? 1) = false -> m_start m = true ->
  start_face d m loc = Some (Some f) -> f_adjacent d f = Some a -> a < length (d_hedges d) -> Dcel.WfCore.inner d a ->
  vertices_in_shape d m fuel loc = Some l ->
  forall x, reach d m a x -> m_vert m (e_origin d x) = true -> In (e_origin d x) l.
Proof. exact vertices_in_shape_complete_partial. Qed.
Theorem C16_model_complete_connected : forall d m, DW d -> forall fuel loc f a l,
  (num_faces d =? 1) = false -> m_start m = true ->
  start_face d m loc = Some (Some f) -> f_adjacent d f = Some a -> a < length (d_hedges d) -> Dcel.WfCore.inner d a ->
  edges_in_shape d m fuel loc = Some l ->
  (forall k, k < num_undirected_edges d -> m_edge m k = true -> reach d m a (normalized k) \/ reach d m a (e_rev (normalized k))) ->
  forall k, k < num_undirected_edges d -> m_edge m k = true -> In k l.
Proof. exact edges_in_shape_complete_connected. Qed.

Print Assumptions C16_model_sound.
Print Assumptions C16_model_line_rect.
Print Assumptions C16_model_line_vertices_circle.
Print Assumptions C16_model_complete_connected.
Print Assumptions C16_metric_rect_edge.
Print Assumptions C16_vertices_in_rectangle.
Print Assumptions C16_edges_in_rectangle.
Print Assumptions C16_edges_in_circle.
Print Assumptions C16_edge_meets_rectangle_means_common_point.
