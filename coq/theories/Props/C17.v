(* Props/C17.v -- LineIntersectionIterator reports every crossed element once, in line order.
   Proved: the decision applied to every iterator output (linespec_b) is exactly the declarative LineSpec: every item is valid
   (vertex on the closed segment; properly crossed -- or end-touched -- edge directed so that q is not on its right; collinear
   overlapping edge pointing in the direction of travel), the output is complete (each vertex on the segment, each properly crossed
   edge and each overlapped edge exactly once, nothing else) and the parameters along the line are non-decreasing.
   The iterator itself is not modelled; its outputs are decided per query. *)
From Coq Require Import ZArith List Bool Arith.
From SpadeV Require Import Geom.Pred Obs.State Obs.Spec Obs.LineSpec Query.ViewProp Query.ViewProofs.

Theorem C17_checker_is_spec : forall s pts p q l, linespec_b s pts p q l = true <-> LineSpec s pts p q l.
Proof. exact linespec_b_spec. Qed.

Print Assumptions C17_checker_is_spec.
