(* Props/C17.v -- LineIntersectionIterator reports every crossed element once, in line order.
   Proved: the decision applied to every iterator output (linespec_b) is exactly the declarative LineSpec: every item is valid
   (vertex on the closed segment; properly crossed -- or end-touched -- edge directed so that q is not on its right; collinear
   overlapping edge pointing in the direction of travel), the output is complete (each vertex on the segment, each properly crossed
   edge and each overlapped edge exactly once, nothing else) and the parameters along the line are non-decreasing.
   The iterator is modelled in Tri/LineIter.v (index-exact correspondence with the implementation per query, Check/RunModel.v); for the model,
   on every well-formed counter-clockwise state with distinct positions and a correct start: every item is valid, the items are ordered, no item
   occurs twice (Tri/LineIterProofs.v).  Completeness of the model's output is decided per query, not proved. *)
From Coq Require Import ZArith List Bool Arith.
From SpadeV Require Import Geom.Pred Obs.State Obs.Spec Obs.SpecProp Obs.LineSpec Query.ViewProp Query.ViewProofs
  Dcel.Raw Dcel.WfCore Tri.LineIter Tri.LineIterProofs.

Theorem C17_checker_is_spec : forall s pts p q l, linespec_b s pts p q l = true <-> LineSpec s pts p q l.
Proof. exact linespec_b_spec. Qed.

Print Assumptions C17_checker_is_spec.

Theorem C17_model_sound : forall pts d a b fuel st l,
  DWf d -> FacesCcw (obs_of_dcel d) pts -> PositionsDistinct (obs_of_dcel d) pts ->
  StartSound pts d a st ->
  (match st with LsOutside _ => HullConvex pts d \/ HullChain pts d | _ => True end) ->
  line_iter pts fuel d a b st = Some l ->
  (forall it, In it l -> ItemValid (obs_of_dcel d) pts a b it) /\ Ordered (obs_of_dcel d) pts a b l /\ NoDup l.
Proof. exact line_iter_sound_spec. Qed.

Print Assumptions C17_model_sound.

(* on a well-formed state the iterator model never fails: no assertion / panic of the code is reached, the rotation around a vertex terminates *)
Theorem C17_model_total : forall pts d a b fuel st,
  DWf d -> FacesCcw (obs_of_dcel d) pts -> PositionsDistinct (obs_of_dcel d) pts ->
  StartSound pts d a st ->
  (match st with LsOutside _ => HullConvex pts d | _ => True end) ->
  2 * num_directed_edges d + Raw.num_vertices d <= fuel ->
  exists l, line_iter pts fuel d a b st = Some l.
Proof. exact line_iter_total. Qed.

Print Assumptions C17_model_total.
