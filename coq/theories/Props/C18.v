(* Props/C18.v -- The Voronoi view is the geometric dual of the Delaunay triangulation.
   Proved (exact integer arithmetic, denominators cleared): the circumcentre formula is equidistant from the three vertices; the
   in-circle determinant is the power of the fourth point with respect to the circumcircle, hence "empty circumcircle" (C01) is
   exactly "no site is closer to the Voronoi vertex than the face's own vertices"; direction_vector is the dual edge rotated by
   +90 degrees; the per-edge and per-face accessor decisions are exactly their declarative statements (from = face left of the dual
   edge, to = face on its right, outer iff that face is the outer face, face = origin, next = ccw, prev = cw; the edges of a Voronoi
   face are the out edges of the site, once each, consecutive by ccw).  The iterators terminate (Props/C07.v).
   NOT proved: "the cell encloses exactly the points having this site as nearest neighbour" (half-plane intersection). *)
From Coq Require Import ZArith List Bool Arith.
From SpadeV Require Import Geom.Pred Obs.State Obs.Spec Obs.SpecProp Query.Voronoi Query.ViewProp Query.ViewProofs.
Local Open Scope Z_scope.

Theorem C18_circumcenter_equidistant : forall (a b c : pnt) (ux uy dd : Z),
  cc_num a b c = (ux, uy, dd) ->
  dd = 2 * orient a b c /\
  ux * ux + uy * uy = (ux - (fst b - fst a) * dd) ^ 2 + (uy - (snd b - snd a) * dd) ^ 2 /\
  ux * ux + uy * uy = (ux - (fst c - fst a) * dd) ^ 2 + (uy - (snd c - snd a) * dd) ^ 2.
Proof. exact circumcenter_equidistant. Qed.

Theorem C18_empty_circle_iff_no_site_closer : forall (a b c d : pnt) (ux uy dd : Z),
  cc_num a b c = (ux, uy, dd) -> 0 < orient a b c ->
  let dx' := fst d - fst a in let dy' := snd d - snd a in
  (incircle a b c d <= 0 <-> dd ^ 2 * (dx' ^ 2 + dy' ^ 2) - 2 * dd * (ux * dx' + uy * dy') >= 0) /\
  (incircle a b c d <= 0 <-> ux * ux + uy * uy <= (dd * dx' - ux) ^ 2 + (dd * dy' - uy) ^ 2).
Proof. exact delaunay_iff_no_site_closer. Qed.

Theorem C18_accessors : forall s pts e from to dir site nxt prv rv,
  vor_edge_ok s pts e from to dir site nxt prv rv = true <-> VorEdgeOk s pts e from to dir site nxt prv rv.
Proof. exact vor_edge_ok_spec. Qed.
Theorem C18_face_edges : forall s v l, vor_face_ok s v l = true <-> VorFaceOk s v l.
Proof. exact vor_face_ok_spec. Qed.
Check direction_vector_rot90.
Check delaunay_voronoi_vertex_nearest.

Print Assumptions C18_circumcenter_equidistant.
Print Assumptions C18_empty_circle_iff_no_site_closer.
Print Assumptions C18_accessors.
Print Assumptions C18_face_edges.
