(* Props/C19.v -- Interpolation weights are proper local coordinates of the query point.
   Proved: the barycentric weights (ratios of orientation determinants) sum to 1, reproduce the query point, and are all
   non-negative exactly for points of the closed counter-clockwise face; the exact classification of the query point and the
   conflict region (faces whose circumcircle strictly contains it) used by the checker are exactly their statements.
   NOT proved: Sibson's identity for the natural-neighbour weights; the returned weights are decided per query (neighbour set
   exactly, non-negativity / sum / reproduction within a tolerance, on well-conditioned faces). *)
From Coq Require Import ZArith List Bool Arith.
From SpadeV Require Import Geom.Pred Obs.State Obs.Spec Obs.SpecProp Query.Voronoi Query.ViewProp Query.ViewProofs.
Local Open Scope Z_scope.

Theorem C19_barycentric_identity : forall (a b c q : pnt),
  orient b c q * fst a + orient c a q * fst b + orient a b q * fst c = orient a b c * fst q /\
  orient b c q * snd a + orient c a q * snd b + orient a b q * snd c = orient a b c * snd q /\
  orient b c q + orient c a q + orient a b q = orient a b c.
Proof. exact barycentric_identity. Qed.

Theorem C19_conflict_region : forall s pts q f, In f (conflict_faces s pts q) <-> InConflict s pts q f.
Proof. exact conflict_faces_spec. Qed.
Theorem C19_point_classification : forall s pts q, ClassifySpec s pts q (classify_point s pts q).
Proof. exact classify_point_spec. Qed.
Check barycentric_weights_Q.
Check barycentric_nonneg_iff_inside.

Print Assumptions C19_barycentric_identity.
Print Assumptions C19_conflict_region.
Print Assumptions C19_point_classification.
