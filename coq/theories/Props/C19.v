(* Props/C19.v -- Interpolation weights are proper local coordinates of the query point.
   Proved: the barycentric weights (ratios of orientation determinants) sum to 1, reproduce the query point, and are all
   non-negative exactly for points of the closed counter-clockwise face; the exact classification of the query point and the
   conflict region (faces whose circumcircle strictly contains it) used by the checker are exactly their statements.
   Natural-neighbour identification (task M7, Query/NatNeighbor.v tied to interpolation.rs by index-exact correspondence of the vertex
   sequences): for every answer of the locate model in a well-formed counter-clockwise triangulation the simulated insertion returns a
   closed ring of directed edges (to(e_i) = from(e_{i+1})), every face on the left of the ring is in the conflict region, every face on
   its right is not, every ring vertex is a natural neighbour of the specification (C19_natural_neighbor_ring); in a Delaunay
   triangulation the ring is counter-clockwise around a query strictly inside the hull (C19_natural_neighbor_ring_ccw); the vertices
   reported by get_weights are the origins of the ring in ring order (C19_nn_weight_vertices), those of Barycentric::get_weights the
   vertices of the located element (C19_bary_weight_vertices).
   The faces entered by the simulated insertion form a region of conflict faces that is closed under crossing into a neighbouring
   conflict face (C19_nn_region_closed); IF every conflict face can be reached from the located face through conflict faces, the set of
   ring vertices is exactly natural_neighbours q (C19_ring_vertices_eq_natural_neighbours_face / _edge: conditional).
   NOT proved: that connectedness hypothesis (it follows from the Delaunay property; out of reach here); Sibson's identity for the natural-neighbour weights; the returned weights are decided per query (neighbour set
   exactly, non-negativity / sum / reproduction within a tolerance, on well-conditioned faces). *)
From Coq Require Import ZArith List Bool Arith.
From SpadeV Require Import Geom.Pred Obs.State Obs.Spec Obs.SpecProp Query.Voronoi Query.ViewProp Query.ViewProofs
  Dcel.Raw Dcel.WfCore Dcel.ProofsFlip Tri.Legalize Tri.LegalizeProofs Tri.Insert Tri.Locate Tri.LocateProofs Tri.LineIter Query.NatNeighbor Query.NatNeighborProofs Query.NatNeighborRegionProofs.
Import ListNotations.
Local Open Scope Z_scope.

Theorem C19_barycentric_identity : forall (a b c q : pnt),
  orient b c q * fst a + orient c a q * fst b + orient a b q * fst c = orient a b c * fst q /\
  orient b c q * snd a + orient c a q * snd b + orient a b q * snd c = orient a b c * snd q /\
  orient b c q + orient c a q + orient a b q = orient a b c.
Proof. exact barycentric_identity. Qed.

Theorem C19_conflict_region : forall s pts q f, In f (conflict_faces s pts q) <-> InConflict s pts q f.
Proof. exact conflict_faces_spec. Qed.
Theorem C19_point_classification : forall s pts q, ClassifySpec s pts q (classify_point s pts q).
Proof. exact classify_point_spec. Qed.

Theorem C19_natural_neighbor_ring : forall pts fuel d q closest loc l,
  DWf d -> FacesCcw (obs_of_dcel d) pts ->
  lstart_of_lres (locate_from_closest pts d q closest) = Some loc ->
  natural_neighbor_edges pts fuel d q loc = Some l ->
  match loc with
  | LsVertex v => exists e, l = [e] /\ vpos pts v = q
  | LsEdge e =>
      if is_outer d e || is_outer d (e_rev e) then l = [e; e_rev e]
      else closed_ring d l /\ (4 <= length l)%nat /\
           forall x, In x l ->
             In (e_face d x) (conflict_faces (obs_of_dcel d) pts q) /\
             ~ In (e_face d (e_rev x)) (conflict_faces (obs_of_dcel d) pts q) /\
             In (e_origin d x) (natural_neighbours (obs_of_dcel d) pts q)
  | LsFace f =>
      closed_ring d l /\ (3 <= length l)%nat /\
      forall x, In x l ->
        In (e_face d x) (conflict_faces (obs_of_dcel d) pts q) /\
        ~ In (e_face d (e_rev x)) (conflict_faces (obs_of_dcel d) pts q) /\
        In (e_origin d x) (natural_neighbours (obs_of_dcel d) pts q)
  | _ => l = []
  end.
Proof. exact nn_ring_of_locate_partial. Qed.

Theorem C19_natural_neighbor_ring_ccw : forall pts fuel d q closest loc l,
  DWf d -> FacesCcw (obs_of_dcel d) pts -> Delaunay (obs_of_dcel d) pts ->
  (forall e, (e < length (d_hedges d))%nat -> outer d e -> osd pts d q e < 0) ->
  lstart_of_lres (locate_from_closest pts d q closest) = Some loc ->
  (match loc with LsFace _ => True | LsEdge e => inner d e /\ inner d (e_rev e) | _ => False end) ->
  natural_neighbor_edges pts fuel d q loc = Some l ->
  closed_ring d l /\
  forall x, In x l -> 0 < orient (vpos pts (e_origin d x)) (vpos pts (e_to d x)) q.
Proof. exact nn_ring_ccw_of_locate. Qed.

Theorem C19_closed_ring_chained : forall d l, closed_ring d l ->
  chained d l /\ e_to d (last l 0%nat) = e_origin d (hd 0%nat l).
Proof. exact closed_ring_chained. Qed.

Theorem C19_nn_weight_vertices : forall pts fuel d q loc vs,
  nn_weight_vertices pts fuel d q loc = Some vs ->
  exists l, natural_neighbor_edges pts fuel d q loc = Some l /\
            (vs = map (e_origin d) l \/ (length l = 1%nat /\ num_directed_edges d = 0%nat /\ vs = [0%nat])).
Proof. exact nn_weight_vertices_origins. Qed.

Theorem C19_bary_weight_vertices : forall d loc vs,
  DW d -> bary_weight_vertices d loc = Some vs ->
  match loc with
  | LsVertex v => vs = [v]
  | LsEdge e => vs = [org (obs_of_dcel d) e; dest (obs_of_dcel d) e]
  | LsFace f => (f < length (d_faces d))%nat -> f <> 0%nat ->
                length vs = 3%nat /\ forall v, In v vs <-> In v (face_vertices (obs_of_dcel d) f)
  | _ => vs = []
  end.
Proof. exact bary_weight_vertices_spec. Qed.

Theorem C19_nn_region_closed : forall pts d q start l fl,
  DW d -> RegionOf pts d q start l fl ->
  (forall e, In e fl -> In (e_face d e) (conflict_faces (obs_of_dcel d) pts q)) /\
  (forall x, (x < length (d_hedges d))%nat -> in_region d start fl (e_face d x) ->
     In (e_face d (e_rev x)) (conflict_faces (obs_of_dcel d) pts q) -> in_region d start fl (e_face d (e_rev x))).
Proof. exact nn_region_closed. Qed.

Theorem C19_nn_region_exists_face : forall pts fuel d q f l,
  DW d -> EdgesCcw pts d -> LocFace pts d q f ->
  natural_neighbor_edges pts fuel d q (LsFace f) = Some l ->
  exists fl, RegionOf pts d q (eq f) l fl.
Proof. exact nn_region_face. Qed.

Theorem C19_ring_vertices_eq_natural_neighbours_face : forall pts fuel d q f l,
  DW d -> EdgesCcw pts d -> LocFace pts d q f ->
  natural_neighbor_edges pts fuel d q (LsFace f) = Some l ->
  (forall F, In F (conflict_faces (obs_of_dcel d) pts q) -> conflict_reach pts d q (eq f) F) ->
  forall v, In v (map (e_origin d) l) <-> In v (natural_neighbours (obs_of_dcel d) pts q).
Proof. exact nn_ring_vertices_eq_natural_face_partial. Qed.

Theorem C19_ring_vertices_eq_natural_neighbours_edge : forall pts fuel d q e l,
  DW d -> EdgesCcw pts d -> LocEdge pts d q e -> inner d e -> inner d (e_rev e) ->
  natural_neighbor_edges pts fuel d q (LsEdge e) = Some l ->
  (forall F, In F (conflict_faces (obs_of_dcel d) pts q) -> conflict_reach pts d q (eq (e_face d e)) F) ->
  forall v, In v (map (e_origin d) l) <-> In v (natural_neighbours (obs_of_dcel d) pts q).
Proof. exact nn_ring_vertices_eq_natural_edge_partial. Qed.
Check barycentric_weights_Q.
Check barycentric_nonneg_iff_inside.

Print Assumptions C19_barycentric_identity.
Print Assumptions C19_conflict_region.
Print Assumptions C19_point_classification.
Print Assumptions C19_natural_neighbor_ring.
Print Assumptions C19_natural_neighbor_ring_ccw.
Print Assumptions C19_closed_ring_chained.
Print Assumptions C19_nn_weight_vertices.
Print Assumptions C19_bary_weight_vertices.
Print Assumptions C19_nn_region_closed.
Print Assumptions C19_nn_region_exists_face.
Print Assumptions C19_ring_vertices_eq_natural_neighbours_face.
Print Assumptions C19_ring_vertices_eq_natural_neighbours_edge.
