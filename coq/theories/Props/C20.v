(* Props/C20.v -- refine() keeps the input geometry and honours its documented contract.
   The refinement loop is not modelled.  Decided per call on the implementation's before/after states (Refine/Outer.v): the vertex
   prefix is bit-identical, the vertex budget is respected, original constraints are covered by chains of constraint edges through
   Steiner points (or kept unchanged with keep_constraint_edges), excluded_faces equals the parity specification (0-1 breadth
   first search from the outer face; even layers), the result is a well-formed DCEL.  Angle / area guarantees are not decided.
   Proved: the result-list decision is exactly set equality without duplicates. *)
From Coq Require Import ZArith List Bool Arith.
From SpadeV Require Import Geom.Pred Obs.State Obs.Spec Obs.Query Obs.QueryProp Obs.QueryProofs.

Theorem C20_excluded_list_decision : forall expected n got, same_set expected n got = true <-> SameSet expected n got.
Proof. exact same_set_spec. Qed.

Print Assumptions C20_excluded_list_decision.
