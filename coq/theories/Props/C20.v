(* Props/C20.v -- refine() keeps the input geometry and honours its documented contract.
   The refinement loop is modelled in Refine/RefineModel.v (theorems in Props/C20b.v; tie: index-exact correspondence).  Decided per call on the implementation's before/after states (Check/Run.v check_refine,
   Refine/Outer.v): the vertex prefix is bit-identical, the vertex budget is respected, original constraints are covered by walks of
   constraint edges through Steiner points (or kept unchanged with keep_constraint_edges), excluded_faces equals the parity specification,
   the result is a well-formed DCEL.  Angle / area guarantees are not decided.
   Proved here (Refine/OuterProp.v, Refine/OuterProofs.v): the executable parity specification is exactly the declarative one --
   `layers` computes, for every k, the set of faces whose cheapest dual path from the outer face crosses exactly k constraint edges
   (soundness and completeness; the fuel of free_closure and of layers is proved sufficient by counting faces, no fuel hypothesis);
   a face is expected to be excluded iff it is an inner face of even depth; excluded_ok and the whole T_refine verdict (including the
   budget clause nV n <= nV p + max_additional_vertices) are their declarative statements.  The only hypotheses are the range facts
   FacesInRange / DestInRange, which follow from well-formedness (decided on every state, tag wf).
   Satisfiability of all hypotheses on a real run with a hole: OuterProofs.ex_ref_*. *)
From Coq Require Import ZArith List Bool Arith.
From SpadeV Require Import Geom.Pred Obs.State Obs.Spec Obs.SpecProp Obs.Query Obs.QueryProp Obs.QueryProofs Refine.Outer Check.Codes Check.Run
  Cdt.SplitProp Cdt.SplitProofs Refine.OuterProp Refine.OuterProofs.
From SpadeV Require Props.C20b.        (* continuation: theorems about the executable models of refine *)
Import ListNotations.

Theorem C20_excluded_list_decision : forall expected n got, same_set expected n got = true <-> SameSet expected n got.
Proof. exact same_set_spec. Qed.

(* closure under free edges: sound, complete, fuel sufficient whenever fuel + |layer| >= number of faces *)
Theorem C20_free_closure : forall s, FacesInRange s -> forall fuel seen layer,
  NoDup layer -> (forall f, In f layer -> f < nF s) -> nF s <= fuel + length layer ->
  NoDup (free_closure s fuel seen layer) /\
  (forall f, In f (free_closure s fuel seen layer) <-> FreeClosure s seen layer f).
Proof. exact free_closure_spec. Qed.

(* the k-th computed layer is exactly the set of faces of depth k (minimal number of constraint edges crossed from the outer face) *)
Theorem C20_layers : forall s, FacesInRange s -> forall k f,
  In f (nth k (layers s (nF s + 1) [] [0]) []) <-> Layer s k f.
Proof. exact layers_spec. Qed.

Theorem C20_depth_unique : forall s k k' f, Layer s k f -> Layer s k' f -> k = k'.
Proof. exact Layer_unique. Qed.

Theorem C20_parity_excluded : forall s, FacesInRange s -> forall f, In f (parity_excluded s) <-> ParityExcluded s f.
Proof. exact parity_excluded_spec. Qed.

Theorem C20_excluded_ok : forall s, FacesInRange s -> forall got, excluded_ok s got = true <-> ExcludedOk s got.
Proof. exact excluded_ok_spec. Qed.

(* original constraints: covered through Steiner vertices / kept *)
Theorem C20_constraints_covered : forall p n npts, DestInRange n ->
  (constraints_covered p n npts = true <-> ConstraintsCovered p n npts).
Proof. exact constraints_covered_spec. Qed.

Theorem C20_constraints_kept : forall p n, constraints_kept p n = true <-> ConstraintsKept p n.
Proof. exact constraints_kept_spec. Qed.

(* the verdict reported under tag `refine`, with the budget clause as plain arithmetic (RefineOk) *)
Theorem C20_refine_verdict : forall p n npts maxv keep excl nex got, DestInRange n -> FacesInRange n ->
  (refine_verdict p n npts maxv keep excl nex got = true <-> RefineOk p n npts maxv keep excl nex got).
Proof. exact refine_verdict_spec. Qed.

Theorem C20_wf_gives_ranges : forall s, Wf s -> FacesInRange s /\ DestInRange s.
Proof. exact Wf_ranges. Qed.

(* check_refine of Check/Run.v is refine_verdict applied to the parsed arguments and the decoded positions.  (Its statement mentions
   obs_points, i.e. the binary64 decoding through Flocq, hence the four Flocq/Reals axioms in its assumptions.) *)
Theorem C20_check_refine_is_refine_verdict : forall p n r1 r2 r3 maxv keep excl complete ne ex npts,
  obs_points n = Some npts ->
  check_refine p n [r1; r2; r3; maxv; keep; excl] (complete :: ne :: ex) =
  [(T_refine, refine_verdict p n npts (if (maxv =? K_dash)%Z then None else Some (Z.to_nat maxv))
                             (keep =? 1)%Z (excl =? 1)%Z (Z.to_nat ne) (map Z.to_nat ex))].
Proof. exact check_refine_unfold. Qed.

Print Assumptions C20_excluded_list_decision.
Print Assumptions C20_free_closure.
Print Assumptions C20_layers.
Print Assumptions C20_depth_unique.
Print Assumptions C20_parity_excluded.
Print Assumptions C20_excluded_ok.
Print Assumptions C20_constraints_covered.
Print Assumptions C20_constraints_kept.
Print Assumptions C20_refine_verdict.
Print Assumptions C20_wf_gives_ranges.
Print Assumptions C20_check_refine_is_refine_verdict.
