(* Props/C20b.v -- C20 continued: theorems about the executable models of refine (Refine/OuterModel.v, Refine/RefineModel.v), which are tied to
   the implementation by index-exact correspondence on every refine call (Check/RunModel.v, tag corr).
   * C20_outer_model: on every well-formed state the model of calculate_outer_faces terminates within its fuel and returns a duplicate-free
     list containing exactly the faces of parity_excluded, i.e. (C20_parity_excluded) the inner faces of even depth.
   * C20_outer_model_accepts: what the executable specification excluded_ok accepts are exactly the duplicate-free enumerations of the model's set.
   * C20_model_frame: for every input, parameter set, scalar type and fuel the model of the whole refinement keeps the vertex table as a prefix
     (positions and payloads: handles are stable), appends only vertices with the payload of From<Point2>, and never more than
     max_additional_vertices (default 10 x the number of vertices) of them.
   * C20_model_complete / C20_model_incomplete: refinement_complete = true only with the three work queues empty, false only with the budget reached.
   * C20_model_budget_zero: with max_additional_vertices = 0 and exclude_outer_faces the whole-loop model returns the input DCEL and, on
     well-formed states, a duplicate-free enumeration of parity_excluded (stage 1 is the special case of stage 2).
   (The statements about the whole-loop model mention Flocq's binary floats, hence the four Flocq/Reals axioms in their assumptions.) *)
From Coq Require Import ZArith List Bool Arith.
From Flocq Require Import Core.Core IEEE754.BinarySingleNaN.
From SpadeV Require Import Obs.State Obs.SpecProp Dcel.Raw Refine.Outer Refine.OuterProp Refine.OuterModel Refine.OuterModelProofs
  Refine.RefineFloat Refine.RefineModel Refine.RefineModelProofs.
Import ListNotations.

Theorem C20_outer_model : forall s, Wf s ->
  exists l, calculate_outer_faces (dcel_of_obs s) = Some l /\ NoDup l /\ forall f, In f l <-> In f (parity_excluded s).
Proof. exact outer_model_is_parity_excluded. Qed.

Theorem C20_outer_model_accepts : forall s, Wf s ->
  exists l, calculate_outer_faces (dcel_of_obs s) = Some l /\
            forall got, excluded_ok s got = true <-> (NoDup got /\ forall f, In f got <-> In f l).
Proof. exact outer_model_excluded_ok. Qed.

Theorem C20_model_frame : forall prec emax Hp Hm (P : rparams prec emax) lfuel mfuel d r,
  refine_model prec emax Hp Hm P lfuel mfuel d = Some r ->
  exists extra, vkeys (rr_d r) = vkeys d ++ extra /\ Forall steiner_key extra /\ length extra <= additional_of prec emax P d.
Proof. exact refine_model_frame. Qed.

Theorem C20_model_complete : forall prec emax Hp Hm (P : rparams prec emax) lfuel max_allowed fuel st st',
  main_loop prec emax Hp Hm P lfuel max_allowed fuel st = Some (st', true) ->
  rs_forced _ _ st' = [] /\ rs_segs _ _ st' = [] /\ rs_skinny _ _ st' = [].
Proof. exact main_loop_complete. Qed.

Theorem C20_model_incomplete : forall prec emax Hp Hm (P : rparams prec emax) lfuel max_allowed fuel st st',
  main_loop prec emax Hp Hm P lfuel max_allowed fuel st = Some (st', false) ->
  max_allowed <= Raw.num_vertices (rs_d _ _ st').
Proof. exact main_loop_incomplete. Qed.

Theorem C20_model_budget_zero : forall prec emax Hp Hm (P : rparams prec emax) lfuel mfuel s, Wf s ->
  rp_max_additional _ _ P = Some 0 -> rp_excl _ _ P = true ->
  exists l, refine_model prec emax Hp Hm P lfuel (S mfuel) (dcel_of_obs s) = Some (mkrr (dcel_of_obs s) 0 false l false) /\
            NoDup l /\ forall f, In f l <-> In f (parity_excluded s).
Proof. exact refine_model_budget_zero_parity. Qed.

Print Assumptions C20_outer_model.
Print Assumptions C20_outer_model_accepts.
Print Assumptions C20_model_frame.
Print Assumptions C20_model_complete.
Print Assumptions C20_model_incomplete.
Print Assumptions C20_model_budget_zero.
