(* Query/FloodFill.v -- hand-written executable model of the rectangle / circle queries (src/flood_fill_iterator.rs):
   FloodFillIterator::new / get_start_edges / next, EdgesInShapeIterator, VerticesInShapeIterator, RectangleMetric, CircleMetric and
   the four entry points get_{edges,vertices}_in_{rectangle,circle} of triangulation.rs.  Definitions only; the theorems are in
   Query/FloodFillProofs.v.

   Structure.
   * The iterator (`ff_*`) is written over an abstract metric (`metric`: is_handle_inside per undirected edge, is_point_inside per
     vertex, is_point_inside(start_point)).  It follows the code statement by statement: the VecDeque `edge_loop` is a list (front =
     head), `pending` an option, the HashSet `already_visited` a list used as a set (insert / remove / contains only).
   * Two families of metrics instantiate it: the exact ones of this file (integer coordinates on a common scale; the code's control
     flow with every floating-point expression replaced by the exact rational value) and the IEEE ones of Query/FloodFillFloat.v
     (binary64 / binary32 operations of Flocq, operation for operation).
   * The start: `t.locate(start_point)` is a parameter (`lres` of Tri/Locate.v); the checker quantifies over the start vertices of the
     locate model (the hint comes from the hint generator).  The convex-hull search of the OutsideOfConvexHull branch, the out-edge
     search of the OnVertex branch and the degenerate branch (all vertices on a line: every undirected edge inside the shape, both
     directions) are modelled here.
   * Loops: `next`'s `while let` and the iteration itself share one explicit fuel counting the pops from `edge_loop` and the takes of
     `pending` (None = out of fuel; the real iterator would not terminate).  The circular iterators carry the fuel of Query/Hull.v.
   * Not modelled: the iteration order of hashbrown's HashSet (ahash, seeded per process).  It determines only the order in which
     VerticesInShapeIterator yields its `initial_elements` (the origins of the start edges; at most three in two-dimensional states).
     The vertex models return these first, in a fixed order, and their number separately (`*_initial`); the correspondence compares
     that prefix as a set and the rest of the list element by element.

   Tie to the code (Check/RunModel.v, tag corr): the result list of every vrect / erect / vcirc / ecirc operation must be the
   model's list, in order and with multiplicity. *)
From Coq Require Import ZArith List Bool Arith.
From SpadeV Require Import Num.Decode Num.Decode2 Geom.Pred Obs.State Dcel.Raw Query.Hull Tri.Legalize Tri.Insert Tri.Locate.
Import ListNotations.

(* ------------------------------------------------------------------ the metric, as far as the iterator sees it *)
Record metric := mkmetric {
  m_edge : nat -> bool;        (* is_handle_inside(undirected edge k) = is_edge_inside([from(2k).position, to(2k).position]) *)
  m_vert : nat -> bool;        (* DistanceMetric::is_point_inside(vertex(v).position()) = distance_to_point(..) <= 0 *)
  m_start : bool               (* DistanceMetric::is_point_inside(start_point) *)
}.

(* VecDeque helpers *)
Definition front (l : list nat) : option nat := match l with [] => None | x :: _ => Some x end.
Fixpoint back (l : list nat) : option nat := match l with [] => None | [x] => Some x | _ :: t => back t end.
Definition pop_back (l : list nat) : list nat := removelast l.
Definition opt_is (o : option nat) (x : nat) : bool := match o with Some y => y =? x | None => false end.
(* HashSet helpers *)
Definition set_remove (x : nat) (l : list nat) : list nat := filter (fun y => negb (y =? x)) l.
Definition set_insert (x : nat) (l : list nat) : list nat := if memb x l then l else x :: l.

Record ffstate := mkff { ff_loop : list nat; ff_pending : option nat; ff_visited : list nat }.

Inductive ffstep := FYield (e : nat) (v : option nat) (st : ffstate) | FContinue (st : ffstate) | FDone.

Section FF.
Variable d : dcel.
Variable m : metric.

Definition ine (e : nat) : bool := m_edge m (as_undirected e).      (* metric.is_handle_inside(e.as_undirected()) *)

(* one iteration of `while let Some(next) = self.edge_loop.pop_front()` in FloodFillIterator::next (pending is None here) *)
Definition ff_pop (st : ffstate) : ffstep :=
  match ff_loop st with
  | [] => FDone
  | e :: rest =>
    let vis := ff_visited st in
    if negb (ine e) then FContinue (mkff rest None vis)
    else if opt_is (front rest) (e_rev e) then FYield e None (mkff (tl rest) None vis)
    else if opt_is (back rest) (e_rev e) then FYield e None (mkff (pop_back rest) None vis)
    else if is_outer d e then FYield e None (mkff rest None vis)
    else
      let new_edge_1 := e_rev (e_prev d e) in
      let new_edge_2 := e_rev (e_next d e) in
      if opt_is (front rest) (e_next d e) then
        FYield e None (mkff (new_edge_1 :: tl rest) (front rest) (set_remove (e_to d e) vis))
      else if opt_is (back rest) (e_prev d e) then
        FYield e None (mkff (pop_back rest ++ [new_edge_2]) (back rest) (set_remove (e_origin d e) vis))
      else
        let new_vertex := e_to d new_edge_1 in
        if memb new_vertex vis then
          match ine new_edge_1, ine new_edge_2 with
          | true, true => FContinue (mkff (rest ++ [e]) None vis)
          | true, false => FYield e None (mkff (rest ++ [new_edge_1]) None vis)
          | false, true => FYield e None (mkff (rest ++ [new_edge_2]) None vis)
          | false, false => FYield e None (mkff rest None vis)
          end
        else FYield e (Some new_vertex) (mkff (rest ++ [new_edge_1; new_edge_2]) None (new_vertex :: vis))
  end.

(* repeated FloodFillIterator::next until it returns None; the items are (directed edge, new vertex) *)
Fixpoint ff_run (fuel : nat) (st : ffstate) : option (list (nat * option nat)) :=
  match fuel with
  | O => None
  | S k =>
    match ff_pending st with
    | Some p =>
        let st' := mkff (ff_loop st) None (ff_visited st) in
        if ine p then option_map (cons (p, None)) (ff_run k st') else ff_run k st'
    | None =>
        match ff_pop st with
        | FDone => Some []
        | FContinue st' => ff_run k st'
        | FYield e v st' => option_map (cons (e, v)) (ff_run k st')
        end
    end
  end.

(* ---- get_start_edges ---- *)
(* FaceHandle::adjacent_edges().into_iter().rev() mapped to rev *)
Definition face_start_edges (f : nat) : list nat :=
  match f_adjacent d f with
  | Some a => [e_rev (e_next d a); e_rev a; e_rev (e_prev d a)]
  | None => []                                                        (* unwrap on None: panic *)
  end.
Definition inner_face_of (e : nat) : option nat := if is_outer d e then None else Some (e_face d e).   (* face().as_inner() *)

(* the match on t.locate(start_point); None = no start face *)
Definition start_face (loc : lres) : option (option nat) :=
  match loc with
  | ROnVertex v =>
      match v_out_edge d v with
      | None => Some None
      | Some a =>
          match circ_iter (d_ccw d) (num_directed_edges d) a a with
          | Some outs => Some (match filter (fun e => negb (is_outer d e)) outs with e :: _ => Some (e_face d e) | [] => None end)
          | None => None
          end
      end
  | ROnEdge e => Some (match inner_face_of e with Some f => Some f | None => inner_face_of (e_rev e) end)
  | ROnFace f => Some (Some f)
  | ROutside _ =>
      match f_adjacent d 0 with
      | None => Some None
      | Some a =>
          match circ_iter (e_next d) (num_directed_edges d) a a with
          | Some hull => Some (match find ine hull with Some e => inner_face_of (e_rev e) | None => None end)
          | None => None
          end
      end
  | RPanic => None
  end.

Definition line_start_edges : list nat :=
  flat_map (fun k => [normalized k; e_rev (normalized k)]) (filter (m_edge m) (seq 0 (num_undirected_edges d))).

(* `loc` is consulted only in two-dimensional states with the start point inside the shape *)
Definition start_edges (loc : lres) : option (list nat) :=
  if negb (m_start m) then Some []
  else if num_faces d =? 1 then Some line_start_edges                 (* all_vertices_on_line() *)
  else match start_face loc with
       | Some (Some f) => Some (face_start_edges f)
       | Some None => Some []
       | None => None
       end.

Fixpoint dedup (l : list nat) : list nat :=
  match l with [] => [] | x :: t => if memb x t then dedup t else x :: dedup t end.

(* FloodFillIterator::new *)
Definition ff_new (loc : lres) : option ffstate :=
  match start_edges loc with
  | Some es => Some (mkff es None (dedup (map (e_origin d) es)))
  | None => None
  end.

(* EdgesInShapeIterator collected *)
Definition edges_in_shape (fuel : nat) (loc : lres) : option (list nat) :=
  match ff_new loc with
  | Some st => option_map (map (fun it => as_undirected (fst it))) (ff_run fuel st)
  | None => None
  end.

(* VerticesInShapeIterator::new: initial_elements (as a set; the code pops them in the HashSet's iteration order) *)
Definition initial_elements (st : ffstate) : list nat :=
  if num_vertices d =? 1 then [0] else ff_visited st.
Definition vertices_initial (loc : lres) : option (list nat) :=
  match ff_new loc with
  | Some st => Some (filter (m_vert m) (initial_elements st))
  | None => None
  end.
Definition new_vertices (items : list (nat * option nat)) : list nat :=
  flat_map (fun it => match snd it with Some v => if m_vert m v then [v] else [] | None => [] end) items.
(* VerticesInShapeIterator collected: the initial elements that are inside (in the model's order), then the new vertices inside *)
Definition vertices_in_shape (fuel : nat) (loc : lres) : option (list nat) :=
  match ff_new loc with
  | Some st =>
      match ff_run fuel st with
      | Some items => Some (filter (m_vert m) (initial_elements st) ++ new_vertices items)
      | None => None
      end
  | None => None
  end.
End FF.

(* the fuel that always suffices on well-formed states (Query/FloodFillProofs.v) *)
Definition ff_fuel (d : dcel) : nat := num_directed_edges d + num_vertices d + 1.

(* ------------------------------------------------------------------ exact metrics *)
(* PointProjection of math::project_point(p1, p2, q): factor = (q - p1).(p2 - p1), length_2 = |p2 - p1|^2;
   is_on_edge = !(factor < 0) && !(factor > length_2) *)
Definition proj_is_on_edge (p1 p2 q : pnt) : bool :=
  negb (dot p1 p2 q <? 0)%Z && negb (dist2 p1 p2 <? dot p1 p2 q)%Z.

(* math::distance_2(p1, p2, q) <= r2 with the exact value of every expression: nearest_point takes p1 + dir * (factor / length_2)
   when the projection is on the edge (distance^2 = orient^2 / length_2), p1 when it is before, p2 when it is behind.
   A degenerate edge (p1 = p2, only among the sides of a rectangle) gives 0 / 0 = NaN, for which every comparison is false. *)
Definition seg_dist2_le (p1 p2 q : pnt) (r2 : dy) : bool :=
  let factor := dot p1 p2 q in
  let length_2 := dist2 p1 p2 in
  if proj_is_on_edge p1 p2 q then
    if (length_2 =? 0)%Z then false
    else dy_leb ((orient p1 p2 q * orient p1 p2 q)%Z, 0%Z) ((fst r2 * length_2)%Z, snd r2)
  else if (factor <? 0)%Z then dy_leb (dist2 q p1, 0%Z) r2
  else dy_leb (dist2 q p2, 0%Z) r2.

Section Metrics.
Variable pts : list pnt.            (* exact vertex positions by vertex index, on the scale of the shape's parameters *)
Variable d : dcel.

Definition epos (k : nat) : pnt * pnt := (vpos pts (e_origin d (normalized k)), vpos pts (e_to d (normalized k))).

(* ---- CircleMetric { center, radius_2 } ---- *)
Definition circle_is_edge_inside (c : pnt) (r2 : dy) (p0 p1 : pnt) : bool := seg_dist2_le p0 p1 c r2.
(* distance_to_point(p) = center.distance_2(p) - radius_2;  is_point_inside = (.. <= 0) *)
Definition circle_is_point_inside (c : pnt) (r2 : dy) (p : pnt) : bool := dy_leb (dist2 c p, 0%Z) r2.
Definition circle_metric (c : pnt) (r2 : dy) : metric :=
  mkmetric (fun k => let '(a, b) := epos k in circle_is_edge_inside c r2 a b)
           (fun v => circle_is_point_inside c r2 (vpos pts v))
           (circle_is_point_inside c r2 c).

(* ---- RectangleMetric { lower, upper } ---- *)
Definition rect_is_inverted (lo hi : pnt) : bool := (fst hi <? fst lo)%Z || (snd hi <? snd lo)%Z.
(* the inherent RectangleMetric::is_point_inside *)
Definition rect_contains (lo hi p : pnt) : bool :=
  ((fst lo <=? fst p)%Z && (snd lo <=? snd p)%Z) && ((fst p <=? fst hi)%Z && (snd p <=? snd hi)%Z).
Definition rect_edges (lo hi : pnt) : list (pnt * pnt) :=
  let v0 := lo in let v1 := (fst lo, snd hi) in let v2 := hi in let v3 := (fst hi, snd lo) in
  [(v0, v1); (v1, v2); (v2, v3); (v3, v0)].
(* get_edge_intersections(v0, v1, e0, e1): (divisor, numerator of s0, numerator of s1) *)
Definition edge_intersections (v0 v1 e0 e1 : pnt) : Z * Z * Z :=
  let x4 := fst v1 in let x3 := fst v0 in let x2 := fst e1 in let x1 := fst e0 in
  let y4 := snd v1 in let y3 := snd v0 in let y2 := snd e1 in let y1 := snd e0 in
  ((y4 - y3) * (x2 - x1) - (x4 - x3) * (y2 - y1),
   (x2 - x1) * (y1 - y3) - (y2 - y1) * (x1 - x3),
   (x4 - x3) * (y1 - y3) - (y4 - y3) * (x1 - x3))%Z.
(* (0..=1).contains(&(n / dv)) for dv <> 0 *)
Definition unit_contains (n dv : Z) : bool :=
  if (0 <? dv)%Z then (0 <=? n)%Z && (n <=? dv)%Z else (dv <=? n)%Z && (n <=? 0)%Z.
(* the body of `for [v0, v1] in self.edges()`: true = return true, false = next side *)
Definition rect_side_hit (from to v0 v1 : pnt) : bool :=
  let '(dv, n0, n1) := edge_intersections v0 v1 from to in
  if (dv =? 0)%Z then
    if negb (orient from to v0 =? 0)%Z then false
    else proj_is_on_edge from to v0 || proj_is_on_edge from to v1
  else unit_contains n0 dv && unit_contains n1 dv.
Definition rect_is_edge_inside (lo hi from to : pnt) : bool :=
  if rect_is_inverted lo hi then false
  else if rect_contains lo hi from || rect_contains lo hi to then true
  else if pnt_eqb lo hi then (orient from to lo =? 0)%Z && proj_is_on_edge from to lo
  else existsb (fun s => rect_side_hit from to (fst s) (snd s)) (rect_edges lo hi).
(* distance_to_point(p) <= 0: infinity when inverted, |p - lower|^2 for a point rectangle, 0 inside, else the minimum over the four sides
   (f64::min skips the NaN of a degenerate side) *)
Definition rect_is_point_inside (lo hi p : pnt) : bool :=
  if rect_is_inverted lo hi then false
  else if pnt_eqb lo hi then (dist2 p lo <=? 0)%Z
  else if rect_contains lo hi p then true
  else existsb (fun s => seg_dist2_le (fst s) (snd s) p (0%Z, 0%Z)) (rect_edges lo hi).
Definition rect_metric (lo hi c : pnt) : metric :=
  mkmetric (fun k => let '(a, b) := epos k in rect_is_edge_inside lo hi a b)
           (fun v => rect_is_point_inside lo hi (vpos pts v))
           (rect_is_point_inside lo hi c).
End Metrics.

(* ------------------------------------------------------------------ the four queries
   All coordinates are integers on one scale on which the start point is an integer too: for the rectangle queries the caller passes the
   vertex positions and the corners DOUBLED (scale 2^(em-1)), so that center = (lower + upper) * 0.5 is `lo + hi` of the undoubled corners.
   `loc` = t.locate(center). *)
Section Queries.
Variable pts : list pnt.
Variable d : dcel.
Variable fuel : nat.

Definition rect_center (lo hi : pnt) : pnt := (Z.div2 (fst lo + fst hi), Z.div2 (snd lo + snd hi))%Z.   (* lower.add(upper).mul(0.5) on doubled coordinates *)

Definition get_edges_in_rectangle (lo hi : pnt) (loc : lres) : option (list nat) :=
  edges_in_shape d (rect_metric pts d lo hi (rect_center lo hi)) fuel loc.
Definition get_vertices_in_rectangle (lo hi : pnt) (loc : lres) : option (list nat) :=
  vertices_in_shape d (rect_metric pts d lo hi (rect_center lo hi)) fuel loc.
Definition get_vertices_in_rectangle_initial (lo hi : pnt) (loc : lres) : option (list nat) :=
  vertices_initial d (rect_metric pts d lo hi (rect_center lo hi)) loc.
(* CircleMetric::new asserts radius_2 >= 0 *)
Definition get_edges_in_circle (c : pnt) (r2 : dy) (loc : lres) : option (list nat) :=
  if (fst r2 <? 0)%Z then None else edges_in_shape d (circle_metric pts d c r2) fuel loc.
Definition get_vertices_in_circle (c : pnt) (r2 : dy) (loc : lres) : option (list nat) :=
  if (fst r2 <? 0)%Z then None else vertices_in_shape d (circle_metric pts d c r2) fuel loc.
Definition get_vertices_in_circle_initial (c : pnt) (r2 : dy) (loc : lres) : option (list nat) :=
  if (fst r2 <? 0)%Z then None else vertices_initial d (circle_metric pts d c r2) loc.
End Queries.
